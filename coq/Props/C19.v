(* C19 - Array items may be referenced by alias, sub-variable id or element id alike;
   datetime elements by position id or by value; stale references are ignored, never raise.

   Model: Model/Shim.v (translate = _ElementIdShim.translate_element_id, shim_xf =
   shimmed_dimension_transforms_dict - since /repo 51c19c01 a dict of the dimension's OWN, the
   caller's dict stays as given -, the consumers elem_xform / mentions / opp_index).
   Spec:  Proofs/ShimSpec.v (levels L_*, spelling, ref, stale, wf, last_for).
   Only statements here; each is closed by [exact <lemma>] and followed by Print Assumptions.

   Reading guide.  The cascade resolves an identifier at the FIRST of six levels it sits at:
     L_alias  it is an alias                      -> itself
     L_eid    it equals a raw element id          -> that element
     L_mrstr  (MR dimension with insertions only) it is str(id) of a NON-inserted element
     L_svid   it is a sub-variable id             -> that element
     L_num    int(it) is a raw element id         -> that element
     L_pos    int(it) is in range(len)            -> the element at that zero-based position
   The six level theorems below are unconditional in the shape of the dimension; each one
   lists as hypotheses exactly the non-capture conditions its proof forces ("x does not sit at
   an earlier level").  [C19_translate_spellings] then shows that for Crunch-shaped
   dimensions ([wf]) all spellings of the property text agree.  The conditions are sharp: the
   C19_*_needed examples exhibit dimensions violating one condition on which the spellings
   diverge (inherent ambiguity of the reference language, not a defect of the code). *)
From Coq Require Import ZArith List Bool Lia Arith String.
From CC Require Import Base.Ident Model.Shim Proofs.ShimSpec Proofs.ShimTranslate
  Proofs.ShimSlots Proofs.ShimDatetime Proofs.ShimWfb.
Import ListNotations.
Local Open Scope nat_scope.
Local Open Scope string_scope.

(* ---- the cascade, level by level ---------------------------------------------------------- *)
Theorem C19_translate_alias d x : L_alias d x -> translate d x = Ok x.
Proof. exact (translate_alias d x). Qed.
Print Assumptions C19_translate_alias.

Theorem C19_translate_eid d x k :
  ~ L_alias d x -> first_at (raw_ids d) x k -> translate d x = Ok (nth_alias d k).
Proof. exact (translate_eid d x k). Qed.
Print Assumptions C19_translate_eid.

Theorem C19_translate_mrstr d x z k :
  ~ L_alias d x -> ~ L_eid d x -> L_mrstr d x -> py_int x = IntOk z ->
  first_at (raw_ids d) (IInt z) k -> translate d x = Ok (nth_alias d k).
Proof. exact (translate_mrstr d x z k). Qed.
Print Assumptions C19_translate_mrstr.

Theorem C19_translate_svid d x k :
  ~ L_alias d x -> ~ L_eid d x -> ~ L_mrstr d x -> first_at (subvar_ids d) x k ->
  translate d x = Ok (nth_alias d k).
Proof. exact (translate_svid d x k). Qed.
Print Assumptions C19_translate_svid.

Theorem C19_translate_num d x z k :
  ~ L_alias d x -> ~ L_eid d x -> ~ L_mrstr d x -> ~ L_svid d x ->
  py_int x = IntOk z -> first_at (raw_ids d) (IInt z) k ->
  translate d x = Ok (nth_alias d k).
Proof. exact (translate_num d x z k). Qed.
Print Assumptions C19_translate_num.

(* a number that is no element id is a zero-based position *)
Theorem C19_translate_pos d x z :
  ~ L_alias d x -> ~ L_eid d x -> ~ L_mrstr d x -> ~ L_svid d x -> ~ L_num d x ->
  py_int x = IntOk z -> (0 <= z < Z.of_nat (List.length (d_items d)))%Z ->
  translate d x = Ok (nth_alias d (Z.to_nat z)).
Proof. exact (translate_pos d x z). Qed.
Print Assumptions C19_translate_pos.

(* a reference that matches nothing resolves to None - without raising *)
Theorem C19_translate_stale d x : stale d x -> translate d x = Ok INone.
Proof. exact (translate_stale d x). Qed.
Print Assumptions C19_translate_stale.

(* the result is always None or an alias of the dimension: nothing else can leak into the
   translated transforms *)
Theorem C19_translate_range d x a : translate d x = Ok a -> a = INone \/ In a (aliases d).
Proof. exact (translate_range d x a). Qed.
Print Assumptions C19_translate_range.

(* None itself (a null in an id list) matches nothing and gives None.  (Since /repo 51c19c01 the
   caller's dict is no longer rewritten, so a stale id is never translated a second time after
   having become None.)  REPAIRED defect
   C19-none-reference-raises: before commit "fix: translate_element_id(None) returns None instead of
   raising TypeError" int(None) raised TypeError here. *)
Theorem C19_translate_none d :
  ~ L_eid d INone -> ~ L_svid d INone -> translate d INone = Ok INone.
Proof. exact (translate_none d). Qed.
Print Assumptions C19_translate_none.

(* no identifier at all makes the cascade raise (element ids are never null) *)
Theorem C19_translate_total d x : ~ In INone (raw_ids d) -> exists a, translate d x = Ok a.
Proof. exact (translate_total d x). Qed.
Print Assumptions C19_translate_total.

(* ... hence rewriting a transforms dict never raises *)
Theorem C19_shim_total d t : ~ In INone (raw_ids d) -> snd (shim_xf d t) = None.
Proof. exact (shim_xf_total d t). Qed.
Print Assumptions C19_shim_total.

(* ---- Crunch-shaped dimensions: every spelling of the property text resolves to the item ---- *)
Theorem C19_translate_spellings d k x :
  wf d -> k < List.length (d_items d) -> spelling d k x -> translate d x = Ok (nth_alias d k).
Proof. exact (fun W => wf_translate_spelling d W k x). Qed.
Print Assumptions C19_translate_spellings.

Theorem C19_translate_position d p :
  wf d -> p < List.length (d_items d) ->
  ~ In (IInt (Z.of_nat p)) (raw_ids d) -> ~ In (IStr (dec (Z.of_nat p))) (subvar_ids d) ->
  translate d (IInt (Z.of_nat p)) = Ok (nth_alias d p) /\
  translate d (IStr (dec (Z.of_nat p))) = Ok (nth_alias d p).
Proof. exact (fun W => wf_translate_position d W p). Qed.
Print Assumptions C19_translate_position.

Theorem C19_wfb_sound d : wfb d = true -> wf d.
Proof. exact (wfb_sound d). Qed.
Print Assumptions C19_wfb_sound.

(* ---- slot theorems ----------------------------------------------------------------------- *)
(* explicit order ids and fixed top/bottom lists (one function rewrites all three): the
   rewritten list depends only on WHICH items are referenced *)
Theorem C19_slot_id_lists d oks l :
  wf d -> Forall2 (ref d) oks l -> replaced_ids d l = Ok (map (oalias d) oks).
Proof. exact (replaced_ids_refs d oks l). Qed.
Print Assumptions C19_slot_id_lists.

(* hide / rename keys: the payload reaching item k is the one of the LAST entry whose key
   refers to item k, for every spelling of the keys; stale keys are dropped *)
Theorem C19_slot_elements d e oks k :
  wf d -> usual_mode e -> Forall2 (ref d) oks (map fst e) -> k < List.length (d_items d) ->
  exists e', replaced_elements d e = Ok e' /\
             elem_xform d (Some e') k = last_for k (combine oks (map snd e)).
Proof. exact (elements_slot d e oks k). Qed.
Print Assumptions C19_slot_elements.

(* the same with "key": "subvar_id" (keys are sub-variable ids only) *)
Theorem C19_slot_elements_subvar_key d e oks k :
  wf d -> dget key_str e = Some KeySubvar -> Forall2 (svref d) oks (map fst e) ->
  k < List.length (d_items d) ->
  exists e', replaced_elements d e = Ok e' /\
             elem_xform d (Some e') k = last_for k (combine oks (map snd e)).
Proof. exact (elements_slot_subvar d e oks k). Qed.
Print Assumptions C19_slot_elements_subvar_key.

Theorem C19_slot_elements_alias_key d e :
  dget key_str e = Some KeyAlias -> replaced_elements d e = Ok e.
Proof. exact (replaced_elements_alias d e). Qed.
Print Assumptions C19_slot_elements_alias_key.

(* late translation of the opposing element id (sort rows by a column / columns by a row) *)
Theorem C19_slot_opposing d ok x :
  wf d -> ref d ok x -> opp_index d x = Ok (py_index (oalias d ok) (valid_aliases d)).
Proof. exact (opp_index_ref d ok x). Qed.
Print Assumptions C19_slot_opposing.

Theorem C19_slot_opposing_stale d x :
  wf d -> stale d x -> opp_index d x = Ok None.
Proof. exact (opp_index_stale d x). Qed.
Print Assumptions C19_slot_opposing_stale.

(* all slots at once: two transforms dicts that reference the same items (re/ri/rt/rb say
   which, per slot) with the same payloads are rewritten to the very same dict *)
Theorem C19_shim_spelling_equiv d t1 t2 re ri rt rb :
  wf d ->
  elem_refs d re (x_elements t1) -> opt_refs d ri (x_ids t1) ->
  opt_refs d rt (x_top t1) -> opt_refs d rb (x_bottom t1) ->
  elem_refs d re (x_elements t2) -> opt_refs d ri (x_ids t2) ->
  opt_refs d rt (x_top t2) -> opt_refs d rb (x_bottom t2) ->
  payloads t1 = payloads t2 ->
  shim_xf d t1 = shim_xf d t2.
Proof. exact (shim_xf_spelling_equiv d t1 t2 re ri rt rb). Qed.
Print Assumptions C19_shim_spelling_equiv.

Theorem C19_shim_refs d t re ri rt rb :
  wf d -> elem_refs d re (x_elements t) -> opt_refs d ri (x_ids t) ->
  opt_refs d rt (x_top t) -> opt_refs d rb (x_bottom t) ->
  shim_xf d t = (mk_xf (built d re (payloads t)) (oaliases d ri) (oaliases d rt) (oaliases d rb), None).
Proof. exact (shim_xf_refs d t re ri rt rb). Qed.
Print Assumptions C19_shim_refs.

(* ---- datetime: position id <-> value ------------------------------------------------------ *)
Theorem C19_datetime_pos_value d p v :
  dt_wf d -> In (IInt p, DVal v) d ->
  dt_translate d (IInt p) = TId v /\ ((0 <= p)%Z -> dt_translate d (IStr (dec p)) = TId v).
Proof. exact (dt_translate_position d p v). Qed.
Print Assumptions C19_datetime_pos_value.

(* the missing ("No Data") element may sit anywhere (first, in the middle, several of them): the
   elements AFTER it keep their own ids - a position id is the element's "id" field, not its rank
   among the non-missing elements - and int, digit-string and value spellings still agree *)
Theorem C19_datetime_pos_value_after_missing pre m post p v :
  dt_wf (pre ++ (m, DMissing) :: post)%list -> In (IInt p, DVal v) post ->
  dt_translate (pre ++ (m, DMissing) :: post)%list (IInt p) = TId v /\
  ((0 <= p)%Z -> dt_translate (pre ++ (m, DMissing) :: post)%list (IStr (dec p)) = TId v).
Proof. exact (dt_translate_position_after_missing pre m post p v). Qed.
Print Assumptions C19_datetime_pos_value_after_missing.

(* conversely: what a reference is translated to (other than itself) is the value of the element
   carrying exactly that id - never a neighbour's *)
Theorem C19_datetime_own_element d x v :
  dt_translate d x = TId v -> v <> x -> In (dt_key x, DVal v) d.
Proof. exact (dt_translate_own_element d x v). Qed.
Print Assumptions C19_datetime_own_element.

Theorem C19_datetime_value_fixed d k v : dt_wf d -> In (k, DVal v) d -> dt_translate d v = TId v.
Proof. exact (dt_translate_value d k v). Qed.
Print Assumptions C19_datetime_value_fixed.

Theorem C19_datetime_stale d x : ~ In (dt_key x) (dt_ids d) -> dt_translate d x = TId x.
Proof. exact (dt_translate_stale d x). Qed.
Print Assumptions C19_datetime_stale.

Theorem C19_datetime_idem d l r :
  dt_wf d -> dt_replaced_ids d l = map TId r -> dt_replaced_ids d r = map TId r.
Proof. exact (dt_replaced_ids_idem d l r). Qed.
Print Assumptions C19_datetime_idem.

(* REPAIRED defect C19-datetime-missing-position (commit "fix: a datetime reference to the missing
   element's position is left alone").  The position id of the missing ("No Data") element used
   to translate to its value, the JSON object {"?": -1}, which cannot be a dict key (TypeError in
   the element-transforms rewrite) nor be looked up by the collators.  Now it is left alone, no
   reference ever translates to the object, and the rewrite of the keys is total: "references that
   match nothing are ignored rather than raising". *)
Theorem C19_datetime_missing_position d k :
  NoDup (dt_ids d) -> In (k, DMissing) d -> dt_key k = k -> dt_translate d k = TId k.
Proof. exact (dt_translate_missing d k). Qed.
Print Assumptions C19_datetime_missing_position.

Theorem C19_datetime_never_object d x : dt_translate d x <> TObj.
Proof. exact (dt_translate_never_obj d x). Qed.
Print Assumptions C19_datetime_never_object.

Theorem C19_datetime_elements_total d e : exists e', dt_replaced_elements d e = Ok e'.
Proof. exact (dt_replaced_elements_total d e). Qed.
Print Assumptions C19_datetime_elements_total.

(* the former witness: position 2 of the missing element as a hide key *)
Example C19_datetime_missing_example :
  let d := [(IInt 0, DVal (IStr "2010-01")); (IInt 1, DVal (IStr "2010-02")); (IInt 2, DMissing)] in
  dt_translate d (IInt 2) = TId (IInt 2) /\ dt_translate d (IStr "2") = TId (IStr "2") /\
  dt_replaced_elements d [(IStr "2", Payload 0); (IStr "1", Payload 1)] =
    Ok [(IStr "2", Payload 0); (IStr "2010-02", Payload 1)].
Proof. vm_compute. repeat split; reflexivity. Qed.

(* ---- non-vacuity and sharpness ------------------------------------------------------------ *)
(* a typical MR dimension with an inserted item, ids 1..4, sub-variable ids "0001".. *)
Definition ex_dim : adim :=
  mk_adim [ mk_item (IInt 1) (Some (IStr "A&B")) (Some (IStr "A&B")) true false;
            mk_item (IInt 2) (Some (IStr "0004")) (Some (IStr "bool1")) false false;
            mk_item (IInt 3) (Some (IStr "0005")) (Some (IStr "bool2")) false false;
            mk_item (IInt 4) (Some (IStr "0006")) (Some (IStr "bool3")) false true ] true.

Example C19_example_wf : wf ex_dim.
Proof. apply wfb_sound. vm_compute. reflexivity. Qed.

Example C19_example_spellings :
  translate ex_dim (IStr "bool2") = Ok (IStr "bool2") /\
  translate ex_dim (IStr "0005") = Ok (IStr "bool2") /\
  translate ex_dim (IInt 3) = Ok (IStr "bool2") /\
  translate ex_dim (IStr "3") = Ok (IStr "bool2") /\
  translate ex_dim (IInt 0) = Ok (IStr "A&B") /\           (* 0 is no element id: position *)
  translate ex_dim (IStr "0009") = Ok INone /\             (* stale *)
  translate ex_dim INone = Ok INone.                       (* null: matches nothing *)
Proof. vm_compute. repeat split; reflexivity. Qed.

(* None is a reference to nothing in the sense of the slot theorems *)
Example C19_example_none_ref : ref ex_dim None INone.
Proof.
  unfold ref, stale, L_alias, L_eid, L_mrstr, L_svid, L_num, L_pos.
  split; [|split; [|split; [|split; [|split]]]].
  - vm_compute. intuition discriminate.
  - vm_compute. intuition discriminate.
  - intros [_ H]. vm_compute in H. intuition discriminate.
  - vm_compute. intuition discriminate.
  - intros [z [H _]]. discriminate H.
  - intros [z [H _]]. discriminate H.
Qed.

Example C19_example_slots :
  let t1 := mk_xf (Some [(IStr "0005", Payload 7); (IStr "zz", Payload 8)])
                  (Some [IInt 3; IStr "nope"; IStr "bool1"]) (Some [IStr "2"]) None in
  let t2 := mk_xf (Some [(IInt 3, Payload 7); (IInt 99, Payload 8)])
                  (Some [IStr "bool2"; IInt 77; IStr "0004"]) (Some [IStr "bool1"]) None in
  shim_xf ex_dim t1 = shim_xf ex_dim t2 /\
  shim_xf ex_dim t1 =
    (mk_xf (Some [(IStr "bool2", Payload 7)])
           (Some [IStr "bool2"; INone; IStr "bool1"]) (Some [IStr "bool1"]) None, None) /\
  opp_index ex_dim (IStr "0005") = Ok (Some 2) /\ opp_index ex_dim (IStr "0006") = Ok None.
Proof. vm_compute. repeat split; reflexivity. Qed.

(* sharpness of the side conditions (no defect: the reference language is ambiguous there) *)
(* a sub-variable id that reads like ANOTHER item's element id: without MR insertions the
   sub-variable id wins, with MR insertions the element id wins *)
Example C19_sv_eidstr_needed :
  let items := [ mk_item (IInt 1) (Some (IStr "2")) (Some (IStr "a")) false false;
                 mk_item (IInt 2) (Some (IStr "1")) (Some (IStr "b")) false false ] in
  translate (mk_adim items false) (IStr "2") = Ok (IStr "a") /\
  translate (mk_adim items true) (IStr "2") = Ok (IStr "b").
Proof. vm_compute. split; reflexivity. Qed.

(* an alias that is a number / another item's sub-variable id captures that spelling *)
Example C19_alias_capture_needed :
  let items := [ mk_item (IInt 1) (Some (IStr "0001")) (Some (IStr "0002")) false false;
                 mk_item (IInt 2) (Some (IStr "0002")) (Some (IStr "b")) false false ] in
  translate (mk_adim items false) (IStr "0002") = Ok (IStr "0002").
Proof. vm_compute. reflexivity. Qed.

(* a number that IS an element id is not a position *)
Example C19_position_needed :
  translate ex_dim (IInt 1) = Ok (IStr "A&B") /\ translate ex_dim (IStr "1") = Ok (IStr "A&B").
Proof. vm_compute. split; reflexivity. Qed.

(* missing elements first and in the middle: position 3 is "2010-02" (a crosswalk keyed by rank among
   the non-missing elements would answer "2010-03"), position 4 is "2010-03" (by rank: nothing) *)
Example C19_datetime_missing_middle_example :
  let d := [(IInt 0, DMissing); (IInt 1, DVal (IStr "2010-01")); (IInt 2, DMissing);
            (IInt 3, DVal (IStr "2010-02")); (IInt 4, DVal (IStr "2010-03"))] in
  dt_wf d /\
  dt_translate d (IInt 3) = TId (IStr "2010-02") /\ dt_translate d (IStr "3") = TId (IStr "2010-02") /\
  dt_translate d (IInt 4) = TId (IStr "2010-03") /\ dt_translate d (IStr "4") = TId (IStr "2010-03") /\
  dt_translate d (IInt 1) = TId (IStr "2010-01") /\
  dt_translate d (IInt 0) = TId (IInt 0) /\ dt_translate d (IStr "2") = TId (IStr "2") /\
  dt_replaced_ids d [IInt 4; IStr "3"; IStr "2010-01"; IInt 2] =
    [TId (IStr "2010-03"); TId (IStr "2010-02"); TId (IStr "2010-01"); TId (IInt 2)].
Proof.
  cbv zeta. split.
  - split; [repeat constructor; simpl; intuition discriminate|].
    intros k v H. simpl in H. destruct H as [H|[H|[H|[H|[H|[]]]]]]; inversion H; subst; simpl;
      intuition discriminate.
  - vm_compute. repeat split; reflexivity.
Qed.

Example C19_datetime_example :
  let d := [(IInt 0, DVal (IStr "2010-01")); (IInt 1, DVal (IStr "2010-02")); (IInt 2, DMissing)] in
  dt_wf d /\
  dt_translate d (IInt 1) = TId (IStr "2010-02") /\ dt_translate d (IStr "1") = TId (IStr "2010-02") /\
  dt_translate d (IStr "2010-02") = TId (IStr "2010-02") /\ dt_translate d (IInt 9) = TId (IInt 9).
Proof.
  cbv zeta. split.
  - split; [repeat constructor; simpl; intuition discriminate|].
    intros k v H. simpl in H. destruct H as [H|[H|[H|[]]]]; inversion H; subst; simpl;
      intuition discriminate.
  - vm_compute. repeat split; reflexivity.
Qed.

(*BEGIN GenAgreeDimension_C19*)
(* ------------------------------------------------------------------------------------ *)
(* SOURCE TEXT of _ElementIdShim.  Gen/DimensionSrc.v is regenerated on every check from src/cr/cube/dimension.py
   by harness/translate/x_dimension.py (shallow translation over the Python-semantics combinators of Base/PyList.v +
   Base/PyDict.v + Model/PyDimension.v; the embedding is by VALUE: an in-place change of an object the function did
   not create is the outcome MutatesCaller, which equals no model result).  For ALL dimension dicts whose
   type.elements reads as the model's [adim] ([adim_of] / [item_of]: Proofs/GenAgreeDimensionShim.v) and all
   identifiers on which the model's restricted int(str) agrees with Python's ([int_agrees]), _subvar_aliases /
   _raw_element_ids / _subvar_ids / _has_mr_insertion / translate_element_id / _replaced_order_element_ids ARE
   [aliases] / [raw_ids] / [subvar_ids] / [d_mr_ins] / [translate] / [replaced_ids] of Model/Shim.v; [conv] reads a
   result of the model in the exception monad of the generated text. *)
From CC Require Proofs.GenAgreeDimensionShim Proofs.GenAgreeDimensionShimDict Proofs.GenAgreeDimensionShimDt Model.Shim.
Section GenAgreeDimension_C19.   (* scopes and imports below end with the section *)
Import Coq.Lists.List Coq.ZArith.ZArith Coq.Strings.String Coq.Bool.Bool CC.Base.XQ CC.Base.Ident CC.Base.PyList
       CC.Base.PyDict CC.Model.DimType CC.Model.PyDimension CC.Gen.DimensionSrc CC.Proofs.GenAgreeDimensionLib
       CC.Proofs.GenAgreeDimensionSubtotal CC.Proofs.GenAgreeDimensionShim CC.Proofs.GenAgreeDimensionShimDict
       CC.Proofs.GenAgreeDimensionShimDt.
Import Coq.Lists.List.ListNotations.
Local Close Scope Q_scope.
Local Open Scope Z_scope.

Theorem C19_gen_dim__ElementIdShim__subvar_aliases :
  match src__ElementIdShim__subvar_aliases with
  | Some f => forall t dd tr d, adim_of t dd = Some d ->
      f (mkPyShim t (JDict dd) tr) = Ok (map jv_of_ident (Shim.aliases d))
  | None => True end.
Proof. exact gen__ElementIdShim__subvar_aliases. Qed.
Print Assumptions C19_gen_dim__ElementIdShim__subvar_aliases.

Theorem C19_gen_dim__ElementIdShim__raw_element_ids :
  match src__ElementIdShim__raw_element_ids with
  | Some f => forall t dd tr d, adim_of t dd = Some d ->
      f (mkPyShim t (JDict dd) tr) = Ok (map jv_of_ident (Shim.raw_ids d))
  | None => True end.
Proof. exact gen__ElementIdShim__raw_element_ids. Qed.
Print Assumptions C19_gen_dim__ElementIdShim__raw_element_ids.

Theorem C19_gen_dim__ElementIdShim__subvar_ids :
  match src__ElementIdShim__subvar_ids with
  | Some f => forall t dd tr d, adim_of t dd = Some d ->
      f (mkPyShim t (JDict dd) tr) = Ok (map jv_of_ident (Shim.subvar_ids d))
  | None => True end.
Proof. exact gen__ElementIdShim__subvar_ids. Qed.
Print Assumptions C19_gen_dim__ElementIdShim__subvar_ids.

Theorem C19_gen_dim__ElementIdShim__has_mr_insertion :
  match src__ElementIdShim__has_mr_insertion with
  | Some f => forall t dd tr d, adim_of t dd = Some d ->
      f (mkPyShim t (JDict dd) tr) = Ok (Shim.d_mr_ins d)
  | None => True end.
Proof. exact gen__ElementIdShim__has_mr_insertion. Qed.
Print Assumptions C19_gen_dim__ElementIdShim__has_mr_insertion.

Theorem C19_gen_dim__ElementIdShim_translate_element_id_array :
  match src__ElementIdShim_translate_element_id with
  | Some f => forall t dd tr d x, dt_in t [TCaSubvar; TMrSubvar; TNumArr] = true ->
      adim_of t dd = Some d -> int_agrees x ->
      f (mkPyShim t (JDict dd) tr) (jv_of_ident x) = conv jv_of_ident (Shim.translate d x)
  | None => True end.
Proof. exact gen__ElementIdShim_translate_element_id_array. Qed.
Print Assumptions C19_gen_dim__ElementIdShim_translate_element_id_array.

Theorem C19_gen_dim__ElementIdShim_translate_element_id_other :
  match src__ElementIdShim_translate_element_id with
  | Some f => forall t dd tr v, dt_in t [TCaSubvar; TMrSubvar; TNumArr; TDatetime] = false ->
      f (mkPyShim t dd tr) v = Ok v
  | None => True end.
Proof. exact gen__ElementIdShim_translate_element_id_other. Qed.
Print Assumptions C19_gen_dim__ElementIdShim_translate_element_id_other.

Theorem C19_gen_dim__ElementIdShim__replaced_order_element_ids :
  match src__ElementIdShim__replaced_order_element_ids with
  | Some f => forall t dd tr d l, dt_in t [TCaSubvar; TMrSubvar; TNumArr] = true ->
      adim_of t dd = Some d -> Forall int_agrees l ->
      f (mkPyShim t (JDict dd) tr) (JList (map jv_of_ident l))
      = conv (fun r => JList (map jv_of_ident r)) (Shim.replaced_ids d l)
  | None => True end.
Proof. exact gen__ElementIdShim__replaced_order_element_ids. Qed.
Print Assumptions C19_gen_dim__ElementIdShim__replaced_order_element_ids.

Theorem C19_gen_dim__ElementIdShim__replaced_element_transforms :
  match src__ElementIdShim__replaced_element_transforms with
  | Some f => forall t dd tr d pay e, dt_in t [TCaSubvar; TMrSubvar; TNumArr] = true ->
      adim_of t dd = Some d -> pay_ok pay -> NoDup (map fst e) -> Forall int_agrees (map fst e) ->
      f (mkPyShim t (JDict dd) tr) (JDict (jd_of_edict pay e))
      = conv (fun e' => JDict (jd_of_edict pay e')) (Shim.replaced_elements d e)
  | None => True end.
Proof. exact gen__ElementIdShim__replaced_element_transforms. Qed.
Print Assumptions C19_gen_dim__ElementIdShim__replaced_element_transforms.

Theorem C19_gen_dim__ElementIdShim_shimmed_dimension_transforms_dict :
  match src__ElementIdShim_shimmed_dimension_transforms_dict with
  | Some f => forall t dd tr d pay x, dt_in t [TCaSubvar; TMrSubvar; TNumArr] = true ->
      adim_of t dd = Some d -> pay_ok pay -> xf_rel pay tr x -> xf_wf x ->
      shim_agrees pay (f (mkPyShim t (JDict dd) (JDict tr))) (Shim.shim_xf d x)
  | None => True end.
Proof. exact gen__ElementIdShim_shimmed_dimension_transforms_dict. Qed.
Print Assumptions C19_gen_dim__ElementIdShim_shimmed_dimension_transforms_dict.

Theorem C19_gen_dim__ElementIdShim_shimmed_dimension_transforms_dict_other :
  match src__ElementIdShim_shimmed_dimension_transforms_dict with
  | Some f => forall t dd tr, dt_in t [TCaSubvar; TMrSubvar; TNumArr; TDatetime] = false ->
      f (mkPyShim t dd tr) = Ok tr
  | None => True end.
Proof. exact gen__ElementIdShim_shimmed_dimension_transforms_dict_other. Qed.
Print Assumptions C19_gen_dim__ElementIdShim_shimmed_dimension_transforms_dict_other.

Theorem C19_gen_dim__ElementIdShim__element_values_dict :
  match src__ElementIdShim__element_values_dict with
  | Some f => forall t dd tr d, dtdim_of dd = Some d ->
      f (mkPyShim t (JDict dd) tr) = Ok (py_dict_of_pairs jv_eqb (map jv_pair (dt_pairs d)))
  | None => True end.
Proof. exact gen__ElementIdShim__element_values_dict. Qed.
Print Assumptions C19_gen_dim__ElementIdShim__element_values_dict.

Theorem C19_gen_dim__ElementIdShim_translate_element_id_datetime :
  match src__ElementIdShim_translate_element_id with
  | Some f => forall dd tr d x, dtdim_of dd = Some d -> dt_agrees x ->
      f (mkPyShim TDatetime (JDict dd) tr) (jv_of_ident x) = Ok (jv_of_tval (Shim.dt_translate d x))
  | None => True end.
Proof. exact gen__ElementIdShim_translate_element_id_datetime. Qed.
Print Assumptions C19_gen_dim__ElementIdShim_translate_element_id_datetime.

End GenAgreeDimension_C19.
(*END GenAgreeDimension_C19*)
