(* C05 - Display transforms only select and reorder; every output stays aligned.
   Statements only; proofs in Proofs/AssembleProofs.v (assembly), Proofs/AssembleOrder.v,
   Proofs/OrderSbv.v, Proofs/SbvDedup.v (the order lists nothing twice); executable models Model/Assemble.v (np.block + np.ix_,
   hstack + fancy index, labels / fills / position lists / pairwise renumbering) and
   Model/Collator.v (the collators that produce the signed display order).
   Tied to the code by harness/props/c05.py: (a) metamorphic oracle on the implementation
   alone (run with transforms X == run with X stripped of order / hide / prune, re-indexed by
   the reported orders, for every public output), (b) the model run on the untransformed
   run's blocks and the transformed run's reported order.

   Signed index z: z >= 0 base element at payload offset z; z < 0 subtotal at offset
   n_subtotals + z of the dimension's subtotal sequence. *)
From Coq Require Import List ZArith Bool Lia Arith QArith Permutation Sorting.
From CC Require Import Base.XQ Base.ListX Base.SortX Spec.OrderSpec Model.Collator Model.Assemble
  Proofs.OrderVisible Proofs.SbvDedup Proofs.OrderSbv Proofs.AssembleProofs Proofs.AssembleOrder.
Import ListNotations.
Local Close Scope Q_scope.
Local Close Scope Z_scope.
Local Open Scope nat_scope.

(* ---------------------------------------------------------------------------------------
   assemble_reindex
   --------------------------------------------------------------------------------------- *)
(* every cell (i, j) of an assembled matrix (np.block(blocks)[np.ix_(rows, cols)]) is the cell
   of the one block that the signed pair (row_order[i], col_order[j]) names - for blocks of
   any size, any orders (repeats, omissions, any sequence) whose entries are in range *)
Theorem C05_assemble_reindex {A} (d : A) n m p q (B : blocks A) ro co i j :
  wf_blocks n m p q B ->
  i < length ro -> j < length co ->
  in_range m n (nth i ro 0%Z) -> in_range q p (nth j co 0%Z) ->
  gnth d (assemble d n m p q B ro co) i j = block_cell d m q B (nth i ro 0%Z) (nth j co 0%Z).
Proof. exact (assemble_cell d n m p q B ro co i j). Qed.
Print Assumptions C05_assemble_reindex.

(* shape = (|row_order|, |col_order|) *)
Theorem C05_assemble_nrows {A} (d : A) n m p q (B : blocks A) ro co :
  length (assemble d n m p q B ro co) = length ro.
Proof. exact (assemble_nrows d n m p q B ro co). Qed.
Print Assumptions C05_assemble_nrows.

Theorem C05_assemble_ncols {A} (d : A) n m p q (B : blocks A) ro co i :
  i < length ro -> length (nth i (assemble d n m p q B ro co) []) = length co.
Proof. exact (assemble_ncols d n m p q B ro co i). Qed.
Print Assumptions C05_assemble_ncols.

(* marginals, strand measures, labels, codes, aliases: np.hstack(blocks)[order] *)
Theorem C05_vector_reindex {A} (d : A) base subs order i :
  i < length order ->
  in_range (length subs) (length base) (nth i order 0%Z) ->
  nth i (assemble_vec d base subs order) d = vec_cell d base subs (nth i order 0%Z).
Proof. exact (assemble_vec_nth d base subs order i). Qed.
Print Assumptions C05_vector_reindex.

Theorem C05_vector_length {A} (d : A) base subs order :
  length (assemble_vec d base subs order) = length order.
Proof. exact (assemble_vec_length d base subs order). Qed.
Print Assumptions C05_vector_length.

(* fills use their own formula (idx >= 0 ? elements[idx] : subtotals[idx + m]); it is the same
   function of the order vector as the numpy indexing of labels / codes / aliases *)
Theorem C05_fills_same_order {A} (d : A) base subs order :
  Forall (in_range (length subs) (length base)) order ->
  fills_of d base subs order = assemble_vec d base subs order.
Proof. exact (fills_eq_assemble d base subs order). Qed.
Print Assumptions C05_fills_same_order.

(* a whole slice: every output has the extent of the two orders *)
Theorem C05_view_shape R ro co :
  v_shape (slice_view R ro co) = (length ro, length co) /\
  Forall (fun M => length M = length ro /\ Forall (fun r => length r = length co) M)
         (v_measures (slice_view R ro co)) /\
  Forall (fun v => length v = length ro) (v_row_marginals (slice_view R ro co)) /\
  Forall (fun v => length v = length co) (v_col_marginals (slice_view R ro co)) /\
  length (v_row_labels (slice_view R ro co)) = length ro /\
  length (v_col_labels (slice_view R ro co)) = length co.
Proof. exact (slice_view_shape R ro co). Qed.
Print Assumptions C05_view_shape.

(* ---------------------------------------------------------------------------------------
   blocks_indep: the blocks are an argument of the assembly, not a function of the orders; so
   the output under ANY transforms (orders ro, co) is the output under the untransformed
   orders (ro0, co0: any orders that still show the vectors concerned) re-indexed
   --------------------------------------------------------------------------------------- *)
Theorem C05_blocks_indep {A} (d : A) n m p q (B : blocks A) ro co ro0 co0 i j :
  wf_blocks n m p q B ->
  i < length ro -> j < length co ->
  in_range m n (nth i ro 0%Z) -> in_range q p (nth j co 0%Z) ->
  In (nth i ro 0%Z) ro0 -> In (nth j co 0%Z) co0 ->
  gnth d (assemble d n m p q B ro co) i j =
  gnth d (assemble d n m p q B ro0 co0) (pos_of (nth i ro 0%Z) ro0) (pos_of (nth j co 0%Z) co0).
Proof. exact (assemble_of_untransformed d n m p q B ro co ro0 co0 i j). Qed.
Print Assumptions C05_blocks_indep.

Theorem C05_blocks_indep_vector {A} (d : A) base subs order order0 i :
  i < length order ->
  in_range (length subs) (length base) (nth i order 0%Z) ->
  In (nth i order 0%Z) order0 ->
  nth i (assemble_vec d base subs order) d =
  nth (pos_of (nth i order 0%Z) order0) (assemble_vec d base subs order0) d.
Proof. exact (assemble_vec_of_untransformed d base subs order order0 i). Qed.
Print Assumptions C05_blocks_indep_vector.

(* ---------------------------------------------------------------------------------------
   position-valued outputs
   --------------------------------------------------------------------------------------- *)
Theorem C05_inserted_idxs order k :
  In k (inserted_idxs order) <-> k < length order /\ (nth k order 0%Z < 0)%Z.
Proof. exact (inserted_idxs_spec order k). Qed.
Print Assumptions C05_inserted_idxs.

Theorem C05_diff_idxs nvalid is_diff order k :
  Forall (in_range (length is_diff) nvalid) order ->
  (In k (diff_idxs nvalid is_diff order) <->
   k < length order /\ (nth k order 0%Z < 0)%Z /\
   nth (Z.to_nat (nth k order 0%Z + Z.of_nat (length is_diff))) is_diff false = true).
Proof. exact (diff_idxs_spec nvalid is_diff order k). Qed.
Print Assumptions C05_diff_idxs.

Theorem C05_derived_idxs_strand derived nsub order k :
  Forall (in_range nsub (length derived)) order ->
  (In k (derived_idxs_strand derived nsub order) <->
   k < length order /\ (0 <= nth k order 0%Z)%Z /\ nth (Z.to_nat (nth k order 0%Z)) derived false = true).
Proof. exact (derived_idxs_strand_spec derived nsub order k). Qed.
Print Assumptions C05_derived_idxs_strand.

(* a slice pads the flag vector with one False per subtotal, exactly like a strand (since the repair
   of finding C05-derived-idxs-indexerror): position k is reported iff the k-th displayed vector is
   a derived ELEMENT, for any number of subtotals *)
Theorem C05_derived_idxs_slice derived nsub order k :
  Forall (in_range nsub (length derived)) order ->
  (In k (derived_idxs_slice derived nsub order) <->
   k < length order /\ (0 <= nth k order 0%Z)%Z /\ nth (Z.to_nat (nth k order 0%Z)) derived false = true).
Proof. exact (derived_idxs_slice_spec derived nsub order k). Qed.
Print Assumptions C05_derived_idxs_slice.

(* the former witnesses of that finding (padding with n_elements): one derived element and two
   subtotals - the subtotal -2 was reported as derived; one element and three subtotals - index -3
   was out of bounds (IndexError).  Now: no subtotal is reported, the element is *)
Theorem C05_derived_idxs_slice_former_witness :
  derived_idxs_slice [true] 2 [(-2)%Z] = [] /\
  derived_idxs_slice [true] 3 [(-3)%Z; 0%Z; (-1)%Z] = [1] /\
  Forall (in_range 3 (length [true])) [(-3)%Z; 0%Z; (-1)%Z].
Proof. exact derived_idxs_slice_former_witness. Qed.
Print Assumptions C05_derived_idxs_slice_former_witness.

(* pairwise index sets are renumbered through the column order: display position k is listed
   iff the column displayed at k is one of the significant columns; ascending; and under a
   duplicate-free order each listed position is THE display position of its column *)
Theorem C05_pairwise_renumber co sig k :
  In k (renumber co sig) <-> k < length co /\ In (nth k co 0%Z) sig.
Proof. exact (renumber_spec co sig k). Qed.
Print Assumptions C05_pairwise_renumber.

Theorem C05_pairwise_renumber_increasing co sig : StronglySorted lt (renumber co sig).
Proof. exact (renumber_increasing co sig). Qed.
Print Assumptions C05_pairwise_renumber_increasing.

Theorem C05_pairwise_renumber_unique co sig k :
  NoDup co -> In k (renumber co sig) -> k = pos_of (nth k co 0%Z) co.
Proof. exact (renumber_unique co sig k). Qed.
Print Assumptions C05_pairwise_renumber_unique.

(* ---------------------------------------------------------------------------------------
   order_nodup: the signed display order of EVERY order helper of the model (payload, explicit,
   sort-by-value incl. the fallback; hide, prune, subtotal pruning) lists no element or
   subtotal twice and only indexes -n_subtotals .. n_elements-1 - whatever the fixed lists of a
   value sort name (repeats inside a list, the same id at both ends, stale ids).
   [values_fit]: the sort-value vectors have one entry per element / per subtotal.
   --------------------------------------------------------------------------------------- *)
Theorem C05_order_nodup d o empties psub order :
  NoDup (d_ids d) -> values_fit d o ->
  display_order d o empties psub = Ok order ->
  NoDup order /\
  Forall (in_range (List.length (subtotals d)) (List.length (d_elems d))) order.
Proof. exact (display_order_nodup d o empties psub order). Qed.
Print Assumptions C05_order_nodup.

(* payload / explicit collators (no value vectors) *)
Theorem C05_order_nodup_anchored d k empties psub order :
  NoDup (d_ids d) ->
  display_order d (ByAnchor k) empties psub = Ok order ->
  NoDup order /\
  Forall (in_range (List.length (subtotals d)) (List.length (d_elems d))) order.
Proof. exact (anchored_order_nodup d k empties psub order). Qed.
Print Assumptions C05_order_nodup_anchored.

(* the sort-by-value collator itself: no hypothesis at all *)
Theorem C05_sbv_nodup d s vals svals empties : NoDup (sbv_display d s vals svals empties).
Proof. exact (sbv_nodup d s vals svals empties). Qed.
Print Assumptions C05_sbv_nodup.

(* the collator keeps the first mention of every index of the concatenated groups
   (tuple(dict.fromkeys(...)) read as successive insertions) *)
Theorem C05_first_mentions_step l z :
  first_mentions (l ++ [z]) = if zmem z l then first_mentions l else first_mentions l ++ [z].
Proof. exact (first_mentions_snoc l z). Qed.
Print Assumptions C05_first_mentions_step.

(* the former witness of finding C05-fixed-repeats (repaired in /repo 471ab8ef): fixed =
   {top: [2, 2], bottom: [2]} listed the element with id 2 thrice - the concatenation before the
   de-duplication is still [1; 1; 2; 0; 1] - and now lists it once, where it is first mentioned *)
Theorem C05_order_nodup_former_witness :
  NoDup (d_ids refuting_dim) /\
  values_fit refuting_dim (ByValue refuting_sort (Some (refuting_vals, []))) /\
  ~ fixed_once (d_ids refuting_dim) refuting_sort /\
  sbv_plain refuting_dim refuting_sort refuting_vals [] [] = [1; 1; 2; 0; 1]%Z /\
  display_order refuting_dim (ByValue refuting_sort (Some (refuting_vals, []))) [] false
  = Ok [1; 2; 0]%Z /\
  NoDup [1; 2; 0]%Z.
Proof. exact sbv_nodup_former_witness. Qed.
Print Assumptions C05_order_nodup_former_witness.

(* ---------------------------------------------------------------------------------------
   scalars_invariant, and "hidden and pruned elements still count"
   --------------------------------------------------------------------------------------- *)
(* scalars (table base / margin, ranges, population fraction) are carried through unchanged *)
Theorem C05_scalars_invariant R ro co ro' co' :
  v_scalars (slice_view R ro co) = v_scalars (slice_view R ro' co').
Proof. exact (slice_view_scalars R ro co ro' co'). Qed.
Print Assumptions C05_scalars_invariant.

(* under a duplicate-free order the displayed base values together with the values of the
   elements that are not displayed are exactly the base block ... *)
Theorem C05_displayed_plus_hidden {A} (d : A) (base : list A) order :
  NoDup order -> Forall (fun z => (z < Z.of_nat (length base))%Z) order ->
  Permutation (map (fun i => nth i base d) (shown_idxs order)
               ++ map (fun i => nth i base d) (hidden_of (length base) order))
              base.
Proof. exact (displayed_plus_hidden d base order). Qed.
Print Assumptions C05_displayed_plus_hidden.

(* ... so a total over the base block is the displayed total PLUS the hidden / pruned total:
   a base or margin recomputed from the displayed vectors alone would lose the second term *)
Theorem C05_hidden_still_count (base : list Q) order :
  NoDup order -> Forall (fun z => (z < Z.of_nat (length base))%Z) order ->
  (qsum (map (fun i => nth i base 0%Q) (shown_idxs order))
   + qsum (map (fun i => nth i base 0%Q) (hidden_of (length base) order)) == qsum base)%Q.
Proof. exact (total_counts_hidden base order). Qed.
Print Assumptions C05_hidden_still_count.

(* ---------------------------------------------------------------------------------------
   the hypotheses are inhabited by non-trivial instances
   --------------------------------------------------------------------------------------- *)
Definition ex_blocks : blocks Z :=
  mkBlocks [[11; 12; 13]; [21; 22; 23]]%Z      (* 2 x 3 base *)
           [[14]; [24]]%Z                      (* 2 x 1 subtotal column *)
           [[31; 32; 33]; [41; 42; 43]]%Z      (* 2 subtotal rows *)
           [[34]; [44]]%Z.

Example ex_wf : wf_blocks 2 2 3 1 ex_blocks.
Proof. repeat split; repeat constructor. Qed.

(* rows: subtotal -1 first, element 1, subtotal -2 (element 0 hidden); columns reversed with
   the subtotal column second *)
Example ex_assemble :
  assemble 0%Z 2 2 3 1 ex_blocks [-1; 1; -2]%Z [2; -1; 0]%Z
  = [[43; 44; 41]; [23; 24; 21]; [33; 34; 31]]%Z.
Proof. vm_compute. reflexivity. Qed.

Example ex_untransformed :
  assemble 0%Z 2 2 3 1 ex_blocks [0; -2; 1; -1]%Z [0; 1; 2; -1]%Z
  = [[11; 12; 13; 14]; [31; 32; 33; 34]; [21; 22; 23; 24]; [41; 42; 43; 44]]%Z
  /\ pos_of (-1)%Z [0; -2; 1; -1]%Z = 3 /\ pos_of 2%Z [0; 1; 2; -1]%Z = 2.
Proof. vm_compute. repeat split. Qed.

Example ex_vector :
  assemble_vec 0%Z [10; 20; 30]%Z [70; 80]%Z [-1; 2; 0; -2]%Z = [80; 30; 10; 70]%Z
  /\ fills_of 0%Z [10; 20; 30]%Z [70; 80]%Z [-1; 2; 0; -2]%Z = [80; 30; 10; 70]%Z.
Proof. vm_compute. split; reflexivity. Qed.

Example ex_positions :
  inserted_idxs [-1; 2; 0; -2]%Z = [0; 3]
  /\ diff_idxs 3 [true; false] [-1; 2; 0; -2]%Z = [3]
  /\ derived_idxs_strand [false; false; true] 2 [-1; 2; 0; -2]%Z = [1]
  /\ renumber [2; -1; 0]%Z [0; 2]%Z = [0; 2].
Proof. vm_compute. repeat split. Qed.

(* sort-by-value orders with fixed lists: an id of the dimension named at both ends and repeated, a
   stale id (9) repeated; the hypotheses of C05_order_nodup hold and so does its conclusion *)
Example ex_fixed_repeats :
  values_fit refuting_dim
    (ByValue (mkSort true [IInt 3; IInt 9; IInt 9; IInt 3] [IInt 1; IInt 3]) (Some (refuting_vals, []))) /\
  display_order refuting_dim
    (ByValue (mkSort true [IInt 3; IInt 9; IInt 9; IInt 3] [IInt 1; IInt 3]) (Some (refuting_vals, []))) [] false
  = Ok [2; 1; 0]%Z /\
  display_order refuting_dim
    (ByValue (mkSort false [IInt 1] [IInt 2; IInt 1; IInt 2]) (Some (refuting_vals, []))) [0] false
  = Ok [0; 2; 1]%Z.
Proof. split; [split; reflexivity|split; vm_compute; reflexivity]. Qed.

(* the slice's derived positions with more subtotals than twice the elements *)
Example ex_derived_slice :
  derived_idxs_slice [false; true] 5 [-5; 1; -1; 0; -4]%Z = [1].
Proof. vm_compute. reflexivity. Qed.

Example ex_hidden_count :
  shown_idxs [-1; 2; 0]%Z = [2; 0] /\ hidden_of 3 [-1; 2; 0]%Z = [1].
Proof. vm_compute. split; reflexivity. Qed.

(* =======================================================================================
   Source-translator obligations (round 3, harness/translate/x_assemble.py): the ASSEMBLY step of
   src/cr/cube/cubepart.py is read from the source text on every check (Gen/AssembleSrc.v, meaning:
   Base/AsmExp.v - np.block, np.hstack / np.concatenate, np.ix_, fancy indexing with negative wrap-around
   and IndexError, Python list `+`, np.where, generators over the order) and proved, for ALL sizes and
   ALL in-range signed orders, to denote the definitions of Model/Assemble.v the theorems above are about
   (Proofs/GenAgreeAssemble.v).  A source member outside the translator's whitelist is `None` here and
   its statement `True` (then the check reports the obligation as unavailable).
   ======================================================================================= *)
From Coq Require String.
From CC Require Base.AsmExp Gen.AssembleSrc Proofs.GenAgreeAssemble.
Section GenAgreeAssemble_C05.   (* scopes and imports below end with the section *)
Import Coq.Strings.String CC.Base.AsmExp CC.Gen.AssembleSrc CC.Proofs.GenAgreeAssemble.
Local Open Scope string_scope.

(* _Slice._assemble_matrix = np.block(blocks)[np.ix_(row order, column order)] IS [assemble] ... *)
Theorem C05_gen_Slice__assemble_matrix :
  match asm_Slice__assemble_matrix with
  | Some e => forall (A : Type) (d : A) lit truthy n m p q (B : blocks A) ro co,
      wf_blocks n m p q B -> Forall (in_range m n) ro -> Forall (in_range q p) co ->
      aeval A d lit truthy (env_slice [("blocks", blocks_val n m p q B)] ro co) e
      = VMat (List.length ro) (List.length co) (assemble d n m p q B ro co)
  | None => True
  end.
Proof. exact gen_Slice__assemble_matrix. Qed.
Print Assumptions C05_gen_Slice__assemble_matrix.

(* ... so cell (i, j) of what the source text computes is the cell of the block selected by the signs of
   row_order[i], column_order[j] *)
Theorem C05_gen_Slice__assemble_matrix_cell :
  match asm_Slice__assemble_matrix with
  | Some e => forall (A : Type) (d : A) lit truthy n m p q (B : blocks A) ro co,
      wf_blocks n m p q B -> Forall (in_range m n) ro -> Forall (in_range q p) co ->
      exists M, aeval A d lit truthy (env_slice [("blocks", blocks_val n m p q B)] ro co) e
                = VMat (List.length ro) (List.length co) M /\
                forall i j, i < List.length ro -> j < List.length co ->
                  gnth d M i j = block_cell d m q B (nth i ro 0%Z) (nth j co 0%Z)
  | None => True
  end.
Proof. exact gen_Slice__assemble_matrix_cell. Qed.
Print Assumptions C05_gen_Slice__assemble_matrix_cell.

(* _Slice._assemble_marginal: None when the marginal is undefined, else np.hstack(blocks)[order] with the
   ROW order for a ROWS marginal and the COLUMN order otherwise *)
Theorem C05_gen_Slice__assemble_marginal :
  match asm_Slice__assemble_marginal with
  | Some e => forall (A : Type) (d : A) lit truthy (defined rows : bool) base subs ro co,
      Forall (in_range (List.length subs) (List.length base)) (if rows then ro else co) ->
      aeval A d lit truthy (env_marginal defined rows base subs ro co) e
      = if defined then VVec (assemble_vec d base subs (if rows then ro else co)) else VNone
  | None => True
  end.
Proof. exact gen_Slice__assemble_marginal. Qed.
Print Assumptions C05_gen_Slice__assemble_marginal.

(* _Strand._assemble_vector = np.concatenate(blocks)[row order] *)
Theorem C05_gen_Strand__assemble_vector :
  match asm_Strand__assemble_vector with
  | Some e => forall (A : Type) (d : A) lit truthy base subs so,
      Forall (in_range (List.length subs) (List.length base)) so ->
      aeval A d lit truthy (env_strand [("blocks", vblocks_val base subs)] so) e
      = VVec (assemble_vec d base subs so)
  | None => True
  end.
Proof. exact gen_Strand__assemble_vector. Qed.
Print Assumptions C05_gen_Strand__assemble_vector.

(* the orders the assembly uses: the matrix ROW factory, the matrix COLUMN factory, the stripe factory,
   each asked for SIGNED_INDEXES *)
Theorem C05_gen_order_signed_indexes :
  (match asm_Slice__row_order_signed_indexes with
   | Some e => forall (A : Type) (d : A) lit truthy ins ro co,
       aeval A d lit truthy (env_slice ins ro co) e = VInts ro
   | None => True end) /\
  (match asm_Slice__column_order_signed_indexes with
   | Some e => forall (A : Type) (d : A) lit truthy ins ro co,
       aeval A d lit truthy (env_slice ins ro co) e = VInts co
   | None => True end) /\
  (match asm_Strand__row_order_signed_indexes with
   | Some e => forall (A : Type) (d : A) lit truthy ins so,
       aeval A d lit truthy (env_strand ins so) e = VInts so
   | None => True end).
Proof. exact gen_order_signed_indexes. Qed.
Print Assumptions C05_gen_order_signed_indexes.

(* labels, codes, aliases: np.array(element attribute + subtotal attribute)[order] IS [assemble_vec] - rows
   from dimension 0 with the row order, columns from dimension 1 with the column order ([labels_agree]:
   for all element types, attribute lists and in-range orders) *)
Theorem C05_gen_labels :
  labels_agree asm_Slice_row_labels "dim0" "element_labels" "subtotal_labels" true /\
  labels_agree asm_Slice_row_codes "dim0" "element_ids" "insertion_ids" true /\
  labels_agree asm_Slice_row_aliases "dim0" "element_aliases" "subtotal_aliases" true /\
  labels_agree asm_Slice_column_labels "dim1" "element_labels" "subtotal_labels" false /\
  labels_agree asm_Slice_column_codes "dim1" "element_ids" "insertion_ids" false /\
  labels_agree asm_Slice_column_aliases "dim1" "element_aliases" "subtotal_aliases" false /\
  strand_labels_agree asm_Strand_row_labels "element_labels" "subtotal_labels" /\
  strand_labels_agree asm_Strand_row_codes "element_ids" "insertion_ids" /\
  strand_labels_agree asm_Strand_row_aliases "element_aliases" "subtotal_aliases".
Proof.
  exact (conj gen_Slice_row_labels (conj gen_Slice_row_codes (conj gen_Slice_row_aliases
        (conj gen_Slice_column_labels (conj gen_Slice_column_codes (conj gen_Slice_column_aliases
        (conj gen_Strand_row_labels (conj gen_Strand_row_codes gen_Strand_row_aliases)))))))).
Qed.
Print Assumptions C05_gen_labels.

(* rows_dimension_fills (slice: `idx >= 0`, strand: `idx > -1`, each with subtotals[idx + len(subtotals)])
   IS [fills_of] *)
Theorem C05_gen_fills :
  (match asm_Slice_rows_dimension_fills with
   | Some e => forall (A : Type) (d : A) lit truthy base subs ro co,
       Forall (in_range (List.length subs) (List.length base)) ro ->
       aeval A d lit truthy (env_slice (fills_ins "dim0" base subs) ro co) e
       = VList (fills_of d base subs ro)
   | None => True end) /\
  (match asm_Strand_rows_dimension_fills with
   | Some e => forall (A : Type) (d : A) lit truthy base subs so,
       Forall (in_range (List.length subs) (List.length base)) so ->
       aeval A d lit truthy (env_strand (fills_ins "rowsdim" base subs) so) e
       = VList (fills_of d base subs so)
   | None => True end).
Proof. exact (conj gen_Slice_rows_dimension_fills gen_Strand_rows_dimension_fills). Qed.
Print Assumptions C05_gen_fills.

(* inserted / derived / difference position lists ARE [inserted_idxs] / [derived_idxs_slice] /
   [derived_idxs_strand] / [diff_idxs] of the same order (flag vectors [e.derived ..] + [False] * n_subtotals,
   [False] * n_valid + [s.is_difference ..], np.where of the re-indexed vector) *)
Theorem C05_gen_position_lists :
  inserted_agree_slice asm_Slice_inserted_row_idxs true /\
  inserted_agree_slice asm_Slice_inserted_column_idxs false /\
  (match asm_Strand_inserted_row_idxs with
   | Some e => forall (A : Type) (d : A) lit truthy ins so,
       aeval A d lit truthy (env_strand ins so) e = VNats (inserted_idxs so)
   | None => True end) /\
  derived_agree_slice asm_Slice_derived_row_idxs "dim0" true /\
  derived_agree_slice asm_Slice_derived_column_idxs "dim1" false /\
  diff_agree_slice asm_Slice_diff_row_idxs "dim0" true /\
  diff_agree_slice asm_Slice_diff_column_idxs "dim1" false /\
  (match asm_Strand_derived_row_idxs with
   | Some e => forall derived is_diff so,
       Forall (in_range (List.length is_diff) (List.length derived)) so ->
       aeval bool false blit btruthy (env_strand (flags_ins "rowsdim" derived is_diff) so) e
       = VNats (derived_idxs_strand derived (List.length is_diff) so)
   | None => True end) /\
  (match asm_Strand_diff_row_idxs with
   | Some e => forall derived is_diff so,
       Forall (in_range (List.length is_diff) (List.length derived)) so ->
       aeval bool false blit btruthy (env_strand (flags_ins "rowsdim" derived is_diff) so) e
       = VNats (diff_idxs (List.length derived) is_diff so)
   | None => True end).
Proof.
  exact (conj gen_Slice_inserted_row_idxs (conj gen_Slice_inserted_column_idxs (conj gen_Strand_inserted_row_idxs
        (conj gen_Slice_derived_row_idxs (conj gen_Slice_derived_column_idxs (conj gen_Slice_diff_row_idxs
        (conj gen_Slice_diff_column_idxs (conj gen_Strand_derived_row_idxs gen_Strand_diff_row_idxs)))))))).
Qed.
Print Assumptions C05_gen_position_lists.
(* the public row_order(format) / column_order(format) the relational leg of the check re-indexes with: the
   ROW / COLUMN / stripe factory in the format asked for - with SIGNED_INDEXES the very order the assembly
   uses *)
Theorem C05_gen_public_orders :
  (match asm_Slice_row_order with
   | Some e => forall (A : Type) (d : A) lit truthy bogus ords,
       aeval A d lit truthy (env_format bogus ords) e = ords FMatrixRow (if bogus then FmtBogus else FmtSigned)
   | None => True end) /\
  (match asm_Slice_column_order with
   | Some e => forall (A : Type) (d : A) lit truthy bogus ords,
       aeval A d lit truthy (env_format bogus ords) e = ords FMatrixColumn (if bogus then FmtBogus else FmtSigned)
   | None => True end) /\
  (match asm_Strand_row_order with
   | Some e => forall (A : Type) (d : A) lit truthy bogus ords so bl,
       ords FStripe FmtSigned = VInts so -> ords FStripe FmtBogus = VList bl ->
       aeval A d lit truthy (env_format bogus ords) e = if bogus then VVec bl else VInts so
   | None => True end).
Proof. exact gen_public_orders. Qed.
Print Assumptions C05_gen_public_orders.
End GenAgreeAssemble_C05.

(* ---- WIRING-APPENDIX:BEGIN (generated by tools/gen_wiring_props.py; do not edit) ---- *)
From CC Require Proofs.GenAgreeWiring_C05.
Section Wiring_C05.
Import Coq.Lists.List Coq.ZArith.ZArith Coq.Strings.String CC.Base.WiringExp CC.Gen.WiringSrc.
Import ListNotations.
Local Open Scope string_scope.

Theorem C05_wiring_CubePartition__dimensions :
  wsrc_CubePartition__dimensions = Some (WRaise "NotImplementedError").
Proof. exact Proofs.GenAgreeWiring_C05.gen_wiring_CubePartition__dimensions. Qed.
Print Assumptions C05_wiring_CubePartition__dimensions.

Theorem C05_wiring_CubePartition__transforms_dict :
  wsrc_CubePartition__transforms_dict = Some (WIf (WCmp "is" (WSelf "_transforms_arg") (WNone)) (WDict
      []) (WSelf "_transforms_arg")).
Proof. exact Proofs.GenAgreeWiring_C05.gen_wiring_CubePartition__transforms_dict. Qed.
Print Assumptions C05_wiring_CubePartition__transforms_dict.

Theorem C05_wiring_Slice_column_order :
  wsrc_Slice_column_order = Some (WCall (WGlobal "__defaults__") [WIf (WCmp "==" (WVar "format")
      (WAttr (WGlobal "ORDER_FORMAT") "BOGUS_IDS")) (WCall (WAttr (WGlobal "_BaseOrderHelper")
      "column_display_order") [WSelf "_dimensions"; WSelf "_measures"] [("format", WAttr (WGlobal
      "ORDER_FORMAT") "BOGUS_IDS")]) (WSelf "_column_order_signed_indexes")] [("format", WAttr
      (WGlobal "ORDER_FORMAT") "SIGNED_INDEXES")]).
Proof. exact Proofs.GenAgreeWiring_C05.gen_wiring_Slice_column_order. Qed.
Print Assumptions C05_wiring_Slice_column_order.

Theorem C05_wiring_Slice_inserted_column_idxs :
  wsrc_Slice_inserted_column_idxs = Some (WCall (WGlobal "tuple") [WComp "gen" (WVar "i") [(["i";
      "col_idx"], WCall (WGlobal "enumerate") [WSelf "_column_order_signed_indexes"] [], [WCmp "<"
      (WVar "col_idx") (WInt (0)%Z)])]] []).
Proof. exact Proofs.GenAgreeWiring_C05.gen_wiring_Slice_inserted_column_idxs. Qed.
Print Assumptions C05_wiring_Slice_inserted_column_idxs.

Theorem C05_wiring_Slice_inserted_row_idxs :
  wsrc_Slice_inserted_row_idxs = Some (WCall (WGlobal "tuple") [WComp "gen" (WVar "i") [(["i";
      "row_idx"], WCall (WGlobal "enumerate") [WSelf "_row_order_signed_indexes"] [], [WCmp "<"
      (WVar "row_idx") (WInt (0)%Z)])]] []).
Proof. exact Proofs.GenAgreeWiring_C05.gen_wiring_Slice_inserted_row_idxs. Qed.
Print Assumptions C05_wiring_Slice_inserted_row_idxs.

Theorem C05_wiring_Slice_derived_column_idxs :
  wsrc_Slice_derived_column_idxs = Some (WCall (WSelf "_derived_element_idxs") [WIndex (WSelf
      "_dimensions") [WInt (1)%Z]; WSelf "_column_order_signed_indexes"] []).
Proof. exact Proofs.GenAgreeWiring_C05.gen_wiring_Slice_derived_column_idxs. Qed.
Print Assumptions C05_wiring_Slice_derived_column_idxs.

Theorem C05_wiring_Slice_derived_row_idxs :
  wsrc_Slice_derived_row_idxs = Some (WCall (WSelf "_derived_element_idxs") [WSelf "_rows_dimension";
      WSelf "_row_order_signed_indexes"] []).
Proof. exact Proofs.GenAgreeWiring_C05.gen_wiring_Slice_derived_row_idxs. Qed.
Print Assumptions C05_wiring_Slice_derived_row_idxs.

Theorem C05_wiring_Slice_diff_column_idxs :
  wsrc_Slice_diff_column_idxs = Some (WCall (WSelf "_diff_element_idxs") [WIndex (WSelf "_dimensions")
      [WInt (1)%Z]; WSelf "_column_order_signed_indexes"] []).
Proof. exact Proofs.GenAgreeWiring_C05.gen_wiring_Slice_diff_column_idxs. Qed.
Print Assumptions C05_wiring_Slice_diff_column_idxs.

Theorem C05_wiring_Slice_diff_row_idxs :
  wsrc_Slice_diff_row_idxs = Some (WCall (WSelf "_diff_element_idxs") [WSelf "_rows_dimension"; WSelf
      "_row_order_signed_indexes"] []).
Proof. exact Proofs.GenAgreeWiring_C05.gen_wiring_Slice_diff_row_idxs. Qed.
Print Assumptions C05_wiring_Slice_diff_row_idxs.

Theorem C05_wiring_Slice_row_order :
  wsrc_Slice_row_order = Some (WCall (WGlobal "__defaults__") [WIf (WCmp "==" (WVar "format") (WAttr
      (WGlobal "ORDER_FORMAT") "BOGUS_IDS")) (WCall (WAttr (WGlobal "_BaseOrderHelper")
      "row_display_order") [WSelf "_dimensions"; WSelf "_measures"] [("format", WAttr (WGlobal
      "ORDER_FORMAT") "BOGUS_IDS")]) (WSelf "_row_order_signed_indexes")] [("format", WAttr (WGlobal
      "ORDER_FORMAT") "SIGNED_INDEXES")]).
Proof. exact Proofs.GenAgreeWiring_C05.gen_wiring_Slice_row_order. Qed.
Print Assumptions C05_wiring_Slice_row_order.

Theorem C05_wiring_Slice__assemble_marginal :
  wsrc_Slice__assemble_marginal = Some (WIf (WUn "not" (WAttr (WVar "marginal") "is_defined")) (WNone)
      (WIndex (WCall (WAttr (WGlobal "np") "hstack") [WAttr (WVar "marginal") "blocks"] []) [WIf
      (WCmp "==" (WAttr (WVar "marginal") "orientation") (WAttr (WGlobal "MO") "ROWS")) (WSelf
      "_row_order_signed_indexes") (WSelf "_column_order_signed_indexes")])).
Proof. exact Proofs.GenAgreeWiring_C05.gen_wiring_Slice__assemble_marginal. Qed.
Print Assumptions C05_wiring_Slice__assemble_marginal.

Theorem C05_wiring_Slice__assemble_matrix :
  wsrc_Slice__assemble_matrix = Some (WIndex (WCall (WAttr (WGlobal "np") "block") [WVar "blocks"] [])
      [WCall (WAttr (WGlobal "np") "ix_") [WSelf "_row_order_signed_indexes"; WSelf
      "_column_order_signed_indexes"] []]).
Proof. exact Proofs.GenAgreeWiring_C05.gen_wiring_Slice__assemble_matrix. Qed.
Print Assumptions C05_wiring_Slice__assemble_matrix.

Theorem C05_wiring_Slice__column_order_signed_indexes :
  wsrc_Slice__column_order_signed_indexes = Some (WCall (WAttr (WGlobal "_BaseOrderHelper")
      "column_display_order") [WSelf "_dimensions"; WSelf "_measures"] [("format", WAttr (WGlobal
      "ORDER_FORMAT") "SIGNED_INDEXES")]).
Proof. exact Proofs.GenAgreeWiring_C05.gen_wiring_Slice__column_order_signed_indexes. Qed.
Print Assumptions C05_wiring_Slice__column_order_signed_indexes.

Theorem C05_wiring_Slice__derived_element_idxs :
  wsrc_Slice__derived_element_idxs = Some (WCall (WGlobal "tuple") [WIndex (WCall (WAttr (WGlobal
      "np") "where") [WIndex (WCall (WAttr (WGlobal "np") "array") [WBin "+" (WComp "list" (WAttr
      (WVar "e") "derived") [(["e"], WAttr (WVar "dimension") "valid_elements", [])]) (WBin "*"
      (WList [WFalse]) (WCall (WGlobal "len") [WAttr (WVar "dimension") "subtotals"] []))] []) [WVar
      "order"]] []) [WInt (0)%Z]] []).
Proof. exact Proofs.GenAgreeWiring_C05.gen_wiring_Slice__derived_element_idxs. Qed.
Print Assumptions C05_wiring_Slice__derived_element_idxs.

Theorem C05_wiring_Slice__diff_element_idxs :
  wsrc_Slice__diff_element_idxs = Some (WCall (WGlobal "tuple") [WIndex (WCall (WAttr (WGlobal "np")
      "where") [WIndex (WCall (WAttr (WGlobal "np") "array") [WBin "+" (WBin "*" (WList [WFalse])
      (WCall (WGlobal "len") [WAttr (WVar "dimension") "valid_elements"] [])) (WComp "list" (WAttr
      (WVar "e") "is_difference") [(["e"], WAttr (WVar "dimension") "subtotals", [])])] []) [WVar
      "order"]] []) [WInt (0)%Z]] []).
Proof. exact Proofs.GenAgreeWiring_C05.gen_wiring_Slice__diff_element_idxs. Qed.
Print Assumptions C05_wiring_Slice__diff_element_idxs.

Theorem C05_wiring_Slice__dimensions :
  wsrc_Slice__dimensions = Some (WCall (WGlobal "tuple") [WComp "gen" (WCall (WAttr (WVar "dimension")
      "apply_transforms") [WVar "transforms"] []) [(["dimension"; "transforms"], WCall (WGlobal
      "zip") [WIndex (WAttr (WSelf "_cube") "dimensions") [WSlice (WInt (-2)%Z) (WNone)]; WSelf
      "_transform_dicts"] [], [])]] []).
Proof. exact Proofs.GenAgreeWiring_C05.gen_wiring_Slice__dimensions. Qed.
Print Assumptions C05_wiring_Slice__dimensions.

Theorem C05_wiring_Slice__row_order_signed_indexes :
  wsrc_Slice__row_order_signed_indexes = Some (WCall (WAttr (WGlobal "_BaseOrderHelper")
      "row_display_order") [WSelf "_dimensions"; WSelf "_measures"] [("format", WAttr (WGlobal
      "ORDER_FORMAT") "SIGNED_INDEXES")]).
Proof. exact Proofs.GenAgreeWiring_C05.gen_wiring_Slice__row_order_signed_indexes. Qed.
Print Assumptions C05_wiring_Slice__row_order_signed_indexes.

Theorem C05_wiring_Slice__rows_dimension :
  wsrc_Slice__rows_dimension = Some (WIndex (WSelf "_dimensions") [WInt (0)%Z]).
Proof. exact Proofs.GenAgreeWiring_C05.gen_wiring_Slice__rows_dimension. Qed.
Print Assumptions C05_wiring_Slice__rows_dimension.

Theorem C05_wiring_Slice__transform_dicts :
  wsrc_Slice__transform_dicts = Some (WTuple [WCall (WAttr (WSelf "_transforms_dict") "get") [WStr
      "rows_dimension"; WDict []] []; WCall (WAttr (WSelf "_transforms_dict") "get") [WStr
      "columns_dimension"; WDict []] []]).
Proof. exact Proofs.GenAgreeWiring_C05.gen_wiring_Slice__transform_dicts. Qed.
Print Assumptions C05_wiring_Slice__transform_dicts.

Theorem C05_wiring_Strand_derived_row_idxs :
  wsrc_Strand_derived_row_idxs = Some (WCall (WGlobal "tuple") [WIndex (WCall (WAttr (WGlobal "np")
      "where") [WIndex (WCall (WAttr (WGlobal "np") "array") [WBin "+" (WComp "list" (WAttr (WVar
      "e") "derived") [(["e"], WAttr (WSelf "_rows_dimension") "valid_elements", [])]) (WBin "*"
      (WList [WFalse]) (WCall (WGlobal "len") [WAttr (WSelf "_rows_dimension") "subtotals"] []))]
      []) [WSelf "_row_order_signed_indexes"]] []) [WInt (0)%Z]] []).
Proof. exact Proofs.GenAgreeWiring_C05.gen_wiring_Strand_derived_row_idxs. Qed.
Print Assumptions C05_wiring_Strand_derived_row_idxs.

Theorem C05_wiring_Strand_diff_row_idxs :
  wsrc_Strand_diff_row_idxs = Some (WCall (WGlobal "tuple") [WIndex (WCall (WAttr (WGlobal "np")
      "where") [WIndex (WCall (WAttr (WGlobal "np") "array") [WBin "+" (WBin "*" (WList [WFalse])
      (WCall (WGlobal "len") [WAttr (WSelf "_rows_dimension") "valid_elements"] [])) (WComp "list"
      (WAttr (WVar "e") "is_difference") [(["e"], WAttr (WSelf "_rows_dimension") "subtotals",
      [])])] []) [WSelf "_row_order_signed_indexes"]] []) [WInt (0)%Z]] []).
Proof. exact Proofs.GenAgreeWiring_C05.gen_wiring_Strand_diff_row_idxs. Qed.
Print Assumptions C05_wiring_Strand_diff_row_idxs.

Theorem C05_wiring_Strand_inserted_row_idxs :
  wsrc_Strand_inserted_row_idxs = Some (WCall (WGlobal "tuple") [WComp "gen" (WVar "i") [(["i";
      "row_idx"], WCall (WGlobal "enumerate") [WSelf "_row_order_signed_indexes"] [], [WCmp "<"
      (WVar "row_idx") (WInt (0)%Z)])]] []).
Proof. exact Proofs.GenAgreeWiring_C05.gen_wiring_Strand_inserted_row_idxs. Qed.
Print Assumptions C05_wiring_Strand_inserted_row_idxs.

Theorem C05_wiring_Strand_row_count :
  wsrc_Strand_row_count = Some (WCall (WGlobal "len") [WSelf "_row_order_signed_indexes"] []).
Proof. exact Proofs.GenAgreeWiring_C05.gen_wiring_Strand_row_count. Qed.
Print Assumptions C05_wiring_Strand_row_count.

Theorem C05_wiring_Strand_row_order :
  wsrc_Strand_row_order = Some (WCall (WGlobal "__defaults__") [WIf (WCmp "==" (WVar "format") (WAttr
      (WGlobal "ORDER_FORMAT") "BOGUS_IDS")) (WSelf "_row_order_bogus_ids") (WSelf
      "_row_order_signed_indexes")] [("format", WAttr (WGlobal "ORDER_FORMAT") "SIGNED_INDEXES")]).
Proof. exact Proofs.GenAgreeWiring_C05.gen_wiring_Strand_row_order. Qed.
Print Assumptions C05_wiring_Strand_row_order.

Theorem C05_wiring_Strand__assemble_vector :
  wsrc_Strand__assemble_vector = Some (WIndex (WCall (WAttr (WGlobal "np") "concatenate") [WVar
      "blocks"] []) [WSelf "_row_order_signed_indexes"]).
Proof. exact Proofs.GenAgreeWiring_C05.gen_wiring_Strand__assemble_vector. Qed.
Print Assumptions C05_wiring_Strand__assemble_vector.

Theorem C05_wiring_Strand__dimensions :
  wsrc_Strand__dimensions = Some (WTuple [WSelf "_rows_dimension"]).
Proof. exact Proofs.GenAgreeWiring_C05.gen_wiring_Strand__dimensions. Qed.
Print Assumptions C05_wiring_Strand__dimensions.

Theorem C05_wiring_Strand__rows_dimension :
  wsrc_Strand__rows_dimension = Some (WCall (WAttr (WIndex (WAttr (WSelf "_cube") "dimensions") [WInt
      (-1)%Z]) "apply_transforms") [WSelf "_row_transforms_dict"] []).
Proof. exact Proofs.GenAgreeWiring_C05.gen_wiring_Strand__rows_dimension. Qed.
Print Assumptions C05_wiring_Strand__rows_dimension.

Theorem C05_wiring_Strand__row_transforms_dict :
  wsrc_Strand__row_transforms_dict = Some (WCall (WAttr (WSelf "_transforms_dict") "get") [WStr
      "rows_dimension"; WDict []] []).
Proof. exact Proofs.GenAgreeWiring_C05.gen_wiring_Strand__row_transforms_dict. Qed.
Print Assumptions C05_wiring_Strand__row_transforms_dict.

Theorem C05_wiring_Strand__row_order_signed_indexes :
  wsrc_Strand__row_order_signed_indexes = Some (WCall (WAttr (WGlobal "np") "array") [WCall (WAttr
      (WGlobal "stripe_BaseOrderHelper") "display_order") [WSelf "_rows_dimension"; WSelf
      "_measures"] [("format", WAttr (WGlobal "ORDER_FORMAT") "SIGNED_INDEXES")]] [("dtype", WGlobal
      "int")]).
Proof. exact Proofs.GenAgreeWiring_C05.gen_wiring_Strand__row_order_signed_indexes. Qed.
Print Assumptions C05_wiring_Strand__row_order_signed_indexes.

Theorem C05_wiring_Nub__dimensions :
  wsrc_Nub__dimensions = Some (WTuple []).
Proof. exact Proofs.GenAgreeWiring_C05.gen_wiring_Nub__dimensions. Qed.
Print Assumptions C05_wiring_Nub__dimensions.

End Wiring_C05.
(* ---- WIRING-APPENDIX:END ---- *)

(*BEGIN GenAgreeDimType_C05*)
(* ------------------------------------------------------------------------------------ *)
(* SOURCE TEXT of the labels, aliases and names of dimension.py (harness/translate/x_dimtype.py, see the appendix of
   Props/C01.v): Element.label / alias, Dimension.element_labels / element_aliases / subtotal_labels /
   subtotal_aliases / name / description / alias / selected_categories ARE [element_label] .. [dimension_alias] of
   Model/DimValues.v whenever the label formatter is not involved (numeric / datetime / text element values and
   ranges are the outcome Unmodelled); Elements._hidden_transforms IS [hidden_transforms]; the DATETIME_FORMATS
   table IS [datetime_formats].  The C05_dimvalues_* theorems say what the model definitions mean. *)
From CC Require Proofs.GenAgreeDimTypeLib Proofs.GenAgreeDimTypeLabels Proofs.GenAgreeDimTypeOrder Proofs.GenAgreeDimTypeHidden Proofs.GenAgreeDimTypeComposeLabels Proofs.DimValuesProofs.
Section GenAgreeDimType_C05.   (* scopes and imports below end with the section *)
Import Coq.Lists.List Coq.ZArith.ZArith Coq.Strings.String Coq.Bool.Bool CC.Base.XQ CC.Base.PyList CC.Base.PyDict
       CC.Model.DimType CC.Model.PyDimension CC.Model.PyDimType CC.Model.DimValues CC.Model.Smoothing
       CC.Gen.DimensionSrc CC.Gen.DimTypeSrc CC.Proofs.GenAgreeDimensionLib
       CC.Proofs.GenAgreeDimTypeElems CC.Proofs.GenAgreeDimTypeLib CC.Proofs.GenAgreeDimTypeLabels CC.Proofs.GenAgreeDimTypeOrder CC.Proofs.GenAgreeDimTypeHidden CC.Proofs.GenAgreeDimTypeComposeLabels CC.Proofs.DimValuesProofs.
Import Coq.Lists.List.ListNotations.
Local Close Scope Q_scope.
Local Open Scope Z_scope.
Local Open Scope string_scope.

Theorem C05_gen_dimtype_Dimension_alias :
  match src_Dimension_alias with
  | Some f => forall t dd tr refs, jget dd "references" = Some (JDict refs) ->
      f (mkPyDimension t (JDict dd) tr) = Ok (dimension_alias refs)
  | None => True end.
Proof. exact gen_dimtype_Dimension_alias. Qed.
Print Assumptions C05_gen_dimtype_Dimension_alias.

Theorem C05_gen_dimtype_Dimension_name :
  match src_Dimension_name with
  | Some f => forall t dd tr refs, jget dd "references" = Some (JDict refs) ->
      f (mkPyDimension t (JDict dd) (JDict tr)) = Ok (dimension_name refs tr)
  | None => True end.
Proof. exact gen_dimtype_Dimension_name. Qed.
Print Assumptions C05_gen_dimtype_Dimension_name.

Theorem C05_gen_dimtype_Dimension_description :
  match src_Dimension_description with
  | Some f => forall t dd tr refs, jget dd "references" = Some (JDict refs) ->
      f (mkPyDimension t (JDict dd) (JDict tr)) = Ok (dimension_description refs tr)
  | None => True end.
Proof. exact gen_dimtype_Dimension_description. Qed.
Print Assumptions C05_gen_dimtype_Dimension_description.

Theorem C05_gen_dimtype_Dimension_selected_categories :
  match src_Dimension_selected_categories with
  | Some f => forall t dd tr refs, jget dd "references" = Some (JDict refs) ->
      f (mkPyDimension t (JDict dd) tr)
      = match jget refs "selected_categories" with
        | Some (JList (c :: cs)) => Ok (c :: cs)
        | Some (JDict (kv :: d)) => Ok (jd_keys (kv :: d))
        | Some v => if jv_truthy v then bind (pj_iter v) (fun l => Ok l) else Ok []
        | None => Ok []
        end
  | None => True end.
Proof. exact gen_dimtype_Dimension_selected_categories. Qed.
Print Assumptions C05_gen_dimtype_Dimension_selected_categories.

Theorem C05_gen_dimtype__ElementTransforms_name :
  match src__ElementTransforms_name with
  | Some f => forall xf v, xform_name xf = Some v -> f (mkPyXforms (JDict xf)) = Ok v
  | None => True end.
Proof. exact gen_dimtype__ElementTransforms_name. Qed.
Print Assumptions C05_gen_dimtype__ElementTransforms_name.

Theorem C05_gen_dimtype_Element__str_representation_for_name :
  match src_Element__str_representation_for with
  | Some f => forall e idx xf t v, element_label xf e = Some v ->
      f (mkPyElement (JDict e) idx (mkPyXforms (JDict xf)) t) "name" = Ok v
  | None => True end.
Proof. exact gen_dimtype_Element__str_representation_for_name. Qed.
Print Assumptions C05_gen_dimtype_Element__str_representation_for_name.

Theorem C05_gen_dimtype_Element__str_representation_for_alias :
  match src_Element__str_representation_for with
  | Some f => forall e idx xf t v, element_alias e = Some v ->
      f (mkPyElement (JDict e) idx xf t) "alias" = Ok v
  | None => True end.
Proof. exact gen_dimtype_Element__str_representation_for_alias. Qed.
Print Assumptions C05_gen_dimtype_Element__str_representation_for_alias.

Theorem C05_gen_dimtype_Element_label :
  match src_Element_label with
  | Some f => forall e idx xf t v, element_label xf e = Some v ->
      f (mkPyElement (JDict e) idx (mkPyXforms (JDict xf)) t) = Ok v
  | None => True end.
Proof. exact gen_dimtype_Element_label. Qed.
Print Assumptions C05_gen_dimtype_Element_label.

Theorem C05_gen_dimtype_Element_alias :
  match src_Element_alias with
  | Some f => forall e idx xf t v, element_alias e = Some v ->
      f (mkPyElement (JDict e) idx xf t) = Ok v
  | None => True end.
Proof. exact gen_dimtype_Element_alias. Qed.
Print Assumptions C05_gen_dimtype_Element_alias.

Theorem C05_gen_dimtype_Dimension_element_labels :
  match src_Dimension_element_labels, src_Dimension_valid_elements with
  | Some f, Some g => forall self els labels, g self = Ok els ->
      Forall2 (fun el l => el_label el = Some l) els labels -> f self = Ok labels
  | _, _ => True end.
Proof. exact gen_dimtype_Dimension_element_labels. Qed.
Print Assumptions C05_gen_dimtype_Dimension_element_labels.

Theorem C05_gen_dimtype_Dimension_element_aliases :
  match src_Dimension_element_aliases, src_Dimension_valid_elements with
  | Some f, Some g => forall self els aliases, g self = Ok els ->
      Forall2 (fun el l => el_alias el = Some l) els aliases -> f self = Ok aliases
  | _, _ => True end.
Proof. exact gen_dimtype_Dimension_element_aliases. Qed.
Print Assumptions C05_gen_dimtype_Dimension_element_aliases.

Theorem C05_gen_dimtype__Subtotal_label :
  match src__Subtotal_label with
  | Some f => forall ins els, f (mkPySubtotal (JDict ins) els) = Ok (subtotal_label ins)
  | None => True end.
Proof. exact gen_dimtype__Subtotal_label. Qed.
Print Assumptions C05_gen_dimtype__Subtotal_label.

Theorem C05_gen_dimtype__Subtotal_alias :
  match src__Subtotal_alias with
  | Some f => forall ins els, f (mkPySubtotal (JDict ins) els) = Ok (subtotal_alias ins)
  | None => True end.
Proof. exact gen_dimtype__Subtotal_alias. Qed.
Print Assumptions C05_gen_dimtype__Subtotal_alias.

Theorem C05_gen_dimtype_Dimension_subtotal_labels :
  match src_Dimension_subtotal_labels, src_Dimension_subtotals, src__Subtotals__subtotals with
  | Some f, Some g, Some h => forall self ss subs, g self = Ok ss -> h ss = Ok subs -> Forall st_is_dict subs ->
      f self = Ok (map st_label subs)
  | _, _, _ => True end.
Proof. exact gen_dimtype_Dimension_subtotal_labels. Qed.
Print Assumptions C05_gen_dimtype_Dimension_subtotal_labels.

Theorem C05_gen_dimtype_Dimension_subtotal_aliases :
  match src_Dimension_subtotal_aliases, src_Dimension_subtotals, src__Subtotals__subtotals with
  | Some f, Some g, Some h => forall self ss subs, g self = Ok ss -> h ss = Ok subs -> Forall st_is_dict subs ->
      f self = Ok (map st_alias subs)
  | _, _, _ => True end.
Proof. exact gen_dimtype_Dimension_subtotal_aliases. Qed.
Print Assumptions C05_gen_dimtype_Dimension_subtotal_aliases.

Theorem C05_gen_dimtype_DATETIME_FORMATS :
  match src_STRDICT_DATETIME_FORMATS with
  | Some tbl => tbl = datetime_formats
  | None => True end.
Proof. exact gen_dimtype_DATETIME_FORMATS. Qed.
Print Assumptions C05_gen_dimtype_DATETIME_FORMATS.

Theorem C05_gen_dimtype_Elements__hidden_transforms :
  match src_Elements__hidden_transforms with
  | Some f => forall defs hdefs ins hs,
      Forall2 hdef_abs defs hdefs -> Forall2 hins_abs ins hs ->
      f (JList defs) (JList ins) = Ok (hidden_transforms hdefs (opt_names hs))
  | None => True end.
Proof. exact gen_dimtype_Elements__hidden_transforms. Qed.
Print Assumptions C05_gen_dimtype_Elements__hidden_transforms.

Theorem C05_gen_dimtype_Dimension_element_labels_all :
  match src_Dimension_element_labels, src_Dimension_valid_elements, src_Elements__hidden_transforms with
  | Some f, Some _, Some h => forall t dd tr ty defs rids ids o ax hid labels, dim_reads' t dd tr ty defs rids ids o ax ->
      (dtype_eqb t TMrSubvar = true ->
       h (JList (reorder rids defs o)) (jd_get_default tr (JStr "insertions") (JList [])) = Ok hid) ->
      Forall2 (pair_label (if dtype_eqb t TMrSubvar then jd_update hid ax else ax))
              (valid_pairs (reorder rids defs o) (reorder rids ids o)) labels ->
      f (mkPyDimension t (JDict dd) (JDict tr)) = Ok labels
  | _, _, _ => True end.
Proof. exact gen_dimtype_Dimension_element_labels_all. Qed.
Print Assumptions C05_gen_dimtype_Dimension_element_labels_all.

Theorem C05_gen_dimtype_Dimension_element_aliases_all :
  match src_Dimension_element_aliases, src_Dimension_valid_elements, src_Elements__hidden_transforms with
  | Some f, Some _, Some h => forall t dd tr ty defs rids ids o ax hid aliases, dim_reads' t dd tr ty defs rids ids o ax ->
      (dtype_eqb t TMrSubvar = true ->
       h (JList (reorder rids defs o)) (jd_get_default tr (JStr "insertions") (JList [])) = Ok hid) ->
      Forall2 pair_alias (valid_pairs (reorder rids defs o) (reorder rids ids o)) aliases ->
      f (mkPyDimension t (JDict dd) (JDict tr)) = Ok aliases
  | _, _, _ => True end.
Proof. exact gen_dimtype_Dimension_element_aliases_all. Qed.
Print Assumptions C05_gen_dimtype_Dimension_element_aliases_all.

Theorem C05_dimvalues_label_transform_wins xf e n :
jget xf "name" = Some (JStr n) -> n <> "" -> element_label xf e = Some (JStr n).
Proof. exact (label_transform_wins xf e n). Qed.
Print Assumptions C05_dimvalues_label_transform_wins.

Theorem C05_dimvalues_label_empty_transform_suppresses xf e :
jget xf "name" = Some (JStr "") \/ jget xf "name" = Some JNone -> element_label xf e = Some (JStr "").
Proof. exact (label_empty_transform_suppresses xf e). Qed.
Print Assumptions C05_dimvalues_label_empty_transform_suppresses.

Theorem C05_dimvalues_label_own_name xf e n :
jget xf "name" = None -> jget e "name" = Some (JStr n) -> element_label xf e = Some (JStr n).
Proof. exact (label_own_name xf e n). Qed.
Print Assumptions C05_dimvalues_label_own_name.

Theorem C05_dimvalues_label_of_subvariable xf e val refs n :
jget xf "name" = None -> jget e "name" = None -> jget e "value" = Some (JDict val) ->
  jget val "references" = Some (JDict refs) -> jget refs "name" = Some (JStr n) ->
  element_label xf e = Some (JStr n).
Proof. exact (label_of_subvariable xf e val refs n). Qed.
Print Assumptions C05_dimvalues_label_of_subvariable.

Theorem C05_dimvalues_alias_is_never_transformed e1 e2 :
e1 = e2 -> element_alias e1 = element_alias e2.
Proof. exact (alias_is_never_transformed e1 e2). Qed.
Print Assumptions C05_dimvalues_alias_is_never_transformed.

Theorem C05_dimvalues_dimension_name_cascade refs tr :
dimension_name refs tr
  = match jget tr "name" with
    | Some v => jor_empty v
    | None => match jget refs "name" with
              | Some v => jor_empty v
              | None => match jget refs "alias" with Some v => jor_empty v | None => JStr "" end
              end
    end.
Proof. exact (dimension_name_cascade refs tr). Qed.
Print Assumptions C05_dimvalues_dimension_name_cascade.

Theorem C05_dimvalues_dimension_name_null_transform refs tr :
jget tr "name" = Some JNone -> dimension_name refs tr = JStr "".
Proof. exact (dimension_name_null_transform refs tr). Qed.
Print Assumptions C05_dimvalues_dimension_name_null_transform.

Theorem C05_dimvalues_hidden_transforms_hides defs hidden eid :
jd_get (hidden_transforms defs hidden) (jv_of_ident eid) = Some (JDict hide_true) <->
  exists nm, In nm hidden /\ find_last nm defs = Some eid.
Proof. exact (hidden_transforms_hides defs hidden eid). Qed.
Print Assumptions C05_dimvalues_hidden_transforms_hides.

Theorem C05_dimvalues_datetime_formats_are_iso_prefixes r f :
In (r, f) datetime_formats -> String.prefix f "%Y-%m-%dT%H:%M:%S.%f" = true.
Proof. exact (datetime_formats_are_iso_prefixes r f). Qed.
Print Assumptions C05_dimvalues_datetime_formats_are_iso_prefixes.

End GenAgreeDimType_C05.
(*END GenAgreeDimType_C05*)
