(* C01 -- Cell values are faithful tabulations of the survey behind the response.

   Only statements: each is closed by [exact <lemma>] and followed by [Print Assumptions].
   Spec (what the user relies on): Spec/Survey.v -- respondents, [tabulate], [wsum],
   [in_el]/[ok_el].  Model (what the code does): Model/CubeCounts.v, tied to
   cube.py / matrix/cubemeasure.py / stripe/cubemeasure.py by harness/props/c01.py.
   Proofs: Proofs/CubeCountsProofs.v.

   Notation of the statements: a cube over an optional table variable [tv] (3-D) and a
   rows variable (vr, kind kr, missing flags mr) and columns variable (vc, kc, mc), each
   categorical (KCat; also stands for datetime/text/binned enum dimensions) or
   multiple-response (KMr).  [slice_of ... S k] is EXACTLY what the code hands to the
   count class of partition k: raw tensor of the survey -> Cube._valid_idxs ->
   _slice_idx_expr.  [counts_of] is the dispatch of _BaseCubeCounts.factory.

   PARTIAL (stated here, not hidden): the five class pairs with a categorical-array
   dimension (Arr) are modelled (Model/CubeCounts.v) and checked by correspondence, but
   have no survey-level theorem; so have numeric arrays.  The glue from the flat payload
   to [slice_of] is proved for the layout ([C01_payload_layout]) and exercised by
   computation in the Example and on every correspondence case. *)
From Coq Require Import QArith ZArith List Bool Lia Arith Sorted.
From CC Require Import Base.XQ Base.ListX Spec.Survey Model.CubeCounts Proofs.CubeCountsProofs.
Import ListNotations.
Local Close Scope Q_scope.
Local Open Scope nat_scope.

(* Weighted counts of every cell of every partition (2-D: tv = None; 3-D: table element k):
   the weighted number of respondents in table element k, row element i, column element j,
   where belonging to an MR item means having SELECTED it. *)
Theorem C01_counts_are_weighted_tabulations S tv vr vc kr kc mr mc k i j :
  t_ok tv -> cat_or_mr kr -> cat_or_mr kc ->
  k < t_n tv -> i < nval mr -> j < nval mc ->
  counts_of (slice_of tv vr kr mr vc kc mc S k) (kcls kr) (kcls kc) i j =x=
  Fin (wsum S (fun r => pop_of tv k r && in_el kr mr (ans r vr) i && in_el kc mc (ans r vc) j)).
Proof. exact (fun Ht Hr Hc Hk => counts_of_spec S tv vr vc kr kc mr mc k Ht Hr Hc Hk i j). Qed.
Print Assumptions C01_counts_are_weighted_tabulations.

(* Unweighted counts: the same extraction on the unit-weight tensor is the NUMBER of such
   respondents. *)
Theorem C01_unweighted_counts_are_headcounts S tv vr vc kr kc mr mc k i j :
  t_ok tv -> cat_or_mr kr -> cat_or_mr kc ->
  k < t_n tv -> i < nval mr -> j < nval mc ->
  counts_of (slice_of tv vr kr mr vc kc mc (unit_weights S) k) (kcls kr) (kcls kc) i j =x=
  Fin (inject_Z (Z.of_nat (length (filter
        (fun r => pop_of tv k r && in_el kr mr (ans r vr) i && in_el kc mc (ans r vc) j) S)))).
Proof. exact (unweighted_counts_headcount S tv vr vc kr kc mr mc k i j). Qed.
Print Assumptions C01_unweighted_counts_are_headcounts.

(* 1-D cubes (strands) *)
Theorem C01_strand_cat_counts S v ms i : i < nval ms ->
  sc_counts (take_valid (dims_of KCat ms) (raw_of [(v, KCat)] S)) i =x=
  Fin (wsum S (fun r => in_cat ms (ans r v) i)).
Proof. exact (strand_cat_counts_spec S v ms i). Qed.
Print Assumptions C01_strand_cat_counts.

Theorem C01_strand_mr_counts S v ms i :
  sm_counts (take_valid (dims_of KMr ms) (raw_of [(v, KMr)] S)) i =x=
  Fin (wsum S (fun r => in_mr ms (ans r v) i)).
Proof. exact (strand_mr_counts_spec S v ms i). Qed.
Print Assumptions C01_strand_mr_counts.

(* Valid elements: the output rows/columns are exactly the non-missing payload positions,
   in payload order, wherever the missing ones sit ... *)
Theorem C01_valid_elements ms :
  (forall c, In c (valid_idxs ms) <-> c < length ms /\ nth c ms true = false)
  /\ StronglySorted lt (valid_idxs ms).
Proof. exact (conj (valid_idxs_In ms) (valid_idxs_sorted ms)). Qed.
Print Assumptions C01_valid_elements.

(* ... a respondent whose answer is a category flagged missing belongs to no output element
   and is not eligible; a counted respondent answered a non-missing category *)
Theorem C01_missing_categories_never_contribute ms a c :
  acat a = Some c -> nth c ms true = true ->
  (forall i, in_cat ms a i = false) /\ ok_cat ms a = false.
Proof. exact (missing_category_excluded ms a c). Qed.
Print Assumptions C01_missing_categories_never_contribute.

Theorem C01_counted_answers_are_valid ms a i :
  in_cat ms a i = true ->
  exists c, acat a = Some c /\ c = nth i (valid_idxs ms) 0 /\ c < length ms /\ nth c ms true = false.
Proof. exact (in_cat_true ms a i). Qed.
Print Assumptions C01_counted_answers_are_valid.

(* Payload layout: reshaping the flat row-major payload of ANY shape reads cell idx *)
Theorem C01_payload_layout shape T idx :
  in_boundsb shape idx = true -> of_flat shape (flatten shape T) idx = T idx.
Proof. exact (of_flat_flatten shape T idx). Qed.
Print Assumptions C01_payload_layout.

(* Numeric measures (mean, sum, stddev, median, valid counts): the reshaped payload reports
   exactly the value the response carries at the cell's offset; {"?": code} is NaN *)
Theorem C01_payload_values shape (payload : list jcell) idx :
  in_boundsb shape idx = true ->
  of_flat shape (map cell_value payload) idx
  = match nth_error payload (offset shape idx 0) with
    | Some c => cell_value c
    | None => NaN
    end.
Proof. exact (of_flat_cell shape payload idx). Qed.
Print Assumptions C01_payload_values.

(* ... and the slice value of a numeric measure is ONE cell of that tensor: the selected
   plane of every MR axis, the i-th / j-th valid element of rows / columns *)
Theorem C01_passthrough_reads_one_cell ds T rmr cmr i j :
  passthrough_of (take_valid ds T) rmr cmr i j
  = T (remap (map dvalid ds)
             (match rmr, cmr with
              | true, true => [i; 0; j; 0] | true, false => [i; 0; j]
              | false, true => [i; j; 0] | false, false => [i; j] end)).
Proof. exact (passthrough_reads ds T rmr cmr i j). Qed.
Print Assumptions C01_passthrough_reads_one_cell.

(* Which payload the counts come from (cube.py): valid_count_weighted, else
   valid_count_unweighted, else measures.count.data when it differs from counts, else counts *)
Theorem C01_measure_cascade p :
  cwm_payload p =
  match nonempty (p_vcw p), nonempty (p_vcu p), weighted_payload p with
  | Some d, _, _ => d
  | None, Some d, _ => d
  | None, None, Some d => d
  | None, None, None => p_counts p
  end.
Proof. exact (cwm_cascade p). Qed.
Print Assumptions C01_measure_cascade.

(* Non-vacuity.  Four respondents; rows = categorical with a MISSING category in the middle
   of the payload (positions: valid, missing, valid); columns = MR with two items and
   per-item missingness.  The flat payload is produced by [flatten]; [slice_counts] (the
   function the correspondence check evaluates) extracts the counts from it. *)
Example C01_example :
  let S := [ mkResp [ACat 0; AMr [Sel; Oth]] (3 # 2);
             mkResp [ACat 2; AMr [Sel; Mis]] 2;
             mkResp [ACat 1; AMr [Sel; Sel]] 5;       (* missing row category *)
             mkResp [ACat 2; AMr [Oth; Sel]] (1 # 4) ] in
  let mr := [false; true; false] in
  let mc := [false; false] in
  let ds := cube_dims None KCat mr KMr mc in
  let payload := flatten (raw_shape ds) (raw_of (cube_vars None 0 KCat 1 KMr) S) in
  t_ok None /\ cat_or_mr KCat /\ cat_or_mr KMr /\ 0 < t_n None /\ nval mr = 2 /\ nval mc = 2 /\
  wf_survey S /\
  option_map (fun so => map (map xred) (so_counts so)) (slice_counts ds payload 0)
    = Some [[Fin (3 # 2); Fin 0]; [Fin 2; Fin (1 # 4)]] /\
  counts_of (slice_of None 0 KCat mr 1 KMr mc S 0) CCat CMr 1 0 =x= Fin 2 /\
  (wsum S (fun r => in_el KCat mr (ans r 0) 1 && in_el KMr mc (ans r 1) 0) == 2)%Q.
Proof.
  cbv zeta. repeat split; try (left; reflexivity); try (right; reflexivity); try lia;
    try (repeat constructor; discriminate); try (vm_compute; reflexivity).
Qed.

(* ------------------------------------------------------------------------------------ *)
(* THE TIE TO THE SOURCE TEXT (DESIGN 2.4 (a)).  Gen/CubeCountsSrc.v and Gen/StripeCountsSrc.v
   are rewritten from /repo/src/cr/cube/{matrix,stripe}/cubemeasure.py on every check by the ast
   translator; the theorems below say that what the source SAYS NOW ([teval] of the translated
   term, Base/Tensor.v), for the class the factory picks for a (rows, columns) pair, IS the
   extractor [counts_of] / [stripe_counts] / [passthrough_of] / [slice_at] the theorems above
   are about -- result shape and every in-range cell, for all tensors and sizes.  [None] = the
   translator could not read the method (then only the correspondence ties it).  A change of
   meaning in the source breaks these obligations (Proofs/GenAgree.v does not compile). *)
From Coq Require Import String.
From CC Require Import Base.Tensor Gen.CubeCountsSrc Gen.StripeCountsSrc Gen.Tables
     Proofs.GenAgreeTac Proofs.GenAgreeCounts.

Theorem C01_gen_counts :
  match src_CubeCounts_dispatch with
  | Some D => forall rc cc,
      meth src_methods (dict_pick (tag rc, tag cc) (fst D) (snd D)) "counts"
        (fun e => forall V nr nc sr sc,
           agrees2 (teval (envC (shape_of rc cc nr nc sr sc) V) e) nr nc (counts_of V rc cc))
  | None => True
  end.
Proof. exact gen_dispatch_counts. Qed.
Print Assumptions C01_gen_counts.

(* the type strings "MR" / "ARR" / "CAT" the factory computes from the dimension types *)
Theorem C01_gen_type_strings :
  match src_CubeCounts_typestr, tbl_DT_members, tbl_DT_sets with
  | Some R, Some members, Some subsets =>
      (forall k, k <> DMrCat ->
         typestr_pick members subsets (dt_name k) (fst R) (snd R) = tag (cls_of (mkDim k []))) /\
      (forall n, In n cat_like -> typestr_pick members subsets n (fst R) (snd R) = tag CCat)
  | _, _, _ => True
  end.
Proof. exact gen_typestr. Qed.
Print Assumptions C01_gen_type_strings.

(* counts[cls._slice_idx_expr(cube, slice_idx)] is [slice_at] *)
Theorem C01_gen_slice_idx_expr :
  match src_slice_idx_expr with
  | Some R => forall ndim table_mr k (T : tensor) idx, idx <> [] ->
      slice_rule_apply R ndim table_mr k T idx = slice_at ndim table_mr k T idx
  | None => True
  end.
Proof. exact gen_slice_idx_expr. Qed.
Print Assumptions C01_gen_slice_idx_expr.

(* every factory hands the measure's array, cut by _slice_idx_expr, to the class *)
Theorem C01_gen_factory_arguments :
  binds_to src_CubeCounts_binds "_counts" (FSliced (FParam "counts")) /\
  binds_to src_CubeMeans_binds "_means" (FSliced (FCube "means")) /\
  binds_to src_CubeMedians_binds "_medians" (FSliced (FCube "medians")) /\
  binds_to src_CubeStdDev_binds "_stddev" (FSliced (FCube "stddev")) /\
  binds_to src_CubeSums_binds "_sums" (FSliced (FCube "sums")) /\
  binds_to src_UnconditionalCubeCounts_binds "_counts_with_missings"
           (FSliced (FCube "counts_with_missings")).
Proof. exact gen_factory_binds. Qed.
Print Assumptions C01_gen_factory_arguments.

(* numeric measures: means / medians / stddev / sums classes are [passthrough_of] *)
Theorem C01_gen_passthrough :
  match src_CubeMeans_dispatch with
  | Some D => forall rmr cmr,
      meth src_methods (cond_pick rmr cmr (fst D) (snd D)) "means"
        (fun e => forall V nr nc sr sc,
           agrees2 (teval (env1 "_means" (shape_mr rmr cmr nr nc sr sc) V [] []) e) nr nc
                   (passthrough_of V rmr cmr))
  | None => True
  end /\
  match src_CubeMedians_dispatch with
  | Some D => forall rmr cmr,
      meth src_methods (cond_pick rmr cmr (fst D) (snd D)) "medians"
        (fun e => forall V nr nc sr sc,
           agrees2 (teval (env1 "_medians" (shape_mr rmr cmr nr nc sr sc) V [] []) e) nr nc
                   (passthrough_of V rmr cmr))
  | None => True
  end /\
  match src_CubeStdDev_dispatch with
  | Some D => forall rmr cmr,
      meth src_methods (cond_pick rmr cmr (fst D) (snd D)) "stddev"
        (fun e => forall V nr nc sr sc,
           agrees2 (teval (env1 "_stddev" (shape_mr rmr cmr nr nc sr sc) V [] []) e) nr nc
                   (passthrough_of V rmr cmr))
  | None => True
  end /\
  match src_CubeSums_dispatch with
  | Some D => forall rmr cmr,
      meth src_methods (cond_pick rmr cmr (fst D) (snd D)) "sums"
        (fun e => forall V nr nc sr sc,
           agrees2 (teval (env1 "_sums" (shape_mr rmr cmr nr nc sr sc) V [] []) e) nr nc
                   (passthrough_of V rmr cmr))
  | None => True
  end.
Proof.
  exact (conj gen_dispatch_means (conj gen_dispatch_medians (conj gen_dispatch_stddev gen_dispatch_sums))).
Qed.
Print Assumptions C01_gen_passthrough.

(* strands: stripe/cubemeasure.py counts of the three classes, and which class the factory picks *)
Theorem C01_gen_strand_counts :
  match ssrc_CatCubeCounts_counts with
  | Some e => forall V n, agrees1 (teval (envS [n] V) e) n (stripe_counts V CCat)
  | None => True
  end /\
  match ssrc_MrCubeCounts_counts with
  | Some e => forall V n s, agrees1 (teval (envS [n; s] V) e) n (stripe_counts V CMr)
  | None => True
  end /\
  match ssrc_NumArrCubeCounts_counts with
  | Some e => forall V n, agrees1 (teval (envS [n] V) e) n (stripe_counts V CArr)
  | None => True
  end.
Proof.
  exact (conj gen_stripe_CatCubeCounts_counts
        (conj gen_stripe_MrCubeCounts_counts gen_stripe_NumArrCubeCounts_counts)).
Qed.
Print Assumptions C01_gen_strand_counts.

Theorem C01_gen_strand_dispatch :
  match ssrc_CubeCounts_dispatch, tbl_DT_members with
  | Some D, Some _ =>
      (forall k, stripe_pick true k (fst D) (snd D) = (stripe_class_name CCat, true)) /\
      (forall k, k = DCat \/ k = DMrSubvar \/ k = DNumArr ->
         stripe_pick false k (fst D) (snd D) = (stripe_class_name (cls_of (mkDim k [])), false))
  | _, _ => True
  end.
Proof. exact gen_stripe_dispatch. Qed.
Print Assumptions C01_gen_strand_dispatch.

(* ------------------------------------------------------------------------------------ *)
(* NUMERIC ARRAYS AND THE 0-D NUB (Model/NumArray.v, Proofs/NumArrayProofs.v).
   A numeric-array measure (mean / sum / stddev / median / valid counts -- the valid counts
   back .counts / .unweighted_counts) comes with the grouping dimensions [gs] of the response
   in payload order and the array item as the LAST axis; the library puts a NUM_ARRAY
   dimension in FRONT ([numarr_dims]) and Cube._valid_idxs re-orders the axes with
   Dimensions.dimension_order.  [numarr_valid n gs data] is literally the expression the
   correspondence check evaluates (take_valid_ord / raw_shape of Model/CubeCounts.v). *)
From CC Require Import Model.NumArray Proofs.NumArrayProofs Model.DimType Proofs.DimTypeProofs.

(* Whatever per-cell statistic F the response was laid out from, cell (item i, valid grouping
   elements gidx) of the result is F of (those grouping elements' payload positions, item i):
   no transposition, missing grouping elements dropped wherever they sit.  Any number of
   grouping axes (array x categorical / date / text / binned, array x MR, array x cat x cat,
   array x cat x MR, ...). *)
Theorem C01_numarr_reports_cell_statistic n gs (F : tensor) i gidx :
  gs <> [] -> valid_idx_ok gs gidx -> i < n ->
  numarr_valid n gs (flatten (numarr_payload_shape n gs) F) (i :: gidx)
  = F (remap (map dvalid gs) gidx ++ [i]).
Proof. exact (numarr_reports_cell_statistic n gs F i gidx). Qed.
Print Assumptions C01_numarr_reports_cell_statistic.

(* the same as index arithmetic on the flat data: data[offset(grouping) * n_items + item] *)
Theorem C01_numarr_payload_offset n gs data i gidx :
  gs <> [] -> valid_idx_ok gs gidx -> i < n ->
  numarr_valid n gs data (i :: gidx)
  = nth (offset (map dsize gs) (remap (map dvalid gs) gidx) 0 * n + i) data NaN.
Proof. exact (numarr_valid_offset n gs data i gidx). Qed.
Print Assumptions C01_numarr_payload_offset.

(* what the partitions hand out: array x categorical-like dimension ... *)
Theorem C01_numarr_by_cat_slice n g data i j :
  dk g = DCat -> i < n -> j < nvalid g ->
  option_map (fun m => mnth m i j) (slice_passthrough (numarr_dims n [g]) data 0)
    = Some (numarr_cell n [g] data i [nth j (dvalid g) 0])
  /\ option_map (fun so => mnth (so_counts so) i j) (slice_counts (numarr_dims n [g]) data 0)
    = Some (numarr_cell n [g] data i [nth j (dvalid g) 0]).
Proof. exact (numarr_by_cat_slice n g data i j). Qed.
Print Assumptions C01_numarr_by_cat_slice.

(* ... array x multiple response (the SELECTED plane of item j) ... *)
Theorem C01_numarr_by_mr_slice n ms data i j :
  let gs := [mkDim DMrSubvar ms; mkDim DMrCat mr_cat_missing] in
  i < n -> j < nvalid (mkDim DMrSubvar ms) ->
  option_map (fun m => mnth m i j) (slice_passthrough (numarr_dims n gs) data 0)
    = Some (numarr_cell n gs data i [nth j (valid_idxs ms) 0; 0])
  /\ option_map (fun so => mnth (so_counts so) i j) (slice_counts (numarr_dims n gs) data 0)
    = Some (numarr_cell n gs data i [nth j (valid_idxs ms) 0; 0]).
Proof. exact (numarr_by_mr_slice n ms data i j). Qed.
Print Assumptions C01_numarr_by_mr_slice.

(* ... the array alone (1-D strand of its items) ... *)
Theorem C01_numarr_strand n data i :
  i < n ->
  numarr_valid n [] data [i] = nth i data NaN /\
  option_map (fun st => vnth (st_counts st) i) (strand_counts (numarr_dims n []) data false 0)
    = Some (nth i data NaN).
Proof. exact (fun H => conj (numarr_alone n data i H) (numarr_strand n data i H)). Qed.
Print Assumptions C01_numarr_strand.

(* ... and the cube without any dimension (_Nub): the only cell *)
Theorem C01_nub_reads_the_only_cell data : nub_value data = nth 0 data NaN.
Proof. exact (nub_reads data). Qed.
Print Assumptions C01_nub_reads_the_only_cell.

(* ANY number of grouping axes (array x categorical x MR, array x MR x MR, ...): since the repair
   of finding C01-numarr-four-axes the two theorems above need no bound on the number of axes; the
   former witness (three grouping axes, where the code used to reverse ALL axes) reads the cell of
   the response. *)
Theorem C01_numarr_four_axes_former_witness :
  let n := 2 in
  let gs := [mkDim DCat [false; false]; mkDim DMrSubvar [false; false; false];
             mkDim DMrCat mr_cat_missing] in
  let data := map (fun k => Fin (inject_Z (Z.of_nat k))) (seq 0 36) in
  List.length gs = 3 /\ valid_idx_ok gs [1; 0; 0] /\
  numarr_valid n gs data (0 :: [1; 0; 0]) = numarr_cell n gs data 0 (remap (map dvalid gs) [1; 0; 0]).
Proof. exact numarr_four_axes_former_witness. Qed.
Print Assumptions C01_numarr_four_axes_former_witness.

(* the rotation (array axis to the back, nothing else) reads the response's cell for ANY
   number of grouping axes -- the order a repaired dimension_order has to return *)
Theorem C01_numarr_rotation_reads n gs data i gidx :
  List.length gidx = List.length gs ->
  of_flat (permute (rotate_order (S (List.length gs))) (map dsize (numarr_dims n gs))) data
          (permute (rotate_order (S (List.length gs))) (remap (map dvalid (numarr_dims n gs)) (i :: gidx)))
  = numarr_cell n gs data (nth i (dvalid (numarr_dim n)) 0) (remap (map dvalid gs) gidx).
Proof. exact (rotate_order_reads n gs data i gidx). Qed.
Print Assumptions C01_numarr_rotation_reads.

(* ------------------------------------------------------------------------------------ *)
(* WHICH DIMENSION IS WHAT (Model/DimType.v = Dimensions.dimension_type + from_dicts, tied by
   correspondence on cube.dimension_types).  The cell values above depend on it: a selection
   axis is collapsed to its first plane, the categories of an array are not. *)

(* a dimension is a multiple-response selection axis EXACTLY when it is categorical, belongs
   to an array, a category is flagged selected and the ids are 1, 0, -1 in this order *)
Theorem C01_selection_axis_iff d :
  dimension_type d = TMrCat <->
  exists cats, rd_type d = RCategorical cats /\ rd_subrefs d = true /\
               existsb rc_selected cats = true /\ map rc_id cats = [1%Z; 0%Z; (-1)%Z].
Proof. exact (mr_cat_iff d). Qed.
Print Assumptions C01_selection_axis_iff.

(* sub-variables are MR items exactly when another dimension of the same alias is such an axis *)
Theorem C01_mr_items_iff ds p :
  p < List.length ds ->
  (nth p (resolve ds) TCat = TMrSubvar <->
   dimension_type (nth p ds dflt_rdim) = TCaSubvar /\ has_values (nth p ds dflt_rdim) = true /\
   exists q, q < List.length ds /\ q <> p /\
             rd_alias (nth q ds dflt_rdim) = rd_alias (nth p ds dflt_rdim) /\
             dimension_type (nth q ds dflt_rdim) = TMrCat).
Proof. exact (mr_subvar_iff ds p). Qed.
Print Assumptions C01_mr_items_iff.

(* a categorical array -- categories without selected flag (even with ids 1, 0, -1), or with a
   flag on other ids / another order -- keeps both its axes next to any other variables *)
Theorem C01_categorical_array_is_never_collapsed pre post a b cats :
  is_logical cats = false ->
  (forall d, In d (pre ++ post) -> rd_alias d <> a) ->
  let ds := pre ++ [mkRDim a true (REnum SVariable b); mkRDim a true (RCategorical cats)] ++ post in
  nth (List.length pre) (resolve ds) TCat = TCaSubvar /\
  nth (S (List.length pre)) (resolve ds) TCat = TCaCat.
Proof. exact (categorical_array_is_never_collapsed pre post a b cats). Qed.
Print Assumptions C01_categorical_array_is_never_collapsed.

Theorem C01_multiple_response_pair pre post a cats :
  is_logical cats = true ->
  let ds := pre ++ [mkRDim a true (REnum SVariable true); mkRDim a true (RCategorical cats)] ++ post in
  nth (List.length pre) (resolve ds) TCat = TMrSubvar /\
  nth (S (List.length pre)) (resolve ds) TCat = TMrCat.
Proof. exact (multiple_response_pair pre post a cats). Qed.
Print Assumptions C01_multiple_response_pair.

(* a plain categorical that merely looks like a selection (ids 1, 0, -1 without flag, or a flag
   on other ids) is neither a selection axis nor LOGICAL; and LOGICAL / CAT_DATE / CA_CAT /
   DATETIME / TEXT / BINNED count like CAT *)
Theorem C01_lookalikes_are_not_selections d cats :
  rd_type d = RCategorical cats ->
  existsb rc_selected cats = false \/ map rc_id cats <> [1%Z; 0%Z; (-1)%Z] ->
  dimension_type d <> TMrCat /\ dimension_type d <> TLogical.
Proof.
  exact (fun E H => match H with
                    | or_introl H1 => not_selection_without_flag d cats E H1
                    | or_intror H2 => not_selection_other_ids d cats E H2
                    end).
Qed.
Print Assumptions C01_lookalikes_are_not_selections.

Theorem C01_only_four_types_are_special t :
  t <> TMrSubvar -> t <> TMrCat -> t <> TCaSubvar -> t <> TNumArr -> dkind_of t = DCat.
Proof. exact (dkind_of_cat_like t). Qed.
Print Assumptions C01_only_four_types_are_special.

(* Non-vacuity.  Means of a 3-item numeric array grouped by a categorical whose payload is
   (valid, MISSING, valid, valid): data[g * 3 + item] = 100 g + item.  The slice is
   items x valid categories, un-transposed; the square grouping (3 valid) is the shape on
   which a missing re-ordering still looks plausible.  Then the type rule on a Yes/No/No-Data
   grid without and with a selected flag. *)
Example C01_numarr_example :
  let g := mkDim DCat [false; true; false; false] in
  let data := map (fun k => Fin (inject_Z (Z.of_nat (100 * (k / 3) + k mod 3)))) (seq 0 12) in
  valid_idx_ok [g] [2] /\ dk g = DCat /\ nvalid g = 3 /\
  option_map (map (map xred)) (slice_passthrough (numarr_dims 3 [g]) data 0)
    = Some [[Fin 0; Fin 200; Fin 300]; [Fin 1; Fin 201; Fin 301]; [Fin 2; Fin 202; Fin 302]] /\
  numarr_valid 3 [g] data [1; 2] = Fin (inject_Z 301) /\
  nub_value [Fin 7] = Fin 7 /\
  (let grid sel := [mkRCat 1 sel false; mkRCat 0 false false; mkRCat (-1) false false] in
   resolve [mkRDim 0 true (REnum SVariable true); mkRDim 0 true (RCategorical (grid false))]
     = [TCaSubvar; TCaCat] /\
   resolve [mkRDim 0 true (REnum SVariable true); mkRDim 0 true (RCategorical (grid true))]
     = [TMrSubvar; TMrCat] /\
   cube_dimension_types (Some 5) [mkRDim 1 false (RCategorical (grid true))] = [TNumArr; TLogical]).
Proof.
  cbv zeta. repeat split; try (simpl; unfold nvalid; simpl; lia); vm_compute; reflexivity.
Qed.

(* ------------------------------------------------------------------------------------ *)
(* CATEGORICAL ARRAYS (Spec/SurveyArray.v, Proofs/ArrayCountsProofs.v).
   A respondent answers an array per item with a category or not at all ([AArr], already in
   Spec/Survey.v); a category may be flagged missing at any payload position.  An array brings
   TWO dimensions into a cube: S = its items (CA_SUBVAR, class "ARR") and C = its categories
   (CA_CAT, class "CAT").  With at most one other variable X (categorical or MR) a cube the
   library can cut into 2-D tables has one of eight axis orders ([ca_layout]: L_SC, L_CS,
   L_XSC, L_XCS, L_CSX, L_CXS, L_SCX, L_SXC -- the name lists the dimensions of the response);
   [ca_tabulate l] is the response tensor in THAT axis order, [lay_dims l] its dimensions,
   [ca_slice l .. S k] what _BaseCubeCounts.factory hands to the count class of partition k
   (tensor -> Cube._valid_idxs -> _slice_idx_expr), exactly like [slice_of] above.
   [in_arr mi mc a i c]: the respondent gave the c-th valid category on the i-th valid item;
   [lay_pop l kw mw a k]: belongs to element k of the table variable X (true for a 2-D cube). *)
From CC Require Import Spec.SurveyArray Proofs.ArrayCountsProofs.

(* what a cell of the response means, whatever the axis order: the weighted number of
   respondents who answered payload category c on payload item i and contribute the X part *)
Theorem C01_array_cell_meaning l v w kw S i c xs :
  kw <> KArr -> List.length xs = (if lay_has_x l then arity kw else 0) ->
  (ca_tabulate l v w kw S (lay_index l i c xs)
   == wsum S (fun r => gave (ans r v) i c && x_part l kw (ans r w) xs))%Q.
Proof. exact (ca_tabulate_cell l v w kw S i c xs). Qed.
Print Assumptions C01_array_cell_meaning.

Theorem C01_array_cell_headcount l v w kw S i c xs :
  kw <> KArr -> List.length xs = (if lay_has_x l then arity kw else 0) ->
  (ca_tabulate l v w kw (unit_weights S) (lay_index l i c xs)
   == inject_Z (Z.of_nat (List.length (filter
        (fun r => gave (ans r v) i c && x_part l kw (ans r w) xs) S))))%Q.
Proof. exact (ca_tabulate_cell_headcount l v w kw S i c xs). Qed.
Print Assumptions C01_array_cell_headcount.

(* the model reads the dimension list of every layout as the stated class pair / sizes /
   number of partitions / slicing rule (this is what [slice_counts] dispatches on) *)
Theorem C01_array_layout_classes l mi mc kw mw :
  cat_or_mr kw ->
  exists si, slice_info_of (lay_dims l mi mc kw mw) = Some si /\
    si_ndim si = List.length (apparent (lay_dims l mi mc kw mw)) /\
    si_table_mr si = lay_table_mr l kw /\
    cls_of (si_row si) = lay_rcls l kw /\ cls_of (si_col si) = lay_ccls l kw /\
    nvalid (si_row si) = lay_nr l mi mc mw /\ nvalid (si_col si) = lay_nc l mi mc mw /\
    n_partitions (lay_dims l mi mc kw mw) false = lay_nt l mi mc mw.
Proof. exact (lay_slice_info l mi mc kw mw). Qed.
Print Assumptions C01_array_layout_classes.

(* ARR x CAT -- the array alone (l = L_SC, 2-D) or partition k of a table variable X
   (l = L_XSC, X categorical or MR): cell (item i, category c) = respondents of table element
   k who gave category c on item i *)
Theorem C01_arr_x_cat_counts S l v w kw mi mc mw k i c :
  cat_or_mr kw -> k < lay_nt l mi mc mw -> rows_items l -> i < nval mi -> c < nval mc ->
  counts_of (ca_slice l v mi mc w kw mw S k) CArr CCat i c =x=
  Fin (wsum S (fun r => lay_pop l kw mw (ans r w) k && in_arr mi mc (ans r v) i c)).
Proof. exact (fun Hw Hk => arr_rows_counts S l v w kw mi mc mw k Hw Hk i c). Qed.
Print Assumptions C01_arr_x_cat_counts.

(* CAT x ARR -- the same cubes with the two array dimensions exchanged (L_CS, L_XCS) *)
Theorem C01_cat_x_arr_counts S l v w kw mi mc mw k c i :
  cat_or_mr kw -> k < lay_nt l mi mc mw -> cols_items l -> c < nval mc -> i < nval mi ->
  counts_of (ca_slice l v mi mc w kw mw S k) CCat CArr c i =x=
  Fin (wsum S (fun r => lay_pop l kw mw (ans r w) k && in_arr mi mc (ans r v) i c)).
Proof. exact (fun Hw Hk => arr_cols_counts S l v w kw mi mc mw k Hw Hk c i). Qed.
Print Assumptions C01_cat_x_arr_counts.

(* ARR x CAT and ARR x MR -- the array's CATEGORIES are the table dimension (C S X): in the
   table of category k, cell (item i, element j of X) = respondents who gave category k on
   item i and belong to j (MR: selected it) *)
Theorem C01_arr_x_other_counts S v w kw mi mc mw k i j :
  cat_or_mr kw -> k < nval mc -> i < nval mi -> j < nval mw ->
  counts_of (ca_slice L_CSX v mi mc w kw mw S k) CArr (kcls kw) i j =x=
  Fin (wsum S (fun r => in_arr mi mc (ans r v) i k && in_el kw mw (ans r w) j)).
Proof. exact (fun Hw Hk => csx_counts S v w kw mi mc mw k Hw Hk i j). Qed.
Print Assumptions C01_arr_x_other_counts.

(* CAT x ARR and MR x ARR (C X S) *)
Theorem C01_other_x_arr_counts S v w kw mi mc mw k i j :
  cat_or_mr kw -> k < nval mc -> i < nval mw -> j < nval mi ->
  counts_of (ca_slice L_CXS v mi mc w kw mw S k) (kcls kw) CArr i j =x=
  Fin (wsum S (fun r => in_arr mi mc (ans r v) j k && in_el kw mw (ans r w) i)).
Proof. exact (fun Hw Hk => cxs_counts S v w kw mi mc mw k Hw Hk i j). Qed.
Print Assumptions C01_other_x_arr_counts.

(* the array's ITEMS are the table dimension (S C X, S X C): partition k IS, cell by cell and
   for every index, the 2-D cube of item k as a categorical variable (variable 0 of
   [explode_survey v item S]; the other variables move up by one) -- so every theorem about
   categorical / MR cubes above applies to it ... *)
Theorem C01_array_item_tables_are_categorical_cubes S v mi mc w kw mw k idx :
  cat_or_mr kw ->
  ca_slice L_SCX v mi mc w kw mw S k idx
  = slice_of None 0 KCat mc (Datatypes.S w) kw mw (explode_survey v (nth k (valid_idxs mi) 0) S) 0 idx
  /\
  ca_slice L_SXC v mi mc w kw mw S k idx
  = slice_of None (Datatypes.S w) kw mw 0 KCat mc (explode_survey v (nth k (valid_idxs mi) 0) S) 0 idx.
Proof.
  exact (fun Hw => conj (ca_slice_item_is_cat_cube_scx S v mi mc w kw mw k idx Hw)
                        (ca_slice_item_is_cat_cube_sxc S v mi mc w kw mw k idx Hw)).
Qed.
Print Assumptions C01_array_item_tables_are_categorical_cubes.

(* ... in particular the counts: CAT x CAT / CAT x MR (S C X) and CAT x CAT / MR x CAT (S X C) *)
Theorem C01_array_item_tables_counts S v w kw mi mc mw k c j :
  cat_or_mr kw -> k < nval mi -> c < nval mc -> j < nval mw ->
  counts_of (ca_slice L_SCX v mi mc w kw mw S k) CCat (kcls kw) c j =x=
    Fin (wsum S (fun r => in_arr mi mc (ans r v) k c && in_el kw mw (ans r w) j)) /\
  counts_of (ca_slice L_SXC v mi mc w kw mw S k) (kcls kw) CCat j c =x=
    Fin (wsum S (fun r => in_el kw mw (ans r w) j && in_arr mi mc (ans r v) k c)).
Proof.
  exact (fun Hw Hk Hc Hj => conj (scx_counts S v w kw mi mc mw k Hw Hk c j Hc Hj)
                                 (sxc_counts S v w kw mi mc mw k Hw Hk j c Hj Hc)).
Qed.
Print Assumptions C01_array_item_tables_counts.

(* unweighted twins: the same extraction on the unit-weight tensor is the NUMBER of such
   respondents *)
Theorem C01_arr_x_cat_unweighted S l v w kw mi mc mw k i c :
  cat_or_mr kw -> k < lay_nt l mi mc mw -> rows_items l -> i < nval mi -> c < nval mc ->
  counts_of (ca_slice l v mi mc w kw mw (unit_weights S) k) CArr CCat i c =x=
  Fin (inject_Z (Z.of_nat (List.length (filter
        (fun r => lay_pop l kw mw (ans r w) k && in_arr mi mc (ans r v) i c) S)))).
Proof. exact (arr_rows_counts_headcount S l v w kw mi mc mw k i c). Qed.
Print Assumptions C01_arr_x_cat_unweighted.

Theorem C01_cat_x_arr_unweighted S l v w kw mi mc mw k c i :
  cat_or_mr kw -> k < lay_nt l mi mc mw -> cols_items l -> c < nval mc -> i < nval mi ->
  counts_of (ca_slice l v mi mc w kw mw (unit_weights S) k) CCat CArr c i =x=
  Fin (inject_Z (Z.of_nat (List.length (filter
        (fun r => lay_pop l kw mw (ans r w) k && in_arr mi mc (ans r v) i c) S)))).
Proof. exact (arr_cols_counts_headcount S l v w kw mi mc mw k c i). Qed.
Print Assumptions C01_cat_x_arr_unweighted.

Theorem C01_arr_x_other_unweighted S v w kw mi mc mw k i j :
  cat_or_mr kw -> k < nval mc -> i < nval mi -> j < nval mw ->
  counts_of (ca_slice L_CSX v mi mc w kw mw (unit_weights S) k) CArr (kcls kw) i j =x=
  Fin (inject_Z (Z.of_nat (List.length (filter
        (fun r => in_arr mi mc (ans r v) i k && in_el kw mw (ans r w) j) S)))).
Proof. exact (csx_counts_headcount S v w kw mi mc mw k i j). Qed.
Print Assumptions C01_arr_x_other_unweighted.

Theorem C01_other_x_arr_unweighted S v w kw mi mc mw k i j :
  cat_or_mr kw -> k < nval mc -> i < nval mw -> j < nval mi ->
  counts_of (ca_slice L_CXS v mi mc w kw mw (unit_weights S) k) (kcls kw) CArr i j =x=
  Fin (inject_Z (Z.of_nat (List.length (filter
        (fun r => in_arr mi mc (ans r v) j k && in_el kw mw (ans r w) i) S)))).
Proof. exact (cxs_counts_headcount S v w kw mi mc mw k i j). Qed.
Print Assumptions C01_other_x_arr_unweighted.

Theorem C01_array_item_tables_unweighted S v w kw mi mc mw k c j :
  cat_or_mr kw -> k < nval mi -> c < nval mc -> j < nval mw ->
  counts_of (ca_slice L_SCX v mi mc w kw mw (unit_weights S) k) CCat (kcls kw) c j =x=
    Fin (inject_Z (Z.of_nat (List.length (filter
          (fun r => in_arr mi mc (ans r v) k c && in_el kw mw (ans r w) j) S)))) /\
  counts_of (ca_slice L_SXC v mi mc w kw mw (unit_weights S) k) (kcls kw) CCat j c =x=
    Fin (inject_Z (Z.of_nat (List.length (filter
          (fun r => in_el kw mw (ans r w) j && in_arr mi mc (ans r v) k c) S)))).
Proof.
  exact (fun Hw Hk Hc Hj => conj (scx_counts_headcount S v w kw mi mc mw k c j Hw Hk Hc Hj)
                                 (sxc_counts_headcount S v w kw mi mc mw k j c Hw Hk Hj Hc)).
Qed.
Print Assumptions C01_array_item_tables_unweighted.

(* a counted respondent answered a NON-missing category on a NON-missing item, namely the
   payload positions the output row / column stands for ... *)
Theorem C01_array_counted_answers_are_valid mi mc a i c :
  in_arr mi mc a i c = true ->
  exists pi pc, aarr a pi = Some pc /\
    pi = nth i (valid_idxs mi) 0 /\ pi < List.length mi /\ nth pi mi true = false /\
    pc = nth c (valid_idxs mc) 0 /\ pc < List.length mc /\ nth pc mc true = false.
Proof. exact (in_arr_true mi mc a i c). Qed.
Print Assumptions C01_array_counted_answers_are_valid.

(* ... an answer that is a category flagged missing (wherever it sits in the payload), or no
   answer, puts the respondent in no cell of THAT item and makes him not valid on it *)
Theorem C01_array_missing_answers_never_contribute mi mc a i :
  (forall pc, aarr a (nth i (valid_idxs mi) 0) = Some pc -> nth pc mc true = true ->
     (forall c, in_arr mi mc a i c = false) /\ ok_arr mi mc a i = false) /\
  (aarr a (nth i (valid_idxs mi) 0) = None ->
     (forall c, in_arr mi mc a i c = false) /\ ok_arr mi mc a i = false).
Proof.
  exact (conj (fun pc => arr_missing_category_excluded mi mc a i pc)
              (arr_no_answer_excluded mi mc a i)).
Qed.
Print Assumptions C01_array_missing_answers_never_contribute.

(* ARR x ARR.  FULL STATEMENT WANTED: "for the cube of two arrays a, b the class
   _ArrXArrCubeCounts applied to the slice the library cuts reports, in cell (item i of a, item
   j of b), the respondents who gave the table's categories on those items".  It cannot be
   stated on the library's pipeline: two CA_SUBVAR dimensions as rows and columns need the two
   CA_CAT dimensions as well, i.e. FOUR dimensions ([C01_arr_x_arr_needs_four_dimensions]
   below), and Cube._slice_idxs / _slice_idx_expr cut a cube of more than three dimensions
   along the FIRST one only -- the class would receive a 3-D array.  No response of at most
   three dimensions over categorical, MR and categorical-array variables reaches the class.
   PROVED (partial): for ANY slice tensor with the two-array meaning the class reports that
   number as count and as all three bases; [two_arrays_plane] (the plane "category ka of a,
   category kb of b" of the survey's 4-D tensor) has that meaning.  MISSING: a model of 4-D
   slicing, which the library does not have. *)
Theorem C01_arr_x_arr_counts_partial S va mia mca ka vb mib mcb kb nr nc sr sc i j :
  nr = nval mia -> nc = nval mib -> ka < nval mca -> kb < nval mcb -> i < nr -> j < nc ->
  let V := two_arrays_plane va mia mca ka vb mib mcb kb S in
  let n := Fin (wsum S (fun r => in_arr mia mca (ans r va) i ka && in_arr mib mcb (ans r vb) j kb)) in
  counts_of V CArr CArr i j =x= n /\
  row_bases_of V nc sc CArr CArr i j =x= n /\
  column_bases_of V nr sr CArr CArr i j =x= n /\
  table_bases_of V nr nc sr sc CArr CArr i j =x= n.
Proof.
  exact (fun Enr Enc Hka Hkb Hi Hj =>
    arr_arr_class S (two_arrays_plane va mia mca ka vb mib mcb kb S)
      (fun i j r => in_arr mia mca (ans r va) i ka && in_arr mib mcb (ans r vb) j kb) nr nc
      (fun i' j' Hi' Hj' => two_arrays_plane_cell va mia mca ka vb mib mcb kb S i' j'
                              (eq_ind nr (fun n => i' < n) Hi' _ Enr) Hka
                              (eq_ind nc (fun n => j' < n) Hj' _ Enc) Hkb)
      sr sc i j Hi Hj).
Qed.
Print Assumptions C01_arr_x_arr_counts_partial.

Theorem C01_arr_x_arr_needs_four_dimensions ds si :
  (forall d, In d ds -> dk d <> DNumArr) ->
  count_if is_casub ds <= count_if is_dcat ds ->      (* every array brings its categories *)
  slice_info_of ds = Some si ->
  cls_of (si_row si) = CArr -> cls_of (si_col si) = CArr ->
  4 <= si_ndim si.
Proof. exact (arr_arr_needs_four_dims ds si). Qed.
Print Assumptions C01_arr_x_arr_needs_four_dimensions.

(* Non-vacuity.  Five respondents; variable 0 = array of 2 items x 3 categories with the MIDDLE
   category missing, variable 1 = categorical (last category missing), variable 2 = MR with two
   items.  Respondent 2 gave the missing category on item 0, respondent 1 on item 1,
   respondent 4 did not answer item 1.  Each response is produced by [flatten] in its own axis
   order and cut by [slice_counts] (the function the correspondence check evaluates):
   the array alone (ARR x CAT); categories x items x MR, table of the last category (ARR x MR);
   categories x MR x items (MR x ARR); categorical x items x categories, table 1 (ARR x CAT);
   categories x categorical x items, table of the last category (CAT x ARR). *)
Example C01_array_example :
  let S := [ mkResp [AArr [0; 2]; ACat 0; AMr [Sel; Oth]] (3 # 2);
             mkResp [AArr [2; 1]; ACat 1; AMr [Sel; Mis]] 2;
             mkResp [AArr [1; 2]; ACat 0; AMr [Oth; Sel]] 5;
             mkResp [AArr [0; 0]; ACat 1; AMr [Sel; Sel]] (1 # 4);
             mkResp [AArr [2];    ACat 2; AMr [Mis; Sel]] 1 ] in
  let mi := [false; false] in
  let mc := [false; true; false] in
  let mwc := [false; false; true] in
  let mwm := [false; false] in
  let counts l w kw mw k :=
    let ds := lay_dims l mi mc kw mw in
    option_map (fun so => map (map xred) (so_counts so))
               (slice_counts ds (flatten (raw_shape ds) (ca_raw l 0 w kw S)) k) in
  cat_or_mr KCat /\ cat_or_mr KMr /\ KMr <> KArr /\ wf_survey S /\
  nval mi = 2 /\ nval mc = 2 /\ nval mwc = 2 /\ nval mwm = 2 /\
  rows_items L_SC /\ rows_items L_XSC /\ 0 < lay_nt L_SC mi mc mwc /\ 1 < lay_nt L_XSC mi mc mwc /\
  counts L_SC 1 KCat mwc 0 = Some [[Fin (7 # 4); Fin 3]; [Fin (1 # 4); Fin (13 # 2)]] /\
  counts L_CSX 2 KMr mwm 1 = Some [[Fin 2; Fin 1]; [Fin (3 # 2); Fin 5]] /\
  counts L_CXS 2 KMr mwm 1 = Some [[Fin 2; Fin (3 # 2)]; [Fin 1; Fin 5]] /\
  counts L_XSC 1 KCat mwc 1 = Some [[Fin (1 # 4); Fin 2]; [Fin (1 # 4); Fin 0]] /\
  counts L_CXS 1 KCat mwc 1 = Some [[Fin 0; Fin (13 # 2)]; [Fin 2; Fin 0]] /\
  counts L_SCX 2 KMr mwm 1 = Some [[Fin (1 # 4); Fin (1 # 4)]; [Fin (3 # 2); Fin 5]] /\
  counts_of (ca_slice L_CSX 0 mi mc 2 KMr mwm S 1) CArr CMr 1 0 =x= Fin (3 # 2) /\
  (wsum S (fun r => in_arr mi mc (ans r 0) 1 1 && in_el KMr mwm (ans r 2) 0) == 3 # 2)%Q /\
  (wsum S (fun r => in_arr mi mc (ans r 0) 0 1) == 3)%Q /\
  (ca_tabulate L_CXS 0 2 KMr S (lay_index L_CXS 1 2 [O; O]) == 3 # 2)%Q.
Proof.
  cbv zeta. repeat split; try (left; reflexivity); try (right; reflexivity); try discriminate;
    try lia; try (repeat constructor; discriminate); try (vm_compute; reflexivity).
Qed.

(* FROM THE FLAT PAYLOAD (Proofs/ArrayPayloadProofs.v).  [ca_payload l ..] = the response of the
   cube query laid out as l: row-major flattening of [ca_tabulate l] in the all-dimensions shape
   (missing items / categories, full MR selection axis).  [slice_counts] -- the function the
   correspondence check evaluates on the JSON payload: reshape -> Cube._valid_idxs -> dimension
   order -> _slice_idx_expr -> class -- returns, for every layout, X categorical or MR and every
   partition k, in every cell exactly the class extractor applied to [ca_slice l .. S k], i.e.
   the quantities of the theorems above (and of Props/C02.v: C02_*_from_payload state the
   composition with the survey-level meaning, counts included). *)
From CC Require Import Proofs.ArrayPayloadProofs.

Theorem C01_array_slices_from_payload l v mi mc w kw mw S k :
  cat_or_mr kw -> k < lay_nt l mi mc mw ->
  let ds := lay_dims l mi mc kw mw in
  let V := ca_slice l v mi mc w kw mw S k in
  let rc := lay_rcls l kw in
  let cc := lay_ccls l kw in
  let nr := lay_nr l mi mc mw in
  let nc := lay_nc l mi mc mw in
  exists so, slice_counts ds (ca_payload l v mi mc w kw mw S) k = Some so /\
    forall i j, i < nr -> j < nc ->
      mnth (so_counts so) i j = counts_of V rc cc i j /\
      mnth (so_row_bases so) i j = row_bases_of V nc (sel_len cc) rc cc i j /\
      mnth (so_column_bases so) i j = column_bases_of V nr (sel_len rc) rc cc i j /\
      mnth (so_table_bases so) i j = table_bases_of V nr nc (sel_len rc) (sel_len cc) rc cc i j.
Proof. exact (ca_slice_counts_of_payload l v mi mc w kw mw S k). Qed.
Print Assumptions C01_array_slices_from_payload.

(* ------------------------------------------------------------------------------------ *)
(* THE "order" LIST OF A TYPE DEFINITION (type.order of a categorical / enum dimension;
   Model/TypedefOrder.v, Proofs/TypedefOrderProofs.v; dimension.py::Elements.from_typedef).  The
   data runs along the axis in the order of the list's known codes while the catalogue
   (type.categories / type.elements) keeps its own order.  [ordered_defs defs order] = the
   catalogue re-arranged into PAYLOAD order; [elements_of] numbers the elements AFTER that
   re-arrangement, so Element.index is the payload position (second seeding round, C01-3: numbering
   them in catalogue order sends every count to another category, and a missing category's count
   into a valid cell).  [dim_of_typedef] is the dimension the theorems above are stated about: its
   missing flags are those of the re-arranged catalogue. *)
From CC Require Import Model.TypedefOrder Proofs.TypedefOrderProofs.

(* the offsets handed to Cube._valid_idxs are the valid payload positions of the model *)
Theorem C01_typedef_valid_offsets k defs order :
  element_idxs defs order = dvalid (dim_of_typedef k defs order).
Proof. exact (element_idxs_dvalid k defs order). Qed.
Print Assumptions C01_typedef_valid_offsets.

(* Element.index is the payload position of the element's own definition *)
Theorem C01_typedef_index_is_payload_position defs order e :
  In e (elements_of defs order) ->
  nth_error (ordered_defs defs order) (el_index e) = Some (el_def e).
Proof. exact (element_index_is_payload_position defs order e). Qed.
Print Assumptions C01_typedef_index_is_payload_position.

(* each output row r shows the r-th valid element e, reads the payload position el_index e, the
   definition sitting at that payload position is e's own, and e is not flagged missing *)
Theorem C01_typedef_row_is_payload_position_of_shown_element k defs order r :
  r < nvalid (dim_of_typedef k defs order) ->
  exists e,
    nth_error (valid_elements defs order) r = Some e
    /\ nth r (dvalid (dim_of_typedef k defs order)) 0 = el_index e
    /\ nth_error (ordered_defs defs order) (nth r (dvalid (dim_of_typedef k defs order)) 0)
       = Some (el_def e)
    /\ ed_missing (el_def e) = false.
Proof. exact (row_reads_shown_element k defs order r). Qed.
Print Assumptions C01_typedef_row_is_payload_position_of_shown_element.

(* payload position p carries the p-th code of the list that the catalogue knows (unknown codes
   have no slot), with the catalogue's definition of that code; nothing else is an element *)
Theorem C01_typedef_payload_ids defs o :
  map ed_id (ordered_defs defs (Some o)) = known_codes defs o
  /\ (forall e, In e (ordered_defs defs (Some o)) -> In e defs).
Proof. exact (conj (ordered_ids defs o) (ordered_defs_from_catalogue defs (Some o))). Qed.
Print Assumptions C01_typedef_payload_ids.

(* np.ix_ over dimensions given by their type definitions reads the elements' own indexes *)
Theorem C01_typedef_take_valid (ts : list tdim) (T : tensor) idx :
  take_valid (map dim_of ts) T idx = T (remap (map idxs_of ts) idx).
Proof. exact (take_valid_typedefs ts T idx). Qed.
Print Assumptions C01_typedef_take_valid.

(* non-vacuity (the demo of the seeded change): catalogue Red 1, Green 2, No Data -1 (missing),
   Blue 3; the data runs Blue, No Data, Red, Green.  Payload counts 16 30 9 7: the strand shows
   Blue 16, Red 9, Green 7 (ids 3 1 2 at payload offsets 0 2 3); the 30 of No Data shows nowhere. *)
Example C01_typedef_order_example :
  let defs := [mkEdef 1 false; mkEdef 2 false; mkEdef (-1) true; mkEdef 3 false] in
  let order := Some [3; 77; -1; 1; 2]%Z in
  let d := dim_of_typedef DCat defs order in
  dmiss d = [false; true; false; false] /\
  element_ids defs order = [3; 1; 2]%Z /\
  element_idxs defs order = [0; 2; 3] /\
  map (fun r => take_valid [d] (of_flat [4] [Fin 16; Fin 30; Fin 9; Fin 7]) [r]) [0; 1; 2]
    = [Fin 16; Fin 9; Fin 7] /\
  element_ids defs None = [1; 2; 3]%Z /\ element_idxs defs None = [0; 1; 3].
Proof. cbv zeta. repeat split; vm_compute; reflexivity. Qed.


(* ---- BASES-APPENDIX:BEGIN (generated by tools/gen_bases_lemmas.py; do not edit) ---- *)
(* ==== GenAgree (unweighted counts, pass-through numeric measures): what matrix/measure.py and
   stripe/measure.py SAY NOW ==== *)
(* Appended by tools/gen_bases_lemmas.py (statements generated from the lemmas of Proofs/GenAgreePass.v by
   tools/gen_bases_lemmas.py).  Gen/PassMeasureSrc.v ([mexp], read by measures._M through the wiring
   of SecondOrderMeasures) and Gen/StripeBasesSrc.v ([bexp]) are rewritten from the source on every check
   by harness/translate/x_bases.py.  The BASE block of unweighted_counts / means / medians / sums / stddev
   IS the cube measure's array -- the array C01_gen_counts / C01_gen_passthrough tie to [counts_of] /
   [passthrough_of] --, nothing is computed on the way; inserted cells are sums of counts / of sums (NaN
   for a difference where the flags say so) and NaN for mean, median, stddev. *)
From Coq Require String.
From CC Require Base.MeasureExp Base.BasesExp Base.Tensor Model.Subtotals Model.Proportions Model.CubeCounts
     Gen.PassMeasureSrc Gen.StripeBasesSrc Gen.ScalarSrc Gen.StripeFactorySrc Gen.Tables
     Proofs.GenAgreeTac Proofs.GenAgreeMeasTac Proofs.GenAgreeBasesTac Proofs.GenAgreePass Proofs.GenAgreeScalar.
Section GenAgreePass_C01.   (* scopes and imports below end with the section *)
Import Coq.Strings.String CC.Base.Tensor CC.Base.MeasureExp CC.Base.BasesExp CC.Model.Subtotals CC.Model.Proportions
       CC.Model.CubeCounts CC.Gen.PassMeasureSrc CC.Gen.StripeBasesSrc CC.Gen.ScalarSrc CC.Gen.StripeFactorySrc
       CC.Gen.Tables CC.Proofs.GenAgreeTac CC.Proofs.GenAgreeMeasTac CC.Proofs.GenAgreeBasesTac
       CC.Proofs.GenAgreePass CC.Proofs.GenAgreeScalar.
Import Coq.Lists.List.ListNotations CC.Base.XQ CC.Base.ListX.
Local Close Scope Q_scope.
Local Open Scope string_scope.
Local Open Scope nat_scope.

(* SecondOrderMeasures.<UnweightedCounts>.blocks: [0][0], [0][1], [1][0], [1][1] *)
Theorem C01_gen_UnweightedCounts :
  (match xsrc_UnweightedCounts_blocks_00 with
  | Some e => forall nr nc rsubs csubs rd cd blk cubem cubeflag flag,
      holds_mat (menv_mat nr nc rsubs csubs rd cd blk cubem cubeflag flag) e DR DC
        (mnth (b_base (count_blocks nr nc rsubs csubs (cubem "unweighted_cube_counts" "counts") (cubeflag "unweighted_cube_counts" "diff_nans"))))
  | None => True
  end) /\
  (match xsrc_UnweightedCounts_blocks_01 with
  | Some e => forall nr nc rsubs csubs rd cd blk cubem cubeflag flag,
      holds_mat (menv_mat nr nc rsubs csubs rd cd blk cubem cubeflag flag) e DR DCS
        (mnth (b_cols (count_blocks nr nc rsubs csubs (cubem "unweighted_cube_counts" "counts") (cubeflag "unweighted_cube_counts" "diff_nans"))))
  | None => True
  end) /\
  (match xsrc_UnweightedCounts_blocks_10 with
  | Some e => forall nr nc rsubs csubs rd cd blk cubem cubeflag flag,
      holds_mat (menv_mat nr nc rsubs csubs rd cd blk cubem cubeflag flag) e DRS DC
        (mnth (b_rows (count_blocks nr nc rsubs csubs (cubem "unweighted_cube_counts" "counts") (cubeflag "unweighted_cube_counts" "diff_nans"))))
  | None => True
  end) /\
  (match xsrc_UnweightedCounts_blocks_11 with
  | Some e => forall nr nc rsubs csubs rd cd blk cubem cubeflag flag,
      holds_mat (menv_mat nr nc rsubs csubs rd cd blk cubem cubeflag flag) e DRS DCS
        (mnth (b_inter (count_blocks nr nc rsubs csubs (cubem "unweighted_cube_counts" "counts") (cubeflag "unweighted_cube_counts" "diff_nans"))))
  | None => True
  end).
Proof. exact (conj gen_UnweightedCounts_blocks_00 (conj gen_UnweightedCounts_blocks_01 (conj gen_UnweightedCounts_blocks_10 gen_UnweightedCounts_blocks_11))). Qed.
Print Assumptions C01_gen_UnweightedCounts.

(* SecondOrderMeasures.<Means>.blocks: [0][0], [0][1], [1][0], [1][1] *)
Theorem C01_gen_Means :
  (match xsrc_Means_blocks_00 with
  | Some e => forall nr nc rsubs csubs rd cd blk cubem cubeflag flag,
      holds_mat (menv_mat nr nc rsubs csubs rd cd blk cubem cubeflag flag) e DR DC
        (mnth (b_base (nan_blocks (cubem "cube_means" "means") nr nc rsubs csubs)))
  | None => True
  end) /\
  (match xsrc_Means_blocks_01 with
  | Some e => forall nr nc rsubs csubs rd cd blk cubem cubeflag flag,
      holds_mat (menv_mat nr nc rsubs csubs rd cd blk cubem cubeflag flag) e DR DCS
        (mnth (b_cols (nan_blocks (cubem "cube_means" "means") nr nc rsubs csubs)))
  | None => True
  end) /\
  (match xsrc_Means_blocks_10 with
  | Some e => forall nr nc rsubs csubs rd cd blk cubem cubeflag flag,
      holds_mat (menv_mat nr nc rsubs csubs rd cd blk cubem cubeflag flag) e DRS DC
        (mnth (b_rows (nan_blocks (cubem "cube_means" "means") nr nc rsubs csubs)))
  | None => True
  end) /\
  (match xsrc_Means_blocks_11 with
  | Some e => forall nr nc rsubs csubs rd cd blk cubem cubeflag flag,
      holds_mat (menv_mat nr nc rsubs csubs rd cd blk cubem cubeflag flag) e DRS DCS
        (mnth (b_inter (nan_blocks (cubem "cube_means" "means") nr nc rsubs csubs)))
  | None => True
  end).
Proof. exact (conj gen_Means_blocks_00 (conj gen_Means_blocks_01 (conj gen_Means_blocks_10 gen_Means_blocks_11))). Qed.
Print Assumptions C01_gen_Means.

(* SecondOrderMeasures.<Medians>.blocks: [0][0], [0][1], [1][0], [1][1] *)
Theorem C01_gen_Medians :
  (match xsrc_Medians_blocks_00 with
  | Some e => forall nr nc rsubs csubs rd cd blk cubem cubeflag flag,
      holds_mat (menv_mat nr nc rsubs csubs rd cd blk cubem cubeflag flag) e DR DC
        (mnth (b_base (nan_blocks (cubem "cube_medians" "medians") nr nc rsubs csubs)))
  | None => True
  end) /\
  (match xsrc_Medians_blocks_01 with
  | Some e => forall nr nc rsubs csubs rd cd blk cubem cubeflag flag,
      holds_mat (menv_mat nr nc rsubs csubs rd cd blk cubem cubeflag flag) e DR DCS
        (mnth (b_cols (nan_blocks (cubem "cube_medians" "medians") nr nc rsubs csubs)))
  | None => True
  end) /\
  (match xsrc_Medians_blocks_10 with
  | Some e => forall nr nc rsubs csubs rd cd blk cubem cubeflag flag,
      holds_mat (menv_mat nr nc rsubs csubs rd cd blk cubem cubeflag flag) e DRS DC
        (mnth (b_rows (nan_blocks (cubem "cube_medians" "medians") nr nc rsubs csubs)))
  | None => True
  end) /\
  (match xsrc_Medians_blocks_11 with
  | Some e => forall nr nc rsubs csubs rd cd blk cubem cubeflag flag,
      holds_mat (menv_mat nr nc rsubs csubs rd cd blk cubem cubeflag flag) e DRS DCS
        (mnth (b_inter (nan_blocks (cubem "cube_medians" "medians") nr nc rsubs csubs)))
  | None => True
  end).
Proof. exact (conj gen_Medians_blocks_00 (conj gen_Medians_blocks_01 (conj gen_Medians_blocks_10 gen_Medians_blocks_11))). Qed.
Print Assumptions C01_gen_Medians.

(* SecondOrderMeasures.<Sums>.blocks: [0][0], [0][1], [1][0], [1][1] *)
Theorem C01_gen_Sums :
  (match xsrc_Sums_blocks_00 with
  | Some e => forall nr nc rsubs csubs rd cd blk cubem cubeflag flag,
      holds_mat (menv_mat nr nc rsubs csubs rd cd blk cubem cubeflag flag) e DR DC
        (mnth (b_base (sum_blocks (cubem "cube_sum" "sums") nr nc rsubs csubs true true)))
  | None => True
  end) /\
  (match xsrc_Sums_blocks_01 with
  | Some e => forall nr nc rsubs csubs rd cd blk cubem cubeflag flag,
      holds_mat (menv_mat nr nc rsubs csubs rd cd blk cubem cubeflag flag) e DR DCS
        (mnth (b_cols (sum_blocks (cubem "cube_sum" "sums") nr nc rsubs csubs true true)))
  | None => True
  end) /\
  (match xsrc_Sums_blocks_10 with
  | Some e => forall nr nc rsubs csubs rd cd blk cubem cubeflag flag,
      holds_mat (menv_mat nr nc rsubs csubs rd cd blk cubem cubeflag flag) e DRS DC
        (mnth (b_rows (sum_blocks (cubem "cube_sum" "sums") nr nc rsubs csubs true true)))
  | None => True
  end) /\
  (match xsrc_Sums_blocks_11 with
  | Some e => forall nr nc rsubs csubs rd cd blk cubem cubeflag flag,
      holds_mat (menv_mat nr nc rsubs csubs rd cd blk cubem cubeflag flag) e DRS DCS
        (mnth (b_inter (sum_blocks (cubem "cube_sum" "sums") nr nc rsubs csubs true true)))
  | None => True
  end).
Proof. exact (conj gen_Sums_blocks_00 (conj gen_Sums_blocks_01 (conj gen_Sums_blocks_10 gen_Sums_blocks_11))). Qed.
Print Assumptions C01_gen_Sums.

(* SecondOrderMeasures.<StdDev>.blocks: [0][0], [0][1], [1][0], [1][1] *)
Theorem C01_gen_StdDev :
  (match xsrc_StdDev_blocks_00 with
  | Some e => forall nr nc rsubs csubs rd cd blk cubem cubeflag flag,
      holds_mat (menv_mat nr nc rsubs csubs rd cd blk cubem cubeflag flag) e DR DC
        (mnth (b_base (nan_blocks (cubem "cube_stddev" "stddev") nr nc rsubs csubs)))
  | None => True
  end) /\
  (match xsrc_StdDev_blocks_01 with
  | Some e => forall nr nc rsubs csubs rd cd blk cubem cubeflag flag,
      holds_mat (menv_mat nr nc rsubs csubs rd cd blk cubem cubeflag flag) e DR DCS
        (mnth (b_cols (nan_blocks (cubem "cube_stddev" "stddev") nr nc rsubs csubs)))
  | None => True
  end) /\
  (match xsrc_StdDev_blocks_10 with
  | Some e => forall nr nc rsubs csubs rd cd blk cubem cubeflag flag,
      holds_mat (menv_mat nr nc rsubs csubs rd cd blk cubem cubeflag flag) e DRS DC
        (mnth (b_rows (nan_blocks (cubem "cube_stddev" "stddev") nr nc rsubs csubs)))
  | None => True
  end) /\
  (match xsrc_StdDev_blocks_11 with
  | Some e => forall nr nc rsubs csubs rd cd blk cubem cubeflag flag,
      holds_mat (menv_mat nr nc rsubs csubs rd cd blk cubem cubeflag flag) e DRS DCS
        (mnth (b_inter (nan_blocks (cubem "cube_stddev" "stddev") nr nc rsubs csubs)))
  | None => True
  end).
Proof. exact (conj gen_StdDev_blocks_00 (conj gen_StdDev_blocks_01 (conj gen_StdDev_blocks_10 gen_StdDev_blocks_11))). Qed.
Print Assumptions C01_gen_StdDev.

(* StripeMeasures.<UnweightedCounts>: base_values, subtotal_values *)
Theorem C01_gen_stripe_UnweightedCounts :
  (match ssrc_UnweightedCounts_base_values with
  | Some e => forall n subs v,
      bagrees_vec (beval (benv_strand n subs (fun c a => if String.eqb c "unweighted_cube_counts" && String.eqb a "counts" then WVec n (vnth v) else WErr)) e) n (vnth v)
  | None => True
  end) /\
  (match ssrc_UnweightedCounts_subtotal_values with
  | Some e => forall n subs v,
      bagrees_vec (beval (benv_strand n subs (fun c a => if String.eqb c "unweighted_cube_counts" && String.eqb a "counts" then WVec n (vnth v) else WErr)) e) (List.length subs) (fun k => stripe_sum_subtotal v (nth k subs nosub))
  | None => True
  end).
Proof. exact (conj gen_stripe_UnweightedCounts_base_values gen_stripe_UnweightedCounts_subtotal_values). Qed.
Print Assumptions C01_gen_stripe_UnweightedCounts.

(* StripeMeasures.<WeightedCounts>: base_values, subtotal_values *)
Theorem C01_gen_stripe_WeightedCounts :
  (match ssrc_WeightedCounts_base_values with
  | Some e => forall n subs v,
      bagrees_vec (beval (benv_strand n subs (fun c a => if String.eqb c "weighted_cube_counts" && String.eqb a "counts" then WVec n (vnth v) else WErr)) e) n (vnth v)
  | None => True
  end) /\
  (match ssrc_WeightedCounts_subtotal_values with
  | Some e => forall n subs v,
      bagrees_vec (beval (benv_strand n subs (fun c a => if String.eqb c "weighted_cube_counts" && String.eqb a "counts" then WVec n (vnth v) else WErr)) e) (List.length subs) (fun k => stripe_sum_subtotal v (nth k subs nosub))
  | None => True
  end).
Proof. exact (conj gen_stripe_WeightedCounts_base_values gen_stripe_WeightedCounts_subtotal_values). Qed.
Print Assumptions C01_gen_stripe_WeightedCounts.

(* StripeMeasures.<Means>: base_values, subtotal_values *)
Theorem C01_gen_stripe_Means :
  (match ssrc_Means_base_values with
  | Some e => forall n subs v,
      bagrees_vec (beval (benv_strand n subs (fun c a => if String.eqb c "cube_means" && String.eqb a "means" then WVec n (vnth v) else WErr)) e) n (vnth v)
  | None => True
  end) /\
  (match ssrc_Means_subtotal_values with
  | Some e => forall n subs v,
      bagrees_vec (beval (benv_strand n subs (fun c a => if String.eqb c "cube_means" && String.eqb a "means" then WVec n (vnth v) else WErr)) e) (List.length subs) (fun _ => NaN)
  | None => True
  end).
Proof. exact (conj gen_stripe_Means_base_values gen_stripe_Means_subtotal_values). Qed.
Print Assumptions C01_gen_stripe_Means.

(* StripeMeasures.<Medians>: base_values, subtotal_values *)
Theorem C01_gen_stripe_Medians :
  (match ssrc_Medians_base_values with
  | Some e => forall n subs v,
      bagrees_vec (beval (benv_strand n subs (fun c a => if String.eqb c "cube_medians" && String.eqb a "medians" then WVec n (vnth v) else WErr)) e) n (vnth v)
  | None => True
  end) /\
  (match ssrc_Medians_subtotal_values with
  | Some e => forall n subs v,
      bagrees_vec (beval (benv_strand n subs (fun c a => if String.eqb c "cube_medians" && String.eqb a "medians" then WVec n (vnth v) else WErr)) e) (List.length subs) (fun _ => NaN)
  | None => True
  end).
Proof. exact (conj gen_stripe_Medians_base_values gen_stripe_Medians_subtotal_values). Qed.
Print Assumptions C01_gen_stripe_Medians.

(* StripeMeasures.<Sums>: base_values, subtotal_values *)
Theorem C01_gen_stripe_Sums :
  (match ssrc_Sums_base_values with
  | Some e => forall n subs v,
      bagrees_vec (beval (benv_strand n subs (fun c a => if String.eqb c "cube_sum" && String.eqb a "sums" then WVec n (vnth v) else WErr)) e) n (vnth v)
  | None => True
  end) /\
  (match ssrc_Sums_subtotal_values with
  | Some e => forall n subs v,
      bagrees_vec (beval (benv_strand n subs (fun c a => if String.eqb c "cube_sum" && String.eqb a "sums" then WVec n (vnth v) else WErr)) e) (List.length subs) (fun k => stripe_sum_subtotal v (nth k subs nosub))
  | None => True
  end).
Proof. exact (conj gen_stripe_Sums_base_values gen_stripe_Sums_subtotal_values). Qed.
Print Assumptions C01_gen_stripe_Sums.

(* StripeMeasures.<StdDev>: base_values, subtotal_values *)
Theorem C01_gen_stripe_StdDev :
  (match ssrc_StdDev_base_values with
  | Some e => forall n subs v,
      bagrees_vec (beval (benv_strand n subs (fun c a => if String.eqb c "cube_stddev" && String.eqb a "stddev" then WVec n (vnth v) else WErr)) e) n (vnth v)
  | None => True
  end) /\
  (match ssrc_StdDev_subtotal_values with
  | Some e => forall n subs v,
      bagrees_vec (beval (benv_strand n subs (fun c a => if String.eqb c "cube_stddev" && String.eqb a "stddev" then WVec n (vnth v) else WErr)) e) (List.length subs) (fun _ => NaN)
  | None => True
  end).
Proof. exact (conj gen_stripe_StdDev_base_values gen_stripe_StdDev_subtotal_values). Qed.
Print Assumptions C01_gen_stripe_StdDev.

(* scalar.py MeansScalar (the 0-D nub's data object): means = the constructor argument (cube.means), table_base = that same value, ndim = 0 *)
Theorem C01_gen_MeansScalar :
  (match src_MeansScalar_means with
  | Some e => forall arg, beval (benv_args arg) e = arg "means"
  | None => True
  end) /\
  (match src_MeansScalar_table_base with
  | Some e => forall arg, beval (benv_args arg) e = arg "means"
  | None => True
  end) /\
  (match src_MeansScalar_ndim with
  | Some e => forall arg, beval (benv_args arg) e = WScal (Fin 0%Q)
  | None => True
  end).
Proof. exact (conj gen_MeansScalar_means (conj gen_MeansScalar_table_base gen_MeansScalar_ndim)). Qed.
Print Assumptions C01_gen_MeansScalar.

(* stripe/cubemeasure.py _BaseCubeMeans / Medians / StdDev / Sums .factory: raises iff cube.<measure> is None; the _Mr class iff the rows dimension is MR_SUBVAR, else _Cat; constructed on (rows_dimension, cube.<measure>), which land in the field the methods read *)
Theorem C01_gen_stripe_numeric_factories :
  (match ssrc_CubeMeans_factory, tbl_DT_members with
  | Some (guard, D, args, flds), Some _ =>
      guard = "means" /\ args = ["rows_dimension"; "cube.means"] /\
      assoc "_means" flds = Some "means" /\
      forall k, stripe_pick false k (fst D) (snd D)
                = ((if is_mr_kind k then "_MrCubeMeans" else "_CatCubeMeans"), false)
  | _, _ => True
  end) /\
  (match ssrc_CubeMedians_factory, tbl_DT_members with
  | Some (guard, D, args, flds), Some _ =>
      guard = "medians" /\ args = ["rows_dimension"; "cube.medians"] /\
      assoc "_medians" flds = Some "medians" /\
      forall k, stripe_pick false k (fst D) (snd D)
                = ((if is_mr_kind k then "_MrCubeMedians" else "_CatCubeMedians"), false)
  | _, _ => True
  end) /\
  (match ssrc_CubeStdDev_factory, tbl_DT_members with
  | Some (guard, D, args, flds), Some _ =>
      guard = "stddev" /\ args = ["rows_dimension"; "cube.stddev"] /\
      assoc "_stddev" flds = Some "stddev" /\
      forall k, stripe_pick false k (fst D) (snd D)
                = ((if is_mr_kind k then "_MrCubeStdDev" else "_CatCubeStdDev"), false)
  | _, _ => True
  end) /\
  (match ssrc_CubeSums_factory, tbl_DT_members with
  | Some (guard, D, args, flds), Some _ =>
      guard = "sums" /\ args = ["rows_dimension"; "cube.sums"] /\
      assoc "_sums" flds = Some "sums" /\
      forall k, stripe_pick false k (fst D) (snd D)
                = ((if is_mr_kind k then "_MrCubeSums" else "_CatCubeSums"), false)
  | _, _ => True
  end).
Proof. exact (conj gen_stripe_CubeMeans_factory (conj gen_stripe_CubeMedians_factory (conj gen_stripe_CubeStdDev_factory gen_stripe_CubeSums_factory))). Qed.
Print Assumptions C01_gen_stripe_numeric_factories.

(* stripe CubeMeasures: which factory on which arguments; the counts are the VALID counts when the cube has them, else the plain ones *)
Theorem C01_gen_stripe_CubeMeasures :
  (match ssrc_CubeMeasures_cube_means with
  | Some e => e = CMFactory "_BaseCubeMeans" [KField "cube"; KField "rows_dimension"]
  | None => True
  end) /\
  (match ssrc_CubeMeasures_cube_medians with
  | Some e => e = CMFactory "_BaseCubeMedians" [KField "cube"; KField "rows_dimension"]
  | None => True
  end) /\
  (match ssrc_CubeMeasures_cube_stddev with
  | Some e => e = CMFactory "_BaseCubeStdDev" [KField "cube"; KField "rows_dimension"]
  | None => True
  end) /\
  (match ssrc_CubeMeasures_cube_sum with
  | Some e => e = CMFactory "_BaseCubeSums" [KField "cube"; KField "rows_dimension"]
  | None => True
  end) /\
  (match ssrc_CubeMeasures_unweighted_cube_counts with
  | Some (CMFactory base args) =>
      base = "_BaseCubeCounts" /\
      tl args = [KField "rows_dimension"; KField "ca_as_0th"; KField "slice_idx"] /\
      forall (A : Type) (field cube : string -> option A),
        option_map (carg_eval field cube) (hd_error args)
        = Some (match cube "unweighted_valid_counts" with Some v => Some v | None => cube "unweighted_counts" end)
  | None => True
  end) /\
  (match ssrc_CubeMeasures_weighted_cube_counts with
  | Some (CMFactory base args) =>
      base = "_BaseCubeCounts" /\
      tl args = [KField "rows_dimension"; KField "ca_as_0th"; KField "slice_idx"] /\
      forall (A : Type) (field cube : string -> option A),
        option_map (carg_eval field cube) (hd_error args)
        = Some (match cube "weighted_valid_counts" with Some v => Some v | None => cube "counts" end)
  | None => True
  end).
Proof. exact (conj gen_stripe_CubeMeasures_cube_means (conj gen_stripe_CubeMeasures_cube_medians (conj gen_stripe_CubeMeasures_cube_stddev (conj gen_stripe_CubeMeasures_cube_sum (conj gen_stripe_CubeMeasures_unweighted_cube_counts gen_stripe_CubeMeasures_weighted_cube_counts))))). Qed.
Print Assumptions C01_gen_stripe_CubeMeasures.


(* non-vacuity: the TRANSLATED strand terms run on counts [2 3 4] with the subtotals {0,2} and 2 - 1:
   unweighted counts [6 1]; means: NaN for both *)
Example C01_gen_pass_example :
  let cube := fun (c a : string) => WVec 3 (vnth [Fin 2%Q; Fin 3%Q; Fin 4%Q]) in
  let E := benv_strand 3 [mkSub [0; 2] []; mkSub [2] [1]] cube in
  match ssrc_UnweightedCounts_subtotal_values, ssrc_Means_subtotal_values with
  | Some c, Some m =>
      bshape_of (beval E c) = [2] /\ bcell (beval E c) 0 0 =x= Fin 6%Q /\ bcell (beval E c) 0 1 =x= Fin 1%Q /\
      bshape_of (beval E m) = [2] /\ bcell (beval E m) 0 0 = NaN /\ bcell (beval E m) 0 1 = NaN
  | _, _ => True
  end.
Proof. vm_compute. first [exact I | repeat split; reflexivity]. Qed.

End GenAgreePass_C01.
(* ---- BASES-APPENDIX:END ---- *)

(* ---- WIRING-APPENDIX:BEGIN (generated by tools/gen_wiring_props.py; do not edit) ---- *)
From CC Require Proofs.GenAgreeWiring_C01.
Section Wiring_C01.
Import Coq.Lists.List Coq.ZArith.ZArith Coq.Strings.String CC.Base.WiringExp CC.Gen.WiringSrc.
Import ListNotations.
Local Open Scope string_scope.

Theorem C01_wiring_CubePartition_ndim :
  wsrc_CubePartition_ndim = Some (WCall (WGlobal "len") [WSelf "_dimensions"] []).
Proof. exact Proofs.GenAgreeWiring_C01.gen_wiring_CubePartition_ndim. Qed.
Print Assumptions C01_wiring_CubePartition_ndim.

Theorem C01_wiring_CubePartition_shape :
  wsrc_CubePartition_shape = Some (WRaise "NotImplementedError").
Proof. exact Proofs.GenAgreeWiring_C01.gen_wiring_CubePartition_shape. Qed.
Print Assumptions C01_wiring_CubePartition_shape.

Theorem C01_wiring_CubePartition__available_measures :
  wsrc_CubePartition__available_measures = Some (WCall (WGlobal "sorted") [WCall (WGlobal "list")
      [WAttr (WSelf "_cube") "available_measures"] []] [("key", WLambda ["el"] (WAttr (WVar "el")
      "name"))]).
Proof. exact Proofs.GenAgreeWiring_C01.gen_wiring_CubePartition__available_measures. Qed.
Print Assumptions C01_wiring_CubePartition__available_measures.

Theorem C01_wiring_CubePartition__default_contents :
  wsrc_CubePartition__default_contents = Some (WCall (WGlobal "getattr") [WVar "self"; WIndex (WDict
      [(WAttr (WGlobal "CM") "COUNT", WStr "counts"); (WAttr (WGlobal "CM") "MEAN", WStr "means");
      (WAttr (WGlobal "CM") "SUM", WStr "sums")]) [WIndex (WSelf "_available_measures") [WInt
      (0)%Z]]] []).
Proof. exact Proofs.GenAgreeWiring_C01.gen_wiring_CubePartition__default_contents. Qed.
Print Assumptions C01_wiring_CubePartition__default_contents.

Theorem C01_wiring_Slice_counts :
  wsrc_Slice_counts = Some (w_matrix_of "weighted_counts").
Proof. exact Proofs.GenAgreeWiring_C01.gen_wiring_Slice_counts. Qed.
Print Assumptions C01_wiring_Slice_counts.

Theorem C01_wiring_Slice_is_empty :
  wsrc_Slice_is_empty = Some (WCall (WGlobal "any") [WComp "gen" (WCmp "==" (WVar "s") (WInt (0)%Z))
      [(["s"], WSelf "shape", [])]] []).
Proof. exact Proofs.GenAgreeWiring_C01.gen_wiring_Slice_is_empty. Qed.
Print Assumptions C01_wiring_Slice_is_empty.

Theorem C01_wiring_Slice_means :
  wsrc_Slice_means = Some (WTryValueError (w_matrix_of "means") "").
Proof. exact Proofs.GenAgreeWiring_C01.gen_wiring_Slice_means. Qed.
Print Assumptions C01_wiring_Slice_means.

Theorem C01_wiring_Slice_medians :
  wsrc_Slice_medians = Some (WTryValueError (w_matrix_of "medians") "").
Proof. exact Proofs.GenAgreeWiring_C01.gen_wiring_Slice_medians. Qed.
Print Assumptions C01_wiring_Slice_medians.

Theorem C01_wiring_Slice_shape :
  wsrc_Slice_shape = Some (WAttr (WSelf "counts") "shape").
Proof. exact Proofs.GenAgreeWiring_C01.gen_wiring_Slice_shape. Qed.
Print Assumptions C01_wiring_Slice_shape.

Theorem C01_wiring_Slice_stddev :
  wsrc_Slice_stddev = Some (WTryValueError (w_matrix_of "stddev") "").
Proof. exact Proofs.GenAgreeWiring_C01.gen_wiring_Slice_stddev. Qed.
Print Assumptions C01_wiring_Slice_stddev.

Theorem C01_wiring_Slice_sums :
  wsrc_Slice_sums = Some (WTryValueError (w_matrix_of "sums") "").
Proof. exact Proofs.GenAgreeWiring_C01.gen_wiring_Slice_sums. Qed.
Print Assumptions C01_wiring_Slice_sums.

Theorem C01_wiring_Slice_unweighted_counts :
  wsrc_Slice_unweighted_counts = Some (w_matrix_of "unweighted_counts").
Proof. exact Proofs.GenAgreeWiring_C01.gen_wiring_Slice_unweighted_counts. Qed.
Print Assumptions C01_wiring_Slice_unweighted_counts.

Theorem C01_wiring_Strand_weighted_counts :
  wsrc_Strand_weighted_counts = Some (w_vector_of "weighted_counts").
Proof. exact Proofs.GenAgreeWiring_C01.gen_wiring_Strand_weighted_counts. Qed.
Print Assumptions C01_wiring_Strand_weighted_counts.

Theorem C01_wiring_Strand_is_empty :
  wsrc_Strand_is_empty = Some (WCall (WGlobal "any") [WComp "gen" (WCmp "==" (WVar "s") (WInt (0)%Z))
      [(["s"], WSelf "shape", [])]] []).
Proof. exact Proofs.GenAgreeWiring_C01.gen_wiring_Strand_is_empty. Qed.
Print Assumptions C01_wiring_Strand_is_empty.

Theorem C01_wiring_Strand_means :
  wsrc_Strand_means = Some (WTryValueError (w_vector_of "means") "").
Proof. exact Proofs.GenAgreeWiring_C01.gen_wiring_Strand_means. Qed.
Print Assumptions C01_wiring_Strand_means.

Theorem C01_wiring_Strand_medians :
  wsrc_Strand_medians = Some (WTryValueError (w_vector_of "medians") "").
Proof. exact Proofs.GenAgreeWiring_C01.gen_wiring_Strand_medians. Qed.
Print Assumptions C01_wiring_Strand_medians.

Theorem C01_wiring_Strand_shape :
  wsrc_Strand_shape = Some (WTuple [WSelf "row_count"]).
Proof. exact Proofs.GenAgreeWiring_C01.gen_wiring_Strand_shape. Qed.
Print Assumptions C01_wiring_Strand_shape.

Theorem C01_wiring_Strand_stddev :
  wsrc_Strand_stddev = Some (WTryValueError (w_vector_of "stddev") "").
Proof. exact Proofs.GenAgreeWiring_C01.gen_wiring_Strand_stddev. Qed.
Print Assumptions C01_wiring_Strand_stddev.

Theorem C01_wiring_Strand_sums :
  wsrc_Strand_sums = Some (WTryValueError (w_vector_of "sums") "").
Proof. exact Proofs.GenAgreeWiring_C01.gen_wiring_Strand_sums. Qed.
Print Assumptions C01_wiring_Strand_sums.

Theorem C01_wiring_Strand_unweighted_counts :
  wsrc_Strand_unweighted_counts = Some (w_vector_of "unweighted_counts").
Proof. exact Proofs.GenAgreeWiring_C01.gen_wiring_Strand_unweighted_counts. Qed.
Print Assumptions C01_wiring_Strand_unweighted_counts.

Theorem C01_wiring_Nub_is_empty :
  wsrc_Nub_is_empty = Some (WIf (WCmp "<=" (WSelf "unweighted_count") (WInt (0)%Z)) (WTrue) (WCall
      (WAttr (WGlobal "math") "isnan") [WSelf "unweighted_count"] [])).
Proof. exact Proofs.GenAgreeWiring_C01.gen_wiring_Nub_is_empty. Qed.
Print Assumptions C01_wiring_Nub_is_empty.

Theorem C01_wiring_Nub_means :
  wsrc_Nub_means = Some (WAttr (WSelf "_scalar") "means").
Proof. exact Proofs.GenAgreeWiring_C01.gen_wiring_Nub_means. Qed.
Print Assumptions C01_wiring_Nub_means.

Theorem C01_wiring_Nub_unweighted_count :
  wsrc_Nub_unweighted_count = Some (WAttr (WSelf "_cube") "unweighted_counts").
Proof. exact Proofs.GenAgreeWiring_C01.gen_wiring_Nub_unweighted_count. Qed.
Print Assumptions C01_wiring_Nub_unweighted_count.

Theorem C01_wiring_Nub__scalar :
  wsrc_Nub__scalar = Some (WCall (WGlobal "MeansScalar") [WAttr (WSelf "_cube") "means"; WAttr (WSelf
      "_cube") "unweighted_counts"] []).
Proof. exact Proofs.GenAgreeWiring_C01.gen_wiring_Nub__scalar. Qed.
Print Assumptions C01_wiring_Nub__scalar.

Theorem C01_wiring_SecondOrderMeasures_means :
  wsrc_SecondOrderMeasures_means = Some (WCall (WGlobal "_Means") [WSelf "_dimensions"; WVar "self";
      WSelf "_cube_measures"] []).
Proof. exact Proofs.GenAgreeWiring_C01.gen_wiring_SecondOrderMeasures_means. Qed.
Print Assumptions C01_wiring_SecondOrderMeasures_means.

Theorem C01_wiring_SecondOrderMeasures_medians :
  wsrc_SecondOrderMeasures_medians = Some (WCall (WGlobal "_Medians") [WSelf "_dimensions"; WVar
      "self"; WSelf "_cube_measures"] []).
Proof. exact Proofs.GenAgreeWiring_C01.gen_wiring_SecondOrderMeasures_medians. Qed.
Print Assumptions C01_wiring_SecondOrderMeasures_medians.

Theorem C01_wiring_SecondOrderMeasures_sums :
  wsrc_SecondOrderMeasures_sums = Some (WCall (WGlobal "_Sums") [WSelf "_dimensions"; WVar "self";
      WSelf "_cube_measures"] []).
Proof. exact Proofs.GenAgreeWiring_C01.gen_wiring_SecondOrderMeasures_sums. Qed.
Print Assumptions C01_wiring_SecondOrderMeasures_sums.

Theorem C01_wiring_SecondOrderMeasures_stddev :
  wsrc_SecondOrderMeasures_stddev = Some (WCall (WGlobal "_StdDev") [WSelf "_dimensions"; WVar "self";
      WSelf "_cube_measures"] []).
Proof. exact Proofs.GenAgreeWiring_C01.gen_wiring_SecondOrderMeasures_stddev. Qed.
Print Assumptions C01_wiring_SecondOrderMeasures_stddev.

Theorem C01_wiring_SecondOrderMeasures_unweighted_counts :
  wsrc_SecondOrderMeasures_unweighted_counts = Some (WCall (WGlobal "_UnweightedCounts") [WSelf
      "_dimensions"; WVar "self"; WSelf "_cube_measures"] []).
Proof. exact Proofs.GenAgreeWiring_C01.gen_wiring_SecondOrderMeasures_unweighted_counts. Qed.
Print Assumptions C01_wiring_SecondOrderMeasures_unweighted_counts.

Theorem C01_wiring_SecondOrderMeasures_weighted_counts :
  wsrc_SecondOrderMeasures_weighted_counts = Some (WCall (WGlobal "_WeightedCounts") [WSelf
      "_dimensions"; WVar "self"; WSelf "_cube_measures"] []).
Proof. exact Proofs.GenAgreeWiring_C01.gen_wiring_SecondOrderMeasures_weighted_counts. Qed.
Print Assumptions C01_wiring_SecondOrderMeasures_weighted_counts.

Theorem C01_wiring_BaseSecondOrderMeasure__unweighted_cube_counts :
  wsrc_BaseSecondOrderMeasure__unweighted_cube_counts = Some (WAttr (WSelf "_cube_measures")
      "unweighted_cube_counts").
Proof. exact Proofs.GenAgreeWiring_C01.gen_wiring_BaseSecondOrderMeasure__unweighted_cube_counts. Qed.
Print Assumptions C01_wiring_BaseSecondOrderMeasure__unweighted_cube_counts.

Theorem C01_wiring_BaseSecondOrderMeasure__weighted_cube_counts :
  wsrc_BaseSecondOrderMeasure__weighted_cube_counts = Some (WAttr (WSelf "_cube_measures")
      "weighted_cube_counts").
Proof. exact Proofs.GenAgreeWiring_C01.gen_wiring_BaseSecondOrderMeasure__weighted_cube_counts. Qed.
Print Assumptions C01_wiring_BaseSecondOrderMeasure__weighted_cube_counts.

Theorem C01_wiring_MatrixCubeMeasures_cube_means :
  wsrc_MatrixCubeMeasures_cube_means = Some (WCall (WAttr (WGlobal "_BaseCubeMeans") "factory") [WSelf
      "_cube"; WSelf "_dimensions"; WSelf "_slice_idx"] []).
Proof. exact Proofs.GenAgreeWiring_C01.gen_wiring_MatrixCubeMeasures_cube_means. Qed.
Print Assumptions C01_wiring_MatrixCubeMeasures_cube_means.

Theorem C01_wiring_MatrixCubeMeasures_cube_medians :
  wsrc_MatrixCubeMeasures_cube_medians = Some (WCall (WAttr (WGlobal "_BaseCubeMedians") "factory")
      [WSelf "_cube"; WSelf "_dimensions"; WSelf "_slice_idx"] []).
Proof. exact Proofs.GenAgreeWiring_C01.gen_wiring_MatrixCubeMeasures_cube_medians. Qed.
Print Assumptions C01_wiring_MatrixCubeMeasures_cube_medians.

Theorem C01_wiring_MatrixCubeMeasures_cube_sum :
  wsrc_MatrixCubeMeasures_cube_sum = Some (WCall (WAttr (WGlobal "_BaseCubeSums") "factory") [WSelf
      "_cube"; WSelf "_dimensions"; WSelf "_slice_idx"] []).
Proof. exact Proofs.GenAgreeWiring_C01.gen_wiring_MatrixCubeMeasures_cube_sum. Qed.
Print Assumptions C01_wiring_MatrixCubeMeasures_cube_sum.

Theorem C01_wiring_MatrixCubeMeasures_cube_stddev :
  wsrc_MatrixCubeMeasures_cube_stddev = Some (WCall (WAttr (WGlobal "_BaseCubeStdDev") "factory")
      [WSelf "_cube"; WSelf "_dimensions"; WSelf "_slice_idx"] []).
Proof. exact Proofs.GenAgreeWiring_C01.gen_wiring_MatrixCubeMeasures_cube_stddev. Qed.
Print Assumptions C01_wiring_MatrixCubeMeasures_cube_stddev.

Theorem C01_wiring_MatrixCubeMeasures_unweighted_cube_counts :
  wsrc_MatrixCubeMeasures_unweighted_cube_counts = Some (WCall (WAttr (WGlobal "_BaseCubeCounts")
      "factory") [WIf (WCmp "is not" (WAttr (WSelf "_cube") "unweighted_valid_counts") (WNone))
      (WAttr (WSelf "_cube") "unweighted_valid_counts") (WAttr (WSelf "_cube") "unweighted_counts");
      WIf (WCmp "is not" (WAttr (WSelf "_cube") "unweighted_valid_counts") (WNone)) (WTrue)
      (WFalse); WSelf "_cube"; WSelf "_dimensions"; WSelf "_slice_idx"] []).
Proof. exact Proofs.GenAgreeWiring_C01.gen_wiring_MatrixCubeMeasures_unweighted_cube_counts. Qed.
Print Assumptions C01_wiring_MatrixCubeMeasures_unweighted_cube_counts.

Theorem C01_wiring_MatrixCubeMeasures_weighted_cube_counts :
  wsrc_MatrixCubeMeasures_weighted_cube_counts = Some (WCall (WAttr (WGlobal "_BaseCubeCounts")
      "factory") [WIf (WCmp "is not" (WAttr (WSelf "_cube") "weighted_valid_counts") (WNone)) (WAttr
      (WSelf "_cube") "weighted_valid_counts") (WAttr (WSelf "_cube") "counts"); WIf (WCmp "is not"
      (WAttr (WSelf "_cube") "weighted_valid_counts") (WNone)) (WTrue) (WFalse); WSelf "_cube";
      WSelf "_dimensions"; WSelf "_slice_idx"] []).
Proof. exact Proofs.GenAgreeWiring_C01.gen_wiring_MatrixCubeMeasures_weighted_cube_counts. Qed.
Print Assumptions C01_wiring_MatrixCubeMeasures_weighted_cube_counts.

Theorem C01_wiring_StripeMeasures_means :
  wsrc_StripeMeasures_means = Some (WCall (WGlobal "_Means") [WSelf "_rows_dimension"; WVar "self";
      WSelf "_cube_measures"] []).
Proof. exact Proofs.GenAgreeWiring_C01.gen_wiring_StripeMeasures_means. Qed.
Print Assumptions C01_wiring_StripeMeasures_means.

Theorem C01_wiring_StripeMeasures_medians :
  wsrc_StripeMeasures_medians = Some (WCall (WGlobal "_Medians") [WSelf "_rows_dimension"; WVar
      "self"; WSelf "_cube_measures"] []).
Proof. exact Proofs.GenAgreeWiring_C01.gen_wiring_StripeMeasures_medians. Qed.
Print Assumptions C01_wiring_StripeMeasures_medians.

Theorem C01_wiring_StripeMeasures_stddev :
  wsrc_StripeMeasures_stddev = Some (WCall (WGlobal "_StdDev") [WSelf "_rows_dimension"; WVar "self";
      WSelf "_cube_measures"] []).
Proof. exact Proofs.GenAgreeWiring_C01.gen_wiring_StripeMeasures_stddev. Qed.
Print Assumptions C01_wiring_StripeMeasures_stddev.

Theorem C01_wiring_StripeMeasures_sums :
  wsrc_StripeMeasures_sums = Some (WCall (WGlobal "_Sums") [WSelf "_rows_dimension"; WVar "self";
      WSelf "_cube_measures"] []).
Proof. exact Proofs.GenAgreeWiring_C01.gen_wiring_StripeMeasures_sums. Qed.
Print Assumptions C01_wiring_StripeMeasures_sums.

Theorem C01_wiring_StripeMeasures_unweighted_counts :
  wsrc_StripeMeasures_unweighted_counts = Some (WCall (WGlobal "_UnweightedCounts") [WSelf
      "_rows_dimension"; WVar "self"; WSelf "_cube_measures"] []).
Proof. exact Proofs.GenAgreeWiring_C01.gen_wiring_StripeMeasures_unweighted_counts. Qed.
Print Assumptions C01_wiring_StripeMeasures_unweighted_counts.

Theorem C01_wiring_StripeMeasures_weighted_counts :
  wsrc_StripeMeasures_weighted_counts = Some (WCall (WGlobal "_WeightedCounts") [WSelf
      "_rows_dimension"; WVar "self"; WSelf "_cube_measures"] []).
Proof. exact Proofs.GenAgreeWiring_C01.gen_wiring_StripeMeasures_weighted_counts. Qed.
Print Assumptions C01_wiring_StripeMeasures_weighted_counts.

Theorem C01_wiring_StripeBaseSecondOrderMeasure__unweighted_cube_counts :
  wsrc_StripeBaseSecondOrderMeasure__unweighted_cube_counts = Some (WAttr (WSelf "_cube_measures")
      "unweighted_cube_counts").
Proof. exact Proofs.GenAgreeWiring_C01.gen_wiring_StripeBaseSecondOrderMeasure__unweighted_cube_counts. Qed.
Print Assumptions C01_wiring_StripeBaseSecondOrderMeasure__unweighted_cube_counts.

Theorem C01_wiring_StripeBaseSecondOrderMeasure__weighted_cube_counts :
  wsrc_StripeBaseSecondOrderMeasure__weighted_cube_counts = Some (WAttr (WSelf "_cube_measures")
      "weighted_cube_counts").
Proof. exact Proofs.GenAgreeWiring_C01.gen_wiring_StripeBaseSecondOrderMeasure__weighted_cube_counts. Qed.
Print Assumptions C01_wiring_StripeBaseSecondOrderMeasure__weighted_cube_counts.

Theorem C01_wiring_StripeCubeMeasures_cube_means :
  wsrc_StripeCubeMeasures_cube_means = Some (WCall (WAttr (WGlobal "_BaseCubeMeans") "factory") [WSelf
      "_cube"; WSelf "_rows_dimension"] []).
Proof. exact Proofs.GenAgreeWiring_C01.gen_wiring_StripeCubeMeasures_cube_means. Qed.
Print Assumptions C01_wiring_StripeCubeMeasures_cube_means.

Theorem C01_wiring_StripeCubeMeasures_cube_medians :
  wsrc_StripeCubeMeasures_cube_medians = Some (WCall (WAttr (WGlobal "_BaseCubeMedians") "factory")
      [WSelf "_cube"; WSelf "_rows_dimension"] []).
Proof. exact Proofs.GenAgreeWiring_C01.gen_wiring_StripeCubeMeasures_cube_medians. Qed.
Print Assumptions C01_wiring_StripeCubeMeasures_cube_medians.

Theorem C01_wiring_StripeCubeMeasures_cube_stddev :
  wsrc_StripeCubeMeasures_cube_stddev = Some (WCall (WAttr (WGlobal "_BaseCubeStdDev") "factory")
      [WSelf "_cube"; WSelf "_rows_dimension"] []).
Proof. exact Proofs.GenAgreeWiring_C01.gen_wiring_StripeCubeMeasures_cube_stddev. Qed.
Print Assumptions C01_wiring_StripeCubeMeasures_cube_stddev.

Theorem C01_wiring_StripeCubeMeasures_cube_sum :
  wsrc_StripeCubeMeasures_cube_sum = Some (WCall (WAttr (WGlobal "_BaseCubeSums") "factory") [WSelf
      "_cube"; WSelf "_rows_dimension"] []).
Proof. exact Proofs.GenAgreeWiring_C01.gen_wiring_StripeCubeMeasures_cube_sum. Qed.
Print Assumptions C01_wiring_StripeCubeMeasures_cube_sum.

Theorem C01_wiring_StripeCubeMeasures_unweighted_cube_counts :
  wsrc_StripeCubeMeasures_unweighted_cube_counts = Some (WCall (WAttr (WGlobal "_BaseCubeCounts")
      "factory") [WIf (WCmp "is not" (WAttr (WSelf "_cube") "unweighted_valid_counts") (WNone))
      (WAttr (WSelf "_cube") "unweighted_valid_counts") (WAttr (WSelf "_cube") "unweighted_counts");
      WSelf "_rows_dimension"; WSelf "_ca_as_0th"; WSelf "_slice_idx"] []).
Proof. exact Proofs.GenAgreeWiring_C01.gen_wiring_StripeCubeMeasures_unweighted_cube_counts. Qed.
Print Assumptions C01_wiring_StripeCubeMeasures_unweighted_cube_counts.

Theorem C01_wiring_StripeCubeMeasures_weighted_cube_counts :
  wsrc_StripeCubeMeasures_weighted_cube_counts = Some (WCall (WAttr (WGlobal "_BaseCubeCounts")
      "factory") [WIf (WCmp "is not" (WAttr (WSelf "_cube") "weighted_valid_counts") (WNone)) (WAttr
      (WSelf "_cube") "weighted_valid_counts") (WAttr (WSelf "_cube") "counts"); WSelf
      "_rows_dimension"; WSelf "_ca_as_0th"; WSelf "_slice_idx"] []).
Proof. exact Proofs.GenAgreeWiring_C01.gen_wiring_StripeCubeMeasures_weighted_cube_counts. Qed.
Print Assumptions C01_wiring_StripeCubeMeasures_weighted_cube_counts.

End Wiring_C01.
(* ---- WIRING-APPENDIX:END ---- *)

(*BEGIN GenAgreeCube_C01*)
(* ------------------------------------------------------------------------------------ *)
(* SOURCE TEXT of src/cr/cube/cube.py.  Gen/CubeSrc.v is regenerated on every check by
   harness/translate/x_cube.py (shallow translation: every member of CubeSet / Cube / _Measures / the
   _BaseMeasure family, inheritance flattened, as a Gallina function over the Python-semantics combinators
   of Base/PyList.v + Base/PyJson.v + Model/PyCube.v; [X] = what cube.py calls in other modules -
   Dimensions.from_dicts, json.loads - as parameters; `self.<member>` = the generated function of that
   member).  For ALL inputs each generated function IS the model definition the theorems above are about;
   a statement `match src_f, src_g with Some f, Some g => forall .., g X c = POk v -> ..` reads: whenever
   the member g of the same object evaluates to v.  [None] = the member is outside the translator's
   whitelist (then only the correspondence ties it). *)
From CC Require Proofs.GenAgreeCubeLib Proofs.GenAgreeCubeBase Proofs.GenAgreeCubeArray Proofs.GenAgreeCubeCounts Proofs.GenAgreeCubeDims Proofs.GenAgreeCubeNumeric Proofs.GenAgreeCubeSet.
Section GenAgreeCube_C01.   (* scopes and imports below end with the section *)
Import Coq.Lists.List Coq.ZArith.ZArith Coq.QArith.QArith Coq.Strings.String Coq.Bool.Bool CC.Base.XQ
       CC.Base.PyList CC.Base.PyJson CC.Spec.Survey CC.Model.CubeCounts CC.Model.DimType CC.Model.Population
       CC.Model.Partition CC.Model.PyCube CC.Gen.CubeSrc CC.Proofs.GenAgreeCubeLib CC.Proofs.GenAgreeCubeBase CC.Proofs.GenAgreeCubeArray CC.Proofs.GenAgreeCubeCounts CC.Proofs.GenAgreeCubeDims CC.Proofs.GenAgreeCubeNumeric CC.Proofs.GenAgreeCubeSet.
Import Coq.Lists.List.ListNotations.
Local Close Scope Q_scope.
Local Open Scope Z_scope.
Local Open Scope string_scope.

Theorem C01_gen_cube_UnweightedCountMeasure__flat_values :
  match src__UnweightedCountMeasure__flat_values with
  | Some f => forall X cls p more dims idx,
      f X (mkPyMeasure cls (count_response p more) dims idx) = POk (some_arr (Some (p_counts p)))
  | None => True end.
Proof. exact gen_cube_UnweightedCountMeasure__flat_values. Qed.
Print Assumptions C01_gen_cube_UnweightedCountMeasure__flat_values.

Theorem C01_gen_cube_WeightedCountMeasure__flat_values :
  match src__WeightedCountMeasure__flat_values with
  | Some f => forall X cls p more dims idx,
      f X (mkPyMeasure cls (count_response p more) dims idx) = POk (some_arr (weighted_payload p))
  | None => True end.
Proof. exact gen_cube_WeightedCountMeasure__flat_values. Qed.
Print Assumptions C01_gen_cube_WeightedCountMeasure__flat_values.

Theorem C01_gen_cube_UnweightedValidCountsMeasure__flat_values :
  match src__UnweightedValidCountsMeasure__flat_values with
  | Some f => forall X cls p more dims idx,
      f X (mkPyMeasure cls (count_response p more) dims idx) = POk (some_arr (nonempty (p_vcu p)))
  | None => True end.
Proof. exact gen_cube_UnweightedValidCountsMeasure__flat_values. Qed.
Print Assumptions C01_gen_cube_UnweightedValidCountsMeasure__flat_values.

Theorem C01_gen_cube_WeightedValidCountsMeasure__flat_values :
  match src__WeightedValidCountsMeasure__flat_values with
  | Some f => forall X cls p more dims idx,
      f X (mkPyMeasure cls (count_response p more) dims idx) = POk (some_arr (nonempty (p_vcw p)))
  | None => True end.
Proof. exact gen_cube_WeightedValidCountsMeasure__flat_values. Qed.
Print Assumptions C01_gen_cube_WeightedValidCountsMeasure__flat_values.

Theorem C01_gen_cube_UnweightedCountMeasure__shape :
  match src__UnweightedCountMeasure__shape with
  | Some f => forall X m, f X m = POk (pds_shape (bm_all_dimensions m))
  | None => True end.
Proof. exact gen_cube_UnweightedCountMeasure__shape. Qed.
Print Assumptions C01_gen_cube_UnweightedCountMeasure__shape.

Theorem C01_gen_cube_WeightedCountMeasure__shape :
  match src__WeightedCountMeasure__shape with
  | Some f => forall X m, f X m = POk (pds_shape (bm_all_dimensions m))
  | None => True end.
Proof. exact gen_cube_WeightedCountMeasure__shape. Qed.
Print Assumptions C01_gen_cube_WeightedCountMeasure__shape.

Theorem C01_gen_cube_UnweightedValidCountsMeasure__shape :
  match src__UnweightedValidCountsMeasure__shape with
  | Some f => forall X m, f X m = POk (pds_shape (bm_all_dimensions m))
  | None => True end.
Proof. exact gen_cube_UnweightedValidCountsMeasure__shape. Qed.
Print Assumptions C01_gen_cube_UnweightedValidCountsMeasure__shape.

Theorem C01_gen_cube_WeightedValidCountsMeasure__shape :
  match src__WeightedValidCountsMeasure__shape with
  | Some f => forall X m, f X m = POk (pds_shape (bm_all_dimensions m))
  | None => True end.
Proof. exact gen_cube_WeightedValidCountsMeasure__shape. Qed.
Print Assumptions C01_gen_cube_WeightedValidCountsMeasure__shape.

Theorem C01_gen_cube_UnweightedCountMeasure_raw_cube_array :
  match src__UnweightedCountMeasure_raw_cube_array, src__UnweightedCountMeasure__flat_values,
        src__UnweightedCountMeasure__shape with
  | Some f, Some g1, Some g2 => forall X m o sh,
      g1 X m = POk (some_arr o) -> g2 X m = POk (map Z.of_nat sh) -> f X m = POk (raw_array sh o)
  | _, _, _ => True end.
Proof. exact gen_cube_UnweightedCountMeasure_raw_cube_array. Qed.
Print Assumptions C01_gen_cube_UnweightedCountMeasure_raw_cube_array.

Theorem C01_gen_cube_WeightedCountMeasure_raw_cube_array :
  match src__WeightedCountMeasure_raw_cube_array, src__WeightedCountMeasure__flat_values,
        src__WeightedCountMeasure__shape with
  | Some f, Some g1, Some g2 => forall X m o sh,
      g1 X m = POk (some_arr o) -> g2 X m = POk (map Z.of_nat sh) -> f X m = POk (raw_array sh o)
  | _, _, _ => True end.
Proof. exact gen_cube_WeightedCountMeasure_raw_cube_array. Qed.
Print Assumptions C01_gen_cube_WeightedCountMeasure_raw_cube_array.

Theorem C01_gen_cube_UnweightedValidCountsMeasure_raw_cube_array :
  match src__UnweightedValidCountsMeasure_raw_cube_array, src__UnweightedValidCountsMeasure__flat_values,
        src__UnweightedValidCountsMeasure__shape with
  | Some f, Some g1, Some g2 => forall X m o sh,
      g1 X m = POk (some_arr o) -> g2 X m = POk (map Z.of_nat sh) -> f X m = POk (raw_array sh o)
  | _, _, _ => True end.
Proof. exact gen_cube_UnweightedValidCountsMeasure_raw_cube_array. Qed.
Print Assumptions C01_gen_cube_UnweightedValidCountsMeasure_raw_cube_array.

Theorem C01_gen_cube_WeightedValidCountsMeasure_raw_cube_array :
  match src__WeightedValidCountsMeasure_raw_cube_array, src__WeightedValidCountsMeasure__flat_values,
        src__WeightedValidCountsMeasure__shape with
  | Some f, Some g1, Some g2 => forall X m o sh,
      g1 X m = POk (some_arr o) -> g2 X m = POk (map Z.of_nat sh) -> f X m = POk (raw_array sh o)
  | _, _, _ => True end.
Proof. exact gen_cube_WeightedValidCountsMeasure_raw_cube_array. Qed.
Print Assumptions C01_gen_cube_WeightedValidCountsMeasure_raw_cube_array.

Theorem C01_gen_cube_UnweightedCountMeasure_raw_cube_array_counts :
  match src__UnweightedCountMeasure_raw_cube_array with
  | Some f => forall X cls p more vs idx,
      f X (count_measure cls p more vs idx) = POk (raw_array (raw_shape (dims_of vs)) (Some (p_counts p)))
  | None => True end.
Proof. exact gen_cube_UnweightedCountMeasure_raw_cube_array_counts. Qed.
Print Assumptions C01_gen_cube_UnweightedCountMeasure_raw_cube_array_counts.

Theorem C01_gen_cube_WeightedCountMeasure_raw_cube_array_counts :
  match src__WeightedCountMeasure_raw_cube_array with
  | Some f => forall X cls p more vs idx,
      f X (count_measure cls p more vs idx) = POk (raw_array (raw_shape (dims_of vs)) (weighted_payload p))
  | None => True end.
Proof. exact gen_cube_WeightedCountMeasure_raw_cube_array_counts. Qed.
Print Assumptions C01_gen_cube_WeightedCountMeasure_raw_cube_array_counts.

Theorem C01_gen_cube_UnweightedValidCountsMeasure_raw_cube_array_counts :
  match src__UnweightedValidCountsMeasure_raw_cube_array with
  | Some f => forall X cls p more vs idx,
      f X (count_measure cls p more vs idx) = POk (raw_array (raw_shape (dims_of vs)) (nonempty (p_vcu p)))
  | None => True end.
Proof. exact gen_cube_UnweightedValidCountsMeasure_raw_cube_array_counts. Qed.
Print Assumptions C01_gen_cube_UnweightedValidCountsMeasure_raw_cube_array_counts.

Theorem C01_gen_cube_WeightedValidCountsMeasure_raw_cube_array_counts :
  match src__WeightedValidCountsMeasure_raw_cube_array with
  | Some f => forall X cls p more vs idx,
      f X (count_measure cls p more vs idx) = POk (raw_array (raw_shape (dims_of vs)) (nonempty (p_vcw p)))
  | None => True end.
Proof. exact gen_cube_WeightedValidCountsMeasure_raw_cube_array_counts. Qed.
Print Assumptions C01_gen_cube_WeightedValidCountsMeasure_raw_cube_array_counts.

Theorem C01_gen_cube_UnweightedCountMeasure___init__ :
  match src__UnweightedCountMeasure___init__ with
  | Some f => forall cd dims idx, f cd dims idx = mkPyMeasure MC_UnweightedCount cd dims idx
  | None => True end.
Proof. exact gen_cube_UnweightedCountMeasure___init__. Qed.
Print Assumptions C01_gen_cube_UnweightedCountMeasure___init__.

Theorem C01_gen_cube_WeightedCountMeasure___init__ :
  match src__WeightedCountMeasure___init__ with
  | Some f => forall cd dims idx, f cd dims idx = mkPyMeasure MC_WeightedCount cd dims idx
  | None => True end.
Proof. exact gen_cube_WeightedCountMeasure___init__. Qed.
Print Assumptions C01_gen_cube_WeightedCountMeasure___init__.

Theorem C01_gen_cube_UnweightedValidCountsMeasure___init__ :
  match src__UnweightedValidCountsMeasure___init__ with
  | Some f => forall cd dims idx, f cd dims idx = mkPyMeasure MC_UnweightedValidCounts cd dims idx
  | None => True end.
Proof. exact gen_cube_UnweightedValidCountsMeasure___init__. Qed.
Print Assumptions C01_gen_cube_UnweightedValidCountsMeasure___init__.

Theorem C01_gen_cube_WeightedValidCountsMeasure___init__ :
  match src__WeightedValidCountsMeasure___init__ with
  | Some f => forall cd dims idx, f cd dims idx = mkPyMeasure MC_WeightedValidCounts cd dims idx
  | None => True end.
Proof. exact gen_cube_WeightedValidCountsMeasure___init__. Qed.
Print Assumptions C01_gen_cube_WeightedValidCountsMeasure___init__.

Theorem C01_gen_cube_Measures_unweighted_counts :
  match src__Measures_unweighted_counts with
  | Some f => forall X cd dims idx,
      f X (mkPyMeasures cd dims idx) = POk (mkPyMeasure MC_UnweightedCount cd dims idx)
  | None => True end.
Proof. exact gen_cube_Measures_unweighted_counts. Qed.
Print Assumptions C01_gen_cube_Measures_unweighted_counts.

Theorem C01_gen_cube_Measures_weighted_counts :
  match src__Measures_weighted_counts with
  | Some f => forall X p more vs idx,
      f X (count_measures p more vs idx)
      = POk (opt_measure MC_WeightedCount (count_response p more) (pydims_of vs) idx
                         (raw_array (raw_shape (dims_of vs)) (weighted_payload p)))
  | None => True end.
Proof. exact gen_cube_Measures_weighted_counts. Qed.
Print Assumptions C01_gen_cube_Measures_weighted_counts.

Theorem C01_gen_cube_Measures_unweighted_valid_counts :
  match src__Measures_unweighted_valid_counts with
  | Some f => forall X p more vs idx,
      f X (count_measures p more vs idx)
      = POk (opt_measure MC_UnweightedValidCounts (count_response p more) (pydims_of vs) idx
                         (raw_array (raw_shape (dims_of vs)) (nonempty (p_vcu p))))
  | None => True end.
Proof. exact gen_cube_Measures_unweighted_valid_counts. Qed.
Print Assumptions C01_gen_cube_Measures_unweighted_valid_counts.

Theorem C01_gen_cube_Measures_weighted_valid_counts :
  match src__Measures_weighted_valid_counts with
  | Some f => forall X p more vs idx,
      f X (count_measures p more vs idx)
      = POk (opt_measure MC_WeightedValidCounts (count_response p more) (pydims_of vs) idx
                         (raw_array (raw_shape (dims_of vs)) (nonempty (p_vcw p))))
  | None => True end.
Proof. exact gen_cube_Measures_weighted_valid_counts. Qed.
Print Assumptions C01_gen_cube_Measures_weighted_valid_counts.

Theorem C01_gen_cube_Cube__valid_idxs :
  match src_Cube__valid_idxs, src_Cube__all_dimensions with
  | Some f, Some g => forall X c vs, g X c = POk (pydims_of vs) ->
      f X c = POk (valid_grid (dims_of vs))
  | _, _ => True end.
Proof. exact gen_cube_Cube__valid_idxs. Qed.
Print Assumptions C01_gen_cube_Cube__valid_idxs.

Theorem C01_gen_cube_Cube_unweighted_counts :
  match src_Cube_unweighted_counts, src_Cube__cube_response, src_Cube__all_dimensions with
  | Some f, Some g1, Some g2 => forall X c p more vs,
      g1 X c = POk (count_response p more) -> g2 X c = POk (pydims_of vs) ->
      payload_fits (dims_of vs) p ->
      reads (f X c) (map nvalid (dims_of vs)) (valid_tensor (dims_of vs) (unweighted_counts_payload p))
  | _, _, _ => True end.
Proof. exact gen_cube_Cube_unweighted_counts. Qed.
Print Assumptions C01_gen_cube_Cube_unweighted_counts.

Theorem C01_gen_cube_Cube_weighted_counts :
  match src_Cube_weighted_counts, src_Cube__cube_response, src_Cube__all_dimensions with
  | Some f, Some g1, Some g2 => forall X c p more vs,
      g1 X c = POk (count_response p more) -> g2 X c = POk (pydims_of vs) ->
      payload_fits (dims_of vs) p ->
      reads_opt (f X c) (map nvalid (dims_of vs))
                (option_map (valid_tensor (dims_of vs)) (weighted_choice p))
  | _, _, _ => True end.
Proof. exact gen_cube_Cube_weighted_counts. Qed.
Print Assumptions C01_gen_cube_Cube_weighted_counts.

Theorem C01_gen_cube_Cube_has_weighted_counts :
  match src_Cube_has_weighted_counts, src_Cube__cube_response, src_Cube__all_dimensions with
  | Some f, Some g1, Some g2 => forall X c p more vs,
      g1 X c = POk (count_response p more) -> g2 X c = POk (pydims_of vs) ->
      payload_fits (dims_of vs) p ->
      f X c = POk (match weighted_choice p with Some _ => true | None => false end)
  | _, _, _ => True end.
Proof. exact gen_cube_Cube_has_weighted_counts. Qed.
Print Assumptions C01_gen_cube_Cube_has_weighted_counts.

Theorem C01_gen_cube_Cube_counts_with_missings :
  match src_Cube_counts_with_missings, src_Cube__cube_response, src_Cube__all_dimensions with
  | Some f, Some g1, Some g2 => forall X c p more vs,
      g1 X c = POk (count_response p more) -> g2 X c = POk (pydims_of vs) ->
      payload_fits (dims_of vs) p ->
      f X c = POk (Some (mkArr (raw_shape (dims_of vs)) (cwm_payload p)))
  | _, _, _ => True end.
Proof. exact gen_cube_Cube_counts_with_missings. Qed.
Print Assumptions C01_gen_cube_Cube_counts_with_missings.

Theorem C01_gen_cube_Cube_counts :
  match src_Cube_counts, src_Cube__cube_response, src_Cube__all_dimensions with
  | Some f, Some g1, Some g2 => forall X c p more vs,
      g1 X c = POk (count_response p more) -> g2 X c = POk (pydims_of vs) ->
      payload_fits (dims_of vs) p ->
      reads (f X c) (map nvalid (dims_of vs)) (valid_tensor (dims_of vs) (cwm_payload p))
  | _, _, _ => True end.
Proof. exact gen_cube_Cube_counts. Qed.
Print Assumptions C01_gen_cube_Cube_counts.

Theorem C01_gen_cube_Cube_unweighted_valid_counts :
  match src_Cube_unweighted_valid_counts, src_Cube__cube_response, src_Cube__all_dimensions with
  | Some f, Some g1, Some g2 => forall X c p more vs,
      g1 X c = POk (count_response p more) -> g2 X c = POk (pydims_of vs) ->
      payload_fits (dims_of vs) p ->
      reads_opt (f X c) (map nvalid (dims_of vs))
                (option_map (valid_tensor (dims_of vs)) (nonempty (p_vcu p)))
  | _, _, _ => True end.
Proof. exact gen_cube_Cube_unweighted_valid_counts. Qed.
Print Assumptions C01_gen_cube_Cube_unweighted_valid_counts.

Theorem C01_gen_cube_Cube_weighted_valid_counts :
  match src_Cube_weighted_valid_counts, src_Cube__cube_response, src_Cube__all_dimensions with
  | Some f, Some g1, Some g2 => forall X c p more vs,
      g1 X c = POk (count_response p more) -> g2 X c = POk (pydims_of vs) ->
      payload_fits (dims_of vs) p ->
      reads_opt (f X c) (map nvalid (dims_of vs))
                (option_map (valid_tensor (dims_of vs)) (nonempty (p_vcw p)))
  | _, _, _ => True end.
Proof. exact gen_cube_Cube_weighted_valid_counts. Qed.
Print Assumptions C01_gen_cube_Cube_weighted_valid_counts.

Theorem C01_gen_cube_Cube__all_dimensions :
  match src_Cube__all_dimensions, src_Cube__numeric_array_dimension, src_Cube__cube_response with
  | Some f, Some g1, Some g2 => forall X c numdim res dimsj,
      g1 X c = POk numdim -> g2 X c = POk (JDict [("result", JDict res)]) ->
      py_dict_get String.eqb res "dimensions" = Some (JList dimsj) ->
      f X c = x_from_dicts X (JList (if json_truthy numdim then numdim :: dimsj else dimsj))
  | _, _, _ => True end.
Proof. exact gen_cube_Cube__all_dimensions. Qed.
Print Assumptions C01_gen_cube_Cube__all_dimensions.

Theorem C01_gen_cube_Cube__numeric_array_dimension_counts :
  match src_Cube__numeric_array_dimension, src_Cube__cube_response with
  | Some f, Some g => forall X c p more,
      g X c = POk (count_response p more) -> f X c = POk JNull
  | _, _ => True end.
Proof. exact gen_cube_Cube__numeric_array_dimension_counts. Qed.
Print Assumptions C01_gen_cube_Cube__numeric_array_dimension_counts.

Theorem C01_gen_cube_Cube__all_dimensions_counts :
  match src_Cube__all_dimensions, src_Cube__cube_response with
  | Some f, Some g => forall X c p more dimsj,
      g X c = POk (count_response p more) ->
      py_dict_get String.eqb more "dimensions" = Some (JList dimsj) ->
      f X c = x_from_dicts X (JList dimsj)
  | _, _ => True end.
Proof. exact gen_cube_Cube__all_dimensions_counts. Qed.
Print Assumptions C01_gen_cube_Cube__all_dimensions_counts.

Theorem C01_gen_cube_MeanMeasure__flat_values :
  match src__MeanMeasure__flat_values with
  | Some f => forall X cls ms more dims idx,
      (forall l, has_numeric ms "mean" l ->
         f X (mkPyMeasure cls (measures_response ms more) dims idx) = POk (some_arr (Some (num_decode l)))) /\
      (dget ms "mean" = None ->
         f X (mkPyMeasure cls (measures_response ms more) dims idx) = POk None)
  | None => True end.
Proof. exact gen_cube_MeanMeasure__flat_values. Qed.
Print Assumptions C01_gen_cube_MeanMeasure__flat_values.

Theorem C01_gen_cube_MeanMeasure__shape :
  match src__MeanMeasure__shape with
  | Some f => forall X m, f X m = POk (pds_shape (bm_all_dimensions m))
  | None => True end.
Proof. exact gen_cube_MeanMeasure__shape. Qed.
Print Assumptions C01_gen_cube_MeanMeasure__shape.

Theorem C01_gen_cube_MeanMeasure_raw_cube_array :
  match src__MeanMeasure_raw_cube_array, src__MeanMeasure__flat_values, src__MeanMeasure__shape with
  | Some f, Some g1, Some g2 => forall X m o sh,
      g1 X m = POk (some_arr o) -> g2 X m = POk (map Z.of_nat sh) -> f X m = POk (raw_array sh o)
  | _, _, _ => True end.
Proof. exact gen_cube_MeanMeasure_raw_cube_array. Qed.
Print Assumptions C01_gen_cube_MeanMeasure_raw_cube_array.

Theorem C01_gen_cube_MeanMeasure_raw_cube_array_numeric :
  match src__MeanMeasure_raw_cube_array with
  | Some f => forall X cls ms more vs idx,
      (forall l, has_numeric ms "mean" l ->
         f X (mkPyMeasure cls (measures_response ms more) (pydims_of vs) idx)
         = POk (raw_array (raw_shape (dims_of vs)) (Some (num_decode l)))) /\
      (dget ms "mean" = None ->
         f X (mkPyMeasure cls (measures_response ms more) (pydims_of vs) idx) = POk None)
  | None => True end.
Proof. exact gen_cube_MeanMeasure_raw_cube_array_numeric. Qed.
Print Assumptions C01_gen_cube_MeanMeasure_raw_cube_array_numeric.

Theorem C01_gen_cube_MeanMeasure___init__ :
  match src__MeanMeasure___init__ with
  | Some f => forall cd dims idx, f cd dims idx = mkPyMeasure MC_Mean cd dims idx
  | None => True end.
Proof. exact gen_cube_MeanMeasure___init__. Qed.
Print Assumptions C01_gen_cube_MeanMeasure___init__.

Theorem C01_gen_cube_Measures_means :
  match src__Measures_means, src__MeanMeasure_raw_cube_array with
  | Some f, Some g => forall X cd dims idx r,
      g X (mkPyMeasure MC_Mean cd dims idx) = POk r ->
      f X (mkPyMeasures cd dims idx) = POk (opt_measure MC_Mean cd dims idx r)
  | _, _ => True end.
Proof. exact gen_cube_Measures_means. Qed.
Print Assumptions C01_gen_cube_Measures_means.

Theorem C01_gen_cube_Cube_means :
  match src_Cube_means, src_Cube__cube_response, src_Cube__all_dimensions with
  | Some f, Some g1, Some g2 => forall X c ms more vs,
      g1 X c = POk (measures_response ms more) -> g2 X c = POk (pydims_of vs) ->
      (forall l, has_numeric ms "mean" l -> List.length l = size_of (raw_shape (dims_of vs)) ->
         reads_opt (f X c) (map nvalid (dims_of vs)) (Some (valid_tensor (dims_of vs) (num_decode l)))) /\
      (dget ms "mean" = None -> f X c = POk None)
  | _, _, _ => True end.
Proof. exact gen_cube_Cube_means. Qed.
Print Assumptions C01_gen_cube_Cube_means.

Theorem C01_gen_cube_SumMeasure__flat_values :
  match src__SumMeasure__flat_values with
  | Some f => forall X cls ms more dims idx,
      (forall l, has_numeric ms "sum" l ->
         f X (mkPyMeasure cls (measures_response ms more) dims idx) = POk (some_arr (Some (num_decode l)))) /\
      (dget ms "sum" = None ->
         f X (mkPyMeasure cls (measures_response ms more) dims idx) = POk None)
  | None => True end.
Proof. exact gen_cube_SumMeasure__flat_values. Qed.
Print Assumptions C01_gen_cube_SumMeasure__flat_values.

Theorem C01_gen_cube_SumMeasure__shape :
  match src__SumMeasure__shape with
  | Some f => forall X m, f X m = POk (pds_shape (bm_all_dimensions m))
  | None => True end.
Proof. exact gen_cube_SumMeasure__shape. Qed.
Print Assumptions C01_gen_cube_SumMeasure__shape.

Theorem C01_gen_cube_SumMeasure_raw_cube_array :
  match src__SumMeasure_raw_cube_array, src__SumMeasure__flat_values, src__SumMeasure__shape with
  | Some f, Some g1, Some g2 => forall X m o sh,
      g1 X m = POk (some_arr o) -> g2 X m = POk (map Z.of_nat sh) -> f X m = POk (raw_array sh o)
  | _, _, _ => True end.
Proof. exact gen_cube_SumMeasure_raw_cube_array. Qed.
Print Assumptions C01_gen_cube_SumMeasure_raw_cube_array.

Theorem C01_gen_cube_SumMeasure_raw_cube_array_numeric :
  match src__SumMeasure_raw_cube_array with
  | Some f => forall X cls ms more vs idx,
      (forall l, has_numeric ms "sum" l ->
         f X (mkPyMeasure cls (measures_response ms more) (pydims_of vs) idx)
         = POk (raw_array (raw_shape (dims_of vs)) (Some (num_decode l)))) /\
      (dget ms "sum" = None ->
         f X (mkPyMeasure cls (measures_response ms more) (pydims_of vs) idx) = POk None)
  | None => True end.
Proof. exact gen_cube_SumMeasure_raw_cube_array_numeric. Qed.
Print Assumptions C01_gen_cube_SumMeasure_raw_cube_array_numeric.

Theorem C01_gen_cube_SumMeasure___init__ :
  match src__SumMeasure___init__ with
  | Some f => forall cd dims idx, f cd dims idx = mkPyMeasure MC_Sum cd dims idx
  | None => True end.
Proof. exact gen_cube_SumMeasure___init__. Qed.
Print Assumptions C01_gen_cube_SumMeasure___init__.

Theorem C01_gen_cube_Measures_sums :
  match src__Measures_sums, src__SumMeasure_raw_cube_array with
  | Some f, Some g => forall X cd dims idx r,
      g X (mkPyMeasure MC_Sum cd dims idx) = POk r ->
      f X (mkPyMeasures cd dims idx) = POk (opt_measure MC_Sum cd dims idx r)
  | _, _ => True end.
Proof. exact gen_cube_Measures_sums. Qed.
Print Assumptions C01_gen_cube_Measures_sums.

Theorem C01_gen_cube_Cube_sums :
  match src_Cube_sums, src_Cube__cube_response, src_Cube__all_dimensions with
  | Some f, Some g1, Some g2 => forall X c ms more vs,
      g1 X c = POk (measures_response ms more) -> g2 X c = POk (pydims_of vs) ->
      (forall l, has_numeric ms "sum" l -> List.length l = size_of (raw_shape (dims_of vs)) ->
         reads_opt (f X c) (map nvalid (dims_of vs)) (Some (valid_tensor (dims_of vs) (num_decode l)))) /\
      (dget ms "sum" = None -> f X c = POk None)
  | _, _, _ => True end.
Proof. exact gen_cube_Cube_sums. Qed.
Print Assumptions C01_gen_cube_Cube_sums.

Theorem C01_gen_cube_StdDevMeasure__flat_values :
  match src__StdDevMeasure__flat_values with
  | Some f => forall X cls ms more dims idx,
      (forall l, has_numeric ms "stddev" l ->
         f X (mkPyMeasure cls (measures_response ms more) dims idx) = POk (some_arr (Some (num_decode l)))) /\
      (dget ms "stddev" = None ->
         f X (mkPyMeasure cls (measures_response ms more) dims idx) = POk None)
  | None => True end.
Proof. exact gen_cube_StdDevMeasure__flat_values. Qed.
Print Assumptions C01_gen_cube_StdDevMeasure__flat_values.

Theorem C01_gen_cube_StdDevMeasure__shape :
  match src__StdDevMeasure__shape with
  | Some f => forall X m, f X m = POk (pds_shape (bm_all_dimensions m))
  | None => True end.
Proof. exact gen_cube_StdDevMeasure__shape. Qed.
Print Assumptions C01_gen_cube_StdDevMeasure__shape.

Theorem C01_gen_cube_StdDevMeasure_raw_cube_array :
  match src__StdDevMeasure_raw_cube_array, src__StdDevMeasure__flat_values, src__StdDevMeasure__shape with
  | Some f, Some g1, Some g2 => forall X m o sh,
      g1 X m = POk (some_arr o) -> g2 X m = POk (map Z.of_nat sh) -> f X m = POk (raw_array sh o)
  | _, _, _ => True end.
Proof. exact gen_cube_StdDevMeasure_raw_cube_array. Qed.
Print Assumptions C01_gen_cube_StdDevMeasure_raw_cube_array.

Theorem C01_gen_cube_StdDevMeasure_raw_cube_array_numeric :
  match src__StdDevMeasure_raw_cube_array with
  | Some f => forall X cls ms more vs idx,
      (forall l, has_numeric ms "stddev" l ->
         f X (mkPyMeasure cls (measures_response ms more) (pydims_of vs) idx)
         = POk (raw_array (raw_shape (dims_of vs)) (Some (num_decode l)))) /\
      (dget ms "stddev" = None ->
         f X (mkPyMeasure cls (measures_response ms more) (pydims_of vs) idx) = POk None)
  | None => True end.
Proof. exact gen_cube_StdDevMeasure_raw_cube_array_numeric. Qed.
Print Assumptions C01_gen_cube_StdDevMeasure_raw_cube_array_numeric.

Theorem C01_gen_cube_StdDevMeasure___init__ :
  match src__StdDevMeasure___init__ with
  | Some f => forall cd dims idx, f cd dims idx = mkPyMeasure MC_StdDev cd dims idx
  | None => True end.
Proof. exact gen_cube_StdDevMeasure___init__. Qed.
Print Assumptions C01_gen_cube_StdDevMeasure___init__.

Theorem C01_gen_cube_Measures_stddev :
  match src__Measures_stddev, src__StdDevMeasure_raw_cube_array with
  | Some f, Some g => forall X cd dims idx r,
      g X (mkPyMeasure MC_StdDev cd dims idx) = POk r ->
      f X (mkPyMeasures cd dims idx) = POk (opt_measure MC_StdDev cd dims idx r)
  | _, _ => True end.
Proof. exact gen_cube_Measures_stddev. Qed.
Print Assumptions C01_gen_cube_Measures_stddev.

Theorem C01_gen_cube_Cube_stddev :
  match src_Cube_stddev, src_Cube__cube_response, src_Cube__all_dimensions with
  | Some f, Some g1, Some g2 => forall X c ms more vs,
      g1 X c = POk (measures_response ms more) -> g2 X c = POk (pydims_of vs) ->
      (forall l, has_numeric ms "stddev" l -> List.length l = size_of (raw_shape (dims_of vs)) ->
         reads_opt (f X c) (map nvalid (dims_of vs)) (Some (valid_tensor (dims_of vs) (num_decode l)))) /\
      (dget ms "stddev" = None -> f X c = POk None)
  | _, _, _ => True end.
Proof. exact gen_cube_Cube_stddev. Qed.
Print Assumptions C01_gen_cube_Cube_stddev.

Theorem C01_gen_cube_CubeSet_has_weighted_counts :
  match src_CubeSet_has_weighted_counts, src_CubeSet__cubes, src_Cube_has_weighted_counts with
  | Some f, Some g1, Some g2 => forall X s c0 rest, g1 X s = POk (c0 :: rest) -> f X s = g2 X c0
  | _, _, _ => True end.
Proof. exact gen_cube_CubeSet_has_weighted_counts. Qed.
Print Assumptions C01_gen_cube_CubeSet_has_weighted_counts.

End GenAgreeCube_C01.
(*END GenAgreeCube_C01*)

(*BEGIN GenAgreeDimType_C01*)
(* ------------------------------------------------------------------------------------ *)
(* SOURCE TEXT of the dimension typing of src/cr/cube/dimension.py.  Gen/DimTypeSrc.v (and Gen/DimensionSrc.v, which
   it imports) is regenerated on every check by harness/translate/x_dimtype.py (x_dimension.py's shallow technique:
   every member as a Gallina function over the Python-semantics combinators of Base/PyList.v + Base/PyDict.v +
   Model/PyDimension.v + Model/PyDimType.v; [X] = what the lazyproperties _dimension_dict / _dimension_transforms_dict
   of a Dimension object evaluate to).  For ALL dimension dicts that read as the model's [rdim] ([rdim_abs],
   Proofs/GenAgreeDimTypeKind.v) Dimensions.dimension_type IS [dimension_type] and Dimensions.from_dicts IS [resolve]
   of Model/DimType.v; apparent_dimensions / dimension_order / shape ARE [apparent_types] / [dimension_order] /
   [raw_shape] (Model/DimType.v, Model/CubeCounts.v, named in Model/NumArray.v); Elements.from_typedef - with a
   typedef "order" list, for MR_SUBVAR and DATETIME - builds the elements of the RE-ARRANGED definitions ([reorder]),
   which are [elements_of] of Model/TypedefOrder.v ([gen_dimtype_from_typedef_model]).  [None] = the member is outside
   the translator's whitelist. *)
From CC Require Proofs.GenAgreeDimTypeLib Proofs.GenAgreeDimTypeKind Proofs.GenAgreeDimTypeElems Proofs.GenAgreeDimTypeOrder Proofs.GenAgreeDimTypeDims Proofs.GenAgreeDimTypeFromDicts Proofs.DimValuesProofs.
Section GenAgreeDimType_C01.   (* scopes and imports below end with the section *)
Import Coq.Lists.List Coq.ZArith.ZArith Coq.Strings.String Coq.Bool.Bool CC.Base.XQ CC.Base.PyList CC.Base.PyDict
       CC.Model.DimType CC.Model.PyDimension CC.Model.PyDimType CC.Model.DimValues CC.Model.Smoothing
       CC.Gen.DimensionSrc CC.Gen.DimTypeSrc CC.Proofs.GenAgreeDimensionLib
       CC.Proofs.GenAgreeDimTypeLib CC.Proofs.GenAgreeDimTypeKind CC.Proofs.GenAgreeDimTypeElems CC.Proofs.GenAgreeDimTypeOrder CC.Proofs.GenAgreeDimTypeDims CC.Proofs.GenAgreeDimTypeFromDicts CC.Proofs.DimValuesProofs.
Import Coq.Lists.List.ListNotations.
Local Close Scope Q_scope.
Local Open Scope Z_scope.
Local Open Scope string_scope.

Theorem C01_gen_dimtype_Dimension_alias :
  match src_Dimension_alias with
  | Some f => forall t dd tr refs, jget dd "references" = Some (JDict refs) ->
      f (mkPyDimension t (JDict dd) tr) = Ok (dimension_alias refs)
  | None => True end.
Proof. exact gen_dimtype_Dimension_alias. Qed.
Print Assumptions C01_gen_dimtype_Dimension_alias.

Theorem C01_gen_dimtype_Dimensions_dimension_type :
  match src_Dimensions_dimension_type with
  | Some f => forall X dd rd, rdim_abs dd rd -> f X (JDict dd) = Ok (DimType.dimension_type rd)
  | None => True end.
Proof. exact gen_dimtype_Dimensions_dimension_type. Qed.
Print Assumptions C01_gen_dimtype_Dimensions_dimension_type.

Theorem C01_gen_dimtype_Dimensions_dimension_type_unknown :
  match src_Dimensions_dimension_type with
  | Some f => forall X dd ty c, jget dd "type" = Some (JDict ty) -> jget ty "class" = Some (JStr c) ->
      c <> "categorical" -> c <> "enum" -> f X (JDict dd) = Err NotImplementedError
  | None => True end.
Proof. exact gen_dimtype_Dimensions_dimension_type_unknown. Qed.
Print Assumptions C01_gen_dimtype_Dimensions_dimension_type_unknown.

Theorem C01_gen_dimtype_Element_missing :
  match src_Element_missing with
  | Some f => forall e idx xf t,
      f (mkPyElement (JDict e) idx xf t) = Ok (jv_truthy (jd_get_default e (JStr "missing") JNone))
  | None => True end.
Proof. exact gen_dimtype_Element_missing. Qed.
Print Assumptions C01_gen_dimtype_Element_missing.

Theorem C01_gen_dimtype_Elements_valid_elements :
  match src_Elements_valid_elements with
  | Some f => forall els, Forall el_is_dict els -> f els = Ok (filter (fun el => negb (el_missing el)) els)
  | None => True end.
Proof. exact gen_dimtype_Elements_valid_elements. Qed.
Print Assumptions C01_gen_dimtype_Elements_valid_elements.

Theorem C01_gen_dimtype_fn__formatter :
  match src_fn__formatter with
  | Some f => forall t ty fmt, fmt_ok t ty -> f t (JDict ty) fmt = Ok tt
  | None => True end.
Proof. exact gen_dimtype_fn__formatter. Qed.
Print Assumptions C01_gen_dimtype_fn__formatter.

Theorem C01_gen_dimtype_Elements_from_typedef :
  match src_Elements_from_typedef, src_Elements__hidden_transforms with
  | Some f, Some h => forall ty tr t fmt defs rids ids o ax hid,
      typedef_defs ty = Some defs ->
      match o with Some _ => Forall2 raw_id defs rids | None => True end ->
      Forall2 (wf_def t) defs ids ->
      order_abs (jd_get_default ty (JStr "order") JNone) o ->
      jd_get_default tr (JStr "elements") (JDict []) = JDict ax ->
      fmt_ok t ty ->
      (dtype_eqb t TMrSubvar = true ->
       h (JList (reorder rids defs o)) (jd_get_default tr (JStr "insertions") (JList [])) = Ok hid) ->
      f (JDict ty) (JDict tr) t fmt
      = Ok (elements_from t (if dtype_eqb t TMrSubvar then jd_update hid ax else ax) 0
                          (reorder rids defs o) (reorder rids ids o))
  | _, _ => True end.
Proof. exact gen_dimtype_Elements_from_typedef. Qed.
Print Assumptions C01_gen_dimtype_Elements_from_typedef.

Theorem C01_gen_dimtype_from_typedef_model :
  match src_Elements_from_typedef, src_Elements__hidden_transforms with
  | Some f, Some h => forall ty tr t fmt jdefs edefs o ax,
      dt_in t [TCaSubvar; TMrSubvar; TNumArr] = false -> dtype_eqb t TDatetime = false ->
      typedef_defs ty = Some jdefs -> Forall2 edef_abs jdefs edefs ->
      order_abs (jd_get_default ty (JStr "order") JNone) (zorder o) ->
      jd_get_default tr (JStr "elements") (JDict []) = JDict ax ->
      exists els, f (JDict ty) (JDict tr) t fmt = Ok els /\
                  Forall2 element_abs els (TypedefOrder.elements_of edefs o)
  | _, _ => True end.
Proof. exact gen_dimtype_from_typedef_model. Qed.
Print Assumptions C01_gen_dimtype_from_typedef_model.

Theorem C01_gen_dimtype_Dimension_all_elements :
  match src_Dimension_all_elements, src_Elements__hidden_transforms with
  | Some f, Some h => forall t dd tr ty defs rids ids o ax hid, dim_reads' t dd tr ty defs rids ids o ax ->
      (dtype_eqb t TMrSubvar = true ->
       h (JList (reorder rids defs o)) (jd_get_default tr (JStr "insertions") (JList [])) = Ok hid) ->
      f (mkPyDimension t (JDict dd) (JDict tr))
      = Ok (all_elems t (if dtype_eqb t TMrSubvar then jd_update hid ax else ax) defs rids ids o)
  | _, _ => True end.
Proof. exact gen_dimtype_Dimension_all_elements. Qed.
Print Assumptions C01_gen_dimtype_Dimension_all_elements.

Theorem C01_gen_dimtype_Dimension_valid_elements :
  match src_Dimension_valid_elements, src_Elements__hidden_transforms with
  | Some f, Some h => forall t dd tr ty defs rids ids o ax hid, dim_reads' t dd tr ty defs rids ids o ax ->
      (dtype_eqb t TMrSubvar = true ->
       h (JList (reorder rids defs o)) (jd_get_default tr (JStr "insertions") (JList [])) = Ok hid) ->
      f (mkPyDimension t (JDict dd) (JDict tr))
      = Ok (valid_of (all_elems t (if dtype_eqb t TMrSubvar then jd_update hid ax else ax) defs rids ids o))
  | _, _ => True end.
Proof. exact gen_dimtype_Dimension_valid_elements. Qed.
Print Assumptions C01_gen_dimtype_Dimension_valid_elements.

Theorem C01_gen_dimtype_Dimension_shape :
  match src_Dimension_shape, src_Elements__hidden_transforms with
  | Some f, Some h => forall t dd tr ty defs rids ids o ax hid, dim_reads' t dd tr ty defs rids ids o ax ->
      (dtype_eqb t TMrSubvar = true ->
       h (JList (reorder rids defs o)) (jd_get_default tr (JStr "insertions") (JList [])) = Ok hid) ->
      f (mkPyDimension t (JDict dd) (JDict tr)) = Ok (py_len (reorder rids defs o))
  | _, _ => True end.
Proof. exact gen_dimtype_Dimension_shape. Qed.
Print Assumptions C01_gen_dimtype_Dimension_shape.

Theorem C01_gen_dimtype_Dimension___init__ :
  match src_Dimension___init__ with
  | Some f => forall d t tr, f d t tr = mkPyDimObj d t (if jv_truthy tr then tr else JDict [])
  | None => True end.
Proof. exact gen_dimtype_Dimension___init__. Qed.
Print Assumptions C01_gen_dimtype_Dimension___init__.

Theorem C01_gen_dimtype_Dimension_apply_transforms :
  match src_Dimension_apply_transforms with
  | Some f => forall d t tr0 tr,
      f (mkPyDimObj d t tr0) tr = Ok (mkPyDimObj d t (if jv_truthy tr then tr else JDict []))
  | None => True end.
Proof. exact gen_dimtype_Dimension_apply_transforms. Qed.
Print Assumptions C01_gen_dimtype_Dimension_apply_transforms.

Theorem C01_gen_dimtype_Dimensions_apparent_dimensions :
  match src_Dimensions_apparent_dimensions with
  | Some f => forall X self,
      f X self = Ok (filter not_mr_cat self) /\
      map do_dimension_type (filter not_mr_cat self) = apparent_types (map do_dimension_type self)
  | None => True end.
Proof. exact gen_dimtype_Dimensions_apparent_dimensions. Qed.
Print Assumptions C01_gen_dimtype_Dimensions_apparent_dimensions.

Theorem C01_gen_dimtype_Dimensions_dimension_order :
  match src_Dimensions_dimension_order with
  | Some f => forall X self ds, Forall2 kind_abs self ds ->
      f X self = Ok (map Z.of_nat (CubeCounts.dimension_order ds))
  | None => True end.
Proof. exact gen_dimtype_Dimensions_dimension_order. Qed.
Print Assumptions C01_gen_dimtype_Dimensions_dimension_order.

Theorem C01_gen_dimtype_Dimensions_shape :
  match src_Dimensions_shape, src_Dimension_shape with
  | Some f, Some h => forall X self ds,
      Forall2 (fun o d => kind_abs o d /\ h (dim_view X o) = Ok (Z.of_nat (dsize d))) self ds ->
      f X self = Ok (map Z.of_nat (raw_shape ds))
  | _, _ => True end.
Proof. exact gen_dimtype_Dimensions_shape. Qed.
Print Assumptions C01_gen_dimtype_Dimensions_shape.

Theorem C01_gen_dimtype_Dimensions_from_dicts :
  match src_Dimensions_from_dicts with
  | Some f => forall X dicts ras,
      Forall2 (dict_abs X) dicts ras -> alias_ok ras ->
      f X (JList dicts) = Ok (mkobjs dicts (resolve (map fst ras)))
  | None => True end.
Proof. exact gen_dimtype_Dimensions_from_dicts. Qed.
Print Assumptions C01_gen_dimtype_Dimensions_from_dicts.

End GenAgreeDimType_C01.
(*END GenAgreeDimType_C01*)
