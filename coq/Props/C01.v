(* C01 -- Cell values are faithful tabulations of the survey behind the response.

   Only statements: each is closed by [exact <lemma>] and followed by [Print Assumptions].
   Spec (what the user relies on): Spec/Survey.v -- respondents, [tabulate], [wsum],
   [in_el]/[ok_el].  Model (what the code does): Model/CubeCounts.v, tied to
   cube.py / matrix/cubemeasure.py / stripe/cubemeasure.py by harness/props/c01.py.
   Proofs: Proofs/CubeCountsProofs.v.

   Notation of the statements: a cube over an optional table variable [tv] (3-D) and a
   rows variable (vr, kind kr, missing flags mr) and columns variable (vc, kc, mc), each
   categorical (KCat; also stands for datetime/text/binned enum dimensions) or
   multiple-response (KMr).  [slice_of ... S k] is EXACTLY what the code hands to the
   count class of partition k: raw tensor of the survey -> Cube._valid_idxs ->
   _slice_idx_expr.  [counts_of] is the dispatch of _BaseCubeCounts.factory.

   PARTIAL (stated here, not hidden): the five class pairs with a categorical-array
   dimension (Arr) are modelled (Model/CubeCounts.v) and checked by correspondence, but
   have no survey-level theorem; so have numeric arrays.  The glue from the flat payload
   to [slice_of] is proved for the layout ([C01_payload_layout]) and exercised by
   computation in the Example and on every correspondence case. *)
From Coq Require Import QArith ZArith List Bool Lia Arith Sorted.
From CC Require Import Base.XQ Base.ListX Spec.Survey Model.CubeCounts Proofs.CubeCountsProofs.
Import ListNotations.
Local Close Scope Q_scope.
Local Open Scope nat_scope.

(* Weighted counts of every cell of every partition (2-D: tv = None; 3-D: table element k):
   the weighted number of respondents in table element k, row element i, column element j,
   where belonging to an MR item means having SELECTED it. *)
Theorem C01_counts_are_weighted_tabulations S tv vr vc kr kc mr mc k i j :
  t_ok tv -> cat_or_mr kr -> cat_or_mr kc ->
  k < t_n tv -> i < nval mr -> j < nval mc ->
  counts_of (slice_of tv vr kr mr vc kc mc S k) (kcls kr) (kcls kc) i j =x=
  Fin (wsum S (fun r => pop_of tv k r && in_el kr mr (ans r vr) i && in_el kc mc (ans r vc) j)).
Proof. exact (fun Ht Hr Hc Hk => counts_of_spec S tv vr vc kr kc mr mc k Ht Hr Hc Hk i j). Qed.
Print Assumptions C01_counts_are_weighted_tabulations.

(* Unweighted counts: the same extraction on the unit-weight tensor is the NUMBER of such
   respondents. *)
Theorem C01_unweighted_counts_are_headcounts S tv vr vc kr kc mr mc k i j :
  t_ok tv -> cat_or_mr kr -> cat_or_mr kc ->
  k < t_n tv -> i < nval mr -> j < nval mc ->
  counts_of (slice_of tv vr kr mr vc kc mc (unit_weights S) k) (kcls kr) (kcls kc) i j =x=
  Fin (inject_Z (Z.of_nat (length (filter
        (fun r => pop_of tv k r && in_el kr mr (ans r vr) i && in_el kc mc (ans r vc) j) S)))).
Proof. exact (unweighted_counts_headcount S tv vr vc kr kc mr mc k i j). Qed.
Print Assumptions C01_unweighted_counts_are_headcounts.

(* 1-D cubes (strands) *)
Theorem C01_strand_cat_counts S v ms i : i < nval ms ->
  sc_counts (take_valid (dims_of KCat ms) (raw_of [(v, KCat)] S)) i =x=
  Fin (wsum S (fun r => in_cat ms (ans r v) i)).
Proof. exact (strand_cat_counts_spec S v ms i). Qed.
Print Assumptions C01_strand_cat_counts.

Theorem C01_strand_mr_counts S v ms i :
  sm_counts (take_valid (dims_of KMr ms) (raw_of [(v, KMr)] S)) i =x=
  Fin (wsum S (fun r => in_mr ms (ans r v) i)).
Proof. exact (strand_mr_counts_spec S v ms i). Qed.
Print Assumptions C01_strand_mr_counts.

(* Valid elements: the output rows/columns are exactly the non-missing payload positions,
   in payload order, wherever the missing ones sit ... *)
Theorem C01_valid_elements ms :
  (forall c, In c (valid_idxs ms) <-> c < length ms /\ nth c ms true = false)
  /\ StronglySorted lt (valid_idxs ms).
Proof. exact (conj (valid_idxs_In ms) (valid_idxs_sorted ms)). Qed.
Print Assumptions C01_valid_elements.

(* ... a respondent whose answer is a category flagged missing belongs to no output element
   and is not eligible; a counted respondent answered a non-missing category *)
Theorem C01_missing_categories_never_contribute ms a c :
  acat a = Some c -> nth c ms true = true ->
  (forall i, in_cat ms a i = false) /\ ok_cat ms a = false.
Proof. exact (missing_category_excluded ms a c). Qed.
Print Assumptions C01_missing_categories_never_contribute.

Theorem C01_counted_answers_are_valid ms a i :
  in_cat ms a i = true ->
  exists c, acat a = Some c /\ c = nth i (valid_idxs ms) 0 /\ c < length ms /\ nth c ms true = false.
Proof. exact (in_cat_true ms a i). Qed.
Print Assumptions C01_counted_answers_are_valid.

(* Payload layout: reshaping the flat row-major payload of ANY shape reads cell idx *)
Theorem C01_payload_layout shape T idx :
  in_boundsb shape idx = true -> of_flat shape (flatten shape T) idx = T idx.
Proof. exact (of_flat_flatten shape T idx). Qed.
Print Assumptions C01_payload_layout.

(* Numeric measures (mean, sum, stddev, median, valid counts): the reshaped payload reports
   exactly the value the response carries at the cell's offset; {"?": code} is NaN *)
Theorem C01_payload_values shape (payload : list jcell) idx :
  in_boundsb shape idx = true ->
  of_flat shape (map cell_value payload) idx
  = match nth_error payload (offset shape idx 0) with
    | Some c => cell_value c
    | None => NaN
    end.
Proof. exact (of_flat_cell shape payload idx). Qed.
Print Assumptions C01_payload_values.

(* ... and the slice value of a numeric measure is ONE cell of that tensor: the selected
   plane of every MR axis, the i-th / j-th valid element of rows / columns *)
Theorem C01_passthrough_reads_one_cell ds T rmr cmr i j :
  passthrough_of (take_valid ds T) rmr cmr i j
  = T (remap (map dvalid ds)
             (match rmr, cmr with
              | true, true => [i; 0; j; 0] | true, false => [i; 0; j]
              | false, true => [i; j; 0] | false, false => [i; j] end)).
Proof. exact (passthrough_reads ds T rmr cmr i j). Qed.
Print Assumptions C01_passthrough_reads_one_cell.

(* Which payload the counts come from (cube.py): valid_count_weighted, else
   valid_count_unweighted, else measures.count.data when it differs from counts, else counts *)
Theorem C01_measure_cascade p :
  cwm_payload p =
  match nonempty (p_vcw p), nonempty (p_vcu p), weighted_payload p with
  | Some d, _, _ => d
  | None, Some d, _ => d
  | None, None, Some d => d
  | None, None, None => p_counts p
  end.
Proof. exact (cwm_cascade p). Qed.
Print Assumptions C01_measure_cascade.

(* Non-vacuity.  Four respondents; rows = categorical with a MISSING category in the middle
   of the payload (positions: valid, missing, valid); columns = MR with two items and
   per-item missingness.  The flat payload is produced by [flatten]; [slice_counts] (the
   function the correspondence check evaluates) extracts the counts from it. *)
Example C01_example :
  let S := [ mkResp [ACat 0; AMr [Sel; Oth]] (3 # 2);
             mkResp [ACat 2; AMr [Sel; Mis]] 2;
             mkResp [ACat 1; AMr [Sel; Sel]] 5;       (* missing row category *)
             mkResp [ACat 2; AMr [Oth; Sel]] (1 # 4) ] in
  let mr := [false; true; false] in
  let mc := [false; false] in
  let ds := cube_dims None KCat mr KMr mc in
  let payload := flatten (raw_shape ds) (raw_of (cube_vars None 0 KCat 1 KMr) S) in
  t_ok None /\ cat_or_mr KCat /\ cat_or_mr KMr /\ 0 < t_n None /\ nval mr = 2 /\ nval mc = 2 /\
  wf_survey S /\
  option_map (fun so => map (map xred) (so_counts so)) (slice_counts ds payload 0)
    = Some [[Fin (3 # 2); Fin 0]; [Fin 2; Fin (1 # 4)]] /\
  counts_of (slice_of None 0 KCat mr 1 KMr mc S 0) CCat CMr 1 0 =x= Fin 2 /\
  (wsum S (fun r => in_el KCat mr (ans r 0) 1 && in_el KMr mc (ans r 1) 0) == 2)%Q.
Proof.
  cbv zeta. repeat split; try (left; reflexivity); try (right; reflexivity); try lia;
    try (repeat constructor; discriminate); try (vm_compute; reflexivity).
Qed.

(* ------------------------------------------------------------------------------------ *)
(* THE TIE TO THE SOURCE TEXT (DESIGN 2.4 (a)).  Gen/CubeCountsSrc.v and Gen/StripeCountsSrc.v
   are rewritten from /repo/src/cr/cube/{matrix,stripe}/cubemeasure.py on every check by the ast
   translator; the theorems below say that what the source SAYS NOW ([teval] of the translated
   term, Base/Tensor.v), for the class the factory picks for a (rows, columns) pair, IS the
   extractor [counts_of] / [stripe_counts] / [passthrough_of] / [slice_at] the theorems above
   are about -- result shape and every in-range cell, for all tensors and sizes.  [None] = the
   translator could not read the method (then only the correspondence ties it).  A change of
   meaning in the source breaks these obligations (Proofs/GenAgree.v does not compile). *)
From Coq Require Import String.
From CC Require Import Base.Tensor Gen.CubeCountsSrc Gen.StripeCountsSrc Gen.Tables
     Proofs.GenAgreeTac Proofs.GenAgreeCounts.

Theorem C01_gen_counts :
  match src_CubeCounts_dispatch with
  | Some D => forall rc cc,
      meth src_methods (dict_pick (tag rc, tag cc) (fst D) (snd D)) "counts"
        (fun e => forall V nr nc sr sc,
           agrees2 (teval (envC (shape_of rc cc nr nc sr sc) V) e) nr nc (counts_of V rc cc))
  | None => True
  end.
Proof. exact gen_dispatch_counts. Qed.
Print Assumptions C01_gen_counts.

(* the type strings "MR" / "ARR" / "CAT" the factory computes from the dimension types *)
Theorem C01_gen_type_strings :
  match src_CubeCounts_typestr, tbl_DT_members, tbl_DT_sets with
  | Some R, Some members, Some subsets =>
      (forall k, k <> DMrCat ->
         typestr_pick members subsets (dt_name k) (fst R) (snd R) = tag (cls_of (mkDim k []))) /\
      (forall n, In n cat_like -> typestr_pick members subsets n (fst R) (snd R) = tag CCat)
  | _, _, _ => True
  end.
Proof. exact gen_typestr. Qed.
Print Assumptions C01_gen_type_strings.

(* counts[cls._slice_idx_expr(cube, slice_idx)] is [slice_at] *)
Theorem C01_gen_slice_idx_expr :
  match src_slice_idx_expr with
  | Some R => forall ndim table_mr k (T : tensor) idx, idx <> [] ->
      slice_rule_apply R ndim table_mr k T idx = slice_at ndim table_mr k T idx
  | None => True
  end.
Proof. exact gen_slice_idx_expr. Qed.
Print Assumptions C01_gen_slice_idx_expr.

(* every factory hands the measure's array, cut by _slice_idx_expr, to the class *)
Theorem C01_gen_factory_arguments :
  binds_to src_CubeCounts_binds "_counts" (FSliced (FParam "counts")) /\
  binds_to src_CubeMeans_binds "_means" (FSliced (FCube "means")) /\
  binds_to src_CubeMedians_binds "_medians" (FSliced (FCube "medians")) /\
  binds_to src_CubeStdDev_binds "_stddev" (FSliced (FCube "stddev")) /\
  binds_to src_CubeSums_binds "_sums" (FSliced (FCube "sums")) /\
  binds_to src_UnconditionalCubeCounts_binds "_counts_with_missings"
           (FSliced (FCube "counts_with_missings")).
Proof. exact gen_factory_binds. Qed.
Print Assumptions C01_gen_factory_arguments.

(* numeric measures: means / medians / stddev / sums classes are [passthrough_of] *)
Theorem C01_gen_passthrough :
  match src_CubeMeans_dispatch with
  | Some D => forall rmr cmr,
      meth src_methods (cond_pick rmr cmr (fst D) (snd D)) "means"
        (fun e => forall V nr nc sr sc,
           agrees2 (teval (env1 "_means" (shape_mr rmr cmr nr nc sr sc) V [] []) e) nr nc
                   (passthrough_of V rmr cmr))
  | None => True
  end /\
  match src_CubeMedians_dispatch with
  | Some D => forall rmr cmr,
      meth src_methods (cond_pick rmr cmr (fst D) (snd D)) "medians"
        (fun e => forall V nr nc sr sc,
           agrees2 (teval (env1 "_medians" (shape_mr rmr cmr nr nc sr sc) V [] []) e) nr nc
                   (passthrough_of V rmr cmr))
  | None => True
  end /\
  match src_CubeStdDev_dispatch with
  | Some D => forall rmr cmr,
      meth src_methods (cond_pick rmr cmr (fst D) (snd D)) "stddev"
        (fun e => forall V nr nc sr sc,
           agrees2 (teval (env1 "_stddev" (shape_mr rmr cmr nr nc sr sc) V [] []) e) nr nc
                   (passthrough_of V rmr cmr))
  | None => True
  end /\
  match src_CubeSums_dispatch with
  | Some D => forall rmr cmr,
      meth src_methods (cond_pick rmr cmr (fst D) (snd D)) "sums"
        (fun e => forall V nr nc sr sc,
           agrees2 (teval (env1 "_sums" (shape_mr rmr cmr nr nc sr sc) V [] []) e) nr nc
                   (passthrough_of V rmr cmr))
  | None => True
  end.
Proof.
  exact (conj gen_dispatch_means (conj gen_dispatch_medians (conj gen_dispatch_stddev gen_dispatch_sums))).
Qed.
Print Assumptions C01_gen_passthrough.

(* strands: stripe/cubemeasure.py counts of the three classes, and which class the factory picks *)
Theorem C01_gen_strand_counts :
  match ssrc_CatCubeCounts_counts with
  | Some e => forall V n, agrees1 (teval (envS [n] V) e) n (stripe_counts V CCat)
  | None => True
  end /\
  match ssrc_MrCubeCounts_counts with
  | Some e => forall V n s, agrees1 (teval (envS [n; s] V) e) n (stripe_counts V CMr)
  | None => True
  end /\
  match ssrc_NumArrCubeCounts_counts with
  | Some e => forall V n, agrees1 (teval (envS [n] V) e) n (stripe_counts V CArr)
  | None => True
  end.
Proof.
  exact (conj gen_stripe_CatCubeCounts_counts
        (conj gen_stripe_MrCubeCounts_counts gen_stripe_NumArrCubeCounts_counts)).
Qed.
Print Assumptions C01_gen_strand_counts.

Theorem C01_gen_strand_dispatch :
  match ssrc_CubeCounts_dispatch, tbl_DT_members with
  | Some D, Some _ =>
      (forall k, stripe_pick true k (fst D) (snd D) = (stripe_class_name CCat, true)) /\
      (forall k, k = DCat \/ k = DMrSubvar \/ k = DNumArr ->
         stripe_pick false k (fst D) (snd D) = (stripe_class_name (cls_of (mkDim k [])), false))
  | _, _ => True
  end.
Proof. exact gen_stripe_dispatch. Qed.
Print Assumptions C01_gen_strand_dispatch.

(* ------------------------------------------------------------------------------------ *)
(* NUMERIC ARRAYS AND THE 0-D NUB (Model/NumArray.v, Proofs/NumArrayProofs.v).
   A numeric-array measure (mean / sum / stddev / median / valid counts -- the valid counts
   back .counts / .unweighted_counts) comes with the grouping dimensions [gs] of the response
   in payload order and the array item as the LAST axis; the library puts a NUM_ARRAY
   dimension in FRONT ([numarr_dims]) and Cube._valid_idxs re-orders the axes with
   Dimensions.dimension_order.  [numarr_valid n gs data] is literally the expression the
   correspondence check evaluates (take_valid_ord / raw_shape of Model/CubeCounts.v). *)
From CC Require Import Model.NumArray Proofs.NumArrayProofs Model.DimType Proofs.DimTypeProofs.

(* Whatever per-cell statistic F the response was laid out from, cell (item i, valid grouping
   elements gidx) of the result is F of (those grouping elements' payload positions, item i):
   no transposition, missing grouping elements dropped wherever they sit.  Any number of
   grouping axes (array x categorical / date / text / binned, array x MR, array x cat x cat,
   array x cat x MR, ...). *)
Theorem C01_numarr_reports_cell_statistic n gs (F : tensor) i gidx :
  gs <> [] -> valid_idx_ok gs gidx -> i < n ->
  numarr_valid n gs (flatten (numarr_payload_shape n gs) F) (i :: gidx)
  = F (remap (map dvalid gs) gidx ++ [i]).
Proof. exact (numarr_reports_cell_statistic n gs F i gidx). Qed.
Print Assumptions C01_numarr_reports_cell_statistic.

(* the same as index arithmetic on the flat data: data[offset(grouping) * n_items + item] *)
Theorem C01_numarr_payload_offset n gs data i gidx :
  gs <> [] -> valid_idx_ok gs gidx -> i < n ->
  numarr_valid n gs data (i :: gidx)
  = nth (offset (map dsize gs) (remap (map dvalid gs) gidx) 0 * n + i) data NaN.
Proof. exact (numarr_valid_offset n gs data i gidx). Qed.
Print Assumptions C01_numarr_payload_offset.

(* what the partitions hand out: array x categorical-like dimension ... *)
Theorem C01_numarr_by_cat_slice n g data i j :
  dk g = DCat -> i < n -> j < nvalid g ->
  option_map (fun m => mnth m i j) (slice_passthrough (numarr_dims n [g]) data 0)
    = Some (numarr_cell n [g] data i [nth j (dvalid g) 0])
  /\ option_map (fun so => mnth (so_counts so) i j) (slice_counts (numarr_dims n [g]) data 0)
    = Some (numarr_cell n [g] data i [nth j (dvalid g) 0]).
Proof. exact (numarr_by_cat_slice n g data i j). Qed.
Print Assumptions C01_numarr_by_cat_slice.

(* ... array x multiple response (the SELECTED plane of item j) ... *)
Theorem C01_numarr_by_mr_slice n ms data i j :
  let gs := [mkDim DMrSubvar ms; mkDim DMrCat mr_cat_missing] in
  i < n -> j < nvalid (mkDim DMrSubvar ms) ->
  option_map (fun m => mnth m i j) (slice_passthrough (numarr_dims n gs) data 0)
    = Some (numarr_cell n gs data i [nth j (valid_idxs ms) 0; 0])
  /\ option_map (fun so => mnth (so_counts so) i j) (slice_counts (numarr_dims n gs) data 0)
    = Some (numarr_cell n gs data i [nth j (valid_idxs ms) 0; 0]).
Proof. exact (numarr_by_mr_slice n ms data i j). Qed.
Print Assumptions C01_numarr_by_mr_slice.

(* ... the array alone (1-D strand of its items) ... *)
Theorem C01_numarr_strand n data i :
  i < n ->
  numarr_valid n [] data [i] = nth i data NaN /\
  option_map (fun st => vnth (st_counts st) i) (strand_counts (numarr_dims n []) data false 0)
    = Some (nth i data NaN).
Proof. exact (fun H => conj (numarr_alone n data i H) (numarr_strand n data i H)). Qed.
Print Assumptions C01_numarr_strand.

(* ... and the cube without any dimension (_Nub): the only cell *)
Theorem C01_nub_reads_the_only_cell data : nub_value data = nth 0 data NaN.
Proof. exact (nub_reads data). Qed.
Print Assumptions C01_nub_reads_the_only_cell.

(* ANY number of grouping axes (array x categorical x MR, array x MR x MR, ...): since the repair
   of finding C01-numarr-four-axes the two theorems above need no bound on the number of axes; the
   former witness (three grouping axes, where the code used to reverse ALL axes) reads the cell of
   the response. *)
Theorem C01_numarr_four_axes_former_witness :
  let n := 2 in
  let gs := [mkDim DCat [false; false]; mkDim DMrSubvar [false; false; false];
             mkDim DMrCat mr_cat_missing] in
  let data := map (fun k => Fin (inject_Z (Z.of_nat k))) (seq 0 36) in
  List.length gs = 3 /\ valid_idx_ok gs [1; 0; 0] /\
  numarr_valid n gs data (0 :: [1; 0; 0]) = numarr_cell n gs data 0 (remap (map dvalid gs) [1; 0; 0]).
Proof. exact numarr_four_axes_former_witness. Qed.
Print Assumptions C01_numarr_four_axes_former_witness.

(* the rotation (array axis to the back, nothing else) reads the response's cell for ANY
   number of grouping axes -- the order a repaired dimension_order has to return *)
Theorem C01_numarr_rotation_reads n gs data i gidx :
  List.length gidx = List.length gs ->
  of_flat (permute (rotate_order (S (List.length gs))) (map dsize (numarr_dims n gs))) data
          (permute (rotate_order (S (List.length gs))) (remap (map dvalid (numarr_dims n gs)) (i :: gidx)))
  = numarr_cell n gs data (nth i (dvalid (numarr_dim n)) 0) (remap (map dvalid gs) gidx).
Proof. exact (rotate_order_reads n gs data i gidx). Qed.
Print Assumptions C01_numarr_rotation_reads.

(* ------------------------------------------------------------------------------------ *)
(* WHICH DIMENSION IS WHAT (Model/DimType.v = Dimensions.dimension_type + from_dicts, tied by
   correspondence on cube.dimension_types).  The cell values above depend on it: a selection
   axis is collapsed to its first plane, the categories of an array are not. *)

(* a dimension is a multiple-response selection axis EXACTLY when it is categorical, belongs
   to an array, a category is flagged selected and the ids are 1, 0, -1 in this order *)
Theorem C01_selection_axis_iff d :
  dimension_type d = TMrCat <->
  exists cats, rd_type d = RCategorical cats /\ rd_subrefs d = true /\
               existsb rc_selected cats = true /\ map rc_id cats = [1%Z; 0%Z; (-1)%Z].
Proof. exact (mr_cat_iff d). Qed.
Print Assumptions C01_selection_axis_iff.

(* sub-variables are MR items exactly when another dimension of the same alias is such an axis *)
Theorem C01_mr_items_iff ds p :
  p < List.length ds ->
  (nth p (resolve ds) TCat = TMrSubvar <->
   dimension_type (nth p ds dflt_rdim) = TCaSubvar /\ has_values (nth p ds dflt_rdim) = true /\
   exists q, q < List.length ds /\ q <> p /\
             rd_alias (nth q ds dflt_rdim) = rd_alias (nth p ds dflt_rdim) /\
             dimension_type (nth q ds dflt_rdim) = TMrCat).
Proof. exact (mr_subvar_iff ds p). Qed.
Print Assumptions C01_mr_items_iff.

(* a categorical array -- categories without selected flag (even with ids 1, 0, -1), or with a
   flag on other ids / another order -- keeps both its axes next to any other variables *)
Theorem C01_categorical_array_is_never_collapsed pre post a b cats :
  is_logical cats = false ->
  (forall d, In d (pre ++ post) -> rd_alias d <> a) ->
  let ds := pre ++ [mkRDim a true (REnum SVariable b); mkRDim a true (RCategorical cats)] ++ post in
  nth (List.length pre) (resolve ds) TCat = TCaSubvar /\
  nth (S (List.length pre)) (resolve ds) TCat = TCaCat.
Proof. exact (categorical_array_is_never_collapsed pre post a b cats). Qed.
Print Assumptions C01_categorical_array_is_never_collapsed.

Theorem C01_multiple_response_pair pre post a cats :
  is_logical cats = true ->
  let ds := pre ++ [mkRDim a true (REnum SVariable true); mkRDim a true (RCategorical cats)] ++ post in
  nth (List.length pre) (resolve ds) TCat = TMrSubvar /\
  nth (S (List.length pre)) (resolve ds) TCat = TMrCat.
Proof. exact (multiple_response_pair pre post a cats). Qed.
Print Assumptions C01_multiple_response_pair.

(* a plain categorical that merely looks like a selection (ids 1, 0, -1 without flag, or a flag
   on other ids) is neither a selection axis nor LOGICAL; and LOGICAL / CAT_DATE / CA_CAT /
   DATETIME / TEXT / BINNED count like CAT *)
Theorem C01_lookalikes_are_not_selections d cats :
  rd_type d = RCategorical cats ->
  existsb rc_selected cats = false \/ map rc_id cats <> [1%Z; 0%Z; (-1)%Z] ->
  dimension_type d <> TMrCat /\ dimension_type d <> TLogical.
Proof.
  exact (fun E H => match H with
                    | or_introl H1 => not_selection_without_flag d cats E H1
                    | or_intror H2 => not_selection_other_ids d cats E H2
                    end).
Qed.
Print Assumptions C01_lookalikes_are_not_selections.

Theorem C01_only_four_types_are_special t :
  t <> TMrSubvar -> t <> TMrCat -> t <> TCaSubvar -> t <> TNumArr -> dkind_of t = DCat.
Proof. exact (dkind_of_cat_like t). Qed.
Print Assumptions C01_only_four_types_are_special.

(* Non-vacuity.  Means of a 3-item numeric array grouped by a categorical whose payload is
   (valid, MISSING, valid, valid): data[g * 3 + item] = 100 g + item.  The slice is
   items x valid categories, un-transposed; the square grouping (3 valid) is the shape on
   which a missing re-ordering still looks plausible.  Then the type rule on a Yes/No/No-Data
   grid without and with a selected flag. *)
Example C01_numarr_example :
  let g := mkDim DCat [false; true; false; false] in
  let data := map (fun k => Fin (inject_Z (Z.of_nat (100 * (k / 3) + k mod 3)))) (seq 0 12) in
  valid_idx_ok [g] [2] /\ dk g = DCat /\ nvalid g = 3 /\
  option_map (map (map xred)) (slice_passthrough (numarr_dims 3 [g]) data 0)
    = Some [[Fin 0; Fin 200; Fin 300]; [Fin 1; Fin 201; Fin 301]; [Fin 2; Fin 202; Fin 302]] /\
  numarr_valid 3 [g] data [1; 2] = Fin (inject_Z 301) /\
  nub_value [Fin 7] = Fin 7 /\
  (let grid sel := [mkRCat 1 sel false; mkRCat 0 false false; mkRCat (-1) false false] in
   resolve [mkRDim 0 true (REnum SVariable true); mkRDim 0 true (RCategorical (grid false))]
     = [TCaSubvar; TCaCat] /\
   resolve [mkRDim 0 true (REnum SVariable true); mkRDim 0 true (RCategorical (grid true))]
     = [TMrSubvar; TMrCat] /\
   cube_dimension_types (Some 5) [mkRDim 1 false (RCategorical (grid true))] = [TNumArr; TLogical]).
Proof.
  cbv zeta. repeat split; try (simpl; unfold nvalid; simpl; lia); vm_compute; reflexivity.
Qed.
