(* C01 -- Cell values are faithful tabulations of the survey behind the response.

   Only statements: each is closed by [exact <lemma>] and followed by [Print Assumptions].
   Spec (what the user relies on): Spec/Survey.v -- respondents, [tabulate], [wsum],
   [in_el]/[ok_el].  Model (what the code does): Model/CubeCounts.v, tied to
   cube.py / matrix/cubemeasure.py / stripe/cubemeasure.py by harness/props/c01.py.
   Proofs: Proofs/CubeCountsProofs.v.

   Notation of the statements: a cube over an optional table variable [tv] (3-D) and a
   rows variable (vr, kind kr, missing flags mr) and columns variable (vc, kc, mc), each
   categorical (KCat; also stands for datetime/text/binned enum dimensions) or
   multiple-response (KMr).  [slice_of ... S k] is EXACTLY what the code hands to the
   count class of partition k: raw tensor of the survey -> Cube._valid_idxs ->
   _slice_idx_expr.  [counts_of] is the dispatch of _BaseCubeCounts.factory.

   PARTIAL (stated here, not hidden): the five class pairs with a categorical-array
   dimension (Arr) are modelled (Model/CubeCounts.v) and checked by correspondence, but
   have no survey-level theorem; so have numeric arrays.  The glue from the flat payload
   to [slice_of] is proved for the layout ([C01_payload_layout]) and exercised by
   computation in the Example and on every correspondence case. *)
From Coq Require Import QArith ZArith List Bool Lia Arith Sorted.
From CC Require Import Base.XQ Base.ListX Spec.Survey Model.CubeCounts Proofs.CubeCountsProofs.
Import ListNotations.
Local Close Scope Q_scope.
Local Open Scope nat_scope.

(* Weighted counts of every cell of every partition (2-D: tv = None; 3-D: table element k):
   the weighted number of respondents in table element k, row element i, column element j,
   where belonging to an MR item means having SELECTED it. *)
Theorem C01_counts_are_weighted_tabulations S tv vr vc kr kc mr mc k i j :
  t_ok tv -> cat_or_mr kr -> cat_or_mr kc ->
  k < t_n tv -> i < nval mr -> j < nval mc ->
  counts_of (slice_of tv vr kr mr vc kc mc S k) (kcls kr) (kcls kc) i j =x=
  Fin (wsum S (fun r => pop_of tv k r && in_el kr mr (ans r vr) i && in_el kc mc (ans r vc) j)).
Proof. exact (fun Ht Hr Hc Hk => counts_of_spec S tv vr vc kr kc mr mc k Ht Hr Hc Hk i j). Qed.
Print Assumptions C01_counts_are_weighted_tabulations.

(* Unweighted counts: the same extraction on the unit-weight tensor is the NUMBER of such
   respondents. *)
Theorem C01_unweighted_counts_are_headcounts S tv vr vc kr kc mr mc k i j :
  t_ok tv -> cat_or_mr kr -> cat_or_mr kc ->
  k < t_n tv -> i < nval mr -> j < nval mc ->
  counts_of (slice_of tv vr kr mr vc kc mc (unit_weights S) k) (kcls kr) (kcls kc) i j =x=
  Fin (inject_Z (Z.of_nat (length (filter
        (fun r => pop_of tv k r && in_el kr mr (ans r vr) i && in_el kc mc (ans r vc) j) S)))).
Proof. exact (unweighted_counts_headcount S tv vr vc kr kc mr mc k i j). Qed.
Print Assumptions C01_unweighted_counts_are_headcounts.

(* 1-D cubes (strands) *)
Theorem C01_strand_cat_counts S v ms i : i < nval ms ->
  sc_counts (take_valid (dims_of KCat ms) (raw_of [(v, KCat)] S)) i =x=
  Fin (wsum S (fun r => in_cat ms (ans r v) i)).
Proof. exact (strand_cat_counts_spec S v ms i). Qed.
Print Assumptions C01_strand_cat_counts.

Theorem C01_strand_mr_counts S v ms i :
  sm_counts (take_valid (dims_of KMr ms) (raw_of [(v, KMr)] S)) i =x=
  Fin (wsum S (fun r => in_mr ms (ans r v) i)).
Proof. exact (strand_mr_counts_spec S v ms i). Qed.
Print Assumptions C01_strand_mr_counts.

(* Valid elements: the output rows/columns are exactly the non-missing payload positions,
   in payload order, wherever the missing ones sit ... *)
Theorem C01_valid_elements ms :
  (forall c, In c (valid_idxs ms) <-> c < length ms /\ nth c ms true = false)
  /\ StronglySorted lt (valid_idxs ms).
Proof. exact (conj (valid_idxs_In ms) (valid_idxs_sorted ms)). Qed.
Print Assumptions C01_valid_elements.

(* ... a respondent whose answer is a category flagged missing belongs to no output element
   and is not eligible; a counted respondent answered a non-missing category *)
Theorem C01_missing_categories_never_contribute ms a c :
  acat a = Some c -> nth c ms true = true ->
  (forall i, in_cat ms a i = false) /\ ok_cat ms a = false.
Proof. exact (missing_category_excluded ms a c). Qed.
Print Assumptions C01_missing_categories_never_contribute.

Theorem C01_counted_answers_are_valid ms a i :
  in_cat ms a i = true ->
  exists c, acat a = Some c /\ c = nth i (valid_idxs ms) 0 /\ c < length ms /\ nth c ms true = false.
Proof. exact (in_cat_true ms a i). Qed.
Print Assumptions C01_counted_answers_are_valid.

(* Payload layout: reshaping the flat row-major payload of ANY shape reads cell idx *)
Theorem C01_payload_layout shape T idx :
  in_boundsb shape idx = true -> of_flat shape (flatten shape T) idx = T idx.
Proof. exact (of_flat_flatten shape T idx). Qed.
Print Assumptions C01_payload_layout.

(* Numeric measures (mean, sum, stddev, median, valid counts): the reshaped payload reports
   exactly the value the response carries at the cell's offset; {"?": code} is NaN *)
Theorem C01_payload_values shape (payload : list jcell) idx :
  in_boundsb shape idx = true ->
  of_flat shape (map cell_value payload) idx
  = match nth_error payload (offset shape idx 0) with
    | Some c => cell_value c
    | None => NaN
    end.
Proof. exact (of_flat_cell shape payload idx). Qed.
Print Assumptions C01_payload_values.

(* ... and the slice value of a numeric measure is ONE cell of that tensor: the selected
   plane of every MR axis, the i-th / j-th valid element of rows / columns *)
Theorem C01_passthrough_reads_one_cell ds T rmr cmr i j :
  passthrough_of (take_valid ds T) rmr cmr i j
  = T (remap (map dvalid ds)
             (match rmr, cmr with
              | true, true => [i; 0; j; 0] | true, false => [i; 0; j]
              | false, true => [i; j; 0] | false, false => [i; j] end)).
Proof. exact (passthrough_reads ds T rmr cmr i j). Qed.
Print Assumptions C01_passthrough_reads_one_cell.

(* Which payload the counts come from (cube.py): valid_count_weighted, else
   valid_count_unweighted, else measures.count.data when it differs from counts, else counts *)
Theorem C01_measure_cascade p :
  cwm_payload p =
  match nonempty (p_vcw p), nonempty (p_vcu p), weighted_payload p with
  | Some d, _, _ => d
  | None, Some d, _ => d
  | None, None, Some d => d
  | None, None, None => p_counts p
  end.
Proof. exact (cwm_cascade p). Qed.
Print Assumptions C01_measure_cascade.

(* Non-vacuity.  Four respondents; rows = categorical with a MISSING category in the middle
   of the payload (positions: valid, missing, valid); columns = MR with two items and
   per-item missingness.  The flat payload is produced by [flatten]; [slice_counts] (the
   function the correspondence check evaluates) extracts the counts from it. *)
Example C01_example :
  let S := [ mkResp [ACat 0; AMr [Sel; Oth]] (3 # 2);
             mkResp [ACat 2; AMr [Sel; Mis]] 2;
             mkResp [ACat 1; AMr [Sel; Sel]] 5;       (* missing row category *)
             mkResp [ACat 2; AMr [Oth; Sel]] (1 # 4) ] in
  let mr := [false; true; false] in
  let mc := [false; false] in
  let ds := cube_dims None KCat mr KMr mc in
  let payload := flatten (raw_shape ds) (raw_of (cube_vars None 0 KCat 1 KMr) S) in
  t_ok None /\ cat_or_mr KCat /\ cat_or_mr KMr /\ 0 < t_n None /\ nval mr = 2 /\ nval mc = 2 /\
  wf_survey S /\
  option_map (fun so => map (map xred) (so_counts so)) (slice_counts ds payload 0)
    = Some [[Fin (3 # 2); Fin 0]; [Fin 2; Fin (1 # 4)]] /\
  counts_of (slice_of None 0 KCat mr 1 KMr mc S 0) CCat CMr 1 0 =x= Fin 2 /\
  (wsum S (fun r => in_el KCat mr (ans r 0) 1 && in_el KMr mc (ans r 1) 0) == 2)%Q.
Proof.
  cbv zeta. repeat split; try (left; reflexivity); try (right; reflexivity); try lia;
    try (repeat constructor; discriminate); try (vm_compute; reflexivity).
Qed.

(* ------------------------------------------------------------------------------------ *)
(* THE TIE TO THE SOURCE TEXT (DESIGN 2.4 (a)).  Gen/CubeCountsSrc.v and Gen/StripeCountsSrc.v
   are rewritten from /repo/src/cr/cube/{matrix,stripe}/cubemeasure.py on every check by the ast
   translator; the theorems below say that what the source SAYS NOW ([teval] of the translated
   term, Base/Tensor.v), for the class the factory picks for a (rows, columns) pair, IS the
   extractor [counts_of] / [stripe_counts] / [passthrough_of] / [slice_at] the theorems above
   are about -- result shape and every in-range cell, for all tensors and sizes.  [None] = the
   translator could not read the method (then only the correspondence ties it).  A change of
   meaning in the source breaks these obligations (Proofs/GenAgree.v does not compile). *)
From Coq Require Import String.
From CC Require Import Base.Tensor Gen.CubeCountsSrc Gen.StripeCountsSrc Gen.Tables
     Proofs.GenAgreeTac Proofs.GenAgreeCounts.

Theorem C01_gen_counts :
  match src_CubeCounts_dispatch with
  | Some D => forall rc cc,
      meth src_methods (dict_pick (tag rc, tag cc) (fst D) (snd D)) "counts"
        (fun e => forall V nr nc sr sc,
           agrees2 (teval (envC (shape_of rc cc nr nc sr sc) V) e) nr nc (counts_of V rc cc))
  | None => True
  end.
Proof. exact gen_dispatch_counts. Qed.
Print Assumptions C01_gen_counts.

(* the type strings "MR" / "ARR" / "CAT" the factory computes from the dimension types *)
Theorem C01_gen_type_strings :
  match src_CubeCounts_typestr, tbl_DT_members, tbl_DT_sets with
  | Some R, Some members, Some subsets =>
      (forall k, k <> DMrCat ->
         typestr_pick members subsets (dt_name k) (fst R) (snd R) = tag (cls_of (mkDim k []))) /\
      (forall n, In n cat_like -> typestr_pick members subsets n (fst R) (snd R) = tag CCat)
  | _, _, _ => True
  end.
Proof. exact gen_typestr. Qed.
Print Assumptions C01_gen_type_strings.

(* counts[cls._slice_idx_expr(cube, slice_idx)] is [slice_at] *)
Theorem C01_gen_slice_idx_expr :
  match src_slice_idx_expr with
  | Some R => forall ndim table_mr k (T : tensor) idx, idx <> [] ->
      slice_rule_apply R ndim table_mr k T idx = slice_at ndim table_mr k T idx
  | None => True
  end.
Proof. exact gen_slice_idx_expr. Qed.
Print Assumptions C01_gen_slice_idx_expr.

(* every factory hands the measure's array, cut by _slice_idx_expr, to the class *)
Theorem C01_gen_factory_arguments :
  binds_to src_CubeCounts_binds "_counts" (FSliced (FParam "counts")) /\
  binds_to src_CubeMeans_binds "_means" (FSliced (FCube "means")) /\
  binds_to src_CubeMedians_binds "_medians" (FSliced (FCube "medians")) /\
  binds_to src_CubeStdDev_binds "_stddev" (FSliced (FCube "stddev")) /\
  binds_to src_CubeSums_binds "_sums" (FSliced (FCube "sums")) /\
  binds_to src_UnconditionalCubeCounts_binds "_counts_with_missings"
           (FSliced (FCube "counts_with_missings")).
Proof. exact gen_factory_binds. Qed.
Print Assumptions C01_gen_factory_arguments.

(* numeric measures: means / medians / stddev / sums classes are [passthrough_of] *)
Theorem C01_gen_passthrough :
  match src_CubeMeans_dispatch with
  | Some D => forall rmr cmr,
      meth src_methods (cond_pick rmr cmr (fst D) (snd D)) "means"
        (fun e => forall V nr nc sr sc,
           agrees2 (teval (env1 "_means" (shape_mr rmr cmr nr nc sr sc) V [] []) e) nr nc
                   (passthrough_of V rmr cmr))
  | None => True
  end /\
  match src_CubeMedians_dispatch with
  | Some D => forall rmr cmr,
      meth src_methods (cond_pick rmr cmr (fst D) (snd D)) "medians"
        (fun e => forall V nr nc sr sc,
           agrees2 (teval (env1 "_medians" (shape_mr rmr cmr nr nc sr sc) V [] []) e) nr nc
                   (passthrough_of V rmr cmr))
  | None => True
  end /\
  match src_CubeStdDev_dispatch with
  | Some D => forall rmr cmr,
      meth src_methods (cond_pick rmr cmr (fst D) (snd D)) "stddev"
        (fun e => forall V nr nc sr sc,
           agrees2 (teval (env1 "_stddev" (shape_mr rmr cmr nr nc sr sc) V [] []) e) nr nc
                   (passthrough_of V rmr cmr))
  | None => True
  end /\
  match src_CubeSums_dispatch with
  | Some D => forall rmr cmr,
      meth src_methods (cond_pick rmr cmr (fst D) (snd D)) "sums"
        (fun e => forall V nr nc sr sc,
           agrees2 (teval (env1 "_sums" (shape_mr rmr cmr nr nc sr sc) V [] []) e) nr nc
                   (passthrough_of V rmr cmr))
  | None => True
  end.
Proof.
  exact (conj gen_dispatch_means (conj gen_dispatch_medians (conj gen_dispatch_stddev gen_dispatch_sums))).
Qed.
Print Assumptions C01_gen_passthrough.

(* strands: stripe/cubemeasure.py counts of the three classes, and which class the factory picks *)
Theorem C01_gen_strand_counts :
  match ssrc_CatCubeCounts_counts with
  | Some e => forall V n, agrees1 (teval (envS [n] V) e) n (stripe_counts V CCat)
  | None => True
  end /\
  match ssrc_MrCubeCounts_counts with
  | Some e => forall V n s, agrees1 (teval (envS [n; s] V) e) n (stripe_counts V CMr)
  | None => True
  end /\
  match ssrc_NumArrCubeCounts_counts with
  | Some e => forall V n, agrees1 (teval (envS [n] V) e) n (stripe_counts V CArr)
  | None => True
  end.
Proof.
  exact (conj gen_stripe_CatCubeCounts_counts
        (conj gen_stripe_MrCubeCounts_counts gen_stripe_NumArrCubeCounts_counts)).
Qed.
Print Assumptions C01_gen_strand_counts.

Theorem C01_gen_strand_dispatch :
  match ssrc_CubeCounts_dispatch, tbl_DT_members with
  | Some D, Some _ =>
      (forall k, stripe_pick true k (fst D) (snd D) = (stripe_class_name CCat, true)) /\
      (forall k, k = DCat \/ k = DMrSubvar \/ k = DNumArr ->
         stripe_pick false k (fst D) (snd D) = (stripe_class_name (cls_of (mkDim k [])), false))
  | _, _ => True
  end.
Proof. exact gen_stripe_dispatch. Qed.
Print Assumptions C01_gen_strand_dispatch.
