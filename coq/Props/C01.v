(* C01 -- Cell values are faithful tabulations of the survey behind the response.

   Only statements: each is closed by [exact <lemma>] and followed by [Print Assumptions].
   Spec (what the user relies on): Spec/Survey.v -- respondents, [tabulate], [wsum],
   [in_el]/[ok_el].  Model (what the code does): Model/CubeCounts.v, tied to
   cube.py / matrix/cubemeasure.py / stripe/cubemeasure.py by harness/props/c01.py.
   Proofs: Proofs/CubeCountsProofs.v.

   Notation of the statements: a cube over an optional table variable [tv] (3-D) and a
   rows variable (vr, kind kr, missing flags mr) and columns variable (vc, kc, mc), each
   categorical (KCat; also stands for datetime/text/binned enum dimensions) or
   multiple-response (KMr).  [slice_of ... S k] is EXACTLY what the code hands to the
   count class of partition k: raw tensor of the survey -> Cube._valid_idxs ->
   _slice_idx_expr.  [counts_of] is the dispatch of _BaseCubeCounts.factory.

   PARTIAL (stated here, not hidden): the five class pairs with a categorical-array
   dimension (Arr) are modelled (Model/CubeCounts.v) and checked by correspondence, but
   have no survey-level theorem; so have numeric arrays.  The glue from the flat payload
   to [slice_of] is proved for the layout ([C01_payload_layout]) and exercised by
   computation in the Example and on every correspondence case. *)
From Coq Require Import QArith ZArith List Bool Lia Arith Sorted.
From CC Require Import Base.XQ Base.ListX Spec.Survey Model.CubeCounts Proofs.CubeCountsProofs.
Import ListNotations.
Local Close Scope Q_scope.
Local Open Scope nat_scope.

(* Weighted counts of every cell of every partition (2-D: tv = None; 3-D: table element k):
   the weighted number of respondents in table element k, row element i, column element j,
   where belonging to an MR item means having SELECTED it. *)
Theorem C01_counts_are_weighted_tabulations S tv vr vc kr kc mr mc k i j :
  t_ok tv -> cat_or_mr kr -> cat_or_mr kc ->
  k < t_n tv -> i < nval mr -> j < nval mc ->
  counts_of (slice_of tv vr kr mr vc kc mc S k) (kcls kr) (kcls kc) i j =x=
  Fin (wsum S (fun r => pop_of tv k r && in_el kr mr (ans r vr) i && in_el kc mc (ans r vc) j)).
Proof. exact (fun Ht Hr Hc Hk => counts_of_spec S tv vr vc kr kc mr mc k Ht Hr Hc Hk i j). Qed.
Print Assumptions C01_counts_are_weighted_tabulations.

(* Unweighted counts: the same extraction on the unit-weight tensor is the NUMBER of such
   respondents. *)
Theorem C01_unweighted_counts_are_headcounts S tv vr vc kr kc mr mc k i j :
  t_ok tv -> cat_or_mr kr -> cat_or_mr kc ->
  k < t_n tv -> i < nval mr -> j < nval mc ->
  counts_of (slice_of tv vr kr mr vc kc mc (unit_weights S) k) (kcls kr) (kcls kc) i j =x=
  Fin (inject_Z (Z.of_nat (length (filter
        (fun r => pop_of tv k r && in_el kr mr (ans r vr) i && in_el kc mc (ans r vc) j) S)))).
Proof. exact (unweighted_counts_headcount S tv vr vc kr kc mr mc k i j). Qed.
Print Assumptions C01_unweighted_counts_are_headcounts.

(* 1-D cubes (strands) *)
Theorem C01_strand_cat_counts S v ms i : i < nval ms ->
  sc_counts (take_valid (dims_of KCat ms) (raw_of [(v, KCat)] S)) i =x=
  Fin (wsum S (fun r => in_cat ms (ans r v) i)).
Proof. exact (strand_cat_counts_spec S v ms i). Qed.
Print Assumptions C01_strand_cat_counts.

Theorem C01_strand_mr_counts S v ms i :
  sm_counts (take_valid (dims_of KMr ms) (raw_of [(v, KMr)] S)) i =x=
  Fin (wsum S (fun r => in_mr ms (ans r v) i)).
Proof. exact (strand_mr_counts_spec S v ms i). Qed.
Print Assumptions C01_strand_mr_counts.

(* Valid elements: the output rows/columns are exactly the non-missing payload positions,
   in payload order, wherever the missing ones sit ... *)
Theorem C01_valid_elements ms :
  (forall c, In c (valid_idxs ms) <-> c < length ms /\ nth c ms true = false)
  /\ StronglySorted lt (valid_idxs ms).
Proof. exact (conj (valid_idxs_In ms) (valid_idxs_sorted ms)). Qed.
Print Assumptions C01_valid_elements.

(* ... a respondent whose answer is a category flagged missing belongs to no output element
   and is not eligible; a counted respondent answered a non-missing category *)
Theorem C01_missing_categories_never_contribute ms a c :
  acat a = Some c -> nth c ms true = true ->
  (forall i, in_cat ms a i = false) /\ ok_cat ms a = false.
Proof. exact (missing_category_excluded ms a c). Qed.
Print Assumptions C01_missing_categories_never_contribute.

Theorem C01_counted_answers_are_valid ms a i :
  in_cat ms a i = true ->
  exists c, acat a = Some c /\ c = nth i (valid_idxs ms) 0 /\ c < length ms /\ nth c ms true = false.
Proof. exact (in_cat_true ms a i). Qed.
Print Assumptions C01_counted_answers_are_valid.

(* Payload layout: reshaping the flat row-major payload of ANY shape reads cell idx *)
Theorem C01_payload_layout shape T idx :
  in_boundsb shape idx = true -> of_flat shape (flatten shape T) idx = T idx.
Proof. exact (of_flat_flatten shape T idx). Qed.
Print Assumptions C01_payload_layout.

(* Numeric measures (mean, sum, stddev, median, valid counts): the reshaped payload reports
   exactly the value the response carries at the cell's offset; {"?": code} is NaN *)
Theorem C01_payload_values shape (payload : list jcell) idx :
  in_boundsb shape idx = true ->
  of_flat shape (map cell_value payload) idx
  = match nth_error payload (offset shape idx 0) with
    | Some c => cell_value c
    | None => NaN
    end.
Proof. exact (of_flat_cell shape payload idx). Qed.
Print Assumptions C01_payload_values.

(* ... and the slice value of a numeric measure is ONE cell of that tensor: the selected
   plane of every MR axis, the i-th / j-th valid element of rows / columns *)
Theorem C01_passthrough_reads_one_cell ds T rmr cmr i j :
  passthrough_of (take_valid ds T) rmr cmr i j
  = T (remap (map dvalid ds)
             (match rmr, cmr with
              | true, true => [i; 0; j; 0] | true, false => [i; 0; j]
              | false, true => [i; j; 0] | false, false => [i; j] end)).
Proof. exact (passthrough_reads ds T rmr cmr i j). Qed.
Print Assumptions C01_passthrough_reads_one_cell.

(* Which payload the counts come from (cube.py): valid_count_weighted, else
   valid_count_unweighted, else measures.count.data when it differs from counts, else counts *)
Theorem C01_measure_cascade p :
  cwm_payload p =
  match nonempty (p_vcw p), nonempty (p_vcu p), weighted_payload p with
  | Some d, _, _ => d
  | None, Some d, _ => d
  | None, None, Some d => d
  | None, None, None => p_counts p
  end.
Proof. exact (cwm_cascade p). Qed.
Print Assumptions C01_measure_cascade.

(* Non-vacuity.  Four respondents; rows = categorical with a MISSING category in the middle
   of the payload (positions: valid, missing, valid); columns = MR with two items and
   per-item missingness.  The flat payload is produced by [flatten]; [slice_counts] (the
   function the correspondence check evaluates) extracts the counts from it. *)
Example C01_example :
  let S := [ mkResp [ACat 0; AMr [Sel; Oth]] (3 # 2);
             mkResp [ACat 2; AMr [Sel; Mis]] 2;
             mkResp [ACat 1; AMr [Sel; Sel]] 5;       (* missing row category *)
             mkResp [ACat 2; AMr [Oth; Sel]] (1 # 4) ] in
  let mr := [false; true; false] in
  let mc := [false; false] in
  let ds := cube_dims None KCat mr KMr mc in
  let payload := flatten (raw_shape ds) (raw_of (cube_vars None 0 KCat 1 KMr) S) in
  t_ok None /\ cat_or_mr KCat /\ cat_or_mr KMr /\ 0 < t_n None /\ nval mr = 2 /\ nval mc = 2 /\
  wf_survey S /\
  option_map (fun so => map (map xred) (so_counts so)) (slice_counts ds payload 0)
    = Some [[Fin (3 # 2); Fin 0]; [Fin 2; Fin (1 # 4)]] /\
  counts_of (slice_of None 0 KCat mr 1 KMr mc S 0) CCat CMr 1 0 =x= Fin 2 /\
  (wsum S (fun r => in_el KCat mr (ans r 0) 1 && in_el KMr mc (ans r 1) 0) == 2)%Q.
Proof.
  cbv zeta. repeat split; try (left; reflexivity); try (right; reflexivity); try lia;
    try (repeat constructor; discriminate); try (vm_compute; reflexivity).
Qed.
