(* C14 - Scale mean, median, standard deviation and standard error from category numeric values.

   Model: Model/Scale.v (tied to matrix/measure.py::_ScaleMean/_ScaleMedian/_ScaleMeanStddev/
   _ScaleMeanStderr, stripe/measure.py::_ScaledCounts and cubepart.py::*_scale_*_margin by the
   correspondence check harness/props/c14.py).  Spec: Spec/Stats.v - weighted mean, population
   variance and median of the numeric values of the INDIVIDUAL respondents counted in a vector.
   Proofs: Proofs/ScaleProofs.v, ScaleMedianProofs.v, ScaleExpandProofs.v (and, historical only,
   ScaleMedianFixProofs.v).

   The model follows the code as repaired by dda43200 (median at an exact 50 % point averages
   with the next category that has counts) and 2ba43316 (strand scale_median is None when no
   response has a numeric value): the median theorems carry no side condition on where empty
   categories fall, and the strand median is None exactly when mean and deviations are.

   Reading guide.  [ovals : list (option Q)] numeric value of each category of the opposing
   dimension (None = no value); [rs] the respondents counted in the vector as (category, weight);
   [tally n rs] the count vector they tabulate to; [observations ovals rs] the (value, weight)
   pairs of the respondents whose category has a value.  Square roots are not modelled: the
   theorems speak about stddev^2 and stderr^2 (the check compares the squares).  *)
From Coq Require Import QArith ZArith List Bool Lia Arith Sorted Permutation.
From CC Require Import Base.XQ Base.ListX Spec.Stats Model.Scale
  Proofs.ScaleProofs Proofs.ScaleMedianProofs Proofs.ScaleExpandProofs Proofs.ScaleMedianFixProofs
  Proofs.ScaleZeroSpread.
Import ListNotations.
Local Close Scope Q_scope.
Local Open Scope nat_scope.

(* ---- slice vectors (rows_/columns_scale_mean, _stddev, _stderr) ---------------------------------- *)

(* scale mean of a vector = weighted mean of the respondents' numeric values, whatever the
   (positive) weighted base the proportions were taken over *)
Theorem C14_scale_mean_eq ovals rs B :
  cats_below (length ovals) rs -> (0 < B)%Q ->
  ~ (wtotal (observations ovals rs) == 0)%Q ->
  scale_mean_vec (map Fin (tally (length ovals) rs)) (repeat (Fin B) (length ovals)) (map xval ovals)
  =x= Fin (wmean_spec (observations ovals rs)).
Proof. exact (scale_mean_eq ovals rs B). Qed.
Print Assumptions C14_scale_mean_eq.

(* NaN for a vector without numeric-valued respondents *)
Theorem C14_scale_mean_nan ovals rs B :
  cats_below (length ovals) rs -> nonneg_weights rs -> (0 < B)%Q ->
  (wtotal (observations ovals rs) == 0)%Q ->
  scale_mean_vec (map Fin (tally (length ovals) rs)) (repeat (Fin B) (length ovals)) (map xval ovals)
  =x= NaN.
Proof. exact (scale_mean_nan ovals rs B). Qed.
Print Assumptions C14_scale_mean_nan.

(* stddev^2 = population variance of the respondents' numeric values *)
Theorem C14_scale_var_eq ovals rs B :
  cats_below (length ovals) rs -> nonneg_weights rs -> (0 < B)%Q ->
  ~ (wtotal (observations ovals rs) == 0)%Q ->
  scale_var_vec false (map Fin (tally (length ovals) rs)) (repeat (Fin B) (length ovals)) (map xval ovals)
  =x= Fin (wvar_spec (observations ovals rs)).
Proof. exact (scale_var_eq ovals rs B). Qed.
Print Assumptions C14_scale_var_eq.

(* stderr^2 = that variance over the vector's weighted margin M ... *)
Theorem C14_scale_stderr_eq ovals rs B M :
  cats_below (length ovals) rs -> nonneg_weights rs -> (0 < B)%Q -> (0 < M)%Q ->
  ~ (wtotal (observations ovals rs) == 0)%Q ->
  scale_stderr_sq_vec false (map Fin (tally (length ovals) rs)) (repeat (Fin B) (length ovals))
    (map xval ovals) (Fin M)
  =x= Fin (wvar_spec (observations ovals rs) / M).
Proof. exact (scale_stderr_eq ovals rs B M). Qed.
Print Assumptions C14_scale_stderr_eq.

(* ZERO SPREAD: when every numeric-valued respondent of the vector carries the same value v (whatever
   else the vector counts in categories without a value, and whatever the magnitude of v), stddev^2 is
   exactly 0 and the mean is v.  (The float64 code may only be off by rounding: the input class
   `single_valued` at magnitudes up to 1e5 of the C14 check, after seeded change C14-9.) *)
Theorem C14_zero_spread ovals rs B v :
  cats_below (length ovals) rs -> nonneg_weights rs -> (0 < B)%Q ->
  ~ (wtotal (observations ovals rs) == 0)%Q ->
  all_valued_at v (observations ovals rs) ->
  scale_var_vec false (map Fin (tally (length ovals) rs)) (repeat (Fin B) (length ovals)) (map xval ovals)
    =x= Fin 0
  /\ scale_mean_vec (map Fin (tally (length ovals) rs)) (repeat (Fin B) (length ovals)) (map xval ovals)
    =x= Fin v.
Proof. exact (scale_zero_spread ovals rs B v). Qed.
Print Assumptions C14_zero_spread.

(* its premises are satisfiable: income mid-points, 38 respondents at 137500 and 29 who prefer not to say *)
Example C14_example_zero_spread :
  let ovals := [Some 12500; Some 137500; None]%Q in
  let rs := [(1, 38%Q); (2, 29%Q)] in
  cats_below (length ovals) rs /\ nonneg_weights rs /\
  ~ (wtotal (observations ovals rs) == 0)%Q /\ all_valued_at 137500 (observations ovals rs).
Proof.
  cbv zeta. split; [repeat constructor|]. split; [repeat constructor; discriminate|].
  split; [intros H; vm_compute in H; discriminate|]. repeat constructor.
Qed.

(* ... where the margin of a vector (sum of its counts) is the total weight of ALL its respondents,
   with or without a numeric value *)
Theorem C14_margin_is_total_weight n rs :
  cats_below n rs -> (qsum (tally n rs) == weight_all rs)%Q.
Proof. exact (tally_total n rs). Qed.
Print Assumptions C14_margin_is_total_weight.

(* subtotal DIFFERENCE vectors have no comparable counts: stddev, stderr and median are NaN *)
Theorem C14_difference_vectors ord counts bases vals margin :
  scale_var_vec true counts bases vals = NaN /\
  scale_stderr_sq_vec true counts bases vals margin = NaN /\
  scale_median_vec ord true counts vals = NaN.
Proof.
  exact (conj (scale_var_diff counts bases vals)
              (conj (scale_stderr_diff counts bases vals margin) (scale_median_diff ord counts vals))).
Qed.
Print Assumptions C14_difference_vectors.

(* ---- median (integer counts) ------------------------------------------------------------------------ *)

(* Unit-weight respondents [rs] (their category indexes); the vector is their tally; [ord] is ANY
   order numpy's argsort may return (a permutation of the valued categories, ascending by value).
   The cumulative-count rule returns the median of the respondents' values - wherever empty
   categories fall in the value order. *)
Theorem C14_median_eq ovals rs ord :
  let vals := map xval ovals in
  let ns := tally_nat (length ovals) rs in
  cats_below_nat (length ovals) rs ->
  valid_order vals ord = true ->
  values_of ovals rs <> [] ->
  exists m, scale_median_vec ord false (map cnt ns) vals = Fin m /\
            is_median_of (values_of ovals rs) m.
Proof. exact (median_eq ovals rs ord). Qed.
Print Assumptions C14_median_eq.

(* same statement on the value-sorted categories: values [vs] ascending, counts [ns] *)
Theorem C14_median_sorted_categories vs ns :
  length vs = length ns -> Sorted Qle vs -> 0 < list_sum ns ->
  exists m, weighted_median (map cnt ns) vs = Fin m /\ is_median_of (expand vs ns) m.
Proof. exact (weighted_median_is_median vs ns). Qed.
Print Assumptions C14_median_sorted_categories.

(* the former witness of finding C14-median-zero-count-after-half (fixed by dda43200): counts
   2,0,2 on the values 1,2,3 - an empty category right after the exact 50 % point - give 2, the
   median of the respondents' values 1,1,3,3 (it was 3/2) *)
Theorem C14_median_former_witness :
  let ovals := [Some 1; Some 2; Some 3]%Q in
  let rs := [0; 0; 2; 2] in
  cats_below_nat (length ovals) rs /\
  valid_order (map xval ovals) [0; 1; 2] = true /\
  tally_nat 3 rs = [2; 0; 2] /\ values_of ovals rs = [1; 1; 3; 3]%Q /\
  scale_median_vec [0; 1; 2] false (map cnt (tally_nat 3 rs)) (map xval ovals) =x= Fin 2 /\
  is_median_of (values_of ovals rs) 2.
Proof. exact median_former_witness. Qed.
Print Assumptions C14_median_former_witness.

(* NaN for a vector without numeric-valued respondents *)
Theorem C14_median_nan ovals rs ord :
  let vals := map xval ovals in
  let ns := tally_nat (length ovals) rs in
  cats_below_nat (length ovals) rs ->
  valid_order vals ord = true ->
  values_of ovals rs = [] ->
  scale_median_vec ord false (map cnt ns) vals = NaN.
Proof. exact (median_nan ovals rs ord). Qed.
Print Assumptions C14_median_nan.

(* ---- None <=> no category of the opposing dimension has a numeric value ------------------------------ *)
Theorem C14_none_iff ovals :
  any_value (map xval ovals) = false <-> Forall (fun o => o = None) ovals.
Proof. exact (any_value_false_iff ovals). Qed.
Print Assumptions C14_none_iff.

(* ---- overall margins: the four x_scale_mean_margin and x_scale_median_margin scalars, over the margin vector ------------ *)
Theorem C14_scale_mean_margin_eq ovals rs :
  cats_below (length ovals) rs ->
  ~ (wtotal (observations ovals rs) == 0)%Q ->
  scale_mean_margin (map Fin (tally (length ovals) rs)) (map xval ovals)
  =x= Fin (wmean_spec (observations ovals rs)).
Proof. exact (scale_mean_margin_eq ovals rs). Qed.
Print Assumptions C14_scale_mean_margin_eq.

Theorem C14_scale_median_margin_eq ovals rs :
  cats_below_nat (length ovals) rs -> values_of ovals rs <> [] ->
  exists m, scale_median_margin (map cnt (tally_nat (length ovals) rs)) (map xval ovals) = Some (Fin m)
            /\ is_median_of (values_of ovals rs) m.
Proof. exact (margin_median_eq ovals rs). Qed.
Print Assumptions C14_scale_median_margin_eq.

Theorem C14_scale_median_margin_none ovals rs :
  cats_below_nat (length ovals) rs -> values_of ovals rs = [] ->
  scale_median_margin (map cnt (tally_nat (length ovals) rs)) (map xval ovals) = None.
Proof. exact (margin_median_none ovals rs). Qed.
Print Assumptions C14_scale_median_margin_none.

(* ---- strand (_Strand.scale_mean / scale_std_dev / scale_std_err / scale_median) ---------------------- *)
(* None <=> no category has a value, or no numeric-valued respondent *)
Theorem C14_strand_mean_none_iff ovals rs :
  cats_below (length ovals) rs ->
  (strand_scale_mean (map Fin (tally (length ovals) rs)) (map xval ovals) = None
   <-> (Forall (fun o => o = None) ovals \/ (wtotal (observations ovals rs) == 0)%Q)).
Proof. exact (strand_mean_none_iff ovals rs). Qed.
Print Assumptions C14_strand_mean_none_iff.

Theorem C14_strand_none_together counts vals :
  strand_scale_mean counts vals = None ->
  strand_scale_stddev_sq counts vals = None /\ strand_scale_stderr_sq counts vals = None.
Proof. exact (strand_none_together counts vals). Qed.
Print Assumptions C14_strand_none_together.

Theorem C14_strand_mean_eq ovals rs :
  cats_below (length ovals) rs ->
  ~ Forall (fun o => o = None) ovals -> ~ (wtotal (observations ovals rs) == 0)%Q ->
  exists x, strand_scale_mean (map Fin (tally (length ovals) rs)) (map xval ovals) = Some x
            /\ x =x= Fin (wmean_spec (observations ovals rs)).
Proof. exact (strand_mean_eq ovals rs). Qed.
Print Assumptions C14_strand_mean_eq.

Theorem C14_strand_stddev_eq ovals rs :
  cats_below (length ovals) rs -> nonneg_weights rs ->
  ~ Forall (fun o => o = None) ovals -> ~ (wtotal (observations ovals rs) == 0)%Q ->
  exists x, strand_scale_stddev_sq (map Fin (tally (length ovals) rs)) (map xval ovals) = Some x
            /\ x =x= Fin (wvar_spec (observations ovals rs)).
Proof. exact (strand_stddev_eq ovals rs). Qed.
Print Assumptions C14_strand_stddev_eq.

(* strand: the standard error is over the weighted count of NUMERIC-VALUED respondents *)
Theorem C14_strand_stderr_eq ovals rs :
  cats_below (length ovals) rs -> nonneg_weights rs ->
  ~ Forall (fun o => o = None) ovals -> ~ (wtotal (observations ovals rs) == 0)%Q ->
  exists x, strand_scale_stderr_sq (map Fin (tally (length ovals) rs)) (map xval ovals) = Some x
            /\ x =x= Fin (wvar_spec (observations ovals rs) / wtotal (observations ovals rs)).
Proof. exact (strand_stderr_eq ovals rs). Qed.
Print Assumptions C14_strand_stderr_eq.

Theorem C14_strand_median_eq ovals rs :
  cats_below_nat (length ovals) rs -> values_of ovals rs <> [] ->
  exists m, strand_scale_median (map cnt (tally_nat (length ovals) rs)) (map xval ovals) = Some (Fin m)
            /\ is_median_of (values_of ovals rs) m.
Proof. exact (strand_median_eq ovals rs). Qed.
Print Assumptions C14_strand_median_eq.

(* None <=> no category has a value, or no respondent is counted in a valued category: exactly
   when the strand's mean (C14_strand_mean_none_iff) and deviations are None *)
Theorem C14_strand_median_none_iff ovals rs :
  cats_below_nat (length ovals) rs ->
  (strand_scale_median (map cnt (tally_nat (length ovals) rs)) (map xval ovals) = None
   <-> (Forall (fun o => o = None) ovals \/ values_of ovals rs = [])).
Proof. exact (strand_median_none_iff ovals rs). Qed.
Print Assumptions C14_strand_median_none_iff.

(* the former witness of finding C14-strand-median-nan-when-empty (fixed by 2ba43316): categories
   valued 1, 2 and no respondent - the median is None like the mean and the deviations (it was NaN) *)
Theorem C14_strand_median_former_witness :
  let counts := [Fin 0; Fin 0] in let vals := [Fin 1; Fin 2] in
  any_value vals = true /\
  strand_scale_mean counts vals = None /\
  strand_scale_stddev_sq counts vals = None /\
  strand_scale_stderr_sq counts vals = None /\
  strand_scale_median counts vals = None.
Proof. exact strand_median_former_witness. Qed.
Print Assumptions C14_strand_median_former_witness.

(* ---- historical: the rule before dda43200 ([weighted_median_v0], used by nothing in the model) --------- *)
(* it was a median only when no empty category followed (in value order) a prefix holding exactly
   half of the respondents ... *)
Theorem C14_median_v0_sorted_categories vs ns :
  length vs = length ns -> Sorted Qle vs -> 0 < list_sum ns -> no_gap ns ->
  exists m, weighted_median_v0 (map cnt ns) vs = Fin m /\ is_median_of (expand vs ns) m.
Proof. exact (weighted_median_v0_is_median vs ns). Qed.
Print Assumptions C14_median_v0_sorted_categories.

(* ... in particular when every valued category is non-empty ... *)
Theorem C14_no_gap_when_all_positive ns : Forall (fun n => 0 < n) ns -> no_gap ns.
Proof. exact (all_positive_no_gap ns). Qed.
Print Assumptions C14_no_gap_when_all_positive.

(* ... and not otherwise: on counts 2,0,2 over 1,2,3 it gave 3/2 where the repaired rule and the
   respondents give 2.  (So C14_median_sorted_categories separates the repaired rule from it.) *)
Theorem C14_median_v0_not_median :
  exists vs ns, length vs = length ns /\ Sorted Qle vs /\ 0 < list_sum ns /\
    weighted_median_v0 (map cnt ns) vs = Fin (3 # 2) /\
    weighted_median (map cnt ns) vs =x= Fin 2 /\ (middle (expand vs ns) == 2)%Q.
Proof. exact weighted_median_v0_not_median. Qed.
Print Assumptions C14_median_v0_not_median.

(* ---- non-vacuity ---------------------------------------------------------------------------------------- *)
(* five respondents with weights, categories valued 3, -, 1, 3 (unsorted, repeated, one without value) *)
Example C14_example_mean_var :
  let ovals := [Some 3; None; Some 1; Some 3]%Q in
  let rs := [(0, 1%Q); (2, 2%Q); (1, 5%Q); (3, (1 # 2)%Q); (2, (1 # 2)%Q)] in
  cats_below (length ovals) rs /\ nonneg_weights rs /\
  ~ (wtotal (observations ovals rs) == 0)%Q /\
  tally (length ovals) rs = [0 + 1; 0 + 5; 0 + (1 # 2) + 2; 0 + (1 # 2)]%Q /\
  (wmean_spec (observations ovals rs) == 7 # 4)%Q /\
  (wvar_spec (observations ovals rs) == 15 # 16)%Q /\
  scale_mean_vec (map Fin (tally 4 rs)) (repeat (Fin 9) 4) (map xval ovals) =x= Fin (7 # 4) /\
  scale_var_vec false (map Fin (tally 4 rs)) (repeat (Fin 9) 4) (map xval ovals) =x= Fin (15 # 16).
Proof.
  cbv zeta. split; [repeat constructor|]. split; [repeat constructor; discriminate|].
  split; [intros H; vm_compute in H; discriminate|].
  split; [reflexivity|]. repeat split; vm_compute; reflexivity.
Qed.

(* median: values 5,1,-,3 (unsorted, one category without value); seven respondents, one of them in
   the category without value *)
Example C14_example_median :
  let ovals := [Some 5; Some 1; None; Some 3]%Q in
  let rs := [0; 1; 3; 2; 1; 3; 3] in
  let ord := [1; 3; 0] in
  cats_below_nat (length ovals) rs /\
  valid_order (map xval ovals) ord = true /\ ord = stable_order (map xval ovals) /\
  values_of ovals rs = [5; 1; 3; 1; 3; 3]%Q /\
  tally_nat 4 rs = [1; 2; 1; 3] /\
  scale_median_vec ord false (map cnt (tally_nat 4 rs)) (map xval ovals) = Fin 3.
Proof.
  cbv zeta. split; [repeat constructor|]. split; [reflexivity|]. split; [reflexivity|].
  split; [reflexivity|]. split; [reflexivity|]. reflexivity.
Qed.

(* an exact 50 % point followed (in value order) by an EMPTY category, values unsorted and
   repeated: categories valued 4,1,-,2,4 with counts 0,2,1,0,2 - the hypotheses of C14_median_eq
   hold and the median of the respondents' values 1,1,4,4 is 5/2 (the empty category valued 2 and
   the empty one valued 4 that argsort may put first are both skipped) *)
Example C14_example_median_gap :
  let ovals := [Some 4; Some 1; None; Some 2; Some 4]%Q in
  let rs := [4; 1; 2; 1; 4] in
  let ord := [1; 3; 0; 4] in
  cats_below_nat (length ovals) rs /\
  valid_order (map xval ovals) ord = true /\
  values_of ovals rs = [4; 1; 1; 4]%Q /\ values_of ovals rs <> [] /\
  tally_nat 5 rs = [0; 2; 1; 0; 2] /\
  scale_median_vec ord false (map cnt (tally_nat 5 rs)) (map xval ovals) =x= Fin (5 # 2).
Proof.
  cbv zeta. split; [repeat constructor|]. split; [reflexivity|]. split; [reflexivity|].
  split; [discriminate|]. split; [reflexivity|]. vm_compute. reflexivity.
Qed.

(* strand: a valued category exists, the only respondent sits in the category without value *)
Example C14_example_strand_none :
  let ovals := [Some 3; None]%Q in
  let rs := [1] in
  cats_below_nat (length ovals) rs /\ ~ Forall (fun o => o = None) ovals /\
  values_of ovals rs = [] /\
  strand_scale_median (map cnt (tally_nat 2 rs)) (map xval ovals) = None.
Proof.
  cbv zeta. split; [repeat constructor|]. split; [intros H; inversion H; discriminate|].
  split; reflexivity.
Qed.

(* ==== BEGIN x_scale appendix (generated by tools/gen_scale_appendix.py) ==== *)
(* Source translator x_scale (round 3): what harness/translate/x_scale.py read in the scale marginals of
   matrix/measure.py (and stripe/measure.py::_ScaledCounts) on this run denotes Model/Scale.v's per-vector
   definitions (statements: Proofs/GenAgreeScale*.v). *)
From Coq Require String.
From CC Require Base.VecExp Spec.Stats Model.Scale Model.ScaleOrient Model.ScaleDisplay Gen.ScaleSrc Gen.StripeScaleSrc Gen.PartScaleSrc Proofs.ScaleDisplayProofs Proofs.GenAgreeVecTac Proofs.GenAgreeScaleTac Proofs.GenAgreeScaleMean Proofs.GenAgreeScaleVar Proofs.GenAgreeScaleMedian Proofs.GenAgreeScaleMedianBlocks Proofs.GenAgreeScaleStrand Proofs.GenAgreeScaleStrandMedian Proofs.GenAgreeScaleMargin Proofs.GenAgreeScaleDisplay.
Section GenAgreeXScale_C14.   (* scopes and imports below end with the section *)
Import Coq.Strings.String CC.Base.VecExp CC.Spec.Stats CC.Model.Scale CC.Model.ScaleOrient CC.Model.ScaleDisplay CC.Gen.ScaleSrc CC.Gen.StripeScaleSrc CC.Gen.PartScaleSrc CC.Proofs.ScaleDisplayProofs CC.Proofs.GenAgreeVecTac CC.Proofs.GenAgreeScaleTac CC.Proofs.GenAgreeScaleMean CC.Proofs.GenAgreeScaleVar CC.Proofs.GenAgreeScaleMedian CC.Proofs.GenAgreeScaleMedianBlocks CC.Proofs.GenAgreeScaleStrand CC.Proofs.GenAgreeScaleStrandMedian CC.Proofs.GenAgreeScaleMargin CC.Proofs.GenAgreeScaleDisplay.
Import Coq.Lists.List.ListNotations CC.Base.XQ CC.Base.ListX.
Local Close Scope Q_scope.
Local Open Scope string_scope.
Local Open Scope nat_scope.

Theorem C14_gen_ScaleMean__opposing_numeric_values :
  match vsrc_ScaleMean__opposing_numeric_values with
  | Some e => forall (rows : bool) rvals cvals rest srt,
      veval (env_scale (orient_name rows) (dims_attrs rvals cvals ++ rest) no_var srt) e
      = VV (if rows then cvals else rvals)
  | None => True
  end.
Proof. exact gen_ScaleMean__opposing_numeric_values. Qed.
Print Assumptions C14_gen_ScaleMean__opposing_numeric_values.

Theorem C14_gen_ScaleMean_is_defined :
  match vsrc_ScaleMean_is_defined with
  | Some e => forall (rows : bool) rvals cvals rest srt,
      veval (env_scale (orient_name rows) (dims_attrs rvals cvals ++ rest) no_var srt) e
      = VB (any_value (if rows then cvals else rvals))
  | None => True
  end.
Proof. exact gen_ScaleMean_is_defined. Qed.
Print Assumptions C14_gen_ScaleMean_is_defined.

Theorem C14_gen_ScaleMean__weighted_mean :
  match vsrc_ScaleMean__weighted_mean with
  | Some e => forall props vals srt, List.length props = List.length vals ->
      veval (mkVenv (var2 "proportions" (VV props) "values" (VV vals)) no_var no_get no_call srt) e
      = VS (wmean props vals)
  | None => True
  end.
Proof. exact gen_ScaleMean__weighted_mean. Qed.
Print Assumptions C14_gen_ScaleMean__weighted_mean.

Theorem C14_gen_ScaleMean__proportions_rows :
  match vsrc_ScaleMean__proportions with
  | Some e => forall nc C0 B0 C1 B1 rvals cvals srt,
      List.length C0 = List.length B0 -> List.length C1 = List.length B1 ->
      veval (env_scale "MO.ROWS" (dims_attrs rvals cvals ++ mean_attrs_rows nc C0 B0 C1 B1) no_var srt) e
      = VL [VM nc (map2 pdiv C0 B0); VM nc (map2 pdiv C1 B1)]
  | None => True
  end.
Proof. exact gen_ScaleMean__proportions_rows. Qed.
Print Assumptions C14_gen_ScaleMean__proportions_rows.

Theorem C14_gen_ScaleMean__proportions_columns :
  match vsrc_ScaleMean__proportions with
  | Some e => forall nc ncs C0 B0 C1 B1 rvals cvals srt,
      List.length C0 = List.length B0 -> List.length C1 = List.length B1 ->
      veval (env_scale "MO.COLUMNS" (dims_attrs rvals cvals ++ mean_attrs_cols nc ncs C0 B0 C1 B1) no_var srt) e
      = VL [VM nc (map2 pdiv C0 B0); VM ncs (map2 pdiv C1 B1)]
  | None => True
  end.
Proof. exact gen_ScaleMean__proportions_columns. Qed.
Print Assumptions C14_gen_ScaleMean__proportions_columns.

Theorem C14_gen_ScaleMean_blocks_rows :
  match vsrc_ScaleMean_blocks with
  | Some e => forall nc C0 B0 C1 B1 rvals cvals srt,
      any_value cvals = true -> List.length cvals = nc ->
      wf_mat nc C0 -> wf_mat nc B0 -> List.length C0 = List.length B0 ->
      wf_mat nc C1 -> wf_mat nc B1 -> List.length C1 = List.length B1 ->
      veval (env_scale "MO.ROWS" (dims_attrs rvals cvals ++ mean_attrs_rows nc C0 B0 C1 B1) no_var srt) e
      = VL [VV (map2 (fun c b => scale_mean_vec c b cvals) C0 B0);
            VV (map2 (fun c b => scale_mean_vec c b cvals) C1 B1)]
  | None => True
  end.
Proof. exact gen_ScaleMean_blocks_rows. Qed.
Print Assumptions C14_gen_ScaleMean_blocks_rows.

Theorem C14_gen_ScaleMean_blocks_columns :
  match vsrc_ScaleMean_blocks with
  | Some e => forall nr nc ncs C0 B0 C1 B1 rvals cvals srt,
      any_value rvals = true -> List.length rvals = nr ->
      wf_mat nc C0 -> wf_mat nc B0 -> List.length C0 = nr -> List.length B0 = nr ->
      wf_mat ncs C1 -> wf_mat ncs B1 -> List.length C1 = nr -> List.length B1 = nr ->
      veval (env_scale "MO.COLUMNS" (dims_attrs rvals cvals ++ mean_attrs_cols nc ncs C0 B0 C1 B1) no_var srt) e
      = VL [VV (tab nc (fun j => scale_mean_vec (mcol C0 j) (mcol B0 j) rvals));
            VV (tab ncs (fun j => scale_mean_vec (mcol C1 j) (mcol B1 j) rvals))]
  | None => True
  end.
Proof. exact gen_ScaleMean_blocks_columns. Qed.
Print Assumptions C14_gen_ScaleMean_blocks_columns.

Theorem C14_gen_ScaleMean_blocks_undefined :
  match vsrc_ScaleMean_blocks with
  | Some e => forall (rows : bool) rvals cvals rest srt,
      any_value (if rows then cvals else rvals) = false ->
      veval (env_scale (orient_name rows) (dims_attrs rvals cvals ++ rest) no_var srt) e = VErr
  | None => True
  end.
Proof. exact gen_ScaleMean_blocks_undefined. Qed.
Print Assumptions C14_gen_ScaleMean_blocks_undefined.

Theorem C14_gen_wiring_scale_marginals :
  wired vsrc_wiring_rows_scale_mean "_ScaleMean" "MO.ROWS" /\
  wired vsrc_wiring_columns_scale_mean "_ScaleMean" "MO.COLUMNS" /\
  wired vsrc_wiring_rows_scale_mean_stddev "_ScaleMeanStddev" "MO.ROWS" /\
  wired vsrc_wiring_columns_scale_mean_stddev "_ScaleMeanStddev" "MO.COLUMNS" /\
  wired vsrc_wiring_rows_scale_mean_stderr "_ScaleMeanStderr" "MO.ROWS" /\
  wired vsrc_wiring_columns_scale_mean_stderr "_ScaleMeanStderr" "MO.COLUMNS" /\
  wired vsrc_wiring_rows_scale_median "_ScaleMedian" "MO.ROWS" /\
  wired vsrc_wiring_columns_scale_median "_ScaleMedian" "MO.COLUMNS".
Proof. exact gen_wiring_scale_marginals. Qed.
Print Assumptions C14_gen_wiring_scale_marginals.

Theorem C14_gen_ScaleMeanStddev_is_defined :
  match vsrc_ScaleMeanStddev_is_defined with
  | Some e => forall (rows : bool) rvals cvals rest srt,
      veval (env_scale (orient_name rows) (dims_attrs rvals cvals ++ rest) no_var srt) e
      = VB (any_value (if rows then cvals else rvals))
  | None => True
  end.
Proof. exact gen_ScaleMeanStddev_is_defined. Qed.
Print Assumptions C14_gen_ScaleMeanStddev_is_defined.

Theorem C14_gen_ScaleMeanStddev__counts_rows :
  match vsrc_ScaleMeanStddev__counts with
  | Some e => forall nc C0 C1 means0 means1 rvals cvals srt,
      veval (env_scale "MO.ROWS" (dims_attrs rvals cvals ++ var_attrs_rows nc C0 C1 means0 means1) no_var srt) e
      = VL [VM nc C0; VM nc C1]
  | None => True
  end.
Proof. exact gen_ScaleMeanStddev__counts_rows. Qed.
Print Assumptions C14_gen_ScaleMeanStddev__counts_rows.

Theorem C14_gen_ScaleMeanStddev__counts_columns :
  match vsrc_ScaleMeanStddev__counts with
  | Some e => forall nc ncs C0 C1 means0 means1 rvals cvals srt,
      veval (env_scale "MO.COLUMNS" (dims_attrs rvals cvals ++ var_attrs_cols nc ncs C0 C1 means0 means1) no_var srt) e
      = VL [VM nc C0; VM ncs C1]
  | None => True
  end.
Proof. exact gen_ScaleMeanStddev__counts_columns. Qed.
Print Assumptions C14_gen_ScaleMeanStddev__counts_columns.

Theorem C14_gen_ScaleMeanStddev__rows_weighted_mean_stddev :
  match vsrc_ScaleMeanStddev__rows_weighted_mean_stddev with
  | Some e => forall nc C vals means srt,
      List.length vals = nc -> wf_mat nc C -> List.length means = List.length C ->
      veval (mkVenv (var3 "counts" (VM nc C) "values" (VV vals) "scale_mean" (VV means)) no_var no_get no_call srt) e
      = root_vec (List.length C =? 0) (rows_var_vec vals C means)
  | None => True
  end.
Proof. exact gen_ScaleMeanStddev__rows_weighted_mean_stddev. Qed.
Print Assumptions C14_gen_ScaleMeanStddev__rows_weighted_mean_stddev.

Theorem C14_gen_ScaleMeanStddev__columns_weighted_mean_stddev :
  match vsrc_ScaleMeanStddev__columns_weighted_mean_stddev with
  | Some e => forall nc C vals means srt,
      List.length vals = List.length C -> wf_mat nc C -> List.length means = nc ->
      veval (mkVenv (var3 "counts" (VM nc C) "values" (VV vals) "scale_mean" (VV means)) no_var no_get no_call srt) e
      = root_vec (nc =? 0) (cols_var_vec nc vals C means)
  | None => True
  end.
Proof. exact gen_ScaleMeanStddev__columns_weighted_mean_stddev. Qed.
Print Assumptions C14_gen_ScaleMeanStddev__columns_weighted_mean_stddev.

Theorem C14_gen_ScaleMeanStddev_blocks_rows :
  match vsrc_ScaleMeanStddev_blocks with
  | Some e => forall nc C0 C1 means0 means1 rvals cvals srt,
      any_value cvals = true -> List.length cvals = nc ->
      wf_mat nc C0 -> List.length means0 = List.length C0 ->
      wf_mat nc C1 -> List.length means1 = List.length C1 ->
      veval (env_scale "MO.ROWS" (dims_attrs rvals cvals ++ var_attrs_rows nc C0 C1 means0 means1) no_var srt) e
      = VL [root_vec (List.length C0 =? 0) (rows_var_vec cvals C0 means0);
            root_vec (List.length C1 =? 0) (rows_var_vec cvals C1 means1)]
  | None => True
  end.
Proof. exact gen_ScaleMeanStddev_blocks_rows. Qed.
Print Assumptions C14_gen_ScaleMeanStddev_blocks_rows.

Theorem C14_gen_ScaleMeanStddev_blocks_columns :
  match vsrc_ScaleMeanStddev_blocks with
  | Some e => forall nr nc ncs C0 C1 means0 means1 rvals cvals srt,
      any_value rvals = true -> List.length rvals = nr ->
      wf_mat nc C0 -> List.length C0 = nr -> List.length means0 = nc ->
      wf_mat ncs C1 -> List.length C1 = nr -> List.length means1 = ncs ->
      veval (env_scale "MO.COLUMNS" (dims_attrs rvals cvals ++ var_attrs_cols nc ncs C0 C1 means0 means1) no_var srt) e
      = VL [root_vec (nc =? 0) (cols_var_vec nc rvals C0 means0);
            root_vec (ncs =? 0) (cols_var_vec ncs rvals C1 means1)]
  | None => True
  end.
Proof. exact gen_ScaleMeanStddev_blocks_columns. Qed.
Print Assumptions C14_gen_ScaleMeanStddev_blocks_columns.

Theorem C14_gen_ScaleMeanStddev_blocks_undefined :
  match vsrc_ScaleMeanStddev_blocks with
  | Some e => forall (rows : bool) rvals cvals rest srt,
      any_value (if rows then cvals else rvals) = false ->
      veval (env_scale (orient_name rows) (dims_attrs rvals cvals ++ rest) no_var srt) e = VErr
  | None => True
  end.
Proof. exact gen_ScaleMeanStddev_blocks_undefined. Qed.
Print Assumptions C14_gen_ScaleMeanStddev_blocks_undefined.

Theorem C14_gen_ScaleMeanStderr_is_defined :
  match vsrc_ScaleMeanStderr_is_defined with
  | Some e => forall (rows : bool) dsd dmg sd0 sd1 mg0 mg1 srt,
      veval (env_scale (orient_name rows) (stderr_attrs (orient_word rows) dsd dmg sd0 sd1 mg0 mg1) no_var srt) e
      = VB (dsd && dmg)
  | None => True
  end.
Proof. exact gen_ScaleMeanStderr_is_defined. Qed.
Print Assumptions C14_gen_ScaleMeanStderr_is_defined.

Theorem C14_gen_ScaleMeanStderr_blocks :
  match vsrc_ScaleMeanStderr_blocks with
  | Some e => forall (rows : bool) sd0 sd1 mg0 mg1 srt,
      List.length sd0 = List.length mg0 -> List.length sd1 = List.length mg1 ->
      veval (env_scale (orient_name rows) (stderr_attrs (orient_word rows) true true sd0 sd1 mg0 mg1) no_var srt) e
      = VL [VRV (stderr_vec sd0 mg0); VRV (stderr_vec sd1 mg1)]
  | None => True
  end.
Proof. exact gen_ScaleMeanStderr_blocks. Qed.
Print Assumptions C14_gen_ScaleMeanStderr_blocks.

Theorem C14_gen_ScaleMeanStderr_blocks_undefined :
  match vsrc_ScaleMeanStderr_blocks with
  | Some e => forall (rows : bool) dsd dmg sd0 sd1 mg0 mg1 srt,
      dsd && dmg = false ->
      veval (env_scale (orient_name rows) (stderr_attrs (orient_word rows) dsd dmg sd0 sd1 mg0 mg1) no_var srt) e
      = VErr
  | None => True
  end.
Proof. exact gen_ScaleMeanStderr_blocks_undefined. Qed.
Print Assumptions C14_gen_ScaleMeanStderr_blocks_undefined.

Theorem C14_gen_ScaleMedian_is_defined :
  match vsrc_ScaleMedian_is_defined with
  | Some e => forall (rows : bool) rvals cvals rest srt,
      veval (env_scale (orient_name rows) (dims_attrs rvals cvals ++ rest) no_var srt) e
      = VB (any_value (if rows then cvals else rvals))
  | None => True
  end.
Proof. exact gen_ScaleMedian_is_defined. Qed.
Print Assumptions C14_gen_ScaleMedian_is_defined.

Theorem C14_gen_ScaleMedian__weighted_median :
  match vsrc_ScaleMedian__weighted_median with
  | Some e => forall cs (vs : list Q) srt,
      List.length cs = List.length vs -> List.length cs <> 0 -> Forall nonneg_count cs ->
      vagrees (veval (mkVenv (var2 "sorted_counts" (VV cs) "sorted_values" (VV (map Fin vs)))
                             no_var no_get no_call srt) e)
              (VS (weighted_median cs vs))
  | None => True
  end.
Proof. exact gen_ScaleMedian__weighted_median. Qed.
Print Assumptions C14_gen_ScaleMedian__weighted_median.

Theorem C14_gen_ScaleMedian__values_sort_order :
  match vsrc_ScaleMedian__values_sort_order with
  | Some e => forall (rows : bool) rvals cvals rest srt,
      argsort_ok (if rows then cvals else rvals) (srt (if rows then cvals else rvals)) ->
      exists ord,
        veval (env_scale (orient_name rows) (dims_attrs rvals cvals ++ rest) no_var srt) e = VIV ord
        /\ valid_order (if rows then cvals else rvals) ord = true
        /\ ord = filter (fun i => negb (is_nan (vnth (if rows then cvals else rvals) i)))
                        (srt (if rows then cvals else rvals))
  | None => True
  end.
Proof. exact gen_ScaleMedian__values_sort_order. Qed.
Print Assumptions C14_gen_ScaleMedian__values_sort_order.

Theorem C14_gen_ScaleMedian__sorted_values :
  match vsrc_ScaleMedian__sorted_values with
  | Some e => forall (rows : bool) rvals cvals rest srt,
      argsort_ok (if rows then cvals else rvals) (srt (if rows then cvals else rvals)) ->
      veval (env_scale (orient_name rows) (dims_attrs rvals cvals ++ rest) no_var srt) e
      = VV (map (vnth (if rows then cvals else rvals))
                (filter (fun i => negb (is_nan (vnth (if rows then cvals else rvals) i)))
                        (srt (if rows then cvals else rvals))))
  | None => True
  end.
Proof. exact gen_ScaleMedian__sorted_values. Qed.
Print Assumptions C14_gen_ScaleMedian__sorted_values.

Theorem C14_gen_ScaleMedian__sorted_counts_rows :
  match vsrc_ScaleMedian__sorted_counts with
  | Some e => forall nc C0 C1 rvals cvals srt,
      argsort_ok cvals (srt cvals) -> List.length cvals = nc ->
      veval (env_scale "MO.ROWS" (dims_attrs rvals cvals ++ med_attrs_rows nc C0 C1) no_var srt) e
      = VL [VM (List.length (sort_order cvals srt)) (map (fun r => map (vnth r) (sort_order cvals srt)) C0);
            VM (List.length (sort_order cvals srt)) (map (fun r => map (vnth r) (sort_order cvals srt)) C1)]
  | None => True
  end.
Proof. exact gen_ScaleMedian__sorted_counts_rows. Qed.
Print Assumptions C14_gen_ScaleMedian__sorted_counts_rows.

Theorem C14_gen_ScaleMedian__sorted_counts_columns :
  match vsrc_ScaleMedian__sorted_counts with
  | Some e => forall nr nc ncs C0 C1 rvals cvals srt,
      argsort_ok rvals (srt rvals) -> List.length rvals = nr ->
      List.length C0 = nr -> List.length C1 = nr ->
      veval (env_scale "MO.COLUMNS" (dims_attrs rvals cvals ++ med_attrs_cols nc ncs C0 C1) no_var srt) e
      = VL [VM nc (map (fun i => nth i C0 []) (sort_order rvals srt));
            VM ncs (map (fun i => nth i C1 []) (sort_order rvals srt))]
  | None => True
  end.
Proof. exact gen_ScaleMedian__sorted_counts_columns. Qed.
Print Assumptions C14_gen_ScaleMedian__sorted_counts_columns.

Theorem C14_gen_ScaleMedian_blocks_rows :
  match vsrc_ScaleMedian_blocks with
  | Some e => forall nc C0 C1 rvals cvals srt,
      vsrc_ScaleMedian__weighted_median <> None ->
      any_value cvals = true -> argsort_ok cvals (srt cvals) -> List.length cvals = nc ->
      Forall finite_or_nan cvals ->
      wf_mat nc C0 -> wf_mat nc C1 -> cells_nonneg C0 -> cells_nonneg C1 ->
      exists m0 m1,
        veval (env_scale "MO.ROWS" (dims_attrs rvals cvals ++ med_attrs_rows nc C0 C1) no_var srt) e
        = VL [VV m0; VV m1]
        /\ vxeq_l m0 (map (fun r => scale_median_vec (sort_order cvals srt) false r cvals) C0)
        /\ vxeq_l m1 (map (fun r => scale_median_vec (sort_order cvals srt) false r cvals) C1)
  | None => True
  end.
Proof. exact gen_ScaleMedian_blocks_rows. Qed.
Print Assumptions C14_gen_ScaleMedian_blocks_rows.

Theorem C14_gen_ScaleMedian_blocks_columns :
  match vsrc_ScaleMedian_blocks with
  | Some e => forall nr nc ncs C0 C1 rvals cvals srt,
      vsrc_ScaleMedian__weighted_median <> None ->
      any_value rvals = true -> argsort_ok rvals (srt rvals) -> List.length rvals = nr ->
      Forall finite_or_nan rvals ->
      wf_mat nc C0 -> wf_mat ncs C1 -> List.length C0 = nr -> List.length C1 = nr ->
      cells_nonneg C0 -> cells_nonneg C1 ->
      exists m0 m1,
        veval (env_scale "MO.COLUMNS" (dims_attrs rvals cvals ++ med_attrs_cols nc ncs C0 C1) no_var srt) e
        = VL [VV m0; VV m1]
        /\ vxeq_l m0 (tab nc (fun j => scale_median_vec (sort_order rvals srt) false (mcol C0 j) rvals))
        /\ vxeq_l m1 (tab ncs (fun j => scale_median_vec (sort_order rvals srt) false (mcol C1 j) rvals))
  | None => True
  end.
Proof. exact gen_ScaleMedian_blocks_columns. Qed.
Print Assumptions C14_gen_ScaleMedian_blocks_columns.

Theorem C14_gen_stripe_ScaledCounts__has_numeric_value :
  match vssrc_ScaledCounts__has_numeric_value with
  | Some e => forall vals counts srt,
      veval (env_strand vals counts srt) e = VBV (map negb (map is_nan vals))
  | None => True
  end.
Proof. exact gen_stripe_ScaledCounts__has_numeric_value. Qed.
Print Assumptions C14_gen_stripe_ScaledCounts__has_numeric_value.

Theorem C14_gen_stripe_ScaledCounts__numeric_values :
  match vssrc_ScaledCounts__numeric_values with
  | Some e => forall vals counts srt, List.length counts = List.length vals ->
      veval (env_strand vals counts srt) e = VV (map fst (valued_pairs vals counts))
  | None => True
  end.
Proof. exact gen_stripe_ScaledCounts__numeric_values. Qed.
Print Assumptions C14_gen_stripe_ScaledCounts__numeric_values.

Theorem C14_gen_stripe_ScaledCounts__weighted_counts :
  match vssrc_ScaledCounts__weighted_counts with
  | Some e => forall vals counts srt, List.length counts = List.length vals ->
      veval (env_strand vals counts srt) e = VV (map snd (valued_pairs vals counts))
  | None => True
  end.
Proof. exact gen_stripe_ScaledCounts__weighted_counts. Qed.
Print Assumptions C14_gen_stripe_ScaledCounts__weighted_counts.

Theorem C14_gen_stripe_ScaledCounts__total_weighted_count :
  match vssrc_ScaledCounts__total_weighted_count with
  | Some e => forall vals counts srt, List.length counts = List.length vals ->
      veval (env_strand vals counts srt) e = VS (strand_total counts vals)
  | None => True
  end.
Proof. exact gen_stripe_ScaledCounts__total_weighted_count. Qed.
Print Assumptions C14_gen_stripe_ScaledCounts__total_weighted_count.

Theorem C14_gen_stripe_ScaledCounts__total_scaled_count :
  match vssrc_ScaledCounts__total_scaled_count with
  | Some e => forall vals counts srt, List.length counts = List.length vals ->
      veval (env_strand vals counts srt) e
      = VS (xsum (map (fun vc => xmul (snd vc) (fst vc)) (valued_pairs vals counts)))
  | None => True
  end.
Proof. exact gen_stripe_ScaledCounts__total_scaled_count. Qed.
Print Assumptions C14_gen_stripe_ScaledCounts__total_scaled_count.

Theorem C14_gen_stripe_ScaledCounts_scale_mean :
  match vssrc_ScaledCounts_scale_mean with
  | Some e => forall vals counts srt, List.length counts = List.length vals ->
      veval (env_strand vals counts srt) e = opt_val (strand_scale_mean counts vals)
  | None => True
  end.
Proof. exact gen_stripe_ScaledCounts_scale_mean. Qed.
Print Assumptions C14_gen_stripe_ScaledCounts_scale_mean.

Theorem C14_gen_stripe_ScaledCounts__scale_variance :
  match vssrc_ScaledCounts__scale_variance with
  | Some e => forall vals counts srt, List.length counts = List.length vals ->
      veval (env_strand vals counts srt) e = opt_val (strand_scale_var counts vals)
  | None => True
  end.
Proof. exact gen_stripe_ScaledCounts__scale_variance. Qed.
Print Assumptions C14_gen_stripe_ScaledCounts__scale_variance.

Theorem C14_gen_stripe_ScaledCounts_scale_stddev :
  match vssrc_ScaledCounts_scale_stddev with
  | Some e => forall vals counts srt, List.length counts = List.length vals ->
      veval (env_strand vals counts srt) e = opt_root (strand_scale_stddev_sq counts vals)
  | None => True
  end.
Proof. exact gen_stripe_ScaledCounts_scale_stddev. Qed.
Print Assumptions C14_gen_stripe_ScaledCounts_scale_stddev.

Theorem C14_gen_stripe_ScaledCounts_scale_stderr :
  match vssrc_ScaledCounts_scale_stderr with
  | Some e => forall vals counts srt, List.length counts = List.length vals ->
      veval (env_strand vals counts srt) e = opt_root (strand_scale_stderr_sq counts vals)
  | None => True
  end.
Proof. exact gen_stripe_ScaledCounts_scale_stderr. Qed.
Print Assumptions C14_gen_stripe_ScaledCounts_scale_stderr.

Theorem C14_gen_stripe_ScaledCounts_scale_median :
  match vssrc_ScaledCounts_scale_median with
  | Some e => forall vals counts srt, List.length counts = List.length vals ->
      Forall finite_or_nan vals -> Forall nonneg_count counts ->
      veval (env_strand vals counts srt) e = opt_val (strand_scale_median counts vals)
  | None => True
  end.
Proof. exact gen_stripe_ScaledCounts_scale_median. Qed.
Print Assumptions C14_gen_stripe_ScaledCounts_scale_median.

Theorem C14_gen_Slice_columns_scale_mean_margin :
  match vpsrc_Slice_columns_scale_mean_margin with
  | Some e => forall nc rb rvals cvals srt, 0 < nc -> List.length rb = List.length rvals ->
      veval (env_part (cmargin_attrs nc rb rvals cvals) srt) e
      = opt_val (columns_scale_mean_margin rb rvals)
  | None => True
  end.
Proof. exact gen_Slice_columns_scale_mean_margin. Qed.
Print Assumptions C14_gen_Slice_columns_scale_mean_margin.

Theorem C14_gen_Slice_rows_scale_mean_margin :
  match vpsrc_Slice_rows_scale_mean_margin with
  | Some e => forall nc cb rvals cvals srt, 0 < List.length cb -> List.length (mrow cb 0) = List.length cvals ->
      veval (env_part (rmargin_attrs nc cb rvals cvals) srt) e
      = opt_val (rows_scale_mean_margin cb cvals)
  | None => True
  end.
Proof. exact gen_Slice_rows_scale_mean_margin. Qed.
Print Assumptions C14_gen_Slice_rows_scale_mean_margin.

Theorem C14_gen_Slice_columns_scale_median_margin :
  match vpsrc_Slice_columns_scale_median_margin with
  | Some e => forall nc rb rvals cvals srt, 0 < nc -> List.length rb = List.length rvals ->
      Forall finite_or_nan rvals -> Forall nonneg_count (mcol rb 0) ->
      veval (env_part (cmargin_attrs nc rb rvals cvals) srt) e
      = opt_val (columns_scale_median_margin rb rvals)
  | None => True
  end.
Proof. exact gen_Slice_columns_scale_median_margin. Qed.
Print Assumptions C14_gen_Slice_columns_scale_median_margin.

Theorem C14_gen_Slice_rows_scale_median_margin :
  match vpsrc_Slice_rows_scale_median_margin with
  | Some e => forall nc cb rvals cvals srt, 0 < List.length cb -> List.length (mrow cb 0) = List.length cvals ->
      Forall finite_or_nan cvals -> Forall nonneg_count (mrow cb 0) ->
      veval (env_part (rmargin_attrs nc cb rvals cvals) srt) e
      = opt_val (rows_scale_median_margin cb cvals)
  | None => True
  end.
Proof. exact gen_Slice_rows_scale_median_margin. Qed.
Print Assumptions C14_gen_Slice_rows_scale_median_margin.

Theorem C14_gen_Slice_has_scale_means :
  match vpsrc_Slice_has_scale_means with
  | Some e => forall v srt, v <> VErr ->
      veval (env_part [("columns_scale_mean", v)] srt) e = VB (not_none v)
  | None => True
  end.
Proof. exact gen_Slice_has_scale_means. Qed.
Print Assumptions C14_gen_Slice_has_scale_means.

Theorem C14_gen_Strand_has_scale_means :
  match vpsrc_Strand_has_scale_means with
  | Some e => forall v srt, v <> VErr ->
      veval (env_part [("scale_mean", v)] srt) e = VB (not_none v)
  | None => True
  end.
Proof. exact gen_Strand_has_scale_means. Qed.
Print Assumptions C14_gen_Strand_has_scale_means.

Theorem C14_gen_Slice__rows_dimension_numeric_values :
  match vpsrc_Slice__rows_dimension_numeric_values with
  | Some e => forall rvals cvals rorder corder rest srt, order_ok (List.length rvals) rorder ->
      veval (env_part (disp_attrs rvals cvals rorder corder rest) srt) e = VV (display_values rvals rorder)
  | None => True
  end.
Proof. exact gen_Slice__rows_dimension_numeric_values. Qed.
Print Assumptions C14_gen_Slice__rows_dimension_numeric_values.

Theorem C14_gen_Slice__columns_dimension_numeric_values :
  match vpsrc_Slice__columns_dimension_numeric_values with
  | Some e => forall rvals cvals rorder corder rest srt, order_ok (List.length cvals) corder ->
      veval (env_part (disp_attrs rvals cvals rorder corder rest) srt) e = VV (display_values cvals corder)
  | None => True
  end.
Proof. exact gen_Slice__columns_dimension_numeric_values. Qed.
Print Assumptions C14_gen_Slice__columns_dimension_numeric_values.

Theorem C14_gen_Slice__rows_have_numeric_value :
  match vpsrc_Slice__rows_have_numeric_value with
  | Some e => forall rvals cvals rorder corder rest srt, order_ok (List.length rvals) rorder ->
      veval (env_part (disp_attrs rvals cvals rorder corder rest) srt) e = VB (display_have_value rvals rorder)
  | None => True
  end.
Proof. exact gen_Slice__rows_have_numeric_value. Qed.
Print Assumptions C14_gen_Slice__rows_have_numeric_value.

Theorem C14_gen_Slice__columns_have_numeric_value :
  match vpsrc_Slice__columns_have_numeric_value with
  | Some e => forall rvals cvals rorder corder rest srt, order_ok (List.length cvals) corder ->
      veval (env_part (disp_attrs rvals cvals rorder corder rest) srt) e = VB (display_have_value cvals corder)
  | None => True
  end.
Proof. exact gen_Slice__columns_have_numeric_value. Qed.
Print Assumptions C14_gen_Slice__columns_have_numeric_value.

Theorem C14_gen_Slice__columns_scale_mean_variance :
  match vpsrc_Slice__columns_scale_mean_variance with
  | Some e => forall nc counts means rvals cvals rorder corder srt,
      order_ok (List.length rvals) rorder -> wf_mat nc counts ->
      List.length counts = List.length rorder -> List.length means = nc -> 0 < nc ->
      veval (env_part (disp_attrs rvals cvals rorder corder
                         [("counts", VM nc counts); ("columns_scale_mean", VV means)]) srt) e
      = opt_vec (display_scale_variance nc counts (display_values rvals rorder) means)
  | None => True
  end.
Proof. exact gen_Slice__columns_scale_mean_variance. Qed.
Print Assumptions C14_gen_Slice__columns_scale_mean_variance.

Theorem C14_display_values_nth vals order k : k < List.length order ->
  let z := nth k order 0%Z in
  ((z < 0)%Z -> vnth (display_values vals order) k = NaN) /\
  ((0 <= z)%Z -> vnth (display_values vals order) k = vnth vals (Z.to_nat z)).
Proof. exact (display_values_nth vals order k). Qed.
Print Assumptions C14_display_values_nth.

Theorem C14_display_have_value_iff vals order :
  display_have_value vals order = true <->
  exists z, In z order /\ (0 <= z)%Z /\ is_nan (vnth vals (Z.to_nat z)) = false.
Proof. exact (display_have_value_iff vals order). Qed.
Print Assumptions C14_display_have_value_iff.

Theorem C14_display_scale_variance_some nc counts dvals means j : any_value dvals = true -> j < nc ->
  exists l, display_scale_variance nc counts dvals means = Some l /\ List.length l = nc /\
            vnth l j = scale_var (mcol counts j) dvals (vnth means j).
Proof. exact (display_scale_variance_some nc counts dvals means j). Qed.
Print Assumptions C14_display_scale_variance_some.

Theorem C14_display_scale_variance_none nc counts dvals means :
  display_scale_variance nc counts dvals means = None <-> any_value dvals = false.
Proof. exact (display_scale_variance_none nc counts dvals means). Qed.
Print Assumptions C14_display_scale_variance_none.

(* non-vacuity: the translated `_weighted_mean` on proportions 1/4 1/4 1/2, values 1 - 3 *)
Example C14_gen_example :
  match vsrc_ScaleMean__weighted_mean with
  | Some e =>
      veval (mkVenv (var2 "proportions" (VV [Fin (Qmake 1 4); Fin (Qmake 1 4); Fin (Qmake 1 2)])
                          "values" (VV [Fin 1%Q; NaN; Fin 3%Q])) no_var no_get no_call no_argsort) e
      = VS (wmean [Fin (Qmake 1 4); Fin (Qmake 1 4); Fin (Qmake 1 2)] [Fin 1%Q; NaN; Fin 3%Q])
      /\ wmean [Fin (Qmake 1 4); Fin (Qmake 1 4); Fin (Qmake 1 2)] [Fin 1%Q; NaN; Fin 3%Q] =x= Fin (Qmake 7 3)
  | None => True
  end.
Proof. vm_compute. first [exact I | split; reflexivity]. Qed.

End GenAgreeXScale_C14.
(* ==== END x_scale appendix ==== *)

(* ---- WIRING-APPENDIX:BEGIN (generated by tools/gen_wiring_props.py; do not edit) ---- *)
From CC Require Proofs.GenAgreeWiring_C14.
Section Wiring_C14.
Import Coq.Lists.List Coq.ZArith.ZArith Coq.Strings.String CC.Base.WiringExp CC.Gen.WiringSrc.
Import ListNotations.
Local Open Scope string_scope.

Theorem C14_wiring_Slice_columns_scale_mean :
  wsrc_Slice_columns_scale_mean = Some (w_marginal_of "columns_scale_mean").
Proof. exact Proofs.GenAgreeWiring_C14.gen_wiring_Slice_columns_scale_mean. Qed.
Print Assumptions C14_wiring_Slice_columns_scale_mean.

Theorem C14_wiring_Slice_columns_scale_mean_margin :
  wsrc_Slice_columns_scale_mean_margin = Some (WIf (WCall (WAttr (WGlobal "np") "all") [WCall (WAttr
      (WGlobal "np") "isnan") [WCall (WAttr (WGlobal "np") "array") [WAttr (WSelf "_rows_dimension")
      "numeric_values"] [("dtype", WAttr (WGlobal "np") "float64")]] []] []) (WNone) (WBin "/"
      (WCall (WAttr (WGlobal "np") "nansum") [WBin "*" (WCall (WAttr (WGlobal "np") "array") [WAttr
      (WSelf "_rows_dimension") "numeric_values"] [("dtype", WAttr (WGlobal "np") "float64")])
      (WIndex (WIndex (WIndex (WAttr (WAttr (WSelf "_measures") "row_weighted_bases") "blocks")
      [WInt (0)%Z]) [WInt (0)%Z]) [WSlice (WNone) (WNone); WInt (0)%Z])] []) (WCall (WAttr (WGlobal
      "np") "sum") [WIndex (WIndex (WIndex (WIndex (WAttr (WAttr (WSelf "_measures")
      "row_weighted_bases") "blocks") [WInt (0)%Z]) [WInt (0)%Z]) [WSlice (WNone) (WNone); WInt
      (0)%Z]) [WUn "~" (WCall (WAttr (WGlobal "np") "isnan") [WCall (WAttr (WGlobal "np") "array")
      [WAttr (WSelf "_rows_dimension") "numeric_values"] [("dtype", WAttr (WGlobal "np")
      "float64")]] [])]] []))).
Proof. exact Proofs.GenAgreeWiring_C14.gen_wiring_Slice_columns_scale_mean_margin. Qed.
Print Assumptions C14_wiring_Slice_columns_scale_mean_margin.

Theorem C14_wiring_Slice_columns_scale_mean_stddev :
  wsrc_Slice_columns_scale_mean_stddev = Some (w_marginal_of "columns_scale_mean_stddev").
Proof. exact Proofs.GenAgreeWiring_C14.gen_wiring_Slice_columns_scale_mean_stddev. Qed.
Print Assumptions C14_wiring_Slice_columns_scale_mean_stddev.

Theorem C14_wiring_Slice_columns_scale_mean_stderr :
  wsrc_Slice_columns_scale_mean_stderr = Some (w_marginal_of "columns_scale_mean_stderr").
Proof. exact Proofs.GenAgreeWiring_C14.gen_wiring_Slice_columns_scale_mean_stderr. Qed.
Print Assumptions C14_wiring_Slice_columns_scale_mean_stderr.

Theorem C14_wiring_Slice_columns_scale_median :
  wsrc_Slice_columns_scale_median = Some (w_marginal_of "columns_scale_median").
Proof. exact Proofs.GenAgreeWiring_C14.gen_wiring_Slice_columns_scale_median. Qed.
Print Assumptions C14_wiring_Slice_columns_scale_median.

Theorem C14_wiring_Slice_columns_scale_median_margin :
  wsrc_Slice_columns_scale_median_margin = Some (WIf (WCall (WAttr (WGlobal "np") "all") [WCall (WAttr
      (WGlobal "np") "isnan") [WCall (WAttr (WGlobal "np") "array") [WAttr (WSelf "_rows_dimension")
      "numeric_values"] [("dtype", WAttr (WGlobal "np") "float64")]] []] []) (WNone) (WIf (WCmp "!="
      (WAttr (WCall (WAttr (WGlobal "np") "repeat") [WIndex (WCall (WAttr (WGlobal "np") "array")
      [WAttr (WSelf "_rows_dimension") "numeric_values"] [("dtype", WAttr (WGlobal "np")
      "float64")]) [WUn "~" (WCall (WAttr (WGlobal "np") "isnan") [WCall (WAttr (WGlobal "np")
      "array") [WAttr (WSelf "_rows_dimension") "numeric_values"] [("dtype", WAttr (WGlobal "np")
      "float64")]] [])]; WCall (WAttr (WCall (WAttr (WGlobal "np") "nan_to_num") [WIndex (WIndex
      (WIndex (WIndex (WAttr (WAttr (WSelf "_measures") "row_weighted_bases") "blocks") [WInt
      (0)%Z]) [WInt (0)%Z]) [WSlice (WNone) (WNone); WInt (0)%Z]) [WUn "~" (WCall (WAttr (WGlobal
      "np") "isnan") [WCall (WAttr (WGlobal "np") "array") [WAttr (WSelf "_rows_dimension")
      "numeric_values"] [("dtype", WAttr (WGlobal "np") "float64")]] [])]] []) "astype") [WStr
      "int64"] []] []) "size") (WInt (0)%Z)) (WCall (WAttr (WGlobal "np") "median") [WCall (WAttr
      (WGlobal "np") "repeat") [WIndex (WCall (WAttr (WGlobal "np") "array") [WAttr (WSelf
      "_rows_dimension") "numeric_values"] [("dtype", WAttr (WGlobal "np") "float64")]) [WUn "~"
      (WCall (WAttr (WGlobal "np") "isnan") [WCall (WAttr (WGlobal "np") "array") [WAttr (WSelf
      "_rows_dimension") "numeric_values"] [("dtype", WAttr (WGlobal "np") "float64")]] [])]; WCall
      (WAttr (WCall (WAttr (WGlobal "np") "nan_to_num") [WIndex (WIndex (WIndex (WIndex (WAttr
      (WAttr (WSelf "_measures") "row_weighted_bases") "blocks") [WInt (0)%Z]) [WInt (0)%Z]) [WSlice
      (WNone) (WNone); WInt (0)%Z]) [WUn "~" (WCall (WAttr (WGlobal "np") "isnan") [WCall (WAttr
      (WGlobal "np") "array") [WAttr (WSelf "_rows_dimension") "numeric_values"] [("dtype", WAttr
      (WGlobal "np") "float64")]] [])]] []) "astype") [WStr "int64"] []] []] []) (WNone))).
Proof. exact Proofs.GenAgreeWiring_C14.gen_wiring_Slice_columns_scale_median_margin. Qed.
Print Assumptions C14_wiring_Slice_columns_scale_median_margin.

Theorem C14_wiring_Slice_has_scale_means :
  wsrc_Slice_has_scale_means = Some (WIf (WCmp "is not" (WSelf "columns_scale_mean") (WNone)) (WTrue)
      (WFalse)).
Proof. exact Proofs.GenAgreeWiring_C14.gen_wiring_Slice_has_scale_means. Qed.
Print Assumptions C14_wiring_Slice_has_scale_means.

Theorem C14_wiring_Slice_rows_scale_mean :
  wsrc_Slice_rows_scale_mean = Some (w_marginal_of "rows_scale_mean").
Proof. exact Proofs.GenAgreeWiring_C14.gen_wiring_Slice_rows_scale_mean. Qed.
Print Assumptions C14_wiring_Slice_rows_scale_mean.

Theorem C14_wiring_Slice_rows_scale_mean_margin :
  wsrc_Slice_rows_scale_mean_margin = Some (WIf (WCall (WAttr (WGlobal "np") "all") [WCall (WAttr
      (WGlobal "np") "isnan") [WCall (WAttr (WGlobal "np") "array") [WAttr (WIndex (WSelf
      "_dimensions") [WInt (1)%Z]) "numeric_values"] [("dtype", WAttr (WGlobal "np") "float64")]]
      []] []) (WNone) (WBin "/" (WCall (WAttr (WGlobal "np") "nansum") [WBin "*" (WCall (WAttr
      (WGlobal "np") "array") [WAttr (WIndex (WSelf "_dimensions") [WInt (1)%Z]) "numeric_values"]
      [("dtype", WAttr (WGlobal "np") "float64")]) (WIndex (WIndex (WIndex (WAttr (WAttr (WSelf
      "_measures") "column_weighted_bases") "blocks") [WInt (0)%Z]) [WInt (0)%Z]) [WInt (0)%Z;
      WSlice (WNone) (WNone)])] []) (WCall (WAttr (WGlobal "np") "sum") [WIndex (WIndex (WIndex
      (WIndex (WAttr (WAttr (WSelf "_measures") "column_weighted_bases") "blocks") [WInt (0)%Z])
      [WInt (0)%Z]) [WInt (0)%Z; WSlice (WNone) (WNone)]) [WUn "~" (WCall (WAttr (WGlobal "np")
      "isnan") [WCall (WAttr (WGlobal "np") "array") [WAttr (WIndex (WSelf "_dimensions") [WInt
      (1)%Z]) "numeric_values"] [("dtype", WAttr (WGlobal "np") "float64")]] [])]] []))).
Proof. exact Proofs.GenAgreeWiring_C14.gen_wiring_Slice_rows_scale_mean_margin. Qed.
Print Assumptions C14_wiring_Slice_rows_scale_mean_margin.

Theorem C14_wiring_Slice_rows_scale_mean_stddev :
  wsrc_Slice_rows_scale_mean_stddev = Some (w_marginal_of "rows_scale_mean_stddev").
Proof. exact Proofs.GenAgreeWiring_C14.gen_wiring_Slice_rows_scale_mean_stddev. Qed.
Print Assumptions C14_wiring_Slice_rows_scale_mean_stddev.

Theorem C14_wiring_Slice_rows_scale_mean_stderr :
  wsrc_Slice_rows_scale_mean_stderr = Some (w_marginal_of "rows_scale_mean_stderr").
Proof. exact Proofs.GenAgreeWiring_C14.gen_wiring_Slice_rows_scale_mean_stderr. Qed.
Print Assumptions C14_wiring_Slice_rows_scale_mean_stderr.

Theorem C14_wiring_Slice_rows_scale_median :
  wsrc_Slice_rows_scale_median = Some (w_marginal_of "rows_scale_median").
Proof. exact Proofs.GenAgreeWiring_C14.gen_wiring_Slice_rows_scale_median. Qed.
Print Assumptions C14_wiring_Slice_rows_scale_median.

Theorem C14_wiring_Slice_rows_scale_median_margin :
  wsrc_Slice_rows_scale_median_margin = Some (WIf (WCall (WAttr (WGlobal "np") "all") [WCall (WAttr
      (WGlobal "np") "isnan") [WCall (WAttr (WGlobal "np") "array") [WAttr (WIndex (WSelf
      "_dimensions") [WInt (1)%Z]) "numeric_values"] [("dtype", WAttr (WGlobal "np") "float64")]]
      []] []) (WNone) (WIf (WCmp "!=" (WAttr (WCall (WAttr (WGlobal "np") "repeat") [WIndex (WCall
      (WAttr (WGlobal "np") "array") [WAttr (WIndex (WSelf "_dimensions") [WInt (1)%Z])
      "numeric_values"] [("dtype", WAttr (WGlobal "np") "float64")]) [WUn "~" (WCall (WAttr (WGlobal
      "np") "isnan") [WCall (WAttr (WGlobal "np") "array") [WAttr (WIndex (WSelf "_dimensions")
      [WInt (1)%Z]) "numeric_values"] [("dtype", WAttr (WGlobal "np") "float64")]] [])]; WCall
      (WAttr (WCall (WAttr (WGlobal "np") "nan_to_num") [WIndex (WIndex (WIndex (WIndex (WAttr
      (WAttr (WSelf "_measures") "column_weighted_bases") "blocks") [WInt (0)%Z]) [WInt (0)%Z])
      [WInt (0)%Z; WSlice (WNone) (WNone)]) [WUn "~" (WCall (WAttr (WGlobal "np") "isnan") [WCall
      (WAttr (WGlobal "np") "array") [WAttr (WIndex (WSelf "_dimensions") [WInt (1)%Z])
      "numeric_values"] [("dtype", WAttr (WGlobal "np") "float64")]] [])]] []) "astype") [WStr
      "int64"] []] []) "size") (WInt (0)%Z)) (WCall (WAttr (WGlobal "np") "median") [WCall (WAttr
      (WGlobal "np") "repeat") [WIndex (WCall (WAttr (WGlobal "np") "array") [WAttr (WIndex (WSelf
      "_dimensions") [WInt (1)%Z]) "numeric_values"] [("dtype", WAttr (WGlobal "np") "float64")])
      [WUn "~" (WCall (WAttr (WGlobal "np") "isnan") [WCall (WAttr (WGlobal "np") "array") [WAttr
      (WIndex (WSelf "_dimensions") [WInt (1)%Z]) "numeric_values"] [("dtype", WAttr (WGlobal "np")
      "float64")]] [])]; WCall (WAttr (WCall (WAttr (WGlobal "np") "nan_to_num") [WIndex (WIndex
      (WIndex (WIndex (WAttr (WAttr (WSelf "_measures") "column_weighted_bases") "blocks") [WInt
      (0)%Z]) [WInt (0)%Z]) [WInt (0)%Z; WSlice (WNone) (WNone)]) [WUn "~" (WCall (WAttr (WGlobal
      "np") "isnan") [WCall (WAttr (WGlobal "np") "array") [WAttr (WIndex (WSelf "_dimensions")
      [WInt (1)%Z]) "numeric_values"] [("dtype", WAttr (WGlobal "np") "float64")]] [])]] [])
      "astype") [WStr "int64"] []] []] []) (WNone))).
Proof. exact Proofs.GenAgreeWiring_C14.gen_wiring_Slice_rows_scale_median_margin. Qed.
Print Assumptions C14_wiring_Slice_rows_scale_median_margin.

Theorem C14_wiring_Slice__columns_dimension_numeric_values :
  wsrc_Slice__columns_dimension_numeric_values = Some (WCall (WAttr (WGlobal "np") "array") [WComp
      "list" (WIf (WCmp ">=" (WVar "idx") (WInt (0)%Z)) (WAttr (WIndex (WAttr (WIndex (WSelf
      "_dimensions") [WInt (1)%Z]) "valid_elements") [WVar "idx"]) "numeric_value") (WNaN))
      [(["idx"], WSelf "_column_order_signed_indexes", [])]] []).
Proof. exact Proofs.GenAgreeWiring_C14.gen_wiring_Slice__columns_dimension_numeric_values. Qed.
Print Assumptions C14_wiring_Slice__columns_dimension_numeric_values.

Theorem C14_wiring_Slice__columns_have_numeric_value :
  wsrc_Slice__columns_have_numeric_value = Some (WUn "not" (WCall (WAttr (WGlobal "np") "all") [WCall
      (WAttr (WGlobal "np") "isnan") [WSelf "_columns_dimension_numeric_values"] []] [])).
Proof. exact Proofs.GenAgreeWiring_C14.gen_wiring_Slice__columns_have_numeric_value. Qed.
Print Assumptions C14_wiring_Slice__columns_have_numeric_value.

Theorem C14_wiring_Slice__columns_scale_mean_variance :
  wsrc_Slice__columns_scale_mean_variance = Some (WIf (WUn "not" (WSelf "_rows_have_numeric_value"))
      (WNone) (WBin "/" (WCall (WAttr (WGlobal "np") "nansum") [WBin "*" (WIndex (WSelf "counts")
      [WUn "~" (WCall (WAttr (WGlobal "np") "isnan") [WSelf "_rows_dimension_numeric_values"] []);
      WSlice (WNone) (WNone)]) (WAttr (WCall (WGlobal "pow") [WBin "-" (WCall (WAttr (WGlobal "np")
      "broadcast_to") [WIndex (WSelf "_rows_dimension_numeric_values") [WUn "~" (WCall (WAttr
      (WGlobal "np") "isnan") [WSelf "_rows_dimension_numeric_values"] [])]; WAttr (WAttr (WIndex
      (WSelf "counts") [WUn "~" (WCall (WAttr (WGlobal "np") "isnan") [WSelf
      "_rows_dimension_numeric_values"] []); WSlice (WNone) (WNone)]) "T") "shape"] []) (WCall
      (WAttr (WSelf "columns_scale_mean") "reshape") [WInt (-1)%Z; WInt (1)%Z] []); WInt (2)%Z] [])
      "T")] [("axis", WInt (0)%Z)]) (WCall (WAttr (WGlobal "np") "sum") [WIndex (WSelf "counts")
      [WUn "~" (WCall (WAttr (WGlobal "np") "isnan") [WSelf "_rows_dimension_numeric_values"] []);
      WSlice (WNone) (WNone)]] [("axis", WInt (0)%Z)]))).
Proof. exact Proofs.GenAgreeWiring_C14.gen_wiring_Slice__columns_scale_mean_variance. Qed.
Print Assumptions C14_wiring_Slice__columns_scale_mean_variance.

Theorem C14_wiring_Slice__rows_dimension_numeric_values :
  wsrc_Slice__rows_dimension_numeric_values = Some (WCall (WAttr (WGlobal "np") "array") [WComp "list"
      (WIf (WCmp ">=" (WVar "idx") (WInt (0)%Z)) (WAttr (WIndex (WAttr (WSelf "_rows_dimension")
      "valid_elements") [WVar "idx"]) "numeric_value") (WNaN)) [(["idx"], WSelf
      "_row_order_signed_indexes", [])]] []).
Proof. exact Proofs.GenAgreeWiring_C14.gen_wiring_Slice__rows_dimension_numeric_values. Qed.
Print Assumptions C14_wiring_Slice__rows_dimension_numeric_values.

Theorem C14_wiring_Slice__rows_have_numeric_value :
  wsrc_Slice__rows_have_numeric_value = Some (WUn "not" (WCall (WAttr (WGlobal "np") "all") [WCall
      (WAttr (WGlobal "np") "isnan") [WSelf "_rows_dimension_numeric_values"] []] [])).
Proof. exact Proofs.GenAgreeWiring_C14.gen_wiring_Slice__rows_have_numeric_value. Qed.
Print Assumptions C14_wiring_Slice__rows_have_numeric_value.

Theorem C14_wiring_Strand_has_scale_means :
  wsrc_Strand_has_scale_means = Some (WIf (WCmp "is not" (WSelf "scale_mean") (WNone)) (WTrue)
      (WFalse)).
Proof. exact Proofs.GenAgreeWiring_C14.gen_wiring_Strand_has_scale_means. Qed.
Print Assumptions C14_wiring_Strand_has_scale_means.

Theorem C14_wiring_Strand_scale_mean :
  wsrc_Strand_scale_mean = Some (WAttr (WAttr (WSelf "_measures") "scaled_counts") "scale_mean").
Proof. exact Proofs.GenAgreeWiring_C14.gen_wiring_Strand_scale_mean. Qed.
Print Assumptions C14_wiring_Strand_scale_mean.

Theorem C14_wiring_Strand_scale_median :
  wsrc_Strand_scale_median = Some (WAttr (WAttr (WSelf "_measures") "scaled_counts") "scale_median").
Proof. exact Proofs.GenAgreeWiring_C14.gen_wiring_Strand_scale_median. Qed.
Print Assumptions C14_wiring_Strand_scale_median.

Theorem C14_wiring_Strand_scale_std_dev :
  wsrc_Strand_scale_std_dev = Some (WAttr (WAttr (WSelf "_measures") "scaled_counts") "scale_stddev").
Proof. exact Proofs.GenAgreeWiring_C14.gen_wiring_Strand_scale_std_dev. Qed.
Print Assumptions C14_wiring_Strand_scale_std_dev.

Theorem C14_wiring_Strand_scale_std_err :
  wsrc_Strand_scale_std_err = Some (WAttr (WAttr (WSelf "_measures") "scaled_counts") "scale_stderr").
Proof. exact Proofs.GenAgreeWiring_C14.gen_wiring_Strand_scale_std_err. Qed.
Print Assumptions C14_wiring_Strand_scale_std_err.

Theorem C14_wiring_SecondOrderMeasures_columns_scale_mean :
  wsrc_SecondOrderMeasures_columns_scale_mean = Some (WCall (WGlobal "_ScaleMean") [WSelf
      "_dimensions"; WVar "self"; WSelf "_cube_measures"; WAttr (WGlobal "MO") "COLUMNS"] []).
Proof. exact Proofs.GenAgreeWiring_C14.gen_wiring_SecondOrderMeasures_columns_scale_mean. Qed.
Print Assumptions C14_wiring_SecondOrderMeasures_columns_scale_mean.

Theorem C14_wiring_SecondOrderMeasures_columns_scale_mean_stddev :
  wsrc_SecondOrderMeasures_columns_scale_mean_stddev = Some (WCall (WGlobal "_ScaleMeanStddev") [WSelf
      "_dimensions"; WVar "self"; WSelf "_cube_measures"; WAttr (WGlobal "MO") "COLUMNS"] []).
Proof. exact Proofs.GenAgreeWiring_C14.gen_wiring_SecondOrderMeasures_columns_scale_mean_stddev. Qed.
Print Assumptions C14_wiring_SecondOrderMeasures_columns_scale_mean_stddev.

Theorem C14_wiring_SecondOrderMeasures_columns_scale_mean_stderr :
  wsrc_SecondOrderMeasures_columns_scale_mean_stderr = Some (WCall (WGlobal "_ScaleMeanStderr") [WSelf
      "_dimensions"; WVar "self"; WSelf "_cube_measures"; WAttr (WGlobal "MO") "COLUMNS"] []).
Proof. exact Proofs.GenAgreeWiring_C14.gen_wiring_SecondOrderMeasures_columns_scale_mean_stderr. Qed.
Print Assumptions C14_wiring_SecondOrderMeasures_columns_scale_mean_stderr.

Theorem C14_wiring_SecondOrderMeasures_columns_scale_median :
  wsrc_SecondOrderMeasures_columns_scale_median = Some (WCall (WGlobal "_ScaleMedian") [WSelf
      "_dimensions"; WVar "self"; WSelf "_cube_measures"; WAttr (WGlobal "MO") "COLUMNS"] []).
Proof. exact Proofs.GenAgreeWiring_C14.gen_wiring_SecondOrderMeasures_columns_scale_median. Qed.
Print Assumptions C14_wiring_SecondOrderMeasures_columns_scale_median.

Theorem C14_wiring_SecondOrderMeasures_rows_scale_mean :
  wsrc_SecondOrderMeasures_rows_scale_mean = Some (WCall (WGlobal "_ScaleMean") [WSelf "_dimensions";
      WVar "self"; WSelf "_cube_measures"; WAttr (WGlobal "MO") "ROWS"] []).
Proof. exact Proofs.GenAgreeWiring_C14.gen_wiring_SecondOrderMeasures_rows_scale_mean. Qed.
Print Assumptions C14_wiring_SecondOrderMeasures_rows_scale_mean.

Theorem C14_wiring_SecondOrderMeasures_rows_scale_mean_stddev :
  wsrc_SecondOrderMeasures_rows_scale_mean_stddev = Some (WCall (WGlobal "_ScaleMeanStddev") [WSelf
      "_dimensions"; WVar "self"; WSelf "_cube_measures"; WAttr (WGlobal "MO") "ROWS"] []).
Proof. exact Proofs.GenAgreeWiring_C14.gen_wiring_SecondOrderMeasures_rows_scale_mean_stddev. Qed.
Print Assumptions C14_wiring_SecondOrderMeasures_rows_scale_mean_stddev.

Theorem C14_wiring_SecondOrderMeasures_rows_scale_mean_stderr :
  wsrc_SecondOrderMeasures_rows_scale_mean_stderr = Some (WCall (WGlobal "_ScaleMeanStderr") [WSelf
      "_dimensions"; WVar "self"; WSelf "_cube_measures"; WAttr (WGlobal "MO") "ROWS"] []).
Proof. exact Proofs.GenAgreeWiring_C14.gen_wiring_SecondOrderMeasures_rows_scale_mean_stderr. Qed.
Print Assumptions C14_wiring_SecondOrderMeasures_rows_scale_mean_stderr.

Theorem C14_wiring_SecondOrderMeasures_rows_scale_median :
  wsrc_SecondOrderMeasures_rows_scale_median = Some (WCall (WGlobal "_ScaleMedian") [WSelf
      "_dimensions"; WVar "self"; WSelf "_cube_measures"; WAttr (WGlobal "MO") "ROWS"] []).
Proof. exact Proofs.GenAgreeWiring_C14.gen_wiring_SecondOrderMeasures_rows_scale_median. Qed.
Print Assumptions C14_wiring_SecondOrderMeasures_rows_scale_median.

Theorem C14_wiring_StripeMeasures_scaled_counts :
  wsrc_StripeMeasures_scaled_counts = Some (WCall (WGlobal "_ScaledCounts") [WSelf "_rows_dimension";
      WVar "self"; WSelf "_cube_measures"] []).
Proof. exact Proofs.GenAgreeWiring_C14.gen_wiring_StripeMeasures_scaled_counts. Qed.
Print Assumptions C14_wiring_StripeMeasures_scaled_counts.

End Wiring_C14.
(* ---- WIRING-APPENDIX:END ---- *)

(*BEGIN GenAgreeDimType_C14*)
(* ------------------------------------------------------------------------------------ *)
(* SOURCE TEXT of the numeric values (harness/translate/x_dimtype.py, see the appendix of Props/C01.v):
   Element.numeric_value IS [numeric_value_of] and Dimension.numeric_values IS [numeric_values_jv] of
   Model/DimValues.v - one value per VALID element of the (re-arranged) type definition, NaN for an absent or null
   entry, 0 for 0 - which is the vector [vals] the theorems above take ([numeric_values] = its numbers).  The
   C14_dimvalues_* theorems say what the model definitions mean. *)
From CC Require Proofs.GenAgreeDimTypeNumeric Proofs.GenAgreeDimTypeComposeNumeric Proofs.DimValuesProofs.
Section GenAgreeDimType_C14.   (* scopes and imports below end with the section *)
Import Coq.Lists.List Coq.ZArith.ZArith Coq.Strings.String Coq.Bool.Bool CC.Base.XQ CC.Base.PyList CC.Base.PyDict
       CC.Model.DimType CC.Model.PyDimension CC.Model.PyDimType CC.Model.DimValues CC.Model.Smoothing
       CC.Gen.DimensionSrc CC.Gen.DimTypeSrc CC.Proofs.GenAgreeDimensionLib
       CC.Proofs.GenAgreeDimTypeLib CC.Proofs.GenAgreeDimTypeElems CC.Proofs.GenAgreeDimTypeOrder CC.Proofs.GenAgreeDimTypeNumeric CC.Proofs.GenAgreeDimTypeComposeNumeric CC.Proofs.DimValuesProofs.
Import Coq.Lists.List.ListNotations.
Local Close Scope Q_scope.
Local Open Scope Z_scope.
Local Open Scope string_scope.

Theorem C14_gen_dimtype_Element_numeric_value :
  match src_Element_numeric_value with
  | Some f => forall e idx xf t, f (mkPyElement (JDict e) idx xf t) = Ok (numeric_value_of e)
  | None => True end.
Proof. exact gen_dimtype_Element_numeric_value. Qed.
Print Assumptions C14_gen_dimtype_Element_numeric_value.

Theorem C14_gen_dimtype_Dimension_numeric_values :
  match src_Dimension_numeric_values, src_Dimension_valid_elements with
  | Some f, Some g => forall self els, g self = Ok els -> Forall el_is_dict els ->
      f self = Ok (map (fun el => def_numeric_value (el_element_dict el)) els)
  | _, _ => True end.
Proof. exact gen_dimtype_Dimension_numeric_values. Qed.
Print Assumptions C14_gen_dimtype_Dimension_numeric_values.

Theorem C14_gen_dimtype_Dimension_numeric_values_all :
  match src_Dimension_numeric_values, src_Dimension_valid_elements, src_Elements__hidden_transforms with
  | Some f, Some _, Some h => forall t dd tr ty defs rids ids o ax hid, dim_reads' t dd tr ty defs rids ids o ax ->
      (dtype_eqb t TMrSubvar = true ->
       h (JList (reorder rids defs o)) (jd_get_default tr (JStr "insertions") (JList [])) = Ok hid) ->
      f (mkPyDimension t (JDict dd) (JDict tr)) = Ok (numeric_values_jv (reorder rids defs o))
  | _, _, _ => True end.
Proof. exact gen_dimtype_Dimension_numeric_values_all. Qed.
Print Assumptions C14_gen_dimtype_Dimension_numeric_values_all.

Theorem C14_dimvalues_numeric_value_absent_is_nan e :
jget e "numeric_value" = None \/ jget e "numeric_value" = Some JNone ->
  xq_of_jv (numeric_value_of e) = NaN.
Proof. exact (numeric_value_absent_is_nan e). Qed.
Print Assumptions C14_dimvalues_numeric_value_absent_is_nan.

Theorem C14_dimvalues_numeric_value_int_is_kept e z :
jget e "numeric_value" = Some (JInt z) -> xq_of_jv (numeric_value_of e) = xofZ z.
Proof. exact (numeric_value_int_is_kept e z). Qed.
Print Assumptions C14_dimvalues_numeric_value_int_is_kept.

Theorem C14_dimvalues_numeric_value_zero_is_not_nan e :
jget e "numeric_value" = Some (JInt 0) -> is_nan (xq_of_jv (numeric_value_of e)) = false.
Proof. exact (numeric_value_zero_is_not_nan e). Qed.
Print Assumptions C14_dimvalues_numeric_value_zero_is_not_nan.

Theorem C14_dimvalues_numeric_values_length defs :
List.length (numeric_values defs) = List.length (valid_defs defs).
Proof. exact (numeric_values_length defs). Qed.
Print Assumptions C14_dimvalues_numeric_values_length.

Theorem C14_dimvalues_numeric_values_nth defs k :
(k < List.length (valid_defs defs))%nat ->
  nth k (numeric_values defs) NaN = xq_of_jv (def_numeric_value (nth k (valid_defs defs) JNone)).
Proof. exact (numeric_values_nth defs k). Qed.
Print Assumptions C14_dimvalues_numeric_values_nth.

Theorem C14_dimvalues_numeric_values_skip_missing l1 d l2 :
DimValues.def_missing d = true -> numeric_values (l1 ++ d :: l2) = numeric_values (l1 ++ l2).
Proof. exact (numeric_values_skip_missing l1 d l2). Qed.
Print Assumptions C14_dimvalues_numeric_values_skip_missing.

End GenAgreeDimType_C14.
(*END GenAgreeDimType_C14*)
