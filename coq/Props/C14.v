(* C14 - Scale mean, median, standard deviation and standard error from category numeric values.

   Model: Model/Scale.v (tied to matrix/measure.py::_ScaleMean/_ScaleMedian/_ScaleMeanStddev/
   _ScaleMeanStderr, stripe/measure.py::_ScaledCounts and cubepart.py::*_scale_*_margin by the
   correspondence check harness/props/c14.py).  Spec: Spec/Stats.v - weighted mean, population
   variance and median of the numeric values of the INDIVIDUAL respondents counted in a vector.
   Proofs: Proofs/ScaleProofs.v, ScaleMedianProofs.v, ScaleExpandProofs.v (and, historical only,
   ScaleMedianFixProofs.v).

   The model follows the code as repaired by dda43200 (median at an exact 50 % point averages
   with the next category that has counts) and 2ba43316 (strand scale_median is None when no
   response has a numeric value): the median theorems carry no side condition on where empty
   categories fall, and the strand median is None exactly when mean and deviations are.

   Reading guide.  [ovals : list (option Q)] numeric value of each category of the opposing
   dimension (None = no value); [rs] the respondents counted in the vector as (category, weight);
   [tally n rs] the count vector they tabulate to; [observations ovals rs] the (value, weight)
   pairs of the respondents whose category has a value.  Square roots are not modelled: the
   theorems speak about stddev^2 and stderr^2 (the check compares the squares).  *)
From Coq Require Import QArith ZArith List Bool Lia Arith Sorted Permutation.
From CC Require Import Base.XQ Base.ListX Spec.Stats Model.Scale
  Proofs.ScaleProofs Proofs.ScaleMedianProofs Proofs.ScaleExpandProofs Proofs.ScaleMedianFixProofs.
Import ListNotations.
Local Close Scope Q_scope.
Local Open Scope nat_scope.

(* ---- slice vectors (rows_/columns_scale_mean, _stddev, _stderr) ---------------------------------- *)

(* scale mean of a vector = weighted mean of the respondents' numeric values, whatever the
   (positive) weighted base the proportions were taken over *)
Theorem C14_scale_mean_eq ovals rs B :
  cats_below (length ovals) rs -> (0 < B)%Q ->
  ~ (wtotal (observations ovals rs) == 0)%Q ->
  scale_mean_vec (map Fin (tally (length ovals) rs)) (repeat (Fin B) (length ovals)) (map xval ovals)
  =x= Fin (wmean_spec (observations ovals rs)).
Proof. exact (scale_mean_eq ovals rs B). Qed.
Print Assumptions C14_scale_mean_eq.

(* NaN for a vector without numeric-valued respondents *)
Theorem C14_scale_mean_nan ovals rs B :
  cats_below (length ovals) rs -> nonneg_weights rs -> (0 < B)%Q ->
  (wtotal (observations ovals rs) == 0)%Q ->
  scale_mean_vec (map Fin (tally (length ovals) rs)) (repeat (Fin B) (length ovals)) (map xval ovals)
  =x= NaN.
Proof. exact (scale_mean_nan ovals rs B). Qed.
Print Assumptions C14_scale_mean_nan.

(* stddev^2 = population variance of the respondents' numeric values *)
Theorem C14_scale_var_eq ovals rs B :
  cats_below (length ovals) rs -> nonneg_weights rs -> (0 < B)%Q ->
  ~ (wtotal (observations ovals rs) == 0)%Q ->
  scale_var_vec false (map Fin (tally (length ovals) rs)) (repeat (Fin B) (length ovals)) (map xval ovals)
  =x= Fin (wvar_spec (observations ovals rs)).
Proof. exact (scale_var_eq ovals rs B). Qed.
Print Assumptions C14_scale_var_eq.

(* stderr^2 = that variance over the vector's weighted margin M ... *)
Theorem C14_scale_stderr_eq ovals rs B M :
  cats_below (length ovals) rs -> nonneg_weights rs -> (0 < B)%Q -> (0 < M)%Q ->
  ~ (wtotal (observations ovals rs) == 0)%Q ->
  scale_stderr_sq_vec false (map Fin (tally (length ovals) rs)) (repeat (Fin B) (length ovals))
    (map xval ovals) (Fin M)
  =x= Fin (wvar_spec (observations ovals rs) / M).
Proof. exact (scale_stderr_eq ovals rs B M). Qed.
Print Assumptions C14_scale_stderr_eq.

(* ... where the margin of a vector (sum of its counts) is the total weight of ALL its respondents,
   with or without a numeric value *)
Theorem C14_margin_is_total_weight n rs :
  cats_below n rs -> (qsum (tally n rs) == weight_all rs)%Q.
Proof. exact (tally_total n rs). Qed.
Print Assumptions C14_margin_is_total_weight.

(* subtotal DIFFERENCE vectors have no comparable counts: stddev, stderr and median are NaN *)
Theorem C14_difference_vectors ord counts bases vals margin :
  scale_var_vec true counts bases vals = NaN /\
  scale_stderr_sq_vec true counts bases vals margin = NaN /\
  scale_median_vec ord true counts vals = NaN.
Proof.
  exact (conj (scale_var_diff counts bases vals)
              (conj (scale_stderr_diff counts bases vals margin) (scale_median_diff ord counts vals))).
Qed.
Print Assumptions C14_difference_vectors.

(* ---- median (integer counts) ------------------------------------------------------------------------ *)

(* Unit-weight respondents [rs] (their category indexes); the vector is their tally; [ord] is ANY
   order numpy's argsort may return (a permutation of the valued categories, ascending by value).
   The cumulative-count rule returns the median of the respondents' values - wherever empty
   categories fall in the value order. *)
Theorem C14_median_eq ovals rs ord :
  let vals := map xval ovals in
  let ns := tally_nat (length ovals) rs in
  cats_below_nat (length ovals) rs ->
  valid_order vals ord = true ->
  values_of ovals rs <> [] ->
  exists m, scale_median_vec ord false (map cnt ns) vals = Fin m /\
            is_median_of (values_of ovals rs) m.
Proof. exact (median_eq ovals rs ord). Qed.
Print Assumptions C14_median_eq.

(* same statement on the value-sorted categories: values [vs] ascending, counts [ns] *)
Theorem C14_median_sorted_categories vs ns :
  length vs = length ns -> Sorted Qle vs -> 0 < list_sum ns ->
  exists m, weighted_median (map cnt ns) vs = Fin m /\ is_median_of (expand vs ns) m.
Proof. exact (weighted_median_is_median vs ns). Qed.
Print Assumptions C14_median_sorted_categories.

(* the former witness of finding C14-median-zero-count-after-half (fixed by dda43200): counts
   2,0,2 on the values 1,2,3 - an empty category right after the exact 50 % point - give 2, the
   median of the respondents' values 1,1,3,3 (it was 3/2) *)
Theorem C14_median_former_witness :
  let ovals := [Some 1; Some 2; Some 3]%Q in
  let rs := [0; 0; 2; 2] in
  cats_below_nat (length ovals) rs /\
  valid_order (map xval ovals) [0; 1; 2] = true /\
  tally_nat 3 rs = [2; 0; 2] /\ values_of ovals rs = [1; 1; 3; 3]%Q /\
  scale_median_vec [0; 1; 2] false (map cnt (tally_nat 3 rs)) (map xval ovals) =x= Fin 2 /\
  is_median_of (values_of ovals rs) 2.
Proof. exact median_former_witness. Qed.
Print Assumptions C14_median_former_witness.

(* NaN for a vector without numeric-valued respondents *)
Theorem C14_median_nan ovals rs ord :
  let vals := map xval ovals in
  let ns := tally_nat (length ovals) rs in
  cats_below_nat (length ovals) rs ->
  valid_order vals ord = true ->
  values_of ovals rs = [] ->
  scale_median_vec ord false (map cnt ns) vals = NaN.
Proof. exact (median_nan ovals rs ord). Qed.
Print Assumptions C14_median_nan.

(* ---- None <=> no category of the opposing dimension has a numeric value ------------------------------ *)
Theorem C14_none_iff ovals :
  any_value (map xval ovals) = false <-> Forall (fun o => o = None) ovals.
Proof. exact (any_value_false_iff ovals). Qed.
Print Assumptions C14_none_iff.

(* ---- overall margins: the four x_scale_mean_margin and x_scale_median_margin scalars, over the margin vector ------------ *)
Theorem C14_scale_mean_margin_eq ovals rs :
  cats_below (length ovals) rs ->
  ~ (wtotal (observations ovals rs) == 0)%Q ->
  scale_mean_margin (map Fin (tally (length ovals) rs)) (map xval ovals)
  =x= Fin (wmean_spec (observations ovals rs)).
Proof. exact (scale_mean_margin_eq ovals rs). Qed.
Print Assumptions C14_scale_mean_margin_eq.

Theorem C14_scale_median_margin_eq ovals rs :
  cats_below_nat (length ovals) rs -> values_of ovals rs <> [] ->
  exists m, scale_median_margin (map cnt (tally_nat (length ovals) rs)) (map xval ovals) = Some (Fin m)
            /\ is_median_of (values_of ovals rs) m.
Proof. exact (margin_median_eq ovals rs). Qed.
Print Assumptions C14_scale_median_margin_eq.

Theorem C14_scale_median_margin_none ovals rs :
  cats_below_nat (length ovals) rs -> values_of ovals rs = [] ->
  scale_median_margin (map cnt (tally_nat (length ovals) rs)) (map xval ovals) = None.
Proof. exact (margin_median_none ovals rs). Qed.
Print Assumptions C14_scale_median_margin_none.

(* ---- strand (_Strand.scale_mean / scale_std_dev / scale_std_err / scale_median) ---------------------- *)
(* None <=> no category has a value, or no numeric-valued respondent *)
Theorem C14_strand_mean_none_iff ovals rs :
  cats_below (length ovals) rs ->
  (strand_scale_mean (map Fin (tally (length ovals) rs)) (map xval ovals) = None
   <-> (Forall (fun o => o = None) ovals \/ (wtotal (observations ovals rs) == 0)%Q)).
Proof. exact (strand_mean_none_iff ovals rs). Qed.
Print Assumptions C14_strand_mean_none_iff.

Theorem C14_strand_none_together counts vals :
  strand_scale_mean counts vals = None ->
  strand_scale_stddev_sq counts vals = None /\ strand_scale_stderr_sq counts vals = None.
Proof. exact (strand_none_together counts vals). Qed.
Print Assumptions C14_strand_none_together.

Theorem C14_strand_mean_eq ovals rs :
  cats_below (length ovals) rs ->
  ~ Forall (fun o => o = None) ovals -> ~ (wtotal (observations ovals rs) == 0)%Q ->
  exists x, strand_scale_mean (map Fin (tally (length ovals) rs)) (map xval ovals) = Some x
            /\ x =x= Fin (wmean_spec (observations ovals rs)).
Proof. exact (strand_mean_eq ovals rs). Qed.
Print Assumptions C14_strand_mean_eq.

Theorem C14_strand_stddev_eq ovals rs :
  cats_below (length ovals) rs -> nonneg_weights rs ->
  ~ Forall (fun o => o = None) ovals -> ~ (wtotal (observations ovals rs) == 0)%Q ->
  exists x, strand_scale_stddev_sq (map Fin (tally (length ovals) rs)) (map xval ovals) = Some x
            /\ x =x= Fin (wvar_spec (observations ovals rs)).
Proof. exact (strand_stddev_eq ovals rs). Qed.
Print Assumptions C14_strand_stddev_eq.

(* strand: the standard error is over the weighted count of NUMERIC-VALUED respondents *)
Theorem C14_strand_stderr_eq ovals rs :
  cats_below (length ovals) rs -> nonneg_weights rs ->
  ~ Forall (fun o => o = None) ovals -> ~ (wtotal (observations ovals rs) == 0)%Q ->
  exists x, strand_scale_stderr_sq (map Fin (tally (length ovals) rs)) (map xval ovals) = Some x
            /\ x =x= Fin (wvar_spec (observations ovals rs) / wtotal (observations ovals rs)).
Proof. exact (strand_stderr_eq ovals rs). Qed.
Print Assumptions C14_strand_stderr_eq.

Theorem C14_strand_median_eq ovals rs :
  cats_below_nat (length ovals) rs -> values_of ovals rs <> [] ->
  exists m, strand_scale_median (map cnt (tally_nat (length ovals) rs)) (map xval ovals) = Some (Fin m)
            /\ is_median_of (values_of ovals rs) m.
Proof. exact (strand_median_eq ovals rs). Qed.
Print Assumptions C14_strand_median_eq.

(* None <=> no category has a value, or no respondent is counted in a valued category: exactly
   when the strand's mean (C14_strand_mean_none_iff) and deviations are None *)
Theorem C14_strand_median_none_iff ovals rs :
  cats_below_nat (length ovals) rs ->
  (strand_scale_median (map cnt (tally_nat (length ovals) rs)) (map xval ovals) = None
   <-> (Forall (fun o => o = None) ovals \/ values_of ovals rs = [])).
Proof. exact (strand_median_none_iff ovals rs). Qed.
Print Assumptions C14_strand_median_none_iff.

(* the former witness of finding C14-strand-median-nan-when-empty (fixed by 2ba43316): categories
   valued 1, 2 and no respondent - the median is None like the mean and the deviations (it was NaN) *)
Theorem C14_strand_median_former_witness :
  let counts := [Fin 0; Fin 0] in let vals := [Fin 1; Fin 2] in
  any_value vals = true /\
  strand_scale_mean counts vals = None /\
  strand_scale_stddev_sq counts vals = None /\
  strand_scale_stderr_sq counts vals = None /\
  strand_scale_median counts vals = None.
Proof. exact strand_median_former_witness. Qed.
Print Assumptions C14_strand_median_former_witness.

(* ---- historical: the rule before dda43200 ([weighted_median_v0], used by nothing in the model) --------- *)
(* it was a median only when no empty category followed (in value order) a prefix holding exactly
   half of the respondents ... *)
Theorem C14_median_v0_sorted_categories vs ns :
  length vs = length ns -> Sorted Qle vs -> 0 < list_sum ns -> no_gap ns ->
  exists m, weighted_median_v0 (map cnt ns) vs = Fin m /\ is_median_of (expand vs ns) m.
Proof. exact (weighted_median_v0_is_median vs ns). Qed.
Print Assumptions C14_median_v0_sorted_categories.

(* ... in particular when every valued category is non-empty ... *)
Theorem C14_no_gap_when_all_positive ns : Forall (fun n => 0 < n) ns -> no_gap ns.
Proof. exact (all_positive_no_gap ns). Qed.
Print Assumptions C14_no_gap_when_all_positive.

(* ... and not otherwise: on counts 2,0,2 over 1,2,3 it gave 3/2 where the repaired rule and the
   respondents give 2.  (So C14_median_sorted_categories separates the repaired rule from it.) *)
Theorem C14_median_v0_not_median :
  exists vs ns, length vs = length ns /\ Sorted Qle vs /\ 0 < list_sum ns /\
    weighted_median_v0 (map cnt ns) vs = Fin (3 # 2) /\
    weighted_median (map cnt ns) vs =x= Fin 2 /\ (middle (expand vs ns) == 2)%Q.
Proof. exact weighted_median_v0_not_median. Qed.
Print Assumptions C14_median_v0_not_median.

(* ---- non-vacuity ---------------------------------------------------------------------------------------- *)
(* five respondents with weights, categories valued 3, -, 1, 3 (unsorted, repeated, one without value) *)
Example C14_example_mean_var :
  let ovals := [Some 3; None; Some 1; Some 3]%Q in
  let rs := [(0, 1%Q); (2, 2%Q); (1, 5%Q); (3, (1 # 2)%Q); (2, (1 # 2)%Q)] in
  cats_below (length ovals) rs /\ nonneg_weights rs /\
  ~ (wtotal (observations ovals rs) == 0)%Q /\
  tally (length ovals) rs = [0 + 1; 0 + 5; 0 + (1 # 2) + 2; 0 + (1 # 2)]%Q /\
  (wmean_spec (observations ovals rs) == 7 # 4)%Q /\
  (wvar_spec (observations ovals rs) == 15 # 16)%Q /\
  scale_mean_vec (map Fin (tally 4 rs)) (repeat (Fin 9) 4) (map xval ovals) =x= Fin (7 # 4) /\
  scale_var_vec false (map Fin (tally 4 rs)) (repeat (Fin 9) 4) (map xval ovals) =x= Fin (15 # 16).
Proof.
  cbv zeta. split; [repeat constructor|]. split; [repeat constructor; discriminate|].
  split; [intros H; vm_compute in H; discriminate|].
  split; [reflexivity|]. repeat split; vm_compute; reflexivity.
Qed.

(* median: values 5,1,-,3 (unsorted, one category without value); seven respondents, one of them in
   the category without value *)
Example C14_example_median :
  let ovals := [Some 5; Some 1; None; Some 3]%Q in
  let rs := [0; 1; 3; 2; 1; 3; 3] in
  let ord := [1; 3; 0] in
  cats_below_nat (length ovals) rs /\
  valid_order (map xval ovals) ord = true /\ ord = stable_order (map xval ovals) /\
  values_of ovals rs = [5; 1; 3; 1; 3; 3]%Q /\
  tally_nat 4 rs = [1; 2; 1; 3] /\
  scale_median_vec ord false (map cnt (tally_nat 4 rs)) (map xval ovals) = Fin 3.
Proof.
  cbv zeta. split; [repeat constructor|]. split; [reflexivity|]. split; [reflexivity|].
  split; [reflexivity|]. split; [reflexivity|]. reflexivity.
Qed.

(* an exact 50 % point followed (in value order) by an EMPTY category, values unsorted and
   repeated: categories valued 4,1,-,2,4 with counts 0,2,1,0,2 - the hypotheses of C14_median_eq
   hold and the median of the respondents' values 1,1,4,4 is 5/2 (the empty category valued 2 and
   the empty one valued 4 that argsort may put first are both skipped) *)
Example C14_example_median_gap :
  let ovals := [Some 4; Some 1; None; Some 2; Some 4]%Q in
  let rs := [4; 1; 2; 1; 4] in
  let ord := [1; 3; 0; 4] in
  cats_below_nat (length ovals) rs /\
  valid_order (map xval ovals) ord = true /\
  values_of ovals rs = [4; 1; 1; 4]%Q /\ values_of ovals rs <> [] /\
  tally_nat 5 rs = [0; 2; 1; 0; 2] /\
  scale_median_vec ord false (map cnt (tally_nat 5 rs)) (map xval ovals) =x= Fin (5 # 2).
Proof.
  cbv zeta. split; [repeat constructor|]. split; [reflexivity|]. split; [reflexivity|].
  split; [discriminate|]. split; [reflexivity|]. vm_compute. reflexivity.
Qed.

(* strand: a valued category exists, the only respondent sits in the category without value *)
Example C14_example_strand_none :
  let ovals := [Some 3; None]%Q in
  let rs := [1] in
  cats_below_nat (length ovals) rs /\ ~ Forall (fun o => o = None) ovals /\
  values_of ovals rs = [] /\
  strand_scale_median (map cnt (tally_nat 2 rs)) (map xval ovals) = None.
Proof.
  cbv zeta. split; [repeat constructor|]. split; [intros H; inversion H; discriminate|].
  split; reflexivity.
Qed.
