(* C14 - Scale mean, median, standard deviation and standard error from category numeric values.

   Model: Model/Scale.v (tied to matrix/measure.py::_ScaleMean/_ScaleMedian/_ScaleMeanStddev/
   _ScaleMeanStderr, stripe/measure.py::_ScaledCounts and cubepart.py::*_scale_*_margin by the
   correspondence check harness/props/c14.py).  Spec: Spec/Stats.v - weighted mean, population
   variance and median of the numeric values of the INDIVIDUAL respondents counted in a vector.
   Proofs: Proofs/ScaleProofs.v, ScaleMedianProofs.v, ScaleExpandProofs.v.

   Reading guide.  [ovals : list (option Q)] numeric value of each category of the opposing
   dimension (None = no value); [rs] the respondents counted in the vector as (category, weight);
   [tally n rs] the count vector they tabulate to; [observations ovals rs] the (value, weight)
   pairs of the respondents whose category has a value.  Square roots are not modelled: the
   theorems speak about stddev^2 and stderr^2 (the check compares the squares).  *)
From Coq Require Import QArith ZArith List Bool Lia Arith Sorted Permutation.
From CC Require Import Base.XQ Base.ListX Spec.Stats Model.Scale
  Proofs.ScaleProofs Proofs.ScaleMedianProofs Proofs.ScaleExpandProofs Proofs.ScaleMedianFixProofs.
Import ListNotations.
Local Close Scope Q_scope.
Local Open Scope nat_scope.

(* ---- slice vectors (rows_/columns_scale_mean, _stddev, _stderr) ---------------------------------- *)

(* scale mean of a vector = weighted mean of the respondents' numeric values, whatever the
   (positive) weighted base the proportions were taken over *)
Theorem C14_scale_mean_eq ovals rs B :
  cats_below (length ovals) rs -> (0 < B)%Q ->
  ~ (wtotal (observations ovals rs) == 0)%Q ->
  scale_mean_vec (map Fin (tally (length ovals) rs)) (repeat (Fin B) (length ovals)) (map xval ovals)
  =x= Fin (wmean_spec (observations ovals rs)).
Proof. exact (scale_mean_eq ovals rs B). Qed.
Print Assumptions C14_scale_mean_eq.

(* NaN for a vector without numeric-valued respondents *)
Theorem C14_scale_mean_nan ovals rs B :
  cats_below (length ovals) rs -> nonneg_weights rs -> (0 < B)%Q ->
  (wtotal (observations ovals rs) == 0)%Q ->
  scale_mean_vec (map Fin (tally (length ovals) rs)) (repeat (Fin B) (length ovals)) (map xval ovals)
  =x= NaN.
Proof. exact (scale_mean_nan ovals rs B). Qed.
Print Assumptions C14_scale_mean_nan.

(* stddev^2 = population variance of the respondents' numeric values *)
Theorem C14_scale_var_eq ovals rs B :
  cats_below (length ovals) rs -> nonneg_weights rs -> (0 < B)%Q ->
  ~ (wtotal (observations ovals rs) == 0)%Q ->
  scale_var_vec false (map Fin (tally (length ovals) rs)) (repeat (Fin B) (length ovals)) (map xval ovals)
  =x= Fin (wvar_spec (observations ovals rs)).
Proof. exact (scale_var_eq ovals rs B). Qed.
Print Assumptions C14_scale_var_eq.

(* stderr^2 = that variance over the vector's weighted margin M ... *)
Theorem C14_scale_stderr_eq ovals rs B M :
  cats_below (length ovals) rs -> nonneg_weights rs -> (0 < B)%Q -> (0 < M)%Q ->
  ~ (wtotal (observations ovals rs) == 0)%Q ->
  scale_stderr_sq_vec false (map Fin (tally (length ovals) rs)) (repeat (Fin B) (length ovals))
    (map xval ovals) (Fin M)
  =x= Fin (wvar_spec (observations ovals rs) / M).
Proof. exact (scale_stderr_eq ovals rs B M). Qed.
Print Assumptions C14_scale_stderr_eq.

(* ... where the margin of a vector (sum of its counts) is the total weight of ALL its respondents,
   with or without a numeric value *)
Theorem C14_margin_is_total_weight n rs :
  cats_below n rs -> (qsum (tally n rs) == weight_all rs)%Q.
Proof. exact (tally_total n rs). Qed.
Print Assumptions C14_margin_is_total_weight.

(* subtotal DIFFERENCE vectors have no comparable counts: stddev, stderr and median are NaN *)
Theorem C14_difference_vectors ord counts bases vals margin :
  scale_var_vec true counts bases vals = NaN /\
  scale_stderr_sq_vec true counts bases vals margin = NaN /\
  scale_median_vec ord true counts vals = NaN.
Proof.
  exact (conj (scale_var_diff counts bases vals)
              (conj (scale_stderr_diff counts bases vals margin) (scale_median_diff ord counts vals))).
Qed.
Print Assumptions C14_difference_vectors.

(* ---- median (integer counts) ------------------------------------------------------------------------ *)

(* Unit-weight respondents [rs] (their category indexes); the vector is their tally; [ord] is ANY
   order numpy's argsort may return (a permutation of the valued categories, ascending by value).
   The cumulative-count rule returns the median of the respondents' values PROVIDED no empty
   category follows (in value order) a prefix holding exactly half of the respondents. *)
Theorem C14_median_eq ovals rs ord :
  let vals := map xval ovals in
  let ns := tally_nat (length ovals) rs in
  cats_below_nat (length ovals) rs ->
  valid_order vals ord = true ->
  values_of ovals rs <> [] ->
  no_gap (map (fun i => nth i ns 0) ord) ->
  exists m, scale_median_vec ord false (map cnt ns) vals = Fin m /\
            is_median_of (values_of ovals rs) m.
Proof. exact (median_eq ovals rs ord). Qed.
Print Assumptions C14_median_eq.

(* the side condition holds in particular when every valued category is non-empty *)
Theorem C14_no_gap_when_all_positive ns : Forall (fun n => 0 < n) ns -> no_gap ns.
Proof. exact (all_positive_no_gap ns). Qed.
Print Assumptions C14_no_gap_when_all_positive.

(* same statement on the value-sorted categories: values [vs] ascending, counts [ns] *)
Theorem C14_median_sorted_categories vs ns :
  length vs = length ns -> Sorted Qle vs -> 0 < list_sum ns -> no_gap ns ->
  exists m, weighted_median (map cnt ns) vs = Fin m /\ is_median_of (expand vs ns) m.
Proof. exact (weighted_median_is_median vs ns). Qed.
Print Assumptions C14_median_sorted_categories.

(* FULL STATEMENT (property text, no side condition) IS FALSE for the faithful model:
     forall vs ns, length vs = length ns -> Sorted Qle vs -> 0 < list_sum ns ->
       exists m, weighted_median (map cnt ns) vs = Fin m /\ is_median_of (expand vs ns) m.
   Witness (replayed on the implementation, known finding C14-median-zero-count-after-half):
   values 1,2,3 with counts 2,0,2 give 3/2; the respondents' values 1,1,3,3 have median 2. *)
Theorem C14_median_refuted :
  exists vs ns, length vs = length ns /\ Sorted Qle vs /\ 0 < list_sum ns /\
    weighted_median (map cnt ns) vs = Fin (3 # 2) /\ (middle (expand vs ns) == 2)%Q.
Proof. exact weighted_median_refuted. Qed.
Print Assumptions C14_median_refuted.

(* About the PROPOSED PATCH, not the current code: [weighted_median_fixed] (Proofs/
   ScaleMedianFixProofs.v) is the rule with `median_idx + 1` replaced by the next category that has
   counts; it is a median of the respondents' values with NO side condition. *)
Theorem C14_median_patched_rule vs ns :
  length vs = length ns -> Sorted Qle vs -> 0 < list_sum ns ->
  exists m, weighted_median_fixed (map cnt ns) vs = Fin m /\ is_median_of (expand vs ns) m.
Proof. exact (weighted_median_fixed_is_median vs ns). Qed.
Print Assumptions C14_median_patched_rule.

(* NaN for a vector without numeric-valued respondents *)
Theorem C14_median_nan ovals rs ord :
  let vals := map xval ovals in
  let ns := tally_nat (length ovals) rs in
  cats_below_nat (length ovals) rs ->
  valid_order vals ord = true ->
  values_of ovals rs = [] ->
  scale_median_vec ord false (map cnt ns) vals = NaN.
Proof. exact (median_nan ovals rs ord). Qed.
Print Assumptions C14_median_nan.

(* ---- None <=> no category of the opposing dimension has a numeric value ------------------------------ *)
Theorem C14_none_iff ovals :
  any_value (map xval ovals) = false <-> Forall (fun o => o = None) ovals.
Proof. exact (any_value_false_iff ovals). Qed.
Print Assumptions C14_none_iff.

(* ---- overall margins: the four x_scale_mean_margin and x_scale_median_margin scalars, over the margin vector ------------ *)
Theorem C14_scale_mean_margin_eq ovals rs :
  cats_below (length ovals) rs ->
  ~ (wtotal (observations ovals rs) == 0)%Q ->
  scale_mean_margin (map Fin (tally (length ovals) rs)) (map xval ovals)
  =x= Fin (wmean_spec (observations ovals rs)).
Proof. exact (scale_mean_margin_eq ovals rs). Qed.
Print Assumptions C14_scale_mean_margin_eq.

Theorem C14_scale_median_margin_eq ovals rs :
  cats_below_nat (length ovals) rs -> values_of ovals rs <> [] ->
  exists m, scale_median_margin (map cnt (tally_nat (length ovals) rs)) (map xval ovals) = Some (Fin m)
            /\ is_median_of (values_of ovals rs) m.
Proof. exact (margin_median_eq ovals rs). Qed.
Print Assumptions C14_scale_median_margin_eq.

Theorem C14_scale_median_margin_none ovals rs :
  cats_below_nat (length ovals) rs -> values_of ovals rs = [] ->
  scale_median_margin (map cnt (tally_nat (length ovals) rs)) (map xval ovals) = None.
Proof. exact (margin_median_none ovals rs). Qed.
Print Assumptions C14_scale_median_margin_none.

(* ---- strand (_Strand.scale_mean / scale_std_dev / scale_std_err / scale_median) ---------------------- *)
(* None <=> no category has a value, or no numeric-valued respondent *)
Theorem C14_strand_mean_none_iff ovals rs :
  cats_below (length ovals) rs ->
  (strand_scale_mean (map Fin (tally (length ovals) rs)) (map xval ovals) = None
   <-> (Forall (fun o => o = None) ovals \/ (wtotal (observations ovals rs) == 0)%Q)).
Proof. exact (strand_mean_none_iff ovals rs). Qed.
Print Assumptions C14_strand_mean_none_iff.

Theorem C14_strand_none_together counts vals :
  strand_scale_mean counts vals = None ->
  strand_scale_stddev_sq counts vals = None /\ strand_scale_stderr_sq counts vals = None.
Proof. exact (strand_none_together counts vals). Qed.
Print Assumptions C14_strand_none_together.

Theorem C14_strand_mean_eq ovals rs :
  cats_below (length ovals) rs ->
  ~ Forall (fun o => o = None) ovals -> ~ (wtotal (observations ovals rs) == 0)%Q ->
  exists x, strand_scale_mean (map Fin (tally (length ovals) rs)) (map xval ovals) = Some x
            /\ x =x= Fin (wmean_spec (observations ovals rs)).
Proof. exact (strand_mean_eq ovals rs). Qed.
Print Assumptions C14_strand_mean_eq.

Theorem C14_strand_stddev_eq ovals rs :
  cats_below (length ovals) rs -> nonneg_weights rs ->
  ~ Forall (fun o => o = None) ovals -> ~ (wtotal (observations ovals rs) == 0)%Q ->
  exists x, strand_scale_stddev_sq (map Fin (tally (length ovals) rs)) (map xval ovals) = Some x
            /\ x =x= Fin (wvar_spec (observations ovals rs)).
Proof. exact (strand_stddev_eq ovals rs). Qed.
Print Assumptions C14_strand_stddev_eq.

(* strand: the standard error is over the weighted count of NUMERIC-VALUED respondents *)
Theorem C14_strand_stderr_eq ovals rs :
  cats_below (length ovals) rs -> nonneg_weights rs ->
  ~ Forall (fun o => o = None) ovals -> ~ (wtotal (observations ovals rs) == 0)%Q ->
  exists x, strand_scale_stderr_sq (map Fin (tally (length ovals) rs)) (map xval ovals) = Some x
            /\ x =x= Fin (wvar_spec (observations ovals rs) / wtotal (observations ovals rs)).
Proof. exact (strand_stderr_eq ovals rs). Qed.
Print Assumptions C14_strand_stderr_eq.

Theorem C14_strand_median_eq ovals rs :
  cats_below_nat (length ovals) rs -> values_of ovals rs <> [] ->
  exists m, strand_scale_median (map cnt (tally_nat (length ovals) rs)) (map xval ovals) = Some (Fin m)
            /\ is_median_of (values_of ovals rs) m.
Proof. exact (strand_median_eq ovals rs). Qed.
Print Assumptions C14_strand_median_eq.

Theorem C14_strand_median_none_iff ovals ns : length ovals = length ns ->
  (strand_scale_median (map cnt ns) (map xval ovals) = None <-> Forall (fun o => o = None) ovals).
Proof. exact (strand_median_none_iff ovals ns). Qed.
Print Assumptions C14_strand_median_none_iff.

(* FULL STATEMENT (None for a strand without numeric-valued respondents) IS FALSE for the median:
   with valued categories but no respondent the faithful model - like the implementation (known
   finding C14-strand-median-nan-when-empty) - returns NaN where mean and deviation are None. *)
Theorem C14_strand_median_empty_refuted :
  exists counts vals, strand_scale_mean counts vals = None /\
                      strand_scale_stddev_sq counts vals = None /\
                      strand_scale_median counts vals = Some NaN.
Proof. exact strand_median_empty_refuted. Qed.
Print Assumptions C14_strand_median_empty_refuted.

(* ---- non-vacuity ---------------------------------------------------------------------------------------- *)
(* five respondents with weights, categories valued 3, -, 1, 3 (unsorted, repeated, one without value) *)
Example C14_example_mean_var :
  let ovals := [Some 3; None; Some 1; Some 3]%Q in
  let rs := [(0, 1%Q); (2, 2%Q); (1, 5%Q); (3, (1 # 2)%Q); (2, (1 # 2)%Q)] in
  cats_below (length ovals) rs /\ nonneg_weights rs /\
  ~ (wtotal (observations ovals rs) == 0)%Q /\
  tally (length ovals) rs = [0 + 1; 0 + 5; 0 + (1 # 2) + 2; 0 + (1 # 2)]%Q /\
  (wmean_spec (observations ovals rs) == 7 # 4)%Q /\
  (wvar_spec (observations ovals rs) == 15 # 16)%Q /\
  scale_mean_vec (map Fin (tally 4 rs)) (repeat (Fin 9) 4) (map xval ovals) =x= Fin (7 # 4) /\
  scale_var_vec false (map Fin (tally 4 rs)) (repeat (Fin 9) 4) (map xval ovals) =x= Fin (15 # 16).
Proof.
  cbv zeta. split; [repeat constructor|]. split; [repeat constructor; discriminate|].
  split; [intros H; vm_compute in H; discriminate|].
  split; [reflexivity|]. repeat split; vm_compute; reflexivity.
Qed.

(* median: values 5,1,3 (unsorted); respondents in categories 0,1,1,2,2,2 *)
Example C14_example_median :
  let ovals := [Some 5; Some 1; None; Some 3]%Q in
  let rs := [0; 1; 3; 2; 1; 3; 3] in
  let ord := [1; 3; 0] in
  cats_below_nat (length ovals) rs /\
  valid_order (map xval ovals) ord = true /\ ord = stable_order (map xval ovals) /\
  values_of ovals rs = [5; 1; 3; 1; 3; 3]%Q /\
  tally_nat 4 rs = [1; 2; 1; 3] /\
  no_gap (map (fun i => nth i (tally_nat 4 rs) 0) ord) /\
  scale_median_vec ord false (map cnt (tally_nat 4 rs)) (map xval ovals) = Fin 3.
Proof.
  cbv zeta. split; [repeat constructor|]. split; [reflexivity|]. split; [reflexivity|].
  split; [reflexivity|]. split; [reflexivity|]. split; [|reflexivity].
  intros k Hk H. vm_compute in Hk.
  destruct k as [|[|k]]; vm_compute in H; try discriminate; vm_compute; lia.
Qed.
