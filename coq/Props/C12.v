(* C12 - Residual z-scores and p-values are adjusted standardized residuals.
   Only statements: each closed by [exact <lemma>] and followed by [Print Assumptions].
   Model: Model/Zscore.v (tied to matrix/measure.py::_Zscores/_Pvalues by the correspondence
   check harness/props/c12.py).  Proofs: Proofs/ZscoreProofs.v, ZscoreRank.v, ZscorePval.v.

   The model carries  z*|z|  (signed square) instead of z: z^2 = |z*|z||, sign z = sign(z*|z|). *)
From Coq Require Import QArith Qabs ZArith List Bool Lia Arith Reals.
From CC Require Import Base.XQ Base.ListX Model.Zscore
  Proofs.ZscoreProofs Proofs.ZscoreRank Proofs.ZscorePval.
Import ListNotations.
Local Close Scope R_scope.
Local Close Scope Q_scope.
Local Open Scope nat_scope.

(* (1) the adjusted standardized residual, one cell: count c, row base r, column base k,
   table base t with 0 < r < t, 0 < k < t (row and column shares strictly inside (0,1)):
   z|z| = (c-e)|c-e| / (e (1-r/t)(1-k/t)),  e = r k / t  - derived from the code's
   variance expression r k (t-r)(t-k)/t^3. *)
Theorem C12_z_formula (c r k t : Q) :
  (0 < r)%Q -> (r < t)%Q -> (0 < k)%Q -> (k < t)%Q ->
  let e := (r * k / t)%Q in
  z_zabs (Fin c) (Fin r) (Fin k) (Fin t) =x=
  Fin ((c - e) * Qabs (c - e) / (e * (1 - r / t) * (1 - k / t)))%Q.
Proof. exact (z_formula c r k t). Qed.
Print Assumptions C12_z_formula.

(* (2) in every block of a non-defective table each cell is computed from ITS OWN count and
   its own row / column / table bases (per-cell bases: multiple response included), and has
   the value of (1). *)
Theorem C12_z_block_formula base c t r k i j (qc qr qk qt : Q) :
  defective base = false -> mall_eq t r = false -> mall_eq t k = false ->
  i < nrows c -> j < ncols c ->
  mnth c i j = Fin qc -> mnth r i j = Fin qr -> mnth k i j = Fin qk -> mnth t i j = Fin qt ->
  (0 < qr)%Q -> (qr < qt)%Q -> (0 < qk)%Q -> (qk < qt)%Q ->
  let e := (qr * qk / qt)%Q in
  mnth (zscores_block base c t r k) i j =x=
  Fin ((qc - e) * Qabs (qc - e) / (e * (1 - qr / qt) * (1 - qk / qt)))%Q.
Proof. exact (zscores_block_formula base c t r k i j qc qr qk qt). Qed.
Print Assumptions C12_z_block_formula.

Theorem C12_z_block_cell base c t r k i j :
  defective base = false -> mall_eq t r = false -> mall_eq t k = false ->
  i < nrows c -> j < ncols c ->
  mnth (zscores_block base c t r k) i j =
  z_zabs (mnth c i j) (mnth r i j) (mnth k i j) (mnth t i j).
Proof. exact (zscores_block_cell base c t r k i j). Qed.
Print Assumptions C12_z_block_cell.

(* (3) sign: z is positive / negative / zero exactly when the count is above / below / at
   its expectation *)
Theorem C12_z_sign (c r k t : Q) :
  (0 < r)%Q -> (r < t)%Q -> (0 < k)%Q -> (k < t)%Q ->
  let e := (r * k / t)%Q in
  exists z2, z_zabs (Fin c) (Fin r) (Fin k) (Fin t) = Fin z2 /\
             ((0 < z2)%Q <-> (e < c)%Q) /\ ((z2 < 0)%Q <-> (c < e)%Q) /\ ((z2 == 0)%Q <-> (c == e)%Q).
Proof. exact (z_sign c r k t). Qed.
Print Assumptions C12_z_sign.

(* (4) 2x2 tables (a b / c d) with non-zero margins: z^2 of EVERY cell is Pearson's
   chi-square  N (ad - bc)^2 / (R1 R2 K1 K2). *)
Theorem C12_z_2x2_chi2 (a b c d : Q) :
  (0 < a + b)%Q -> (0 < c + d)%Q -> (0 < a + c)%Q -> (0 < b + d)%Q ->
  let N := (a + b + c + d)%Q in
  let chi2 := (N * ((a * d - b * c) * (a * d - b * c)) / ((a + b) * (c + d) * (a + c) * (b + d)))%Q in
  z_sq (Fin a) (Fin (a + b)) (Fin (a + c)) (Fin N) =x= Fin chi2 /\
  z_sq (Fin b) (Fin (a + b)) (Fin (b + d)) (Fin N) =x= Fin chi2 /\
  z_sq (Fin c) (Fin (c + d)) (Fin (a + c)) (Fin N) =x= Fin chi2 /\
  z_sq (Fin d) (Fin (c + d)) (Fin (b + d)) (Fin N) =x= Fin chi2.
Proof. exact (z_2x2_chi2 a b c d). Qed.
Print Assumptions C12_z_2x2_chi2.

(* (5) defective tables report NaN in every cell of every block *)
Theorem C12_defective_nan base c t r k i j :
  defective base = true -> i < nrows c -> j < ncols c ->
  mnth (zscores_block base c t r k) i j = NaN.
Proof. exact (zscores_block_defective base c t r k i j). Qed.
Print Assumptions C12_defective_nan.

(* ... where "defective" is exactly: an empty axis, or no two linearly independent rows -
   every row is a multiple a_i * v of one vector v (equivalently all 2x2 minors vanish) *)
Theorem C12_defective_iff_rank_le1 nr nc (f : nat -> nat -> Q) : 0 < nr -> 0 < nc ->
  defective (fmat nr nc f) = true <->
  exists (a v : nat -> Q), forall i j, i < nr -> j < nc -> (f i j == a i * v j)%Q.
Proof. exact (defective_iff_rank_le1 nr nc f). Qed.
Print Assumptions C12_defective_iff_rank_le1.

Theorem C12_defective_empty m : nrows m = 0 \/ ncols m = 0 -> defective m = true.
Proof. exact (defective_empty m). Qed.
Print Assumptions C12_defective_empty.

Theorem C12_nondefective_witness nr nc (f : nat -> nat -> Q) :
  defective (fmat nr nc f) = false ->
  exists i i' j j', i < nr /\ i' < nr /\ j < nc /\ j' < nc /\
    ~ (f i j * f i' j' == f i j' * f i' j)%Q.
Proof. exact (nondefective_witness nr nc f). Qed.
Print Assumptions C12_nondefective_witness.

(* (6) the code's extra guard: a block all of whose table bases equal its row bases (or its
   column bases) is NaN instead of 0/0 or x/0 *)
Theorem C12_guard_nan base c t r k i j :
  mall_eq t r = true \/ mall_eq t k = true -> i < nrows c -> j < ncols c ->
  mnth (zscores_block base c t r k) i j = NaN.
Proof. exact (zscores_block_guard base c t r k i j). Qed.
Print Assumptions C12_guard_nan.

(* (7) boundary shares (a row or column share of 0 or 1 in a single cell): the variance is 0
   and the cell is 0/0 = NaN when the residual is 0, otherwise +-infinity *)
Theorem C12_zero_variance (c r k t : Q) : ~ (t == 0)%Q -> (qvar r k t == 0)%Q ->
  z_zabs (Fin c) (Fin r) (Fin k) (Fin t) =
  (if qzero ((c + - qexp r k t) * Qabs (c + - qexp r k t))%Q then NaN
   else Inf (qneg ((c + - qexp r k t) * Qabs (c + - qexp r k t))%Q)).
Proof. exact (z_zabs_zerovar c r k t). Qed.
Print Assumptions C12_zero_variance.

(* (8) p-values: for ANY function Phi with the shape of a symmetric CDF,
   p = 2 (1 - Phi |z|) lies in [0,1], is even in z, never increases with |z|, is the sum of
   the two tails, and is determined by z^2 (the quantity the model computes). *)
Theorem C12_pval_range (Phi : R -> R) :
  (forall x, Phi (- x) = 1 - Phi x)%R -> (forall x y, x <= y -> Phi x <= Phi y)%R ->
  (forall x, 0 <= Phi x <= 1)%R ->
  forall z, (0 <= pval Phi z <= 1)%R.
Proof. exact (pval_range Phi). Qed.
Print Assumptions C12_pval_range.

Theorem C12_pval_even (Phi : R -> R) z : pval Phi (- z) = pval Phi z.
Proof. exact (pval_even Phi z). Qed.
Print Assumptions C12_pval_even.

Theorem C12_pval_antitone (Phi : R -> R) :
  (forall x y, x <= y -> Phi x <= Phi y)%R ->
  forall x y, (Rabs x <= Rabs y)%R -> (pval Phi y <= pval Phi x)%R.
Proof. exact (pval_antitone Phi). Qed.
Print Assumptions C12_pval_antitone.

Theorem C12_pval_two_tails (Phi : R -> R) :
  (forall x, Phi (- x) = 1 - Phi x)%R ->
  forall z, pval Phi z = (Phi (- Rabs z) + (1 - Phi (Rabs z)))%R.
Proof. exact (pval_two_tails Phi). Qed.
Print Assumptions C12_pval_two_tails.

Theorem C12_pval_of_square (Phi : R -> R) x y : (x * x = y * y)%R -> pval Phi x = pval Phi y.
Proof. exact (pval_of_square Phi x y). Qed.
Print Assumptions C12_pval_of_square.

(* ---- non-vacuity ------------------------------------------------------------------------- *)
(* table 3 1 / 2 4: not defective; cell (0,0): e = 4*5/10 = 2, z|z| = 1*1/(2*(3/5)*(1/2)) = 5/3,
   which is also the chi-square 10*(12-2)^2/(4*6*5*5) = 5/3 *)
Example C12_example_regular :
  let cnt := [[Fin 3; Fin 1]; [Fin 2; Fin 4]] in
  let t := [[Fin 10; Fin 10]; [Fin 10; Fin 10]] in
  let r := [[Fin 4; Fin 4]; [Fin 6; Fin 6]] in
  let k := [[Fin 5; Fin 5]; [Fin 5; Fin 5]] in
  defective cnt = false /\ mall_eq t r = false /\ mall_eq t k = false /\
  mnth (zscores_block cnt cnt t r k) 0 0 =x= Fin (5 # 3) /\
  mnth (zscores_block cnt cnt t r k) 0 1 =x= Fin (- 5 # 3) /\
  z_sq (Fin 3) (Fin 4) (Fin 5) (Fin 10) =x= Fin (5 # 3).
Proof. vm_compute. repeat split; reflexivity. Qed.

(* proportional rows 1 2 / 2 4 (and a zero row): defective, everything NaN *)
Example C12_example_defective :
  let cnt := [[Fin 1; Fin 2]; [Fin 2; Fin 4]; [Fin 0; Fin 0]] in
  defective cnt = true /\ defective [[Fin 1; Fin 2; Fin 3]] = true /\
  defective [] = true /\ defective [[]; []] = true /\
  defective [[Fin 1; Fin 2]; [Fin 2; Fin (9 # 2)]] = false.
Proof. vm_compute. repeat split; reflexivity. Qed.
