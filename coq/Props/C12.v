(* C12 - Residual z-scores and p-values are adjusted standardized residuals.
   Only statements: each closed by [exact <lemma>] and followed by [Print Assumptions].
   Model: Model/Zscore.v (tied to matrix/measure.py::_Zscores/_Pvalues by the correspondence
   check harness/props/c12.py).  Proofs: Proofs/ZscoreProofs.v, ZscoreRank.v, ZscorePval.v.

   The model carries  z*|z|  (signed square) instead of z: z^2 = |z*|z||, sign z = sign(z*|z|). *)
From Coq Require Import QArith Qabs ZArith List Bool Lia Arith Reals.
From CC Require Import Base.XQ Base.ListX Model.Zscore
  Proofs.ZscoreProofs Proofs.ZscoreRank Proofs.ZscorePval.
Import ListNotations.
Local Close Scope R_scope.
Local Close Scope Q_scope.
Local Open Scope nat_scope.

(* (1) the adjusted standardized residual, one cell: count c, row base r, column base k,
   table base t with 0 < r < t, 0 < k < t (row and column shares strictly inside (0,1)):
   z|z| = (c-e)|c-e| / (e (1-r/t)(1-k/t)),  e = r k / t  - derived from the code's
   variance expression r k (t-r)(t-k)/t^3. *)
Theorem C12_z_formula (c r k t : Q) :
  (0 < r)%Q -> (r < t)%Q -> (0 < k)%Q -> (k < t)%Q ->
  let e := (r * k / t)%Q in
  z_zabs (Fin c) (Fin r) (Fin k) (Fin t) =x=
  Fin ((c - e) * Qabs (c - e) / (e * (1 - r / t) * (1 - k / t)))%Q.
Proof. exact (z_formula c r k t). Qed.
Print Assumptions C12_z_formula.

(* (2) in every block of a non-defective table each cell is computed from ITS OWN count and
   its own row / column / table bases (per-cell bases: multiple response included), and has
   the value of (1). *)
Theorem C12_z_block_formula base c t r k i j (qc qr qk qt : Q) :
  defective base = false -> mall_eq t r = false -> mall_eq t k = false ->
  i < nrows c -> j < ncols c ->
  mnth c i j = Fin qc -> mnth r i j = Fin qr -> mnth k i j = Fin qk -> mnth t i j = Fin qt ->
  (0 < qr)%Q -> (qr < qt)%Q -> (0 < qk)%Q -> (qk < qt)%Q ->
  let e := (qr * qk / qt)%Q in
  mnth (zscores_block base c t r k) i j =x=
  Fin ((qc - e) * Qabs (qc - e) / (e * (1 - qr / qt) * (1 - qk / qt)))%Q.
Proof. exact (zscores_block_formula base c t r k i j qc qr qk qt). Qed.
Print Assumptions C12_z_block_formula.

Theorem C12_z_block_cell base c t r k i j :
  defective base = false -> mall_eq t r = false -> mall_eq t k = false ->
  i < nrows c -> j < ncols c ->
  mnth (zscores_block base c t r k) i j =
  z_zabs (mnth c i j) (mnth r i j) (mnth k i j) (mnth t i j).
Proof. exact (zscores_block_cell base c t r k i j). Qed.
Print Assumptions C12_z_block_cell.

(* (3) sign: z is positive / negative / zero exactly when the count is above / below / at
   its expectation *)
Theorem C12_z_sign (c r k t : Q) :
  (0 < r)%Q -> (r < t)%Q -> (0 < k)%Q -> (k < t)%Q ->
  let e := (r * k / t)%Q in
  exists z2, z_zabs (Fin c) (Fin r) (Fin k) (Fin t) = Fin z2 /\
             ((0 < z2)%Q <-> (e < c)%Q) /\ ((z2 < 0)%Q <-> (c < e)%Q) /\ ((z2 == 0)%Q <-> (c == e)%Q).
Proof. exact (z_sign c r k t). Qed.
Print Assumptions C12_z_sign.

(* (4) 2x2 tables (a b / c d) with non-zero margins: z^2 of EVERY cell is Pearson's
   chi-square  N (ad - bc)^2 / (R1 R2 K1 K2). *)
Theorem C12_z_2x2_chi2 (a b c d : Q) :
  (0 < a + b)%Q -> (0 < c + d)%Q -> (0 < a + c)%Q -> (0 < b + d)%Q ->
  let N := (a + b + c + d)%Q in
  let chi2 := (N * ((a * d - b * c) * (a * d - b * c)) / ((a + b) * (c + d) * (a + c) * (b + d)))%Q in
  z_sq (Fin a) (Fin (a + b)) (Fin (a + c)) (Fin N) =x= Fin chi2 /\
  z_sq (Fin b) (Fin (a + b)) (Fin (b + d)) (Fin N) =x= Fin chi2 /\
  z_sq (Fin c) (Fin (c + d)) (Fin (a + c)) (Fin N) =x= Fin chi2 /\
  z_sq (Fin d) (Fin (c + d)) (Fin (b + d)) (Fin N) =x= Fin chi2.
Proof. exact (z_2x2_chi2 a b c d). Qed.
Print Assumptions C12_z_2x2_chi2.

(* (5) defective tables report NaN in every cell of every block *)
Theorem C12_defective_nan base c t r k i j :
  defective base = true -> i < nrows c -> j < ncols c ->
  mnth (zscores_block base c t r k) i j = NaN.
Proof. exact (zscores_block_defective base c t r k i j). Qed.
Print Assumptions C12_defective_nan.

(* ... where "defective" is exactly: an empty axis, or no two linearly independent rows -
   every row is a multiple a_i * v of one vector v (equivalently all 2x2 minors vanish) *)
Theorem C12_defective_iff_rank_le1 nr nc (f : nat -> nat -> Q) : 0 < nr -> 0 < nc ->
  defective (fmat nr nc f) = true <->
  exists (a v : nat -> Q), forall i j, i < nr -> j < nc -> (f i j == a i * v j)%Q.
Proof. exact (defective_iff_rank_le1 nr nc f). Qed.
Print Assumptions C12_defective_iff_rank_le1.

Theorem C12_defective_empty m : nrows m = 0 \/ ncols m = 0 -> defective m = true.
Proof. exact (defective_empty m). Qed.
Print Assumptions C12_defective_empty.

Theorem C12_nondefective_witness nr nc (f : nat -> nat -> Q) :
  defective (fmat nr nc f) = false ->
  exists i i' j j', i < nr /\ i' < nr /\ j < nc /\ j' < nc /\
    ~ (f i j * f i' j' == f i j' * f i' j)%Q.
Proof. exact (nondefective_witness nr nc f). Qed.
Print Assumptions C12_nondefective_witness.

(* (6) the code's extra guard: a block all of whose table bases equal its row bases (or its
   column bases) is NaN instead of 0/0 or x/0 *)
Theorem C12_guard_nan base c t r k i j :
  mall_eq t r = true \/ mall_eq t k = true -> i < nrows c -> j < ncols c ->
  mnth (zscores_block base c t r k) i j = NaN.
Proof. exact (zscores_block_guard base c t r k i j). Qed.
Print Assumptions C12_guard_nan.

(* (7) boundary shares (a row or column share of 0 or 1 in a single cell): the variance is 0
   and the cell is 0/0 = NaN when the residual is 0, otherwise +-infinity *)
Theorem C12_zero_variance (c r k t : Q) : ~ (t == 0)%Q -> (qvar r k t == 0)%Q ->
  z_zabs (Fin c) (Fin r) (Fin k) (Fin t) =
  (if qzero ((c + - qexp r k t) * Qabs (c + - qexp r k t))%Q then NaN
   else Inf (qneg ((c + - qexp r k t) * Qabs (c + - qexp r k t))%Q)).
Proof. exact (z_zabs_zerovar c r k t). Qed.
Print Assumptions C12_zero_variance.

(* (8) p-values: for ANY function Phi with the shape of a symmetric CDF,
   p = 2 (1 - Phi |z|) lies in [0,1], is even in z, never increases with |z|, is the sum of
   the two tails, and is determined by z^2 (the quantity the model computes). *)
Theorem C12_pval_range (Phi : R -> R) :
  (forall x, Phi (- x) = 1 - Phi x)%R -> (forall x y, x <= y -> Phi x <= Phi y)%R ->
  (forall x, 0 <= Phi x <= 1)%R ->
  forall z, (0 <= pval Phi z <= 1)%R.
Proof. exact (pval_range Phi). Qed.
Print Assumptions C12_pval_range.

Theorem C12_pval_even (Phi : R -> R) z : pval Phi (- z) = pval Phi z.
Proof. exact (pval_even Phi z). Qed.
Print Assumptions C12_pval_even.

Theorem C12_pval_antitone (Phi : R -> R) :
  (forall x y, x <= y -> Phi x <= Phi y)%R ->
  forall x y, (Rabs x <= Rabs y)%R -> (pval Phi y <= pval Phi x)%R.
Proof. exact (pval_antitone Phi). Qed.
Print Assumptions C12_pval_antitone.

Theorem C12_pval_two_tails (Phi : R -> R) :
  (forall x, Phi (- x) = 1 - Phi x)%R ->
  forall z, pval Phi z = (Phi (- Rabs z) + (1 - Phi (Rabs z)))%R.
Proof. exact (pval_two_tails Phi). Qed.
Print Assumptions C12_pval_two_tails.

Theorem C12_pval_of_square (Phi : R -> R) x y : (x * x = y * y)%R -> pval Phi x = pval Phi y.
Proof. exact (pval_of_square Phi x y). Qed.
Print Assumptions C12_pval_of_square.

(* ---- non-vacuity ------------------------------------------------------------------------- *)
(* table 3 1 / 2 4: not defective; cell (0,0): e = 4*5/10 = 2, z|z| = 1*1/(2*(3/5)*(1/2)) = 5/3,
   which is also the chi-square 10*(12-2)^2/(4*6*5*5) = 5/3 *)
Example C12_example_regular :
  let cnt := [[Fin 3; Fin 1]; [Fin 2; Fin 4]] in
  let t := [[Fin 10; Fin 10]; [Fin 10; Fin 10]] in
  let r := [[Fin 4; Fin 4]; [Fin 6; Fin 6]] in
  let k := [[Fin 5; Fin 5]; [Fin 5; Fin 5]] in
  defective cnt = false /\ mall_eq t r = false /\ mall_eq t k = false /\
  mnth (zscores_block cnt cnt t r k) 0 0 =x= Fin (5 # 3) /\
  mnth (zscores_block cnt cnt t r k) 0 1 =x= Fin (- 5 # 3) /\
  z_sq (Fin 3) (Fin 4) (Fin 5) (Fin 10) =x= Fin (5 # 3).
Proof. vm_compute. repeat split; reflexivity. Qed.

(* proportional rows 1 2 / 2 4 (and a zero row): defective, everything NaN *)
Example C12_example_defective :
  let cnt := [[Fin 1; Fin 2]; [Fin 2; Fin 4]; [Fin 0; Fin 0]] in
  defective cnt = true /\ defective [[Fin 1; Fin 2; Fin 3]] = true /\
  defective [] = true /\ defective [[]; []] = true /\
  defective [[Fin 1; Fin 2]; [Fin 2; Fin (9 # 2)]] = false.
Proof. vm_compute. repeat split; reflexivity. Qed.

(* ==================================================================================== *)
(** * END TO END: the z-score block computed from a tabulated survey
      (Proofs/ComposeBase.v, Proofs/ComposeZscore.v)

   Above, count and bases of a cell are free rationals.  Below the whole pipeline runs on one
   survey S (Spec/Survey.v): [s_zscores S tv vr kr mr vc kc mc k] is Model/Zscore.v::zscores_block
   applied to the count block and the table / row / column base blocks that Model/CubeCounts.v
   extracts from [tabulate S] for partition k of a categorical / multiple-response x categorical /
   multiple-response cube (2-D: tv = None) -- [t_counts], [t_tb], [t_rb], [t_cb].  The four numbers
   of a cell are weighted respondent counts (Props/C03.v::C03_survey_numbers):
       c = w_cell (row i and column j)          r = w_rowbase (row i, eligible for column j)
       k = w_colbase (eligible for row i, column j)      t = w_tabbase (eligible for both). *)
From CC Require Import Spec.Survey Model.CubeCounts Proofs.CubeCountsProofs
     Proofs.ComposeBase Proofs.ComposeZscore.

(* every cell's statistic is a function of its four respondent counts *)
Theorem C12_survey_z_cell S tv vr kr mr vc kc mc k i j :
  t_ok tv -> cat_or_mr kr -> cat_or_mr kc -> k < t_n tv -> i < nval mr -> j < nval mc ->
  z_zabs (mnth (t_counts S tv vr kr mr vc kc mc k) i j) (mnth (t_rb S tv vr kr mr vc kc mc k) i j)
         (mnth (t_cb S tv vr kr mr vc kc mc k) i j) (mnth (t_tb S tv vr kr mr vc kc mc k) i j)
  =x= z_zabs (Fin (w_cell tv k vr kr mr vc kc mc S i j)) (Fin (w_rowbase tv k vr kr mr vc kc mc S i j))
             (Fin (w_colbase tv k vr kr mr vc kc mc S i j)) (Fin (w_tabbase tv k vr kr mr vc kc mc S i j)).
Proof. exact (fun Ht Hr Hc Hk => z_cell_survey S tv vr kr mr vc kc mc k Ht Hr Hc Hk i j). Qed.
Print Assumptions C12_survey_z_cell.

(* z_formula on the model's block: a table that is not defective and passes the all-equal
   guards, a cell strictly inside (0 < r < t, 0 < k < t) *)
Theorem C12_survey_z_formula S tv vr kr mr vc kc mc k i j :
  t_ok tv -> cat_or_mr kr -> cat_or_mr kc -> k < t_n tv ->
  defective (t_counts S tv vr kr mr vc kc mc k) = false ->
  mall_eq (t_tb S tv vr kr mr vc kc mc k) (t_rb S tv vr kr mr vc kc mc k) = false ->
  mall_eq (t_tb S tv vr kr mr vc kc mc k) (t_cb S tv vr kr mr vc kc mc k) = false ->
  i < nval mr -> j < nval mc ->
  let c := w_cell tv k vr kr mr vc kc mc S i j in
  let r := w_rowbase tv k vr kr mr vc kc mc S i j in
  let kk := w_colbase tv k vr kr mr vc kc mc S i j in
  let t := w_tabbase tv k vr kr mr vc kc mc S i j in
  (0 < r)%Q -> (r < t)%Q -> (0 < kk)%Q -> (kk < t)%Q ->
  let e := (r * kk / t)%Q in
  mnth (s_zscores S tv vr kr mr vc kc mc k) i j =x=
  Fin ((c - e) * Qabs (c - e) / (e * (1 - r / t) * (1 - kk / t)))%Q.
Proof. exact (fun Ht Hr Hc Hk => z_formula_survey S tv vr kr mr vc kc mc k Ht Hr Hc Hk i j). Qed.
Print Assumptions C12_survey_z_formula.

Theorem C12_survey_z_sign S tv vr kr mr vc kc mc k i j :
  t_ok tv -> cat_or_mr kr -> cat_or_mr kc -> k < t_n tv ->
  defective (t_counts S tv vr kr mr vc kc mc k) = false ->
  mall_eq (t_tb S tv vr kr mr vc kc mc k) (t_rb S tv vr kr mr vc kc mc k) = false ->
  mall_eq (t_tb S tv vr kr mr vc kc mc k) (t_cb S tv vr kr mr vc kc mc k) = false ->
  i < nval mr -> j < nval mc ->
  let c := w_cell tv k vr kr mr vc kc mc S i j in
  let r := w_rowbase tv k vr kr mr vc kc mc S i j in
  let kk := w_colbase tv k vr kr mr vc kc mc S i j in
  let t := w_tabbase tv k vr kr mr vc kc mc S i j in
  (0 < r)%Q -> (r < t)%Q -> (0 < kk)%Q -> (kk < t)%Q ->
  let e := (r * kk / t)%Q in
  exists z2, mnth (s_zscores S tv vr kr mr vc kc mc k) i j = Fin z2 /\
    ((0 < z2)%Q <-> (e < c)%Q) /\ ((z2 < 0)%Q <-> (c < e)%Q) /\ ((z2 == 0)%Q <-> (c == e)%Q).
Proof. exact (fun Ht Hr Hc Hk => z_sign_survey S tv vr kr mr vc kc mc k Ht Hr Hc Hk i j). Qed.
Print Assumptions C12_survey_z_sign.

(* DERIVED from the survey (non-negative weights): 0 <= r <= t and 0 <= k <= t, so every cell is
   either strictly inside -- the hypotheses of the two theorems above -- or on the boundary where
   the variance is 0 (C12_zero_variance); the code's variance is never negative, so the NaN of
   np.sqrt(negative) cannot occur *)
Theorem C12_survey_interior_or_boundary S tv vr kr mr vc kc mc k i j : wf_survey S ->
  let r := w_rowbase tv k vr kr mr vc kc mc S i j in
  let kk := w_colbase tv k vr kr mr vc kc mc S i j in
  let t := w_tabbase tv k vr kr mr vc kc mc S i j in
  ((0 < r)%Q /\ (r < t)%Q /\ (0 < kk)%Q /\ (kk < t)%Q)
  \/ (r == 0)%Q \/ (r == t)%Q \/ (kk == 0)%Q \/ (kk == t)%Q.
Proof. exact (fun Hwf => z_interior_or_boundary S tv vr kr mr vc kc mc k Hwf i j). Qed.
Print Assumptions C12_survey_interior_or_boundary.

Theorem C12_survey_variance_nonneg S tv vr kr mr vc kc mc k i j : wf_survey S ->
  ~ (w_tabbase tv k vr kr mr vc kc mc S i j == 0)%Q ->
  (0 <= qvar (w_rowbase tv k vr kr mr vc kc mc S i j) (w_colbase tv k vr kr mr vc kc mc S i j)
             (w_tabbase tv k vr kr mr vc kc mc S i j))%Q.
Proof. exact (fun Hwf => z_variance_nonneg S tv vr kr mr vc kc mc k Hwf i j). Qed.
Print Assumptions C12_survey_variance_nonneg.

(* 2 x 2 CATEGORICAL tables (two valid rows, two valid columns; any missing categories, 2-D or a
   partition of a 3-D cube) with non-zero margins: with a, b, c, d the weighted numbers of
   respondents in the four cells, z^2 of EVERY cell of the model's block is Pearson's chi-square
   N (ad - bc)^2 / (R1 R2 K1 K2); the guards of the code are derived, the table is defective
   exactly when ad = bc -- then every cell is NaN and chi-square is 0 *)
Theorem C12_survey_2x2_chi2 S tv vr vc mr mc k :
  t_ok tv -> k < t_n tv -> nval mr = 2 -> nval mc = 2 ->
  let a := w_cell tv k vr KCat mr vc KCat mc S 0 0 in
  let b := w_cell tv k vr KCat mr vc KCat mc S 0 1 in
  let c := w_cell tv k vr KCat mr vc KCat mc S 1 0 in
  let d := w_cell tv k vr KCat mr vc KCat mc S 1 1 in
  (0 < a + b)%Q -> (0 < c + d)%Q -> (0 < a + c)%Q -> (0 < b + d)%Q ->
  forall i j, i < 2 -> j < 2 ->
  (~ (a * d == b * c)%Q ->
     xabs (mnth (s_zscores S tv vr KCat mr vc KCat mc k) i j) =x= Fin (chi2_of a b c d)) /\
  ((a * d == b * c)%Q ->
     mnth (s_zscores S tv vr KCat mr vc KCat mc k) i j = NaN /\ (chi2_of a b c d == 0)%Q).
Proof.
  exact (fun Ht Hk Hnr Hnc M1 M2 M3 M4 i j Hi Hj =>
    conj (chi2_block_survey S tv vr vc mr mc k Ht Hk Hnr Hnc M1 M2 M3 M4 i j Hi Hj)
         (chi2_degenerate_survey S tv vr vc mr mc k Ht Hk Hnr Hnc i j Hi Hj)).
Qed.
Print Assumptions C12_survey_2x2_chi2.

Theorem C12_survey_chi2_def a b c d :
  chi2_of a b c d =
  ((a + b + c + d) * ((a * d - b * c) * (a * d - b * c)) / ((a + b) * (c + d) * (a + c) * (b + d)))%Q.
Proof. exact eq_refl. Qed.
Print Assumptions C12_survey_chi2_def.

(* the same on the cell level without any block hypothesis *)
Theorem C12_survey_2x2_chi2_cells S tv vr vc mr mc k :
  t_ok tv -> k < t_n tv -> nval mr = 2 -> nval mc = 2 ->
  let a := w_cell tv k vr KCat mr vc KCat mc S 0 0 in
  let b := w_cell tv k vr KCat mr vc KCat mc S 0 1 in
  let c := w_cell tv k vr KCat mr vc KCat mc S 1 0 in
  let d := w_cell tv k vr KCat mr vc KCat mc S 1 1 in
  (0 < a + b)%Q -> (0 < c + d)%Q -> (0 < a + c)%Q -> (0 < b + d)%Q ->
  forall i j, i < 2 -> j < 2 ->
  z_sq (mnth (t_counts S tv vr KCat mr vc KCat mc k) i j) (mnth (t_rb S tv vr KCat mr vc KCat mc k) i j)
       (mnth (t_cb S tv vr KCat mr vc KCat mc k) i j) (mnth (t_tb S tv vr KCat mr vc KCat mc k) i j)
  =x= Fin (chi2_of a b c d).
Proof. exact (chi2_cell_survey S tv vr vc mr mc k). Qed.
Print Assumptions C12_survey_2x2_chi2_cells.

(* Non-vacuity.  Six respondents with rational weights, two categorical variables with a MISSING
   category each (one respondent answers it): the 2 x 2 table of valid answers is
   3 1 / 2 4 -- e = 4*5/10 = 2 for cell (0,0), z|z| = 5/3 = chi-square; a second survey whose
   table 1 2 / 2 4 is proportional (ad = bc): NaN *)
Example C12_survey_example :
  let S := [ mkResp [ACat 0; ACat 0] 3; mkResp [ACat 0; ACat 2] (1 # 2); mkResp [ACat 0; ACat 2] (1 # 2);
             mkResp [ACat 2; ACat 0] 2; mkResp [ACat 2; ACat 2] 4; mkResp [ACat 1; ACat 0] 7;
             mkResp [ACat 0; ACat 1] 9 ] in
  let S0 := [ mkResp [ACat 0; ACat 0] 1; mkResp [ACat 0; ACat 2] 2;
              mkResp [ACat 2; ACat 0] 2; mkResp [ACat 2; ACat 2] 4 ] in
  let ms := [false; true; false] in
  t_ok None /\ 0 < t_n None /\ nval ms = 2 /\ wf_survey S /\
  let a := w_cell None 0 0 KCat ms 1 KCat ms S 0 0 in
  let b := w_cell None 0 0 KCat ms 1 KCat ms S 0 1 in
  let c := w_cell None 0 0 KCat ms 1 KCat ms S 1 0 in
  let d := w_cell None 0 0 KCat ms 1 KCat ms S 1 1 in
  (a == 3 /\ b == 1 /\ c == 2 /\ d == 4)%Q /\
  (0 < a + b)%Q /\ (0 < c + d)%Q /\ (0 < a + c)%Q /\ (0 < b + d)%Q /\ ~ (a * d == b * c)%Q /\
  defective (t_counts S None 0 KCat ms 1 KCat ms 0) = false /\
  mall_eq (t_tb S None 0 KCat ms 1 KCat ms 0) (t_rb S None 0 KCat ms 1 KCat ms 0) = false /\
  mall_eq (t_tb S None 0 KCat ms 1 KCat ms 0) (t_cb S None 0 KCat ms 1 KCat ms 0) = false /\
  (0 < w_rowbase None 0 0 KCat ms 1 KCat ms S 0 0 < w_tabbase None 0 0 KCat ms 1 KCat ms S 0 0)%Q /\
  (0 < w_colbase None 0 0 KCat ms 1 KCat ms S 0 0 < w_tabbase None 0 0 KCat ms 1 KCat ms S 0 0)%Q /\
  map (map xred) (s_zscores S None 0 KCat ms 1 KCat ms 0)
    = [[Fin (5 # 3); Fin (- 5 # 3)]; [Fin (- 5 # 3); Fin (5 # 3)]] /\
  (chi2_of a b c d == 5 # 3)%Q /\
  s_zscores S0 None 0 KCat ms 1 KCat ms 0 = [[NaN; NaN]; [NaN; NaN]].
Proof.
  cbv zeta. repeat split; try lia; try (repeat constructor; discriminate);
    try (vm_compute; reflexivity); try (vm_compute; discriminate).
Qed.

(* ==== GenAgree (measures): what matrix/measure.py, stripe/measure.py, cubepart.py SAY NOW ==== *)
(* Gen/MeasureSrc.v, Gen/StripeMeasureSrc.v, Gen/PartMeasureSrc.v are REWRITTEN FROM THE SOURCE on every
   check by harness/translate/measures.py (an `ast` whitelist, fail-closed): one [option mexp] per
   (class, member) -- per block for a `blocks` member -- read through the wiring of the collection class.
   The theorems below say that what the source SAYS NOW ([meval] / the signed-square reading [meval_sq] of
   the translated term, Base/MeasureExp.v), for ALL input blocks, sizes and subtotal lists, IS the
   definition of Model.Zscore the theorems above are about -- tagged shape and every in-range cell.
   [None] on the left = the translator could not read the member (then only the correspondence ties it).
   A change of meaning in the source breaks these obligations (Proofs/GenAgreeZscore.v fails). *)
From Coq Require String.
From CC Require Base.MeasureExp Model.Subtotals Model.Proportions Gen.MeasureSrc Gen.StripeMeasureSrc Gen.PartMeasureSrc Gen.Tables
     Proofs.GenAgreeMeasTac Proofs.GenAgreeZscore.
Section GenAgreeMeasures_C12.   (* scopes and imports below end with the section *)
Import Coq.Strings.String CC.Base.MeasureExp CC.Model.Subtotals CC.Model.Proportions CC.Gen.MeasureSrc CC.Gen.StripeMeasureSrc
       CC.Gen.PartMeasureSrc CC.Gen.Tables CC.Proofs.GenAgreeMeasTac CC.Proofs.GenAgreeZscore.
Import Coq.Lists.List.ListNotations CC.Base.XQ.
Local Close Scope Q_scope.
Local Open Scope string_scope.
Local Open Scope nat_scope.

Theorem C12_gen_zscores :
  (match src_Zscores_blocks_00 with
  | Some e => forall nr nc rsubs csubs rd cd blk cubem cubeflag flag,
      z_shaped blk 0 0 (nr) (nc) ->
      holds_mat_sq (menv_mat nr nc rsubs csubs rd cd blk cubem cubeflag flag) e DR DC
        (mnth (z_model blk flag 0 0))
  | None => True
  end) /\
  (match src_Zscores_blocks_01 with
  | Some e => forall nr nc rsubs csubs rd cd blk cubem cubeflag flag,
      z_shaped blk 0 1 (nr) (List.length csubs) ->
      holds_mat_sq (menv_mat nr nc rsubs csubs rd cd blk cubem cubeflag flag) e DR DCS
        (mnth (z_model blk flag 0 1))
  | None => True
  end) /\
  (match src_Zscores_blocks_10 with
  | Some e => forall nr nc rsubs csubs rd cd blk cubem cubeflag flag,
      z_shaped blk 1 0 (List.length rsubs) (nc) ->
      holds_mat_sq (menv_mat nr nc rsubs csubs rd cd blk cubem cubeflag flag) e DRS DC
        (mnth (z_model blk flag 1 0))
  | None => True
  end) /\
  (match src_Zscores_blocks_11 with
  | Some e => forall nr nc rsubs csubs rd cd blk cubem cubeflag flag,
      z_shaped blk 1 1 (List.length rsubs) (List.length csubs) ->
      holds_mat_sq (menv_mat nr nc rsubs csubs rd cd blk cubem cubeflag flag) e DRS DCS
        (mnth (z_model blk flag 1 1))
  | None => True
  end).
Proof. exact (conj gen_Zscores_blocks_00 (conj gen_Zscores_blocks_01 (conj gen_Zscores_blocks_10 gen_Zscores_blocks_11))). Qed.
Print Assumptions C12_gen_zscores.

Theorem C12_gen_is_defective :
  match src_Zscores__is_defective with
  | Some c => forall nr nc rsubs csubs rd cd blk cubem cubeflag flag,
      nrows (blk "weighted_counts" 0 0) = nr -> ncols (blk "weighted_counts" 0 0) = nc ->
      ceval (menv_mat nr nc rsubs csubs rd cd blk cubem cubeflag flag) c =
      Some (defective (blk "weighted_counts" 0 0))
  | None => True
  end.
Proof. exact gen_Zscores__is_defective. Qed.
Print Assumptions C12_gen_is_defective.

(* non-vacuity: the table [[3, 1], [1, 3]] (margins 4, 4 of 8): expected 2, variance 1/2, so the
   translated z*|z| is 2 in cell (0, 0) and -2 in cell (0, 1) *)
Example C12_gen_example :
  match src_Zscores_blocks_00 with
  | Some e =>
      let blk := fun (m : string) (_ _ : nat) =>
        if String.eqb m "weighted_counts" then [[Fin 3%Q; Fin 1%Q]; [Fin 1%Q; Fin 3%Q]]
        else if String.eqb m "table_weighted_bases" then [[Fin 8%Q; Fin 8%Q]; [Fin 8%Q; Fin 8%Q]]
        else [[Fin 4%Q; Fin 4%Q]; [Fin 4%Q; Fin 4%Q]] in
      match meval_sq (menv_mat 2 2 [] [] false false blk (fun _ _ => []) (fun _ _ => false) (fun _ => false)) e with
      | VMat DR DC f => f 0 0 =x= Fin 2%Q /\ f 0 1 =x= Fin (Qmake (-2) 1)
      | _ => False
      end
  | None => True
  end.
Proof. vm_compute. first [exact I | split; reflexivity]. Qed.

End GenAgreeMeasures_C12.

(* ---- WIRING-APPENDIX:BEGIN (generated by tools/gen_wiring_props.py; do not edit) ---- *)
From CC Require Proofs.GenAgreeWiring_C12.
Section Wiring_C12.
Import Coq.Lists.List Coq.ZArith.ZArith Coq.Strings.String CC.Base.WiringExp CC.Gen.WiringSrc.
Import ListNotations.
Local Open Scope string_scope.

Theorem C12_wiring_Slice_pvals :
  wsrc_Slice_pvals = Some (w_matrix_of "pvalues").
Proof. exact Proofs.GenAgreeWiring_C12.gen_wiring_Slice_pvals. Qed.
Print Assumptions C12_wiring_Slice_pvals.

Theorem C12_wiring_Slice_residual_test_stats :
  wsrc_Slice_residual_test_stats = Some (WCall (WAttr (WGlobal "np") "stack") [WList [WSelf "pvals";
      WSelf "zscores"]] []).
Proof. exact Proofs.GenAgreeWiring_C12.gen_wiring_Slice_residual_test_stats. Qed.
Print Assumptions C12_wiring_Slice_residual_test_stats.

Theorem C12_wiring_Slice_zscores :
  wsrc_Slice_zscores = Some (w_matrix_of "zscores").
Proof. exact Proofs.GenAgreeWiring_C12.gen_wiring_Slice_zscores. Qed.
Print Assumptions C12_wiring_Slice_zscores.

Theorem C12_wiring_SecondOrderMeasures_pvalues :
  wsrc_SecondOrderMeasures_pvalues = Some (WCall (WGlobal "_Pvalues") [WSelf "_dimensions"; WVar
      "self"; WSelf "_cube_measures"] []).
Proof. exact Proofs.GenAgreeWiring_C12.gen_wiring_SecondOrderMeasures_pvalues. Qed.
Print Assumptions C12_wiring_SecondOrderMeasures_pvalues.

Theorem C12_wiring_SecondOrderMeasures_zscores :
  wsrc_SecondOrderMeasures_zscores = Some (WCall (WGlobal "_Zscores") [WSelf "_dimensions"; WVar
      "self"; WSelf "_cube_measures"] []).
Proof. exact Proofs.GenAgreeWiring_C12.gen_wiring_SecondOrderMeasures_zscores. Qed.
Print Assumptions C12_wiring_SecondOrderMeasures_zscores.

End Wiring_C12.
(* ---- WIRING-APPENDIX:END ---- *)

(* ---- PVALUES-APPENDIX:BEGIN (generated by tools/gen_c12_pvalues_appendix.py; do not edit) ---- *)
(* GenAgree (residual p-values): what matrix/measure.py SAYS NOW for SecondOrderMeasures.pvalues.
   Gen/PairwiseSrc.v is REWRITTEN FROM THE SOURCE on every check by harness/translate/x_pairwise.py (an `ast`
   whitelist, fail-closed); [src_Pvalues_blocks_ij] is what _Pvalues.blocks / _calculate_pval say for block
   (i, j), read through the wiring of SecondOrderMeasures ([None] = the translator could not read it: then
   only the correspondence ties it).  C12_gen_Pvalues: for ALL sizes and z-score blocks and for EVERY function
   standing for scipy's norm.cdf the value of that term ([pev false], Base/PairExp.v) is, cell by cell,
   2 (1 - ncdf(|z|)) of the z-score the zscores measure reports in that cell ([pval_n] of Model/ZscoreP.v on
   z*|z|; the empty-block guard `0 in zscores.shape` included).  C12_gen_Pvalues_is_pval: whenever that
   function represents a real function Phi (ncdf(y) = Phi(sqrt y)), this IS [pval Phi z] of
   Proofs/ZscorePval.v - the definition C12_pval_range / _even / _antitone / _two_tails / _of_square are about. *)
From Coq Require String.
From CC Require Base.MeasureExp Base.PairExp Model.ZscoreP Gen.PairwiseSrc Proofs.ZscorePProofs
     Proofs.GenAgreePairTac Proofs.GenAgreePvalues.
Section GenAgreePvalues_C12.   (* scopes and imports below end with the section *)
Import Coq.Strings.String CC.Base.MeasureExp CC.Base.PairExp CC.Model.ZscoreP CC.Gen.PairwiseSrc
       CC.Proofs.ZscorePProofs CC.Proofs.GenAgreePairTac CC.Proofs.GenAgreePvalues.
Import Coq.Lists.List.ListNotations CC.Base.XQ.
Local Close Scope R_scope.
Local Close Scope Q_scope.
Local Open Scope string_scope.
Local Open Scope nat_scope.

Theorem C12_gen_Pvalues :
  (match src_Pvalues_blocks_00 with
  | Some e => forall nr nc nrs ncs blk ncdf,
      pagrees_mat (penv_pv nr nc nrs ncs blk ncdf) (pev false (penv_pv nr nc nrs ncs blk ncdf) e) DR DC
                  (pv_cell ncdf blk 0 0)
  | None => True
  end) /\
  (match src_Pvalues_blocks_01 with
  | Some e => forall nr nc nrs ncs blk ncdf,
      pagrees_mat (penv_pv nr nc nrs ncs blk ncdf) (pev false (penv_pv nr nc nrs ncs blk ncdf) e) DR DCS
                  (pv_cell ncdf blk 0 1)
  | None => True
  end) /\
  (match src_Pvalues_blocks_10 with
  | Some e => forall nr nc nrs ncs blk ncdf,
      pagrees_mat (penv_pv nr nc nrs ncs blk ncdf) (pev false (penv_pv nr nc nrs ncs blk ncdf) e) DRS DC
                  (pv_cell ncdf blk 1 0)
  | None => True
  end) /\
  (match src_Pvalues_blocks_11 with
  | Some e => forall nr nc nrs ncs blk ncdf,
      pagrees_mat (penv_pv nr nc nrs ncs blk ncdf) (pev false (penv_pv nr nc nrs ncs blk ncdf) e) DRS DCS
                  (pv_cell ncdf blk 1 1)
  | None => True
  end).
Proof. exact (conj gen_Pvalues_blocks_00 (conj gen_Pvalues_blocks_01 (conj gen_Pvalues_blocks_10 gen_Pvalues_blocks_11))). Qed.
Print Assumptions C12_gen_Pvalues.

Theorem C12_gen_Pvalues_is_pval (ncdf : xq -> xq) (Phi : R -> R) (z p : Q) :
  represents ncdf Phi ->
  pval_n ncdf (xmul (Fin z) (xabs (Fin z))) = Fin p ->
  Q2R p = pval Phi (Q2R z).
Proof. exact (pval_n_is_pval ncdf Phi z p). Qed.
Print Assumptions C12_gen_Pvalues_is_pval.

Theorem C12_pvalues_model_cell ncdf ZZ i j : i < nrows ZZ -> j < ncols ZZ ->
  mnth (pblock_n ncdf ZZ) i j = pval_n ncdf (mnth ZZ i j).
Proof. exact (pblock_n_cell ncdf ZZ i j). Qed.
Print Assumptions C12_pvalues_model_cell.

(* non-vacuity: a function that represents a Phi with Phi(1) = 3/4 gives p = 1/2 at z = -1 *)
Example C12_gen_Pvalues_example :
  let ncdf := fun y : xq => match y with Fin q => Fin (q * (3 # 4))%Q | _ => NaN end in
  pval_n ncdf (xmul (Fin (-1)%Q) (xabs (Fin (-1)%Q))) =x= Fin (1 # 2)%Q.
Proof. vm_compute. reflexivity. Qed.

End GenAgreePvalues_C12.
(* ---- PVALUES-APPENDIX:END ---- *)

(*BEGIN ComposePublic_C12*)
(* ==== COMPOSED PUBLIC THEOREMS (DESIGN 8.1: the composition of the translators' links, proved) ==== *)
(* Generated by tools/gen_compose_appendix.py; do not edit between the markers.
   [public_slice C p] (Proofs/ComposePublicSem.v) is the value of the public member p of cubepart._Slice computed
   by the CHAIN OF GENERATED TERMS: the wiring term of p (Gen/WiringSrc.v, x_wiring) over the evaluation ([aeval]) of
   the generated `_assemble_matrix` term (Gen/AssembleSrc.v, x_assemble) over the evaluations ([meval] / [meval_sq] /
   [beval]) of the generated block terms of the measure (Gen/MeasureSrc.v, Gen/BasesSrc.v) -- each in the environment
   in which the blocks of the measures it mentions are again evaluations of generated terms -- on the context
   [Cs ..]: the four first-order arrays Model/CubeCounts.v::slice_counts extracts from the flat payload of
   `tabulate S` ([survey_payload]), any subtotals / flags, any pair of in-range signed display orders.
   [need b P] = P when every generated term named in b is available ([None] => True, like the GenAgree lemmas);
   Cxx_public_terms_available: on this tree they all are.  The proofs use the GenAgree lemmas of the links as they
   are (never unfolding a generated term) and Proofs/Compose*.v / Merge*.v for the last step to the respondents.
   A change of MEANING of any generated term of a chain breaks the composed theorem of every member above it. *)
From Coq Require String.
From CC Require Spec.Merge Model.Subtotals Model.Proportions Proofs.MergeSurvey Proofs.ComposeBase Proofs.ComposePayload
     Proofs.ComposePublicSem Proofs.ComposePublicLinks Proofs.ComposePublicSlice Proofs.ComposePublicCells Model.Zscore Proofs.ComposeZscore Proofs.ComposePublicChain4 Proofs.ComposePublicC12.
Section ComposePublic_C12.   (* scopes and imports below end with the section *)
Import Coq.Strings.String Coq.ZArith.ZArith CC.Spec.Merge CC.Model.Subtotals CC.Model.Proportions CC.Proofs.MergeSurvey
       CC.Proofs.ComposeBase CC.Proofs.ComposePayload CC.Proofs.ComposePublicSem CC.Proofs.ComposePublicLinks
       CC.Proofs.ComposePublicSlice CC.Proofs.ComposePublicCells CC.Model.Zscore CC.Proofs.ComposeZscore CC.Proofs.ComposePublicChain4 CC.Proofs.ComposePublicC12.
Import Coq.Lists.List.ListNotations.
Local Close Scope Q_scope.
Local Open Scope string_scope.
Local Open Scope nat_scope.


(* the vocabulary of the statement ([survey_display]: C03_public_vocabulary, [base_cells_spec]: C11_public_vocabulary) *)
Theorem C12_public_vocabulary :
  forall S tv vr kr mr vc kc mc k r c x,
     z_cell_spec S tv vr kr mr vc kc mc k r c x =
     (let Cm := t_counts S tv vr kr mr vc kc mc k in
      let RB := t_rb S tv vr kr mr vc kc mc k in
      let CB := t_cb S tv vr kr mr vc kc mc k in
      let TB := t_tb S tv vr kr mr vc kc mc k in
      let wc := w_cell tv k vr kr mr vc kc mc S r c in
      let wr := w_rowbase tv k vr kr mr vc kc mc S r c in
      let wk := w_colbase tv k vr kr mr vc kc mc S r c in
      let wt := w_tabbase tv k vr kr mr vc kc mc S r c in
      (defective Cm = true -> x = NaN) /\
      (defective Cm = false -> mall_eq TB RB = false -> mall_eq TB CB = false ->
       (0 < wr)%Q -> (wr < wt)%Q -> (0 < wk)%Q -> (wk < wt)%Q ->
       let e := (wr * wk / wt)%Q in
       x =x= Fin ((wc - e) * Qabs.Qabs (wc - e) / (e * (1 - wr / wt) * (1 - wk / wt)))%Q)).
Proof. exact (fun _ _ _ _ _ _ _ _ _ _ _ _ => eq_refl). Qed.
Print Assumptions C12_public_vocabulary.

(* _Slice.zscores, carried as the SIGNED SQUARE z*|z|, at a display cell showing base row r, base column c: NaN for a defective table, otherwise (interior cell, guards not firing) the residual formula in the respondent-level numbers. `self._is_defective` is the evaluation of its own generated term *)
Theorem C12_public_Slice_zscores :
  need terms_public_zscores
  (forall S tv vr kr mr vc kc mc k rsubs csubs dn rd cd flag ro co so,
     survey_display S tv vr kr mr vc kc mc k rsubs csubs ro co so ->
     base_cells_spec (public_slice (Cs mr mc rsubs csubs dn rd cd flag ro co so) "zscores") ro co
       (z_cell_spec S tv vr kr mr vc kc mc k)).
Proof. exact compose_public_Slice_zscores. Qed.
Print Assumptions C12_public_Slice_zscores.

(* NON-VACUITY of the guards: every generated term the chains need is available on this tree *)
Theorem C12_public_terms_available :
  terms_public_zscores = true.
Proof. exact eq_refl. Qed.
Print Assumptions C12_public_terms_available.

(* EXAMPLE: the survey, subtotal and display of the C03_public_* examples; display cell (0, 1) shows base row 1, base column 0 *)
Example C12_public_Slice_zscores_example :
  let S := [ mkResp [ACat 0; AMr [Sel; Oth]; ACat 0] (3 # 2);
             mkResp [ACat 2; AMr [Sel; Mis]; ACat 1] 2;
             mkResp [ACat 1; AMr [Sel; Sel]; ACat 0] 5;
             mkResp [ACat 2; AMr [Oth; Sel]; ACat 1] (1 # 4);
             mkResp [ACat 0; AMr [Oth; Oth]; ACat 2] 1 ] in
  let mr := [false; true; false; false] in
  let mc := [false; false] in
  let rs := [mkSub [0; 2] []] in
  let ro := [1; -1; 0]%Z in
  let co := [1; 0]%Z in
  match slice_counts (cube_dims None KCat mr KMr mc) (survey_payload None 0 KCat mr 1 KMr mc S) 0 with
  | Some so =>
      let P := public_slice (Cs mr mc rs [] false false false (fun _ => false) ro co so) "zscores" in
      survey_display S None 0 KCat mr 1 KMr mc 0 rs [] ro co so /\
      base_cells_spec P ro co (z_cell_spec S None 0 KCat mr 1 KMr mc 0) /\
      pred P = PMat 3 2 [[Fin (11 # 4); Fin (3211 # 6300)]; [Fin (-11 # 4); Fin (-3211 # 6300)]; [Fin (-11 # 4); Fin (-3211 # 6300)]] /\
      (let wc := w_cell None 0 0 KCat mr 1 KMr mc S 1 0 in let wr := w_rowbase None 0 0 KCat mr 1 KMr mc S 1 0 in let wk := w_colbase None 0 0 KCat mr 1 KMr mc S 1 0 in let wt := w_tabbase None 0 0 KCat mr 1 KMr mc S 1 0 in let e := wr * wk / wt in (wc - e) * Qabs.Qabs (wc - e) / (e * (1 - wr / wt) * (1 - wk / wt)) == 3211 # 6300)%Q
  | None => False
  end.
Proof.
  cbv zeta.
  destruct (slice_counts (cube_dims None KCat [false; true; false; false] KMr [false; false])
              (survey_payload None 0 KCat [false; true; false; false] 1 KMr [false; false] _) 0) as [so|] eqn:E;
    [|vm_compute in E; discriminate].
  assert (D : survey_display
                [ mkResp [ACat 0; AMr [Sel; Oth]; ACat 0] (3 # 2); mkResp [ACat 2; AMr [Sel; Mis]; ACat 1] 2;
                  mkResp [ACat 1; AMr [Sel; Sel]; ACat 0] 5; mkResp [ACat 2; AMr [Oth; Sel]; ACat 1] (1 # 4);
                  mkResp [ACat 0; AMr [Oth; Oth]; ACat 2] 1 ]
                None 0 KCat [false; true; false; false] 1 KMr [false; false] 0 [mkSub [0; 2] []] []
                [1; -1; 0]%Z [1; 0]%Z so).
  { split; [exact I|]. split; [left; reflexivity|]. split; [right; reflexivity|]. split; [vm_compute; lia|].
    split; [repeat constructor; discriminate|]. split; [vm_compute; lia|]. split; [vm_compute; lia|].
    split; [exact E|]. split; repeat constructor; vm_compute; discriminate. }
  split; [exact D|].
  split; [exact (need_elim _ _ eq_refl C12_public_Slice_zscores _ _ _ _ _ _ _ _ _ _ _ _ _ _ _ _ _ _ D)|].
  vm_compute in E. injection E as <-.
  split; [vm_compute; reflexivity|]. vm_compute; reflexivity.
Qed.

End ComposePublic_C12.
(*END ComposePublic_C12*)
