(* C08 - Sort-by-value ordering is monotone in the requested measure.
   Statements only; proofs in Proofs/OrderSbv.v, Proofs/SortKeysProofs.v, Proofs/SortKeysResolve.v,
   Proofs/SortKeysReals.v; executable models Model/Collator.v (SortByValueCollator, payload fallback)
   and Model/SortKeys.v (keyword tables, key resolution of the row / column / strand order helpers),
   tied to the code by harness/props/c08.py.

   Reading guide.  [vals] / [svals] are the sort values of the base elements / subtotals in payload
   order (numbers incl. NaN, or labels); signed indexes: base element i is [Z.of_nat i], the k-th of n
   subtotals is k - n.  [may_precede desc val a b] is the reader's relation "a may stand before b":
   valued before NaN-valued; two valued ones: not smaller (descending) / not larger (ascending),
   equal values in Python's tuple order; two NaN-valued ones: payload order. *)
From Coq Require Import List Sorting Permutation ZArith String Bool Lia Arith QArith Reals.
From CC Require Import Base.XQ Base.ListX Base.SortX Spec.OrderSpec Model.Collator Model.SortKeys
  Proofs.OrderVisible Proofs.SbvDedup Proofs.OrderSbv Proofs.SortKeysProofs Proofs.SortKeysResolve
  Proofs.SortKeysReals.
Import ListNotations.
Local Close Scope Q_scope.
Local Close Scope R_scope.
Local Open Scope nat_scope.

(* ---- shape ------------------------------------------------------------------------------------------ *)
(* The collator concatenates  subtotal group (if descending) ++ fixed top ++ sorted body ++ NaN bucket
   ++ fixed bottom ++ subtotal group (if ascending),  drops the hidden elements and keeps the FIRST
   mention of every index (tuple(dict.fromkeys(...)), since the repair of finding C05-fixed-repeats).
   [sbv_plain] is the list before that last step. *)
Theorem C08_sbv_first_mentions d s vals svals empties :
  sbv_display d s vals svals empties = first_mentions (sbv_plain d s vals svals empties).
Proof. exact (sbv_display_first_mentions d s vals svals empties). Qed.
Print Assumptions C08_sbv_first_mentions.

(* For ANY fixed lists (ids repeated inside a list, named at both ends, stale ids): the display is the
   visible part of that concatenation with the fixed groups of [fixed_normal s] - every id where it is
   first mentioned: once inside a list, and an id of fixed.top is ignored in fixed.bottom - while the
   body leaves out every element that s names in either list (a fixed element never appears in the
   body, C08_body_members / C08_nans_members). *)
Theorem C08_sbv_shape d s vals svals empties :
  sbv_display d s vals svals empties =
  let ids := d_ids d in
  let top := fixed_idxs ids (s_top (fixed_normal s)) in
  let bottom := fixed_idxs ids (s_bottom (fixed_normal s)) in
  let fixed := fixed_idxs ids (s_top s) ++ fixed_idxs ids (s_bottom s) in
  let subs := map snd (sort_vkeys (s_desc s) (subtotal_keys svals)) ++ subtotal_nans svals in
  displayed (collator_hidden d empties)
    ((if s_desc s then subs else [])
     ++ map Z.of_nat top
     ++ (map snd (sort_vkeys (s_desc s) (body_keys vals fixed)) ++ body_nans vals fixed)
     ++ map Z.of_nat bottom
     ++ (if s_desc s then [] else subs)).
Proof. exact (sbv_shape d s vals svals empties). Qed.
Print Assumptions C08_sbv_shape.

(* the same in one line: the display order under s IS the plain concatenation under [fixed_normal s] *)
Theorem C08_sbv_normal d s vals svals empties :
  sbv_display d s vals svals empties = sbv_plain d (fixed_normal s) vals svals empties.
Proof. exact (sbv_display_normal d s vals svals empties). Qed.
Print Assumptions C08_sbv_normal.

(* When no element of the dimension is named twice in fixed.top ++ fixed.bottom ([fixed_once]; stale ids
   may repeat) the fixed lists stand as they are listed. *)
Theorem C08_sbv_shape_fixed_once d s vals svals empties :
  fixed_once (d_ids d) s ->
  sbv_display d s vals svals empties =
  let ids := d_ids d in
  let top := fixed_idxs ids (s_top s) in
  let bottom := fixed_idxs ids (s_bottom s) in
  let subs := map snd (sort_vkeys (s_desc s) (subtotal_keys svals)) ++ subtotal_nans svals in
  displayed (collator_hidden d empties)
    ((if s_desc s then subs else [])
     ++ map Z.of_nat top
     ++ (map snd (sort_vkeys (s_desc s) (body_keys vals (top ++ bottom)))
         ++ body_nans vals (top ++ bottom))
     ++ map Z.of_nat bottom
     ++ (if s_desc s then [] else subs)).
Proof. exact (sbv_shape_fixed_once d s vals svals empties). Qed.
Print Assumptions C08_sbv_shape_fixed_once.

(* the fixed-top and fixed-bottom elements bracket the free base elements; the subtotal group is
   first when descending, last when ascending *)
Theorem C08_brackets d s vals svals empties :
  sbv_display d s vals svals empties =
  displayed (collator_hidden d empties)
    ((if s_desc s then subtotal_idxs (s_desc s) svals else [])
     ++ map Z.of_nat (fixed_idxs (d_ids d) (s_top (fixed_normal s))))
  ++ displayed (collator_hidden d empties) (body_idxs (s_desc s) vals (all_fixed d s))
  ++ displayed (collator_hidden d empties)
       (map Z.of_nat (fixed_idxs (d_ids d) (s_bottom (fixed_normal s)))
        ++ (if s_desc s then [] else subtotal_idxs (s_desc s) svals)).
Proof. exact (display_brackets d s vals svals empties). Qed.
Print Assumptions C08_brackets.

Theorem C08_brackets_fixed_once d s vals svals empties :
  fixed_once (d_ids d) s ->
  sbv_display d s vals svals empties =
  displayed (collator_hidden d empties)
    ((if s_desc s then subtotal_idxs (s_desc s) svals else [])
     ++ map Z.of_nat (fixed_idxs (d_ids d) (s_top s)))
  ++ displayed (collator_hidden d empties) (body_idxs (s_desc s) vals (all_fixed d s))
  ++ displayed (collator_hidden d empties)
       (map Z.of_nat (fixed_idxs (d_ids d) (s_bottom s))
        ++ (if s_desc s then [] else subtotal_idxs (s_desc s) svals)).
Proof. exact (display_brackets_fixed_once d s vals svals empties). Qed.
Print Assumptions C08_brackets_fixed_once.

(* ---- the value-sorted body ---------------------------------------------------------------------------- *)
Theorem C08_body_sorted desc (vals : list sval) fixed :
  let body := sort_vkeys desc (body_keys vals fixed) in
  Permutation body (body_keys vals fixed) /\ StronglySorted (before_ok desc) body.
Proof. exact (body_sorted desc vals fixed). Qed.
Print Assumptions C08_body_sorted.

(* ... of exactly the base elements that are neither fixed nor NaN-valued *)
Theorem C08_body_members (vals : list sval) fixed v z :
  In (v, z) (body_keys vals fixed) <->
  exists i, z = Z.of_nat i /\ i < List.length vals /\ nth i vals (VNum NaN) = v
            /\ ~ In i fixed /\ sval_nan v = false.
Proof. exact (body_keys_in vals fixed v z). Qed.
Print Assumptions C08_body_members.

(* whatever algorithm sorts the (value, index) tuples (Python's sorted(..., reverse=descending)
   included): there is only one sorted arrangement *)
Theorem C08_any_sort_same_order desc (l s : list vkey) :
  NoDup (map snd l) -> Permutation s l -> StronglySorted (before_ok desc) s ->
  s = sort_vkeys desc l.
Proof. exact (sorted_vkeys_unique desc l s). Qed.
Print Assumptions C08_any_sort_same_order.

(* NaN-valued elements follow in payload order *)
Theorem C08_nans_payload (vals : list sval) fixed : StronglySorted Z.lt (body_nans vals fixed).
Proof. exact (body_nans_sorted vals fixed). Qed.
Print Assumptions C08_nans_payload.

Theorem C08_nans_members (vals : list sval) fixed i :
  In (Z.of_nat i) (body_nans vals fixed) <->
  i < List.length vals /\ ~ In i fixed /\ sval_nan (nth i vals (VNum NaN)) = true.
Proof. exact (body_nans_in vals fixed i). Qed.
Print Assumptions C08_nans_members.

(* THE PROPERTY, pointwise on what is displayed: among the displayed base elements that are in no
   fixed list, every earlier one may precede every later one *)
Theorem C08_display_body_monotone d s vals svals empties :
  StronglySorted (may_precede (s_desc s) (base_val vals))
    (filter (free_base (all_fixed d s)) (sbv_display d s vals svals empties)).
Proof. exact (display_body_monotone d s vals svals empties). Qed.
Print Assumptions C08_display_body_monotone.

(* ---- the subtotal group -------------------------------------------------------------------------------- *)
Theorem C08_subtotals_sorted desc (svals : list sval) :
  let grp := sort_vkeys desc (subtotal_keys svals) in
  Permutation grp (subtotal_keys svals) /\ StronglySorted (before_ok desc) grp.
Proof. exact (subtotals_sorted desc svals). Qed.
Print Assumptions C08_subtotals_sorted.

Theorem C08_subtotal_members (svals : list sval) v z :
  In (v, z) (subtotal_keys svals) <->
  exists k, k < List.length svals /\ z = (Z.of_nat k - Z.of_nat (List.length svals))%Z
            /\ v = nth k svals (VNum NaN) /\ sval_nan v = false.
Proof. exact (subtotal_keys_in svals v z). Qed.
Print Assumptions C08_subtotal_members.

Theorem C08_subtotal_nans_payload (svals : list sval) : StronglySorted Z.lt (subtotal_nans svals).
Proof. exact (subtotal_nans_sorted svals). Qed.
Print Assumptions C08_subtotal_nans_payload.

Theorem C08_subtotal_nans_members (svals : list sval) z :
  In z (subtotal_nans svals) <->
  exists k, k < List.length svals /\ z = (Z.of_nat k - Z.of_nat (List.length svals))%Z
            /\ sval_nan (nth k svals (VNum NaN)) = true.
Proof. exact (subtotal_nans_in svals z). Qed.
Print Assumptions C08_subtotal_nans_members.

(* the subtotals of the display order are all the subtotals, sorted the same way *)
Theorem C08_display_subtotals_monotone d s vals svals empties :
  StronglySorted (may_precede (s_desc s) (sub_val svals))
    (filter (fun z => (z <? 0)%Z) (sbv_display d s vals svals empties)).
Proof. exact (display_subtotals_monotone d s vals svals empties). Qed.
Print Assumptions C08_display_subtotals_monotone.

(* ---- fixed groups ----------------------------------------------------------------------------------------- *)
(* the listed ids in listed order, each as the index of THE element with this id; ids of no element
   are dropped *)
Theorem C08_fixed_listed ids listed :
  NoDup ids ->
  fixed_idxs ids listed
  = flat_map (fun i => match first_index i ids with Some k => [k] | None => [] end) listed.
Proof. exact (fixed_listed ids listed). Qed.
Print Assumptions C08_fixed_listed.

(* a fixed group only holds indexes of elements whose id is listed (any element ids) *)
Theorem C08_fixed_members ids listed k :
  In k (fixed_idxs ids listed) -> k < List.length ids /\ In (nth k ids INone) listed.
Proof. exact (fixed_idxs_listed ids listed k). Qed.
Print Assumptions C08_fixed_members.

(* first mention wins, inside one list: keeping the first mention of every index = keeping the first
   mention of every id ... *)
Theorem C08_fixed_first_mention ids listed :
  first_mentions (map Z.of_nat (fixed_idxs ids listed))
  = map Z.of_nat (fixed_idxs ids (dedup_first listed)).
Proof. exact (fixed_first_mentions ids listed). Qed.
Print Assumptions C08_fixed_first_mention.

(* ... and across the lists: dropping from the bottom group the indexes the top group holds = dropping
   from fixed.bottom the ids fixed.top names *)
Theorem C08_fixed_top_before_bottom ids top listed :
  filter (znotin (map Z.of_nat (fixed_idxs ids top))) (map Z.of_nat (fixed_idxs ids listed))
  = map Z.of_nat (fixed_idxs ids (filter (fun i => negb (imem i top)) listed)).
Proof. exact (fixed_bottom_minus_top ids top listed). Qed.
Print Assumptions C08_fixed_top_before_bottom.

(* the normalised lists fix the same elements, and name none of them twice *)
Theorem C08_fixed_normal_members ids s k :
  In k (fixed_idxs ids (s_top (fixed_normal s)) ++ fixed_idxs ids (s_bottom (fixed_normal s)))
  <-> In k (fixed_idxs ids (s_top s) ++ fixed_idxs ids (s_bottom s)).
Proof. exact (fixed_normal_members ids s k). Qed.
Print Assumptions C08_fixed_normal_members.

Theorem C08_fixed_normal_once ids s : fixed_once ids (fixed_normal s).
Proof. exact (fixed_normal_once ids s). Qed.
Print Assumptions C08_fixed_normal_once.

(* ---- surrogate sort keys ---------------------------------------------------------------------------------- *)
(* a list that is value-sorted on the key is weakly sorted (NaN last in payload order) for every
   public value with the same NaN set that never decreases where the key does not decrease *)
Theorem C08_surrogate_sorted desc key pub (l : list Z) :
  same_order key pub ->
  StronglySorted (may_precede desc (fun z => VNum (key z))) l ->
  StronglySorted (weakly_precedes desc pub) l.
Proof. exact (surrogate_sorted desc key pub l). Qed.
Print Assumptions C08_surrogate_sorted.

(* every reading of the keyword tables is such a public value, for a positive population * fraction:
   std-dev = sqrt(variance) (stated through squares), MoE = Z_975 * std-err, population count =
   proportion * population * fraction (difference subtotals included: NaN reads NaN,
   C08_population_difference_reads), population MoE = Z_975 * population * fraction * std-err *)
Theorem C08_surrogate_monotone (r : reading) (c : Q) key pub :
  (0 < c)%Q -> (forall z, reads r c (key z) (pub z)) -> same_order key pub.
Proof. exact (reads_same_order r c key pub). Qed.
Print Assumptions C08_surrogate_monotone.

(* so the displayed free base elements / subtotals, sorted by the code on [keys], are weakly monotone
   in the public values *)
Theorem C08_surrogate_display d s (keys pubs : list xq) svals empties :
  same_order (keyf keys) (keyf pubs) ->
  StronglySorted (weakly_precedes (s_desc s) (keyf pubs))
    (filter (free_base (all_fixed d s)) (sbv_display d s (map VNum keys) svals empties)).
Proof. exact (surrogate_display d s keys pubs svals empties). Qed.
Print Assumptions C08_surrogate_display.

Theorem C08_surrogate_display_subtotals d s vals (skeys spubs : list xq) empties :
  List.length skeys = List.length spubs ->
  same_order (skeyf skeys) (skeyf spubs) ->
  StronglySorted (weakly_precedes (s_desc s) (skeyf spubs))
    (filter (fun z => (z <? 0)%Z) (sbv_display d s vals (map VNum skeys) empties)).
Proof. exact (surrogate_display_subtotals d s vals skeys spubs empties). Qed.
Print Assumptions C08_surrogate_display_subtotals.

(* which keywords are sorted on a surrogate *)
Theorem C08_surrogate_keywords :
  map kw_name (filter (fun r => match kw_reading r with SameValue => false | _ => true end) matrix_table)
  = ["col_percent_moe"; "col_std_dev"; "population"; "population_moe"; "row_percent_moe";
     "row_std_dev"; "table_percent_moe"; "table_std_dev"]%string
  /\ map kw_name (filter (fun r => match kw_reading r with SameValue => false | _ => true end) strand_table)
     = ["percent_moe"; "population"; "population_moe"]%string
  /\ filter (fun r => match kw_reading r with SameValue => false | _ => true end) marginal_table = [].
Proof. exact surrogate_keywords. Qed.
Print Assumptions C08_surrogate_keywords.

(* the same over the real numbers, with the square root itself (sqrt_le_1) *)
Theorem C08_sqrt_sorted (l : list R) :
  Forall (fun v => (0 <= v)%R) l -> StronglySorted Rge l -> StronglySorted Rge (map sqrt l).
Proof. exact (sqrt_sorted_descending l). Qed.
Print Assumptions C08_sqrt_sorted.

(* ---- the population keyword and DIFFERENCE subtotals ------------------------------------------------------- *)
(* The public population count of a difference subtotal is NaN.  Since /repo e7676546 (former finding
   C08-population-difference-subtotals) the population PROPORTIONS the helpers sort on carry NaN in every
   vector of a difference subtotal too ([population_blocks] / [population_vblocks], read by the helpers
   through [slice_measures] / [strand_measures]) - cell by cell: *)
Theorem C08_population_blocks drows dcols b :
  let p := population_blocks drows dcols b in
  mb_base p = mb_base b /\
  (forall i j, mnth (mb_scols p) i j = if nth j dcols false then NaN else mnth (mb_scols b) i j) /\
  (forall k j, mnth (mb_srows p) k j = if nth k drows false then NaN else mnth (mb_srows b) k j) /\
  (forall k j, mnth (mb_inter p) k j
               = if nth k drows false || nth j dcols false then NaN else mnth (mb_inter b) k j).
Proof. exact (population_blocks_spec drows dcols b). Qed.
Print Assumptions C08_population_blocks.

Theorem C08_population_strand_values diffs base subs :
  fst (population_vblocks diffs (base, subs)) = base /\
  List.length (snd (population_vblocks diffs (base, subs))) = List.length subs /\
  forall k, vnth (snd (population_vblocks diffs (base, subs))) k
            = if nth k diffs false then NaN else vnth subs k.
Proof. exact (population_vblocks_spec diffs base subs). Qed.
Print Assumptions C08_population_strand_values.

(* only the `population` keyword reads them (population_moe sorts on the population std-err, whose
   public value for a difference is a number); every other measure is what it was *)
Theorem C08_population_keyword :
  filter (fun r => String.eqb (kw_prop r) population_prop) matrix_table
  = [mkKw "population" population_prop "population_counts" TimesPopulation]
  /\ filter (fun r => String.eqb (kw_prop r) population_prop) strand_table
     = [mkKw "population" population_prop "population_counts" TimesPopulation]
  /\ forall drows dcols diffs (raw : menv) (vraw : venv) p,
       p <> population_prop ->
       slice_measures drows dcols raw p = raw p /\ strand_measures diffs vraw p = vraw p.
Proof. exact population_keyword. Qed.
Print Assumptions C08_population_keyword.

(* the key vectors of the helpers (C08_*_key_by_* below), cell by cell *)
Theorem C08_key_vectors_pointwise m i j :
  nth i (column_of m j) (VNum NaN) = VNum (mnth m i j)
  /\ nth j (row_of m i) (VNum NaN) = VNum (mnth m i j).
Proof. exact (key_vectors_pointwise m i j). Qed.
Print Assumptions C08_key_vectors_pointwise.

(* so the key of a sort by `population` is the proportion, and NaN at every difference: in the subtotal
   group of the sorted dimension, and everywhere when the key is taken at an opposing difference *)
Theorem C08_population_rows_key_by_element o opp drows dcols raw marg labels sublabels vals svals :
  o_measure o = Some "population"%string ->
  rows_values o opp (slice_measures drows dcols raw) marg labels sublabels MOppElement
  = Ok (Some (vals, svals)) ->
  exists b x j,
    raw population_prop = Some b /\
    o_element_id o = Some x /\ j < List.length (p_ids opp) /\ nth j (p_ids opp) INone = x /\
    (forall i, nth i vals (VNum NaN) = VNum (mnth (mb_base b) i j)) /\
    (forall k, nth k svals (VNum NaN)
               = VNum (if nth k drows false then NaN else mnth (mb_srows b) k j)).
Proof.
  exact (population_rows_key_by_element o opp drows dcols raw marg labels sublabels vals svals).
Qed.
Print Assumptions C08_population_rows_key_by_element.

Theorem C08_population_rows_key_by_insertion o opp drows dcols raw marg labels sublabels vals svals :
  o_measure o = Some "population"%string ->
  p_array opp = false ->
  rows_values o opp (slice_measures drows dcols raw) marg labels sublabels MOppInsertion
  = Ok (Some (vals, svals)) ->
  exists b z j,
    raw population_prop = Some b /\
    o_insertion_id o = Some (IInt z) /\ j < List.length (p_ins_ids opp) /\
    nth j (p_ins_ids opp) 0%Z = z /\
    (forall i, nth i vals (VNum NaN)
               = VNum (if nth j dcols false then NaN else mnth (mb_scols b) i j)) /\
    (forall k, nth k svals (VNum NaN)
               = VNum (if nth k drows false || nth j dcols false then NaN
                       else mnth (mb_inter b) k j)).
Proof.
  exact (population_rows_key_by_insertion o opp drows dcols raw marg labels sublabels vals svals).
Qed.
Print Assumptions C08_population_rows_key_by_insertion.

Theorem C08_population_columns_key_by_element o opp drows dcols raw labels sublabels vals svals :
  o_measure o = Some "population"%string ->
  columns_values o opp (slice_measures drows dcols raw) labels sublabels MOppElement
  = Ok (Some (vals, svals)) ->
  exists b x i,
    raw population_prop = Some b /\
    o_element_id o = Some x /\ i < List.length (p_ids opp) /\ nth i (p_ids opp) INone = x /\
    (forall j, nth j vals (VNum NaN) = VNum (mnth (mb_base b) i j)) /\
    (forall j, nth j svals (VNum NaN)
               = VNum (if nth j dcols false then NaN else mnth (mb_scols b) i j)).
Proof.
  exact (population_columns_key_by_element o opp drows dcols raw labels sublabels vals svals).
Qed.
Print Assumptions C08_population_columns_key_by_element.

Theorem C08_population_columns_key_by_insertion o opp drows dcols raw labels sublabels vals svals :
  o_measure o = Some "population"%string ->
  columns_values o opp (slice_measures drows dcols raw) labels sublabels MOppInsertion
  = Ok (Some (vals, svals)) ->
  exists b z k,
    raw population_prop = Some b /\
    o_insertion_id o = Some (IInt z) /\ k < List.length (p_ins_ids opp) /\
    nth k (p_ins_ids opp) 0%Z = z /\
    (forall j, nth j vals (VNum NaN)
               = VNum (if nth k drows false then NaN else mnth (mb_srows b) k j)) /\
    (forall j, nth j svals (VNum NaN)
               = VNum (if nth k drows false || nth j dcols false then NaN
                       else mnth (mb_inter b) k j)).
Proof.
  exact (population_columns_key_by_insertion o opp drows dcols raw labels sublabels vals svals).
Qed.
Print Assumptions C08_population_columns_key_by_insertion.

Theorem C08_population_strand_key o diffs (raw : venv) labels sublabels vals svals :
  o_measure o = Some "population"%string ->
  strand_values o (strand_measures diffs raw) labels sublabels MUnivariate = Ok (Some (vals, svals)) ->
  exists base subs,
    raw population_prop = Some (base, subs) /\ vals = map VNum base /\
    List.length svals = List.length subs /\
    forall k, nth k svals (VNum NaN) = VNum (if nth k diffs false then NaN else vnth subs k).
Proof. exact (population_strand_key o diffs raw labels sublabels vals svals). Qed.
Print Assumptions C08_population_strand_key.

(* THE POSITIVE STATEMENT (it replaces C08_population_difference_refuted).  [key]: the proportion, NaN at
   the differences - what the repaired code sorts on; [pub]: proportion * population * fraction, NaN at
   the differences - the public population_counts.  The public value READS the key the way the keyword
   table says for EVERY vector, differences included: the hypothesis of C08_surrogate_monotone holds,
   hence the same NaN set and the same weak order *)
Theorem C08_population_difference_reads (c : Q) (diff : Z -> bool) (prop key pub : Z -> xq) :
  (forall z, key z = if diff z then NaN else prop z) ->
  (forall z, pub z =x= if diff z then NaN else xmul (prop z) (Fin c)) ->
  forall z, reads TimesPopulation c (key z) (pub z).
Proof. exact (population_difference_reads c diff prop key pub). Qed.
Print Assumptions C08_population_difference_reads.

Theorem C08_population_difference_same_order (c : Q) (diff : Z -> bool) (prop key pub : Z -> xq) :
  (0 < c)%Q ->
  (forall z, key z = if diff z then NaN else prop z) ->
  (forall z, pub z =x= if diff z then NaN else xmul (prop z) (Fin c)) ->
  same_order key pub.
Proof. exact (population_difference_same_order c diff prop key pub). Qed.
Print Assumptions C08_population_difference_same_order.

(* the subtotal group of a sort by population on a dimension WITH difference subtotals: weakly sorted
   in the public population counts, the NaN-valued (difference) subtotals last in payload order *)
Theorem C08_population_difference_subtotals d s vals (c : Q) (diffs : list bool)
        (props spubs : list xq) empties :
  (0 < c)%Q -> List.length props = List.length spubs ->
  (forall k, k < List.length props ->
     nth k spubs NaN =x= if nth k diffs false then NaN else xmul (nth k props NaN) (Fin c)) ->
  StronglySorted (weakly_precedes (s_desc s) (skeyf spubs))
    (filter (fun z => (z <? 0)%Z)
            (sbv_display d s vals (map VNum (nan_where diffs props)) empties)).
Proof. exact (population_display_subtotals d s vals c diffs props spubs empties). Qed.
Print Assumptions C08_population_difference_subtotals.

(* a key taken AT an opposing difference insertion is NaN for every vector (C08_population_rows_key_by_
   insertion, _columns_key_by_insertion): the free base elements and the subtotal group then stand in
   payload order, as the all-NaN public values ask *)
Theorem C08_all_nan_payload_order d s (vals svals : list sval) empties :
  (forall i, sval_nan (nth i vals (VNum NaN)) = true) ->
  (forall k, sval_nan (nth k svals (VNum NaN)) = true) ->
  StronglySorted Z.lt (filter (free_base (all_fixed d s)) (sbv_display d s vals svals empties))
  /\ StronglySorted Z.lt (filter (fun z => (z <? 0)%Z) (sbv_display d s vals svals empties)).
Proof. exact (all_nan_payload_order d s vals svals empties). Qed.
Print Assumptions C08_all_nan_payload_order.

(* the former witness of the finding (3x2 counts [[3,1],[1,1],[4,0]], row subtotals "1 minus 2" and
   "1 or 2", a column difference "1 minus 2", population 1000; [fw_raw]: the unmasked proportions = what
   the former code sorted on): (1) rows ascending by the population of column id 1 - public subtotal
   values NaN, 400: the valued subtotal now stands before the difference (it was the other way round);
   (2) rows descending by the population of the column difference - payload order now (it was the order
   of the hidden proportions) *)
Theorem C08_population_difference_former_witness :
  let repaired := slice_measures [true; false] [true] fw_raw in
  fw_order fw_by_element repaired = Ok [1; 0; 2; -1; -2]%Z /\
  fw_order fw_by_element fw_raw = Ok [1; 0; 2; -2; -1]%Z /\
  StronglySorted (weakly_precedes false (skeyf [NaN; Fin 400])) [-1; -2]%Z /\
  ~ StronglySorted (weakly_precedes false (skeyf [NaN; Fin 400])) [-2; -1]%Z /\
  fw_order fw_by_insertion repaired = Ok [-2; -1; 0; 1; 2]%Z /\
  fw_order fw_by_insertion fw_raw = Ok [-1; -2; 2; 0; 1]%Z.
Proof. exact population_difference_former_witness. Qed.
Print Assumptions C08_population_difference_former_witness.

(* ---- the sort key is the named vector of the named measure ------------------------------------------------ *)
Theorem C08_rows_key_by_element o opp env marg labels sublabels vals svals :
  rows_values o opp env marg labels sublabels MOppElement = Ok (Some (vals, svals)) ->
  exists k r b x j,
    o_measure o = Some k /\ find_kw matrix_table k = Some r /\ kw_name r = k /\
    env (kw_prop r) = Some b /\
    o_element_id o = Some x /\ j < List.length (p_ids opp) /\ nth j (p_ids opp) INone = x /\
    (forall i, i < j -> nth i (p_ids opp) INone <> x) /\
    vals = column_of (mb_base b) j /\ svals = column_of (mb_srows b) j.
Proof. exact (rows_key_by_element o opp env marg labels sublabels vals svals). Qed.
Print Assumptions C08_rows_key_by_element.

Theorem C08_rows_key_by_insertion o opp env marg labels sublabels vals svals :
  p_array opp = false ->
  rows_values o opp env marg labels sublabels MOppInsertion = Ok (Some (vals, svals)) ->
  exists k r b z j,
    o_measure o = Some k /\ find_kw matrix_table k = Some r /\ kw_name r = k /\
    env (kw_prop r) = Some b /\
    o_insertion_id o = Some (IInt z) /\ j < List.length (p_ins_ids opp) /\
    nth j (p_ins_ids opp) 0%Z = z /\
    vals = column_of (mb_scols b) j /\ svals = column_of (mb_inter b) j.
Proof. exact (rows_key_by_insertion o opp env marg labels sublabels vals svals). Qed.
Print Assumptions C08_rows_key_by_insertion.

Theorem C08_rows_key_by_marginal o opp env marg labels sublabels vals svals :
  rows_values o opp env marg labels sublabels MMarginal = Ok (Some (vals, svals)) ->
  exists k r base subs,
    o_marginal o = Some k /\ find_kw marginal_table k = Some r /\ kw_name r = k /\
    marg (kw_prop r) = Some (base, subs) /\ vals = map VNum base /\ svals = map VNum subs.
Proof. exact (rows_key_by_marginal o opp env marg labels sublabels vals svals). Qed.
Print Assumptions C08_rows_key_by_marginal.

Theorem C08_columns_key_by_element o opp env labels sublabels vals svals :
  columns_values o opp env labels sublabels MOppElement = Ok (Some (vals, svals)) ->
  exists k r b x i,
    o_measure o = Some k /\ find_kw matrix_table k = Some r /\ kw_name r = k /\
    env (kw_prop r) = Some b /\
    o_element_id o = Some x /\ i < List.length (p_ids opp) /\ nth i (p_ids opp) INone = x /\
    vals = row_of (mb_base b) i /\ svals = row_of (mb_scols b) i.
Proof. exact (columns_key_by_element o opp env labels sublabels vals svals). Qed.
Print Assumptions C08_columns_key_by_element.

Theorem C08_columns_key_by_insertion o opp env labels sublabels vals svals :
  columns_values o opp env labels sublabels MOppInsertion = Ok (Some (vals, svals)) ->
  exists k r b z j,
    o_measure o = Some k /\ find_kw matrix_table k = Some r /\ kw_name r = k /\
    env (kw_prop r) = Some b /\
    o_insertion_id o = Some (IInt z) /\ j < List.length (p_ins_ids opp) /\
    nth j (p_ins_ids opp) 0%Z = z /\
    vals = row_of (mb_srows b) j /\ svals = row_of (mb_inter b) j.
Proof. exact (columns_key_by_insertion o opp env labels sublabels vals svals). Qed.
Print Assumptions C08_columns_key_by_insertion.

Theorem C08_strand_key_by_measure o (env : venv) labels sublabels vals svals :
  strand_values o env labels sublabels MUnivariate = Ok (Some (vals, svals)) ->
  exists k r base subs,
    o_measure o = Some k /\ find_kw strand_table k = Some r /\ kw_name r = k /\
    env (kw_prop r) = Some (base, subs) /\ vals = map VNum base /\ svals = map VNum subs.
Proof. exact (strand_key_by_measure o env labels sublabels vals svals). Qed.
Print Assumptions C08_strand_key_by_measure.

Theorem C08_tables_wellformed :
  (forall r, In r matrix_table -> smem (kw_name r) measure_enum = true)
  /\ NoDup (map kw_name matrix_table) /\ NoDup (map kw_name strand_table)
  /\ map kw_name marginal_table = marginal_enum.
Proof. exact tables_wellformed. Qed.
Print Assumptions C08_tables_wellformed.

(* ---- fallback ------------------------------------------------------------------------------------------------ *)
(* a ValueError while looking for the sort values: exactly the anchored payload order of C07 *)
Theorem C08_fallback d o m empties psub :
  is_value_method m = true ->
  partition_order d o m (Ok None) empties psub
  = display_order d (ByAnchor OPayload) empties psub.
Proof. exact (unresolved_is_payload_order d o m empties psub). Qed.
Print Assumptions C08_fallback.

(* when the measure lookup is such a ValueError: the keyword is no member of MEASURE, or the
   response lacks what the measure needs *)
Theorem C08_measure_unresolved env kw :
  matrix_measure env kw = Ok None <->
  exists k, kw = Some k /\
    (smem k measure_enum = false \/
     exists r, find_kw matrix_table k = Some r /\ env (kw_prop r) = None).
Proof. exact (matrix_measure_unresolved env kw). Qed.
Print Assumptions C08_measure_unresolved.

Theorem C08_rows_measure_unresolved d o opp env marg labels sublabels empties psub :
  (method_of PRows (o_type o) = MOppElement \/ method_of PRows (o_type o) = MOppInsertion) ->
  matrix_measure env (o_measure o) = Ok None ->
  rows_order d o opp env marg labels sublabels empties psub
  = display_order d (ByAnchor OPayload) empties psub.
Proof. exact (rows_measure_unresolved d o opp env marg labels sublabels empties psub). Qed.
Print Assumptions C08_rows_measure_unresolved.

Theorem C08_rows_unknown_element d o opp env marg labels sublabels empties psub b x :
  method_of PRows (o_type o) = MOppElement ->
  matrix_measure env (o_measure o) = Ok (Some b) ->
  o_element_id o = Some x -> ~ In x (p_ids opp) ->
  rows_order d o opp env marg labels sublabels empties psub
  = display_order d (ByAnchor OPayload) empties psub.
Proof. exact (rows_unknown_element d o opp env marg labels sublabels empties psub b x). Qed.
Print Assumptions C08_rows_unknown_element.

Theorem C08_rows_unknown_insertion d o opp env marg labels sublabels empties psub b x :
  method_of PRows (o_type o) = MOppInsertion -> p_array opp = false ->
  matrix_measure env (o_measure o) = Ok (Some b) ->
  o_insertion_id o = Some x -> (forall z, x = IInt z -> ~ In z (p_ins_ids opp)) ->
  rows_order d o opp env marg labels sublabels empties psub
  = display_order d (ByAnchor OPayload) empties psub.
Proof. exact (rows_unknown_insertion d o opp env marg labels sublabels empties psub b x). Qed.
Print Assumptions C08_rows_unknown_insertion.

Theorem C08_rows_unknown_derived d o opp env marg labels sublabels empties psub b x :
  method_of PRows (o_type o) = MOppInsertion -> p_array opp = true ->
  matrix_measure env (o_measure o) = Ok (Some b) ->
  o_insertion_id o = Some x -> ~ In x (p_ids opp) ->
  rows_order d o opp env marg labels sublabels empties psub
  = display_order d (ByAnchor OPayload) empties psub.
Proof. exact (rows_unknown_derived d o opp env marg labels sublabels empties psub b x). Qed.
Print Assumptions C08_rows_unknown_derived.

Theorem C08_rows_marginal_unresolved d o opp env marg labels sublabels empties psub k :
  method_of PRows (o_type o) = MMarginal -> o_marginal o = Some k ->
  (smem k marginal_enum = false \/
   exists r, find_kw marginal_table k = Some r /\ marg (kw_prop r) = None) ->
  rows_order d o opp env marg labels sublabels empties psub
  = display_order d (ByAnchor OPayload) empties psub.
Proof. exact (rows_marginal_unresolved d o opp env marg labels sublabels empties psub k). Qed.
Print Assumptions C08_rows_marginal_unresolved.

Theorem C08_columns_measure_unresolved d o opp env labels sublabels empties psub :
  (method_of PColumns (o_type o) = MOppElement \/ method_of PColumns (o_type o) = MOppInsertion) ->
  matrix_measure env (o_measure o) = Ok None ->
  columns_order d o opp env labels sublabels empties psub
  = display_order d (ByAnchor OPayload) empties psub.
Proof. exact (columns_measure_unresolved d o opp env labels sublabels empties psub). Qed.
Print Assumptions C08_columns_measure_unresolved.

Theorem C08_columns_unknown_element d o opp env labels sublabels empties psub b x :
  method_of PColumns (o_type o) = MOppElement ->
  matrix_measure env (o_measure o) = Ok (Some b) ->
  o_element_id o = Some x -> ~ In x (p_ids opp) ->
  columns_order d o opp env labels sublabels empties psub
  = display_order d (ByAnchor OPayload) empties psub.
Proof. exact (columns_unknown_element d o opp env labels sublabels empties psub b x). Qed.
Print Assumptions C08_columns_unknown_element.

Theorem C08_columns_unknown_insertion d o opp env labels sublabels empties psub b x :
  method_of PColumns (o_type o) = MOppInsertion ->
  matrix_measure env (o_measure o) = Ok (Some b) ->
  o_insertion_id o = Some x -> (forall z, x = IInt z -> ~ In z (p_ins_ids opp)) ->
  columns_order d o opp env labels sublabels empties psub
  = display_order d (ByAnchor OPayload) empties psub.
Proof. exact (columns_unknown_insertion d o opp env labels sublabels empties psub b x). Qed.
Print Assumptions C08_columns_unknown_insertion.

Theorem C08_strand_measure_unresolved d o (env : venv) labels sublabels empties k :
  method_of PStrand (o_type o) = MUnivariate -> o_measure o = Some k ->
  (find_kw strand_table k = None \/
   exists r, find_kw strand_table k = Some r /\ env (kw_prop r) = None) ->
  strand_order d o env labels sublabels empties
  = display_order d (ByAnchor OPayload) empties false.
Proof. exact (strand_measure_unresolved d o env labels sublabels empties k). Qed.
Print Assumptions C08_strand_measure_unresolved.

(* ---- the hypotheses are inhabited ------------------------------------------------------------------------------ *)
Local Open Scope string_scope.
(* five categories ids 10 20 30 40 50, subtotals A (anchor top) and B (anchor 20); element 30 hidden *)
Definition ex_dim : dimension :=
  mkDim [mkElem (IInt 10) false DNone; mkElem (IInt 20) false DNone; mkElem (IInt 30) false DNone;
         mkElem (IInt 40) false DNone; mkElem (IInt 50) false DNone]
        false
        [mkIns (Some 1%Z) (IStr "top") true false [IInt 10; IInt 20];
         mkIns (Some 2%Z) (IInt 20) true false [IInt 30]]
        None [(IStr "30", HTrue)] false.
Definition ex_block : mblocks :=
  mkBlocks
    (* base: 5 rows x 2 columns; column 1: 3/10, NaN, 9/10, 3/10, 1/10 *)
    [[Fin 1; Fin (3 # 10)]; [Fin 2; NaN]; [Fin 3; Fin (9 # 10)]; [Fin 4; Fin (3 # 10)];
     [Fin 5; Fin (1 # 10)]]%Q
    [] (* no subtotal columns *)
    [[Fin 3; Fin (2 # 10)]; [Fin 3; Fin (9 # 10)]]%Q   (* subtotal rows *)
    [].
Definition ex_env : menv :=
  fun p => if String.eqb p "column_proportions" then Some ex_block else None.
Definition ex_opp : opposing := mkOpp [IInt 1; IInt 2] [] false.
Definition ex_req (el : ident) (kw : string) (desc : bool) : order_req :=
  mkOrd (Some "opposing_element") (Some kw) None (Some el) None
        (mkSort desc [IInt 50; IInt 77] []) [].

(* descending by column id 2: subtotals first (9/10 then 2/10), fixed-top 50 (stale id 77 dropped),
   then 30 (hidden - not shown), the tie 3/10 with the LARGER index first, NaN-valued 20 last *)
Example C08_example_descending :
  rows_order ex_dim (ex_req (IInt 2) "col_percent" true) ex_opp ex_env (fun _ => None) [] [] [] false
  = Ok [-1; -2; 4; 3; 0; 1]%Z.
Proof. vm_compute. reflexivity. Qed.

(* ascending: subtotals last, ties with the SMALLER index first *)
Example C08_example_ascending :
  rows_order ex_dim (ex_req (IInt 2) "col_percent" false) ex_opp ex_env (fun _ => None) [] [] [] false
  = Ok [4; 0; 3; 1; -2; -1]%Z.
Proof. vm_compute. reflexivity. Qed.

(* repeated fixed ids: 50 twice at the top and again at the bottom, 10 twice at the bottom - each is shown
   once, where it is first mentioned (50 at the top, 10 at the bottom) *)
Definition ex_req_repeats (desc : bool) : order_req :=
  mkOrd (Some "opposing_element") (Some "col_percent") None (Some (IInt 2)) None
        (mkSort desc [IInt 50; IInt 77; IInt 50] [IInt 10; IInt 50; IInt 10]) [].
Example C08_example_repeated_fixed :
  rows_order ex_dim (ex_req_repeats true) ex_opp ex_env (fun _ => None) [] [] [] false
  = Ok [-1; -2; 4; 3; 1; 0]%Z
  /\ rows_order ex_dim (ex_req_repeats false) ex_opp ex_env (fun _ => None) [] [] [] false
     = Ok [4; 3; 1; 0; -2; -1]%Z
  /\ fixed_normal (o_spec (ex_req_repeats true)) = mkSort true [IInt 50; IInt 77] [IInt 10]
  /\ ~ fixed_once (d_ids ex_dim) (o_spec (ex_req_repeats true))
  /\ fixed_once (d_ids ex_dim) (o_spec (ex_req (IInt 2) "col_percent" true)).
Proof.
  split; [vm_compute; reflexivity|split; [vm_compute; reflexivity|split; [vm_compute; reflexivity|split]]].
  - unfold fixed_once. vm_compute. intros N. inversion N as [|? ? H _]. apply H. simpl. auto.
  - unfold fixed_once. vm_compute. repeat constructor; simpl; intuition discriminate.
Qed.

(* unknown opposing element / measure absent from the response: the anchored payload order *)
Example C08_example_fallback :
  rows_order ex_dim (ex_req (IInt 3) "col_percent" true) ex_opp ex_env (fun _ => None) [] [] [] false
  = Ok [-2; 0; 1; -1; 3; 4]%Z
  /\ rows_order ex_dim (ex_req (IInt 2) "mean" true) ex_opp ex_env (fun _ => None) [] [] [] false
     = Ok [-2; 0; 1; -1; 3; 4]%Z
  /\ display_order ex_dim (ByAnchor OPayload) [] false = Ok [-2; 0; 1; -1; 3; 4]%Z.
Proof. vm_compute. auto. Qed.

(* the hypotheses of C08_rows_unknown_element hold for the first of these *)
Example C08_example_fallback_hypotheses :
  method_of PRows (o_type (ex_req (IInt 3) "col_percent" true)) = MOppElement
  /\ matrix_measure ex_env (o_measure (ex_req (IInt 3) "col_percent" true)) = Ok (Some ex_block)
  /\ ~ In (IInt 3) (p_ids ex_opp).
Proof.
  split; [reflexivity|split; [reflexivity|]]. simpl. intros [H|[H|[]]]; discriminate.
Qed.

(* a standard deviation (1/2, NaN, 0, 3/2) reads its variance (1/4, NaN, 0, 9/4) *)
Example C08_example_reads :
  forall z, reads RootOf 1 (keyf [Fin (1 # 4); NaN; Fin 0; Fin (9 # 4)]%Q z)
                           (keyf [Fin (1 # 2); NaN; Fin 0; Fin (3 # 2)]%Q z).
Proof.
  intros z. unfold keyf.
  destruct (Z.to_nat z) as [|[|[|[|[|k]]]]]; simpl;
    try (left; split; reflexivity); right; (split; [split; [reflexivity|discriminate]|reflexivity]).
Qed.

(* =======================================================================================
   Source-translator obligations (round 3, harness/translate/x_assemble.py): the ORDER HELPERS of
   src/cr/cube/matrix/assembler.py and src/cr/cube/stripe/assembler.py and the enumerations of enums.py they
   dispatch on are read from the source text on every check (Gen/SortTablesSrc.v, Gen/OrderHelperSrc.v;
   meaning: Base/OrderExp.v - Python with exceptions, `try .. except ValueError`, `.index`, `{..}.get`,
   `m[:, j]` / `m[i, :]`; environments: Proofs/GenAgreeOrderTac.v) and proved to denote the definitions of
   Model/SortKeys.v / Model/OrderOrient.v the theorems above are about (Proofs/GenAgreeSortTables.v,
   GenAgreeOrderHelpers.v, GenAgreeOrderStrand.v).  This replaces the `ast` comparison of the keyword tables
   that harness/props/c08.py used to do in its own code (it now calls the translator's reader).
   ======================================================================================= *)
From Coq Require String.
From CC Require Base.AsmExp Base.OrderExp Model.OrderOrient Gen.SortTablesSrc Gen.OrderHelperSrc
     Proofs.GenAgreeSortTables Proofs.GenAgreeOrderTac Proofs.GenAgreeOrderHelpers Proofs.GenAgreeOrderStrand.
Section GenAgreeAssemble_C08.   (* scopes and imports below end with the section *)
Import Coq.Strings.String CC.Base.AsmExp CC.Base.OrderExp CC.Model.OrderOrient CC.Gen.SortTablesSrc
       CC.Gen.OrderHelperSrc CC.Proofs.GenAgreeSortTables CC.Proofs.GenAgreeOrderTac
       CC.Proofs.GenAgreeOrderHelpers CC.Proofs.GenAgreeOrderStrand.
Local Open Scope string_scope.

(* the three keyword tables of the source, as lookups ({..}.get(k), last binding of a repeated key), are
   the model's tables for EVERY keyword string; the values of MEASURE / MARGINAL are the model's
   enumerations; COLLATION_METHOD has exactly the seven "type" keywords [method_of] distinguishes *)
Theorem C08_gen_sort_tables :
  (match tbl_matrix_sort_measures with Some t => lookup_agrees t matrix_table | None => True end) /\
  (match tbl_marginal_sort_marginals with Some t => lookup_agrees t marginal_table | None => True end) /\
  (match tbl_strand_sort_measures with Some t => lookup_agrees t strand_table | None => True end) /\
  (match tbl_MEASURE with Some t => same_members (map snd t) measure_enum | None => True end) /\
  (match tbl_MARGINAL with Some t => same_members (map snd t) marginal_enum | None => True end) /\
  (match tbl_COLLATION_METHOD with
   | Some t => same_members (map snd t) collation_keywords /\ NoDup (map snd t) /\ NoDup (map fst t)
   | None => True end).
Proof.
  exact (conj gen_matrix_sort_measures (conj gen_marginal_sort_marginals (conj gen_strand_sort_measures
        (conj gen_MEASURE_values (conj gen_MARGINAL_values gen_COLLATION_METHOD_values))))).
Qed.
Print Assumptions C08_gen_sort_tables.

(* _OrderSpec.collation_method over the COLLATION_METHOD members read from enums.py, keyword by keyword *)
Theorem C08_gen_collation_method :
  match tbl_COLLATION_METHOD with Some cm => cm_spec cm | None => True end.
Proof. exact gen_cm_spec. Qed.
Print Assumptions C08_gen_collation_method.

(* every sort-by-value helper class of a slice resolves ITS key the way [rows_values] / [columns_values] say
   for the method it stands for - which block of the measure the keyword table names, which column / row,
   found through which id list of the OPPOSING dimension (translated element id, insertion id, derived
   element), labels, marginal blocks - catches ValueError only (-> payload order), lets KeyError /
   NotImplementedError escape, and prunes subtotals by the opposing dimension ([rows_model], [cols_model]) *)
Theorem C08_gen_matrix_sort_helpers :
  rows_class ord_matrix__SortRowsByBaseColumnHelper__display_order MOppElement any_dims /\
  rows_class ord_matrix__SortRowsByDerivedColumnHelper__display_order MOppInsertion
             (fun _ cols => d_array cols = true) /\
  rows_class ord_matrix__SortRowsByInsertedColumnHelper__display_order MOppInsertion
             (fun _ cols => d_array cols = false) /\
  rows_class ord_matrix__SortRowsByLabelHelper__display_order MLabel any_dims /\
  rows_class ord_matrix__SortRowsByMarginalHelper__display_order MMarginal any_dims /\
  cols_class ord_matrix__SortColumnsByLabelHelper__display_order MLabel /\
  cols_class ord_matrix__SortColumnsByBaseRowHelper__display_order MOppElement /\
  cols_class ord_matrix__SortColumnsByInsertedRowHelper__display_order MOppInsertion.
Proof.
  exact (conj gen_matrix_SortRowsByBaseColumnHelper (conj gen_matrix_SortRowsByDerivedColumnHelper
        (conj gen_matrix_SortRowsByInsertedColumnHelper (conj gen_matrix_SortRowsByLabelHelper
        (conj gen_matrix_SortRowsByMarginalHelper (conj gen_matrix_SortColumnsByLabelHelper
        (conj gen_matrix_SortColumnsByBaseRowHelper gen_matrix_SortColumnsByInsertedRowHelper))))))).
Qed.
Print Assumptions C08_gen_matrix_sort_helpers.

(* the strand twins: labels; the two blocks of the measure the keyname table names (a keyname outside the
   table is a ValueError, hence the payload order) *)
Theorem C08_gen_stripe_sort_helpers :
  strand_class ord_stripe__SortByLabelHelper__display_order MLabel /\
  strand_class ord_stripe__SortByMeasureHelper__display_order MUnivariate.
Proof. exact (conj gen_stripe_SortByLabelHelper gen_stripe_SortByMeasureHelper). Qed.
Print Assumptions C08_gen_stripe_sort_helpers.

(* the factories: for EVERY "type" keyword, dimensions, order dicts, measures object, pruning masks and id
   translation the helper class the source picks computes [slice_row_order] / [slice_column_order] /
   [strand_order] - i.e. [method_of] is the dispatch of the source, [rows_values] .. its key resolution,
   the fallback and the subtotal pruning included *)
Theorem C08_gen_row_display_order :
  with_tables (fun cm me ma t1 t2 _ =>
    match ord_matrix_row_display_order with
    | Some e => forall rows cols rreq creq rmask cmask rl cl tr env marg,
        names_apart env marg ->
        heval' (henv_slice cm me ma t1 t2 rows cols rreq creq rmask cmask rl cl tr env marg) e
        = to_hres (slice_row_order (sl_sd rows cols rreq creq rmask cmask rl cl tr) env marg)
    | None => True
    end).
Proof. exact gen_matrix_row_display_order. Qed.
Print Assumptions C08_gen_row_display_order.

Theorem C08_gen_column_display_order :
  with_tables (fun cm me ma t1 t2 _ =>
    match ord_matrix_column_display_order with
    | Some e => forall rows cols rreq creq rmask cmask rl cl tr env marg,
        names_apart env marg ->
        heval' (henv_slice cm me ma t1 t2 rows cols rreq creq rmask cmask rl cl tr env marg) e
        = to_hres (slice_column_order (sl_sd rows cols rreq creq rmask cmask rl cl tr) env)
    | None => True
    end).
Proof. exact gen_matrix_column_display_order. Qed.
Print Assumptions C08_gen_column_display_order.

Theorem C08_gen_strand_display_order :
  with_tables (fun cm _ _ _ _ t3 =>
    match ord_stripe_display_order with
    | Some e => forall dim req pbase labels env,
        heval' (henv_strand cm t3 dim req pbase labels env) e
        = to_hres (strand_order dim req env (fst labels) (snd labels) (where_zero pbase))
    | None => True
    end).
Proof. exact gen_stripe_display_order. Qed.
Print Assumptions C08_gen_strand_display_order.
End GenAgreeAssemble_C08.

(*BEGIN GenAgreeCollator_C08*)
(* ------------------------------------------------------------------------------------ *)
(* SOURCE TEXT of SortByValueCollator (harness/translate/x_collator.py -> Gen/CollatorSrc.v, see the
   appendix of Props/C07.v): for ALL dimensions, value vectors (numbers incl. NaN, labels), fixed lists,
   directions, empty sets and both order formats each generated member IS the definition of
   Model/Collator.v the theorems above are about ([sort_of spec] = the order transform as the model's
   sort spec). *)
From CC Require Proofs.GenAgreeCollatorAnchored Proofs.GenAgreeCollatorSbv.
Section GenAgreeCollator_C08.   (* scopes and imports below end with the section *)
Import Coq.Lists.List Coq.ZArith.ZArith CC.Base.SortX CC.Base.PyList CC.Spec.OrderSpec CC.Model.Collator
       CC.Model.PyCollator CC.Gen.CollatorSrc CC.Proofs.GenAgreeCollatorLib CC.Proofs.GenAgreeCollatorAnchored
       CC.Proofs.GenAgreeCollatorSbv.
Import Coq.Lists.List.ListNotations.
Local Open Scope Z_scope.

Theorem C08_gen_Sbv__elements :
  match src_SortByValueCollator__elements with
  | Some f => forall d spec empties fmt vals svals,
      f (pyself_of d spec empties fmt vals svals) = d_elems d
  | None => True end.
Proof. exact gen_Sbv__elements. Qed.
Print Assumptions C08_gen_Sbv__elements.

Theorem C08_gen_Sbv__element_ids :
  match src_SortByValueCollator__element_ids with
  | Some f => forall d spec empties fmt vals svals,
      f (pyself_of d spec empties fmt vals svals) = d_ids d
  | None => True end.
Proof. exact gen_Sbv__element_ids. Qed.
Print Assumptions C08_gen_Sbv__element_ids.

Theorem C08_gen_Sbv__subtotals_bogus_ids :
  match src_SortByValueCollator__subtotals_bogus_ids with
  | Some f => forall d spec empties fmt vals svals,
      f (pyself_of d spec empties fmt vals svals) = plain_bogus_ids d
  | None => True end.
Proof. exact gen_Sbv__subtotals_bogus_ids. Qed.
Print Assumptions C08_gen_Sbv__subtotals_bogus_ids.

Theorem C08_gen_Sbv__order_mapping :
  match src_SortByValueCollator__order_mapping with
  | Some f => forall d spec empties fmt vals svals,
      f (pyself_of d spec empties fmt vals svals) = order_mapping (plain_bogus_ids d)
  | None => True end.
Proof. exact gen_Sbv__order_mapping. Qed.
Print Assumptions C08_gen_Sbv__order_mapping.

Theorem C08_gen_Sbv__order_spec :
  match src_SortByValueCollator__order_spec with
  | Some f => forall d spec empties fmt vals svals,
      f (pyself_of d spec empties fmt vals svals) = spec
  | None => True end.
Proof. exact gen_Sbv__order_spec. Qed.
Print Assumptions C08_gen_Sbv__order_spec.

Theorem C08_gen_Sbv__subtotals :
  match src_SortByValueCollator__subtotals with
  | Some f => forall d spec empties fmt vals svals,
      f (pyself_of d spec empties fmt vals svals) = pysubs_of d (subtotals d)
  | None => True end.
Proof. exact gen_Sbv__subtotals. Qed.
Print Assumptions C08_gen_Sbv__subtotals.

Theorem C08_gen_Sbv__descending :
  match src_SortByValueCollator__descending with
  | Some f => forall d spec empties fmt vals svals,
      f (pyself_of d spec empties fmt vals svals) = s_desc (sort_of spec)
  | None => True end.
Proof. exact gen_Sbv__descending. Qed.
Print Assumptions C08_gen_Sbv__descending.

Theorem C08_gen_Sbv__is_nan :
  match src_SortByValueCollator__is_nan with
  | Some f => forall d spec empties fmt vals svals v,
      f (pyself_of d spec empties fmt vals svals) v = Ok (sval_nan v)
  | None => True end.
Proof. exact gen_Sbv__is_nan. Qed.
Print Assumptions C08_gen_Sbv__is_nan.

Theorem C08_gen_Sbv__subtotal_idxs :
  match src_SortByValueCollator__subtotal_idxs with
  | Some f => forall d spec empties fmt vals svals,
      f (pyself_of d spec empties fmt vals svals) = Ok (subtotal_idxs (s_desc (sort_of spec)) svals)
  | None => True end.
Proof. exact gen_Sbv__subtotal_idxs. Qed.
Print Assumptions C08_gen_Sbv__subtotal_idxs.

Theorem C08_gen_Sbv__top_subtotal_idxs :
  match src_SortByValueCollator__top_subtotal_idxs with
  | Some f => forall d spec empties fmt vals svals,
      f (pyself_of d spec empties fmt vals svals)
      = Ok (if s_desc (sort_of spec) then subtotal_idxs (s_desc (sort_of spec)) svals else [])
  | None => True end.
Proof. exact gen_Sbv__top_subtotal_idxs. Qed.
Print Assumptions C08_gen_Sbv__top_subtotal_idxs.

Theorem C08_gen_Sbv__bottom_subtotal_idxs :
  match src_SortByValueCollator__bottom_subtotal_idxs with
  | Some f => forall d spec empties fmt vals svals,
      f (pyself_of d spec empties fmt vals svals)
      = Ok (if s_desc (sort_of spec) then [] else subtotal_idxs (s_desc (sort_of spec)) svals)
  | None => True end.
Proof. exact gen_Sbv__bottom_subtotal_idxs. Qed.
Print Assumptions C08_gen_Sbv__bottom_subtotal_idxs.

Theorem C08_gen_Sbv__iter_fixed_idxs :
  match src_SortByValueCollator__iter_fixed_idxs with
  | Some f => forall d spec empties fmt vals svals listed,
      f (pyself_of d spec empties fmt vals svals) listed = Ok (map Z.of_nat (fixed_idxs (d_ids d) listed))
  | None => True end.
Proof. exact gen_Sbv__iter_fixed_idxs. Qed.
Print Assumptions C08_gen_Sbv__iter_fixed_idxs.

Theorem C08_gen_Sbv__top_fixed_idxs :
  match src_SortByValueCollator__top_fixed_idxs with
  | Some f => forall d spec empties fmt vals svals,
      f (pyself_of d spec empties fmt vals svals)
      = Ok (map Z.of_nat (fixed_idxs (d_ids d) (s_top (sort_of spec))))
  | None => True end.
Proof. exact gen_Sbv__top_fixed_idxs. Qed.
Print Assumptions C08_gen_Sbv__top_fixed_idxs.

Theorem C08_gen_Sbv__bottom_fixed_idxs :
  match src_SortByValueCollator__bottom_fixed_idxs with
  | Some f => forall d spec empties fmt vals svals,
      f (pyself_of d spec empties fmt vals svals)
      = Ok (map Z.of_nat (fixed_idxs (d_ids d) (s_bottom (sort_of spec))))
  | None => True end.
Proof. exact gen_Sbv__bottom_fixed_idxs. Qed.
Print Assumptions C08_gen_Sbv__bottom_fixed_idxs.

Theorem C08_gen_Sbv__body_idxs :
  match src_SortByValueCollator__body_idxs with
  | Some f => forall d spec empties fmt vals svals,
      f (pyself_of d spec empties fmt vals svals)
      = Ok (body_idxs (s_desc (sort_of spec)) vals
                      (fixed_idxs (d_ids d) (s_top (sort_of spec))
                       ++ fixed_idxs (d_ids d) (s_bottom (sort_of spec))))
  | None => True end.
Proof. exact gen_Sbv__body_idxs. Qed.
Print Assumptions C08_gen_Sbv__body_idxs.

Theorem C08_gen_Sbv__display_order :
  match src_SortByValueCollator__display_order with
  | Some f => forall d spec empties fmt vals svals,
      f (pyself_of d spec empties fmt vals svals)
      = display_result fmt
          (Ok (sbv_display d (sort_of spec) vals svals empties))
          (render_bogus (order_mapping (plain_bogus_ids d))
                        (sbv_display d (sort_of spec) vals svals empties))
  | None => True end.
Proof. exact gen_Sbv__display_order. Qed.
Print Assumptions C08_gen_Sbv__display_order.

Theorem C08_gen_Sbv___init__ :
  match src_SortByValueCollator___init__ with
  | Some f => forall (dim : pydim) (vals svals : list sval) (empty : list Z) (fmt : order_format),
      f dim vals svals empty fmt = mkPyCollator dim empty fmt vals svals
  | None => True end.
Proof. exact gen_Sbv___init__. Qed.
Print Assumptions C08_gen_Sbv___init__.

Theorem C08_gen_Sbv_display_order :
  match src_SortByValueCollator_display_order with
  | Some f => forall d spec vals svals empties fmt,
      f (pydim_of d spec) vals svals (map Z.of_nat empties) fmt
      = display_result fmt
          (Ok (sbv_display d (sort_of spec) vals svals empties))
          (render_bogus (order_mapping (plain_bogus_ids d))
                        (sbv_display d (sort_of spec) vals svals empties))
  | None => True end.
Proof. exact gen_Sbv_display_order. Qed.
Print Assumptions C08_gen_Sbv_display_order.

End GenAgreeCollator_C08.
(*END GenAgreeCollator_C08*)

(*BEGIN GenAgreeDimension_C08*)
(* ------------------------------------------------------------------------------------ *)
(* SOURCE TEXT of _OrderSpec (harness/translate/x_dimension.py -> Gen/DimensionSrc.v, see the appendix of
   Props/C04.v): for ALL dimension-transforms dicts every member reads the "order" dict the way the models assume -
   direction != "ascending", element_ids / fixed.top / fixed.bottom as sequences ([] when absent), element_id /
   insertion_id / measure / marginal with KeyError when the field is absent, MEASURE(..) / MARGINAL(..) = the
   keyword when it is in [SortKeys.measure_enum] / [SortKeys.marginal_enum] (read from enums.py) and ValueError
   otherwise, the collation method = the "type" keyword when it is a COLLATION_METHOD value and payload order
   otherwise ([order_of], [seq_field], [fixed_field], [enum_of], [collation_of]: Proofs/GenAgreeDimensionOrderSpec.v). *)
From CC Require Proofs.GenAgreeDimensionOrderSpec Model.SortKeys.
Section GenAgreeDimension_C08.   (* scopes and imports below end with the section *)
Import Coq.Lists.List Coq.ZArith.ZArith Coq.Strings.String Coq.Bool.Bool CC.Base.XQ CC.Base.Ident CC.Base.PyList
       CC.Base.PyDict CC.Model.DimType CC.Model.PyDimension CC.Gen.DimensionSrc CC.Proofs.GenAgreeDimensionLib
       CC.Proofs.GenAgreeDimensionSubtotal CC.Proofs.GenAgreeDimensionOrderSpec.
Import Coq.Lists.List.ListNotations.
Local Close Scope Q_scope.
Local Open Scope Z_scope.

Theorem C08_gen_dim__OrderSpec__order_dict :
  match src__OrderSpec__order_dict with
  | Some f => forall D tr o, order_of tr = Some o -> f (mkPyOrderSpec D (JDict tr)) = Ok (JDict o)
  | None => True end.
Proof. exact gen__OrderSpec__order_dict. Qed.
Print Assumptions C08_gen_dim__OrderSpec__order_dict.

Theorem C08_gen_dim__OrderSpec_descending :
  match src__OrderSpec_descending with
  | Some f => forall D tr o, order_of tr = Some o ->
      f (mkPyOrderSpec D (JDict tr))
      = Ok (negb (jv_eqb (jd_get_default o (JStr "direction") (JStr "descending")) (JStr "ascending")))
  | None => True end.
Proof. exact gen__OrderSpec_descending. Qed.
Print Assumptions C08_gen_dim__OrderSpec_descending.

Theorem C08_gen_dim__OrderSpec_element_ids :
  match src__OrderSpec_element_ids with
  | Some f => forall D tr o l, order_of tr = Some o -> seq_field o "element_ids" l ->
      f (mkPyOrderSpec D (JDict tr)) = Ok l
  | None => True end.
Proof. exact gen__OrderSpec_element_ids. Qed.
Print Assumptions C08_gen_dim__OrderSpec_element_ids.

Theorem C08_gen_dim__OrderSpec_top_fixed_ids :
  match src__OrderSpec_top_fixed_ids with
  | Some f => forall D tr o l, order_of tr = Some o -> fixed_field o "top" l ->
      f (mkPyOrderSpec D (JDict tr)) = Ok l
  | None => True end.
Proof. exact gen__OrderSpec_top_fixed_ids. Qed.
Print Assumptions C08_gen_dim__OrderSpec_top_fixed_ids.

Theorem C08_gen_dim__OrderSpec_bottom_fixed_ids :
  match src__OrderSpec_bottom_fixed_ids with
  | Some f => forall D tr o l, order_of tr = Some o -> fixed_field o "bottom" l ->
      f (mkPyOrderSpec D (JDict tr)) = Ok l
  | None => True end.
Proof. exact gen__OrderSpec_bottom_fixed_ids. Qed.
Print Assumptions C08_gen_dim__OrderSpec_bottom_fixed_ids.

Theorem C08_gen_dim__OrderSpec_element_id :
  match src__OrderSpec_element_id with
  | Some f => forall D tr o, order_of tr = Some o ->
      f (mkPyOrderSpec D (JDict tr)) = of_option KeyError (jd_get o (JStr "element_id"))
  | None => True end.
Proof. exact gen__OrderSpec_element_id. Qed.
Print Assumptions C08_gen_dim__OrderSpec_element_id.

Theorem C08_gen_dim__OrderSpec_insertion_id :
  match src__OrderSpec_insertion_id with
  | Some f => forall D tr o, order_of tr = Some o ->
      f (mkPyOrderSpec D (JDict tr)) = of_option KeyError (jd_get o (JStr "insertion_id"))
  | None => True end.
Proof. exact gen__OrderSpec_insertion_id. Qed.
Print Assumptions C08_gen_dim__OrderSpec_insertion_id.

Theorem C08_gen_dim__OrderSpec_measure_keyname :
  match src__OrderSpec_measure_keyname with
  | Some f => forall D tr o, order_of tr = Some o ->
      f (mkPyOrderSpec D (JDict tr)) = of_option KeyError (jd_get o (JStr "measure"))
  | None => True end.
Proof. exact gen__OrderSpec_measure_keyname. Qed.
Print Assumptions C08_gen_dim__OrderSpec_measure_keyname.

Theorem C08_gen_dim__OrderSpec_marginal_keyname :
  match src__OrderSpec_marginal_keyname with
  | Some f => forall D tr o, order_of tr = Some o ->
      f (mkPyOrderSpec D (JDict tr)) = of_option KeyError (jd_get o (JStr "marginal"))
  | None => True end.
Proof. exact gen__OrderSpec_marginal_keyname. Qed.
Print Assumptions C08_gen_dim__OrderSpec_marginal_keyname.

Theorem C08_gen_dim__OrderSpec_measure :
  match src__OrderSpec_measure with
  | Some f => forall D tr o, order_of tr = Some o ->
      f (mkPyOrderSpec D (JDict tr))
      = bind (of_option KeyError (jd_get o (JStr "measure"))) (enum_of SortKeys.measure_enum)
  | None => True end.
Proof. exact gen__OrderSpec_measure. Qed.
Print Assumptions C08_gen_dim__OrderSpec_measure.

Theorem C08_gen_dim__OrderSpec_marginal :
  match src__OrderSpec_marginal with
  | Some f => forall D tr o, order_of tr = Some o ->
      f (mkPyOrderSpec D (JDict tr))
      = bind (of_option KeyError (jd_get o (JStr "marginal"))) (enum_of SortKeys.marginal_enum)
  | None => True end.
Proof. exact gen__OrderSpec_marginal. Qed.
Print Assumptions C08_gen_dim__OrderSpec_marginal.

Theorem C08_gen_dim__OrderSpec_collation_method :
  match src__OrderSpec_collation_method with
  | Some f => forall D tr o, order_of tr = Some o ->
      jv_hashable (jd_get_default o (JStr "type") JNone) = true ->
      f (mkPyOrderSpec D (JDict tr)) = Ok (collation_of (jd_get_default o (JStr "type") JNone))
  | None => True end.
Proof. exact gen__OrderSpec_collation_method. Qed.
Print Assumptions C08_gen_dim__OrderSpec_collation_method.

End GenAgreeDimension_C08.
(*END GenAgreeDimension_C08*)
