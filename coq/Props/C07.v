(* C07 - Anchored ordering: payload or explicit element order with subtotals at anchors.
   Statements only; proofs in Proofs/Order*.v; executable model (tied to collator.py,
   dimension.py and the assembler order helpers by harness/props/c07.py) in
   Model/Collator.v; readable specification in Spec/OrderSpec.v. *)
From Coq Require Import List Sorting Permutation ZArith String Bool Lia Arith.
From CC Require Import Base.SortX Spec.OrderSpec Model.Collator
  Proofs.OrderCollate Proofs.OrderExplicit Proofs.OrderIds Proofs.OrderVisible Proofs.OrderRender
  Proofs.OrderCrosswalk.
Import ListNotations.
Local Open Scope nat_scope.

(* The signed display order the anchored collators (payload order, explicit order) compute
   - sort of the (position, rel, idx) keys of base elements, insertions and derived
   elements, then the hidden filter - IS the specification's anchored order

       tops ++ flat_map (fun e => before e ++ [e] ++ after e) base ++ bottoms

   (groups in definition order, unknown anchors at the bottom) of the base elements in
   payload order / in the explicit order (first mention wins, unknown ids dropped,
   leftovers in payload order), with the hidden and pruned base elements filtered out.
   For ALL dimension sizes below sys.maxsize, insertion lists, anchors, explicit lists,
   derived items, hidden sets.  (An anchor string that is neither top/bottom nor a number
   makes the code raise ValueError; the model does the same.) *)
Theorem C07_collate_eq_spec d o empties :
  NoDup (d_ids d) -> (Z.of_nat (List.length (d_elems d)) < MAXSIZE)%Z ->
  anchored_display d o empties =
    let anchors := anchors_of d (subtotals d) in
    if existsb is_other anchors then Err ValueError
    else Ok (displayed (collator_hidden d empties)
                       (anchored_order (base_of d o) (floats_of d o anchors))).
Proof. exact (fun N S => anchored_display_over_spec d o (subtotals d) empties N S). Qed.
Print Assumptions C07_collate_eq_spec.

(* The same for ANY sorting algorithm: whatever sorted permutation of the code's sort keys
   Python's sorted() returns, reading off the idx column gives the anchored order. *)
Theorem C07_any_sort_reads_anchored_order d o anchors (s : list key) :
  NoDup (d_ids d) -> (Z.of_nat (List.length (d_elems d)) < MAXSIZE)%Z ->
  Permutation s (base_keys (desc_of d o) ++ map (float_key (desc_of d o)) (floats_of d o anchors)) ->
  Sorted key_le s ->
  map kidx s = anchored_order (base_of d o) (floats_of d o anchors).
Proof. exact (any_sort_reads_anchored_order d o anchors s). Qed.
Print Assumptions C07_any_sort_reads_anchored_order.

(* the OrderedDict loop of the explicit order = listed ids (first mention wins, unknown
   dropped) then the leftovers in payload order *)
Theorem C07_explicit_order listed (known : list bel) :
  NoDup (map snd known) -> explicit_loop listed known = explicit_base known listed.
Proof. exact (explicit_loop_spec listed known). Qed.
Print Assumptions C07_explicit_order.

(* anchor normalisation table of _Subtotal.anchor *)
Theorem C07_anchor_norm ids raw :
  match norm_anchor ids raw with
  | NOther _ => spec_place ids raw = None
  | a => spec_place ids raw = Some (place_of_nanchor a)
  end.
Proof. exact (norm_anchor_spec ids raw). Qed.
Print Assumptions C07_anchor_norm.

Theorem C07_anchor_table ids :
  spec_place ids INone = Some PBottom /\
  (forall z, In (IInt z) ids -> spec_place ids (IInt z) = Some (PAfter (IInt z))) /\
  (forall z, ~ In (IInt z) ids -> spec_place ids (IInt z) = Some PBottom) /\
  (forall s z, py_int s = Some z -> spec_place ids (IStr s) = spec_place ids (IInt z)) /\
  spec_place ids (IStr "Top") = Some PTop /\ spec_place ids (IStr "top") = Some PTop /\
  spec_place ids (IStr "BOTTOM") = Some PBottom /\ spec_place ids (IStr "bottom") = Some PBottom /\
  py_int "3" = Some 3%Z /\ py_int "-12" = Some (-12)%Z /\ py_int "top" = None.
Proof. exact (anchor_table ids). Qed.
Print Assumptions C07_anchor_table.

(* ids of insertions that come without one.  Defined in the analysis (transforms):
   1-based definition position. *)
Theorem C07_ids_transforms ids ds k d0 :
  k < List.length ds -> i_id (nth k ds d0) = None ->
  nth k (map fst (with_ids false ids ds)) 0%Z = Z.of_nat (S k).
Proof. exact (with_ids_transforms ids ds k d0). Qed.
Print Assumptions C07_ids_transforms.

(* an insertion that has an id keeps it *)
Theorem C07_ids_given fv ids ds k d0 z :
  k < List.length ds -> i_id (nth k ds d0) = Some z ->
  nth k (map fst (with_ids fv ids ds)) 0%Z = z.
Proof. exact (with_ids_given fv ids ds k d0 z). Qed.
Print Assumptions C07_ids_given.

(*CANONICAL*)
(* Defined on the variable (view): an insertion without an id is numbered by its 1-based rank
   among the subtotals of the specification's payload display order ([anchored_order] over the
   valid elements in payload order, anchors read with [spec_place]: "Top", "BOTTOM", "3", " 3",
   null, stale ids ... as the display reads them); an insertion with an id keeps it.  For EVERY
   list of (distinct) int element ids - the ids of a categorical dimension, the only dimensions
   that have subtotals - and EVERY list of insertion dicts.  (Repaired defect
   C07-crosswalk-raw-anchors, 5a1cca2c: _position_crosswalk ranked the RAW anchors, so that "Top",
   "3" ... counted as bottom; this statement was refuted by a witness before.)
   [int_ids] is needed: with a string element id "x" the code files the anchor "x" after that
   element whereas the display raises ValueError and the specification says bottom. *)
Theorem C07_ids_view ids ds :
  NoDup ids -> int_ids ids ->
  map (fun p => Some (fst p)) (with_ids true ids ds) = spec_ids_of true ids ds.
Proof. exact (ids_view ids ds). Qed.
Print Assumptions C07_ids_view.

(* the same read rank by rank *)
Theorem C07_ids_view_rank ids ds k d0 :
  NoDup ids -> int_ids ids -> k < List.length ds -> i_id (nth k ds d0) = None ->
  rank_in_order (List.length ds) k
                (anchored_order (payload_base ids)
                                (combine (neg_idxs (List.length ds)) (spec_places ids ds)))
  = Some (nth k (map fst (with_ids true ids ds)) 0%Z).
Proof. exact (ids_view_rank ids ds k d0). Qed.
Print Assumptions C07_ids_view_rank.

(* the former witness: anchors "Top", 3, "2" over the ids 1 2 3 (the code used to number them
   2, 1, 3) are now numbered as the specification says: 1, 3, 2 - display order
   "Top"(-3) 1 2 "2"(-1) 3 3(-2); also shows that the hypotheses of C07_ids_view are inhabited *)
Theorem C07_ids_view_former_witness :
  let ids := [IInt 1%Z; IInt 2%Z; IInt 3%Z] in
  let ds := [mkIns None (IStr "Top") true false [IInt 1%Z];
             mkIns None (IInt 3%Z) true false [IInt 1%Z];
             mkIns None (IStr "2") true false [IInt 1%Z]] in
  NoDup ids /\ int_ids ids /\
  map fst (with_ids true ids ds) = [1; 3; 2]%Z /\
  spec_ids_of true ids ds = [Some 1; Some 3; Some 2]%Z /\
  anchored_order (payload_base ids) (spec_floats ids ds) = [-3; 0; 1; -1; 2; -2]%Z.
Proof. exact ids_view_former_witness. Qed.
Print Assumptions C07_ids_view_former_witness.

(* signed and 'ins_N' renderings agree whenever the mapping is built from the ids of the
   dimension's own subtotals (explicit order, sort-by-value, payload order without
   transform insertions) ... *)
Theorem C07_renderings_agree (sids : list Z) (order : list Z) :
  Forall (fun z => (- Z.of_nat (List.length sids) <= z)%Z) order ->
  render_bogus (order_mapping sids) order
  = Ok (map (fun z => if Z.ltb z 0
                      then EIns (nth (Z.to_nat (Z.of_nat (List.length sids) + z)) sids 0%Z)
                      else EBase z) order).
Proof. exact (render_bogus_agrees sids order). Qed.
Print Assumptions C07_renderings_agree.

Theorem C07_payload_mapping_view_only d :
  d_tins d = None -> payload_bogus_ids d = plain_bogus_ids d.
Proof. exact (payload_bogus_ids_view_only d). Qed.
Print Assumptions C07_payload_mapping_view_only.

(* ... and the display order of EVERY collator (payload, explicit, sort-by-value, fallback), with or
   without subtotal pruning, is rendered with the ids of the dimension's own subtotals: the 'ins_N'
   rendering is the signed one with every negative index replaced by the id of the subtotal it
   denotes.  (Two repaired defects: C07-bogus-ids-payload-mapping - the payload collator used the
   VIEW's ids - and C07-bogus-ids-prune-subtotals-typeerror - pruned subtotals raised TypeError.) *)
Theorem C07_renderings_agree_display d o empties psub signed :
  NoDup (d_ids d) -> values_fit d o ->
  display_order d o empties psub = Ok signed ->
  display_order_bogus d o empties psub = Ok (map (render_entry (map fst (subtotals d))) signed).
Proof. exact (renderings_agree_display d o empties psub signed). Qed.
Print Assumptions C07_renderings_agree_display.

(* the former witness: transform insertions [B; A] over view insertions [A; B] *)
Theorem C07_renderings_former_witness :
  let el := fun i => mkElem (IInt i) false DNone in
  let A := mkIns (Some 1%Z) (IInt 1%Z) true false [IInt 1%Z] in
  let B := mkIns (Some 2%Z) (IInt 2%Z) true false [IInt 1%Z] in
  let d := mkDim [el 1%Z; el 2%Z; el 3%Z] false [A; B] (Some [B; A]) [] false in
  anchored_display d OPayload [] = Ok [0; -1; 1; -2; 2]%Z /\
  anchored_display_bogus d OPayload [] = Ok [EBase 0; EIns 1; EBase 1; EIns 2; EBase 2]%Z.
Proof. exact renderings_former_witness. Qed.
Print Assumptions C07_renderings_former_witness.

(* non-vacuity: 4 categories (ids 1 2 3 4), view insertions anchored at 3, "top", "3",
   "Top", null, explicit order [3;3;9;1] and element 1 hidden *)
Example C07_example :
  let el i := mkElem (IInt i) false DNone in
  let ins a := mkIns None a true false [IInt 1%Z] in
  let d := mkDim [el 1%Z; el 2%Z; el 3%Z; el 4%Z] false
                 [ins (IInt 3%Z); ins (IStr "top"); ins (IStr "3"); ins (IStr "Top"); ins INone]
                 None [(IStr "2", HTrue)] false in
  NoDup (d_ids d) /\
  anchored_display d (OExplicit [IInt 3%Z; IInt 3%Z; IInt 9%Z; IInt 1%Z]) []
  = Ok [-4; -2; 2; -5; -3; 0; 3; -1]%Z.
Proof.
  cbv zeta. split.
  - repeat constructor; simpl; intuition discriminate.
  - vm_compute. reflexivity.
Qed.
