(* C07 - Anchored ordering: payload or explicit element order with subtotals at anchors.
   Statements only; proofs in Proofs/Order*.v; executable model (tied to collator.py,
   dimension.py and the assembler order helpers by harness/props/c07.py) in
   Model/Collator.v; readable specification in Spec/OrderSpec.v. *)
From Coq Require Import List Sorting Permutation ZArith String Bool Lia Arith.
From CC Require Import Base.SortX Spec.OrderSpec Model.Collator
  Proofs.OrderCollate Proofs.OrderExplicit Proofs.OrderIds Proofs.OrderVisible Proofs.OrderRender
  Proofs.OrderCrosswalk.
Import ListNotations.
Local Open Scope nat_scope.

(* The signed display order the anchored collators (payload order, explicit order) compute
   - sort of the (position, rel, idx) keys of base elements, insertions and derived
   elements, then the hidden filter - IS the specification's anchored order

       tops ++ flat_map (fun e => before e ++ [e] ++ after e) base ++ bottoms

   (groups in definition order, unknown anchors at the bottom) of the base elements in
   payload order / in the explicit order (first mention wins, unknown ids dropped,
   leftovers in payload order), with the hidden and pruned base elements filtered out.
   For ALL dimension sizes below sys.maxsize, insertion lists, anchors, explicit lists,
   derived items, hidden sets.  (An anchor string that is neither top/bottom nor a number
   makes the code raise ValueError; the model does the same.) *)
Theorem C07_collate_eq_spec d o empties :
  NoDup (d_ids d) -> (Z.of_nat (List.length (d_elems d)) < MAXSIZE)%Z ->
  anchored_display d o empties =
    let anchors := anchors_of d (subtotals d) in
    if existsb is_other anchors then Err ValueError
    else Ok (displayed (collator_hidden d empties)
                       (anchored_order (base_of d o) (floats_of d o anchors))).
Proof. exact (fun N S => anchored_display_over_spec d o (subtotals d) empties N S). Qed.
Print Assumptions C07_collate_eq_spec.

(* The same for ANY sorting algorithm: whatever sorted permutation of the code's sort keys
   Python's sorted() returns, reading off the idx column gives the anchored order. *)
Theorem C07_any_sort_reads_anchored_order d o anchors (s : list key) :
  NoDup (d_ids d) -> (Z.of_nat (List.length (d_elems d)) < MAXSIZE)%Z ->
  Permutation s (base_keys (desc_of d o) ++ map (float_key (desc_of d o)) (floats_of d o anchors)) ->
  Sorted key_le s ->
  map kidx s = anchored_order (base_of d o) (floats_of d o anchors).
Proof. exact (any_sort_reads_anchored_order d o anchors s). Qed.
Print Assumptions C07_any_sort_reads_anchored_order.

(* the OrderedDict loop of the explicit order = listed ids (first mention wins, unknown
   dropped) then the leftovers in payload order *)
Theorem C07_explicit_order listed (known : list bel) :
  NoDup (map snd known) -> explicit_loop listed known = explicit_base known listed.
Proof. exact (explicit_loop_spec listed known). Qed.
Print Assumptions C07_explicit_order.

(* anchor normalisation table of _Subtotal.anchor *)
Theorem C07_anchor_norm ids raw :
  match norm_anchor ids raw with
  | NOther _ => spec_place ids raw = None
  | a => spec_place ids raw = Some (place_of_nanchor a)
  end.
Proof. exact (norm_anchor_spec ids raw). Qed.
Print Assumptions C07_anchor_norm.

Theorem C07_anchor_table ids :
  spec_place ids INone = Some PBottom /\
  (forall z, In (IInt z) ids -> spec_place ids (IInt z) = Some (PAfter (IInt z))) /\
  (forall z, ~ In (IInt z) ids -> spec_place ids (IInt z) = Some PBottom) /\
  (forall s z, py_int s = Some z -> spec_place ids (IStr s) = spec_place ids (IInt z)) /\
  spec_place ids (IStr "Top") = Some PTop /\ spec_place ids (IStr "top") = Some PTop /\
  spec_place ids (IStr "BOTTOM") = Some PBottom /\ spec_place ids (IStr "bottom") = Some PBottom /\
  py_int "3" = Some 3%Z /\ py_int "-12" = Some (-12)%Z /\ py_int "top" = None.
Proof. exact (anchor_table ids). Qed.
Print Assumptions C07_anchor_table.

(* ids of insertions that come without one.  Defined in the analysis (transforms):
   1-based definition position. *)
Theorem C07_ids_transforms ids ds k d0 :
  k < List.length ds -> i_id (nth k ds d0) = None ->
  nth k (map fst (with_ids false ids ds)) 0%Z = Z.of_nat (S k).
Proof. exact (with_ids_transforms ids ds k d0). Qed.
Print Assumptions C07_ids_transforms.

(* an insertion that has an id keeps it *)
Theorem C07_ids_given fv ids ds k d0 z :
  k < List.length ds -> i_id (nth k ds d0) = Some z ->
  nth k (map fst (with_ids fv ids ds)) 0%Z = z.
Proof. exact (with_ids_given fv ids ds k d0 z). Qed.
Print Assumptions C07_ids_given.

(*CANONICAL*)
(* Defined on the variable (view): an insertion without an id is numbered by its 1-based rank
   among the subtotals of the specification's payload display order ([anchored_order] over the
   valid elements in payload order, anchors read with [spec_place]: "Top", "BOTTOM", "3", " 3",
   null, stale ids ... as the display reads them); an insertion with an id keeps it.  For EVERY
   list of (distinct) int element ids - the ids of a categorical dimension, the only dimensions
   that have subtotals - and EVERY list of insertion dicts.  (Repaired defect
   C07-crosswalk-raw-anchors, 5a1cca2c: _position_crosswalk ranked the RAW anchors, so that "Top",
   "3" ... counted as bottom; this statement was refuted by a witness before.)
   [int_ids] is needed: with a string element id "x" the code files the anchor "x" after that
   element whereas the display raises ValueError and the specification says bottom. *)
Theorem C07_ids_view ids ds :
  NoDup ids -> int_ids ids ->
  map (fun p => Some (fst p)) (with_ids true ids ds) = spec_ids_of true ids ds.
Proof. exact (ids_view ids ds). Qed.
Print Assumptions C07_ids_view.

(* the same read rank by rank *)
Theorem C07_ids_view_rank ids ds k d0 :
  NoDup ids -> int_ids ids -> k < List.length ds -> i_id (nth k ds d0) = None ->
  rank_in_order (List.length ds) k
                (anchored_order (payload_base ids)
                                (combine (neg_idxs (List.length ds)) (spec_places ids ds)))
  = Some (nth k (map fst (with_ids true ids ds)) 0%Z).
Proof. exact (ids_view_rank ids ds k d0). Qed.
Print Assumptions C07_ids_view_rank.

(* the former witness: anchors "Top", 3, "2" over the ids 1 2 3 (the code used to number them
   2, 1, 3) are now numbered as the specification says: 1, 3, 2 - display order
   "Top"(-3) 1 2 "2"(-1) 3 3(-2); also shows that the hypotheses of C07_ids_view are inhabited *)
Theorem C07_ids_view_former_witness :
  let ids := [IInt 1%Z; IInt 2%Z; IInt 3%Z] in
  let ds := [mkIns None (IStr "Top") true false [IInt 1%Z];
             mkIns None (IInt 3%Z) true false [IInt 1%Z];
             mkIns None (IStr "2") true false [IInt 1%Z]] in
  NoDup ids /\ int_ids ids /\
  map fst (with_ids true ids ds) = [1; 3; 2]%Z /\
  spec_ids_of true ids ds = [Some 1; Some 3; Some 2]%Z /\
  anchored_order (payload_base ids) (spec_floats ids ds) = [-3; 0; 1; -1; 2; -2]%Z.
Proof. exact ids_view_former_witness. Qed.
Print Assumptions C07_ids_view_former_witness.

(* signed and 'ins_N' renderings agree whenever the mapping is built from the ids of the
   dimension's own subtotals (explicit order, sort-by-value, payload order without
   transform insertions) ... *)
Theorem C07_renderings_agree (sids : list Z) (order : list Z) :
  Forall (fun z => (- Z.of_nat (List.length sids) <= z)%Z) order ->
  render_bogus (order_mapping sids) order
  = Ok (map (fun z => if Z.ltb z 0
                      then EIns (nth (Z.to_nat (Z.of_nat (List.length sids) + z)) sids 0%Z)
                      else EBase z) order).
Proof. exact (render_bogus_agrees sids order). Qed.
Print Assumptions C07_renderings_agree.

Theorem C07_payload_mapping_view_only d :
  d_tins d = None -> payload_bogus_ids d = plain_bogus_ids d.
Proof. exact (payload_bogus_ids_view_only d). Qed.
Print Assumptions C07_payload_mapping_view_only.

(* ... and the display order of EVERY collator (payload, explicit, sort-by-value, fallback), with or
   without subtotal pruning, is rendered with the ids of the dimension's own subtotals: the 'ins_N'
   rendering is the signed one with every negative index replaced by the id of the subtotal it
   denotes.  (Two repaired defects: C07-bogus-ids-payload-mapping - the payload collator used the
   VIEW's ids - and C07-bogus-ids-prune-subtotals-typeerror - pruned subtotals raised TypeError.) *)
Theorem C07_renderings_agree_display d o empties psub signed :
  NoDup (d_ids d) -> values_fit d o ->
  display_order d o empties psub = Ok signed ->
  display_order_bogus d o empties psub = Ok (map (render_entry (map fst (subtotals d))) signed).
Proof. exact (renderings_agree_display d o empties psub signed). Qed.
Print Assumptions C07_renderings_agree_display.

(* the former witness: transform insertions [B; A] over view insertions [A; B] *)
Theorem C07_renderings_former_witness :
  let el := fun i => mkElem (IInt i) false DNone in
  let A := mkIns (Some 1%Z) (IInt 1%Z) true false [IInt 1%Z] in
  let B := mkIns (Some 2%Z) (IInt 2%Z) true false [IInt 1%Z] in
  let d := mkDim [el 1%Z; el 2%Z; el 3%Z] false [A; B] (Some [B; A]) [] false in
  anchored_display d OPayload [] = Ok [0; -1; 1; -2; 2]%Z /\
  anchored_display_bogus d OPayload [] = Ok [EBase 0; EIns 1; EBase 1; EIns 2; EBase 2]%Z.
Proof. exact renderings_former_witness. Qed.
Print Assumptions C07_renderings_former_witness.

(* non-vacuity: 4 categories (ids 1 2 3 4), view insertions anchored at 3, "top", "3",
   "Top", null, explicit order [3;3;9;1] and element 1 hidden *)
Example C07_example :
  let el i := mkElem (IInt i) false DNone in
  let ins a := mkIns None a true false [IInt 1%Z] in
  let d := mkDim [el 1%Z; el 2%Z; el 3%Z; el 4%Z] false
                 [ins (IInt 3%Z); ins (IStr "top"); ins (IStr "3"); ins (IStr "Top"); ins INone]
                 None [(IStr "2", HTrue)] false in
  NoDup (d_ids d) /\
  anchored_display d (OExplicit [IInt 3%Z; IInt 3%Z; IInt 9%Z; IInt 1%Z]) []
  = Ok [-4; -2; 2; -5; -3; 0; 3; -1]%Z.
Proof.
  cbv zeta. split.
  - repeat constructor; simpl; intuition discriminate.
  - vm_compute. reflexivity.
Qed.

(*BEGIN GenAgreeCollator_C07*)
(* ------------------------------------------------------------------------------------ *)
(* SOURCE TEXT of the anchored collators.  Gen/CollatorSrc.v is regenerated on every check from
   src/cr/cube/collator.py by harness/translate/x_collator.py (shallow translation: every member of
   PayloadOrderCollator / ExplicitOrderCollator, inheritance flattened, as a Gallina function over the
   Python-semantics combinators of Base/PyList.v + Model/PyCollator.v; `self.<member>` = the generated
   function of that member).  For ALL dimensions, order specs, empty sets and both order formats each
   generated function IS the definition of Model/Collator.v the theorems above are about
   ([pyself_of d ..] = the collator object over the Python view of the model dimension; [zdesc],
   [pbi_dict], [ins_pos], [ins_keys], [danchor_pos], [display_result]: Proofs/GenAgreeCollator*.v).
   [None] = the member is outside the translator's whitelist (tied by the correspondence only). *)
From CC Require Proofs.GenAgreeCollatorAnchored Proofs.GenAgreeCollatorSbv.
Section GenAgreeCollator_C07.   (* scopes and imports below end with the section *)
Import Coq.Lists.List Coq.ZArith.ZArith CC.Base.SortX CC.Base.PyList CC.Spec.OrderSpec CC.Model.Collator
       CC.Model.PyCollator CC.Gen.CollatorSrc CC.Proofs.GenAgreeCollatorLib CC.Proofs.GenAgreeCollatorAnchored
       CC.Proofs.GenAgreeCollatorSbv.
Import Coq.Lists.List.ListNotations.
Local Open Scope Z_scope.

Theorem C07_gen_Payload__elements :
  match src_PayloadOrderCollator__elements with
  | Some f => forall d spec empties fmt vals svals,
      f (pyself_of d spec empties fmt vals svals) = d_elems d
  | None => True end.
Proof. exact gen_Payload__elements. Qed.
Print Assumptions C07_gen_Payload__elements.

Theorem C07_gen_Payload__element_ids :
  match src_PayloadOrderCollator__element_ids with
  | Some f => forall d spec empties fmt vals svals,
      f (pyself_of d spec empties fmt vals svals) = d_ids d
  | None => True end.
Proof. exact gen_Payload__element_ids. Qed.
Print Assumptions C07_gen_Payload__element_ids.

Theorem C07_gen_Payload__subtotals_bogus_ids :
  match src_PayloadOrderCollator__subtotals_bogus_ids with
  | Some f => forall d spec empties fmt vals svals,
      f (pyself_of d spec empties fmt vals svals) = payload_bogus_ids d
  | None => True end.
Proof. exact gen_Payload__subtotals_bogus_ids. Qed.
Print Assumptions C07_gen_Payload__subtotals_bogus_ids.

Theorem C07_gen_Payload__order_mapping :
  match src_PayloadOrderCollator__order_mapping with
  | Some f => forall d spec empties fmt vals svals,
      f (pyself_of d spec empties fmt vals svals) = order_mapping (payload_bogus_ids d)
  | None => True end.
Proof. exact gen_Payload__order_mapping. Qed.
Print Assumptions C07_gen_Payload__order_mapping.

Theorem C07_gen_Payload__order_spec :
  match src_PayloadOrderCollator__order_spec with
  | Some f => forall d spec empties fmt vals svals,
      f (pyself_of d spec empties fmt vals svals) = spec
  | None => True end.
Proof. exact gen_Payload__order_spec. Qed.
Print Assumptions C07_gen_Payload__order_spec.

Theorem C07_gen_Payload__subtotals :
  match src_PayloadOrderCollator__subtotals with
  | Some f => forall d spec empties fmt vals svals,
      f (pyself_of d spec empties fmt vals svals) = pysubs_of d (subtotals d)
  | None => True end.
Proof. exact gen_Payload__subtotals. Qed.
Print Assumptions C07_gen_Payload__subtotals.

Theorem C07_gen_Payload__element_order_descriptors :
  match src_PayloadOrderCollator__element_order_descriptors with
  | Some f => forall d spec empties fmt vals svals,
      f (pyself_of d spec empties fmt vals svals) = Ok (zdesc (desc_of d OPayload))
  | None => True end.
Proof. exact gen_Payload__element_order_descriptors. Qed.
Print Assumptions C07_gen_Payload__element_order_descriptors.

Theorem C07_gen_Payload__base_element_orderings :
  match src_PayloadOrderCollator__base_element_orderings with
  | Some f => forall d spec empties fmt vals svals,
      f (pyself_of d spec empties fmt vals svals) = Ok (base_keys (desc_of d OPayload))
  | None => True end.
Proof. exact gen_Payload__base_element_orderings. Qed.
Print Assumptions C07_gen_Payload__base_element_orderings.

Theorem C07_gen_Payload__element_positions_by_id :
  match src_PayloadOrderCollator__element_positions_by_id with
  | Some f => forall d spec empties fmt vals svals,
      f (pyself_of d spec empties fmt vals svals) = Ok (pbi_dict (desc_of d OPayload))
  | None => True end.
Proof. exact gen_Payload__element_positions_by_id. Qed.
Print Assumptions C07_gen_Payload__element_positions_by_id.

Theorem C07_gen_Payload__insertion_position :
  match src_PayloadOrderCollator__insertion_position with
  | Some f => forall d spec empties fmt vals svals sub,
      f (pyself_of d spec empties fmt vals svals) sub = ins_pos (desc_of d OPayload) (snd sub)
  | None => True end.
Proof. exact gen_Payload__insertion_position. Qed.
Print Assumptions C07_gen_Payload__insertion_position.

Theorem C07_gen_Payload__insertion_orderings :
  match src_PayloadOrderCollator__insertion_orderings with
  | Some f => forall d spec empties fmt vals svals,
      f (pyself_of d spec empties fmt vals svals)
      = ins_keys (desc_of d OPayload) (anchors_of d (subtotals d))
  | None => True end.
Proof. exact gen_Payload__insertion_orderings. Qed.
Print Assumptions C07_gen_Payload__insertion_orderings.

Theorem C07_gen_Payload__derived_element_orderings :
  match src_PayloadOrderCollator__derived_element_orderings with
  | Some f => forall d spec empties fmt vals svals,
      f (pyself_of d spec empties fmt vals svals) = Ok []
  | None => True end.
Proof. exact gen_Payload__derived_element_orderings. Qed.
Print Assumptions C07_gen_Payload__derived_element_orderings.

Theorem C07_gen_Payload__display_order_mapping :
  match src_PayloadOrderCollator__display_order_mapping with
  | Some f => forall d spec empties fmt vals svals,
      f (pyself_of d spec empties fmt vals svals) = order_mapping (plain_bogus_ids d)
  | None => True end.
Proof. exact gen_Payload__display_order_mapping. Qed.
Print Assumptions C07_gen_Payload__display_order_mapping.

Theorem C07_gen_Payload__display_order :
  match src_PayloadOrderCollator__display_order with
  | Some f => forall d spec empties fmt vals svals,
      f (pyself_of d spec empties fmt vals svals)
      = display_result fmt (anchored_display d OPayload empties)
                           (anchored_display_bogus d OPayload empties)
  | None => True end.
Proof. exact gen_Payload__display_order. Qed.
Print Assumptions C07_gen_Payload__display_order.

Theorem C07_gen_Payload__view_insertions_ordering :
  match src_PayloadOrderCollator__view_insertions_ordering with
  | Some f => forall d spec empties fmt vals svals,
      f (pyself_of d spec empties fmt vals svals)
      = ins_keys (desc_of d OPayload) (anchors_of d (view_subs d))
  | None => True end.
Proof. exact gen_Payload__view_insertions_ordering. Qed.
Print Assumptions C07_gen_Payload__view_insertions_ordering.

Theorem C07_gen_Payload_payload_order :
  match src_PayloadOrderCollator_payload_order with
  | Some f => forall d spec empties fmt vals svals,
      f (pyself_of d spec empties fmt vals svals) = payload_order d empties
  | None => True end.
Proof. exact gen_Payload_payload_order. Qed.
Print Assumptions C07_gen_Payload_payload_order.

Theorem C07_gen_Explicit__elements :
  match src_ExplicitOrderCollator__elements with
  | Some f => forall d spec empties fmt vals svals,
      f (pyself_of d spec empties fmt vals svals) = d_elems d
  | None => True end.
Proof. exact gen_Explicit__elements. Qed.
Print Assumptions C07_gen_Explicit__elements.

Theorem C07_gen_Explicit__element_ids :
  match src_ExplicitOrderCollator__element_ids with
  | Some f => forall d spec empties fmt vals svals,
      f (pyself_of d spec empties fmt vals svals) = d_ids d
  | None => True end.
Proof. exact gen_Explicit__element_ids. Qed.
Print Assumptions C07_gen_Explicit__element_ids.

Theorem C07_gen_Explicit__subtotals_bogus_ids :
  match src_ExplicitOrderCollator__subtotals_bogus_ids with
  | Some f => forall d spec empties fmt vals svals,
      f (pyself_of d spec empties fmt vals svals) = plain_bogus_ids d
  | None => True end.
Proof. exact gen_Explicit__subtotals_bogus_ids. Qed.
Print Assumptions C07_gen_Explicit__subtotals_bogus_ids.

Theorem C07_gen_Explicit__order_mapping :
  match src_ExplicitOrderCollator__order_mapping with
  | Some f => forall d spec empties fmt vals svals,
      f (pyself_of d spec empties fmt vals svals) = order_mapping (plain_bogus_ids d)
  | None => True end.
Proof. exact gen_Explicit__order_mapping. Qed.
Print Assumptions C07_gen_Explicit__order_mapping.

Theorem C07_gen_Explicit__order_spec :
  match src_ExplicitOrderCollator__order_spec with
  | Some f => forall d spec empties fmt vals svals,
      f (pyself_of d spec empties fmt vals svals) = spec
  | None => True end.
Proof. exact gen_Explicit__order_spec. Qed.
Print Assumptions C07_gen_Explicit__order_spec.

Theorem C07_gen_Explicit__subtotals :
  match src_ExplicitOrderCollator__subtotals with
  | Some f => forall d spec empties fmt vals svals,
      f (pyself_of d spec empties fmt vals svals) = pysubs_of d (subtotals d)
  | None => True end.
Proof. exact gen_Explicit__subtotals. Qed.
Print Assumptions C07_gen_Explicit__subtotals.

Theorem C07_gen_Explicit__element_order_descriptors :
  match src_ExplicitOrderCollator__element_order_descriptors with
  | Some f => forall d spec empties fmt vals svals, NoDup (d_ids d) ->
      f (pyself_of d spec empties fmt vals svals) = Ok (zdesc (desc_of d (OExplicit (po_element_ids spec))))
  | None => True end.
Proof. exact gen_Explicit__element_order_descriptors. Qed.
Print Assumptions C07_gen_Explicit__element_order_descriptors.

Theorem C07_gen_Explicit__base_element_orderings :
  match src_ExplicitOrderCollator__base_element_orderings with
  | Some f => forall d spec empties fmt vals svals, NoDup (d_ids d) ->
      f (pyself_of d spec empties fmt vals svals) = Ok (base_keys (desc_of d (OExplicit (po_element_ids spec))))
  | None => True end.
Proof. exact gen_Explicit__base_element_orderings. Qed.
Print Assumptions C07_gen_Explicit__base_element_orderings.

Theorem C07_gen_Explicit__element_positions_by_id :
  match src_ExplicitOrderCollator__element_positions_by_id with
  | Some f => forall d spec empties fmt vals svals, NoDup (d_ids d) ->
      f (pyself_of d spec empties fmt vals svals) = Ok (pbi_dict (desc_of d (OExplicit (po_element_ids spec))))
  | None => True end.
Proof. exact gen_Explicit__element_positions_by_id. Qed.
Print Assumptions C07_gen_Explicit__element_positions_by_id.

Theorem C07_gen_Explicit__insertion_position :
  match src_ExplicitOrderCollator__insertion_position with
  | Some f => forall d spec empties fmt vals svals sub, NoDup (d_ids d) ->
      f (pyself_of d spec empties fmt vals svals) sub = ins_pos (desc_of d (OExplicit (po_element_ids spec))) (snd sub)
  | None => True end.
Proof. exact gen_Explicit__insertion_position. Qed.
Print Assumptions C07_gen_Explicit__insertion_position.

Theorem C07_gen_Explicit__insertion_orderings :
  match src_ExplicitOrderCollator__insertion_orderings with
  | Some f => forall d spec empties fmt vals svals, NoDup (d_ids d) ->
      f (pyself_of d spec empties fmt vals svals)
      = ins_keys (desc_of d (OExplicit (po_element_ids spec))) (anchors_of d (subtotals d))
  | None => True end.
Proof. exact gen_Explicit__insertion_orderings. Qed.
Print Assumptions C07_gen_Explicit__insertion_orderings.

Theorem C07_gen_Explicit__derived_element_position :
  match src_ExplicitOrderCollator__derived_element_position with
  | Some f => forall d spec empties fmt vals svals el,
      NoDup (d_ids d) -> In el (d_elems d) -> e_derived el = true ->
      f (pyself_of d spec empties fmt vals svals) (e_id el)
      = Ok (danchor_pos (desc_of d (OExplicit (po_element_ids spec))) (e_danchor el))
  | None => True end.
Proof. exact gen_Explicit__derived_element_position. Qed.
Print Assumptions C07_gen_Explicit__derived_element_position.

Theorem C07_gen_Explicit__derived_element_orderings :
  match src_ExplicitOrderCollator__derived_element_orderings with
  | Some f => forall d spec empties fmt vals svals, NoDup (d_ids d) ->
      f (pyself_of d spec empties fmt vals svals)
      = Ok (map (float_key (desc_of d (OExplicit (po_element_ids spec)))) (derived_floats d))
  | None => True end.
Proof. exact gen_Explicit__derived_element_orderings. Qed.
Print Assumptions C07_gen_Explicit__derived_element_orderings.

Theorem C07_gen_Explicit__display_order_mapping :
  match src_ExplicitOrderCollator__display_order_mapping with
  | Some f => forall d spec empties fmt vals svals,
      f (pyself_of d spec empties fmt vals svals) = order_mapping (plain_bogus_ids d)
  | None => True end.
Proof. exact gen_Explicit__display_order_mapping. Qed.
Print Assumptions C07_gen_Explicit__display_order_mapping.

Theorem C07_gen_Explicit__display_order :
  match src_ExplicitOrderCollator__display_order with
  | Some f => forall d spec empties fmt vals svals, NoDup (d_ids d) ->
      f (pyself_of d spec empties fmt vals svals)
      = display_result fmt (anchored_display d (OExplicit (po_element_ids spec)) empties)
                           (anchored_display_bogus d (OExplicit (po_element_ids spec)) empties)
  | None => True end.
Proof. exact gen_Explicit__display_order. Qed.
Print Assumptions C07_gen_Explicit__display_order.

Theorem C07_gen_Payload___init__ :
  match src_PayloadOrderCollator___init__ with
  | Some f => forall (dim : pydim) (empty : list Z) (fmt : order_format),
      f dim empty fmt = mkPyCollator dim empty fmt [] []
  | None => True end.
Proof. exact gen_Payload___init__. Qed.
Print Assumptions C07_gen_Payload___init__.

Theorem C07_gen_Payload_display_order :
  match src_PayloadOrderCollator_display_order with
  | Some f => forall d spec empties fmt,
      f (pydim_of d spec) (map Z.of_nat empties) fmt
      = display_result fmt (anchored_display d OPayload empties)
                           (anchored_display_bogus d OPayload empties)
  | None => True end.
Proof. exact gen_Payload_display_order. Qed.
Print Assumptions C07_gen_Payload_display_order.

Theorem C07_gen_Explicit___init__ :
  match src_ExplicitOrderCollator___init__ with
  | Some f => forall (dim : pydim) (empty : list Z) (fmt : order_format),
      f dim empty fmt = mkPyCollator dim empty fmt [] []
  | None => True end.
Proof. exact gen_Explicit___init__. Qed.
Print Assumptions C07_gen_Explicit___init__.

Theorem C07_gen_Explicit_display_order :
  match src_ExplicitOrderCollator_display_order with
  | Some f => forall d spec empties fmt, NoDup (d_ids d) ->
      f (pydim_of d spec) (map Z.of_nat empties) fmt
      = display_result fmt (anchored_display d (OExplicit (po_element_ids spec)) empties)
                           (anchored_display_bogus d (OExplicit (po_element_ids spec)) empties)
  | None => True end.
Proof. exact gen_Explicit_display_order. Qed.
Print Assumptions C07_gen_Explicit_display_order.

End GenAgreeCollator_C07.
(*END GenAgreeCollator_C07*)

(* ---- WIRING-APPENDIX:BEGIN (generated by tools/gen_wiring_props.py; do not edit) ---- *)
From CC Require Proofs.GenAgreeWiring_C07.
Section Wiring_C07.
Import Coq.Lists.List Coq.ZArith.ZArith Coq.Strings.String CC.Base.WiringExp CC.Gen.WiringSrc.
Import ListNotations.
Local Open Scope string_scope.

Theorem C07_wiring_Slice_payload_order :
  wsrc_Slice_payload_order = Some (WCall (WGlobal "tuple") [WAttr (WCall (WGlobal
      "PayloadOrderCollator") [WSelf "_rows_dimension"; WCall (WGlobal "tuple") [WIndex (WCall
      (WAttr (WGlobal "np") "where") [WAttr (WSelf "_measures") "rows_pruning_mask"] []) [WInt
      (0)%Z]] []] []) "payload_order"] []).
Proof. exact Proofs.GenAgreeWiring_C07.gen_wiring_Slice_payload_order. Qed.
Print Assumptions C07_wiring_Slice_payload_order.

Theorem C07_wiring_Strand_payload_order :
  wsrc_Strand_payload_order = Some (WCall (WGlobal "tuple") [WAttr (WCall (WGlobal
      "PayloadOrderCollator") [WSelf "_rows_dimension"; WCall (WGlobal "tuple") [WComp "gen" (WVar
      "i") [(["i"; "N"], WCall (WGlobal "enumerate") [WAttr (WSelf "_measures") "pruning_base"] [],
      [WCmp "==" (WVar "N") (WInt (0)%Z)])]] []] []) "payload_order"] []).
Proof. exact Proofs.GenAgreeWiring_C07.gen_wiring_Strand_payload_order. Qed.
Print Assumptions C07_wiring_Strand_payload_order.

Theorem C07_wiring_Strand__row_order_bogus_ids :
  wsrc_Strand__row_order_bogus_ids = Some (WCall (WAttr (WGlobal "np") "array") [WCall (WAttr (WGlobal
      "stripe_BaseOrderHelper") "display_order") [WSelf "_rows_dimension"; WSelf "_measures"]
      [("format", WAttr (WGlobal "ORDER_FORMAT") "BOGUS_IDS")]] []).
Proof. exact Proofs.GenAgreeWiring_C07.gen_wiring_Strand__row_order_bogus_ids. Qed.
Print Assumptions C07_wiring_Strand__row_order_bogus_ids.

End Wiring_C07.
(* ---- WIRING-APPENDIX:END ---- *)

(*BEGIN GenAgreeDimension_C07*)
(* ------------------------------------------------------------------------------------ *)
(* SOURCE TEXT of the dimension side of the anchored order (harness/translate/x_dimension.py -> Gen/DimensionSrc.v,
   see the appendix of Props/C04.v): _Subtotal.anchor / insertion_id and _Subtotals._iter_valid_subtotal_dicts /
   _position_crosswalk / _valid_subtotal_dicts_with_ids / _subtotals / bogus_ids / insertion_ids ARE [norm_anchor],
   [valid_dicts], [crosswalk_order] (as the {position: rank} dict the code builds), [with_ids] of Model/Collator.v -
   for ALL lists of insertion dicts that read as the model's [insertion] records ([ins_of]: ids are ints, anchors and
   terms identifiers) and all Elements objects whose ids are identifiers.  [oid] reads an identifier of Base/Ident.v
   as one of Spec/OrderSpec.v; [jv_of_nanchor] is what _Subtotal.anchor returns; [sub_view] = the (insertion_id,
   anchor) pair the collators read (Model/PyCollator.v [pysub], [pysubs_of]) - these are the parameters the collator
   translator takes through [pydim_of].  A view insertion without an id gets the LAST rank of its position in the
   crosswalk dict; the model reads the first: the two agree when no position is listed twice ([NoDup
   (crosswalk_order ..)], which holds for distinct element ids).
   Dimension._view_insertion_dicts / subtotals / subtotals_in_payload_order / insertion_ids / order_spec
   (Proofs/GenAgreeDimensionCompose.v): for every Dimension object that reads as the model dimension d ([dim_abs]:
   element definitions with identifier ids and no "order" key, a dimension type other than MR_SUBVAR / DATETIME,
   insertion dicts that read as [insertion] records) the _Subtotal objects of Dimension.subtotals /
   subtotals_in_payload_order ARE [subtotals d] / [subtotals_in_payload_order d] - so the two translators compose. *)
From CC Require Proofs.GenAgreeDimensionAnchors Proofs.GenAgreeDimensionCompose Base.Ident.
Section GenAgreeDimension_C07.   (* scopes and imports below end with the section *)
Import Coq.Lists.List Coq.ZArith.ZArith Coq.Strings.String Coq.Bool.Bool CC.Base.XQ CC.Base.PyList CC.Base.PyDict
       CC.Model.DimType CC.Model.Subtotals CC.Model.SubtotalIds CC.Model.PyDimension CC.Gen.DimensionSrc
       CC.Proofs.GenAgreeDimensionLib CC.Proofs.GenAgreeDimensionSubtotal CC.Spec.OrderSpec CC.Model.Collator
       CC.Proofs.OrderCrosswalk CC.Proofs.GenAgreeDimensionAnchors CC.Proofs.GenAgreeDimensionVisibility
       CC.Proofs.GenAgreeDimensionCompose.
Import Coq.Lists.List.ListNotations.
Local Close Scope Q_scope.
Local Open Scope Z_scope.

Theorem C07_gen_dim__Subtotal_anchor :
  match src__Subtotal_anchor with
  | Some f => forall d els ids a, wf_elems els ids ->
      jd_get d (JStr "anchor") = Some (jv_of_ident a) ->
      f (mkPySubtotal (JDict d) els) = Ok (jv_of_nanchor (norm_anchor (map oid ids) (oid a)))
  | None => True end.
Proof. exact gen__Subtotal_anchor. Qed.
Print Assumptions C07_gen_dim__Subtotal_anchor.

Theorem C07_gen_dim__Subtotals__iter_valid_subtotal_dicts_C07 :
  match src__Subtotals__iter_valid_subtotal_dicts with
  | Some f => forall jsv js els fv ids inss, wf_elems els ids -> pj_iter jsv = Ok js -> Forall2 abs_ins js inss ->
      exists vs, f (mkPySubtotals jsv els fv) = Ok vs /\
                 Forall2 abs_ins vs (valid_dicts (map oid ids) inss)
  | None => True end.
Proof. exact gen__Subtotals__iter_valid_subtotal_dicts_C07. Qed.
Print Assumptions C07_gen_dim__Subtotals__iter_valid_subtotal_dicts_C07.

Theorem C07_gen_dim__Subtotals__position_crosswalk :
  match src__Subtotals__position_crosswalk with
  | Some f => forall js els fv ids dicts inss, wf_elems els ids -> Forall2 abs_wf_ins dicts inss ->
      f (mkPySubtotals js els fv) dicts
      = Ok (py_dict_of_pairs Z.eqb
              (map (fun p : Z * Z => (snd p, fst p + 1))
                   (py_enumerate (map Z.of_nat (crosswalk_order (map oid ids) inss)))))
  | None => True end.
Proof. exact gen__Subtotals__position_crosswalk. Qed.
Print Assumptions C07_gen_dim__Subtotals__position_crosswalk.

Theorem C07_gen_dim__Subtotals__valid_subtotal_dicts_with_ids :
  match src__Subtotals__valid_subtotal_dicts_with_ids with
  | Some f => forall jsv js els fv ids inss, wf_elems els ids -> pj_iter jsv = Ok js -> Forall2 abs_ins js inss ->
      (fv = true -> NoDup (crosswalk_order (map oid ids) (valid_dicts (map oid ids) inss))) ->
      exists rs, f (mkPySubtotals jsv els fv) = Ok rs /\
                 Forall2 abs_sub rs (with_ids fv (map oid ids) (valid_dicts (map oid ids) inss))
  | None => True end.
Proof. exact gen__Subtotals__valid_subtotal_dicts_with_ids. Qed.
Print Assumptions C07_gen_dim__Subtotals__valid_subtotal_dicts_with_ids.

Theorem C07_gen_dim__Subtotal_insertion_id :
  match src__Subtotal_insertion_id with
  | Some f => forall d els z, jd_get d (JStr "id") = Some (JInt z) ->
      f (mkPySubtotal (JDict d) els) = Ok (JInt z)
  | None => True end.
Proof. exact gen__Subtotal_insertion_id. Qed.
Print Assumptions C07_gen_dim__Subtotal_insertion_id.

Theorem C07_gen_dim__Subtotals__subtotals :
  match src__Subtotals__subtotals, src__Subtotal_insertion_id, src__Subtotal_anchor with
  | Some f, Some fid, Some fanchor => forall jsv js els fv ids inss, wf_elems els ids -> pj_iter jsv = Ok js -> Forall2 abs_ins js inss ->
      (fv = true -> NoDup (crosswalk_order (map oid ids) (valid_dicts (map oid ids) inss))) ->
      exists subs, f (mkPySubtotals jsv els fv) = Ok subs /\
                   Forall2 (sub_view fid fanchor (map oid ids)) subs
                           (with_ids fv (map oid ids) (valid_dicts (map oid ids) inss))
  | _, _, _ => True end.
Proof. exact gen__Subtotals__subtotals. Qed.
Print Assumptions C07_gen_dim__Subtotals__subtotals.

Theorem C07_gen_dim__Subtotals__subtotals_ids :
  match src__Subtotals__subtotals, src__Subtotal_insertion_id with
  | Some f, Some fid => forall jsv js els fv ids inss, wf_elems els ids -> pj_iter jsv = Ok js -> Forall2 abs_ins js inss ->
      (fv = true -> NoDup (crosswalk_order (map oid ids) (valid_dicts (map oid ids) inss))) ->
      exists subs, f (mkPySubtotals jsv els fv) = Ok subs /\
                   Forall2 (fun s zi => fid s = Ok (JInt (fst zi))) subs
                           (with_ids fv (map oid ids) (valid_dicts (map oid ids) inss))
  | _, _ => True end.
Proof. exact gen__Subtotals__subtotals_ids. Qed.
Print Assumptions C07_gen_dim__Subtotals__subtotals_ids.

Theorem C07_gen_dim__Subtotals_insertion_ids :
  match src__Subtotals_insertion_ids with
  | Some f => forall jsv js els fv ids inss, wf_elems els ids -> pj_iter jsv = Ok js -> Forall2 abs_ins js inss ->
      (fv = true -> NoDup (crosswalk_order (map oid ids) (valid_dicts (map oid ids) inss))) ->
      f (mkPySubtotals jsv els fv)
      = Ok (map (fun zi => JInt (fst zi)) (with_ids fv (map oid ids) (valid_dicts (map oid ids) inss)))
  | None => True end.
Proof. exact gen__Subtotals_insertion_ids. Qed.
Print Assumptions C07_gen_dim__Subtotals_insertion_ids.

Theorem C07_gen_dim__Subtotals_bogus_ids :
  match src__Subtotals_bogus_ids with
  | Some f => forall jsv js els fv ids inss, wf_elems els ids -> pj_iter jsv = Ok js -> Forall2 abs_ins js inss ->
      (fv = true -> NoDup (crosswalk_order (map oid ids) (valid_dicts (map oid ids) inss))) ->
      f (mkPySubtotals jsv els fv)
      = Ok (map (fun zi => JInt (fst zi)) (with_ids fv (map oid ids) (valid_dicts (map oid ids) inss)))
  | None => True end.
Proof. exact gen__Subtotals_bogus_ids. Qed.
Print Assumptions C07_gen_dim__Subtotals_bogus_ids.

Theorem C07_gen_dim_Dimension__view_insertion_dicts :
  match src_Dimension__view_insertion_dicts with
  | Some f => forall t dd tr v, view_of dd = Some v -> f (mkPyDimension t (JDict dd) tr) = Ok v
  | None => True end.
Proof. exact gen_Dimension__view_insertion_dicts. Qed.
Print Assumptions C07_gen_dim_Dimension__view_insertion_dicts.

Theorem C07_gen_dim_Dimension_subtotals :
  match src_Dimension_subtotals, src__Subtotals__subtotals, src__Subtotal_insertion_id, src__Subtotal_anchor with
  | Some f, Some fs, Some fid, Some fanchor => forall t dd tr ty defs ids ax vjs d,
      dim_abs t dd tr ty defs ids ax vjs d ->
      exists S subs, f (mkPyDimension t (JDict dd) (JDict tr)) = Ok S /\ fs S = Ok subs /\
                     Forall2 (sub_view fid fanchor (d_ids d)) subs (subtotals d)
  | _, _, _, _ => True end.
Proof. exact gen_Dimension_subtotals. Qed.
Print Assumptions C07_gen_dim_Dimension_subtotals.

Theorem C07_gen_dim_Dimension_subtotals_ids :
  match src_Dimension_subtotals, src__Subtotals__subtotals, src__Subtotal_insertion_id with
  | Some f, Some fs, Some fid => forall t dd tr ty defs ids ax vjs d,
      dim_abs t dd tr ty defs ids ax vjs d ->
      exists S subs, f (mkPyDimension t (JDict dd) (JDict tr)) = Ok S /\ fs S = Ok subs /\
                     Forall2 (fun s zi => fid s = Ok (JInt (fst zi))) subs (subtotals d)
  | _, _, _ => True end.
Proof. exact gen_Dimension_subtotals_ids. Qed.
Print Assumptions C07_gen_dim_Dimension_subtotals_ids.

Theorem C07_gen_dim_Dimension_subtotals_in_payload_order :
  match src_Dimension_subtotals_in_payload_order, src__Subtotals__subtotals, src__Subtotal_insertion_id,
        src__Subtotal_anchor with
  | Some f, Some fs, Some fid, Some fanchor => forall t dd tr ty defs ids ax vjs d,
      dim_abs t dd tr ty defs ids ax vjs d ->
      exists S subs, f (mkPyDimension t (JDict dd) (JDict tr)) = Ok S /\ fs S = Ok subs /\
                     Forall2 (sub_view fid fanchor (d_ids d)) subs (subtotals_in_payload_order d)
  | _, _, _, _ => True end.
Proof. exact gen_Dimension_subtotals_in_payload_order. Qed.
Print Assumptions C07_gen_dim_Dimension_subtotals_in_payload_order.

Theorem C07_gen_dim_Dimension_insertion_ids :
  match src_Dimension_insertion_ids with
  | Some f => forall t dd tr ty defs ids ax vjs d, dim_abs t dd tr ty defs ids ax vjs d ->
      f (mkPyDimension t (JDict dd) (JDict tr)) = Ok (map (fun zi => JInt (fst zi)) (subtotals d))
  | None => True end.
Proof. exact gen_Dimension_insertion_ids. Qed.
Print Assumptions C07_gen_dim_Dimension_insertion_ids.

Theorem C07_gen_dim_Dimension_order_spec :
  match src_Dimension_order_spec with
  | Some f => forall D, f D = Ok (mkPyOrderSpec D (dm_dimension_transforms_dict D))
  | None => True end.
Proof. exact gen_Dimension_order_spec. Qed.
Print Assumptions C07_gen_dim_Dimension_order_spec.

Theorem C07_gen_dim_Element_derived :
  match src_Element_derived with
  | Some f => forall e idx xf t, f (mkPyElement (JDict e) idx xf t) = Ok (derived_of e)
  | None => True end.
Proof. exact gen_Element_derived. Qed.
Print Assumptions C07_gen_dim_Element_derived.

Theorem C07_gen_dim_Element_anchor :
  match src_Element_anchor with
  | Some f => forall e idx xf t v r,
      jv_truthy (derived_of e) = true ->
      jd_get_default e (JStr "value") (JDict []) = JDict v ->
      jd_get_default v (JStr "references") (JDict []) = JDict r ->
      f (mkPyElement (JDict e) idx xf t) = Ok (jd_get_default r (JStr "anchor") JNone)
  | None => True end.
Proof. exact gen_Element_anchor. Qed.
Print Assumptions C07_gen_dim_Element_anchor.

Theorem C07_gen_dim_Element_anchor_not_derived :
  match src_Element_anchor with
  | Some f => forall e idx xf t, jv_truthy (derived_of e) = false -> f (mkPyElement (JDict e) idx xf t) = Ok JNone
  | None => True end.
Proof. exact gen_Element_anchor_not_derived. Qed.
Print Assumptions C07_gen_dim_Element_anchor_not_derived.

End GenAgreeDimension_C07.
(*END GenAgreeDimension_C07*)
