(* C04 -- Subtotals behave as merged categories; differences as signed merges.

   Only statements ([exact <lemma>] + [Print Assumptions]) and examples.
   Spec:   Spec/Survey.v (respondent-level survey, tabulate), Spec/Merge.v ([recode]: merging
           categories in the DATA; the merged category is the last row/column of the merged table).
   Model:  Model/SubtotalIds.v (validity gauntlet, addend / subtrahend id -> offset resolution),
           Model/Subtotals.v (Sum / Nan blocks, strands), Model/Proportions.v (base blocks,
           proportions, categorical-date rule), Model/Variance.v, Model/Zscore.v, Model/CubeCounts.v
           (tied to the code by harness/props/c04.py).
   Proofs: Proofs/MergeIds.v, MergeSum.v, MergeSurvey.v, MergeMeasures.v.

   FULL STATEMENT (property text) and what is proved:
   (1) count = sum addends - sum subtrahends, set semantics (stale / missing / repeated ids)   PROVED
       (rows, columns, strands; C04_subtotal_*_value, C04_resolve_*, C04_gauntlet);
       NaN for a difference when the response carries valid counts                             PROVED for the
       model's count blocks (C04_difference_count_nan_with_valid_counts); the CODE applies it only to some
       count measures -- see C04_valid_counts_difference_refuted and known_findings.d/C04-*.json
   (2) intersection row-first == column-first, every matrix incl. NaN / inf cells               PROVED
   (3) merge equivalence for a subtotal without subtrahends:
         counts, row / column / table bases (weighted; unweighted = same theorem on unit_weights S),
         row / column / table proportions, their variances, squared standard errors, the cell's
         z-score (signed square), and ANY congruent function of (count, row base, column base,
         table base) of the cell -- ROW subtotal, columns categorical or MR, 2-D and 3-D           PROVED
         COLUMN subtotal: counts and the three bases                                              PROVED
         (the C04_merge_col_ theorems); derived measures for columns follow by the same congruence but are
         not restated.                                                                            _partial
         p-values, pairwise t / p, scale means, population estimates, share of sum:
         p-value, population (= fraction x table proportion) and the pairwise t statistic of a ROW
         subtotal are congruent functions of quantities proved equal, but are NOT stated here as
         theorems about their model blocks; scale mean (a function of the whole row) and share of
         sum (needs the survey-level spec of the sum measure) are not proved.                     _partial
         They are covered by the relational oracle of the check on the implementation.
         Intersections by merging on both dimensions: not proved (only (2)).                     _partial
   (4) NaN measures (mean, median, stddev, index: the Nan strategy)                            PROVED (trivial for the
       model; the tie is the correspondence)
   (5) difference rules: own-direction base and proportion NaN, difference x difference NaN,
       categorical-date one-minus-one = difference of percentages, several terms = NaN         PROVED *)
From Coq Require Import QArith ZArith List Bool Lia Arith Sorted Morphisms.
From Coq Require String.
From CC Require Import Base.XQ Base.ListX Base.Ident Spec.Survey Spec.Merge Model.CubeCounts
     Model.Subtotals Model.SubtotalIds Model.Proportions Model.Variance Model.Zscore
     Proofs.CubeCountsProofs Proofs.MergeIds Proofs.MergePhantom Proofs.MergeSum Proofs.MergeSurvey
     Proofs.MergeMeasures.
Import ListNotations.
Local Close Scope Q_scope.
Local Open Scope nat_scope.

(* ==================================================================================== *)
(** * (1) which offsets a subtotal adds and subtracts *)

(* offset i is a term iff the id of the i-th valid element is listed *)
Theorem C04_resolve_membership ids terms i :
  In i (resolve ids terms) <-> i < length ids /\ In (nth i ids INone) terms.
Proof. exact (resolve_In ids terms i). Qed.
Print Assumptions C04_resolve_membership.

(* ascending, hence duplicate-free: a repeated id is one term *)
Theorem C04_resolve_sorted ids terms : StronglySorted lt (resolve ids terms).
Proof. exact (resolve_sorted ids terms). Qed.
Print Assumptions C04_resolve_sorted.

(* only the SET of listed valid ids matters *)
Theorem C04_resolve_set_semantics ids t1 t2 :
  (forall x, In x ids -> (In x t1 <-> In x t2)) -> resolve ids t1 = resolve ids t2.
Proof. exact (resolve_set ids t1 t2). Qed.
Print Assumptions C04_resolve_set_semantics.

(* an id that is not a valid element (stale, missing category, wrong type) contributes nothing *)
Theorem C04_resolve_stale_id ids x t : ~ In x ids -> resolve ids (x :: t) = resolve ids t.
Proof. exact (resolve_stale ids x t). Qed.
Print Assumptions C04_resolve_stale_id.

(* the validity gauntlet of _Subtotals._iter_valid_subtotal_dicts *)
Theorem C04_gauntlet ids d :
  valid_subtotal ids d = true <->
  i_is_dict d = true /\ i_fn_subtotal d = true /\ i_hide_true d = false /\
  i_has_anchor d = true /\ i_has_name d = true /\
  exists x, In x (positive_terms d ++ negative_terms d) /\ In x ids.
Proof. exact (valid_subtotal_spec ids d). Qed.
Print Assumptions C04_gauntlet.

Theorem C04_valid_subtotal_has_a_term ids d :
  valid_subtotal ids d = true ->
  s_add (subtotal_of ids d) <> [] \/ s_sub (subtotal_of ids d) <> [].
Proof. exact (valid_subtotal_has_term ids d). Qed.
Print Assumptions C04_valid_subtotal_has_a_term.

Theorem C04_is_difference ids d : is_difference ids d = has_subs (subtotal_of ids d).
Proof. exact (is_difference_has_subs ids d). Qed.
Print Assumptions C04_is_difference.

(* a subtotal is a difference iff SOME id listed in kwargs.negative is the id of a valid element;
   the raw list being non-empty is not enough *)
Theorem C04_is_difference_iff_valid_negative ids d :
  is_difference ids d = true <-> exists x, In x (negative_terms d) /\ In x ids.
Proof. exact (is_difference_iff ids d). Qed.
Print Assumptions C04_is_difference_iff_valid_negative.

(* kwargs.negative lists ONLY stale / missing / wrongly typed ids: nothing is subtracted, the
   subtotal is not a difference and is the very subtotal of the insertion without the negative
   list - so the value, NaN-override, intersection and MERGE theorems below (all stated on the
   resolved [subtotal]) apply to it as to any plain subtotal, and it passes the gauntlet exactly
   when the plain insertion does *)
Theorem C04_phantom_negative_is_plain ids d :
  (forall x, In x (negative_terms d) -> ~ In x ids) ->
  is_difference ids d = false /\
  s_sub (subtotal_of ids d) = [] /\
  subtotal_of ids d = subtotal_of ids (without_negative d).
Proof. exact (phantom_negative_is_plain ids d). Qed.
Print Assumptions C04_phantom_negative_is_plain.

Theorem C04_phantom_negative_gauntlet ids d :
  (forall x, In x (negative_terms d) -> ~ In x ids) ->
  valid_subtotal ids d = valid_subtotal ids (without_negative d).
Proof. exact (phantom_negative_valid ids d). Qed.
Print Assumptions C04_phantom_negative_gauntlet.

(* the value: listed addends minus listed subtrahends, each valid element at most once per side.
   [signed_sum ids d g] = Sum_i [id_i in positive] g i  -  Sum_i [id_i in negative] g i          *)
Theorem C04_subtotal_row_value ids d base (g : nat -> Q) j :
  (forall i, i < length ids -> mnth base i j = Fin (g i)) ->
  subrow_cell base false (subtotal_of ids d) j =x= Fin (signed_sum ids d g).
Proof. exact (subtotal_row_value ids d base g j). Qed.
Print Assumptions C04_subtotal_row_value.

Theorem C04_subtotal_column_value ids d base (g : nat -> Q) i :
  (forall j, j < length ids -> mnth base i j = Fin (g j)) ->
  subcol_cell base false (subtotal_of ids d) i =x= Fin (signed_sum ids d g).
Proof. exact (subtotal_column_value ids d base g i). Qed.
Print Assumptions C04_subtotal_column_value.

Theorem C04_subtotal_strand_value ids d v (g : nat -> Q) :
  (forall i, i < length ids -> vnth v i = Fin (g i)) ->
  stripe_sum_subtotal v (subtotal_of ids d) =x= Fin (signed_sum ids d g).
Proof. exact (subtotal_strand_value ids d v g). Qed.
Print Assumptions C04_subtotal_strand_value.

(* the coefficient of an element is 1 or 0 on each side, unchanged by stale / repeated ids *)
Theorem C04_listed_stale ids x t i : ~ In x ids -> i < length ids -> listed ids (x :: t) i = listed ids t i.
Proof. exact (listed_stale ids x t i). Qed.
Print Assumptions C04_listed_stale.
Theorem C04_listed_duplicate ids x t i : listed ids (x :: x :: t) i = listed ids (x :: t) i.
Proof. exact (listed_duplicate ids x t i). Qed.
Print Assumptions C04_listed_duplicate.

(* NaN override: a difference (and only a difference) becomes NaN *)
Theorem C04_difference_row_nan_under_override ids d base j :
  is_difference ids d = true -> subrow_cell base true (subtotal_of ids d) j = NaN.
Proof. exact (subtotal_row_diff_nan ids d base j). Qed.
Print Assumptions C04_difference_row_nan_under_override.
Theorem C04_override_spares_plain_subtotals ids d base j b :
  is_difference ids d = false ->
  subrow_cell base b (subtotal_of ids d) j = subrow_cell base false (subtotal_of ids d) j.
Proof. exact (subtotal_row_override_irrelevant ids d base j b). Qed.
Print Assumptions C04_override_spares_plain_subtotals.

Theorem C04_difference_count_nan_with_valid_counts nr nc rsubs csubs counts kk j :
  kk < length rsubs -> j < nc -> has_subs (nth kk rsubs nosub) = true ->
  mnth (b_rows (count_blocks nr nc rsubs csubs counts true)) kk j = NaN.
Proof. exact (diff_count_nan_with_valid_counts nr nc rsubs csubs counts kk j). Qed.
Print Assumptions C04_difference_count_nan_with_valid_counts.

(* ==================================================================================== *)
(** * (2) intersections *)

Theorem C04_intersection_commutes base dcn drn rs cs :
  inter_cell base dcn drn rs cs =x= inter_cell_colfirst base dcn drn rs cs.
Proof. exact (intersection_commutes base dcn drn rs cs). Qed.
Print Assumptions C04_intersection_commutes.

Theorem C04_intersection_of_plain_subtotals base dcn drn rs cs :
  has_subs rs = false -> has_subs cs = false ->
  inter_cell base dcn drn rs cs
  =x= xsum (map (fun j => xsum (map (fun i => mnth base i j) (s_add rs))) (s_add cs)).
Proof. exact (intersection_plain base dcn drn rs cs). Qed.
Print Assumptions C04_intersection_of_plain_subtotals.

Theorem C04_difference_x_difference_nan base dcn drn rs cs :
  has_subs rs = true -> has_subs cs = true -> inter_cell base dcn drn rs cs = NaN.
Proof. exact (intersection_diff_x_diff base dcn drn rs cs). Qed.
Print Assumptions C04_difference_x_difference_nan.

(* ==================================================================================== *)
(** * (3) merge equivalence *)

(* what merging does to the tabulation: the merged category collects the addends ... *)
Theorem C04_tab_recode_merged S v ms offs (C : resp -> bool) :
  Forall (fun i => i < n_valid ms) offs -> NoDup offs -> fresh_for v ms S ->
  (forall r, C (recode_resp v (positions ms offs) (merged_pos ms) r) = C r) ->
  (wsum (recode v (positions ms offs) (merged_pos ms) S)
        (fun r => C r && in_cat (merged_flags ms) (ans r v) (n_valid ms))
   == qsum (map (fun i => wsum S (fun r => C r && in_cat ms (ans r v) i)) offs))%Q.
Proof. exact (tab_recode_merged S v ms offs C). Qed.
Print Assumptions C04_tab_recode_merged.

(* ... and totals over "any valid category" do not move *)
Theorem C04_tab_recode_total S v ms offs (C : resp -> bool) :
  Forall (fun i => i < n_valid ms) offs -> fresh_for v ms S ->
  (forall r, C (recode_resp v (positions ms offs) (merged_pos ms) r) = C r) ->
  (wsum (recode v (positions ms offs) (merged_pos ms) S) (fun r => C r && ok_cat (merged_flags ms) (ans r v))
   == wsum S (fun r => C r && ok_cat ms (ans r v)))%Q.
Proof. exact (tab_recode_total S v ms offs C). Qed.
Print Assumptions C04_tab_recode_total.

(* ROW subtotal kk of a slice (rows categorical, columns categorical or MR, optional table
   variable).  [o_*] are the base blocks tabulated from S, [m_*] those tabulated from the merged
   survey; the merged row is row [nval ms] of the merged table.  Hypotheses: the subtotal has no
   subtrahends, its addend offsets are valid rows listed once (what [resolve] returns), nobody
   answers the position the fresh category takes, and the dimension has a valid element (a
   subtotal that passed the gauntlet guarantees it). *)
Theorem C04_merge_counts S tv vr vc kc ms mc k rsubs csubs kk dn :
  t_ok tv -> cat_or_mr kc -> k < t_n tv -> vc <> vr -> tv_other tv vr -> kk < length rsubs ->
  s_sub (nth kk rsubs nosub) = [] ->
  Forall (fun i => i < n_valid ms) (s_add (nth kk rsubs nosub)) -> NoDup (s_add (nth kk rsubs nosub)) ->
  fresh_for vr ms S -> 0 < n_valid ms ->
  forall j, j < nval mc ->
  mnth (b_rows (count_blocks (nval ms) (nval mc) rsubs csubs (o_counts S tv vr vc kc ms mc k) dn)) kk j
  =x= mnth (m_counts S tv vr vc kc ms mc k rsubs kk) (nval ms) j.
Proof. exact (merge_block_counts S tv vr vc kc ms mc k rsubs csubs kk dn). Qed.
Print Assumptions C04_merge_counts.

Theorem C04_merge_row_bases S tv vr vc kc ms mc k rsubs csubs kk :
  t_ok tv -> cat_or_mr kc -> k < t_n tv -> vc <> vr -> tv_other tv vr -> kk < length rsubs ->
  s_sub (nth kk rsubs nosub) = [] ->
  Forall (fun i => i < n_valid ms) (s_add (nth kk rsubs nosub)) -> NoDup (s_add (nth kk rsubs nosub)) ->
  fresh_for vr ms S -> 0 < n_valid ms ->
  forall j, j < nval mc ->
  mnth (b_rows (row_base_blocks (nval ms) (nval mc) rsubs csubs (o_rb S tv vr vc kc ms mc k))) kk j
  =x= mnth (m_rb S tv vr vc kc ms mc k rsubs kk) (nval ms) j.
Proof. exact (merge_block_row_bases S tv vr vc kc ms mc k rsubs csubs kk). Qed.
Print Assumptions C04_merge_row_bases.

Theorem C04_merge_column_bases S tv vr vc kc ms mc k rsubs csubs kk :
  t_ok tv -> cat_or_mr kc -> k < t_n tv -> vc <> vr -> tv_other tv vr -> kk < length rsubs ->
  Forall (fun i => i < n_valid ms) (s_add (nth kk rsubs nosub)) ->
  fresh_for vr ms S -> 0 < n_valid ms ->
  forall j, j < nval mc ->
  mnth (b_rows (col_base_blocks (nval ms) (nval mc) rsubs csubs (o_cb S tv vr vc kc ms mc k))) kk j
  =x= mnth (m_cb S tv vr vc kc ms mc k rsubs kk) (nval ms) j.
Proof. exact (merge_block_column_bases S tv vr vc kc ms mc k rsubs csubs kk). Qed.
Print Assumptions C04_merge_column_bases.

Theorem C04_merge_table_bases S tv vr vc kc ms mc k rsubs csubs kk :
  t_ok tv -> cat_or_mr kc -> k < t_n tv -> vc <> vr -> tv_other tv vr -> kk < length rsubs ->
  Forall (fun i => i < n_valid ms) (s_add (nth kk rsubs nosub)) ->
  fresh_for vr ms S -> 0 < n_valid ms ->
  forall j, j < nval mc ->
  mnth (b_rows (table_base_blocks (nval ms) (nval mc) rsubs csubs (o_tb S tv vr vc kc ms mc k))) kk j
  =x= mnth (m_tb S tv vr vc kc ms mc k rsubs kk) (nval ms) j.
Proof. exact (merge_block_table_bases S tv vr vc kc ms mc k rsubs csubs kk). Qed.
Print Assumptions C04_merge_table_bases.

(* proportions: the merged table may carry any insertions / flags of its own *)
Theorem C04_merge_row_proportions S tv vr vc kc ms mc k rsubs csubs rsubs' csubs' kk dn dn' rd cd rd' cd' :
  t_ok tv -> cat_or_mr kc -> k < t_n tv -> vc <> vr -> tv_other tv vr -> kk < length rsubs ->
  s_sub (nth kk rsubs nosub) = [] ->
  Forall (fun i => i < n_valid ms) (s_add (nth kk rsubs nosub)) -> NoDup (s_add (nth kk rsubs nosub)) ->
  fresh_for vr ms S -> 0 < n_valid ms ->
  forall j, j < nval mc ->
  mnth (b_rows (row_proportions (nval ms) (nval mc) rsubs csubs (o_counts S tv vr vc kc ms mc k) dn rd cd
                                (o_rb S tv vr vc kc ms mc k))) kk j
  =x= mnth (b_base (row_proportions (Datatypes.S (nval ms)) (nval mc) rsubs' csubs'
                                    (m_counts S tv vr vc kc ms mc k rsubs kk) dn' rd' cd'
                                    (m_rb S tv vr vc kc ms mc k rsubs kk))) (nval ms) j.
Proof. exact (merge_row_proportions S tv vr vc kc ms mc k rsubs csubs rsubs' csubs' kk dn dn' rd cd rd' cd'). Qed.
Print Assumptions C04_merge_row_proportions.

Theorem C04_merge_column_proportions S tv vr vc kc ms mc k rsubs csubs rsubs' csubs' kk dn dn' rd cd rd' cd' :
  t_ok tv -> cat_or_mr kc -> k < t_n tv -> vc <> vr -> tv_other tv vr -> kk < length rsubs ->
  s_sub (nth kk rsubs nosub) = [] ->
  Forall (fun i => i < n_valid ms) (s_add (nth kk rsubs nosub)) -> NoDup (s_add (nth kk rsubs nosub)) ->
  fresh_for vr ms S -> 0 < n_valid ms ->
  forall j, j < nval mc ->
  mnth (b_rows (col_proportions (nval ms) (nval mc) rsubs csubs (o_counts S tv vr vc kc ms mc k) dn rd cd
                                (o_cb S tv vr vc kc ms mc k))) kk j
  =x= mnth (b_base (col_proportions (Datatypes.S (nval ms)) (nval mc) rsubs' csubs'
                                    (m_counts S tv vr vc kc ms mc k rsubs kk) dn' rd' cd'
                                    (m_cb S tv vr vc kc ms mc k rsubs kk))) (nval ms) j.
Proof. exact (merge_column_proportions S tv vr vc kc ms mc k rsubs csubs rsubs' csubs' kk dn dn' rd cd rd' cd'). Qed.
Print Assumptions C04_merge_column_proportions.

Theorem C04_merge_table_proportions S tv vr vc kc ms mc k rsubs csubs rsubs' csubs' kk dn dn' :
  t_ok tv -> cat_or_mr kc -> k < t_n tv -> vc <> vr -> tv_other tv vr -> kk < length rsubs ->
  s_sub (nth kk rsubs nosub) = [] ->
  Forall (fun i => i < n_valid ms) (s_add (nth kk rsubs nosub)) -> NoDup (s_add (nth kk rsubs nosub)) ->
  fresh_for vr ms S -> 0 < n_valid ms ->
  forall j, j < nval mc ->
  mnth (b_rows (table_proportions (nval ms) (nval mc) rsubs csubs (o_counts S tv vr vc kc ms mc k) dn
                                  (o_tb S tv vr vc kc ms mc k))) kk j
  =x= mnth (b_base (table_proportions (Datatypes.S (nval ms)) (nval mc) rsubs' csubs'
                                      (m_counts S tv vr vc kc ms mc k rsubs kk) dn'
                                      (m_tb S tv vr vc kc ms mc k rsubs kk))) (nval ms) j.
Proof. exact (merge_table_proportions S tv vr vc kc ms mc k rsubs csubs rsubs' csubs' kk dn dn'). Qed.
Print Assumptions C04_merge_table_proportions.

(* variance of the row proportion (the three-term formula of the subtotal block against the body
   formula of the merged table); the column / table twins and the squared standard errors are the
   lemmas merge_column_variance, merge_table_variance, merge_*_stderr_sq of Proofs/MergeMeasures.v *)
Theorem C04_merge_row_variance S tv vr vc kc ms mc k rsubs csubs rsubs' csubs' kk dn dn' rd cd rd' cd' :
  t_ok tv -> cat_or_mr kc -> k < t_n tv -> vc <> vr -> tv_other tv vr -> kk < length rsubs ->
  s_sub (nth kk rsubs nosub) = [] ->
  Forall (fun i => i < n_valid ms) (s_add (nth kk rsubs nosub)) -> NoDup (s_add (nth kk rsubs nosub)) ->
  fresh_for vr ms S -> 0 < n_valid ms ->
  forall j, j < nval mc ->
  mnth (b_rows (variance_blocks (o_counts S tv vr vc kc ms mc k) (nval ms) (nval mc) rsubs csubs
          (row_proportions (nval ms) (nval mc) rsubs csubs (o_counts S tv vr vc kc ms mc k) dn rd cd
                           (o_rb S tv vr vc kc ms mc k))
          (row_base_blocks (nval ms) (nval mc) rsubs csubs (o_rb S tv vr vc kc ms mc k)))) kk j
  =x= mnth (b_base (variance_blocks (m_counts S tv vr vc kc ms mc k rsubs kk) (Datatypes.S (nval ms)) (nval mc) rsubs' csubs'
          (row_proportions (Datatypes.S (nval ms)) (nval mc) rsubs' csubs' (m_counts S tv vr vc kc ms mc k rsubs kk) dn' rd' cd'
                           (m_rb S tv vr vc kc ms mc k rsubs kk))
          (row_base_blocks (Datatypes.S (nval ms)) (nval mc) rsubs' csubs' (m_rb S tv vr vc kc ms mc k rsubs kk)))) (nval ms) j.
Proof. exact (merge_row_variance S tv vr vc kc ms mc k rsubs csubs rsubs' csubs' kk dn dn' rd cd rd' cd'). Qed.
Print Assumptions C04_merge_row_variance.

Theorem C04_merge_column_stderr_sq S tv vr vc kc ms mc k rsubs csubs rsubs' csubs' kk dn dn' rd cd rd' cd' :
  t_ok tv -> cat_or_mr kc -> k < t_n tv -> vc <> vr -> tv_other tv vr -> kk < length rsubs ->
  s_sub (nth kk rsubs nosub) = [] ->
  Forall (fun i => i < n_valid ms) (s_add (nth kk rsubs nosub)) -> NoDup (s_add (nth kk rsubs nosub)) ->
  fresh_for vr ms S -> 0 < n_valid ms ->
  forall j, j < nval mc ->
  stderr_sq
    (mnth (b_rows (variance_blocks (o_counts S tv vr vc kc ms mc k) (nval ms) (nval mc) rsubs csubs
            (col_proportions (nval ms) (nval mc) rsubs csubs (o_counts S tv vr vc kc ms mc k) dn rd cd
                             (o_cb S tv vr vc kc ms mc k))
            (col_base_blocks (nval ms) (nval mc) rsubs csubs (o_cb S tv vr vc kc ms mc k)))) kk j)
    (mnth (b_rows (col_base_blocks (nval ms) (nval mc) rsubs csubs (o_cb S tv vr vc kc ms mc k))) kk j)
  =x= stderr_sq
    (mnth (b_base (variance_blocks (m_counts S tv vr vc kc ms mc k rsubs kk) (Datatypes.S (nval ms)) (nval mc) rsubs' csubs'
            (col_proportions (Datatypes.S (nval ms)) (nval mc) rsubs' csubs' (m_counts S tv vr vc kc ms mc k rsubs kk) dn' rd' cd'
                             (m_cb S tv vr vc kc ms mc k rsubs kk))
            (col_base_blocks (Datatypes.S (nval ms)) (nval mc) rsubs' csubs' (m_cb S tv vr vc kc ms mc k rsubs kk)))) (nval ms) j)
    (mnth (b_base (col_base_blocks (Datatypes.S (nval ms)) (nval mc) rsubs' csubs' (m_cb S tv vr vc kc ms mc k rsubs kk))) (nval ms) j).
Proof. exact (merge_column_stderr_sq S tv vr vc kc ms mc k rsubs csubs rsubs' csubs' kk dn dn' rd cd rd' cd'). Qed.
Print Assumptions C04_merge_column_stderr_sq.

(* with no subtrahend the three-term variance IS p(1-p) *)
Theorem C04_variance_without_subtrahends (p Nt Np : Q) : ~ (Nt == 0)%Q -> (p == Np / Nt)%Q ->
  var_cell (Fin p) (Fin Nt) (Fin Np) (Fin 0) =x= Fin (p * (1 - p))%Q.
Proof. exact (variance_no_subtrahends p Nt Np). Qed.
Print Assumptions C04_variance_without_subtrahends.

(* residual z-score of the cell (z*|z|): same inputs, same value *)
Theorem C04_merge_zscore_cell S tv vr vc kc ms mc k rsubs csubs kk dn :
  t_ok tv -> cat_or_mr kc -> k < t_n tv -> vc <> vr -> tv_other tv vr -> kk < length rsubs ->
  s_sub (nth kk rsubs nosub) = [] ->
  Forall (fun i => i < n_valid ms) (s_add (nth kk rsubs nosub)) -> NoDup (s_add (nth kk rsubs nosub)) ->
  fresh_for vr ms S -> 0 < n_valid ms ->
  forall j, j < nval mc ->
  z_zabs (mnth (b_rows (count_blocks (nval ms) (nval mc) rsubs csubs (o_counts S tv vr vc kc ms mc k) dn)) kk j)
         (mnth (b_rows (row_base_blocks (nval ms) (nval mc) rsubs csubs (o_rb S tv vr vc kc ms mc k))) kk j)
         (mnth (b_rows (col_base_blocks (nval ms) (nval mc) rsubs csubs (o_cb S tv vr vc kc ms mc k))) kk j)
         (mnth (b_rows (table_base_blocks (nval ms) (nval mc) rsubs csubs (o_tb S tv vr vc kc ms mc k))) kk j)
  =x= z_zabs (mnth (m_counts S tv vr vc kc ms mc k rsubs kk) (nval ms) j)
             (mnth (m_rb S tv vr vc kc ms mc k rsubs kk) (nval ms) j)
             (mnth (m_cb S tv vr vc kc ms mc k rsubs kk) (nval ms) j)
             (mnth (m_tb S tv vr vc kc ms mc k rsubs kk) (nval ms) j).
Proof. exact (merge_zscore_cell S tv vr vc kc ms mc k rsubs csubs kk dn). Qed.
Print Assumptions C04_merge_zscore_cell.

(* every measure that is a congruent function of the cell's count and three bases (p-value of
   the z-score, population estimate = N * fraction * table proportion, ...) *)
Theorem C04_merge_any_cell_measure_partial S tv vr vc kc ms mc k rsubs csubs kk dn :
  t_ok tv -> cat_or_mr kc -> k < t_n tv -> vc <> vr -> tv_other tv vr -> kk < length rsubs ->
  s_sub (nth kk rsubs nosub) = [] ->
  Forall (fun i => i < n_valid ms) (s_add (nth kk rsubs nosub)) -> NoDup (s_add (nth kk rsubs nosub)) ->
  fresh_for vr ms S -> 0 < n_valid ms ->
  forall j, j < nval mc ->
  forall f : xq -> xq -> xq -> xq -> xq, Proper (xeq ==> xeq ==> xeq ==> xeq ==> xeq) f ->
  f (mnth (b_rows (count_blocks (nval ms) (nval mc) rsubs csubs (o_counts S tv vr vc kc ms mc k) dn)) kk j)
    (mnth (b_rows (row_base_blocks (nval ms) (nval mc) rsubs csubs (o_rb S tv vr vc kc ms mc k))) kk j)
    (mnth (b_rows (col_base_blocks (nval ms) (nval mc) rsubs csubs (o_cb S tv vr vc kc ms mc k))) kk j)
    (mnth (b_rows (table_base_blocks (nval ms) (nval mc) rsubs csubs (o_tb S tv vr vc kc ms mc k))) kk j)
  =x= f (mnth (m_counts S tv vr vc kc ms mc k rsubs kk) (nval ms) j)
        (mnth (m_rb S tv vr vc kc ms mc k rsubs kk) (nval ms) j)
        (mnth (m_cb S tv vr vc kc ms mc k rsubs kk) (nval ms) j)
        (mnth (m_tb S tv vr vc kc ms mc k rsubs kk) (nval ms) j).
Proof. exact (merge_any_cell_measure S tv vr vc kc ms mc k rsubs csubs kk dn). Qed.
Print Assumptions C04_merge_any_cell_measure_partial.

(* the rest of the merged table: rows that are not addends are unchanged, addend rows are empty *)
Theorem C04_merge_other_rows_unchanged S tv vr vc kc ms mc k s :
  t_ok tv -> cat_or_mr kc -> k < t_n tv -> vc <> vr -> tv_other tv vr ->
  Forall (fun i => i < n_valid ms) (s_add s) ->
  forall i j, i < nval ms -> j < nval mc -> ~ In i (s_add s) ->
  counts_of (slice_of tv vr KCat (merged_flags ms) vc kc mc (merged_rows_survey S vr ms s) k) CCat (kcls kc) i j
  =x= counts_of (slice_of tv vr KCat ms vc kc mc S k) CCat (kcls kc) i j.
Proof. exact (merge_other_row_counts S tv vr vc kc ms mc k s). Qed.
Print Assumptions C04_merge_other_rows_unchanged.

(* COLUMN subtotal (rows categorical or MR): counts and bases *)
Theorem C04_merge_col_counts S tv vr vc kr mr ms k s :
  t_ok tv -> cat_or_mr kr -> k < t_n tv -> vr <> vc -> tv_other tv vc -> s_sub s = [] ->
  Forall (fun j => j < n_valid ms) (s_add s) -> NoDup (s_add s) -> fresh_for vc ms S ->
  forall b i, i < nval mr ->
  subcol_cell (tab2 (nval mr) (nval ms) (counts_of (slice_of tv vr kr mr vc KCat ms S k) (kcls kr) CCat)) b s i
  =x= counts_of (slice_of tv vr kr mr vc KCat (merged_flags ms) (merged_cols_survey S vc ms s) k) (kcls kr) CCat i (nval ms).
Proof. exact (merge_counts_col S tv vr vc kr mr ms k s). Qed.
Print Assumptions C04_merge_col_counts.

Theorem C04_merge_col_column_bases S tv vr vc kr mr ms k s :
  t_ok tv -> cat_or_mr kr -> k < t_n tv -> vr <> vc -> tv_other tv vc -> s_sub s = [] ->
  Forall (fun j => j < n_valid ms) (s_add s) -> NoDup (s_add s) -> fresh_for vc ms S ->
  forall b i, i < nval mr ->
  subcol_cell (tab2 (nval mr) (nval ms) (column_bases_of (slice_of tv vr kr mr vc KCat ms S k) (nval mr) (length mrv) (kcls kr) CCat)) b s i
  =x= column_bases_of (slice_of tv vr kr mr vc KCat (merged_flags ms) (merged_cols_survey S vc ms s) k)
                      (nval mr) (length mrv) (kcls kr) CCat i (nval ms).
Proof. exact (merge_column_bases_col S tv vr vc kr mr ms k s). Qed.
Print Assumptions C04_merge_col_column_bases.

Theorem C04_merge_col_row_bases S tv vr vc kr mr ms k s :
  t_ok tv -> cat_or_mr kr -> k < t_n tv -> vr <> vc -> tv_other tv vc ->
  Forall (fun j => j < n_valid ms) (s_add s) -> fresh_for vc ms S ->
  forall i, i < nval mr -> 0 < nval ms ->
  mnth (tab2 (nval mr) (nval ms) (row_bases_of (slice_of tv vr kr mr vc KCat ms S k) (nval ms) (length mrv) (kcls kr) CCat)) i 0
  =x= row_bases_of (slice_of tv vr kr mr vc KCat (merged_flags ms) (merged_cols_survey S vc ms s) k)
                   (nval (merged_flags ms)) (length mrv) (kcls kr) CCat i (nval ms).
Proof. exact (merge_row_bases_col S tv vr vc kr mr ms k s). Qed.
Print Assumptions C04_merge_col_row_bases.

Theorem C04_merge_col_table_bases S tv vr vc kr mr ms k s :
  t_ok tv -> cat_or_mr kr -> k < t_n tv -> vr <> vc -> tv_other tv vc ->
  Forall (fun j => j < n_valid ms) (s_add s) -> fresh_for vc ms S ->
  forall i, i < nval mr -> 0 < nval ms ->
  mnth (tab2 (nval mr) (nval ms) (table_bases_of (slice_of tv vr kr mr vc KCat ms S k) (nval mr) (nval ms) (length mrv) (length mrv) (kcls kr) CCat)) i 0
  =x= table_bases_of (slice_of tv vr kr mr vc KCat (merged_flags ms) (merged_cols_survey S vc ms s) k)
                     (nval mr) (nval (merged_flags ms)) (length mrv) (length mrv) (kcls kr) CCat i (nval ms).
Proof. exact (merge_table_bases_col S tv vr vc kr mr ms k s). Qed.
Print Assumptions C04_merge_col_table_bases.

(* unweighted twins: recoding commutes with forgetting the weights *)
Theorem C04_recode_commutes_with_unit_weights v A m S :
  recode v A m (unit_weights S) = unit_weights (recode v A m S).
Proof. exact (recode_unit_weights v A m S). Qed.
Print Assumptions C04_recode_commutes_with_unit_weights.

(* ==================================================================================== *)
(** * (4) measures that cannot be added *)

Theorem C04_nan_measure_rows base nr nc rsubs csubs k j :
  k < length rsubs -> j < nc -> mnth (b_rows (nan_blocks base nr nc rsubs csubs)) k j = NaN.
Proof. exact (nan_blocks_rows base nr nc rsubs csubs k j). Qed.
Print Assumptions C04_nan_measure_rows.
Theorem C04_nan_measure_columns base nr nc rsubs csubs i l :
  i < nr -> l < length csubs -> mnth (b_cols (nan_blocks base nr nc rsubs csubs)) i l = NaN.
Proof. exact (nan_blocks_cols base nr nc rsubs csubs i l). Qed.
Print Assumptions C04_nan_measure_columns.
Theorem C04_nan_measure_intersections base nr nc rsubs csubs k l :
  k < length rsubs -> l < length csubs -> mnth (b_inter (nan_blocks base nr nc rsubs csubs)) k l = NaN.
Proof. exact (nan_blocks_inter base nr nc rsubs csubs k l). Qed.
Print Assumptions C04_nan_measure_intersections.

(* ==================================================================================== *)
(** * (5) differences *)

Theorem C04_difference_own_base_nan nr nc rsubs csubs rb kk j :
  kk < length rsubs -> j < nc -> has_subs (nth kk rsubs nosub) = true ->
  mnth (b_rows (row_base_blocks nr nc rsubs csubs rb)) kk j = NaN.
Proof. exact (diff_row_base_nan nr nc rsubs csubs rb kk j). Qed.
Print Assumptions C04_difference_own_base_nan.

Theorem C04_difference_own_base_nan_columns nr nc rsubs csubs cb i l :
  i < nr -> l < length csubs -> has_subs (nth l csubs nosub) = true ->
  mnth (b_cols (col_base_blocks nr nc rsubs csubs cb)) i l = NaN.
Proof. exact (diff_col_base_nan nr nc rsubs csubs cb i l). Qed.
Print Assumptions C04_difference_own_base_nan_columns.

Theorem C04_difference_own_proportion_nan nr nc rsubs csubs counts dn cd rb kk j :
  kk < length rsubs -> j < nc -> has_subs (nth kk rsubs nosub) = true ->
  mnth (b_rows (row_proportions nr nc rsubs csubs counts dn false cd rb)) kk j = NaN.
Proof. exact (diff_row_proportion_nan nr nc rsubs csubs counts dn cd rb kk j). Qed.
Print Assumptions C04_difference_own_proportion_nan.

Theorem C04_difference_own_proportion_nan_columns nr nc rsubs csubs counts dn rd cb i l :
  i < nr -> l < length csubs -> has_subs (nth l csubs nosub) = true ->
  mnth (b_cols (col_proportions nr nc rsubs csubs counts dn rd false cb)) i l = NaN.
Proof. exact (diff_col_proportion_nan nr nc rsubs csubs counts dn rd cb i l). Qed.
Print Assumptions C04_difference_own_proportion_nan_columns.

Theorem C04_difference_x_difference_count_nan nr nc rsubs csubs counts dn kk l :
  kk < length rsubs -> l < length csubs ->
  has_subs (nth kk rsubs nosub) = true -> has_subs (nth l csubs nosub) = true ->
  mnth (b_inter (count_blocks nr nc rsubs csubs counts dn)) kk l = NaN.
Proof. exact (diff_x_diff_count_nan nr nc rsubs csubs counts dn kk l). Qed.
Print Assumptions C04_difference_x_difference_count_nan.

Theorem C04_cat_date_one_minus_one nr nc rsubs csubs counts dn cd rb kk j a b :
  kk < length rsubs -> j < nc -> nth kk rsubs nosub = mkSub [a] [b] ->
  mnth (b_rows (row_proportions nr nc rsubs csubs counts dn true cd rb)) kk j
  =x= xsub (xdiv (mnth counts a j) (mnth rb a j)) (xdiv (mnth counts b j) (mnth rb b j)).
Proof. exact (cat_date_row_one_minus_one nr nc rsubs csubs counts dn cd rb kk j a b). Qed.
Print Assumptions C04_cat_date_one_minus_one.

Theorem C04_cat_date_one_minus_one_columns nr nc rsubs csubs counts dn rd cb i l a b :
  i < nr -> l < length csubs -> nth l csubs nosub = mkSub [a] [b] ->
  mnth (b_cols (col_proportions nr nc rsubs csubs counts dn rd true cb)) i l
  =x= xsub (xdiv (mnth counts i a) (mnth cb i a)) (xdiv (mnth counts i b) (mnth cb i b)).
Proof. exact (cat_date_col_one_minus_one nr nc rsubs csubs counts dn rd cb i l a b). Qed.
Print Assumptions C04_cat_date_one_minus_one_columns.

Theorem C04_cat_date_multi_term_nan nr nc rsubs csubs counts dn cd rb kk j :
  kk < length rsubs -> j < nc ->
  has_subs (nth kk rsubs nosub) = true -> multiple_terms (nth kk rsubs nosub) = true ->
  mnth (b_rows (row_proportions nr nc rsubs csubs counts dn true cd rb)) kk j = NaN.
Proof. exact (cat_date_row_multi_term_nan nr nc rsubs csubs counts dn cd rb kk j). Qed.
Print Assumptions C04_cat_date_multi_term_nan.

Theorem C04_cat_date_multi_term_nan_columns nr nc rsubs csubs counts dn rd cb i l :
  i < nr -> l < length csubs ->
  has_subs (nth l csubs nosub) = true -> multiple_terms (nth l csubs nosub) = true ->
  mnth (b_cols (col_proportions nr nc rsubs csubs counts dn rd true cb)) i l = NaN.
Proof. exact (cat_date_col_multi_term_nan nr nc rsubs csubs counts dn rd cb i l). Qed.
Print Assumptions C04_cat_date_multi_term_nan_columns.

Theorem C04_cat_date_strand_multi_term_nan counts bases s d :
  has_subs s = true -> s_add s <> [] -> multiple_terms s = true ->
  strand_wave_value counts bases true s d = NaN.
Proof. exact (strand_cat_date_multi_term_nan counts bases s d). Qed.
Print Assumptions C04_cat_date_strand_multi_term_nan.

(* The model's TABLE proportion has no categorical-date rule (matrix/measure.py::_TableProportions
   does not use WaveDiffSubtotal): a several-term difference on a categorical-date dimension is
   (addends - subtrahends) / table base there, where the property says NaN "in every proportion".
   Witness = known_findings.d/C04-cat-date-multi-term-table-proportion.json *)
Theorem C04_cat_date_multi_term_table_proportion_refuted :
  exists counts tb rsubs,
    has_subs (nth 0 rsubs nosub) = true /\ multiple_terms (nth 0 rsubs nosub) = true /\
    mnth (b_rows (table_proportions 3 1 rsubs [] counts false tb)) 0 0 <> NaN.
Proof.
  exists [[Fin 1]; [Fin 2]; [Fin 4]], [[Fin 7]; [Fin 7]; [Fin 7]], [mkSub [0; 1] [2]].
  vm_compute. repeat split; discriminate.
Qed.
Print Assumptions C04_cat_date_multi_term_table_proportion_refuted.

(* Valid counts: the model's count block is NaN for a difference exactly when it is fed the flag
   [diff_nans = true]; the code passes [true] only to the measures backed by a *_valid_counts
   payload.  With the flag false the same difference is numeric -- which is what the strand
   counts and, with only an unweighted valid count, the slice's weighted counts do although the
   response carries valid counts.  Witness = known_findings.d/C04-valid-counts-difference-count.json *)
Theorem C04_valid_counts_difference_refuted :
  exists counts rsubs,
    has_subs (nth 0 rsubs nosub) = true /\
    mnth (b_rows (count_blocks 2 1 rsubs [] counts true)) 0 0 = NaN /\
    mnth (b_rows (count_blocks 2 1 rsubs [] counts false)) 0 0 <> NaN.
Proof.
  exists [[Fin 5]; [Fin 2]], [mkSub [0] [1]]. vm_compute. repeat split; discriminate.
Qed.
Print Assumptions C04_valid_counts_difference_refuted.

(* ==================================================================================== *)
(** * Examples: the hypotheses are inhabited *)

(* the Python string "2" *)
Definition str_two : String.string :=
  String.String (Ascii.Ascii false true false false true true false false) String.EmptyString.

(* ids: valid elements 1, 2, 5; listed 5, 99 (stale), 1, 5 (again), "2" (a str is not the int 2) *)
Example C04_example_resolution :
  let ids := [IInt 1; IInt 2; IInt 5] in
  let d := mkInsDict true true false true true
                     [IInt 5; IInt 99; IInt 1; IInt 5; IStr str_two] [IInt 2] [IInt 2; IInt 7] in
  valid_subtotal ids d = true /\ subtotal_of ids d = mkSub [0; 2] [1] /\ is_difference ids d = true /\
  (* kwargs.positive wins over args; empty kwargs.positive falls back to args *)
  subtotal_of ids (mkInsDict true true false true true [] [IInt 2] []) = mkSub [1] [] /\
  (* hidden, anchor-less, or all-stale insertions are dropped *)
  subtotals_of ids [mkInsDict true true true true true [IInt 1] [] [];
                    mkInsDict true true false false true [IInt 1] [] [];
                    mkInsDict true true false true true [IInt 99] [] [INone];
                    d] = [mkSub [0; 2] [1]].
Proof. vm_compute. repeat split; reflexivity. Qed.

(* valid ids 1 2 3 4 ("Don't know" 8 is flagged missing, 9 was deleted): "a+b less DK" and
   "a+b (net)" subtract nothing and are plain subtotals; "c-d" is the only difference *)
Example C04_example_phantom_negative :
  let ids := [IInt 1; IInt 2; IInt 3; IInt 4] in
  let ins neg := mkInsDict true true false true true [IInt 1; IInt 2] [IInt 1; IInt 2] neg in
  differences_of ids [ins []; ins [IInt 9]; ins [IInt 8]; ins [IInt 8; IInt 9];
                      mkInsDict true true false true true [IInt 3] [] [IInt 4]]
    = [false; false; false; false; true] /\
  subtotals_of ids [ins []; ins [IInt 9]; ins [IInt 8; IInt 9]]
    = [mkSub [0; 1] []; mkSub [0; 1] []; mkSub [0; 1] []] /\
  (forall x, In x (negative_terms (ins [IInt 8; IInt 9])) -> ~ In x ids).
Proof.
  cbv zeta. split; [vm_compute; reflexivity|]. split; [vm_compute; reflexivity|].
  intros x Hx Hi. simpl in Hx, Hi.
  destruct Hx as [<-|[<-|[]]]; destruct Hi as [H|[H|[H|[H|[]]]]]; discriminate H.
Qed.

(* a 4 x 2 table (4th row category missing), rows 0 and 2 merged *)
Definition ex_S : survey :=
  [ mkResp [ACat 0; ACat 0] 1; mkResp [ACat 1; ACat 0] (3 # 2); mkResp [ACat 2; ACat 1] 2;
    mkResp [ACat 2; ACat 0] (1 # 2); mkResp [ACat 3; ACat 0] 4; mkResp [ACat 0; ACat 1] 1 ]%Q.
Definition ex_ms := [false; false; false; true].
Definition ex_mc := [false; false].
Definition ex_rsubs := [mkSub [0; 2] []].

Example C04_example_merge_hypotheses :
  t_ok None /\ cat_or_mr KCat /\ 0 < t_n None /\ 1 <> 0 /\ tv_other None 0 /\ 0 < length ex_rsubs /\
  s_sub (nth 0 ex_rsubs nosub) = [] /\
  Forall (fun i => i < n_valid ex_ms) (s_add (nth 0 ex_rsubs nosub)) /\
  NoDup (s_add (nth 0 ex_rsubs nosub)) /\ fresh_for 0 ex_ms ex_S /\ 0 < n_valid ex_ms.
Proof.
  assert (F : fresh_for 0 ex_ms ex_S).
  { intros r Hr. simpl in Hr.
    repeat (destruct Hr as [<-|Hr]; [simpl; discriminate|]). destruct Hr. }
  assert (Hf : Forall (fun i => i < n_valid ex_ms) (s_add (nth 0 ex_rsubs nosub)))
    by (repeat constructor; vm_compute; lia).
  assert (Hn : NoDup (s_add (nth 0 ex_rsubs nosub))).
  { simpl. constructor; [simpl; intuition lia|]. constructor; [simpl; tauto| constructor]. }
  repeat split; try exact F; try exact Hf; try exact Hn; try (vm_compute; lia); try reflexivity;
    try (left; reflexivity); try discriminate.
Qed.

(* both sides of the merge theorems on that table: counts (3/2+... = 7/2, 3), row base 13/2,
   row proportion, z-score inputs; the merged row is row 3 of the merged table *)
Example C04_example_merge_values :
  map xred (map (fun j => mnth (b_rows (count_blocks 3 2 ex_rsubs [] (o_counts ex_S None 0 1 KCat ex_ms ex_mc 0) false)) 0 j) [0; 1])
    = [Fin (3 # 2); Fin 3] /\
  map xred (map (fun j => mnth (m_counts ex_S None 0 1 KCat ex_ms ex_mc 0 ex_rsubs 0) 3 j) [0; 1])
    = [Fin (3 # 2); Fin 3] /\
  xred (mnth (b_rows (row_proportions 3 2 ex_rsubs [] (o_counts ex_S None 0 1 KCat ex_ms ex_mc 0) false false false
                                      (o_rb ex_S None 0 1 KCat ex_ms ex_mc 0))) 0 1) = Fin (2 # 3) /\
  xred (mnth (b_base (row_proportions 4 2 [] [] (m_counts ex_S None 0 1 KCat ex_ms ex_mc 0 ex_rsubs 0) false false false
                                      (m_rb ex_S None 0 1 KCat ex_ms ex_mc 0 ex_rsubs 0))) 3 1) = Fin (2 # 3).
Proof. vm_compute. repeat split; reflexivity. Qed.

(* intersections: a matrix with a NaN and an infinite cell, a difference crossing a plain subtotal *)
Example C04_example_intersection :
  let base := [[Fin 1; Fin 2; NaN]; [Fin 4; Inf false; Fin 6]; [Fin 7; Fin 8; Fin 9]] in
  let rs := mkSub [0; 2] [1] in
  let cs := mkSub [0; 1] [] in
  xred (inter_cell base false false rs cs) = Inf true /\
  xred (inter_cell_colfirst base false false rs cs) = Inf true /\
  xred (inter_cell base false false (mkSub [0; 2] []) (mkSub [0] [1])) = Fin (-2) /\
  xred (inter_cell_colfirst base false false (mkSub [0; 2] []) (mkSub [0] [1])) = Fin (-2).
Proof. vm_compute. repeat split; reflexivity. Qed.

(* ==================================================================================== *)
(** * (3, continued) merge equivalence for the measures left partial above
      (Proofs/ComposeMerge.v; supersedes the `_partial` notes of (3) in the header as follows)

   NOW PROVED, for all surveys and sizes:
     - COLUMN subtotal (rows categorical or MR): the derived measures -- row / column / table
       proportions, their variances, the column standard error, the z-score cell and ANY congruent
       function of (count, row base, column base, table base): C04_merge_col_*
     - INTERSECTIONS BY MERGING ON BOTH DIMENSIONS (categorical x categorical, 2-D or a 3-D
       partition): counts, row / column / table bases, the three proportions, the three variances,
       the z-score cell and ANY congruent cell function at (row subtotal, column subtotal) equal
       those of cell (merged row, merged column) of the table tabulated from the survey in which
       BOTH the row addends and the column addends are merged in the data: C04_merge_inter_*
     - ROW subtotal: any function of the z-score (so the p-value 2(1 - Phi|z|) for ANY Phi, the
       CDF being a parameter), population counts N * f * (proportion picked by the categorical-date
       position), and the rows scale MEAN of the inserted row: C04_merge_pvalue_any_function,
       C04_merge_population_counts, C04_merge_scale_mean_partial
   STILL NOT THEOREMS (checked by the relational oracle only):
     - scale median / std-dev / std-err of a merged vector (only the mean is proved; hence the
       name C04_merge_scale_mean_partial; full statement: every rows / columns scale statistic of
       the inserted vector equals that of the merged category's vector), and the columns-scale
       statistics, whose vector runs ACROSS the merged dimension (needs Spec/Stats.v at survey level)
     - share of sum (not count based: needs a survey-level spec of the sum measure)
     - pairwise t / p with a subtotal as selected or compared column (congruent functions of column
       proportions and column bases proved equal here, but their model blocks are not restated)
     - strands (1-D): only the value theorem C04_subtotal_strand_value *)
From CC Require Import Model.Population Model.Scale Proofs.ComposeMerge.

(* ---- COLUMN subtotal: derived measures ------------------------------------------------ *)
Theorem C04_merge_col_blocks S tv vr vc kr mr ms k rsubs csubs l dn :
  t_ok tv -> cat_or_mr kr -> k < t_n tv -> vr <> vc -> tv_other tv vc -> l < length csubs ->
  s_sub (nth l csubs nosub) = [] ->
  Forall (fun j => j < n_valid ms) (s_add (nth l csubs nosub)) -> NoDup (s_add (nth l csubs nosub)) ->
  fresh_for vc ms S -> 0 < n_valid ms ->
  forall i, i < nval mr ->
  mnth (b_cols (count_blocks (nval mr) (nval ms) rsubs csubs (oc_counts S tv vr vc kr mr ms k) dn)) i l
    =x= mnth (mc_counts S tv vr vc kr mr ms k csubs l) i (nval ms) /\
  mnth (b_cols (row_base_blocks (nval mr) (nval ms) rsubs csubs (oc_rb S tv vr vc kr mr ms k))) i l
    =x= mnth (mc_rb S tv vr vc kr mr ms k csubs l) i (nval ms) /\
  mnth (b_cols (col_base_blocks (nval mr) (nval ms) rsubs csubs (oc_cb S tv vr vc kr mr ms k))) i l
    =x= mnth (mc_cb S tv vr vc kr mr ms k csubs l) i (nval ms) /\
  mnth (b_cols (table_base_blocks (nval mr) (nval ms) rsubs csubs (oc_tb S tv vr vc kr mr ms k))) i l
    =x= mnth (mc_tb S tv vr vc kr mr ms k csubs l) i (nval ms).
Proof.
  exact (fun Ht Hr Hk Hv Htv Hl Hs Ho Hn Hf Hp i Hi =>
    conj (merge_col_block_counts S tv vr vc kr mr ms k rsubs csubs l dn Ht Hr Hk Hv Htv Hl Hs Ho Hn Hf i Hi)
   (conj (merge_col_block_row_bases S tv vr vc kr mr ms k rsubs csubs l Ht Hr Hk Hv Htv Hl Ho Hf Hp i Hi)
   (conj (merge_col_block_column_bases S tv vr vc kr mr ms k rsubs csubs l Ht Hr Hk Hv Htv Hl Hs Ho Hn Hf i Hi)
         (merge_col_block_table_bases S tv vr vc kr mr ms k rsubs csubs l Ht Hr Hk Hv Htv Hl Ho Hf Hp i Hi)))).
Qed.
Print Assumptions C04_merge_col_blocks.

Theorem C04_merge_col_proportions S tv vr vc kr mr ms k rsubs csubs rsubs' csubs' l dn dn' rd cd rd' cd' :
  t_ok tv -> cat_or_mr kr -> k < t_n tv -> vr <> vc -> tv_other tv vc -> l < length csubs ->
  s_sub (nth l csubs nosub) = [] ->
  Forall (fun j => j < n_valid ms) (s_add (nth l csubs nosub)) -> NoDup (s_add (nth l csubs nosub)) ->
  fresh_for vc ms S -> 0 < n_valid ms ->
  forall i, i < nval mr ->
  mnth (b_cols (row_proportions (nval mr) (nval ms) rsubs csubs (oc_counts S tv vr vc kr mr ms k) dn rd cd
                                (oc_rb S tv vr vc kr mr ms k))) i l
    =x= mnth (b_base (row_proportions (nval mr) (Datatypes.S (nval ms)) rsubs' csubs'
                        (mc_counts S tv vr vc kr mr ms k csubs l) dn' rd' cd'
                        (mc_rb S tv vr vc kr mr ms k csubs l))) i (nval ms) /\
  mnth (b_cols (col_proportions (nval mr) (nval ms) rsubs csubs (oc_counts S tv vr vc kr mr ms k) dn rd cd
                                (oc_cb S tv vr vc kr mr ms k))) i l
    =x= mnth (b_base (col_proportions (nval mr) (Datatypes.S (nval ms)) rsubs' csubs'
                        (mc_counts S tv vr vc kr mr ms k csubs l) dn' rd' cd'
                        (mc_cb S tv vr vc kr mr ms k csubs l))) i (nval ms) /\
  mnth (b_cols (table_proportions (nval mr) (nval ms) rsubs csubs (oc_counts S tv vr vc kr mr ms k) dn
                                  (oc_tb S tv vr vc kr mr ms k))) i l
    =x= mnth (b_base (table_proportions (nval mr) (Datatypes.S (nval ms)) rsubs' csubs'
                        (mc_counts S tv vr vc kr mr ms k csubs l) dn'
                        (mc_tb S tv vr vc kr mr ms k csubs l))) i (nval ms).
Proof.
  exact (fun Ht Hr Hk Hv Htv Hl Hs Ho Hn Hf Hp i Hi =>
    conj (merge_col_row_proportions S tv vr vc kr mr ms k rsubs csubs rsubs' csubs' l dn dn' rd cd rd' cd'
            Ht Hr Hk Hv Htv Hl Hs Ho Hn Hf Hp i Hi)
   (conj (merge_col_column_proportions S tv vr vc kr mr ms k rsubs csubs rsubs' csubs' l dn dn' rd cd rd' cd'
            Ht Hr Hk Hv Htv Hl Hs Ho Hn Hf i Hi)
         (merge_col_table_proportions S tv vr vc kr mr ms k rsubs csubs rsubs' csubs' l dn dn'
            Ht Hr Hk Hv Htv Hl Hs Ho Hn Hf Hp i Hi))).
Qed.
Print Assumptions C04_merge_col_proportions.

(* variance of the column proportion and its squared standard error (the row / table twins are
   merge_col_row_variance / merge_col_table_variance of Proofs/ComposeMerge.v) *)
Theorem C04_merge_col_column_variance S tv vr vc kr mr ms k rsubs csubs rsubs' csubs' l dn dn' rd cd rd' cd' :
  t_ok tv -> cat_or_mr kr -> k < t_n tv -> vr <> vc -> tv_other tv vc -> l < length csubs ->
  s_sub (nth l csubs nosub) = [] ->
  Forall (fun j => j < n_valid ms) (s_add (nth l csubs nosub)) -> NoDup (s_add (nth l csubs nosub)) ->
  fresh_for vc ms S ->
  forall i, i < nval mr ->
  let Pc := col_proportions (nval mr) (nval ms) rsubs csubs (oc_counts S tv vr vc kr mr ms k) dn rd cd
                            (oc_cb S tv vr vc kr mr ms k) in
  let Tc := col_base_blocks (nval mr) (nval ms) rsubs csubs (oc_cb S tv vr vc kr mr ms k) in
  let Pc' := col_proportions (nval mr) (Datatypes.S (nval ms)) rsubs' csubs'
                             (mc_counts S tv vr vc kr mr ms k csubs l) dn' rd' cd'
                             (mc_cb S tv vr vc kr mr ms k csubs l) in
  let Tc' := col_base_blocks (nval mr) (Datatypes.S (nval ms)) rsubs' csubs' (mc_cb S tv vr vc kr mr ms k csubs l) in
  mnth (b_cols (variance_blocks (oc_counts S tv vr vc kr mr ms k) (nval mr) (nval ms) rsubs csubs Pc Tc)) i l
    =x= mnth (b_base (variance_blocks (mc_counts S tv vr vc kr mr ms k csubs l) (nval mr) (Datatypes.S (nval ms))
                        rsubs' csubs' Pc' Tc')) i (nval ms) /\
  stderr_sq (mnth (b_cols (variance_blocks (oc_counts S tv vr vc kr mr ms k) (nval mr) (nval ms) rsubs csubs Pc Tc)) i l)
            (mnth (b_cols Tc) i l)
    =x= stderr_sq (mnth (b_base (variance_blocks (mc_counts S tv vr vc kr mr ms k csubs l) (nval mr)
                                   (Datatypes.S (nval ms)) rsubs' csubs' Pc' Tc')) i (nval ms))
                  (mnth (b_base Tc') i (nval ms)).
Proof.
  exact (fun Ht Hr Hk Hv Htv Hl Hs Ho Hn Hf i Hi =>
    conj (merge_col_column_variance S tv vr vc kr mr ms k rsubs csubs rsubs' csubs' l dn dn' rd cd rd' cd'
            Ht Hr Hk Hv Htv Hl Hs Ho Hn Hf i Hi)
         (merge_col_column_stderr_sq S tv vr vc kr mr ms k rsubs csubs rsubs' csubs' l dn dn' rd cd rd' cd'
            Ht Hr Hk Hv Htv Hl Hs Ho Hn Hf i Hi)).
Qed.
Print Assumptions C04_merge_col_column_variance.

Theorem C04_merge_col_any_cell_measure S tv vr vc kr mr ms k rsubs csubs l dn :
  t_ok tv -> cat_or_mr kr -> k < t_n tv -> vr <> vc -> tv_other tv vc -> l < length csubs ->
  s_sub (nth l csubs nosub) = [] ->
  Forall (fun j => j < n_valid ms) (s_add (nth l csubs nosub)) -> NoDup (s_add (nth l csubs nosub)) ->
  fresh_for vc ms S -> 0 < n_valid ms ->
  forall i, i < nval mr ->
  forall f : xq -> xq -> xq -> xq -> xq, Proper (xeq ==> xeq ==> xeq ==> xeq ==> xeq) f ->
  f (mnth (b_cols (count_blocks (nval mr) (nval ms) rsubs csubs (oc_counts S tv vr vc kr mr ms k) dn)) i l)
    (mnth (b_cols (row_base_blocks (nval mr) (nval ms) rsubs csubs (oc_rb S tv vr vc kr mr ms k))) i l)
    (mnth (b_cols (col_base_blocks (nval mr) (nval ms) rsubs csubs (oc_cb S tv vr vc kr mr ms k))) i l)
    (mnth (b_cols (table_base_blocks (nval mr) (nval ms) rsubs csubs (oc_tb S tv vr vc kr mr ms k))) i l)
  =x= f (mnth (mc_counts S tv vr vc kr mr ms k csubs l) i (nval ms))
        (mnth (mc_rb S tv vr vc kr mr ms k csubs l) i (nval ms))
        (mnth (mc_cb S tv vr vc kr mr ms k csubs l) i (nval ms))
        (mnth (mc_tb S tv vr vc kr mr ms k csubs l) i (nval ms)).
Proof. exact (merge_col_any_cell_measure S tv vr vc kr mr ms k rsubs csubs l dn). Qed.
Print Assumptions C04_merge_col_any_cell_measure.

(* ---- INTERSECTIONS by merging on both dimensions ---------------------------------------- *)
(* [merged_both_survey]: Spec/Merge.v::recode on the rows variable, then on the columns variable;
   [b_count] / [b_rb] / [b_cb] / [b_tb]: the count and the row / column / table base of cell
   (merged row, merged column) of the table tabulated from it (C04_merge_inter_numbers) *)
Theorem C04_merge_inter_numbers S tv vr vc ms mc k rsubs csubs kk l :
  let rs := nth kk rsubs nosub in
  let cs := nth l csubs nosub in
  let S2 := merged_both_survey S vr vc ms mc rs cs in
  let V2 := slice_of tv vr KCat (merged_flags ms) vc KCat (merged_flags mc) S2 k in
  S2 = recode vc (positions mc (s_add cs)) (merged_pos mc) (recode vr (positions ms (s_add rs)) (merged_pos ms) S) /\
  b_count S tv vr vc ms mc k rsubs csubs kk l = counts_of V2 CCat CCat (nval ms) (nval mc) /\
  b_rb S tv vr vc ms mc k rsubs csubs kk l
    = row_bases_of V2 (nval (merged_flags mc)) (length mrv) CCat CCat (nval ms) (nval mc) /\
  b_cb S tv vr vc ms mc k rsubs csubs kk l
    = column_bases_of V2 (nval (merged_flags ms)) (length mrv) CCat CCat (nval ms) (nval mc) /\
  b_tb S tv vr vc ms mc k rsubs csubs kk l
    = table_bases_of V2 (nval (merged_flags ms)) (nval (merged_flags mc)) (length mrv) (length mrv)
                     CCat CCat (nval ms) (nval mc).
Proof. exact (conj eq_refl (conj eq_refl (conj eq_refl (conj eq_refl eq_refl)))). Qed.
Print Assumptions C04_merge_inter_numbers.

Theorem C04_merge_inter_blocks S tv vr vc ms mc k rsubs csubs kk l dn :
  t_ok tv -> k < t_n tv -> vr <> vc -> tv_other tv vr -> tv_other tv vc ->
  kk < length rsubs -> l < length csubs ->
  s_sub (nth kk rsubs nosub) = [] -> s_sub (nth l csubs nosub) = [] ->
  Forall (fun i => i < n_valid ms) (s_add (nth kk rsubs nosub)) ->
  Forall (fun j => j < n_valid mc) (s_add (nth l csubs nosub)) ->
  NoDup (s_add (nth kk rsubs nosub)) -> NoDup (s_add (nth l csubs nosub)) ->
  fresh_for vr ms S -> fresh_for vc mc S -> 0 < n_valid ms -> 0 < n_valid mc ->
  mnth (b_inter (count_blocks (nval ms) (nval mc) rsubs csubs (o_counts S tv vr vc KCat ms mc k) dn)) kk l
    =x= b_count S tv vr vc ms mc k rsubs csubs kk l /\
  mnth (b_inter (row_base_blocks (nval ms) (nval mc) rsubs csubs (o_rb S tv vr vc KCat ms mc k))) kk l
    =x= b_rb S tv vr vc ms mc k rsubs csubs kk l /\
  mnth (b_inter (col_base_blocks (nval ms) (nval mc) rsubs csubs (o_cb S tv vr vc KCat ms mc k))) kk l
    =x= b_cb S tv vr vc ms mc k rsubs csubs kk l /\
  mnth (b_inter (table_base_blocks (nval ms) (nval mc) rsubs csubs (o_tb S tv vr vc KCat ms mc k))) kk l
    =x= b_tb S tv vr vc ms mc k rsubs csubs kk l.
Proof.
  exact (fun Ht Hk Hv Htr Htc Hkk Hl Hrs Hcs Hro Hco Hrn Hcn Hrf Hcf Hrp Hcp =>
    conj (merge_inter_block_counts S tv vr vc ms mc k rsubs csubs kk l dn Ht Hk Hv Htr Htc Hkk Hl Hrs Hcs Hro Hco Hrn Hcn Hrf Hcf)
   (conj (merge_inter_block_row_bases S tv vr vc ms mc k rsubs csubs kk l Ht Hk Hv Htr Htc Hkk Hl Hrs Hro Hco Hrn Hrf Hcf Hcp)
   (conj (merge_inter_block_column_bases S tv vr vc ms mc k rsubs csubs kk l Ht Hk Hv Htr Htc Hkk Hl Hcs Hro Hco Hcn Hrf Hcf Hrp)
         (merge_inter_block_table_bases S tv vr vc ms mc k rsubs csubs kk l Ht Hk Hv Htr Htc Hkk Hl Hro Hco Hrf Hcf Hrp Hcp)))).
Qed.
Print Assumptions C04_merge_inter_blocks.

Theorem C04_merge_inter_proportions S tv vr vc ms mc k rsubs csubs kk l dn rd cd :
  t_ok tv -> k < t_n tv -> vr <> vc -> tv_other tv vr -> tv_other tv vc ->
  kk < length rsubs -> l < length csubs ->
  s_sub (nth kk rsubs nosub) = [] -> s_sub (nth l csubs nosub) = [] ->
  Forall (fun i => i < n_valid ms) (s_add (nth kk rsubs nosub)) ->
  Forall (fun j => j < n_valid mc) (s_add (nth l csubs nosub)) ->
  NoDup (s_add (nth kk rsubs nosub)) -> NoDup (s_add (nth l csubs nosub)) ->
  fresh_for vr ms S -> fresh_for vc mc S -> 0 < n_valid ms -> 0 < n_valid mc ->
  mnth (b_inter (row_proportions (nval ms) (nval mc) rsubs csubs (o_counts S tv vr vc KCat ms mc k) dn rd cd
                                 (o_rb S tv vr vc KCat ms mc k))) kk l
    =x= xdiv (b_count S tv vr vc ms mc k rsubs csubs kk l) (b_rb S tv vr vc ms mc k rsubs csubs kk l) /\
  mnth (b_inter (col_proportions (nval ms) (nval mc) rsubs csubs (o_counts S tv vr vc KCat ms mc k) dn rd cd
                                 (o_cb S tv vr vc KCat ms mc k))) kk l
    =x= xdiv (b_count S tv vr vc ms mc k rsubs csubs kk l) (b_cb S tv vr vc ms mc k rsubs csubs kk l) /\
  mnth (b_inter (table_proportions (nval ms) (nval mc) rsubs csubs (o_counts S tv vr vc KCat ms mc k) dn
                                   (o_tb S tv vr vc KCat ms mc k))) kk l
    =x= xdiv (b_count S tv vr vc ms mc k rsubs csubs kk l) (b_tb S tv vr vc ms mc k rsubs csubs kk l).
Proof.
  exact (fun Ht Hk Hv Htr Htc Hkk Hl Hrs Hcs Hro Hco Hrn Hcn Hrf Hcf Hrp Hcp =>
    conj (merge_inter_row_proportion S tv vr vc ms mc k rsubs csubs kk l dn Ht Hk Hv Htr Htc Hkk Hl Hrs Hcs Hro Hco Hrn Hcn Hrf Hcf Hcp rd cd)
   (conj (merge_inter_column_proportion S tv vr vc ms mc k rsubs csubs kk l dn Ht Hk Hv Htr Htc Hkk Hl Hrs Hcs Hro Hco Hrn Hcn Hrf Hcf Hrp rd cd)
         (merge_inter_table_proportion S tv vr vc ms mc k rsubs csubs kk l dn Ht Hk Hv Htr Htc Hkk Hl Hrs Hcs Hro Hco Hrn Hcn Hrf Hcf Hrp Hcp))).
Qed.
Print Assumptions C04_merge_inter_proportions.

(* the three-term variance at an intersection is the body formula on the both-merged cell *)
Theorem C04_merge_inter_variances S tv vr vc ms mc k rsubs csubs kk l dn rd cd :
  t_ok tv -> k < t_n tv -> vr <> vc -> tv_other tv vr -> tv_other tv vc ->
  kk < length rsubs -> l < length csubs ->
  s_sub (nth kk rsubs nosub) = [] -> s_sub (nth l csubs nosub) = [] ->
  Forall (fun i => i < n_valid ms) (s_add (nth kk rsubs nosub)) ->
  Forall (fun j => j < n_valid mc) (s_add (nth l csubs nosub)) ->
  NoDup (s_add (nth kk rsubs nosub)) -> NoDup (s_add (nth l csubs nosub)) ->
  fresh_for vr ms S -> fresh_for vc mc S -> 0 < n_valid ms -> 0 < n_valid mc ->
  let OC := o_counts S tv vr vc KCat ms mc k in
  let bc := b_count S tv vr vc ms mc k rsubs csubs kk l in
  mnth (b_inter (variance_blocks OC (nval ms) (nval mc) rsubs csubs
                   (row_proportions (nval ms) (nval mc) rsubs csubs OC dn rd cd (o_rb S tv vr vc KCat ms mc k))
                   (row_base_blocks (nval ms) (nval mc) rsubs csubs (o_rb S tv vr vc KCat ms mc k)))) kk l
    =x= var_cell (xdiv bc (b_rb S tv vr vc ms mc k rsubs csubs kk l)) (b_rb S tv vr vc ms mc k rsubs csubs kk l) bc (Fin 0) /\
  mnth (b_inter (variance_blocks OC (nval ms) (nval mc) rsubs csubs
                   (col_proportions (nval ms) (nval mc) rsubs csubs OC dn rd cd (o_cb S tv vr vc KCat ms mc k))
                   (col_base_blocks (nval ms) (nval mc) rsubs csubs (o_cb S tv vr vc KCat ms mc k)))) kk l
    =x= var_cell (xdiv bc (b_cb S tv vr vc ms mc k rsubs csubs kk l)) (b_cb S tv vr vc ms mc k rsubs csubs kk l) bc (Fin 0) /\
  mnth (b_inter (variance_blocks OC (nval ms) (nval mc) rsubs csubs
                   (table_proportions (nval ms) (nval mc) rsubs csubs OC dn (o_tb S tv vr vc KCat ms mc k))
                   (table_base_blocks (nval ms) (nval mc) rsubs csubs (o_tb S tv vr vc KCat ms mc k)))) kk l
    =x= var_cell (xdiv bc (b_tb S tv vr vc ms mc k rsubs csubs kk l)) (b_tb S tv vr vc ms mc k rsubs csubs kk l) bc (Fin 0).
Proof.
  exact (fun Ht Hk Hv Htr Htc Hkk Hl Hrs Hcs Hro Hco Hrn Hcn Hrf Hcf Hrp Hcp =>
    conj (merge_inter_row_variance S tv vr vc ms mc k rsubs csubs kk l dn rd cd Ht Hk Hv Htr Htc Hkk Hl Hrs Hcs Hro Hco Hrn Hcn Hrf Hcf Hcp)
   (conj (merge_inter_column_variance S tv vr vc ms mc k rsubs csubs kk l dn rd cd Ht Hk Hv Htr Htc Hkk Hl Hrs Hcs Hro Hco Hrn Hcn Hrf Hcf Hrp)
         (merge_inter_table_variance S tv vr vc ms mc k rsubs csubs kk l dn Ht Hk Hv Htr Htc Hkk Hl Hrs Hcs Hro Hco Hrn Hcn Hrf Hcf Hrp Hcp))).
Qed.
Print Assumptions C04_merge_inter_variances.

Theorem C04_merge_inter_any_cell_measure S tv vr vc ms mc k rsubs csubs kk l dn :
  t_ok tv -> k < t_n tv -> vr <> vc -> tv_other tv vr -> tv_other tv vc ->
  kk < length rsubs -> l < length csubs ->
  s_sub (nth kk rsubs nosub) = [] -> s_sub (nth l csubs nosub) = [] ->
  Forall (fun i => i < n_valid ms) (s_add (nth kk rsubs nosub)) ->
  Forall (fun j => j < n_valid mc) (s_add (nth l csubs nosub)) ->
  NoDup (s_add (nth kk rsubs nosub)) -> NoDup (s_add (nth l csubs nosub)) ->
  fresh_for vr ms S -> fresh_for vc mc S -> 0 < n_valid ms -> 0 < n_valid mc ->
  forall f : xq -> xq -> xq -> xq -> xq, Proper (xeq ==> xeq ==> xeq ==> xeq ==> xeq) f ->
  f (mnth (b_inter (count_blocks (nval ms) (nval mc) rsubs csubs (o_counts S tv vr vc KCat ms mc k) dn)) kk l)
    (mnth (b_inter (row_base_blocks (nval ms) (nval mc) rsubs csubs (o_rb S tv vr vc KCat ms mc k))) kk l)
    (mnth (b_inter (col_base_blocks (nval ms) (nval mc) rsubs csubs (o_cb S tv vr vc KCat ms mc k))) kk l)
    (mnth (b_inter (table_base_blocks (nval ms) (nval mc) rsubs csubs (o_tb S tv vr vc KCat ms mc k))) kk l)
  =x= f (b_count S tv vr vc ms mc k rsubs csubs kk l) (b_rb S tv vr vc ms mc k rsubs csubs kk l)
        (b_cb S tv vr vc ms mc k rsubs csubs kk l) (b_tb S tv vr vc ms mc k rsubs csubs kk l).
Proof. exact (merge_inter_any_cell_measure S tv vr vc ms mc k rsubs csubs kk l dn). Qed.
Print Assumptions C04_merge_inter_any_cell_measure.

(* ---- ROW subtotal: p-values, population, scale mean ----------------------------------------- *)
(* any function g of the model's z-statistic that respects =x= takes the same value on the subtotal
   row and on the merged row: in particular p = 2 (1 - Phi |z|) for ANY Phi (C12: pval Phi) *)
Theorem C04_merge_pvalue_any_function S tv vr vc kc ms mc k rsubs csubs kk dn :
  t_ok tv -> cat_or_mr kc -> k < t_n tv -> vc <> vr -> tv_other tv vr -> kk < length rsubs ->
  s_sub (nth kk rsubs nosub) = [] ->
  Forall (fun i => i < n_valid ms) (s_add (nth kk rsubs nosub)) -> NoDup (s_add (nth kk rsubs nosub)) ->
  fresh_for vr ms S -> 0 < n_valid ms ->
  forall (A : Type) (g : xq -> A) j, j < nval mc -> (forall x y, x =x= y -> g x = g y) ->
  g (z_zabs (mnth (b_rows (count_blocks (nval ms) (nval mc) rsubs csubs (o_counts S tv vr vc kc ms mc k) dn)) kk j)
            (mnth (b_rows (row_base_blocks (nval ms) (nval mc) rsubs csubs (o_rb S tv vr vc kc ms mc k))) kk j)
            (mnth (b_rows (col_base_blocks (nval ms) (nval mc) rsubs csubs (o_cb S tv vr vc kc ms mc k))) kk j)
            (mnth (b_rows (table_base_blocks (nval ms) (nval mc) rsubs csubs (o_tb S tv vr vc kc ms mc k))) kk j))
  = g (z_zabs (mnth (m_counts S tv vr vc kc ms mc k rsubs kk) (nval ms) j)
              (mnth (m_rb S tv vr vc kc ms mc k rsubs kk) (nval ms) j)
              (mnth (m_cb S tv vr vc kc ms mc k rsubs kk) (nval ms) j)
              (mnth (m_tb S tv vr vc kc ms mc k rsubs kk) (nval ms) j)).
Proof.
  exact (fun Ht Hc Hk Hv Htv Hkk Hs Ho Hn Hf Hp A g j =>
           @merge_z_function S tv vr vc kc ms mc k rsubs csubs kk dn Ht Hc Hk Hv Htv Hkk Hs Ho Hn Hf Hp A g j).
Qed.
Print Assumptions C04_merge_pvalue_any_function.

Theorem C04_merge_population_counts S tv vr vc kc ms mc k rsubs csubs rsubs' csubs' kk dn dn' rd cd rd' cd' :
  t_ok tv -> cat_or_mr kc -> k < t_n tv -> vc <> vr -> tv_other tv vr -> kk < length rsubs ->
  s_sub (nth kk rsubs nosub) = [] ->
  Forall (fun i => i < n_valid ms) (s_add (nth kk rsubs nosub)) -> NoDup (s_add (nth kk rsubs nosub)) ->
  fresh_for vr ms S -> 0 < n_valid ms ->
  forall rcd ccd N f j, j < nval mc ->
  pop_cell (pop_choice rcd ccd
     (mnth (b_rows (row_proportions (nval ms) (nval mc) rsubs csubs (o_counts S tv vr vc kc ms mc k) dn rd cd
                                    (o_rb S tv vr vc kc ms mc k))) kk j)
     (mnth (b_rows (col_proportions (nval ms) (nval mc) rsubs csubs (o_counts S tv vr vc kc ms mc k) dn rd cd
                                    (o_cb S tv vr vc kc ms mc k))) kk j)
     (mnth (b_rows (table_proportions (nval ms) (nval mc) rsubs csubs (o_counts S tv vr vc kc ms mc k) dn
                                      (o_tb S tv vr vc kc ms mc k))) kk j)) N f false
  =x= pop_cell (pop_choice rcd ccd
     (mnth (b_base (row_proportions (Datatypes.S (nval ms)) (nval mc) rsubs' csubs'
                      (m_counts S tv vr vc kc ms mc k rsubs kk) dn' rd' cd' (m_rb S tv vr vc kc ms mc k rsubs kk))) (nval ms) j)
     (mnth (b_base (col_proportions (Datatypes.S (nval ms)) (nval mc) rsubs' csubs'
                      (m_counts S tv vr vc kc ms mc k rsubs kk) dn' rd' cd' (m_cb S tv vr vc kc ms mc k rsubs kk))) (nval ms) j)
     (mnth (b_base (table_proportions (Datatypes.S (nval ms)) (nval mc) rsubs' csubs'
                      (m_counts S tv vr vc kc ms mc k rsubs kk) dn' (m_tb S tv vr vc kc ms mc k rsubs kk))) (nval ms) j))
     N f false.
Proof. exact (merge_population_counts S tv vr vc kc ms mc k rsubs csubs rsubs' csubs' kk dn dn' rd cd rd' cd'). Qed.
Print Assumptions C04_merge_population_counts.

(* rows scale mean of the inserted row (its counts / row bases over all base columns, any numeric
   values [vals] of the columns, NaN = no value) = that of the merged category's row.
   _partial: median / std-dev / std-err and the columns-scale statistics are not proved (see above). *)
Theorem C04_merge_scale_mean_partial S tv vr vc kc ms mc k rsubs csubs kk dn :
  t_ok tv -> cat_or_mr kc -> k < t_n tv -> vc <> vr -> tv_other tv vr -> kk < length rsubs ->
  s_sub (nth kk rsubs nosub) = [] ->
  Forall (fun i => i < n_valid ms) (s_add (nth kk rsubs nosub)) -> NoDup (s_add (nth kk rsubs nosub)) ->
  fresh_for vr ms S -> 0 < n_valid ms ->
  forall vals,
  scale_mean_vec
    (tab (nval mc) (fun j => mnth (b_rows (count_blocks (nval ms) (nval mc) rsubs csubs (o_counts S tv vr vc kc ms mc k) dn)) kk j))
    (tab (nval mc) (fun j => mnth (b_rows (row_base_blocks (nval ms) (nval mc) rsubs csubs (o_rb S tv vr vc kc ms mc k))) kk j))
    vals
  =x= scale_mean_vec
    (tab (nval mc) (fun j => mnth (m_counts S tv vr vc kc ms mc k rsubs kk) (nval ms) j))
    (tab (nval mc) (fun j => mnth (m_rb S tv vr vc kc ms mc k rsubs kk) (nval ms) j))
    vals.
Proof. exact (merge_scale_mean S tv vr vc kc ms mc k rsubs csubs kk dn). Qed.
Print Assumptions C04_merge_scale_mean_partial.

(* Non-vacuity: the 4 x 2 table of [ex_S] with the row subtotal 0+2 and the column subtotal 0+1.
   Intersection count 1 + 1/2 + 2 + 1 = 9/2 = the both-merged cell; the column subtotal against the
   merged column; the scale mean of the inserted row (column values 10, 20): (3/2*10 + 3*20)/(9/2). *)
Definition ex_csubs := [mkSub [0; 1] []].

Example C04_example_compose_hypotheses :
  t_ok None /\ 0 < t_n None /\ 0 <> 1 /\ tv_other None 0 /\ tv_other None 1 /\
  0 < length ex_rsubs /\ 0 < length ex_csubs /\
  s_sub (nth 0 ex_rsubs nosub) = [] /\ s_sub (nth 0 ex_csubs nosub) = [] /\
  Forall (fun i => i < n_valid ex_ms) (s_add (nth 0 ex_rsubs nosub)) /\
  Forall (fun j => j < n_valid ex_mc) (s_add (nth 0 ex_csubs nosub)) /\
  NoDup (s_add (nth 0 ex_rsubs nosub)) /\ NoDup (s_add (nth 0 ex_csubs nosub)) /\
  fresh_for 0 ex_ms ex_S /\ fresh_for 1 ex_mc ex_S /\ 0 < n_valid ex_ms /\ 0 < n_valid ex_mc.
Proof.
  assert (F0 : fresh_for 0 ex_ms ex_S).
  { intros r Hr. simpl in Hr. repeat (destruct Hr as [<-|Hr]; [simpl; discriminate|]). destruct Hr. }
  assert (F1 : fresh_for 1 ex_mc ex_S).
  { intros r Hr. simpl in Hr. repeat (destruct Hr as [<-|Hr]; [simpl; discriminate|]). destruct Hr. }
  assert (Hf0 : Forall (fun i => i < n_valid ex_ms) (s_add (nth 0 ex_rsubs nosub)))
    by (repeat constructor; vm_compute; lia).
  assert (Hf1 : Forall (fun j => j < n_valid ex_mc) (s_add (nth 0 ex_csubs nosub)))
    by (repeat constructor; vm_compute; lia).
  assert (Hn0 : NoDup (s_add (nth 0 ex_rsubs nosub))).
  { simpl. constructor; [simpl; intuition lia|]. constructor; [simpl; tauto| constructor]. }
  assert (Hn1 : NoDup (s_add (nth 0 ex_csubs nosub))).
  { simpl. constructor; [simpl; intuition lia|]. constructor; [simpl; tauto| constructor]. }
  repeat split; try exact F0; try exact F1; try exact Hf0; try exact Hf1; try exact Hn0; try exact Hn1;
    try (vm_compute; lia); try reflexivity; try discriminate.
Qed.

Example C04_example_compose_values :
  xred (mnth (b_inter (count_blocks 3 2 ex_rsubs ex_csubs (o_counts ex_S None 0 1 KCat ex_ms ex_mc 0) false)) 0 0)
    = Fin (9 # 2) /\
  xred (b_count ex_S None 0 1 ex_ms ex_mc 0 ex_rsubs ex_csubs 0 0) = Fin (9 # 2) /\
  xred (mnth (b_inter (row_proportions 3 2 ex_rsubs ex_csubs (o_counts ex_S None 0 1 KCat ex_ms ex_mc 0) false false false
                                       (o_rb ex_S None 0 1 KCat ex_ms ex_mc 0))) 0 0) = Fin 1 /\
  xred (xdiv (b_count ex_S None 0 1 ex_ms ex_mc 0 ex_rsubs ex_csubs 0 0)
             (b_tb ex_S None 0 1 ex_ms ex_mc 0 ex_rsubs ex_csubs 0 0)) = Fin (3 # 4) /\
  map xred (map (fun i => mnth (b_cols (count_blocks 3 2 ex_rsubs ex_csubs (oc_counts ex_S None 0 1 KCat ex_ms ex_mc 0) false)) i 0) [0; 1; 2])
    = [Fin 2; Fin (3 # 2); Fin (5 # 2)] /\
  map xred (map (fun i => mnth (mc_counts ex_S None 0 1 KCat ex_ms ex_mc 0 ex_csubs 0) i 2) [0; 1; 2])
    = [Fin 2; Fin (3 # 2); Fin (5 # 2)] /\
  xred (scale_mean_vec
          (tab 2 (fun j => mnth (b_rows (count_blocks 3 2 ex_rsubs ex_csubs (o_counts ex_S None 0 1 KCat ex_ms ex_mc 0) false)) 0 j))
          (tab 2 (fun j => mnth (b_rows (row_base_blocks 3 2 ex_rsubs ex_csubs (o_rb ex_S None 0 1 KCat ex_ms ex_mc 0))) 0 j))
          [Fin 10; Fin 20]) = Fin (50 # 3) /\
  xred (scale_mean_vec
          (tab 2 (fun j => mnth (m_counts ex_S None 0 1 KCat ex_ms ex_mc 0 ex_rsubs 0) 3 j))
          (tab 2 (fun j => mnth (m_rb ex_S None 0 1 KCat ex_ms ex_mc 0 ex_rsubs 0) 3 j))
          [Fin 10; Fin 20]) = Fin (50 # 3).
Proof. vm_compute. repeat split; reflexivity. Qed.

(* ==== GenAgree (subtotal strategies): what matrix/subtotals.py and stripe/insertion.py SAY NOW ==== *)
(* Appended by work/translator3 (statements generated from the lemmas of Proofs/GenAgreeSubtotals.v, GenAgreeSubtotalsTerms.v, GenAgreeSubtotalsWave.v by
   work/translator3/gen_lemmas.py).  Gen/SubtotalsSrc.v / Gen/StripeInsertionSrc.v are rewritten from the
   source on every check; [seval] (Base/SubtotalExp.v) is the meaning of a translated member;
   [None] = the translator could not read the member (tied by the correspondence only). *)
From Coq Require String.
From CC Require Base.SubtotalExp Base.MeasureExp Model.Subtotals Model.Proportions Model.Variance
     Gen.SubtotalsSrc Gen.StripeInsertionSrc Proofs.GenAgreeMeasTac Proofs.GenAgreeSubTac Proofs.GenAgreeSubtotals Proofs.GenAgreeSubtotalsTerms Proofs.GenAgreeSubtotalsWave.
Section GenAgreeSubtotals_C04.   (* scopes and imports below end with the section *)
Import Coq.Strings.String CC.Base.SubtotalExp CC.Base.MeasureExp CC.Model.Subtotals CC.Model.Proportions
       CC.Model.Variance CC.Gen.SubtotalsSrc CC.Gen.StripeInsertionSrc CC.Proofs.GenAgreeMeasTac
       CC.Proofs.GenAgreeSubTac CC.Proofs.GenAgreeSubtotals CC.Proofs.GenAgreeSubtotalsTerms CC.Proofs.GenAgreeSubtotalsWave.
Import Coq.Lists.List.ListNotations CC.Base.XQ CC.Base.ListX.
Local Close Scope Q_scope.
Local Open Scope string_scope.
Local Open Scope nat_scope.

(* matrix SumSubtotals: one subtotal column / row / intersection = [subcol_cell] / [subrow_cell] / [inter_cell];
   the assembled columns, rows, intersections and the four `_blocks` = the blocks of [sum_blocks];
   the classmethods blocks / intersections / subtotal_columns / subtotal_rows (what the measures call) =
   [strat_std .. 0 dcn drn ..], the meaning the second translator's environment gives to the call;
   OverlapSubtotals._subtotal_rows: one copy of base row 0 per row subtotal (a 1-D empty array when there is none) *)
Theorem C04_gen_SumSubtotals :
  (match src_SumSubtotals__subtotal_column with
  | Some e => forall base nr nc dcn drn rsubs csubs s,
      sub_in nc s ->
      sagrees_vec (seval (senv_sum base nr nc dcn drn rsubs csubs s s) e) nr (subcol_cell base dcn s)
  | None => True
  end) /\
  (match src_SumSubtotals__subtotal_row with
  | Some e => forall base nr nc dcn drn rsubs csubs s,
      sub_in nr s ->
      sagrees_vec (seval (senv_sum base nr nc dcn drn rsubs csubs s s) e) nc (subrow_cell base drn s)
  | None => True
  end) /\
  (match src_SumSubtotals__intersection with
  | Some e => forall base nr nc dcn drn rsubs csubs rs cs,
      sub_in nr rs ->
      sub_in nc cs ->
      sagrees_scal (seval (senv_sum base nr nc dcn drn rsubs csubs rs cs) e) (inter_cell base dcn drn rs cs)
  | None => True
  end) /\
  (match src_SumSubtotals__subtotal_columns with
  | Some e => forall base nr nc dcn drn rsubs csubs,
      subs_in nc csubs ->
      sagrees_mat (seval (senv_sum base nr nc dcn drn rsubs csubs nosub nosub) e) nr (List.length csubs) (mnth (b_cols (sum_blocks base nr nc rsubs csubs dcn drn)))
  | None => True
  end) /\
  (match src_SumSubtotals__subtotal_rows with
  | Some e => forall base nr nc dcn drn rsubs csubs,
      subs_in nr rsubs ->
      sagrees_mat (seval (senv_sum base nr nc dcn drn rsubs csubs nosub nosub) e) (List.length rsubs) nc (mnth (b_rows (sum_blocks base nr nc rsubs csubs dcn drn)))
  | None => True
  end) /\
  (match src_SumSubtotals__intersections with
  | Some e => forall base nr nc dcn drn rsubs csubs,
      subs_in nr rsubs ->
      subs_in nc csubs ->
      sagrees_mat (seval (senv_sum base nr nc dcn drn rsubs csubs nosub nosub) e) (List.length rsubs) (List.length csubs) (mnth (b_inter (sum_blocks base nr nc rsubs csubs dcn drn)))
  | None => True
  end) /\
  (match src_SumSubtotals__blocks_00 with
  | Some e => forall base nr nc dcn drn rsubs csubs,
      sagrees_mat (seval (senv_sum base nr nc dcn drn rsubs csubs nosub nosub) e) nr nc (mnth (b_base (sum_blocks base nr nc rsubs csubs dcn drn)))
  | None => True
  end) /\
  (match src_SumSubtotals__blocks_01 with
  | Some e => forall base nr nc dcn drn rsubs csubs,
      subs_in nc csubs ->
      sagrees_mat (seval (senv_sum base nr nc dcn drn rsubs csubs nosub nosub) e) nr (List.length csubs) (mnth (b_cols (sum_blocks base nr nc rsubs csubs dcn drn)))
  | None => True
  end) /\
  (match src_SumSubtotals__blocks_10 with
  | Some e => forall base nr nc dcn drn rsubs csubs,
      subs_in nr rsubs ->
      sagrees_mat (seval (senv_sum base nr nc dcn drn rsubs csubs nosub nosub) e) (List.length rsubs) nc (mnth (b_rows (sum_blocks base nr nc rsubs csubs dcn drn)))
  | None => True
  end) /\
  (match src_SumSubtotals__blocks_11 with
  | Some e => forall base nr nc dcn drn rsubs csubs,
      subs_in nr rsubs ->
      subs_in nc csubs ->
      sagrees_mat (seval (senv_sum base nr nc dcn drn rsubs csubs nosub nosub) e) (List.length rsubs) (List.length csubs) (mnth (b_inter (sum_blocks base nr nc rsubs csubs dcn drn)))
  | None => True
  end) /\
  (match src_SumSubtotals_blocks_00 with
  | Some e => forall cubem nr nc dcn drn rsubs csubs c a,
      sagrees_mat (seval (senv_sum (cubem c a) nr nc dcn drn rsubs csubs nosub nosub) e) nr nc (strat_std cubem nr nc rsubs csubs 0 dcn drn c a 0 0)
  | None => True
  end) /\
  (match src_SumSubtotals_blocks_01 with
  | Some e => forall cubem nr nc dcn drn rsubs csubs c a,
      subs_in nc csubs ->
      sagrees_mat (seval (senv_sum (cubem c a) nr nc dcn drn rsubs csubs nosub nosub) e) nr (List.length csubs) (strat_std cubem nr nc rsubs csubs 0 dcn drn c a 0 1)
  | None => True
  end) /\
  (match src_SumSubtotals_blocks_10 with
  | Some e => forall cubem nr nc dcn drn rsubs csubs c a,
      subs_in nr rsubs ->
      sagrees_mat (seval (senv_sum (cubem c a) nr nc dcn drn rsubs csubs nosub nosub) e) (List.length rsubs) nc (strat_std cubem nr nc rsubs csubs 0 dcn drn c a 1 0)
  | None => True
  end) /\
  (match src_SumSubtotals_blocks_11 with
  | Some e => forall cubem nr nc dcn drn rsubs csubs c a,
      subs_in nr rsubs ->
      subs_in nc csubs ->
      sagrees_mat (seval (senv_sum (cubem c a) nr nc dcn drn rsubs csubs nosub nosub) e) (List.length rsubs) (List.length csubs) (strat_std cubem nr nc rsubs csubs 0 dcn drn c a 1 1)
  | None => True
  end) /\
  (match src_SumSubtotals_intersections with
  | Some e => forall base nr nc dcn drn rsubs csubs,
      subs_in nr rsubs ->
      subs_in nc csubs ->
      sagrees_mat (seval (senv_sum base nr nc dcn drn rsubs csubs nosub nosub) e) (List.length rsubs) (List.length csubs) (mnth (b_inter (sum_blocks base nr nc rsubs csubs dcn drn)))
  | None => True
  end) /\
  (match src_SumSubtotals_subtotal_columns with
  | Some e => forall base nr nc dcn drn rsubs csubs,
      subs_in nc csubs ->
      sagrees_mat (seval (senv_sum base nr nc dcn drn rsubs csubs nosub nosub) e) nr (List.length csubs) (mnth (b_cols (sum_blocks base nr nc rsubs csubs dcn drn)))
  | None => True
  end) /\
  (match src_SumSubtotals_subtotal_rows with
  | Some e => forall base nr nc dcn drn rsubs csubs,
      subs_in nr rsubs ->
      sagrees_mat (seval (senv_sum base nr nc dcn drn rsubs csubs nosub nosub) e) (List.length rsubs) nc (mnth (b_rows (sum_blocks base nr nc rsubs csubs dcn drn)))
  | None => True
  end) /\
  (match src_OverlapSubtotals__subtotal_rows with
  | Some e => forall base nr nc dcn drn rsubs csubs,
      0 < nr ->
      rsubs <> [] ->
      sagrees_mat (seval (senv_sum base nr nc dcn drn rsubs csubs nosub nosub) e) (List.length rsubs) nc (fun _ j => mnth base 0 j)
  | None => True
  end).
Proof. exact (conj gen_SumSubtotals__subtotal_column (conj gen_SumSubtotals__subtotal_row (conj gen_SumSubtotals__intersection (conj gen_SumSubtotals__subtotal_columns (conj gen_SumSubtotals__subtotal_rows (conj gen_SumSubtotals__intersections (conj gen_SumSubtotals__blocks_00 (conj gen_SumSubtotals__blocks_01 (conj gen_SumSubtotals__blocks_10 (conj gen_SumSubtotals__blocks_11 (conj gen_SumSubtotals_blocks_00 (conj gen_SumSubtotals_blocks_01 (conj gen_SumSubtotals_blocks_10 (conj gen_SumSubtotals_blocks_11 (conj gen_SumSubtotals_intersections (conj gen_SumSubtotals_subtotal_columns (conj gen_SumSubtotals_subtotal_rows (gen_OverlapSubtotals__subtotal_rows)))))))))))))))))). Qed.
Print Assumptions C04_gen_SumSubtotals.

(* matrix NanSubtotals = [nan_blocks] *)
Theorem C04_gen_NanSubtotals :
  (match src_NanSubtotals__subtotal_column with
  | Some e => forall base nr nc rsubs csubs s,
      sub_in nc s ->
      sagrees_vec (seval (senv_sum base nr nc false false rsubs csubs s s) e) nr (fun _ : nat => NaN)
  | None => True
  end) /\
  (match src_NanSubtotals__subtotal_row with
  | Some e => forall base nr nc rsubs csubs s,
      sub_in nr s ->
      sagrees_vec (seval (senv_sum base nr nc false false rsubs csubs s s) e) nc (fun _ : nat => NaN)
  | None => True
  end) /\
  (match src_NanSubtotals__intersection with
  | Some e => forall base nr nc rsubs csubs rs cs,
      sub_in nr rs ->
      sub_in nc cs ->
      sagrees_scal (seval (senv_sum base nr nc false false rsubs csubs rs cs) e) (NaN)
  | None => True
  end) /\
  (match src_NanSubtotals__subtotal_columns with
  | Some e => forall base nr nc rsubs csubs,
      subs_in nc csubs ->
      sagrees_mat (seval (senv_sum base nr nc false false rsubs csubs nosub nosub) e) nr (List.length csubs) (mnth (b_cols (nan_blocks base nr nc rsubs csubs)))
  | None => True
  end) /\
  (match src_NanSubtotals__subtotal_rows with
  | Some e => forall base nr nc rsubs csubs,
      subs_in nr rsubs ->
      sagrees_mat (seval (senv_sum base nr nc false false rsubs csubs nosub nosub) e) (List.length rsubs) nc (mnth (b_rows (nan_blocks base nr nc rsubs csubs)))
  | None => True
  end) /\
  (match src_NanSubtotals__intersections with
  | Some e => forall base nr nc rsubs csubs,
      subs_in nr rsubs ->
      subs_in nc csubs ->
      sagrees_mat (seval (senv_sum base nr nc false false rsubs csubs nosub nosub) e) (List.length rsubs) (List.length csubs) (mnth (b_inter (nan_blocks base nr nc rsubs csubs)))
  | None => True
  end) /\
  (match src_NanSubtotals__blocks_00 with
  | Some e => forall base nr nc rsubs csubs,
      sagrees_mat (seval (senv_sum base nr nc false false rsubs csubs nosub nosub) e) nr nc (mnth (b_base (nan_blocks base nr nc rsubs csubs)))
  | None => True
  end) /\
  (match src_NanSubtotals__blocks_01 with
  | Some e => forall base nr nc rsubs csubs,
      subs_in nc csubs ->
      sagrees_mat (seval (senv_sum base nr nc false false rsubs csubs nosub nosub) e) nr (List.length csubs) (mnth (b_cols (nan_blocks base nr nc rsubs csubs)))
  | None => True
  end) /\
  (match src_NanSubtotals__blocks_10 with
  | Some e => forall base nr nc rsubs csubs,
      subs_in nr rsubs ->
      sagrees_mat (seval (senv_sum base nr nc false false rsubs csubs nosub nosub) e) (List.length rsubs) nc (mnth (b_rows (nan_blocks base nr nc rsubs csubs)))
  | None => True
  end) /\
  (match src_NanSubtotals__blocks_11 with
  | Some e => forall base nr nc rsubs csubs,
      subs_in nr rsubs ->
      subs_in nc csubs ->
      sagrees_mat (seval (senv_sum base nr nc false false rsubs csubs nosub nosub) e) (List.length rsubs) (List.length csubs) (mnth (b_inter (nan_blocks base nr nc rsubs csubs)))
  | None => True
  end) /\
  (match src_NanSubtotals_blocks_00 with
  | Some e => forall base nr nc rsubs csubs,
      sagrees_mat (seval (senv_sum base nr nc false false rsubs csubs nosub nosub) e) nr nc (mnth (b_base (nan_blocks base nr nc rsubs csubs)))
  | None => True
  end) /\
  (match src_NanSubtotals_blocks_01 with
  | Some e => forall base nr nc rsubs csubs,
      subs_in nc csubs ->
      sagrees_mat (seval (senv_sum base nr nc false false rsubs csubs nosub nosub) e) nr (List.length csubs) (mnth (b_cols (nan_blocks base nr nc rsubs csubs)))
  | None => True
  end) /\
  (match src_NanSubtotals_blocks_10 with
  | Some e => forall base nr nc rsubs csubs,
      subs_in nr rsubs ->
      sagrees_mat (seval (senv_sum base nr nc false false rsubs csubs nosub nosub) e) (List.length rsubs) nc (mnth (b_rows (nan_blocks base nr nc rsubs csubs)))
  | None => True
  end) /\
  (match src_NanSubtotals_blocks_11 with
  | Some e => forall base nr nc rsubs csubs,
      subs_in nr rsubs ->
      subs_in nc csubs ->
      sagrees_mat (seval (senv_sum base nr nc false false rsubs csubs nosub nosub) e) (List.length rsubs) (List.length csubs) (mnth (b_inter (nan_blocks base nr nc rsubs csubs)))
  | None => True
  end).
Proof. exact (conj gen_NanSubtotals__subtotal_column (conj gen_NanSubtotals__subtotal_row (conj gen_NanSubtotals__intersection (conj gen_NanSubtotals__subtotal_columns (conj gen_NanSubtotals__subtotal_rows (conj gen_NanSubtotals__intersections (conj gen_NanSubtotals__blocks_00 (conj gen_NanSubtotals__blocks_01 (conj gen_NanSubtotals__blocks_10 (conj gen_NanSubtotals__blocks_11 (conj gen_NanSubtotals_blocks_00 (conj gen_NanSubtotals_blocks_01 (conj gen_NanSubtotals_blocks_10 (gen_NanSubtotals_blocks_11)))))))))))))). Qed.
Print Assumptions C04_gen_NanSubtotals.

(* matrix PositiveTermSubtotals = [pos_blocks] (Model/Variance.v) = [strat_std .. 1 ..] *)
Theorem C04_gen_PositiveTermSubtotals :
  (match src_PositiveTermSubtotals__subtotal_column with
  | Some e => forall base nr nc rsubs csubs s,
      sub_in nc s ->
      sagrees_vec (seval (senv_sum base nr nc false false rsubs csubs s s) e) nr (fun i => sum_cols base i (s_add s))
  | None => True
  end) /\
  (match src_PositiveTermSubtotals__subtotal_row with
  | Some e => forall base nr nc rsubs csubs s,
      sub_in nr s ->
      sagrees_vec (seval (senv_sum base nr nc false false rsubs csubs s s) e) nc (pos_row base s)
  | None => True
  end) /\
  (match src_PositiveTermSubtotals__intersection with
  | Some e => forall base nr nc rsubs csubs rs cs,
      sub_in nr rs ->
      sub_in nc cs ->
      sagrees_scal (seval (senv_sum base nr nc false false rsubs csubs rs cs) e) (if has_subs cs && has_subs rs then NaN else xsum (map (pos_row base rs) (s_add cs)))
  | None => True
  end) /\
  (match src_PositiveTermSubtotals__subtotal_columns with
  | Some e => forall base nr nc rsubs csubs,
      subs_in nc csubs ->
      sagrees_mat (seval (senv_sum base nr nc false false rsubs csubs nosub nosub) e) nr (List.length csubs) (mnth (b_cols (pos_blocks base nr nc rsubs csubs)))
  | None => True
  end) /\
  (match src_PositiveTermSubtotals__subtotal_rows with
  | Some e => forall base nr nc rsubs csubs,
      subs_in nr rsubs ->
      sagrees_mat (seval (senv_sum base nr nc false false rsubs csubs nosub nosub) e) (List.length rsubs) nc (mnth (b_rows (pos_blocks base nr nc rsubs csubs)))
  | None => True
  end) /\
  (match src_PositiveTermSubtotals__intersections with
  | Some e => forall base nr nc rsubs csubs,
      subs_in nr rsubs ->
      subs_in nc csubs ->
      sagrees_mat (seval (senv_sum base nr nc false false rsubs csubs nosub nosub) e) (List.length rsubs) (List.length csubs) (mnth (b_inter (pos_blocks base nr nc rsubs csubs)))
  | None => True
  end) /\
  (match src_PositiveTermSubtotals__blocks_00 with
  | Some e => forall base nr nc rsubs csubs,
      sagrees_mat (seval (senv_sum base nr nc false false rsubs csubs nosub nosub) e) nr nc (mnth (b_base (pos_blocks base nr nc rsubs csubs)))
  | None => True
  end) /\
  (match src_PositiveTermSubtotals__blocks_01 with
  | Some e => forall base nr nc rsubs csubs,
      subs_in nc csubs ->
      sagrees_mat (seval (senv_sum base nr nc false false rsubs csubs nosub nosub) e) nr (List.length csubs) (mnth (b_cols (pos_blocks base nr nc rsubs csubs)))
  | None => True
  end) /\
  (match src_PositiveTermSubtotals__blocks_10 with
  | Some e => forall base nr nc rsubs csubs,
      subs_in nr rsubs ->
      sagrees_mat (seval (senv_sum base nr nc false false rsubs csubs nosub nosub) e) (List.length rsubs) nc (mnth (b_rows (pos_blocks base nr nc rsubs csubs)))
  | None => True
  end) /\
  (match src_PositiveTermSubtotals__blocks_11 with
  | Some e => forall base nr nc rsubs csubs,
      subs_in nr rsubs ->
      subs_in nc csubs ->
      sagrees_mat (seval (senv_sum base nr nc false false rsubs csubs nosub nosub) e) (List.length rsubs) (List.length csubs) (mnth (b_inter (pos_blocks base nr nc rsubs csubs)))
  | None => True
  end) /\
  (match src_PositiveTermSubtotals_blocks_00 with
  | Some e => forall cubem nr nc rsubs csubs c a,
      sagrees_mat (seval (senv_sum (cubem c a) nr nc false false rsubs csubs nosub nosub) e) nr nc (strat_std cubem nr nc rsubs csubs 1 false false c a 0 0)
  | None => True
  end) /\
  (match src_PositiveTermSubtotals_blocks_01 with
  | Some e => forall cubem nr nc rsubs csubs c a,
      subs_in nc csubs ->
      sagrees_mat (seval (senv_sum (cubem c a) nr nc false false rsubs csubs nosub nosub) e) nr (List.length csubs) (strat_std cubem nr nc rsubs csubs 1 false false c a 0 1)
  | None => True
  end) /\
  (match src_PositiveTermSubtotals_blocks_10 with
  | Some e => forall cubem nr nc rsubs csubs c a,
      subs_in nr rsubs ->
      sagrees_mat (seval (senv_sum (cubem c a) nr nc false false rsubs csubs nosub nosub) e) (List.length rsubs) nc (strat_std cubem nr nc rsubs csubs 1 false false c a 1 0)
  | None => True
  end) /\
  (match src_PositiveTermSubtotals_blocks_11 with
  | Some e => forall cubem nr nc rsubs csubs c a,
      subs_in nr rsubs ->
      subs_in nc csubs ->
      sagrees_mat (seval (senv_sum (cubem c a) nr nc false false rsubs csubs nosub nosub) e) (List.length rsubs) (List.length csubs) (strat_std cubem nr nc rsubs csubs 1 false false c a 1 1)
  | None => True
  end).
Proof. exact (conj gen_PositiveTermSubtotals__subtotal_column (conj gen_PositiveTermSubtotals__subtotal_row (conj gen_PositiveTermSubtotals__intersection (conj gen_PositiveTermSubtotals__subtotal_columns (conj gen_PositiveTermSubtotals__subtotal_rows (conj gen_PositiveTermSubtotals__intersections (conj gen_PositiveTermSubtotals__blocks_00 (conj gen_PositiveTermSubtotals__blocks_01 (conj gen_PositiveTermSubtotals__blocks_10 (conj gen_PositiveTermSubtotals__blocks_11 (conj gen_PositiveTermSubtotals_blocks_00 (conj gen_PositiveTermSubtotals_blocks_01 (conj gen_PositiveTermSubtotals_blocks_10 (gen_PositiveTermSubtotals_blocks_11)))))))))))))). Qed.
Print Assumptions C04_gen_PositiveTermSubtotals.

(* matrix NegativeTermSubtotals = [neg_blocks] (base block all 0) = [strat_std .. 2 ..] *)
Theorem C04_gen_NegativeTermSubtotals :
  (match src_NegativeTermSubtotals__subtotal_column with
  | Some e => forall base nr nc rsubs csubs s,
      sub_in nc s ->
      sagrees_vec (seval (senv_sum base nr nc false false rsubs csubs s s) e) nr (fun i => sum_cols base i (s_sub s))
  | None => True
  end) /\
  (match src_NegativeTermSubtotals__subtotal_row with
  | Some e => forall base nr nc rsubs csubs s,
      sub_in nr s ->
      sagrees_vec (seval (senv_sum base nr nc false false rsubs csubs s s) e) nc (fun j => sum_rows base (s_sub s) j)
  | None => True
  end) /\
  (match src_NegativeTermSubtotals__intersection with
  | Some e => forall base nr nc rsubs csubs rs cs,
      sub_in nr rs ->
      sub_in nc cs ->
      sagrees_scal (seval (senv_sum base nr nc false false rsubs csubs rs cs) e) (if has_subs cs && has_subs rs then NaN else if has_subs cs then xsum (map (fun c => sum_rows base (s_add rs) c) (s_sub cs)) else if has_subs rs then xsum (map (fun r => sum_cols base r (s_add cs)) (s_sub rs)) else Fin 0)
  | None => True
  end) /\
  (match src_NegativeTermSubtotals__subtotal_columns with
  | Some e => forall base nr nc rsubs csubs,
      subs_in nc csubs ->
      sagrees_mat (seval (senv_sum base nr nc false false rsubs csubs nosub nosub) e) nr (List.length csubs) (mnth (b_cols (neg_blocks base nr nc rsubs csubs)))
  | None => True
  end) /\
  (match src_NegativeTermSubtotals__subtotal_rows with
  | Some e => forall base nr nc rsubs csubs,
      subs_in nr rsubs ->
      sagrees_mat (seval (senv_sum base nr nc false false rsubs csubs nosub nosub) e) (List.length rsubs) nc (mnth (b_rows (neg_blocks base nr nc rsubs csubs)))
  | None => True
  end) /\
  (match src_NegativeTermSubtotals__intersections with
  | Some e => forall base nr nc rsubs csubs,
      subs_in nr rsubs ->
      subs_in nc csubs ->
      sagrees_mat (seval (senv_sum base nr nc false false rsubs csubs nosub nosub) e) (List.length rsubs) (List.length csubs) (mnth (b_inter (neg_blocks base nr nc rsubs csubs)))
  | None => True
  end) /\
  (match src_NegativeTermSubtotals__blocks_00 with
  | Some e => forall base nr nc rsubs csubs,
      sagrees_mat (seval (senv_sum base nr nc false false rsubs csubs nosub nosub) e) nr nc (mnth (b_base (neg_blocks base nr nc rsubs csubs)))
  | None => True
  end) /\
  (match src_NegativeTermSubtotals__blocks_01 with
  | Some e => forall base nr nc rsubs csubs,
      subs_in nc csubs ->
      sagrees_mat (seval (senv_sum base nr nc false false rsubs csubs nosub nosub) e) nr (List.length csubs) (mnth (b_cols (neg_blocks base nr nc rsubs csubs)))
  | None => True
  end) /\
  (match src_NegativeTermSubtotals__blocks_10 with
  | Some e => forall base nr nc rsubs csubs,
      subs_in nr rsubs ->
      sagrees_mat (seval (senv_sum base nr nc false false rsubs csubs nosub nosub) e) (List.length rsubs) nc (mnth (b_rows (neg_blocks base nr nc rsubs csubs)))
  | None => True
  end) /\
  (match src_NegativeTermSubtotals__blocks_11 with
  | Some e => forall base nr nc rsubs csubs,
      subs_in nr rsubs ->
      subs_in nc csubs ->
      sagrees_mat (seval (senv_sum base nr nc false false rsubs csubs nosub nosub) e) (List.length rsubs) (List.length csubs) (mnth (b_inter (neg_blocks base nr nc rsubs csubs)))
  | None => True
  end) /\
  (match src_NegativeTermSubtotals_blocks_00 with
  | Some e => forall cubem nr nc rsubs csubs c a,
      sagrees_mat (seval (senv_sum (cubem c a) nr nc false false rsubs csubs nosub nosub) e) nr nc (strat_std cubem nr nc rsubs csubs 2 false false c a 0 0)
  | None => True
  end) /\
  (match src_NegativeTermSubtotals_blocks_01 with
  | Some e => forall cubem nr nc rsubs csubs c a,
      subs_in nc csubs ->
      sagrees_mat (seval (senv_sum (cubem c a) nr nc false false rsubs csubs nosub nosub) e) nr (List.length csubs) (strat_std cubem nr nc rsubs csubs 2 false false c a 0 1)
  | None => True
  end) /\
  (match src_NegativeTermSubtotals_blocks_10 with
  | Some e => forall cubem nr nc rsubs csubs c a,
      subs_in nr rsubs ->
      sagrees_mat (seval (senv_sum (cubem c a) nr nc false false rsubs csubs nosub nosub) e) (List.length rsubs) nc (strat_std cubem nr nc rsubs csubs 2 false false c a 1 0)
  | None => True
  end) /\
  (match src_NegativeTermSubtotals_blocks_11 with
  | Some e => forall cubem nr nc rsubs csubs c a,
      subs_in nr rsubs ->
      subs_in nc csubs ->
      sagrees_mat (seval (senv_sum (cubem c a) nr nc false false rsubs csubs nosub nosub) e) (List.length rsubs) (List.length csubs) (strat_std cubem nr nc rsubs csubs 2 false false c a 1 1)
  | None => True
  end).
Proof. exact (conj gen_NegativeTermSubtotals__subtotal_column (conj gen_NegativeTermSubtotals__subtotal_row (conj gen_NegativeTermSubtotals__intersection (conj gen_NegativeTermSubtotals__subtotal_columns (conj gen_NegativeTermSubtotals__subtotal_rows (conj gen_NegativeTermSubtotals__intersections (conj gen_NegativeTermSubtotals__blocks_00 (conj gen_NegativeTermSubtotals__blocks_01 (conj gen_NegativeTermSubtotals__blocks_10 (conj gen_NegativeTermSubtotals__blocks_11 (conj gen_NegativeTermSubtotals_blocks_00 (conj gen_NegativeTermSubtotals_blocks_01 (conj gen_NegativeTermSubtotals_blocks_10 (gen_NegativeTermSubtotals_blocks_11)))))))))))))). Qed.
Print Assumptions C04_gen_NegativeTermSubtotals.

(* matrix WaveDiffSubtotal: the categorical-date rule for one subtotal column / row ([wave_col_cell] /
   [wave_row_cell]: one wave minus one wave = difference of the two percentages, several terms = NaN,
   otherwise the default), the zip with the default insertions, and the classmethods = [wave_std] *)
Theorem C04_gen_WaveDiffSubtotal :
  (match src_WaveDiffSubtotal__multiple_subtrahends_or_addends with
  | Some e => forall bases counts nr nc dflts rsubs csubs rd cd s dflt,
      keval (senv_wave bases counts nr nc dflts rsubs csubs rd cd s dflt) e = multiple_terms s
  | None => True
  end) /\
  (match src_WaveDiffSubtotal__subtotal_column with
  | Some e => forall bases counts nr nc dflts rsubs csubs rd cd s d,
      sub_in nc s ->
      sagrees_vec (seval (senv_wave bases counts nr nc dflts rsubs csubs rd cd s (SVV (ARange nr) d)) e) nr (fun i => wave_col_cell bases counts cd s (d i) i)
  | None => True
  end) /\
  (match src_WaveDiffSubtotal__subtotal_row with
  | Some e => forall bases counts nr nc dflts rsubs csubs rd cd s d,
      sub_in nr s ->
      sagrees_vec (seval (senv_wave bases counts nr nc dflts rsubs csubs rd cd s (SVV (ARange nc) d)) e) nc (fun j => wave_row_cell bases counts rd s (d j) j)
  | None => True
  end) /\
  (match src_WaveDiffSubtotal__subtotal_columns with
  | Some e => forall bases counts nr nc rsubs csubs rd cd D,
      subs_in nc csubs ->
      sagrees_mat (seval (senv_wave bases counts nr nc (SVM (ARange nr) (ARange (List.length csubs)) D) rsubs csubs rd cd nosub SVErr) e) nr (List.length csubs)
        (fun i l => wave_col_cell bases counts cd (nth l csubs nosub) (D i l) i)
  | None => True
  end) /\
  (match src_WaveDiffSubtotal__subtotal_rows with
  | Some e => forall bases counts nr nc rsubs csubs rd cd D,
      subs_in nr rsubs ->
      sagrees_mat (seval (senv_wave bases counts nr nc (SVM (ARange (List.length rsubs)) (ARange nc) D) rsubs csubs rd cd nosub SVErr) e) (List.length rsubs) nc
        (fun k j => wave_row_cell bases counts rd (nth k rsubs nosub) (D k j) j)
  | None => True
  end) /\
  (match src_WaveDiffSubtotal_subtotal_columns with
  | Some e => forall cubem nr nc rsubs csubs rd cd bc ba cc ca D,
      subs_in nc csubs ->
      sagrees_mat (seval (senv_wave (cubem bc ba) (cubem cc ca) nr nc (SVM (ARange nr) (ARange (List.length csubs)) D) rsubs csubs rd cd nosub SVErr) e) nr (List.length csubs)
        (wave_std cubem rsubs csubs rd cd AxCols bc ba cc ca D)
  | None => True
  end) /\
  (match src_WaveDiffSubtotal_subtotal_rows with
  | Some e => forall cubem nr nc rsubs csubs rd cd bc ba cc ca D,
      subs_in nr rsubs ->
      sagrees_mat (seval (senv_wave (cubem bc ba) (cubem cc ca) nr nc (SVM (ARange (List.length rsubs)) (ARange nc) D) rsubs csubs rd cd nosub SVErr) e) (List.length rsubs) nc
        (wave_std cubem rsubs csubs rd cd AxRows bc ba cc ca D)
  | None => True
  end).
Proof. exact (conj gen_WaveDiffSubtotal__multiple_subtrahends_or_addends (conj gen_WaveDiffSubtotal__subtotal_column (conj gen_WaveDiffSubtotal__subtotal_row (conj gen_WaveDiffSubtotal__subtotal_columns (conj gen_WaveDiffSubtotal__subtotal_rows (conj gen_WaveDiffSubtotal_subtotal_columns (gen_WaveDiffSubtotal_subtotal_rows))))))). Qed.
Print Assumptions C04_gen_WaveDiffSubtotal.

(* stripe SumSubtotals = [stripe_sum_subtotal] = [vstrat_std .. 0]; stripe NanSubtotals *)
Theorem C04_gen_stripe_SumSubtotals :
  (match ssrc_SumSubtotals__subtotal_value with
  | Some e => forall base n subs s,
      sub_in n s ->
      sagrees_scal (seval (senv_ssum base n subs s) e) (stripe_sum_subtotal base s)
  | None => True
  end) /\
  (match ssrc_SumSubtotals__subtotal_values with
  | Some e => forall base n subs,
      subs_in n subs ->
      sagrees_vec (seval (senv_ssum base n subs nosub) e) (List.length subs) (fun k => stripe_sum_subtotal base (nth k subs nosub))
  | None => True
  end) /\
  (match ssrc_SumSubtotals_subtotal_values with
  | Some e => forall base n subs,
      subs_in n subs ->
      sagrees_vec (seval (senv_ssum base n subs nosub) e) (List.length subs) (vstrat_std subs 0 (vnth base))
  | None => True
  end) /\
  (match ssrc_NanSubtotals__subtotal_values with
  | Some e => forall base n subs,
      sagrees_vec (seval (senv_ssum base n subs nosub) e) (List.length subs) (fun _ => NaN)
  | None => True
  end) /\
  (match ssrc_NanSubtotals_subtotal_values with
  | Some e => forall base n subs,
      sagrees_vec (seval (senv_ssum base n subs nosub) e) (List.length subs) (fun _ => NaN)
  | None => True
  end).
Proof. exact (conj gen_stripe_SumSubtotals__subtotal_value (conj gen_stripe_SumSubtotals__subtotal_values (conj gen_stripe_SumSubtotals_subtotal_values (conj gen_stripe_NanSubtotals__subtotal_values (gen_stripe_NanSubtotals_subtotal_values))))). Qed.
Print Assumptions C04_gen_stripe_SumSubtotals.

(* stripe PositiveTermSubtotals / NegativeTermSubtotals = [vsum_idx] of the addends / subtrahends = [vstrat_std .. 1 / 2] *)
Theorem C04_gen_stripe_TermSubtotals :
  (match ssrc_PositiveTermSubtotals__subtotal_value with
  | Some e => forall base n subs s,
      sub_in n s ->
      sagrees_scal (seval (senv_ssum base n subs s) e) (vsum_idx base (s_add s))
  | None => True
  end) /\
  (match ssrc_PositiveTermSubtotals__subtotal_values with
  | Some e => forall base n subs,
      subs_in n subs ->
      sagrees_vec (seval (senv_ssum base n subs nosub) e) (List.length subs) (fun k => vsum_idx base (s_add (nth k subs nosub)))
  | None => True
  end) /\
  (match ssrc_PositiveTermSubtotals_subtotal_values with
  | Some e => forall base n subs,
      subs_in n subs ->
      sagrees_vec (seval (senv_ssum base n subs nosub) e) (List.length subs) (vstrat_std subs 1 (vnth base))
  | None => True
  end) /\
  (match ssrc_NegativeTermSubtotals__subtotal_value with
  | Some e => forall base n subs s,
      sub_in n s ->
      sagrees_scal (seval (senv_ssum base n subs s) e) (vsum_idx base (s_sub s))
  | None => True
  end) /\
  (match ssrc_NegativeTermSubtotals__subtotal_values with
  | Some e => forall base n subs,
      subs_in n subs ->
      sagrees_vec (seval (senv_ssum base n subs nosub) e) (List.length subs) (fun k => vsum_idx base (s_sub (nth k subs nosub)))
  | None => True
  end) /\
  (match ssrc_NegativeTermSubtotals_subtotal_values with
  | Some e => forall base n subs,
      subs_in n subs ->
      sagrees_vec (seval (senv_ssum base n subs nosub) e) (List.length subs) (vstrat_std subs 2 (vnth base))
  | None => True
  end).
Proof. exact (conj gen_stripe_PositiveTermSubtotals__subtotal_value (conj gen_stripe_PositiveTermSubtotals__subtotal_values (conj gen_stripe_PositiveTermSubtotals_subtotal_values (conj gen_stripe_NegativeTermSubtotals__subtotal_value (conj gen_stripe_NegativeTermSubtotals__subtotal_values (gen_stripe_NegativeTermSubtotals_subtotal_values)))))). Qed.
Print Assumptions C04_gen_stripe_TermSubtotals.

(* stripe WaveDiffSubtotals = [strand_wave_value] = [vwave_std] *)
Theorem C04_gen_stripe_WaveDiffSubtotals :
  (match ssrc_WaveDiffSubtotals__multiple_subtrahends_or_addends with
  | Some e => forall bases counts n dflts subs rd s dflt,
      keval (senv_swave bases counts n dflts subs rd s dflt) e = multiple_terms s
  | None => True
  end) /\
  (match ssrc_WaveDiffSubtotals__subtotal_value with
  | Some e => forall bases counts n dflts subs rd s d,
      sub_in n s ->
      sagrees_scal (seval (senv_swave bases counts n dflts subs rd s (SVS d)) e) (strand_wave_value counts bases true s d)
  | None => True
  end) /\
  (match ssrc_WaveDiffSubtotals__subtotal_values with
  | Some e => forall bases counts n subs rd D,
      subs_in n subs ->
      sagrees_vec (seval (senv_swave bases counts n (SVV (ARange (List.length subs)) D) subs rd nosub SVErr) e) (List.length subs)
        (fun k => strand_wave_value counts bases rd (nth k subs nosub) (D k))
  | None => True
  end) /\
  (match ssrc_WaveDiffSubtotals_subtotal_values with
  | Some e => forall cubel n subs rd bc ba cc ca D,
      subs_in n subs ->
      sagrees_vec (seval (senv_swave (cubel bc ba) (cubel cc ca) n (SVV (ARange (List.length subs)) D) subs rd nosub SVErr) e) (List.length subs)
        (vwave_std cubel subs rd bc ba cc ca D)
  | None => True
  end).
Proof. exact (conj gen_stripe_WaveDiffSubtotals__multiple_subtrahends_or_addends (conj gen_stripe_WaveDiffSubtotals__subtotal_value (conj gen_stripe_WaveDiffSubtotals__subtotal_values (gen_stripe_WaveDiffSubtotals_subtotal_values)))). Qed.
Print Assumptions C04_gen_stripe_WaveDiffSubtotals.

(* non-vacuity: base [[1 2 3] [4 5 6]], one column subtotal (0 + 2) - 1: the translated
   SumSubtotals.blocks[0][1] evaluates to the column [2; 5] *)
Example C04_gen_sub_example :
  match src_SumSubtotals_blocks_01 with
  | Some e =>
      match seval (senv_sum [[Fin 1%Q; Fin 2%Q; Fin 3%Q]; [Fin 4%Q; Fin 5%Q; Fin 6%Q]] 2 3 false false
                            [] [mkSub [0; 2] [1]] nosub nosub) e with
      | SVM (ARange 2) (ARange 1) f => f 0 0 =x= Fin 2%Q /\ f 1 0 =x= Fin 5%Q
      | _ => False
      end
  | None => True
  end.
Proof. vm_compute. first [exact I | split; reflexivity]. Qed.

End GenAgreeSubtotals_C04.

(* ---- WIRING-APPENDIX:BEGIN (generated by tools/gen_wiring_props.py; do not edit) ---- *)
From CC Require Proofs.GenAgreeWiring_C04.
Section Wiring_C04.
Import Coq.Lists.List Coq.ZArith.ZArith Coq.Strings.String CC.Base.WiringExp CC.Gen.WiringSrc.
Import ListNotations.
Local Open Scope string_scope.

Theorem C04_wiring_Slice__assemble_vector :
  wsrc_Slice__assemble_vector = Some (WCall (WGlobal "__defaults__") [WIndex (WCall (WAttr (WGlobal
      "np") "hstack") [WList [WVar "base_vector"; WCall (WAttr (WGlobal "np") "array") [WComp "list"
      (WIf (WBoolOp "and" [WVar "diffs_nan"; WCmp ">" (WCall (WGlobal "len") [WAttr (WVar
      "subtotal") "subtrahend_idxs"] []) (WInt (0)%Z)]) (WNaN) (WBin "-" (WCall (WAttr (WGlobal
      "np") "sum") [WIndex (WVar "base_vector") [WAttr (WVar "subtotal") "addend_idxs"]] []) (WCall
      (WAttr (WGlobal "np") "sum") [WIndex (WVar "base_vector") [WAttr (WVar "subtotal")
      "subtrahend_idxs"]] []))) [(["subtotal"], WVar "subtotals", [])]] []]] []) [WVar "order"]]
      [("diffs_nan", WFalse)]).
Proof. exact Proofs.GenAgreeWiring_C04.gen_wiring_Slice__assemble_vector. Qed.
Print Assumptions C04_wiring_Slice__assemble_vector.

Theorem C04_wiring_BaseSecondOrderMeasure_blocks :
  wsrc_BaseSecondOrderMeasure_blocks = Some (WList [WList [WSelf "_base_values"; WSelf
      "_subtotal_columns"]; WList [WSelf "_subtotal_rows"; WSelf "_intersections"]]).
Proof. exact Proofs.GenAgreeWiring_C04.gen_wiring_BaseSecondOrderMeasure_blocks. Qed.
Print Assumptions C04_wiring_BaseSecondOrderMeasure_blocks.

Theorem C04_wiring_BaseSecondOrderMeasure__base_values :
  wsrc_BaseSecondOrderMeasure__base_values = Some (WRaise "NotImplementedError").
Proof. exact Proofs.GenAgreeWiring_C04.gen_wiring_BaseSecondOrderMeasure__base_values. Qed.
Print Assumptions C04_wiring_BaseSecondOrderMeasure__base_values.

Theorem C04_wiring_BaseSecondOrderMeasure__intersections :
  wsrc_BaseSecondOrderMeasure__intersections = Some (WRaise "NotImplementedError").
Proof. exact Proofs.GenAgreeWiring_C04.gen_wiring_BaseSecondOrderMeasure__intersections. Qed.
Print Assumptions C04_wiring_BaseSecondOrderMeasure__intersections.

Theorem C04_wiring_BaseSecondOrderMeasure__subtotal_columns :
  wsrc_BaseSecondOrderMeasure__subtotal_columns = Some (WRaise "NotImplementedError").
Proof. exact Proofs.GenAgreeWiring_C04.gen_wiring_BaseSecondOrderMeasure__subtotal_columns. Qed.
Print Assumptions C04_wiring_BaseSecondOrderMeasure__subtotal_columns.

Theorem C04_wiring_BaseSecondOrderMeasure__subtotal_rows :
  wsrc_BaseSecondOrderMeasure__subtotal_rows = Some (WRaise "NotImplementedError").
Proof. exact Proofs.GenAgreeWiring_C04.gen_wiring_BaseSecondOrderMeasure__subtotal_rows. Qed.
Print Assumptions C04_wiring_BaseSecondOrderMeasure__subtotal_rows.

Theorem C04_wiring_StripeBaseSecondOrderMeasure_base_values :
  wsrc_StripeBaseSecondOrderMeasure_base_values = Some (WRaise "NotImplementedError").
Proof. exact Proofs.GenAgreeWiring_C04.gen_wiring_StripeBaseSecondOrderMeasure_base_values. Qed.
Print Assumptions C04_wiring_StripeBaseSecondOrderMeasure_base_values.

Theorem C04_wiring_StripeBaseSecondOrderMeasure_blocks :
  wsrc_StripeBaseSecondOrderMeasure_blocks = Some (WTuple [WSelf "base_values"; WSelf
      "subtotal_values"]).
Proof. exact Proofs.GenAgreeWiring_C04.gen_wiring_StripeBaseSecondOrderMeasure_blocks. Qed.
Print Assumptions C04_wiring_StripeBaseSecondOrderMeasure_blocks.

Theorem C04_wiring_StripeBaseSecondOrderMeasure_subtotal_values :
  wsrc_StripeBaseSecondOrderMeasure_subtotal_values = Some (WRaise "NotImplementedError").
Proof. exact Proofs.GenAgreeWiring_C04.gen_wiring_StripeBaseSecondOrderMeasure_subtotal_values. Qed.
Print Assumptions C04_wiring_StripeBaseSecondOrderMeasure_subtotal_values.

End Wiring_C04.
(* ---- WIRING-APPENDIX:END ---- *)

(*BEGIN GenAgreeDimension_C04*)
(* ------------------------------------------------------------------------------------ *)
(* SOURCE TEXT of the id resolution of dimension.py.  Gen/DimensionSrc.v is regenerated on every check from
   src/cr/cube/dimension.py (+ enums.py) by harness/translate/x_dimension.py (shallow translation: every member
   as a Gallina function over the Python-semantics combinators of Base/PyList.v + Base/PyDict.v (JSON values) +
   Model/PyDimension.v; `self.<member>` = the generated function of that member).  For ALL insertion dicts whose
   term lists are lists of identifiers ([positive_abs] / [negative_abs] / [insdict_of]: Proofs/GenAgreeDimensionSubtotal.v)
   and all Elements objects whose element ids are identifiers ([wf_elems]: Proofs/GenAgreeDimensionLib.v),
   _build_element_id / Element.element_id / Elements.element_ids, _Subtotal.addend_ids / addend_idxs /
   subtrahend_ids / subtrahend_idxs / is_difference and _Subtotals._element_ids / _iter_valid_subtotal_dicts ARE
   [kept_ids] / [resolve] / [is_difference] / [valid_subtotal] of Model/SubtotalIds.v the theorems above are
   about.  [None] = the member is outside the translator's whitelist (tied by the correspondence only). *)
From CC Require Proofs.GenAgreeDimensionLib Proofs.GenAgreeDimensionSubtotal.
Section GenAgreeDimension_C04.   (* scopes and imports below end with the section *)
Import Coq.Lists.List Coq.ZArith.ZArith Coq.Strings.String Coq.Bool.Bool CC.Base.XQ CC.Base.Ident CC.Base.PyList
       CC.Base.PyDict CC.Model.DimType CC.Model.PyDimension CC.Gen.DimensionSrc CC.Proofs.GenAgreeDimensionLib
       CC.Proofs.GenAgreeDimensionSubtotal CC.Model.Subtotals CC.Model.SubtotalIds.
Import Coq.Lists.List.ListNotations.
Local Close Scope Q_scope.
Local Open Scope Z_scope.

Theorem C04_gen_dim_fn__build_element_id :
  match src_fn__build_element_id with
  | Some f => forall d t,
      f (JDict d) t = of_option KeyError (jd_get d (JStr (element_id_key d t)))
  | None => True end.
Proof. exact gen_fn__build_element_id. Qed.
Print Assumptions C04_gen_dim_fn__build_element_id.

Theorem C04_gen_dim_Element_element_id :
  match src_Element_element_id with
  | Some f => forall e i, wf_elem e i -> f e = Ok (jv_of_ident i)
  | None => True end.
Proof. exact gen_Element_element_id. Qed.
Print Assumptions C04_gen_dim_Element_element_id.

Theorem C04_gen_dim_Elements_element_ids :
  match src_Elements_element_ids with
  | Some f => forall els ids, wf_elems els ids -> f els = Ok (map jv_of_ident ids)
  | None => True end.
Proof. exact gen_Elements_element_ids. Qed.
Print Assumptions C04_gen_dim_Elements_element_ids.

Theorem C04_gen_dim__Subtotal_addend_ids :
  match src__Subtotal_addend_ids with
  | Some f => forall d els ids pos, wf_elems els ids -> positive_abs d = Some pos ->
      f (mkPySubtotal (JDict d) els) = Ok (map jv_of_ident (kept_ids ids pos))
  | None => True end.
Proof. exact gen__Subtotal_addend_ids. Qed.
Print Assumptions C04_gen_dim__Subtotal_addend_ids.

Theorem C04_gen_dim__Subtotal_subtrahend_ids :
  match src__Subtotal_subtrahend_ids with
  | Some f => forall d els ids neg, wf_elems els ids -> negative_abs d = Some neg ->
      f (mkPySubtotal (JDict d) els) = Ok (map jv_of_ident (kept_ids ids neg))
  | None => True end.
Proof. exact gen__Subtotal_subtrahend_ids. Qed.
Print Assumptions C04_gen_dim__Subtotal_subtrahend_ids.

Theorem C04_gen_dim__Subtotal_addend_idxs :
  match src__Subtotal_addend_idxs with
  | Some f => forall d els ids pos, wf_elems els ids -> positive_abs d = Some pos ->
      f (mkPySubtotal (JDict d) els) = Ok (map Z.of_nat (resolve ids pos))
  | None => True end.
Proof. exact gen__Subtotal_addend_idxs. Qed.
Print Assumptions C04_gen_dim__Subtotal_addend_idxs.

Theorem C04_gen_dim__Subtotal_subtrahend_idxs :
  match src__Subtotal_subtrahend_idxs with
  | Some f => forall d els ids neg, wf_elems els ids -> negative_abs d = Some neg ->
      f (mkPySubtotal (JDict d) els) = Ok (map Z.of_nat (resolve ids neg))
  | None => True end.
Proof. exact gen__Subtotal_subtrahend_idxs. Qed.
Print Assumptions C04_gen_dim__Subtotal_subtrahend_idxs.

Theorem C04_gen_dim__Subtotal_is_difference :
  match src__Subtotal_is_difference with
  | Some f => forall d els ids neg, wf_elems els ids -> negative_abs d = Some neg ->
      f (mkPySubtotal (JDict d) els) = Ok (negb (is_nil (kept_ids ids neg)))
  | None => True end.
Proof. exact gen__Subtotal_is_difference. Qed.
Print Assumptions C04_gen_dim__Subtotal_is_difference.

Theorem C04_gen_dim__Subtotals__element_ids :
  match src__Subtotals__element_ids with
  | Some f => forall js els fv ids, wf_elems els ids ->
      f (mkPySubtotals js els fv) = Ok (map jv_of_ident ids)
  | None => True end.
Proof. exact gen__Subtotals__element_ids. Qed.
Print Assumptions C04_gen_dim__Subtotals__element_ids.

Theorem C04_gen_dim__Subtotals__iter_valid_subtotal_dicts :
  match src__Subtotals__iter_valid_subtotal_dicts with
  | Some f => forall jsv js els fv ids, wf_elems els ids -> pj_iter jsv = Ok js ->
      Forall (fun j => insdict_of j <> None) js ->
      f (mkPySubtotals jsv els fv) = Ok (filter (valid_jv ids) js)
  | None => True end.
Proof. exact gen__Subtotals__iter_valid_subtotal_dicts. Qed.
Print Assumptions C04_gen_dim__Subtotals__iter_valid_subtotal_dicts.

End GenAgreeDimension_C04.
(*END GenAgreeDimension_C04*)
