(* Proofs/TransposeZscoreAll.v -- C10, residual z-scores: the block theorem of Proofs/TransposeStats.v
   without its side conditions.

   [zscores_block_T] assumed (a) a non-empty base block of the counts, (b) a non-empty block, (c) finite
   bases.  None is needed:
     (a) an empty base block is "defective" in either orientation (`not np.all(counts.shape)`), so both
         blocks are all NaN;
     (b) the statement is cell-wise, an empty block has no cell;
     (c) z is symmetric in the row base and the column base for ALL extended rationals (NaN, +-inf
         included): multiplication of extended rationals is associative and commutative. *)
From Coq Require Import QArith ZArith List Bool Lia Arith Setoid Morphisms Lqa.
From CC Require Import Base.XQ Base.ListX Model.Subtotals Model.Zscore Model.Transpose
  Proofs.TransposeAlgebra Proofs.TransposeStats.
Import ListNotations.
Local Close Scope Q_scope.
Local Open Scope nat_scope.

(* ---- multiplication of extended rationals is associative --------------------------------------- *)
Lemma qzero_mul p q : qzero (p * q)%Q = qzero p || qzero q.
Proof.
  apply eq_true_iff_eq. rewrite orb_true_iff, !qzero_true. split.
  - intros H. apply Qmult_integral in H. exact H.
  - intros [H|H]; rewrite H; ring.
Qed.

Lemma qneg_mul p q : qzero p = false -> qzero q = false -> qneg (p * q)%Q = xorb (qneg p) (qneg q).
Proof.
  intros Hp Hq. apply qzero_false in Hp, Hq.
  destruct (qneg p) eqn:Ep, (qneg q) eqn:Eq; simpl;
    try apply qneg_true in Ep; try apply qneg_true in Eq;
    try apply qneg_false in Ep; try apply qneg_false in Eq.
  - apply qneg_false. nra.
  - apply qneg_true.
    assert (0 < q)%Q by (destruct (Qle_lt_or_eq _ _ Eq) as [L|L]; [exact L| exfalso; apply Hq; symmetry; exact L]).
    nra.
  - apply qneg_true.
    assert (0 < p)%Q by (destruct (Qle_lt_or_eq _ _ Ep) as [L|L]; [exact L| exfalso; apply Hp; symmetry; exact L]).
    nra.
  - apply qneg_false. nra.
Qed.

Lemma xmul_assoc a b c : xmul a (xmul b c) =x= xmul (xmul a b) c.
Proof.
  destruct a as [p|s|], b as [q|t|], c as [r|u|]; simpl;
    repeat rewrite qzero_mul;
    try (destruct (qzero p) eqn:Zp); try (destruct (qzero q) eqn:Zq); try (destruct (qzero r) eqn:Zr);
    simpl; repeat rewrite qzero_mul; repeat rewrite Zp; repeat rewrite Zq; repeat rewrite Zr; simpl;
    try rewrite (qneg_mul p q) by assumption; try rewrite (qneg_mul q r) by assumption;
    try rewrite (qneg_mul p r) by assumption;
    auto; try ring;
    try (destruct s); try (destruct t); try (destruct u);
    try (destruct (qneg p)); try (destruct (qneg q)); try (destruct (qneg r)); simpl; auto.
Qed.

Lemma xmul_swap_r x a b : xmul (xmul x a) b =x= xmul (xmul x b) a.
Proof. rewrite <- !xmul_assoc. rewrite (xmul_comm a b). reflexivity. Qed.

(* ---- one cell, any bases ------------------------------------------------------------------------- *)
Lemma z_expected_sym_all r k t : z_expected k r t =x= z_expected r k t.
Proof. unfold z_expected. rewrite (xmul_comm k r). reflexivity. Qed.

Lemma z_variance_sym_all r k t : z_variance k r t =x= z_variance r k t.
Proof.
  unfold z_variance. apply xdiv_Proper; [|reflexivity].
  rewrite (xmul_comm k r). apply xmul_swap_r.
Qed.

Theorem z_zabs_sym_all c r k t : z_zabs c k r t =x= z_zabs c r k t.
Proof.
  unfold z_zabs, z_resid. cbv zeta.
  assert (E := z_expected_sym_all r k t). assert (W := z_variance_sym_all r k t).
  rewrite (xltb_Proper _ _ W (Fin 0) (Fin 0) (xeq_refl _)).
  destruct (xltb (z_variance r k t) (Fin 0)); [reflexivity|].
  rewrite E, W. reflexivity.
Qed.

(* ---- the guards of a possibly empty block ---------------------------------------------------------- *)
Lemma shape_empty_cols (m : mat) nr : shape m nr 0 -> 0 < nr -> ncols m = 0.
Proof. intros Sh H. apply (ncols_shape m nr 0 Sh H). Qed.

Lemma defective_empty n0 m0 bc : shape bc n0 m0 -> n0 = 0 \/ m0 = 0 -> defective bc = true.
Proof.
  intros Sh H. unfold defective. rewrite (nrows_shape _ _ _ Sh).
  destruct n0 as [|n0']; [reflexivity|]. destruct H as [H|H]; [discriminate|]. subst m0.
  rewrite (shape_empty_cols bc (Datatypes.S n0') Sh) by lia. reflexivity.
Qed.

(* ---- the block, all sizes, all values -------------------------------------------------------------- *)
Theorem zscores_block_T_all n0 m0 nr nc bc bcT c cT t tT r rT k kT :
  shape bc n0 m0 -> shape bcT m0 n0 -> MT bcT bc ->
  shape c nr nc -> shape cT nc nr -> shape t nr nc -> shape tT nc nr ->
  MT cT c -> MT tT t -> MT rT r -> MT kT k ->
  forall i j, i < nr -> j < nc ->
    mnth (zscores_block bcT cT tT kT rT) j i =x= mnth (zscores_block bc c t r k) i j.
Proof.
  intros Sb SbT Hb Sc ScT St StT Hc Ht Hr Hk i j Hi Hj.
  assert (Hnr : 0 < nr) by lia. assert (Hnc : 0 < nc) by lia.
  unfold zscores_block, zblock, nan_like.
  rewrite (nrows_shape _ _ _ Sc), (ncols_shape _ _ _ Sc Hnr),
          (nrows_shape _ _ _ ScT), (ncols_shape _ _ _ ScT Hnc).
  destruct (Nat.eq_dec n0 0) as [E0|E0]; [|destruct (Nat.eq_dec m0 0) as [E1|E1]].
  - rewrite (defective_empty n0 m0 bc Sb (or_introl E0)), (defective_empty m0 n0 bcT SbT (or_intror E0)).
    rewrite !tab2_mnth by assumption. reflexivity.
  - rewrite (defective_empty n0 m0 bc Sb (or_intror E1)), (defective_empty m0 n0 bcT SbT (or_introl E1)).
    rewrite !tab2_mnth by assumption. reflexivity.
  - rewrite (defective_T n0 m0 bc bcT) by (assumption || lia).
    destruct (defective bc).
    + rewrite !tab2_mnth by assumption. reflexivity.
    + rewrite (mall_eq_T nr nc t k tT kT) by assumption.
      rewrite (mall_eq_T nr nc t r tT rT) by assumption.
      rewrite (orb_comm (mall_eq t k)).
      destruct (mall_eq t r || mall_eq t k).
      * rewrite !tab2_mnth by assumption. reflexivity.
      * rewrite !tab2_mnth by assumption.
        rewrite (Hc i j), (Hk i j), (Hr i j), (Ht i j). apply z_zabs_sym_all.
Qed.
