(* Proofs/CubeCountsProofs.v -- the count classes of matrix/cubemeasure.py, applied to the
   tensor of a survey, are the respondent-level weighted counts of Spec/Survey.v.

   Every lemma is stated for a slice tensor V that satisfies [cell_spec]: V idx is the
   weighted number of respondents of a sub-population [pop] (the table element of a 3-D
   cube; everybody for a 2-D cube) who contribute the (valid-remapped) index.  The
   pipeline lemmas at the end show that the tensor the model extracts from
   [tabulate] ([take_valid], [slice_at]) satisfies [cell_spec]. *)
From Coq Require Import QArith ZArith List Bool Lia Arith Btauto Setoid Morphisms.
From CC Require Import Base.XQ Base.ListX Spec.Survey Model.CubeCounts.
Import ListNotations.
Local Close Scope Q_scope.
Local Open Scope nat_scope.

(* ------------------------------------------------------------------------------------ *)
(** * sums of finite values *)

Lemma xsumn_Fin n f g : (forall k, k < n -> f k = Fin (g k)) -> xsumn n f = Fin (qsumn n g).
Proof.
  intros H. unfold xsumn, qsumn. rewrite <- xsum_fin. f_equal. unfold tab.
  rewrite map_map. apply map_ext_in. intros k Hk. apply in_seq in Hk. apply H. lia.
Qed.

Lemma gsum_qsumn2 S n m (F : nat -> nat -> resp -> Q) :
  (qsumn n (fun i => qsumn m (fun j => gsum S (F i j)))
   == gsum S (fun r => qsumn n (fun i => qsumn m (fun j => F i j r))))%Q.
Proof.
  rewrite (qsumn_ext n _ (fun i => gsum S (fun r => qsumn m (fun j => F i j r)))).
  - apply gsum_qsumn.
  - intros i _. apply gsum_qsumn.
Qed.

(* sum of wsum's over an index range, one step *)
Lemma xsumn_wsum S n (f : nat -> xq) (P : nat -> resp -> bool) (R : resp -> bool) :
  (forall k, k < n -> f k = Fin (wsum S (P k))) ->
  (forall r, In r S -> (qsumn n (fun k => ind (P k r)) == ind (R r))%Q) ->
  xsumn n f =x= Fin (wsum S R).
Proof.
  intros Hf HP. rewrite (xsumn_Fin n f (fun k => wsum S (P k)) Hf). simpl.
  unfold wsum. rewrite gsum_qsumn. apply gsum_ext. exact HP.
Qed.

Lemma xsumn2_wsum S n m (f : nat -> nat -> xq) (P : nat -> nat -> resp -> bool) (R : resp -> bool) :
  (forall i j, i < n -> j < m -> f i j = Fin (wsum S (P i j))) ->
  (forall r, In r S ->
     (qsumn n (fun i => qsumn m (fun j => ind (P i j r))) == ind (R r))%Q) ->
  xsumn n (fun i => xsumn m (f i)) =x= Fin (wsum S R).
Proof.
  intros Hf HP.
  rewrite (xsumn_Fin n _ (fun i => qsumn m (fun j => wsum S (P i j)))).
  - simpl. unfold wsum. rewrite gsum_qsumn2. apply gsum_ext. exact HP.
  - intros i Hi. apply xsumn_Fin. intros j Hj. apply Hf; assumption.
Qed.

(* concrete short sums *)
Lemma qsumn_2 f : (qsumn 2 f == f O + (f 1%nat + 0))%Q.
Proof. unfold qsumn. simpl. reflexivity. Qed.
Lemma qsumn_3 f : (qsumn 3 f == f O + (f 1%nat + (f 2%nat + 0)))%Q.
Proof. unfold qsumn. simpl. reflexivity. Qed.

(* ------------------------------------------------------------------------------------ *)
(** * the specification of a slice tensor *)

Definition cell_spec (S : survey) (pop : resp -> bool) (rc : cubevars)
           (vs : list (list nat)) (V : tensor) : Prop :=
  forall idx, V idx = Fin (wsum S (fun r => pop r && contributes_all rc r (remap vs idx))).

Lemma ltb_true a b : a < b -> (a <? b) = true.
Proof. intros H. apply Nat.ltb_lt. exact H. Qed.

Definition mrv : list nat := valid_idxs mr_cat_missing.
Lemma mrv_eq : mrv = [0; 1].
Proof. reflexivity. Qed.

Ltac mrcases :=
  repeat match goal with
         | |- context [mstate ?a ?k] => destruct (mstate a k)
         end.

(* ------------------------------------------------------------------------------------ *)
(** * CAT x CAT *)

Section CatCat.
  Variable S : survey.
  Variable pop : resp -> bool.
  Variables vr vc : nat.
  Variables mr mc : list bool.
  Variable V : tensor.
  Hypothesis HV : cell_spec S pop [(vr, KCat); (vc, KCat)] [valid_idxs mr; valid_idxs mc] V.
  Let nr := length (valid_idxs mr).
  Let nc := length (valid_idxs mc).

  Lemma cc_cell i j :
    V [i; j] = Fin (wsum S (fun r => pop r && (oeqb (acat (ans r vr)) (nth i (valid_idxs mr) 0)
                      && (oeqb (acat (ans r vc)) (nth j (valid_idxs mc) 0) && true)))).
  Proof. rewrite HV. reflexivity. Qed.

  Lemma cc_counts_spec i j : i < nr -> j < nc ->
    cc_counts V i j =x=
    Fin (wsum S (fun r => pop r && in_cat mr (ans r vr) i && in_cat mc (ans r vc) j)).
  Proof.
    intros Hi Hj. unfold cc_counts. rewrite cc_cell. simpl. apply wsum_ext. intros r _.
    unfold in_cat. fold nr nc. rewrite (ltb_true _ _ Hi), (ltb_true _ _ Hj). btauto.
  Qed.

  Lemma cc_rows_base_spec i : i < nr ->
    cc_rows_base V nc i =x=
    Fin (wsum S (fun r => pop r && in_cat mr (ans r vr) i && ok_cat mc (ans r vc))).
  Proof.
    intros Hi. unfold cc_rows_base.
    apply (xsumn_wsum S nc _ (fun j r => pop r && (oeqb (acat (ans r vr)) (nth i (valid_idxs mr) 0)
                      && (oeqb (acat (ans r vc)) (nth j (valid_idxs mc) 0) && true)))).
    - intros j _. apply cc_cell.
    - intros r _. unfold nc.
      rewrite (qsumn_ind_onehot mc (acat (ans r vc))
                 (pop r && oeqb (acat (ans r vr)) (nth i (valid_idxs mr) 0))).
      + unfold in_cat, ok_cat. fold nr. rewrite (ltb_true _ _ Hi). simpl. reflexivity.
      + intros j. btauto.
  Qed.

  Lemma cc_columns_base_spec j : j < nc ->
    cc_columns_base V nr j =x=
    Fin (wsum S (fun r => pop r && ok_cat mr (ans r vr) && in_cat mc (ans r vc) j)).
  Proof.
    intros Hj. unfold cc_columns_base.
    apply (xsumn_wsum S nr _ (fun i r => pop r && (oeqb (acat (ans r vr)) (nth i (valid_idxs mr) 0)
                      && (oeqb (acat (ans r vc)) (nth j (valid_idxs mc) 0) && true)))).
    - intros i _. apply cc_cell.
    - intros r _. unfold nr.
      rewrite (qsumn_ind_onehot mr (acat (ans r vr))
                 (pop r && oeqb (acat (ans r vc)) (nth j (valid_idxs mc) 0))).
      + unfold in_cat, ok_cat. fold nc. rewrite (ltb_true _ _ Hj). simpl.
        match goal with |- (ind ?a == ind ?b)%Q => replace a with b by btauto end. reflexivity.
      + intros i. btauto.
  Qed.

  Lemma cc_table_base_spec :
    cc_table_base V nr nc =x=
    Fin (wsum S (fun r => pop r && ok_cat mr (ans r vr) && ok_cat mc (ans r vc))).
  Proof.
    unfold cc_table_base.
    apply (xsumn2_wsum S nr nc _ (fun i j r => pop r && (oeqb (acat (ans r vr)) (nth i (valid_idxs mr) 0)
                      && (oeqb (acat (ans r vc)) (nth j (valid_idxs mc) 0) && true)))).
    - intros i j _ _. apply cc_cell.
    - intros r _.
      rewrite (qsumn_ext nr _ (fun i => ind ((pop r && ok_catb mc (acat (ans r vc)))
                                          && oeqb (acat (ans r vr)) (nth i (valid_idxs mr) 0)))).
      + unfold nr. rewrite (qsumn_ind_onehot mr (acat (ans r vr)) (pop r && ok_catb mc (acat (ans r vc)))).
        * unfold ok_cat.
          match goal with |- (ind ?a == ind ?b)%Q => replace a with b by btauto end. reflexivity.
        * intros i. reflexivity.
      + intros i _. unfold nc.
        rewrite (qsumn_ind_onehot mc (acat (ans r vc))
                   (pop r && oeqb (acat (ans r vr)) (nth i (valid_idxs mr) 0))).
        * match goal with |- (ind ?a == ind ?b)%Q => replace a with b by btauto end. reflexivity.
        * intros j. btauto.
  Qed.
End CatCat.

(* close a pointwise goal about indicators once every atom is a constant *)
Ltac ind_done := vm_compute; reflexivity.

(* ------------------------------------------------------------------------------------ *)
(** * CAT x MR *)

Section CatMr.
  Variable S : survey.
  Variable pop : resp -> bool.
  Variables vr vc : nat.
  Variables mr mc : list bool.
  Variable V : tensor.
  Hypothesis HV : cell_spec S pop [(vr, KCat); (vc, KMr)] [valid_idxs mr; valid_idxs mc; mrv] V.
  Let nr := length (valid_idxs mr).
  Let nc := length (valid_idxs mc).

  Lemma cm_cell i j s :
    V [i; j; s] = Fin (wsum S (fun r => pop r && (oeqb (acat (ans r vr)) (nth i (valid_idxs mr) 0)
         && ((code (mstate (ans r vc) (nth j (valid_idxs mc) 0)) =? nth s mrv 0) && true)))).
  Proof. rewrite HV. reflexivity. Qed.

  Lemma cm_counts_spec i j : i < nr ->
    cm_counts V i j =x=
    Fin (wsum S (fun r => pop r && in_cat mr (ans r vr) i && in_mr mc (ans r vc) j)).
  Proof.
    intros Hi. unfold cm_counts. rewrite cm_cell. simpl. apply wsum_ext. intros r _.
    unfold in_cat, in_mr. fold nr. rewrite (ltb_true _ _ Hi).
    destruct (mstate (ans r vc) (nth j (valid_idxs mc) 0)); simpl; btauto.
  Qed.

  Lemma cm_columns_base_spec j :
    cm_columns_base V nr j =x=
    Fin (wsum S (fun r => pop r && ok_cat mr (ans r vr) && in_mr mc (ans r vc) j)).
  Proof.
    unfold cm_columns_base.
    apply (xsumn_wsum S nr _ (fun i r => pop r && (oeqb (acat (ans r vr)) (nth i (valid_idxs mr) 0)
         && ((code (mstate (ans r vc) (nth j (valid_idxs mc) 0)) =? nth 0 mrv 0) && true)))).
    - intros i _. apply cm_cell.
    - intros r _. unfold nr.
      rewrite (qsumn_ind_onehot mr (acat (ans r vr))
                 (pop r && in_mr mc (ans r vc) j)).
      + unfold ok_cat.
        match goal with |- (ind ?a == ind ?b)%Q => replace a with b by btauto end. reflexivity.
      + intros i. unfold in_mr.
        destruct (mstate (ans r vc) (nth j (valid_idxs mc) 0)); simpl; btauto.
  Qed.

  Lemma cm_row_bases_spec i j : i < nr ->
    cm_row_bases V (length mrv) i j =x=
    Fin (wsum S (fun r => pop r && in_cat mr (ans r vr) i && ok_mr mc (ans r vc) j)).
  Proof.
    intros Hi. unfold cm_row_bases.
    apply (xsumn_wsum S (length mrv) _ (fun s r => pop r && (oeqb (acat (ans r vr)) (nth i (valid_idxs mr) 0)
         && ((code (mstate (ans r vc) (nth j (valid_idxs mc) 0)) =? nth s mrv 0) && true)))).
    - intros s _. apply cm_cell.
    - intros r _. change (length mrv) with 2. rewrite qsumn_2.
      unfold in_cat, ok_mr. fold nr. rewrite (ltb_true _ _ Hi).
      destruct (mstate (ans r vc) (nth j (valid_idxs mc) 0)), (pop r),
        (oeqb (acat (ans r vr)) (nth i (valid_idxs mr) 0)); ind_done.
  Qed.

  Lemma cm_columns_table_base_spec j :
    cm_columns_table_base V nr (length mrv) j =x=
    Fin (wsum S (fun r => pop r && ok_cat mr (ans r vr) && ok_mr mc (ans r vc) j)).
  Proof.
    unfold cm_columns_table_base.
    apply (xsumn2_wsum S nr (length mrv) _ (fun i s r => pop r && (oeqb (acat (ans r vr)) (nth i (valid_idxs mr) 0)
         && ((code (mstate (ans r vc) (nth j (valid_idxs mc) 0)) =? nth s mrv 0) && true)))).
    - intros i s _ _. apply cm_cell.
    - intros r _.
      rewrite (qsumn_ext nr _ (fun i => ind ((pop r && ok_mr mc (ans r vc) j)
                                          && oeqb (acat (ans r vr)) (nth i (valid_idxs mr) 0)))).
      + unfold nr. rewrite (qsumn_ind_onehot mr (acat (ans r vr)) (pop r && ok_mr mc (ans r vc) j)).
        * unfold ok_cat.
          match goal with |- (ind ?a == ind ?b)%Q => replace a with b by btauto end. reflexivity.
        * intros i. reflexivity.
      + intros i _. change (length mrv) with 2. rewrite qsumn_2. unfold ok_mr.
        destruct (mstate (ans r vc) (nth j (valid_idxs mc) 0)), (pop r),
          (oeqb (acat (ans r vr)) (nth i (valid_idxs mr) 0)); ind_done.
  Qed.
End CatMr.

(* ------------------------------------------------------------------------------------ *)
(** * MR x CAT *)

Section MrCat.
  Variable S : survey.
  Variable pop : resp -> bool.
  Variables vr vc : nat.
  Variables mr mc : list bool.
  Variable V : tensor.
  Hypothesis HV : cell_spec S pop [(vr, KMr); (vc, KCat)] [valid_idxs mr; mrv; valid_idxs mc] V.
  Let nr := length (valid_idxs mr).
  Let nc := length (valid_idxs mc).

  Lemma mc_cell i s j :
    V [i; s; j] = Fin (wsum S (fun r => pop r &&
         ((code (mstate (ans r vr) (nth i (valid_idxs mr) 0)) =? nth s mrv 0)
          && (oeqb (acat (ans r vc)) (nth j (valid_idxs mc) 0) && true)))).
  Proof. rewrite HV. reflexivity. Qed.

  Lemma mc_counts_spec i j : j < nc ->
    mc_counts V i j =x=
    Fin (wsum S (fun r => pop r && in_mr mr (ans r vr) i && in_cat mc (ans r vc) j)).
  Proof.
    intros Hj. unfold mc_counts. rewrite mc_cell. simpl. apply wsum_ext. intros r _.
    unfold in_cat, in_mr. fold nc. rewrite (ltb_true _ _ Hj).
    destruct (mstate (ans r vr) (nth i (valid_idxs mr) 0)); simpl; btauto.
  Qed.

  Lemma mc_column_bases_spec i j : j < nc ->
    mc_column_bases V (length mrv) i j =x=
    Fin (wsum S (fun r => pop r && ok_mr mr (ans r vr) i && in_cat mc (ans r vc) j)).
  Proof.
    intros Hj. unfold mc_column_bases.
    apply (xsumn_wsum S (length mrv) _ (fun s r => pop r &&
         ((code (mstate (ans r vr) (nth i (valid_idxs mr) 0)) =? nth s mrv 0)
          && (oeqb (acat (ans r vc)) (nth j (valid_idxs mc) 0) && true)))).
    - intros s _. apply mc_cell.
    - intros r _. change (length mrv) with 2. rewrite qsumn_2.
      unfold in_cat, ok_mr. fold nc. rewrite (ltb_true _ _ Hj).
      destruct (mstate (ans r vr) (nth i (valid_idxs mr) 0)), (pop r),
        (oeqb (acat (ans r vc)) (nth j (valid_idxs mc) 0)); ind_done.
  Qed.

  Lemma mc_rows_base_spec i :
    mc_rows_base V nc i =x=
    Fin (wsum S (fun r => pop r && in_mr mr (ans r vr) i && ok_cat mc (ans r vc))).
  Proof.
    unfold mc_rows_base.
    apply (xsumn_wsum S nc _ (fun j r => pop r &&
         ((code (mstate (ans r vr) (nth i (valid_idxs mr) 0)) =? nth 0 mrv 0)
          && (oeqb (acat (ans r vc)) (nth j (valid_idxs mc) 0) && true)))).
    - intros j _. apply mc_cell.
    - intros r _. unfold nc.
      rewrite (qsumn_ind_onehot mc (acat (ans r vc)) (pop r && in_mr mr (ans r vr) i)).
      + unfold ok_cat. reflexivity.
      + intros j. unfold in_mr.
        destruct (mstate (ans r vr) (nth i (valid_idxs mr) 0)); simpl; btauto.
  Qed.

  Lemma mc_rows_table_base_spec i :
    mc_rows_table_base V nc (length mrv) i =x=
    Fin (wsum S (fun r => pop r && ok_mr mr (ans r vr) i && ok_cat mc (ans r vc))).
  Proof.
    unfold mc_rows_table_base.
    apply (xsumn2_wsum S (length mrv) nc _ (fun s j r => pop r &&
         ((code (mstate (ans r vr) (nth i (valid_idxs mr) 0)) =? nth s mrv 0)
          && (oeqb (acat (ans r vc)) (nth j (valid_idxs mc) 0) && true)))).
    - intros s j _ _. apply mc_cell.
    - intros r _.
      rewrite (qsumn_ext (length mrv) _
                 (fun s => ind ((pop r && (code (mstate (ans r vr) (nth i (valid_idxs mr) 0)) =? nth s mrv 0))
                                && ok_catb mc (acat (ans r vc))))).
      + change (length mrv) with 2. rewrite qsumn_2. unfold ok_mr, ok_cat.
        destruct (mstate (ans r vr) (nth i (valid_idxs mr) 0)), (pop r),
          (ok_catb mc (acat (ans r vc))); ind_done.
      + intros s _. unfold nc.
        apply (qsumn_ind_onehot mc (acat (ans r vc))).
        intros j. btauto.
  Qed.
End MrCat.

(* ------------------------------------------------------------------------------------ *)
(** * MR x MR *)

Section MrMr.
  Variable S : survey.
  Variable pop : resp -> bool.
  Variables vr vc : nat.
  Variables mr mc : list bool.
  Variable V : tensor.
  Hypothesis HV : cell_spec S pop [(vr, KMr); (vc, KMr)] [valid_idxs mr; mrv; valid_idxs mc; mrv] V.

  Lemma mm_cell i s j t :
    V [i; s; j; t] = Fin (wsum S (fun r => pop r &&
         ((code (mstate (ans r vr) (nth i (valid_idxs mr) 0)) =? nth s mrv 0)
          && ((code (mstate (ans r vc) (nth j (valid_idxs mc) 0)) =? nth t mrv 0) && true)))).
  Proof. rewrite HV. reflexivity. Qed.

  Lemma mm_counts_spec i j :
    mm_counts V i j =x=
    Fin (wsum S (fun r => pop r && in_mr mr (ans r vr) i && in_mr mc (ans r vc) j)).
  Proof.
    unfold mm_counts. rewrite mm_cell. simpl. apply wsum_ext. intros r _.
    unfold in_mr.
    destruct (mstate (ans r vr) (nth i (valid_idxs mr) 0)),
      (mstate (ans r vc) (nth j (valid_idxs mc) 0)); simpl; btauto.
  Qed.

  Lemma mm_column_bases_spec i j :
    mm_column_bases V (length mrv) i j =x=
    Fin (wsum S (fun r => pop r && ok_mr mr (ans r vr) i && in_mr mc (ans r vc) j)).
  Proof.
    unfold mm_column_bases.
    apply (xsumn_wsum S (length mrv) _ (fun s r => pop r &&
         ((code (mstate (ans r vr) (nth i (valid_idxs mr) 0)) =? nth s mrv 0)
          && ((code (mstate (ans r vc) (nth j (valid_idxs mc) 0)) =? nth 0 mrv 0) && true)))).
    - intros s _. apply mm_cell.
    - intros r _. change (length mrv) with 2. rewrite qsumn_2. unfold ok_mr, in_mr.
      destruct (mstate (ans r vr) (nth i (valid_idxs mr) 0)),
        (mstate (ans r vc) (nth j (valid_idxs mc) 0)), (pop r); ind_done.
  Qed.

  Lemma mm_row_bases_spec i j :
    mm_row_bases V (length mrv) i j =x=
    Fin (wsum S (fun r => pop r && in_mr mr (ans r vr) i && ok_mr mc (ans r vc) j)).
  Proof.
    unfold mm_row_bases.
    apply (xsumn_wsum S (length mrv) _ (fun t r => pop r &&
         ((code (mstate (ans r vr) (nth i (valid_idxs mr) 0)) =? nth 0 mrv 0)
          && ((code (mstate (ans r vc) (nth j (valid_idxs mc) 0)) =? nth t mrv 0) && true)))).
    - intros t _. apply mm_cell.
    - intros r _. change (length mrv) with 2. rewrite qsumn_2. unfold ok_mr, in_mr.
      destruct (mstate (ans r vr) (nth i (valid_idxs mr) 0)),
        (mstate (ans r vc) (nth j (valid_idxs mc) 0)), (pop r); ind_done.
  Qed.

  Lemma mm_table_bases_spec i j :
    mm_table_bases V (length mrv) (length mrv) i j =x=
    Fin (wsum S (fun r => pop r && ok_mr mr (ans r vr) i && ok_mr mc (ans r vc) j)).
  Proof.
    unfold mm_table_bases.
    apply (xsumn2_wsum S (length mrv) (length mrv) _ (fun s t r => pop r &&
         ((code (mstate (ans r vr) (nth i (valid_idxs mr) 0)) =? nth s mrv 0)
          && ((code (mstate (ans r vc) (nth j (valid_idxs mc) 0)) =? nth t mrv 0) && true)))).
    - intros s t _ _. apply mm_cell.
    - intros r _. change (length mrv) with 2. rewrite qsumn_2.
      rewrite !qsumn_2. unfold ok_mr.
      destruct (mstate (ans r vr) (nth i (valid_idxs mr) 0)),
        (mstate (ans r vc) (nth j (valid_idxs mc) 0)), (pop r); ind_done.
  Qed.
End MrMr.

(* ------------------------------------------------------------------------------------ *)
(** * The pipeline: tabulate -> Cube._valid_idxs -> _slice_idx_expr -> class extractor *)

(* the dimensions a variable of each kind contributes to the response *)
Definition dims_of (k : kind) (ms : list bool) : list dimd :=
  match k with
  | KCat => [mkDim DCat ms]
  | KMr => [mkDim DMrSubvar ms; mkDim DMrCat mr_cat_missing]
  | KArr => [mkDim DCaSubvar ms]
  end.
Definition kcls (k : kind) : cls := match k with KCat => CCat | KMr => CMr | KArr => CArr end.
Definition cat_or_mr (k : kind) : Prop := k = KCat \/ k = KMr.

(* optional table variable of a 3-D cube: (variable, kind, missing flags) *)
Definition tvar := option (nat * kind * list bool).
Definition tvars (tv : tvar) : cubevars := match tv with None => [] | Some (v, k, _) => [(v, k)] end.
Definition tdims (tv : tvar) : list dimd := match tv with None => [] | Some (_, k, ms) => dims_of k ms end.
Definition t_is_mr (tv : tvar) : bool := match tv with Some (_, KMr, _) => true | _ => false end.
Definition t_ok (tv : tvar) : Prop := match tv with None => True | Some (_, k, _) => cat_or_mr k end.
(* number of partitions *)
Definition t_n (tv : tvar) : nat := match tv with None => 1 | Some (_, _, ms) => length (valid_idxs ms) end.
(* the sub-population of partition k: members of the k-th valid table element *)
Definition pop_of (tv : tvar) (k : nat) (r : resp) : bool :=
  match tv with None => true | Some (v, kd, ms) => in_el kd ms (ans r v) k end.
Definition pop_raw (tv : tvar) (k : nat) (r : resp) : bool :=
  match tv with
  | None => true
  | Some (v, kd, ms) => contributes kd (ans r v)
                          (match kd with KCat => [nth k (valid_idxs ms) 0]
                                       | _ => [nth k (valid_idxs ms) 0; 0] end)
  end.

Lemma pop_raw_eq tv k r : t_ok tv -> k < t_n tv -> pop_raw tv k r = pop_of tv k r.
Proof.
  destruct tv as [[[v kd] ms]|]; [|reflexivity]. simpl. intros [-> | ->] Hk; simpl.
  - unfold in_cat. rewrite (ltb_true _ _ Hk). reflexivity.
  - unfold in_mr. destruct (mstate (ans r v) (nth k (valid_idxs ms) 0)); reflexivity.
Qed.

Definition cube_dims (tv : tvar) kr mr kc mc : list dimd := tdims tv ++ dims_of kr mr ++ dims_of kc mc.
Definition cube_vars (tv : tvar) vr kr vc kc : cubevars := tvars tv ++ [(vr, kr); (vc, kc)].
(* the raw tensor of the survey *)
Definition raw_of (vars : cubevars) (S : survey) : tensor := fun idx => Fin (tabulate vars S idx).
(* what _BaseCubeCounts.factory hands to the class: counts[valid][slice_idx_expr] *)
Definition slice_of (tv : tvar) vr kr mr vc kc mc (S : survey) (k : nat) : tensor :=
  let ds := cube_dims tv kr mr kc mc in
  slice_at (length (apparent ds)) (t_is_mr tv) k
           (take_valid ds (raw_of (cube_vars tv vr kr vc kc) S)).

Lemma slice_of_cell_spec tv vr kr mr vc kc mc S k :
  t_ok tv -> cat_or_mr kr -> cat_or_mr kc ->
  cell_spec S (pop_raw tv k) [(vr, kr); (vc, kc)]
            (map dvalid (dims_of kr mr ++ dims_of kc mc))
            (slice_of tv vr kr mr vc kc mc S k).
Proof.
  intros Ht Hr Hc idx.
  destruct tv as [[[vt kt] mt]|]; simpl in Ht.
  - destruct Ht as [-> | ->], Hr as [-> | ->], Hc as [-> | ->]; reflexivity.
  - destruct Hr as [-> | ->], Hc as [-> | ->]; reflexivity.
Qed.

(* number of valid elements (rows / columns) of a variable *)
Definition nval (ms : list bool) : nat := length (valid_idxs ms).

Lemma wsum_pop_eq S tv k (P : resp -> bool) :
  t_ok tv -> k < t_n tv ->
  Fin (wsum S (fun r => pop_raw tv k r && P r)) =x= Fin (wsum S (fun r => pop_of tv k r && P r)).
Proof.
  intros Ht Hk. simpl. apply wsum_ext. intros r _. rewrite (pop_raw_eq tv k r Ht Hk). reflexivity.
Qed.

Ltac pop_fix Ht Hk :=
  match goal with
  | |- _ =x= Fin (wsum ?S (fun r => pop_of ?tv ?k r && @?A r && @?B r)) =>
      transitivity (Fin (wsum S (fun r => pop_raw tv k r && A r && B r)));
      [| simpl; apply wsum_ext; intros r _; rewrite (pop_raw_eq tv k r Ht Hk); reflexivity]
  end.

Section Dispatch.
  Variable S : survey.
  Variable tv : tvar.
  Variables vr vc : nat.
  Variables kr kc : kind.
  Variables mr mc : list bool.
  Variable k : nat.
  Hypothesis Ht : t_ok tv.
  Hypothesis Hr : cat_or_mr kr.
  Hypothesis Hc : cat_or_mr kc.
  Hypothesis Hk : k < t_n tv.
  Let V := slice_of tv vr kr mr vc kc mc S k.
  Let nr := nval mr.
  Let nc := nval mc.
  Let sr := length mrv.
  Let sc := length mrv.

  (* counts i j = w(table element k, row element i, column element j) *)
  Theorem counts_of_spec i j : i < nr -> j < nc ->
    counts_of V (kcls kr) (kcls kc) i j =x=
    Fin (wsum S (fun r => pop_of tv k r && in_el kr mr (ans r vr) i && in_el kc mc (ans r vc) j)).
  Proof.
    intros Hi Hj. pop_fix Ht Hk.
    pose proof (slice_of_cell_spec tv vr kr mr vc kc mc S k Ht Hr Hc) as HV. fold V in HV.
    destruct Hr as [-> | ->], Hc as [-> | ->]; simpl kcls; simpl counts_of; simpl in_el.
    - apply (cc_counts_spec S _ vr vc mr mc V HV i j Hi Hj).
    - apply (cm_counts_spec S _ vr vc mr mc V HV i j Hi).
    - apply (mc_counts_spec S _ vr vc mr mc V HV i j Hj).
    - apply (mm_counts_spec S _ vr vc mr mc V HV i j).
  Qed.

  (* row base = w(table element k, row element i, eligible for column element j) *)
  Theorem row_bases_of_spec i j : i < nr -> j < nc ->
    row_bases_of V nc sc (kcls kr) (kcls kc) i j =x=
    Fin (wsum S (fun r => pop_of tv k r && in_el kr mr (ans r vr) i && ok_el kc mc (ans r vc) j)).
  Proof.
    intros Hi Hj. pop_fix Ht Hk.
    pose proof (slice_of_cell_spec tv vr kr mr vc kc mc S k Ht Hr Hc) as HV. fold V in HV.
    destruct Hr as [-> | ->], Hc as [-> | ->]; simpl kcls; simpl row_bases_of; simpl in_el; simpl ok_el.
    - apply (cc_rows_base_spec S _ vr vc mr mc V HV i Hi).
    - apply (cm_row_bases_spec S _ vr vc mr mc V HV i j Hi).
    - apply (mc_rows_base_spec S _ vr vc mr mc V HV i).
    - apply (mm_row_bases_spec S _ vr vc mr mc V HV i j).
  Qed.

  (* column base = w(table element k, eligible for row element i, column element j) *)
  Theorem column_bases_of_spec i j : i < nr -> j < nc ->
    column_bases_of V nr sr (kcls kr) (kcls kc) i j =x=
    Fin (wsum S (fun r => pop_of tv k r && ok_el kr mr (ans r vr) i && in_el kc mc (ans r vc) j)).
  Proof.
    intros Hi Hj. pop_fix Ht Hk.
    pose proof (slice_of_cell_spec tv vr kr mr vc kc mc S k Ht Hr Hc) as HV. fold V in HV.
    destruct Hr as [-> | ->], Hc as [-> | ->]; simpl kcls; simpl column_bases_of; simpl in_el; simpl ok_el.
    - apply (cc_columns_base_spec S _ vr vc mr mc V HV j Hj).
    - apply (cm_columns_base_spec S _ vr vc mr mc V HV j).
    - apply (mc_column_bases_spec S _ vr vc mr mc V HV i j Hj).
    - apply (mm_column_bases_spec S _ vr vc mr mc V HV i j).
  Qed.

  (* table base = w(table element k, eligible for row element i and column element j) *)
  Theorem table_bases_of_spec i j : i < nr -> j < nc ->
    table_bases_of V nr nc sr sc (kcls kr) (kcls kc) i j =x=
    Fin (wsum S (fun r => pop_of tv k r && ok_el kr mr (ans r vr) i && ok_el kc mc (ans r vc) j)).
  Proof.
    intros Hi Hj. pop_fix Ht Hk.
    pose proof (slice_of_cell_spec tv vr kr mr vc kc mc S k Ht Hr Hc) as HV. fold V in HV.
    destruct Hr as [-> | ->], Hc as [-> | ->]; simpl kcls; simpl table_bases_of; simpl ok_el.
    - apply (cc_table_base_spec S _ vr vc mr mc V HV).
    - apply (cm_columns_table_base_spec S _ vr vc mr mc V HV j).
    - apply (mc_rows_table_base_spec S _ vr vc mr mc V HV i).
    - apply (mm_table_bases_spec S _ vr vc mr mc V HV i j).
  Qed.
End Dispatch.

(* ------------------------------------------------------------------------------------ *)
(** * Strands (1-D cubes): stripe/cubemeasure.py *)

Section Strand.
  Variable S : survey.
  Variable v : nat.
  Variable ms : list bool.

  Lemma strand_cat_counts_spec i : i < nval ms ->
    sc_counts (take_valid (dims_of KCat ms) (raw_of [(v, KCat)] S)) i =x=
    Fin (wsum S (fun r => in_cat ms (ans r v) i)).
  Proof.
    intros Hi. unfold sc_counts, take_valid, raw_of, tabulate. simpl. apply wsum_ext. intros r _.
    unfold in_cat, dvalid. simpl dmiss. unfold nval in Hi. rewrite (ltb_true _ _ Hi). btauto.
  Qed.

  Lemma strand_cat_table_base_spec :
    sc_table_base (take_valid (dims_of KCat ms) (raw_of [(v, KCat)] S)) (nval ms) =x=
    Fin (wsum S (fun r => ok_cat ms (ans r v))).
  Proof.
    unfold sc_table_base.
    apply (xsumn_wsum S (nval ms) _ (fun i r => oeqb (acat (ans r v)) (nth i (valid_idxs ms) 0) && true)).
    - intros i _. reflexivity.
    - intros r _. unfold nval.
      rewrite (qsumn_ind_onehot ms (acat (ans r v)) true).
      + reflexivity.
      + intros i. btauto.
  Qed.

  Lemma strand_mr_counts_spec i :
    sm_counts (take_valid (dims_of KMr ms) (raw_of [(v, KMr)] S)) i =x=
    Fin (wsum S (fun r => in_mr ms (ans r v) i)).
  Proof.
    unfold sm_counts, take_valid, raw_of, tabulate. simpl. apply wsum_ext. intros r _.
    unfold in_mr, dvalid. simpl dmiss.
    destruct (mstate (ans r v) (nth i (valid_idxs ms) 0)); reflexivity.
  Qed.

  Lemma strand_mr_bases_spec i :
    sm_bases (take_valid (dims_of KMr ms) (raw_of [(v, KMr)] S)) (length mrv) i =x=
    Fin (wsum S (fun r => ok_mr ms (ans r v) i)).
  Proof.
    unfold sm_bases.
    apply (xsumn_wsum S (length mrv) _
             (fun t r => (code (mstate (ans r v) (nth i (valid_idxs ms) 0)) =? nth t mrv 0) && true)).
    - intros t _. reflexivity.
    - intros r _. change (length mrv) with 2. rewrite qsumn_2. unfold ok_mr.
      destruct (mstate (ans r v) (nth i (valid_idxs ms) 0)); ind_done.
  Qed.
End Strand.

(* ------------------------------------------------------------------------------------ *)
(** * Missing categories never contribute *)

Lemma in_cat_true ms a i :
  in_cat ms a i = true ->
  exists c, acat a = Some c /\ c = nth i (valid_idxs ms) 0 /\ c < length ms /\ nth c ms true = false.
Proof.
  unfold in_cat. intros H. apply andb_true_iff in H. destruct H as [Hi H].
  apply Nat.ltb_lt in Hi. destruct (acat a) as [c|]; [|discriminate]. simpl in H.
  apply Nat.eqb_eq in H. exists c. split; [reflexivity|]. split; [exact H|].
  apply valid_idxs_In. rewrite H. apply nth_In. exact Hi.
Qed.

Lemma missing_category_excluded ms a c :
  acat a = Some c -> nth c ms true = true ->
  (forall i, in_cat ms a i = false) /\ ok_cat ms a = false.
Proof.
  intros Ha Hm. split.
  - intros i. destruct (in_cat ms a i) eqn:E; [|reflexivity].
    apply in_cat_true in E. destruct E as [c' [Hc' [_ [_ Hn]]]]. congruence.
  - unfold ok_cat. rewrite Ha. simpl. rewrite Hm. apply andb_false_r.
Qed.

(* the i-th output element is a different payload element for different i *)
Lemma valid_idxs_inj ms i j :
  i < nval ms -> j < nval ms -> nth i (valid_idxs ms) 0 = nth j (valid_idxs ms) 0 -> i = j.
Proof.
  intros Hi Hj H. apply (proj1 (NoDup_nth (valid_idxs ms) 0) (valid_idxs_NoDup ms)); assumption.
Qed.

(* a respondent belongs to at most one valid category *)
Lemma in_cat_unique ms a i j : in_cat ms a i = true -> in_cat ms a j = true -> i = j.
Proof.
  intros Hi Hj.
  assert (Li : i < nval ms) by (unfold in_cat in Hi; apply andb_true_iff in Hi; destruct Hi as [H _]; apply Nat.ltb_lt in H; exact H).
  assert (Lj : j < nval ms) by (unfold in_cat in Hj; apply andb_true_iff in Hj; destruct Hj as [H _]; apply Nat.ltb_lt in H; exact H).
  apply in_cat_true in Hi. apply in_cat_true in Hj.
  destruct Hi as [c [Hc [Ec _]]]. destruct Hj as [c' [Hc' [Ec' _]]].
  apply (valid_idxs_inj ms i j Li Lj). congruence.
Qed.

(* ------------------------------------------------------------------------------------ *)
(** * Unweighted counts are head counts *)

Lemma wsum_unit_headcount S (P : resp -> bool) :
  (forall r w, P (mkResp (answers r) w) = P r) ->
  (wsum (unit_weights S) P == inject_Z (Z.of_nat (length (filter P S))))%Q.
Proof.
  intros HP. induction S as [|r S IH]; [reflexivity|].
  unfold wsum in *. simpl. rewrite IH. rewrite HP. destruct (P r); simpl.
  - rewrite Zpos_P_of_succ_nat. unfold Z.succ. rewrite inject_Z_plus. ring.
  - ring.
Qed.

(* ------------------------------------------------------------------------------------ *)
(** * Pass-through measures and the payload layout *)

Inductive jcell := JNum (q : Q) | JUnavailable.      (* a number, or {"?": code} *)
Definition cell_value (c : jcell) : xq := match c with JNum q => Fin q | JUnavailable => NaN end.

Lemma of_flat_cell shape (payload : list jcell) idx :
  in_boundsb shape idx = true ->
  of_flat shape (map cell_value payload) idx
  = match nth_error payload (offset shape idx 0) with
    | Some c => cell_value c
    | None => NaN
    end.
Proof.
  intros H. unfold of_flat. rewrite H.
  destruct (nth_error payload (offset shape idx 0)) as [c|] eqn:E.
  - apply (nth_error_nth (map cell_value payload) (offset shape idx 0) NaN).
    rewrite nth_error_map, E. reflexivity.
  - apply nth_error_None in E. apply nth_overflow. rewrite map_length. exact E.
Qed.

Lemma offset_acc shape idx acc :
  length shape = length idx ->
  offset shape idx acc = acc * fold_right Nat.mul 1 shape + offset shape idx 0.
Proof.
  revert idx acc. induction shape as [|n sh IH]; intros idx acc H; destruct idx as [|i ix]; simpl in *; try discriminate.
  - lia.
  - injection H as H. rewrite (IH ix (acc * n + i) H), (IH ix i H). lia.
Qed.

Lemma in_boundsb_length shape idx : in_boundsb shape idx = true -> length shape = length idx.
Proof.
  revert idx. induction shape as [|n sh IH]; intros [|i ix] H; simpl in *; try discriminate;
    [reflexivity|].
  apply andb_true_iff in H. destruct H as [_ H]. f_equal. apply IH. exact H.
Qed.

Lemma offset_lt shape idx :
  in_boundsb shape idx = true -> offset shape idx 0 < fold_right Nat.mul 1 shape.
Proof.
  revert idx. induction shape as [|n sh IH]; intros [|i ix] H; simpl in *; try discriminate; [lia|].
  apply andb_true_iff in H. destruct H as [Hi H]. apply Nat.ltb_lt in Hi.
  rewrite (offset_acc sh ix i (in_boundsb_length _ _ H)).
  specialize (IH ix H). nia.
Qed.

Lemma concat_tab_length {A} n (blk : nat -> list A) m :
  (forall i, length (blk i) = m) -> length (concat (tab n blk)) = n * m.
Proof.
  intros Hb. induction n as [|n IHn]; [reflexivity|].
  rewrite tab_S, concat_app, app_length, IHn. simpl. rewrite app_nil_r, Hb. lia.
Qed.

Lemma flatten_length shape T : length (flatten shape T) = fold_right Nat.mul 1 shape.
Proof.
  revert T. induction shape as [|n sh IH]; intros T; simpl; [reflexivity|].
  apply concat_tab_length. intros i. apply IH.
Qed.

Lemma nth_concat_uniform {A} (blocks : list (list A)) m i o d :
  (forall b, In b blocks -> length b = m) -> i < length blocks -> o < m ->
  nth (i * m + o) (concat blocks) d = nth o (nth i blocks []) d.
Proof.
  revert i. induction blocks as [|b t IH]; intros i Hm Hi Ho; simpl in *; [lia|].
  assert (Lb : length b = m) by (apply Hm; left; reflexivity).
  destruct i as [|i].
  - simpl. rewrite app_nth1 by lia. reflexivity.
  - rewrite app_nth2 by (rewrite Lb; simpl; lia).
    replace (Datatypes.S i * m + o - length b) with (i * m + o) by (rewrite Lb; simpl; lia).
    apply IH; [intros; apply Hm; right; assumption| lia | exact Ho].
Qed.

(* the flat payload of a tensor, reshaped, is the tensor: raw_cube_array reads cell idx of
   an arbitrary-shape response at the right row-major offset *)
Theorem of_flat_flatten shape T idx :
  in_boundsb shape idx = true -> of_flat shape (flatten shape T) idx = T idx.
Proof.
  intros H. unfold of_flat. rewrite H.
  revert T idx H. induction shape as [|n sh IH]; intros T [|i ix] H; simpl in *; try discriminate; [reflexivity|].
  apply andb_true_iff in H. destruct H as [Hi H]. apply Nat.ltb_lt in Hi.
  rewrite (offset_acc sh ix i (in_boundsb_length _ _ H)).
  rewrite (nth_concat_uniform _ (fold_right Nat.mul 1 sh)).
  - rewrite (tab_nth n _ [] i Hi). apply (IH (fun idx => T (i :: idx)) ix H).
  - intros b Hb. unfold tab in Hb. apply in_map_iff in Hb. destruct Hb as [x [<- _]]. apply flatten_length.
  - rewrite tab_length. exact Hi.
  - apply offset_lt. exact H.
Qed.

(* numeric measures of a slice read one payload cell each (no arithmetic) *)
Lemma passthrough_reads ds T rmr cmr i j :
  passthrough_of (take_valid ds T) rmr cmr i j
  = T (remap (map dvalid ds)
             (match rmr, cmr with
              | true, true => [i; 0; j; 0] | true, false => [i; 0; j]
              | false, true => [i; j; 0] | false, false => [i; j] end)).
Proof. destruct rmr, cmr; reflexivity. Qed.

(* ------------------------------------------------------------------------------------ *)
(** * The measure cascade of cube.py *)

Lemma cwm_cascade p :
  cwm_payload p =
  match nonempty (p_vcw p), nonempty (p_vcu p), weighted_payload p with
  | Some d, _, _ => d
  | None, Some d, _ => d
  | None, None, Some d => d
  | None, None, None => p_counts p
  end.
Proof. unfold cwm_payload. destruct (nonempty (p_vcw p)), (nonempty (p_vcu p)), (weighted_payload p); reflexivity. Qed.

Lemma weighted_payload_some p d :
  weighted_payload p = Some d <-> p_count p = Some d /\ list_xeqb (p_counts p) d = false.
Proof.
  unfold weighted_payload. destruct (p_count p) as [d'|].
  - destruct (list_xeqb (p_counts p) d') eqn:E; split.
    + discriminate.
    + intros [H1 H2]. inversion H1; subst. congruence.
    + intros H. inversion H; subst. split; [reflexivity| exact E].
    + intros [H1 _]. exact H1.
  - split; [discriminate| intros [H _]; discriminate].
Qed.

(* ------------------------------------------------------------------------------------ *)
(** * Unweighted counts: the tensor of the unit-weight survey gives head counts *)

Lemma cell_pred_weight_irrelevant tv k kr mr vr kc mc vc i j r w :
  (fun r => pop_of tv k r && in_el kr mr (ans r vr) i && in_el kc mc (ans r vc) j)
    (mkResp (answers r) w)
  = pop_of tv k r && in_el kr mr (ans r vr) i && in_el kc mc (ans r vc) j.
Proof. destruct tv as [[[vt kt] mt]|]; reflexivity. Qed.

Theorem unweighted_counts_headcount S tv vr vc kr kc mr mc k i j :
  t_ok tv -> cat_or_mr kr -> cat_or_mr kc -> k < t_n tv -> i < nval mr -> j < nval mc ->
  counts_of (slice_of tv vr kr mr vc kc mc (unit_weights S) k) (kcls kr) (kcls kc) i j =x=
  Fin (inject_Z (Z.of_nat (length (filter
        (fun r => pop_of tv k r && in_el kr mr (ans r vr) i && in_el kc mc (ans r vc) j) S)))).
Proof.
  intros Ht Hr Hc Hk Hi Hj.
  rewrite (counts_of_spec (unit_weights S) tv vr vc kr kc mr mc k Ht Hr Hc Hk i j Hi Hj).
  simpl. apply wsum_unit_headcount. intros r w. apply cell_pred_weight_irrelevant.
Qed.
