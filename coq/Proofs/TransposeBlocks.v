(* Proofs/TransposeBlocks.v -- C10 for the block measures: the subtotal blocks of
   Model/Subtotals.v, the bases / proportions of Model/Proportions.v, the variances of
   Model/Variance.v and the shares of Model/Share.v.  In every theorem the left-hand side is the
   ROW-direction (resp. COLUMN-direction) definition applied to the transposed inputs with the
   subtotal lists of the two dimensions exchanged, the right-hand side the separately written
   COLUMN-direction (resp. ROW-direction) definition on the original inputs; [BT] says that the
   four blocks are transposes of each other (inserted rows <-> inserted columns). *)
From Coq Require Import QArith ZArith List Bool Lia Arith Setoid Morphisms.
From CC Require Import Base.XQ Base.ListX Model.Subtotals Model.Proportions Model.Variance
  Model.Share Model.Transpose Proofs.TransposeAlgebra.
Import ListNotations.
Local Close Scope Q_scope.
Local Open Scope nat_scope.

(* ---- sums along rows / columns --------------------------------------------------------- *)
Section SumT.
  Variables m mT : mat.
  Hypothesis HT : MT mT m.

  Lemma sum_cols_T j idxs : sum_cols mT j idxs =x= sum_rows m idxs j.
  Proof. unfold sum_cols, sum_rows. apply xsum_map_ext. intros i. apply HT. Qed.

  Lemma sum_rows_T idxs i : sum_rows mT idxs i =x= sum_cols m i idxs.
  Proof. unfold sum_cols, sum_rows. apply xsum_map_ext. intros j. apply HT. Qed.

  Lemma subcol_cell_T f s j : subcol_cell mT f s j =x= subrow_cell m f s j.
  Proof.
    unfold subcol_cell, subrow_cell. destruct (f && has_subs s); [reflexivity|].
    rewrite !sum_cols_T. reflexivity.
  Qed.

  Lemma subrow_cell_T f s i : subrow_cell mT f s i =x= subcol_cell m f s i.
  Proof.
    unfold subcol_cell, subrow_cell. destruct (f && has_subs s); [reflexivity|].
    rewrite !sum_rows_T. reflexivity.
  Qed.

  (* the intersection of the exchanged analysis accumulates the other way round *)
  Lemma inter_cell_T dcn drn rs cs :
    inter_cell mT drn dcn cs rs =x= inter_cell_colfirst m dcn drn rs cs.
  Proof.
    unfold inter_cell, inter_cell_colfirst.
    replace ((has_subs rs && has_subs cs) || (has_subs rs && drn) || (has_subs cs && dcn))
      with ((has_subs cs && has_subs rs) || (has_subs cs && dcn) || (has_subs rs && drn))
      by (destruct (has_subs rs), (has_subs cs), dcn, drn; reflexivity).
    destruct ((has_subs cs && has_subs rs) || (has_subs cs && dcn) || (has_subs rs && drn));
      [reflexivity|].
    rewrite (xsum_map_ext _ _ (s_add rs) (subrow_cell_T dcn cs)).
    rewrite (xsum_map_ext _ _ (s_sub rs) (subrow_cell_T dcn cs)).
    reflexivity.
  Qed.
End SumT.

Lemma four_sub P Q U W : xsub (xsub P Q) (xsub U W) =x= xsub (xsub P U) (xsub Q W).
Proof.
  destruct P as [p|[|]|], Q as [q|[|]|], U as [u|[|]|], W as [w|[|]|]; simpl; auto; ring.
Qed.

(* row-first and column-first accumulation of an intersection agree (NaN / inf included) *)
Lemma inter_colfirst_eq m dcn drn rs cs :
  inter_cell_colfirst m dcn drn rs cs =x= inter_cell m dcn drn rs cs.
Proof.
  unfold inter_cell, inter_cell_colfirst.
  destruct (has_subs cs) eqn:Hc, (has_subs rs) eqn:Hr, dcn eqn:Hd, drn eqn:He;
    cbn [andb orb]; try reflexivity;
    unfold subcol_cell, subrow_cell; rewrite ?Hc, ?Hr; cbn [andb];
    rewrite !xsum_map_sub;
    rewrite (four_sub (xsum (map (fun x => sum_cols m x (s_add cs)) (s_add rs))));
    unfold sum_cols, sum_rows;
    rewrite (xsum_exchange (fun x j => mnth m x j) (s_add rs) (s_add cs));
    rewrite (xsum_exchange (fun x j => mnth m x j) (s_add rs) (s_sub cs));
    rewrite (xsum_exchange (fun x j => mnth m x j) (s_sub rs) (s_add cs));
    rewrite (xsum_exchange (fun x j => mnth m x j) (s_sub rs) (s_sub cs));
    reflexivity.
Qed.

Ltac bt_start :=
  split; intros; cbn [b_base b_cols b_rows b_inter];
  rewrite ?tab2_mnth by (assumption || lia).

(* ---- SumSubtotals ------------------------------------------------------------------------ *)
Theorem sum_blocks_T m mT nr nc rsubs csubs dcn drn :
  MT mT m ->
  BT nr nc (length rsubs) (length csubs)
     (sum_blocks mT nc nr csubs rsubs drn dcn) (sum_blocks m nr nc rsubs csubs dcn drn).
Proof.
  intros HT. unfold sum_blocks. bt_start.
  - apply HT.
  - apply subrow_cell_T. exact HT.
  - apply subcol_cell_T. exact HT.
  - rewrite (inter_cell_T m mT HT). apply inter_colfirst_eq.
Qed.

(* ---- bases --------------------------------------------------------------------------------- *)
Theorem row_base_blocks_T rb rbT nr nc rsubs csubs :
  MT rbT rb ->
  BT nr nc (length rsubs) (length csubs)
     (col_base_blocks nc nr csubs rsubs rbT) (row_base_blocks nr nc rsubs csubs rb).
Proof.
  intros HT. unfold col_base_blocks, row_base_blocks. bt_start.
  - apply HT.
  - apply HT.
  - apply subcol_cell_T. exact HT.
  - apply subcol_cell_T. exact HT.
Qed.

Theorem col_base_blocks_T cb cbT nr nc rsubs csubs :
  MT cbT cb ->
  BT nr nc (length rsubs) (length csubs)
     (row_base_blocks nc nr csubs rsubs cbT) (col_base_blocks nr nc rsubs csubs cb).
Proof.
  intros HT. unfold col_base_blocks, row_base_blocks. bt_start.
  - apply HT.
  - apply subrow_cell_T. exact HT.
  - apply HT.
  - apply subrow_cell_T. exact HT.
Qed.

Theorem table_base_blocks_T tb tbT nr nc rsubs csubs :
  MT tbT tb ->
  BT nr nc (length rsubs) (length csubs)
     (table_base_blocks nc nr csubs rsubs tbT) (table_base_blocks nr nc rsubs csubs tb).
Proof. intros HT. unfold table_base_blocks. bt_start; apply HT. Qed.

Theorem count_blocks_T c cT nr nc rsubs csubs dn :
  MT cT c ->
  BT nr nc (length rsubs) (length csubs)
     (count_blocks nc nr csubs rsubs cT dn) (count_blocks nr nc rsubs csubs c dn).
Proof. intros HT. unfold count_blocks. apply sum_blocks_T. exact HT. Qed.

(* ---- cell-wise combinations of blocks ------------------------------------------------------- *)
Theorem div_blocks_T nr nc rsubs csubs A A' B B' :
  BT nr nc (length rsubs) (length csubs) A' A ->
  BT nr nc (length rsubs) (length csubs) B' B ->
  BT nr nc (length rsubs) (length csubs)
     (div_blocks nc nr csubs rsubs A' B') (div_blocks nr nc rsubs csubs A B).
Proof.
  intros [a1 a2 a3 a4] [b1 b2 b3 b4]. unfold div_blocks. bt_start.
  - rewrite a1, b1 by assumption. reflexivity.
  - rewrite a2, b2 by assumption. reflexivity.
  - rewrite a3, b3 by assumption. reflexivity.
  - rewrite a4, b4 by assumption. reflexivity.
Qed.

(* ---- proportions ------------------------------------------------------------------------------ *)
Lemma wave_row_cell_T bases basesT counts countsT date s d d' i :
  MT basesT bases -> MT countsT counts -> d' =x= d ->
  wave_row_cell basesT countsT date s d' i =x= wave_col_cell bases counts date s d i.
Proof.
  intros Hb Hc Hd. unfold wave_row_cell, wave_col_cell.
  destruct (date && has_subs s); [|exact Hd].
  destruct (multiple_terms s); [reflexivity|].
  rewrite !(sum_rows_T _ _ Hb), !(sum_rows_T _ _ Hc). reflexivity.
Qed.

Lemma wave_col_cell_T bases basesT counts countsT date s d d' j :
  MT basesT bases -> MT countsT counts -> d' =x= d ->
  wave_col_cell basesT countsT date s d' j =x= wave_row_cell bases counts date s d j.
Proof.
  intros Hb Hc Hd. unfold wave_row_cell, wave_col_cell.
  destruct (date && has_subs s); [|exact Hd].
  destruct (multiple_terms s); [reflexivity|].
  rewrite !(sum_cols_T _ _ Hb), !(sum_cols_T _ _ Hc). reflexivity.
Qed.

Theorem props_of_T nr nc rsubs csubs cnt cnt' bb bb' bases basesT counts countsT rd cd :
  BT nr nc (length rsubs) (length csubs) cnt' cnt ->
  BT nr nc (length rsubs) (length csubs) bb' bb ->
  MT basesT bases -> MT countsT counts ->
  BT nr nc (length rsubs) (length csubs)
     (props_of nc nr csubs rsubs cnt' bb' basesT countsT cd rd)
     (props_of nr nc rsubs csubs cnt bb bases counts rd cd).
Proof.
  intros Hc Hb Hbs Hcs.
  destruct (div_blocks_T nr nc rsubs csubs cnt cnt' bb bb' Hc Hb) as [d1 d2 d3 d4].
  unfold props_of. bt_start.
  - apply d1; assumption.
  - apply wave_row_cell_T; try assumption. apply d2; assumption.
  - apply wave_col_cell_T; try assumption. apply d3; assumption.
  - apply d4; assumption.
Qed.

(* row proportions of B x A = transposed column proportions of A x B *)
Theorem row_proportions_T nr nc rsubs csubs counts countsT dn rd cd cb cbT :
  MT countsT counts -> MT cbT cb ->
  BT nr nc (length rsubs) (length csubs)
     (row_proportions nc nr csubs rsubs countsT dn cd rd cbT)
     (col_proportions nr nc rsubs csubs counts dn rd cd cb).
Proof.
  intros Hc Hb. unfold row_proportions, col_proportions.
  apply props_of_T; try assumption.
  - apply count_blocks_T. exact Hc.
  - apply col_base_blocks_T. exact Hb.
Qed.

(* column proportions of B x A = transposed row proportions of A x B *)
Theorem col_proportions_T nr nc rsubs csubs counts countsT dn rd cd rb rbT :
  MT countsT counts -> MT rbT rb ->
  BT nr nc (length rsubs) (length csubs)
     (col_proportions nc nr csubs rsubs countsT dn cd rd rbT)
     (row_proportions nr nc rsubs csubs counts dn rd cd rb).
Proof.
  intros Hc Hb. unfold row_proportions, col_proportions.
  apply props_of_T; try assumption.
  - apply count_blocks_T. exact Hc.
  - apply row_base_blocks_T. exact Hb.
Qed.

Theorem table_proportions_T nr nc rsubs csubs counts countsT dn tb tbT :
  MT countsT counts -> MT tbT tb ->
  BT nr nc (length rsubs) (length csubs)
     (table_proportions nc nr csubs rsubs countsT dn tbT)
     (table_proportions nr nc rsubs csubs counts dn tb).
Proof.
  intros Hc Hb. unfold table_proportions. apply div_blocks_T.
  - apply count_blocks_T. exact Hc.
  - apply table_base_blocks_T. exact Hb.
Qed.

(* ---- variances -------------------------------------------------------------------------------- *)
Theorem pos_blocks_T c cT nr nc rsubs csubs :
  MT cT c ->
  BT nr nc (length rsubs) (length csubs)
     (pos_blocks cT nc nr csubs rsubs) (pos_blocks c nr nc rsubs csubs).
Proof.
  intros HT. unfold pos_blocks, pos_row. bt_start.
  - apply HT.
  - apply sum_rows_T. exact HT.
  - apply sum_cols_T. exact HT.
  - rewrite andb_comm. destruct (has_subs _ && has_subs _); [reflexivity|].
    unfold sum_rows.
    rewrite (xsum_exchange (fun j i => mnth c i j) (s_add (nth l csubs nosub)) (s_add (nth k rsubs nosub))).
    apply xsum_map_ext. intros i. apply xsum_map_ext. intros j. apply HT.
Qed.

Theorem neg_blocks_T c cT nr nc rsubs csubs :
  MT cT c ->
  BT nr nc (length rsubs) (length csubs)
     (neg_blocks cT nc nr csubs rsubs) (neg_blocks c nr nc rsubs csubs).
Proof.
  intros HT. unfold neg_blocks. bt_start.
  - reflexivity.
  - apply sum_rows_T. exact HT.
  - apply sum_cols_T. exact HT.
  - destruct (has_subs (nth l csubs nosub)), (has_subs (nth k rsubs nosub)); cbn [andb];
      try reflexivity.
    + apply xsum_map_ext. intros j. apply sum_cols_T. exact HT.
    + apply xsum_map_ext. intros i. apply sum_rows_T. exact HT.
Qed.

#[global] Instance var_cell_Proper : Proper (xeq ==> xeq ==> xeq ==> xeq ==> xeq) var_cell.
Proof.
  intros p p' Hp t t' Ht a a' Ha n n' Hn. unfold var_cell, calc_var, xsq.
  rewrite Hp, Ht, Ha, Hn. reflexivity.
Qed.

Theorem map4_T f nr nc rsubs csubs P P' T T' A A' N N' :
  Proper (xeq ==> xeq ==> xeq ==> xeq ==> xeq) f ->
  BT nr nc (length rsubs) (length csubs) P' P ->
  BT nr nc (length rsubs) (length csubs) T' T ->
  BT nr nc (length rsubs) (length csubs) A' A ->
  BT nr nc (length rsubs) (length csubs) N' N ->
  BT nr nc (length rsubs) (length csubs)
     (map4 nc nr csubs rsubs f P' T' A' N') (map4 nr nc rsubs csubs f P T A N).
Proof.
  intros Hf [p1 p2 p3 p4] [t1 t2 t3 t4] [a1 a2 a3 a4] [n1 n2 n3 n4]. unfold map4. bt_start.
  - apply Hf; [apply p1|apply t1|apply a1|apply n1]; assumption.
  - apply Hf; [apply p2|apply t2|apply a2|apply n2]; assumption.
  - apply Hf; [apply p3|apply t3|apply a3|apply n3]; assumption.
  - apply Hf; [apply p4|apply t4|apply a4|apply n4]; assumption.
Qed.

(* variances of the proportions P over the bases T: direction is carried by P and T only *)
Theorem variance_blocks_T c cT nr nc rsubs csubs P P' T T' :
  MT cT c ->
  BT nr nc (length rsubs) (length csubs) P' P ->
  BT nr nc (length rsubs) (length csubs) T' T ->
  BT nr nc (length rsubs) (length csubs)
     (variance_blocks cT nc nr csubs rsubs P' T') (variance_blocks c nr nc rsubs csubs P T).
Proof.
  intros Hc HP HT. unfold variance_blocks. apply map4_T; try assumption.
  - exact var_cell_Proper.
  - apply pos_blocks_T. exact Hc.
  - apply neg_blocks_T. exact Hc.
Qed.

(* ---- share of sum ------------------------------------------------------------------------------ *)
Lemma nansum_concat_tab_ext n k (f g : nat -> nat -> xq) :
  (forall i j, f i j =x= g i j) ->
  nansum (concat (tab n (fun i => tab k (fun j => f i j))))
  =x= nansum (concat (tab n (fun i => tab k (fun j => g i j)))).
Proof.
  intros H. rewrite !nansum_concat. unfold tab at 1 3. rewrite !map_map.
  apply xsum_map_ext. intros i. apply nansum_tab_ext. intros j _. apply H.
Qed.

Section ShareT.
  Variables s sT : mat.
  Variables nr nc : nat.
  Variables rsubs csubs : list subtotal.
  Hypothesis HT : MT sT s.

  Lemma sb_T : BT nr nc (length rsubs) (length csubs) (sb sT nc nr csubs rsubs) (sb s nr nc rsubs csubs).
  Proof. unfold sb. apply sum_blocks_T. exact HT. Qed.

  Lemma row_total_T j : row_total sT nr j =x= col_total s nr j.
  Proof. unfold row_total, col_total. apply nansum_tab_ext. intros i _. apply HT. Qed.

  Lemma col_total_T i : col_total sT nc i =x= row_total s nc i.
  Proof. unfold row_total, col_total. apply nansum_tab_ext. intros j _. apply HT. Qed.

  Lemma table_total_T : table_total sT nc nr =x= table_total s nr nc.
  Proof.
    unfold table_total.
    rewrite (nansum_concat_tab_ext nc nr (fun j i => mnth sT j i) (fun j i => mnth s i j))
      by (intros; apply HT).
    apply (nansum_concat_exchange nc nr (fun j i => mnth s i j)).
  Qed.

  Lemma subrow_total_T l : l < length csubs ->
    subrow_total sT nc nr csubs rsubs l =x= subcol_total s nr nc rsubs csubs l.
  Proof.
    intros Hl. unfold subrow_total, subcol_total. apply nansum_tab_ext. intros i Hi.
    destruct sb_T as [_ h _ _]. apply h; assumption.
  Qed.

  Lemma subcol_total_T k : k < length rsubs ->
    subcol_total sT nc nr csubs rsubs k =x= subrow_total s nr nc rsubs csubs k.
  Proof.
    intros Hk. unfold subrow_total, subcol_total. apply nansum_tab_ext. intros j Hj.
    destruct sb_T as [_ _ h _]. apply h; assumption.
  Qed.

  (* row share of B x A = transposed column share of A x B, all four blocks *)
  Theorem row_share_T :
    BT nr nc (length rsubs) (length csubs)
       (row_share sT nc nr csubs rsubs) (col_share s nr nc rsubs csubs).
  Proof.
    destruct sb_T as [h1 h2 h3 h4]. unfold row_share, col_share, nrs, ncs. bt_start.
    - rewrite (HT i j), row_total_T. reflexivity.
    - rewrite h2, subrow_total_T by assumption. reflexivity.
    - rewrite h3, row_total_T by assumption. reflexivity.
    - rewrite h4, subrow_total_T by assumption. reflexivity.
  Qed.

  Theorem col_share_T :
    BT nr nc (length rsubs) (length csubs)
       (col_share sT nc nr csubs rsubs) (row_share s nr nc rsubs csubs).
  Proof.
    destruct sb_T as [h1 h2 h3 h4]. unfold row_share, col_share, nrs, ncs. bt_start.
    - rewrite (HT i j), col_total_T. reflexivity.
    - rewrite h2, col_total_T by assumption. reflexivity.
    - rewrite h3, subcol_total_T by assumption. reflexivity.
    - rewrite h4, subcol_total_T by assumption. reflexivity.
  Qed.

  Theorem total_share_T :
    BT nr nc (length rsubs) (length csubs)
       (total_share sT nc nr csubs rsubs) (total_share s nr nc rsubs csubs).
  Proof.
    destruct sb_T as [h1 h2 h3 h4]. unfold total_share, nrs, ncs. bt_start.
    - rewrite (HT i j), table_total_T. reflexivity.
    - rewrite h2, table_total_T by assumption. reflexivity.
    - rewrite h3, table_total_T by assumption. reflexivity.
    - rewrite h4, table_total_T by assumption. reflexivity.
  Qed.
End ShareT.

(* tblocks of a well-shaped quadruple is a BT-transpose *)
Lemma tblocks_BT nr nc nrs ncs B : BT nr nc nrs ncs (tblocks nr nc nrs ncs B) B.
Proof.
  unfold tblocks. split; intros; cbn [b_base b_cols b_rows b_inter];
    rewrite mtranspose_mnth by assumption; reflexivity.
Qed.

(* ---- composed twins: variances and squared standard errors of row / column / table proportions --- *)
Section Composed.
  Variables nr nc : nat.
  Variables rsubs csubs : list subtotal.
  Variables c cT : mat.
  Variable dn rd cd : bool.
  Hypothesis Hc : MT cT c.
  Let NRS := length rsubs.
  Let NCS := length csubs.

  Theorem row_var_T cb cbT : MT cbT cb ->
    BT nr nc NRS NCS (row_var dn nc nr csubs rsubs cT cd rd cbT) (col_var dn nr nc rsubs csubs c rd cd cb).
  Proof.
    intros Hb. unfold row_var, col_var. apply variance_blocks_T; try assumption.
    - apply row_proportions_T; assumption.
    - apply col_base_blocks_T; assumption.
  Qed.

  Theorem col_var_T rb rbT : MT rbT rb ->
    BT nr nc NRS NCS (col_var dn nc nr csubs rsubs cT cd rd rbT) (row_var dn nr nc rsubs csubs c rd cd rb).
  Proof.
    intros Hb. unfold row_var, col_var. apply variance_blocks_T; try assumption.
    - apply col_proportions_T; assumption.
    - apply row_base_blocks_T; assumption.
  Qed.

  Theorem tab_var_T tb tbT : MT tbT tb ->
    BT nr nc NRS NCS (tab_var dn nc nr csubs rsubs cT tbT) (tab_var dn nr nc rsubs csubs c tb).
  Proof.
    intros Hb. unfold tab_var. apply variance_blocks_T; try assumption.
    - apply table_proportions_T; assumption.
    - apply table_base_blocks_T; assumption.
  Qed.

  Theorem row_se_T cb cbT : MT cbT cb ->
    BT nr nc NRS NCS (row_se dn nc nr csubs rsubs cT cd rd cbT) (col_se dn nr nc rsubs csubs c rd cd cb).
  Proof.
    intros Hb. unfold row_se, col_se. apply div_blocks_T.
    - apply row_var_T; assumption.
    - apply col_base_blocks_T; assumption.
  Qed.

  Theorem col_se_T rb rbT : MT rbT rb ->
    BT nr nc NRS NCS (col_se dn nc nr csubs rsubs cT cd rd rbT) (row_se dn nr nc rsubs csubs c rd cd rb).
  Proof.
    intros Hb. unfold row_se, col_se. apply div_blocks_T.
    - apply col_var_T; assumption.
    - apply row_base_blocks_T; assumption.
  Qed.

  Theorem tab_se_T tb tbT : MT tbT tb ->
    BT nr nc NRS NCS (tab_se dn nc nr csubs rsubs cT tbT) (tab_se dn nr nc rsubs csubs c tb).
  Proof.
    intros Hb. unfold tab_se. apply div_blocks_T.
    - apply tab_var_T; assumption.
    - apply table_base_blocks_T; assumption.
  Qed.
End Composed.
