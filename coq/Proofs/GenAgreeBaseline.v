(* Proofs/GenAgreeBaseline.v -- GenAgree for C16: the four _*UnconditionalCubeCounts.baseline
   variants, through the factory's conditional chain.
   W = counts_with_missings[_slice_idx_expr] of raw shape (all rows nar, all columns nac, raw
   selection axes sa); vr / vc = valid offsets of _dimensions[-2] / _dimensions[-1] (the source
   uses the rows' only; a change to the columns' breaks the lemma).  See GenAgreeTac.v. *)
From Coq Require Import QArith ZArith List Bool Lia Arith String.
From CC Require Import Base.XQ Base.ListX Base.Tensor Model.CubeCounts
     Gen.CubeCountsSrc Gen.StripeCountsSrc Gen.Tables Proofs.GenAgreeTac.
Import ListNotations.
Local Close Scope Q_scope.
Local Open Scope string_scope.
Local Open Scope nat_scope.

Definition bl_shape (rmr cmr : bool) (nar nac sa : nat) : list nat :=
  match rmr, cmr with
  | true, true => [nar; sa; nac; sa]
  | true, false => [nar; sa; nac]
  | false, true => [nar; nac; sa]
  | false, false => [nar; nac]
  end.
(* shape of the baseline: MR x MR does not filter rows; CAT columns give an (n, 1) column *)
Definition bl_rows (rmr cmr : bool) (vr : list nat) (nar : nat) : nat :=
  if rmr && cmr then nar else List.length vr.
Definition bl_cols (cmr : bool) (nac : nat) : nat := if cmr then nac else 1.

Lemma gen_CatXCatUnconditionalCubeCounts_baseline :
  match src_CatXCatUnconditionalCubeCounts_baseline with
  | Some e => forall W vr vc nar nac sa,
      agrees2 (teval (envW (bl_shape false false nar nac sa) W vr vc) e)
              (bl_rows false false vr nar) (bl_cols false nac) (baseline_of W vr nac sa false false)
  | None => True
  end.
Proof. gen_agree. Qed.

Lemma gen_CatXMrUnconditionalCubeCounts_baseline :
  match src_CatXMrUnconditionalCubeCounts_baseline with
  | Some e => forall W vr vc nar nac sa,
      agrees2 (teval (envW (bl_shape false true nar nac sa) W vr vc) e)
              (bl_rows false true vr nar) (bl_cols true nac) (baseline_of W vr nac sa false true)
  | None => True
  end.
Proof. gen_agree. Qed.

Lemma gen_MrXCatUnconditionalCubeCounts_baseline :
  match src_MrXCatUnconditionalCubeCounts_baseline with
  | Some e => forall W vr vc nar nac sa,
      agrees2 (teval (envW (bl_shape true false nar nac sa) W vr vc) e)
              (bl_rows true false vr nar) (bl_cols false nac) (baseline_of W vr nac sa true false)
  | None => True
  end.
Proof. gen_agree. Qed.

Lemma gen_MrXMrUnconditionalCubeCounts_baseline :
  match src_MrXMrUnconditionalCubeCounts_baseline with
  | Some e => forall W vr vc nar nac sa,
      agrees2 (teval (envW (bl_shape true true nar nac sa) W vr vc) e)
              (bl_rows true true vr nar) (bl_cols true nac) (baseline_of W vr nac sa true true)
  | None => True
  end.
Proof. gen_agree. Qed.

Lemma gen_dispatch_baseline :
  match src_UnconditionalCubeCounts_dispatch with
  | Some D => forall rmr cmr,
      meth src_methods (cond_pick rmr cmr (fst D) (snd D)) "baseline"
        (fun e => forall W vr vc nar nac sa,
           agrees2 (teval (envW (bl_shape rmr cmr nar nac sa) W vr vc) e)
                   (bl_rows rmr cmr vr nar) (bl_cols cmr nac) (baseline_of W vr nac sa rmr cmr))
  | None => True
  end.
Proof.
  dispatch4 src_UnconditionalCubeCounts_dispatch
            gen_CatXCatUnconditionalCubeCounts_baseline gen_CatXMrUnconditionalCubeCounts_baseline
            gen_MrXCatUnconditionalCubeCounts_baseline gen_MrXMrUnconditionalCubeCounts_baseline.
Qed.

