(* Proofs/MergeStrand.v -- C04, STRANDS (1-D cubes): merge equivalence for a subtotal without
   subtrahends of a categorical strand, against the respondent-level spec (Spec/Survey.v tabulate,
   Spec/Merge.v recode).

   The strand measures of the model (stripe/insertion.py and stripe/measure.py as modelled in
   Model/Subtotals.v, Model/Proportions.v, Model/Variance.v, Model/Population.v):
       counts            stripe_sum_subtotals counts subs
       bases             the table base (the strand's base vector is constant: vnth bases 0)
       table proportion  strand_props_subtotals (WaveDiffSubtotals default: count / table base)
       variance          strand_var_subtotals (three-term formula)  vs  p(1-p) of a base row
       std-err^2         variance / base
       population        N * f * proportion
   each at subtotal kk equals the value of the BASE row of the merged category (row [nval ms] of the
   strand tabulated from the recoded survey).  Unweighted twins: the same theorems on unit_weights S
   (recode commutes with forgetting the weights, Proofs/MergeSurvey.v recode_unit_weights).

   The scale statistics of a strand (stripe/measure.py::_ScaledCounts) are computed from the BASE rows
   only - a subtotal does not enter them - so there is no per-subtotal statement to make; what is
   proved here for them is congruence in the count vector (Proofs/ScaleCongr.v strand_scale_*_vxeq). *)
From Coq Require Import QArith ZArith List Bool Lia Arith Setoid Morphisms.
From CC Require Import Base.XQ Base.ListX Spec.Survey Spec.Merge Model.CubeCounts Model.Subtotals
     Model.Proportions Model.Variance Model.Population
     Proofs.CubeCountsProofs Proofs.ProportionsProofs Proofs.ComposeBase Proofs.ComposeProportions
     Proofs.ComposeStrand Proofs.MergeSum Proofs.MergeSurvey Proofs.MergeMeasures.
Import ListNotations.
Local Close Scope Q_scope.
Local Open Scope nat_scope.

Lemma vnth_map_lt {A} (f : A -> xq) (l : list A) (d : A) k : k < length l -> vnth (map f l) k = f (nth k l d).
Proof.
  intros H. unfold vnth. rewrite (nth_indep _ NaN (f d)) by (rewrite map_length; exact H). apply map_nth.
Qed.

Section StrandMerge.
  Variable S : survey.
  Variable v : nat.                       (* the strand's variable *)
  Variable ms : list bool.                (* missing flags of its categories *)
  Variable subs : list subtotal.
  Variable kk : nat.
  Hypothesis Hkk : kk < length subs.
  Let s := nth kk subs nosub.
  Hypothesis Hsub : s_sub s = [].
  Hypothesis Hoffs : Forall (fun i => i < n_valid ms) (s_add s).
  Hypothesis Hnd : NoDup (s_add s).
  Hypothesis Hfresh : fresh_for v ms S.

  Let n := nval ms.
  Let ms' := merged_flags ms.
  (* the addends merged in the DATA *)
  Definition merged_strand_survey : survey := recode v (positions ms (s_add s)) (merged_pos ms) S.
  Let S' := merged_strand_survey.

  (* the strand as stripe/cubemeasure.py extracts it from the tabulation: original, merged *)
  Definition st_o_counts : list xq := st_cat_counts S v ms.
  Definition st_o_bases : list xq := st_cat_bases S v ms.
  Definition st_m_counts : list xq := st_cat_counts S' v ms'.
  Definition st_m_bases : list xq := st_cat_bases S' v ms'.

  Lemma n_lt' : n < nval ms'.
  Proof. unfold n, ms'. rewrite !nval_n_valid, n_valid_merged. lia. Qed.

  Lemma HCtrue : forall r, (fun _ : resp => true) (recode_resp v (positions ms (s_add s)) (merged_pos ms) r)
                           = (fun _ : resp => true) r.
  Proof. reflexivity. Qed.

  (* the numbers *)
  Definition w_merged : Q := wsum S' (fun r => in_cat ms' (ans r v) n).
  Definition w_total : Q := wsum S (fun r => ok_cat ms (ans r v)).

  Lemma st_m_count_n : vnth st_m_counts n =x= Fin w_merged.
  Proof.
    unfold st_m_counts, st_cat_counts. rewrite (tab_vnth _ _ n n_lt').
    apply (strand_cat_counts_spec S' v ms' n n_lt').
  Qed.

  Lemma w_merged_sum :
    (w_merged == qsum (map (fun i => wsum S (fun r => in_cat ms (ans r v) i)) (s_add s)))%Q.
  Proof.
    pose proof (tab_recode_merged S v ms (s_add s) (fun _ => true) Hoffs Hnd Hfresh HCtrue) as H.
    simpl in H. unfold w_merged, S', merged_strand_survey, ms', n. rewrite nval_n_valid. exact H.
  Qed.

  Lemma st_o_count_i i : i < n -> vnth st_o_counts i =x= Fin (wsum S (fun r => in_cat ms (ans r v) i)).
  Proof.
    intros Hi. unfold st_o_counts, st_cat_counts. rewrite (tab_vnth _ _ i Hi).
    apply (strand_cat_counts_spec S v ms i Hi).
  Qed.

  (* ---- counts ------------------------------------------------------------------------------ *)
  Lemma strand_sum_is_merged : vsum_idx st_o_counts (s_add s) =x= vnth st_m_counts n.
  Proof.
    rewrite st_m_count_n. unfold vsum_idx.
    rewrite (xsum_map_fin _ (fun i => wsum S (fun r => in_cat ms (ans r v) i)) (s_add s)).
    - simpl. symmetry. apply w_merged_sum.
    - intros i Hi. apply st_o_count_i. rewrite Forall_forall in Hoffs. apply (Hoffs i Hi).
  Qed.

  Lemma strand_subtotal_value : stripe_sum_subtotal st_o_counts s =x= vnth st_m_counts n.
  Proof.
    unfold stripe_sum_subtotal. rewrite Hsub. unfold vsum_idx at 2. simpl map. simpl xsum.
    rewrite xsub_zero_r. apply strand_sum_is_merged.
  Qed.

  Theorem merge_strand_counts :
    vnth (stripe_sum_subtotals st_o_counts subs) kk =x= vnth st_m_counts n.
  Proof.
    unfold stripe_sum_subtotals. rewrite (vnth_map_lt _ subs nosub kk Hkk). apply strand_subtotal_value.
  Qed.

  (* ---- bases: a subtotal's base is the table base; so is the merged row's ------------------------ *)
  Lemma st_o_base_0 : 0 < n -> vnth st_o_bases 0 =x= Fin w_total.
  Proof.
    intros H0. unfold st_o_bases, st_cat_bases. rewrite (tab_vnth _ _ 0 H0).
    apply (strand_cat_table_base_spec S v ms).
  Qed.

  Lemma st_m_base_n : vnth st_m_bases n =x= Fin w_total.
  Proof.
    unfold st_m_bases, st_cat_bases. rewrite (tab_vnth _ _ n n_lt').
    etransitivity; [apply (strand_cat_table_base_spec S' v ms')|].
    pose proof (tab_recode_total S v ms (s_add s) (fun _ => true) Hoffs Hfresh HCtrue) as H.
    simpl in H. unfold w_total, S', merged_strand_survey, ms'. simpl. exact H.
  Qed.

  Theorem merge_strand_base : 0 < n -> vnth st_o_bases 0 =x= vnth st_m_bases n.
  Proof. intros H0. rewrite (st_o_base_0 H0), st_m_base_n. reflexivity. Qed.

  (* ---- table proportion ---------------------------------------------------------------------- *)
  Lemma has_subs_s' : has_subs s = false.
  Proof. unfold has_subs. rewrite Hsub. reflexivity. Qed.

  Theorem merge_strand_proportion rows_date : 0 < n ->
    vnth (strand_props_subtotals st_o_counts st_o_bases (vnth st_o_bases 0) rows_date subs) kk
    =x= vnth (strand_props_base st_m_counts st_m_bases) n.
  Proof.
    intros H0. unfold strand_props_subtotals. rewrite (vnth_map_lt _ subs nosub kk Hkk). fold s.
    assert (E : forall d, strand_wave_value st_o_counts st_o_bases rows_date s d = d).
    { intros d. unfold strand_wave_value. rewrite has_subs_s'. destruct rows_date; reflexivity. }
    rewrite E.
    rewrite (strand_props_base_nth st_m_counts st_m_bases n)
      by (unfold st_m_counts, st_cat_counts; rewrite tab_length; exact n_lt').
    rewrite strand_subtotal_value, (merge_strand_base H0). reflexivity.
  Qed.

  (* ---- variance: the three-term formula of the subtotal = p(1-p) of the merged base row ---------- *)
  Hypothesis Hwf : wf_survey S.

  Lemma w_merged_le : (0 <= w_merged <= w_total)%Q.
  Proof.
    assert (Hwf' : wf_survey S') by (apply wf_recode; exact Hwf).
    split; [apply wsum_nonneg; exact Hwf'|].
    pose proof (tab_recode_total S v ms (s_add s) (fun _ => true) Hoffs Hfresh HCtrue) as H. simpl in H.
    unfold w_total. rewrite <- H. apply wsum_mono; [exact Hwf'|].
    intros r _ Hr. apply (in_cat_ok_cat _ _ _ Hr).
  Qed.

  Theorem merge_strand_variance rows_date : 0 < n ->
    let pw := strand_props_subtotals st_o_counts st_o_bases (vnth st_o_bases 0) rows_date subs in
    let bw := map (fun _ => vnth st_o_bases 0) subs in
    vnth (strand_var_subtotals st_o_counts subs pw bw) kk
    =x= vnth (strand_var_base (strand_props_base st_m_counts st_m_bases)) n.
  Proof.
    intros H0. cbv zeta. unfold strand_var_subtotals. rewrite (tab_vnth _ _ kk Hkk). fold s.
    rewrite Hsub. unfold vsum_idx at 2. simpl map. simpl xsum.
    rewrite (vnth_map_lt _ subs nosub kk Hkk).
    unfold strand_var_base.
    rewrite (vnth_map_lt (fun p => xmul p (xsub (Fin 1) p)) _ NaN n)
      by (unfold strand_props_base, st_m_counts, st_cat_counts; rewrite !tab_length; exact n_lt').
    change (nth n (strand_props_base st_m_counts st_m_bases) NaN) with (vnth (strand_props_base st_m_counts st_m_bases) n).
    rewrite (merge_strand_proportion rows_date H0).
    rewrite (strand_props_base_nth st_m_counts st_m_bases n)
      by (unfold st_m_counts, st_cat_counts; rewrite tab_length; exact n_lt').
    rewrite strand_sum_is_merged, (st_o_base_0 H0), st_m_count_n, st_m_base_n.
    destruct w_merged_le as [L0 L1].
    destruct (Qeq_dec w_total 0) as [E|E].
    - (* nobody answered: count and base are 0, both sides NaN *)
      assert (E0 : (w_merged == 0)%Q) by (apply Qle_antisym; [rewrite <- E; exact L1| exact L0]).
      rewrite (xdiv_Proper _ _ (xeq_Fin _ _ E0) _ _ (xeq_Fin _ _ E)).
      rewrite (xdiv_zero_zero 0 0) by reflexivity.
      unfold var_cell, calc_var. simpl. reflexivity.
    - rewrite (xdiv_fin _ _ E).
      rewrite (variance_no_subtrahends (w_merged / w_total) w_total w_merged E (Qeq_refl _)).
      simpl. ring.
  Qed.

  Theorem merge_strand_stderr_sq rows_date : 0 < n ->
    let pw := strand_props_subtotals st_o_counts st_o_bases (vnth st_o_bases 0) rows_date subs in
    let bw := map (fun _ => vnth st_o_bases 0) subs in
    stderr_sq (vnth (strand_var_subtotals st_o_counts subs pw bw) kk) (vnth bw kk)
    =x= stderr_sq (vnth (strand_var_base (strand_props_base st_m_counts st_m_bases)) n) (vnth st_m_bases n).
  Proof.
    intros H0. cbv zeta. unfold stderr_sq. apply xdiv_Proper.
    - apply (merge_strand_variance rows_date H0).
    - rewrite (vnth_map_lt _ subs nosub kk Hkk). apply (merge_strand_base H0).
  Qed.
End StrandMerge.

(* ---- population estimate of the subtotal row (not a difference): N * f * proportion -------------- *)
Theorem merge_strand_population S v ms subs kk rows_date N f :
  kk < length subs -> s_sub (nth kk subs nosub) = [] ->
  Forall (fun i => i < n_valid ms) (s_add (nth kk subs nosub)) -> NoDup (s_add (nth kk subs nosub)) ->
  fresh_for v ms S -> 0 < nval ms ->
  pop_cell (vnth (strand_props_subtotals (st_o_counts S v ms) (st_o_bases S v ms) (vnth (st_o_bases S v ms) 0)
                                         rows_date subs) kk) N f false
  =x= pop_cell (vnth (strand_props_base (st_m_counts S v ms subs kk) (st_m_bases S v ms subs kk)) (nval ms)) N f false.
Proof.
  intros Hkk Hsub Hoffs Hnd Hfresh H0. unfold pop_cell.
  rewrite (merge_strand_proportion S v ms subs kk Hkk Hsub Hoffs Hnd Hfresh rows_date H0). reflexivity.
Qed.

(* ---- unweighted twins: the merged strand of the unit-weight survey is the unit-weight merged strand - *)
Theorem merged_strand_unit_weights S v ms subs kk :
  merged_strand_survey (unit_weights S) v ms subs kk = unit_weights (merged_strand_survey S v ms subs kk).
Proof. unfold merged_strand_survey. apply recode_unit_weights. Qed.
