(* GOLDEN obligations of the wiring translator for C18 (generated ONCE by tools/gen_wiring_props.py,
   then committed): what each public member of cubepart.py that C18 relies on IS, as a term of
   Base/WiringExp.v.  Gen/WiringSrc.v is regenerated from /repo on every check; an edit of the
   public layer that changes one of these members breaks the lemma below (reflexivity). *)
From Coq Require Import List ZArith String.
From CC Require Import Base.WiringExp Gen.WiringSrc.
Import ListNotations.
Local Open Scope string_scope.

(* lazyproperty.init *)
Lemma gen_wiring_lazyproperty_init :
  wsrc_lazyproperty_init = Some (WList [WCall (WGlobal "__assign__") [WAttr (WVar "self") "_fget";
      WVar "fget"] []; WCall (WAttr (WGlobal "functools") "update_wrapper") [WVar "self"; WVar
      "fget"] []]).
Proof. reflexivity. Qed.

(* lazyproperty.get *)
Lemma gen_wiring_lazyproperty_get :
  wsrc_lazyproperty_get = Some (WCall (WGlobal "__defaults__") [WList [WIf (WCmp "is" (WVar "obj")
      (WNone)) (WList [WCall (WGlobal "__return__") [WVar "self"] []]) (WList []); WCall (WGlobal
      "__assign__") [WVar "value"; WCall (WAttr (WAttr (WVar "obj") "__dict__") "get") [WAttr (WVar
      "self") "__name__"] []] []; WIf (WCmp "is" (WVar "value") (WNone)) (WList [WCall (WGlobal
      "__assign__") [WVar "value"; WCall (WAttr (WVar "self") "_fget") [WVar "obj"] []] []; WCall
      (WGlobal "__assign__") [WIndex (WAttr (WVar "obj") "__dict__") [WAttr (WVar "self")
      "__name__"]; WVar "value"] []]) (WList []); WCall (WGlobal "__return__") [WVar "value"] []]]
      [("type", WNone)]).
Proof. reflexivity. Qed.

(* lazyproperty.set *)
Lemma gen_wiring_lazyproperty_set :
  wsrc_lazyproperty_set = Some (WList [WRaise "AttributeError"]).
Proof. reflexivity. Qed.
