(* DimValuesProofs: what the definitions of Model/DimValues.v MEAN - the statements a user of the library relies
   on, independent of the source text (the tie to the text is Proofs/GenAgreeDimType*.v):

   C14  a category with no / a null numeric value contributes NaN to the scale statistics, one with the value 0
        contributes 0; missing categories contribute nothing; the k-th value belongs to the k-th valid element.
   C20  the smoother's window is the "window" entry of the transforms' "smoother" dict - 0 included (it is then
        refused by can_smooth, not silently replaced by the default) - and 2 only when there is none.
   C05  an analysis-specific element name replaces the label (an empty / null one suppresses it), an element's
        alias is never transformed; the dimension name cascade transforms > references.name > references.alias.
        A hidden insertion of an MR hides exactly the element whose value.id is its name. *)
From Coq Require Import List ZArith String Bool Lia Arith QArith.
From CC Require Import Base.XQ Base.Ident Base.PyList Base.PyDict Model.DimValues Model.Smoothing.
Import ListNotations.
Local Close Scope Q_scope.
Local Open Scope Z_scope.
Local Open Scope string_scope.

(* ---------------------------------------------------------------------------------------------------- C14 *)
(*@ C14 *)
Theorem numeric_value_absent_is_nan e :
  jget e "numeric_value" = None \/ jget e "numeric_value" = Some JNone ->
  xq_of_jv (numeric_value_of e) = NaN.
Proof. unfold numeric_value_of. intros [-> | ->]; reflexivity. Qed.

(*@ C14 *)
Theorem numeric_value_int_is_kept e z :
  jget e "numeric_value" = Some (JInt z) -> xq_of_jv (numeric_value_of e) = xofZ z.
Proof. unfold numeric_value_of. intros ->. reflexivity. Qed.

(* in particular the value 0 is a value *)
(*@ C14 *)
Corollary numeric_value_zero_is_not_nan e :
  jget e "numeric_value" = Some (JInt 0) -> is_nan (xq_of_jv (numeric_value_of e)) = false.
Proof. intros H. rewrite (numeric_value_int_is_kept e 0 H). reflexivity. Qed.

(*@ C14 *)
Theorem numeric_values_length defs : List.length (numeric_values defs) = List.length (valid_defs defs).
Proof. unfold numeric_values, numeric_values_jv. rewrite !map_length. reflexivity. Qed.

(*@ C14 *)
Theorem numeric_values_nth defs k : (k < List.length (valid_defs defs))%nat ->
  nth k (numeric_values defs) NaN = xq_of_jv (def_numeric_value (nth k (valid_defs defs) JNone)).
Proof.
  intros H. unfold numeric_values, numeric_values_jv. rewrite map_map.
  rewrite (nth_indep _ NaN (xq_of_jv (def_numeric_value JNone))) by (rewrite map_length; exact H).
  apply (map_nth (fun d => xq_of_jv (def_numeric_value d))).
Qed.

(*@ C14 *)
Theorem numeric_values_skip_missing l1 d l2 :
  DimValues.def_missing d = true -> numeric_values (l1 ++ d :: l2) = numeric_values (l1 ++ l2).
Proof.
  intros H. unfold numeric_values, numeric_values_jv, valid_defs.
  rewrite !filter_app. cbn [filter]. rewrite H. reflexivity.
Qed.

(* ---------------------------------------------------------------------------------------------------- C20 *)
(*@ C20 *)
Theorem window_given tr s w :
  jget tr "smoother" = Some (JDict s) -> jget s "window" = Some (JInt w) ->
  window_of (transforms_window tr) = w.
Proof.
  intros H1 H2. unfold transforms_window, raw_window, window_entry, smoother_of. rewrite H1.
  destruct s as [|kv s']; [discriminate H2|]. cbn [jv_truthy]. rewrite H2. reflexivity.
Qed.

(*@ C20 *)
Corollary window_zero_is_kept tr s :
  jget tr "smoother" = Some (JDict s) -> jget s "window" = Some (JInt 0) ->
  window_of (transforms_window tr) = 0.
Proof. apply window_given. Qed.

(*@ C20 *)
Theorem window_default tr :
  match jget tr "smoother" with
  | None | Some JNone => True
  | Some (JDict s) => jget s "window" = None \/ jget s "window" = Some JNone
  | Some _ => False
  end ->
  window_of (transforms_window tr) = 2.
Proof.
  unfold transforms_window, raw_window, window_entry, smoother_of.
  destruct (jget tr "smoother") as [[| | | | | |s]|]; try contradiction; try reflexivity.
  destruct s as [|kv s']; [reflexivity|]. cbn [jv_truthy]. intros [-> | ->]; reflexivity.
Qed.

(* ---------------------------------------------------------------------------------------------------- C05 *)
(*@ C05 *)
Theorem label_transform_wins xf e n :
  jget xf "name" = Some (JStr n) -> n <> "" -> element_label xf e = Some (JStr n).
Proof.
  intros H Hn. unfold element_label, xform_name. rewrite H. cbn [jv_truthy].
  destruct (String.eqb n "") eqn:E; [apply String.eqb_eq in E; contradiction|].
  cbn [negb jv_str option_map]. unfold jor_empty. cbn [jv_truthy]. rewrite E. reflexivity.
Qed.

(*@ C05 *)
Theorem label_empty_transform_suppresses xf e :
  jget xf "name" = Some (JStr "") \/ jget xf "name" = Some JNone -> element_label xf e = Some (JStr "").
Proof. unfold element_label, xform_name. intros [-> | ->]; reflexivity. Qed.

(*@ C05 *)
Theorem label_own_name xf e n :
  jget xf "name" = None -> jget e "name" = Some (JStr n) -> element_label xf e = Some (JStr n).
Proof.
  intros H1 H2. unfold element_label, xform_name, base_repr. rewrite H1, H2. unfold jor_empty. cbn [jv_truthy].
  destruct (String.eqb n "") eqn:E; [apply String.eqb_eq in E; subst|]; reflexivity.
Qed.

(* the label of an array element (a subvariable) is the name in its value's references *)
(*@ C05 *)
Theorem label_of_subvariable xf e val refs n :
  jget xf "name" = None -> jget e "name" = None -> jget e "value" = Some (JDict val) ->
  jget val "references" = Some (JDict refs) -> jget refs "name" = Some (JStr n) ->
  element_label xf e = Some (JStr n).
Proof.
  intros H1 H2 H3 H4 H5. unfold element_label, xform_name, base_repr. rewrite H1, H2, H3, H4, H5.
  unfold jor_empty. cbn [jv_truthy]. destruct (String.eqb n "") eqn:E; [apply String.eqb_eq in E; subst|]; reflexivity.
Qed.

(*@ C05 *)
Theorem alias_is_never_transformed e1 e2 : e1 = e2 -> element_alias e1 = element_alias e2.
Proof. intros ->. reflexivity. Qed.

(*@ C05 *)
Theorem dimension_name_cascade refs tr :
  dimension_name refs tr
  = match jget tr "name" with
    | Some v => jor_empty v
    | None => match jget refs "name" with
              | Some v => jor_empty v
              | None => match jget refs "alias" with Some v => jor_empty v | None => JStr "" end
              end
    end.
Proof.
  unfold dimension_name. destruct (jget tr "name"); [reflexivity|]. destruct (jget refs "name"); [reflexivity|].
  destruct (jget refs "alias"); reflexivity.
Qed.

(* a null name in the transforms suppresses the inherited one *)
(*@ C05 *)
Corollary dimension_name_null_transform refs tr :
  jget tr "name" = Some JNone -> dimension_name refs tr = JStr "".
Proof. intros H. rewrite dimension_name_cascade, H. reflexivity. Qed.

(* ------------------------------------------------------------------------------------------ hidden insertions *)
Lemma find_last_fold {A} c (l : list (ident * A)) acc :
  fold_left (fun acc kv => if ident_eqb (fst kv) c then Some (snd kv) else acc) l acc
  = match find_last c l with Some x => Some x | None => acc end.
Proof.
  revert acc. induction l as [|[k x] t IH]; intros acc; cbn [fold_left find_last fst snd]; [reflexivity|].
  rewrite IH. destruct (find_last c t); [reflexivity|]. destruct (ident_eqb k c); reflexivity.
Qed.

Lemma jd_get_keyed {A} (g : A -> jv) (d : list (ident * A)) c :
  jd_get (map (fun p => (jv_of_ident (fst p), g (snd p))) d) (jv_of_ident c) = option_map g (py_dict_get ident_eqb d c).
Proof.
  unfold jd_get. induction d as [|[k v] t IH]; cbn [map py_dict_get fst snd]; [reflexivity|].
  rewrite jv_eqb_ident. destruct (ident_eqb k c); [reflexivity | exact IH].
Qed.

Lemma find_last_value {A} c (l : list (ident * A)) x : find_last c l = Some x -> In x (map snd l).
Proof.
  induction l as [|[k y] t IH]; cbn [find_last map snd]; [discriminate|].
  destruct (find_last c t) as [z|].
  - intros H. inversion H; subst. right. apply IH. reflexivity.
  - destruct (ident_eqb k c); [|discriminate]. intros H. inversion H; subst. left. reflexivity.
Qed.

Lemma find_last_key {A} c (l : list (ident * A)) : In c (map fst l) <-> exists x, find_last c l = Some x.
Proof.
  induction l as [|[k y] t IH]; cbn [find_last map fst].
  - split; [intros [] | intros [x H]; discriminate].
  - split.
    + intros [->|H].
      * destruct (find_last c t) as [z|]; [exists z; reflexivity|]. rewrite ident_eqb_refl. exists y. reflexivity.
      * destruct (proj1 IH H) as [x Hx]. rewrite Hx. exists x. reflexivity.
    + intros [x H]. destruct (find_last c t) as [z|] eqn:E.
      * right. apply IH. exists z. reflexivity.
      * destruct (ident_eqb k c) eqn:Ek; [|discriminate]. left. apply ident_eqb_eq. exact Ek.
Qed.

Lemma find_last_hidden_pairs defs hidden eid :
  find_last eid (hidden_pairs defs hidden) = Some hide_true <->
  exists nm, In nm hidden /\ find_last nm defs = Some eid.
Proof.
  assert (Hall : forall x, In x (map snd (hidden_pairs defs hidden)) -> x = hide_true).
  { intros x Hx. apply in_map_iff in Hx. destruct Hx as ([k y] & <- & Hp). unfold hidden_pairs in Hp.
    apply in_flat_map in Hp. destruct Hp as (nm & _ & Hp).
    destruct (find_last nm defs); [destruct Hp as [Hp|[]]; inversion Hp; reflexivity | destruct Hp]. }
  assert (Hkey : In eid (map fst (hidden_pairs defs hidden)) <-> exists nm, In nm hidden /\ find_last nm defs = Some eid).
  { unfold hidden_pairs. split.
    - intros H. apply in_map_iff in H. destruct H as ([k y] & Hk & Hp). cbn [fst] in Hk. subst k.
      apply in_flat_map in Hp. destruct Hp as (nm & Hn & Hp). exists nm. split; [exact Hn|].
      destruct (find_last nm defs) as [e0|]; [destruct Hp as [Hp|[]]; inversion Hp; reflexivity | destruct Hp].
    - intros (nm & Hn & Hf). apply in_map_iff. exists (eid, hide_true). split; [reflexivity|].
      apply in_flat_map. exists nm. split; [exact Hn|]. rewrite Hf. left. reflexivity. }
  rewrite <- Hkey, find_last_key. split.
  - intros H. exists hide_true. exact H.
  - intros [x Hx]. rewrite Hx. f_equal. apply Hall. apply (find_last_value _ _ _ Hx).
Qed.

(* the transforms Elements._hidden_transforms adds hide exactly the elements whose value.id (the LAST element of
   that value.id) is the name of an insertion with a truthy "hide" *)
(*@ C05 *)
Theorem hidden_transforms_hides defs hidden eid :
  jd_get (hidden_transforms defs hidden) (jv_of_ident eid) = Some (JDict hide_true) <->
  exists nm, In nm hidden /\ find_last nm defs = Some eid.
Proof.
  unfold hidden_transforms. rewrite (jd_get_keyed (A:=jdict) JDict).
  rewrite (py_dict_get_of_pairs ident_eqb ident_eqb_eq), find_last_fold.
  rewrite <- find_last_hidden_pairs.
  generalize (find_last eid (hidden_pairs defs hidden)). intros [j|]; cbn [option_map]; split; intros H;
    try discriminate; inversion H; subst; reflexivity.
Qed.

(* ----------------------------------------------------------------------------------------------- datetime formats *)
(* every resolution reads a PREFIX of the full ISO form, and a coarser resolution never reads more than a finer one *)
(*@ C05 *)
Theorem datetime_formats_are_iso_prefixes r f :
  In (r, f) datetime_formats -> String.prefix f "%Y-%m-%dT%H:%M:%S.%f" = true.
Proof.
  unfold datetime_formats. cbn [In]. intros H.
  repeat (destruct H as [H|H]; [inversion H; subst; reflexivity|]). destruct H.
Qed.
