(* Proofs/GenAgreeSmoothedScaleMean.v -- GenAgree tie of matrix/measure.py::_ScaleMeanSmoothed.blocks as a
   whole (properties C20 / C14): the inherited `_ScaleMean.blocks` over the overridden `_proportions`, wired
   with MO.COLUMNS.  For every column-proportions base block m (nr x nc) and column-subtotal block ms, rows
   dimension values rvals with at least one value: block 0 is, column by column, [wmean] of the column of
   [smooth2 cd raw m] (the smoothed proportions), block 1 [wmean] of the unsmoothed subtotal columns -- up to
   Qeq.  The source of the comprehension is recognised (by conversion) as the term
   [gen_ScaleMeanSmoothed__proportions] is about. *)
From Coq Require Import QArith ZArith List Bool Lia Arith String ZifyBool Setoid Morphisms.
From CC Require Import Base.XQ Base.ListX Base.VecExp Model.Smoothing Model.Scale Proofs.SmoothingProofs
     Proofs.ScaleCongr Proofs.GenAgreeVecTac Proofs.GenAgreeSmoothTac Proofs.GenAgreeSmoothing
     Proofs.GenAgreeScaleTac Proofs.GenAgreeScaleMean Gen.SmoothingSrc Gen.ScaleSrc.
Import ListNotations.
Local Close Scope Q_scope.
Local Open Scope string_scope.
Local Open Scope nat_scope.

Definition sms_attrs nc m ncs ms rvals cvals : list (string * vval) :=
  [("_orientation", VEnum "MO.COLUMNS");
   ("_dimensions[0].numeric_values", VV rvals); ("_dimensions[1].numeric_values", VV cvals);
   ("_second_order_measures.column_proportions.blocks[0][0]", VM nc m);
   ("_second_order_measures.column_proportions.blocks[0][1]", VM ncs ms)].

Lemma vagrees_two_VM_inv X a A b B : vagrees X (VL [VM a A; VM b B]) ->
  exists A' B', X = VL [VM a A'; VM b B'] /\ mxeq_l A' A /\ mxeq_l B' B.
Proof.
  destruct X as [| | | | | | | | | | | | | | l]; simpl; try contradiction.
  destruct l as [|x [|y [|z l]]]; simpl; try tauto.
  destruct x; simpl; try tauto. destruct y; simpl; try tauto.
  intros [[-> HA] [[-> HB] _]]. eexists; eexists. split; [reflexivity|split; assumption].
Qed.

Lemma mxeq_l_length A B : mxeq_l A B -> List.length A = List.length B.
Proof. induction 1; simpl; congruence. Qed.

Lemma mcol_mxeq A B j : mxeq_l A B -> vxeq (mcol A j) (mcol B j).
Proof.
  unfold mcol. induction 1 as [|a b A B Hab HAB IH]; [constructor|]. cbn [map]. constructor; [|exact IH].
  apply vxeq_vnth. exact Hab.
Qed.

Lemma smoothed_mean_cols k M S vals : mxeq_l M S ->
  vxeq_l (map (fun r => wmean r vals) (cols_of k M)) (tab k (fun j => wmean (mcol S j) vals)).
Proof.
  intros H. unfold cols_of. rewrite map_tab. apply vxeq_l_tab. intros j Hj.
  apply wmean_vxeq. apply mcol_mxeq. exact H.
Qed.

Lemma v_for_two F a b : v_for F (VL [a; b]) = v_list [F a; F b].
Proof. reflexivity. Qed.

Lemma gen_ScaleMeanSmoothed_blocks :
  match vsrc_ScaleMeanSmoothed_blocks with
  | Some e => forall dt fn raw call nc m ncs ms rvals cvals,
      vsrc_ScaleMeanSmoothed__proportions <> None ->
      fn_ok fn -> Forall (fun r => List.length r = nc) m ->
      any_value rvals = true -> List.length m = List.length rvals -> List.length ms = List.length rvals ->
      exists b0 b1,
        veval (env_matrix_smoothed dt fn raw (alist (sms_attrs nc m ncs ms rvals cvals)) call) e
        = VL [VV b0; VV b1]
        /\ vxeq_l b0 (tab nc (fun j => wmean (mcol (smooth2 (is_cat_date dt) raw m) j) rvals))
        /\ vxeq_l b1 (tab ncs (fun j => wmean (mcol ms j) rvals))
  | None => True
  end.
Proof.
  unfold_vsrcs; try exact I.
  all: intros dt fn raw call nc m ncs ms rvals cvals Hs Hfn Hwf Hdef Hm Hms.
  all: pose proof gen_ScaleMeanSmoothed__proportions as G.
  all: destruct vsrc_ScaleMeanSmoothed__proportions as [pe|] eqn:Epe; [|congruence].
  all: specialize (G dt fn raw call nc m ncs ms Hfn Hwf).
  all: apply vagrees_two_VM_inv in G.
  all: destruct G as [M' [B' [EX [HM HB]]]].
  all: pose proof (mxeq_l_length _ _ HM) as HlM.
  all: pose proof (mxeq_l_length _ _ HB) as HlB.
  all: unfold smooth2 in HlM.
  all: assert (HlM' : List.length M' = List.length rvals)
         by (rewrite HlM; destruct (can_smooth _ _ _ _); rewrite ?map_length; exact Hm).
  all: assert (HlB' : List.length B' = List.length rvals) by lia.
  all: exists (map (fun r => wmean r rvals) (cols_of nc M')), (map (fun r => wmean r rvals) (cols_of ncs B')).
  all: split; [|split; apply smoothed_mean_cols; assumption].
  all: unfold vsrc_ScaleMeanSmoothed__proportions in Epe; injection Epe as Epe; subst pe.
  all: unfold env_matrix_smoothed, env_smoother, sms_attrs in *.
  all: vstage1.
  all: match goal with |- v_if _ _ (v_for _ ?PT) = _ =>
         match type of EX with veval ?EN ?T = _ => change PT with (veval EN T) end end.
  all: rewrite EX; clear EX HM HB HlM Hwf Hfn Hs.
  all: rewrite v_for_two; cbv beta.
  all: match goal with |- context [v_apply ?F _ _] => remember F as WF eqn:EWF end.
  all: vrun.
  all: rewrite all_isnan_any_value, Hdef; cbn [negb]; cbv iota.
  all: vsplit.
  all: subst WF.
  all: mean_apply_cols nc (List.length rvals).
  all: vrun.
  all: repeat match goal with H : (Z.of_nat ?k =? 0)%Z = true |- _ =>
         let E := fresh "E" in assert (E : k = 0) by lia; clear H; subst k end.
  all: reflexivity.
Qed.
