(* GenAgreeDimTypeComposeNumeric (C14): Dimension.numeric_values of EVERY dimension in terms of what the response
   says - the element definitions of the type definition in PAYLOAD order ([reorder] by the typedef's "order" list,
   Proofs/GenAgreeDimTypeOrder.v), the missing ones dropped ([valid_defs]), each read by [def_numeric_value]:
   [numeric_values_jv] of Model/DimValues.v, whose numbers are the vector [vals] of Model/Scale.v.  Composition of
   Proofs/GenAgreeDimTypeNumeric.v with Proofs/GenAgreeDimTypeOrder.v. *)
From Coq Require Import List ZArith String Bool Lia Arith.
From CC Require Import Base.XQ Base.PyList Base.PyDict Model.DimType Model.PyDimension Model.PyDimType
  Model.DimValues Gen.DimensionSrc Gen.DimTypeSrc Proofs.GenAgreeDimensionLib Proofs.GenAgreeDimTypeLib
  Proofs.GenAgreeDimTypeElems Proofs.GenAgreeDimTypeOrder Proofs.GenAgreeDimTypeNumeric.
From CC Require Base.Ident.
Import ListNotations.
Local Close Scope Q_scope.
Local Open Scope Z_scope.
Local Open Scope string_scope.

(* C14: Dimension.numeric_values of every dimension *)
(*@ C14 *)
Lemma gen_dimtype_Dimension_numeric_values_all :
  match src_Dimension_numeric_values, src_Dimension_valid_elements, src_Elements__hidden_transforms with
  | Some f, Some _, Some h => forall t dd tr ty defs rids ids o ax hid, dim_reads' t dd tr ty defs rids ids o ax ->
      (dtype_eqb t TMrSubvar = true ->
       h (JList (reorder rids defs o)) (jd_get_default tr (JStr "insertions") (JList [])) = Ok hid) ->
      f (mkPyDimension t (JDict dd) (JDict tr)) = Ok (numeric_values_jv (reorder rids defs o))
  | _, _, _ => True end.
Proof.
  generalize gen_dimtype_Dimension_numeric_values gen_dimtype_Dimension_valid_elements.
  destruct src_Dimension_numeric_values as [f|]; [|intros _ _; exact I].
  destruct src_Dimension_valid_elements as [g|]; [|intros _ _; destruct src_Elements__hidden_transforms; exact I].
  destruct src_Elements__hidden_transforms as [h|]; [|intros _ _; exact I].
  intros G1 G2 t dd tr ty defs rids ids o ax hid Hr Hh.
  pose proof (reorder_forall2 (wf_def t) rids defs ids o (dr_ids' _ _ _ _ _ _ _ _ _ Hr)) as Hw.
  rewrite (G1 _ _ (G2 t dd tr ty defs rids ids o ax hid Hr Hh)) by (apply valid_is_dict; exact Hw).
  f_equal. unfold numeric_values_jv, all_elems.
  rewrite <- (valid_pairs_defs _ _ (Forall2_len _ _ _ Hw)), map_map.
  generalize (valid_of_elements t (if dtype_eqb t TMrSubvar then jd_update hid ax else ax) _ _ 0%nat (Forall2_len _ _ _ Hw)).
  generalize (valid_pairs (reorder rids defs o) (reorder rids ids o)).
  generalize (valid_of (elements_from t (if dtype_eqb t TMrSubvar then jd_update hid ax else ax) 0
                                     (reorder rids defs o) (reorder rids ids o))).
  induction 1 as [|el di els dis [E _] _ IH]; [reflexivity|]. cbn [map]. rewrite E, IH. reflexivity.
Qed.

