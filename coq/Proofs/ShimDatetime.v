(* Datetime dimensions: elements may be referenced by position id or by value (C19). *)
From Coq Require Import ZArith List Bool Lia Arith String.
From CC Require Import Base.Ident Model.Shim Proofs.ShimSpec.
Import ListNotations.
Local Open Scope nat_scope.

Lemma dt_lookup_notin k d : ~ In k (dt_ids d) -> dt_lookup k d = None.
Proof.
  induction d as [|[k' v] t IH]; simpl; intros H; [reflexivity|].
  rewrite IH by (intros Hin; apply H; right; exact Hin).
  destruct (ident_eqb_spec k k') as [E|N]; [exfalso; apply H; left; congruence|reflexivity].
Qed.

Lemma dt_lookup_some k d v : dt_lookup k d = Some v -> In (k, v) d.
Proof.
  induction d as [|[k' v'] t IH]; simpl; intros H; [discriminate|].
  destruct (dt_lookup k t) as [w|] eqn:E.
  - inversion H; subst. right. apply IH. reflexivity.
  - destruct (ident_eqb_spec k k') as [E'|N]; [|discriminate]. inversion H; subst. left. reflexivity.
Qed.

Lemma dt_lookup_in k v d : NoDup (dt_ids d) -> In (k, v) d -> dt_lookup k d = Some v.
Proof.
  induction d as [|[k' v'] t IH]; simpl; intros Hn Hin; [contradiction|].
  inversion Hn as [|? ? Hk Ht]; subst. destruct Hin as [E|Hin].
  - inversion E; subst. rewrite dt_lookup_notin by exact Hk. rewrite ident_eqb_refl. reflexivity.
  - rewrite (IH Ht Hin). reflexivity.
Qed.

(* a value refers to its own element and is a fixed point of the translation *)
Lemma dt_translate_value d k v : dt_wf d -> In (k, DVal v) d -> dt_translate d v = TId v.
Proof.
  intros [_ Hv] Hin. unfold dt_translate. rewrite dt_lookup_notin; [reflexivity|].
  exact (Hv k v Hin).
Qed.

(* the position id, as int or as digit string, refers to the same element as its value *)
Lemma dt_translate_position d p v :
  dt_wf d -> In (IInt p, DVal v) d ->
  dt_translate d (IInt p) = TId v /\ ((0 <= p)%Z -> dt_translate d (IStr (dec p)) = TId v).
Proof.
  intros [Hn _] Hin. split.
  - unfold dt_translate. simpl. rewrite (dt_lookup_in _ _ d Hn Hin). reflexivity.
  - intros Hp. unfold dt_translate. simpl. rewrite (parse_uint_dec p Hp).
    rewrite (dt_lookup_in _ _ d Hn Hin). reflexivity.
Qed.

(* a reference that matches no id is left alone; the translation never raises (it is total) *)
Lemma dt_translate_stale d x : ~ In (dt_key x) (dt_ids d) -> dt_translate d x = TId x.
Proof. intros H. unfold dt_translate. rewrite dt_lookup_notin by exact H. reflexivity. Qed.

(* the position id of the missing ("No Data") element translates to an unhashable JSON
   object: open finding C19-datetime-missing-position *)
Lemma dt_translate_missing d k :
  NoDup (dt_ids d) -> In (k, DMissing) d -> dt_key k = k -> dt_translate d k = TObj.
Proof.
  intros Hn Hin Hk. unfold dt_translate. rewrite Hk. rewrite (dt_lookup_in _ _ d Hn Hin). reflexivity.
Qed.

Lemma dt_translate_idem d x y : dt_wf d -> dt_translate d x = TId y -> dt_translate d y = TId y.
Proof.
  intros W H. unfold dt_translate in H.
  destruct (dt_lookup (dt_key x) d) as [[v|]|] eqn:E.
  - inversion H; subst. apply dt_lookup_some in E. exact (dt_translate_value d _ y W E).
  - discriminate.
  - inversion H; subst. unfold dt_translate. rewrite E. reflexivity.
Qed.

Lemma dt_replaced_ids_idem d l r :
  dt_wf d -> dt_replaced_ids d l = map TId r -> dt_replaced_ids d r = map TId r.
Proof.
  intros W. revert r. induction l as [|x l IH]; intros r H; destruct r as [|y r]; try discriminate.
  - reflexivity.
  - simpl in H. inversion H as [[Hx Hl]]. simpl. rewrite (dt_translate_idem d x y W Hx).
    rewrite (IH r Hl). reflexivity.
Qed.
