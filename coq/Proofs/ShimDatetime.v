(* Datetime dimensions: elements may be referenced by position id or by value (C19). *)
From Coq Require Import ZArith List Bool Lia Arith String.
From CC Require Import Base.Ident Model.Shim Proofs.ShimSpec.
Import ListNotations.
Local Open Scope nat_scope.

Lemma dt_lookup_notin k d : ~ In k (dt_ids d) -> dt_lookup k d = None.
Proof.
  induction d as [|[k' v] t IH]; simpl; intros H; [reflexivity|].
  rewrite IH by (intros Hin; apply H; right; exact Hin).
  destruct v; [|reflexivity].
  destruct (ident_eqb_spec k k') as [E|N]; [exfalso; apply H; left; congruence|reflexivity].
Qed.

Lemma dt_lookup_some k d v : dt_lookup k d = Some v -> In (k, v) d.
Proof.
  induction d as [|[k' v'] t IH]; simpl; intros H; [discriminate|].
  destruct (dt_lookup k t) as [w|] eqn:E.
  - inversion H; subst. right. apply IH. reflexivity.
  - destruct v'; [|discriminate].
    destruct (ident_eqb_spec k k') as [E'|N]; [|discriminate]. inversion H; subst. left. reflexivity.
Qed.

(* the missing element is never found: it is not in _element_values_dict *)
Lemma dt_lookup_not_missing k d : dt_lookup k d <> Some DMissing.
Proof.
  induction d as [|[k' v'] t IH]; simpl; [discriminate|].
  destruct (dt_lookup k t) as [w|] eqn:E.
  - intros H. inversion H; subst. exact (IH eq_refl).
  - destruct v'; [|discriminate]. destruct (ident_eqb k k'); discriminate.
Qed.

Lemma dt_lookup_in k v d : NoDup (dt_ids d) -> In (k, DVal v) d -> dt_lookup k d = Some (DVal v).
Proof.
  induction d as [|[k' v'] t IH]; simpl; intros Hn Hin; [contradiction|].
  inversion Hn as [|? ? Hk Ht]; subst. destruct Hin as [E|Hin].
  - inversion E; subst. rewrite dt_lookup_notin by exact Hk. rewrite ident_eqb_refl. reflexivity.
  - rewrite (IH Ht Hin). reflexivity.
Qed.

Lemma dt_lookup_missing k d : NoDup (dt_ids d) -> In (k, DMissing) d -> dt_lookup k d = None.
Proof.
  induction d as [|[k' v'] t IH]; simpl; intros Hn Hin; [contradiction|].
  inversion Hn as [|? ? Hk Ht]; subst. destruct Hin as [E|Hin].
  - inversion E; subst. rewrite dt_lookup_notin by exact Hk. reflexivity.
  - rewrite (IH Ht Hin). destruct v'; [|reflexivity].
    destruct (ident_eqb_spec k k') as [E'|N]; [|reflexivity].
    exfalso. apply Hk. subst k'. unfold dt_ids. apply in_map_iff. exists (k, DMissing). split; [reflexivity|exact Hin].
Qed.

(* a value refers to its own element and is a fixed point of the translation *)
Lemma dt_translate_value d k v : dt_wf d -> In (k, DVal v) d -> dt_translate d v = TId v.
Proof.
  intros [_ Hv] Hin. unfold dt_translate. rewrite dt_lookup_notin; [reflexivity|].
  exact (Hv k v Hin).
Qed.

(* the position id, as int or as digit string, refers to the same element as its value *)
Lemma dt_translate_position d p v :
  dt_wf d -> In (IInt p, DVal v) d ->
  dt_translate d (IInt p) = TId v /\ ((0 <= p)%Z -> dt_translate d (IStr (dec p)) = TId v).
Proof.
  intros [Hn _] Hin. split.
  - unfold dt_translate. simpl. rewrite (dt_lookup_in _ _ d Hn Hin). reflexivity.
  - intros Hp. unfold dt_translate. simpl. rewrite (parse_uint_dec p Hp).
    rewrite (dt_lookup_in _ _ d Hn Hin). reflexivity.
Qed.

(* a reference that matches no id is left alone; the translation never raises (it is total) *)
Lemma dt_translate_stale d x : ~ In (dt_key x) (dt_ids d) -> dt_translate d x = TId x.
Proof. intros H. unfold dt_translate. rewrite dt_lookup_notin by exact H. reflexivity. Qed.

(* the position id of the missing ("No Data") element is left alone (REPAIRED defect
   C19-datetime-missing-position: it used to translate to the unhashable JSON object) *)
Lemma dt_translate_missing d k :
  NoDup (dt_ids d) -> In (k, DMissing) d -> dt_key k = k -> dt_translate d k = TId k.
Proof.
  intros Hn Hin Hk. unfold dt_translate. rewrite Hk. rewrite (dt_lookup_missing k d Hn Hin). reflexivity.
Qed.

(* no reference at all translates to the JSON object any more ... *)
Lemma dt_translate_never_obj d x : dt_translate d x <> TObj.
Proof.
  unfold dt_translate. destruct (dt_lookup (dt_key x) d) as [[v|]|] eqn:E; try discriminate.
  exfalso. exact (dt_lookup_not_missing _ _ E).
Qed.

Lemma tvals_ids_total d l : exists r, tvals_ids (map (dt_translate d) l) = Ok r.
Proof.
  induction l as [|x l [r IH]]; simpl; [eexists; reflexivity|].
  destruct (dt_translate d x) as [y|] eqn:E; [|exfalso; exact (dt_translate_never_obj d x E)].
  rewrite IH. eexists; reflexivity.
Qed.

(* ... so rewriting the element-transform keys of a datetime dimension never raises *)
Lemma dt_replaced_elements_total d e : exists e', dt_replaced_elements d e = Ok e'.
Proof.
  unfold dt_replaced_elements. destruct (tvals_ids_total d (map fst e)) as [ks Hk]. rewrite Hk.
  destruct (dget key_str e) as [[| |p]|]; eexists; reflexivity.
Qed.

Lemma dt_translate_idem d x y : dt_wf d -> dt_translate d x = TId y -> dt_translate d y = TId y.
Proof.
  intros W H. unfold dt_translate in H.
  destruct (dt_lookup (dt_key x) d) as [[v|]|] eqn:E.
  - inversion H; subst. apply dt_lookup_some in E. exact (dt_translate_value d _ y W E).
  - exfalso. exact (dt_lookup_not_missing _ _ E).
  - inversion H; subst. unfold dt_translate. rewrite E. reflexivity.
Qed.

Lemma dt_replaced_ids_idem d l r :
  dt_wf d -> dt_replaced_ids d l = map TId r -> dt_replaced_ids d r = map TId r.
Proof.
  intros W. revert r. induction l as [|x l IH]; intros r H; destruct r as [|y r]; try discriminate.
  - reflexivity.
  - simpl in H. inversion H as [[Hx Hl]]. simpl. rewrite (dt_translate_idem d x y W Hx).
    rewrite (IH r Hl). reflexivity.
Qed.

(* ---- the missing ("No Data") element(s) may sit ANYWHERE in the payload ----------------------
   The crosswalk is keyed by each element's OWN id field; elements after a missing one are NOT
   renumbered (their id is not their rank among the non-missing elements). *)
Lemma dt_translate_position_after_missing pre m post p v :
  dt_wf (pre ++ (m, DMissing) :: post) -> In (IInt p, DVal v) post ->
  dt_translate (pre ++ (m, DMissing) :: post) (IInt p) = TId v /\
  ((0 <= p)%Z -> dt_translate (pre ++ (m, DMissing) :: post) (IStr (dec p)) = TId v).
Proof.
  intros W Hin. apply dt_translate_position; [exact W|].
  apply in_or_app. right. right. exact Hin.
Qed.

(* whatever a position id (int or digit string) is translated to other than itself is the value
   of the element that carries that very id *)
Lemma dt_translate_own_element d x v :
  dt_translate d x = TId v -> v <> x -> In (dt_key x, DVal v) d.
Proof.
  unfold dt_translate. intros H Hne.
  destruct (dt_lookup (dt_key x) d) as [[w|]|] eqn:E.
  - inversion H; subst. exact (dt_lookup_some _ _ _ E).
  - discriminate.
  - inversion H; subst. exfalso. apply Hne. reflexivity.
Qed.
