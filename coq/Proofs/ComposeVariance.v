(* Proofs/ComposeVariance.v -- C11 END TO END.

   The model's proportion variance / squared standard error / squared margin of error of a base
   cell (Model/Variance.v: the three-term formula over the Positive / Negative term blocks),
   computed from the blocks the model extracts from the tabulation of a survey, IS the weighted
   variance of the membership indicator over the respondents of the proportion's base:

        l = [ (w_r, +1 if r is in the cell else 0) | r in S, r in the base ]     ([marks])
        variance (i, j) = spec_var l = Sum_l w (X - p)^2 / Sum_l w,   p = Sum_l w X / Sum_l w

   for the row, column and table direction, every CAT / MR x CAT / MR slice (2-D, 3-D partition),
   every survey with non-negative weights; it equals p (1 - p), is non-negative, and is NaN
   exactly when the base is 0.  std-err^2 = that variance / base, MoE^2 = 1.959964^2 std-err^2.
   Composes Proofs/VarianceProofs.v (abstract respondent lists) with the survey-level counts and
   bases (Proofs/ComposeBase.v) and proportions (Proofs/ComposeProportions.v). *)
From Coq Require Import QArith ZArith List Bool Lia Arith Setoid Morphisms.
From CC Require Import Base.XQ Base.ListX Spec.Survey Model.CubeCounts Model.Subtotals
     Model.Proportions Model.Variance Proofs.CubeCountsProofs Proofs.ProportionsProofs
     Proofs.VarianceProofs Proofs.ComposeBase Proofs.ComposeProportions.
Import ListNotations.
Local Close Scope Q_scope.
Local Open Scope nat_scope.

(* congruences (local names; the same facts exist in Proofs/MergeMeasures.v) *)
#[global] Instance compose_xsq_Proper : Proper (xeq ==> xeq) xsq.
Proof. intros a b H. unfold xsq. rewrite H. reflexivity. Qed.

#[global] Instance compose_calc_var_Proper :
  Proper (xeq ==> xeq ==> xeq ==> xeq ==> xeq ==> xeq) calc_var.
Proof.
  intros p p' Hp t t' Ht a a' Ha i i' Hi n n' Hn. unfold calc_var.
  rewrite Hp, Ht, Ha, Hi, Hn. reflexivity.
Qed.

#[global] Instance compose_var_cell_Proper : Proper (xeq ==> xeq ==> xeq ==> xeq ==> xeq) var_cell.
Proof.
  intros p p' Hp t t' Ht a a' Ha n n' Hn. unfold var_cell.
  rewrite Hp, Ht, Ha, Hn. reflexivity.
Qed.

(* ------------------------------------------------------------------------------------ *)
(** * from a survey to the respondent list of Proofs/VarianceProofs.v *)

(* the respondents of the base K, marked +1 when they are in the cell A, else 0 *)
Definition marks (S : survey) (K A : Survey.resp -> bool) : list VarianceProofs.resp :=
  map (fun r => (weight r, if A r then Pos else Zero)) (filter K S).

Lemma marks_w_tot S K A : (w_tot (marks S K A) == wsum S K)%Q.
Proof.
  unfold w_tot, marks, wsum. induction S as [|r S IH]; [reflexivity|].
  cbn [filter gsum fold_right]. fold (gsum S (fun r => ind (K r))).
  destruct (K r); cbn [map wsum_if ind]; rewrite IH; ring.
Qed.

Lemma marks_w_pos S K A : (w_pos (marks S K A) == wsum S (fun r => K r && A r))%Q.
Proof.
  unfold w_pos, marks, wsum. induction S as [|r S IH]; [reflexivity|].
  cbn [filter gsum fold_right]. fold (gsum S (fun r => ind (K r && A r))).
  destruct (K r); cbn [map wsum_if andb ind].
  - destruct (A r); cbn [ind]; rewrite IH; ring.
  - rewrite IH. ring.
Qed.

Lemma marks_w_neg S K A : (w_neg (marks S K A) == 0)%Q.
Proof.
  unfold w_neg, marks. induction (filter K S) as [|r t IH]; [reflexivity|].
  cbn [map wsum_if]. destruct (A r); rewrite IH; ring.
Qed.

Lemma marks_weights_nonneg S K A : wf_survey S ->
  forall w m, In (w, m) (marks S K A) -> (0 <= w)%Q.
Proof.
  intros Hwf w m Hin. unfold marks in Hin. apply in_map_iff in Hin.
  destruct Hin as [r [E Hr]]. injection E as Ew _. subst w.
  apply filter_In in Hr. destruct Hr as [Hr _].
  unfold wf_survey in Hwf. rewrite Forall_forall in Hwf. apply Hwf. exact Hr.
Qed.

Lemma wsum_subset S K A : (forall r, In r S -> A r = true -> K r = true) ->
  (wsum S (fun r => K r && A r) == wsum S A)%Q.
Proof.
  intros H. apply wsum_ext. intros r Hr. destruct (A r) eqn:E.
  - rewrite (H r Hr E). reflexivity.
  - apply andb_false_r.
Qed.

(* ------------------------------------------------------------------------------------ *)
(** * what a variance / std-err^2 / MoE^2 value must be, given the base's respondent list *)

Definition var_spec (x : xq) (l : list VarianceProofs.resp) (c b : Q) : Prop :=
  match x with
  | NaN => (b == 0)%Q
  | Fin v => ~ (b == 0)%Q /\ (v == spec_var l)%Q /\ (v == (c / b) * (1 - c / b))%Q /\ (0 <= v)%Q
  | Inf _ => False
  end.
Definition se_spec (x : xq) (l : list VarianceProofs.resp) (b : Q) : Prop :=
  match x with
  | NaN => (b == 0)%Q
  | Fin s => ~ (b == 0)%Q /\ (s == spec_var l / b)%Q /\ (0 <= s)%Q
  | Inf _ => False
  end.
Definition moe_spec (x : xq) (l : list VarianceProofs.resp) (b : Q) : Prop :=
  match x with
  | NaN => (b == 0)%Q
  | Fin m => ~ (b == 0)%Q /\ (m == Z975 * Z975 * (spec_var l / b))%Q /\ (0 <= m)%Q
  | Inf _ => False
  end.

Lemma xeq_nan_eq x : x =x= NaN -> x = NaN.
Proof. destruct x; simpl; intros H; try contradiction; reflexivity. Qed.

Lemma xeq_fin_inv x q : x =x= Fin q -> exists p, x = Fin p /\ (p == q)%Q.
Proof. destruct x as [p| |]; simpl; intros H; try contradiction. exists p. auto. Qed.

Lemma pos_of_nonneg_nz b : (0 <= b)%Q -> ~ (b == 0)%Q -> (0 < b)%Q.
Proof.
  intros H0 Hn. destruct (Qlt_le_dec 0 b) as [L|L]; auto. exfalso. apply Hn.
  apply Qle_antisym; assumption.
Qed.

(* the generic step: a cell whose count is w(A), base w(K), A a subset of K *)
Section Generic.
  Variable S : survey.
  Variables K A : Survey.resp -> bool.
  Hypothesis Hwf : wf_survey S.
  Hypothesis Hsub : forall r, In r S -> A r = true -> K r = true.
  Let c := wsum S A.
  Let b := wsum S K.
  Let l := marks S K A.

  Lemma cb_bounds : (0 <= c)%Q /\ (c <= b)%Q.
  Proof.
    split; [apply wsum_nonneg; exact Hwf|]. apply wsum_mono; [exact Hwf| exact Hsub].
  Qed.

  Lemma l_tot : (w_tot l == b)%Q. Proof. apply marks_w_tot. Qed.
  Lemma l_pos : (w_pos l == c)%Q.
  Proof. unfold l. rewrite marks_w_pos. apply wsum_subset. exact Hsub. Qed.
  Lemma l_neg : (w_neg l == 0)%Q. Proof. apply marks_w_neg. Qed.
  Lemma l_mean : ~ (b == 0)%Q -> (spec_mean l == c / b)%Q.
  Proof. intros Hb. rewrite spec_mean_counts, l_tot, l_pos, l_neg. field. exact Hb. Qed.

  (* the proportion is the mean of the indicator over the base *)
  Theorem proportion_is_indicator_mean p : ~ (b == 0)%Q -> p =x= xdiv (Fin c) (Fin b) ->
    p =x= Fin (spec_mean l).
  Proof. intros Hb Hp. rewrite Hp, (xdiv_fin _ _ Hb). simpl. symmetry. apply l_mean. exact Hb. Qed.

  Theorem var_cell_survey (p t cnt : xq) :
    p =x= xdiv (Fin c) (Fin b) -> t =x= Fin b -> cnt =x= Fin c ->
    var_spec (var_cell p t cnt (Fin 0)) l c b.
  Proof.
    intros Hp Ht Hc. destruct cb_bounds as [H0 Hcb].
    destruct (Qeq_dec b 0) as [Hb|Hb].
    - (* empty base: the proportion is NaN, so is the variance *)
      assert (Hc0 : (c == 0)%Q) by (apply Qle_antisym; [rewrite <- Hb; exact Hcb| exact H0]).
      assert (E : var_cell p t cnt (Fin 0) =x= NaN).
      { rewrite Hp, (xdiv_zero_zero c b Hc0 Hb). rewrite var_nan_prop. reflexivity. }
      apply xeq_nan_eq in E. rewrite E. exact Hb.
    - assert (Hl : ~ (w_tot l == 0)%Q) by (rewrite l_tot; exact Hb).
      assert (E : var_cell p t cnt (Fin 0) =x= Fin (spec_var l)).
      { rewrite <- (var_is_indicator_variance l Hl).
        apply compose_var_cell_Proper.
        - apply proportion_is_indicator_mean; assumption.
        - rewrite Ht. simpl. symmetry. apply l_tot.
        - rewrite Hc. simpl. symmetry. apply l_pos.
        - simpl. symmetry. apply l_neg. }
      assert (E2 : var_cell p t cnt (Fin 0) =x= Fin ((c / b) * (1 - c / b))%Q).
      { rewrite <- (var_no_negatives (c / b) b c Hb (Qeq_refl _)).
        apply compose_var_cell_Proper; [rewrite Hp, (xdiv_fin _ _ Hb); reflexivity| exact Ht| exact Hc| reflexivity]. }
      destruct (xeq_fin_inv _ _ E) as [v [Ev Hv]]. rewrite Ev in *. simpl in E2.
      split; [exact Hb|]. split; [exact Hv|]. split; [exact E2|].
      rewrite Hv. apply spec_var_nonneg; [apply marks_weights_nonneg; exact Hwf| exact Hl].
  Qed.

  Theorem stderr_sq_survey (v t : xq) :
    var_spec v l c b -> t =x= Fin b -> se_spec (stderr_sq v t) l b.
  Proof.
    intros Hv Ht. destruct cb_bounds as [H0 Hcb]. unfold var_spec in Hv. unfold stderr_sq.
    destruct v as [q|s|]; [|contradiction|].
    - destruct Hv as [Hb [Hq [_ Hq0]]].
      assert (E : xdiv (Fin q) t =x= Fin (q / b)) by (rewrite Ht, (xdiv_fin _ _ Hb); reflexivity).
      destruct (xeq_fin_inv _ _ E) as [s [Es Hs]]. rewrite Es. simpl.
      split; [exact Hb|]. split; [rewrite Hs, Hq; reflexivity|].
      rewrite Hs. apply Qle_shift_div_l.
      + apply pos_of_nonneg_nz; [eapply Qle_trans; eassumption| exact Hb].
      + rewrite Qmult_0_l. exact Hq0.
    - rewrite xdiv_nan_l. exact Hv.
  Qed.

  Theorem moe_sq_survey (s : xq) : se_spec s l b -> moe_spec (moe_sq s) l b.
  Proof.
    unfold se_spec, moe_spec, moe_sq. destruct s as [q|n|]; [|contradiction|].
    - intros [Hb [Hq Hq0]]. simpl. split; [exact Hb|]. split; [rewrite Hq; reflexivity|].
      apply Qmult_le_0_compat; [|exact Hq0]. unfold Z975. discriminate.
    - intros Hb. exact Hb.
  Qed.
End Generic.

(* ------------------------------------------------------------------------------------ *)
(** * the variance blocks of the analysis of a survey *)

Section Analysis.
  Variable S : survey.
  Variable tv : tvar.
  Variables vr : nat.
  Variable kr : kind.
  Variable mr : list bool.
  Variable vc : nat.
  Variable kc : kind.
  Variable mc : list bool.
  Variable k : nat.
  Variables rsubs csubs : list subtotal.
  Variables dn rd cd : bool.

  Notation nr := (nval mr).
  Notation nc := (nval mc).
  Notation C := (t_counts S tv vr kr mr vc kc mc k).

  (* weighted base blocks of the three directions, and the variance blocks built on them *)
  Definition s_row_bases : blocks := row_base_blocks nr nc rsubs csubs (t_rb S tv vr kr mr vc kc mc k).
  Definition s_col_bases : blocks := col_base_blocks nr nc rsubs csubs (t_cb S tv vr kr mr vc kc mc k).
  Definition s_tab_bases : blocks := table_base_blocks nr nc rsubs csubs (t_tb S tv vr kr mr vc kc mc k).
  Definition s_row_var : blocks :=
    variance_blocks C nr nc rsubs csubs (s_row_props S tv vr kr mr vc kc mc k rsubs csubs dn rd cd) s_row_bases.
  Definition s_col_var : blocks :=
    variance_blocks C nr nc rsubs csubs (s_col_props S tv vr kr mr vc kc mc k rsubs csubs dn rd cd) s_col_bases.
  Definition s_tab_var : blocks :=
    variance_blocks C nr nc rsubs csubs (s_tab_props S tv vr kr mr vc kc mc k rsubs csubs dn) s_tab_bases.

  Hypothesis Ht : t_ok tv.
  Hypothesis Hr : cat_or_mr kr.
  Hypothesis Hc : cat_or_mr kc.
  Hypothesis Hk : k < t_n tv.
  Hypothesis Hwf : wf_survey S.

  Notation cellp := (cell_in tv k vr kr mr vc kc mc).
  Notation rowp := (rowbase_in tv k vr kr mr vc kc mc).
  Notation colp := (colbase_in tv k vr kr mr vc kc mc).
  Notation tabp := (tabbase_in tv k vr kr mr vc kc mc).
  Notation wc := (w_cell tv k vr kr mr vc kc mc S).
  Notation wr := (w_rowbase tv k vr kr mr vc kc mc S).
  Notation wk := (w_colbase tv k vr kr mr vc kc mc S).
  Notation wt := (w_tabbase tv k vr kr mr vc kc mc S).

  Lemma cell_sub_row i j r : cellp i j r = true -> rowp i j r = true.
  Proof.
    unfold cell_in, rowbase_in. rewrite !andb_true_iff. intros [[H1 H2] H3].
    repeat split; auto. apply in_el_ok_el. exact H3.
  Qed.
  Lemma cell_sub_col i j r : cellp i j r = true -> colp i j r = true.
  Proof.
    unfold cell_in, colbase_in. rewrite !andb_true_iff. intros [[H1 H2] H3].
    repeat split; auto. apply in_el_ok_el. exact H2.
  Qed.
  Lemma cell_sub_tab i j r : cellp i j r = true -> tabp i j r = true.
  Proof.
    unfold cell_in, tabbase_in. rewrite !andb_true_iff. intros [[H1 H2] H3].
    repeat split; auto; apply in_el_ok_el; assumption.
  Qed.

  (* every base cell of a variance block is var_cell of ITS proportion, base, count and 0 *)
  Lemma var_base_cell P T i j : i < nr -> j < nc ->
    mnth (b_base (variance_blocks C nr nc rsubs csubs P T)) i j
    = var_cell (mnth (b_base P) i j) (mnth (b_base T) i j) (mnth C i j) (Fin 0).
  Proof.
    intros Hi Hj.
    destruct (var_blocks_pointwise C nr nc rsubs csubs P T) as [Hb _]. rewrite (Hb i j Hi Hj).
    destruct (pos_neg_base C nr nc rsubs csubs i j Hi Hj) as [-> ->]. reflexivity.
  Qed.

  (* ---- variance ---------------------------------------------------------------------- *)
  Theorem row_variance_survey i j : i < nr -> j < nc ->
    var_spec (mnth (b_base s_row_var) i j) (marks S (rowp i j) (cellp i j)) (wc i j) (wr i j).
  Proof.
    intros Hi Hj. unfold s_row_var. rewrite (var_base_cell _ _ i j Hi Hj).
    apply (var_cell_survey S (rowp i j) (cellp i j) Hwf (fun r _ => cell_sub_row i j r)).
    - apply (row_proportion_survey S tv vr kr mr vc kc mc k rsubs csubs dn rd cd Ht Hr Hc Hk i j Hi Hj).
    - apply (t_rb_cell S tv vr kr mr vc kc mc k Ht Hr Hc Hk i j Hi Hj).
    - apply (t_counts_cell S tv vr kr mr vc kc mc k Ht Hr Hc Hk i j Hi Hj).
  Qed.
  Theorem column_variance_survey i j : i < nr -> j < nc ->
    var_spec (mnth (b_base s_col_var) i j) (marks S (colp i j) (cellp i j)) (wc i j) (wk i j).
  Proof.
    intros Hi Hj. unfold s_col_var. rewrite (var_base_cell _ _ i j Hi Hj).
    apply (var_cell_survey S (colp i j) (cellp i j) Hwf (fun r _ => cell_sub_col i j r)).
    - apply (column_proportion_survey S tv vr kr mr vc kc mc k rsubs csubs dn rd cd Ht Hr Hc Hk i j Hi Hj).
    - apply (t_cb_cell S tv vr kr mr vc kc mc k Ht Hr Hc Hk i j Hi Hj).
    - apply (t_counts_cell S tv vr kr mr vc kc mc k Ht Hr Hc Hk i j Hi Hj).
  Qed.
  Theorem table_variance_survey i j : i < nr -> j < nc ->
    var_spec (mnth (b_base s_tab_var) i j) (marks S (tabp i j) (cellp i j)) (wc i j) (wt i j).
  Proof.
    intros Hi Hj. unfold s_tab_var. rewrite (var_base_cell _ _ i j Hi Hj).
    apply (var_cell_survey S (tabp i j) (cellp i j) Hwf (fun r _ => cell_sub_tab i j r)).
    - apply (table_proportion_survey S tv vr kr mr vc kc mc k rsubs csubs dn Ht Hr Hc Hk i j Hi Hj).
    - apply (t_tb_cell S tv vr kr mr vc kc mc k Ht Hr Hc Hk i j Hi Hj).
    - apply (t_counts_cell S tv vr kr mr vc kc mc k Ht Hr Hc Hk i j Hi Hj).
  Qed.

  (* ---- squared standard error = variance / weighted base ----------------------------- *)
  Theorem row_stderr_sq_survey i j : i < nr -> j < nc ->
    se_spec (stderr_sq (mnth (b_base s_row_var) i j) (mnth (b_base s_row_bases) i j))
            (marks S (rowp i j) (cellp i j)) (wr i j).
  Proof.
    intros Hi Hj.
    apply (stderr_sq_survey S (rowp i j) (cellp i j) Hwf (fun r _ => cell_sub_row i j r)).
    - apply row_variance_survey; assumption.
    - apply (t_rb_cell S tv vr kr mr vc kc mc k Ht Hr Hc Hk i j Hi Hj).
  Qed.
  Theorem column_stderr_sq_survey i j : i < nr -> j < nc ->
    se_spec (stderr_sq (mnth (b_base s_col_var) i j) (mnth (b_base s_col_bases) i j))
            (marks S (colp i j) (cellp i j)) (wk i j).
  Proof.
    intros Hi Hj.
    apply (stderr_sq_survey S (colp i j) (cellp i j) Hwf (fun r _ => cell_sub_col i j r)).
    - apply column_variance_survey; assumption.
    - apply (t_cb_cell S tv vr kr mr vc kc mc k Ht Hr Hc Hk i j Hi Hj).
  Qed.
  Theorem table_stderr_sq_survey i j : i < nr -> j < nc ->
    se_spec (stderr_sq (mnth (b_base s_tab_var) i j) (mnth (b_base s_tab_bases) i j))
            (marks S (tabp i j) (cellp i j)) (wt i j).
  Proof.
    intros Hi Hj.
    apply (stderr_sq_survey S (tabp i j) (cellp i j) Hwf (fun r _ => cell_sub_tab i j r)).
    - apply table_variance_survey; assumption.
    - apply (t_tb_cell S tv vr kr mr vc kc mc k Ht Hr Hc Hk i j Hi Hj).
  Qed.

  (* ---- squared margin of error = 1.959964^2 * std-err^2 ------------------------------- *)
  Theorem row_moe_sq_survey i j : i < nr -> j < nc ->
    moe_spec (moe_sq (stderr_sq (mnth (b_base s_row_var) i j) (mnth (b_base s_row_bases) i j)))
             (marks S (rowp i j) (cellp i j)) (wr i j).
  Proof. intros Hi Hj. apply moe_sq_survey. apply row_stderr_sq_survey; assumption. Qed.
  Theorem column_moe_sq_survey i j : i < nr -> j < nc ->
    moe_spec (moe_sq (stderr_sq (mnth (b_base s_col_var) i j) (mnth (b_base s_col_bases) i j)))
             (marks S (colp i j) (cellp i j)) (wk i j).
  Proof. intros Hi Hj. apply moe_sq_survey. apply column_stderr_sq_survey; assumption. Qed.
  Theorem table_moe_sq_survey i j : i < nr -> j < nc ->
    moe_spec (moe_sq (stderr_sq (mnth (b_base s_tab_var) i j) (mnth (b_base s_tab_bases) i j)))
             (marks S (tabp i j) (cellp i j)) (wt i j).
  Proof. intros Hi Hj. apply moe_sq_survey. apply table_stderr_sq_survey; assumption. Qed.
End Analysis.
