(* GOLDEN obligations of the wiring translator for C06 (generated ONCE by tools/gen_wiring_props.py,
   then committed): what each public member of cubepart.py that C06 relies on IS, as a term of
   Base/WiringExp.v.  Gen/WiringSrc.v is regenerated from /repo on every check; an edit of the
   public layer that changes one of these members breaks the lemma below (reflexivity). *)
From Coq Require Import List ZArith String.
From CC Require Import Base.WiringExp Gen.WiringSrc.
Import ListNotations.
Local Open Scope string_scope.

(* CubePartition.factory *)
Lemma gen_wiring_CubePartition_factory :
  wsrc_CubePartition_factory = Some (WCall (WGlobal "__defaults__") [WIf (WCmp "==" (WAttr (WVar
      "cube") "ndim") (WInt (0)%Z)) (WCall (WGlobal "_Nub") [WVar "cube"] []) (WIf (WBoolOp "or"
      [WCmp "==" (WAttr (WVar "cube") "ndim") (WInt (1)%Z); WVar "ca_as_0th"]) (WCall (WGlobal
      "_Strand") [WVar "cube"; WVar "transforms"; WVar "population"; WVar "ca_as_0th"; WVar
      "slice_idx"; WVar "mask_size"] []) (WCall (WGlobal "_Slice") [WVar "cube"; WVar "slice_idx";
      WVar "transforms"; WVar "population"; WVar "mask_size"] []))] [("slice_idx", WInt (0)%Z);
      ("transforms", WNone); ("population", WNone); ("ca_as_0th", WNone); ("mask_size", WInt
      (0)%Z)]).
Proof. reflexivity. Qed.

(* CubePartition.cube_index *)
Lemma gen_wiring_CubePartition_cube_index :
  wsrc_CubePartition_cube_index = Some (WAttr (WSelf "_cube") "cube_index").
Proof. reflexivity. Qed.

(* _Slice.tab_label *)
Lemma gen_wiring_Slice_tab_label :
  wsrc_Slice_tab_label = Some (WIf (WCmp "==" (WAttr (WIndex (WAttr (WSelf "_cube") "dimensions")
      [WInt (0)%Z]) "dimension_type") (WAttr (WGlobal "DT") "CA_SUBVAR")) (WAttr (WIndex (WAttr
      (WIndex (WAttr (WSelf "_cube") "dimensions") [WInt (0)%Z]) "valid_elements") [WSelf
      "_slice_idx"]) "label") (WStr "")).
Proof. reflexivity. Qed.

(* _Slice.tab_alias *)
Lemma gen_wiring_Slice_tab_alias :
  wsrc_Slice_tab_alias = Some (WIf (WCmp "==" (WAttr (WIndex (WAttr (WSelf "_cube") "dimensions")
      [WInt (0)%Z]) "dimension_type") (WAttr (WGlobal "DT") "CA_SUBVAR")) (WAttr (WIndex (WAttr
      (WIndex (WAttr (WSelf "_cube") "dimensions") [WInt (0)%Z]) "valid_elements") [WSelf
      "_slice_idx"]) "alias") (WStr "")).
Proof. reflexivity. Qed.

(* _Slice._measures *)
Lemma gen_wiring_Slice__measures :
  wsrc_Slice__measures = Some (WCall (WGlobal "SecondOrderMeasures") [WSelf "_cube"; WSelf
      "_dimensions"; WSelf "_slice_idx"] []).
Proof. reflexivity. Qed.

(* _Strand.tab_label *)
Lemma gen_wiring_Strand_tab_label :
  wsrc_Strand_tab_label = Some (WIf (WCmp "==" (WAttr (WIndex (WAttr (WSelf "_cube") "dimensions")
      [WInt (0)%Z]) "dimension_type") (WAttr (WGlobal "DT") "CA_SUBVAR")) (WAttr (WIndex (WAttr
      (WIndex (WAttr (WSelf "_cube") "dimensions") [WInt (0)%Z]) "valid_elements") [WSelf
      "_slice_idx"]) "label") (WStr "")).
Proof. reflexivity. Qed.

(* _Strand.tab_alias *)
Lemma gen_wiring_Strand_tab_alias :
  wsrc_Strand_tab_alias = Some (WIf (WCmp "==" (WAttr (WIndex (WAttr (WSelf "_cube") "dimensions")
      [WInt (0)%Z]) "dimension_type") (WAttr (WGlobal "DT") "CA_SUBVAR")) (WAttr (WIndex (WAttr
      (WIndex (WAttr (WSelf "_cube") "dimensions") [WInt (0)%Z]) "valid_elements") [WSelf
      "_slice_idx"]) "alias") (WStr "")).
Proof. reflexivity. Qed.

(* _Strand._measures *)
Lemma gen_wiring_Strand__measures :
  wsrc_Strand__measures = Some (WCall (WGlobal "StripeMeasures") [WSelf "_cube"; WSelf
      "_rows_dimension"; WSelf "_ca_as_0th"; WSelf "_slice_idx"] []).
Proof. reflexivity. Qed.

(* SecondOrderMeasures._cube_measures *)
Lemma gen_wiring_SecondOrderMeasures__cube_measures :
  wsrc_SecondOrderMeasures__cube_measures = Some (WCall (WGlobal "CubeMeasures") [WSelf "_cube"; WSelf
      "_dimensions"; WSelf "_slice_idx"] []).
Proof. reflexivity. Qed.

(* StripeMeasures._cube_measures *)
Lemma gen_wiring_StripeMeasures__cube_measures :
  wsrc_StripeMeasures__cube_measures = Some (WCall (WGlobal "CubeMeasures") [WSelf "_cube"; WSelf
      "_rows_dimension"; WSelf "_ca_as_0th"; WSelf "_slice_idx"] []).
Proof. reflexivity. Qed.
