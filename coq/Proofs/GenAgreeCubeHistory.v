(* GenAgreeCubeHistory: the closed form of Cube._cube_response (Model/PyCube.v parsed_response, tied to the
   source text by gen_cube_Cube__cube_response) IS Model/History.v's [cube_response]: a response passed as a
   dict or as JSON text, itself or inside shoji envelopes {"value": ..}, is read with exactly ONE envelope
   taken off - for every nesting and every response (that has no "value" key of its own). *)
From Coq Require Import List ZArith QArith String Bool Lia Arith.
From CC Require Import Base.XQ Base.PyList Base.PyJson Model.CubeCounts Model.DimType Model.PyCube
  Proofs.GenAgreeCubeLib.
From CC Require Model.History.
Import ListNotations.
Local Close Scope Q_scope.
Local Open Scope Z_scope.
Local Open Scope string_scope.

(* a response of type R with the keys [body r], possibly inside envelopes *)
Fixpoint rjson_json {R} (body : R -> list (string * json)) (j : History.rjson R) : json :=
  match j with
  | History.JResp r => JDict (body r)
  | History.JEnvelope v => JDict [("value", rjson_json body v)]
  end.

(*@ C18 *)
Lemma cube_parsed_response_dict :
  forall (R : Type) (body : R -> list (string * json)), (forall r, dget (body r) "value" = None) ->
  forall X j, parsed_response X (rjson_json body j)
              = POk (rjson_json body (History.cube_response (History.ArgDict j))).
Proof.
  intros R body no_value X [r|v]; unfold parsed_response; cbn.
  - unfold dget in no_value. rewrite no_value. reflexivity.
  - reflexivity.
Qed.

(*@ C18 *)
Lemma cube_parsed_response_text :
  forall (R : Type) (body : R -> list (string * json)), (forall r, dget (body r) "value" = None) ->
  forall X s j, x_json_loads X s = POk (rjson_json body j) ->
    parsed_response X (JStr s) = POk (rjson_json body (History.cube_response (History.ArgText j))).
Proof.
  intros R body no_value X s [r|v] H; unfold parsed_response; cbn; rewrite H; cbn.
  - unfold dget in no_value. rewrite no_value. reflexivity.
  - reflexivity.
Qed.
