(* C18: the top-level statement - for every list of operations (build a Cube / CubeSet / partition
   object on shared, caller-owned argument objects; read property p of object o) every read equals
   the read on pristine copies and the caller-owned objects are the pristine ones afterwards - as
   one conjunction over the three operation languages of Model/History.v. *)
From Coq Require Import ZArith List Bool Lia Arith String.
From CC Require Import Base.Ident Model.Shim Model.History Proofs.HistoryProofs Proofs.HistoryArray
  Proofs.HistorySets.
Import ListNotations.
Local Open Scope nat_scope.

Theorem history_pure :
  (* transforms dicts shared by any number of partition objects on any array dimensions *)
  (forall (ts : nat -> xf) (ops : list (op adim aprop)),
     arun ts ops = arun_pristine ts ops /\ forall i, arun_dict ts ops i = ts i) /\
  (* responses shared by any number of Cubes and CubeSets (numeric-measure sets included) *)
  (forall (r0 : nat -> nat) (ops : list rop),
     rrun r0 ops = rrun_pristine r0 ops /\ rrun_state r0 ops = r0) /\
  (* a summary and a single-filter-column response shared by CubeSets and Cubes *)
  (forall (s f0 : aresp) (ops : list aop),
     a_run s f0 ops = a_run_pristine s f0 ops /\ a_run_state s f0 ops = f0).
Proof.
  split; [|split].
  - intros ts ops. split; [apply array_reads_pure|]. intros i. apply array_dicts_unchanged.
  - intros r0 ops. split; [apply response_reads_pure|apply rrun_state_unchanged].
  - intros s f0 ops. split; [apply a_reads_pure|apply a_run_state_unchanged].
Qed.
