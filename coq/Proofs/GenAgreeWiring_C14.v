(* GOLDEN obligations of the wiring translator for C14 (generated ONCE by tools/gen_wiring_props.py,
   then committed): what each public member of cubepart.py that C14 relies on IS, as a term of
   Base/WiringExp.v.  Gen/WiringSrc.v is regenerated from /repo on every check; an edit of the
   public layer that changes one of these members breaks the lemma below (reflexivity). *)
From Coq Require Import List ZArith String.
From CC Require Import Base.WiringExp Gen.WiringSrc.
Import ListNotations.
Local Open Scope string_scope.

(* _Slice.columns_scale_mean *)
Lemma gen_wiring_Slice_columns_scale_mean :
  wsrc_Slice_columns_scale_mean = Some (w_marginal_of "columns_scale_mean").
Proof. reflexivity. Qed.

(* _Slice.columns_scale_mean_margin *)
Lemma gen_wiring_Slice_columns_scale_mean_margin :
  wsrc_Slice_columns_scale_mean_margin = Some (WIf (WCall (WAttr (WGlobal "np") "all") [WCall (WAttr
      (WGlobal "np") "isnan") [WCall (WAttr (WGlobal "np") "array") [WAttr (WSelf "_rows_dimension")
      "numeric_values"] [("dtype", WAttr (WGlobal "np") "float64")]] []] []) (WNone) (WBin "/"
      (WCall (WAttr (WGlobal "np") "nansum") [WBin "*" (WCall (WAttr (WGlobal "np") "array") [WAttr
      (WSelf "_rows_dimension") "numeric_values"] [("dtype", WAttr (WGlobal "np") "float64")])
      (WIndex (WIndex (WIndex (WAttr (WAttr (WSelf "_measures") "row_weighted_bases") "blocks")
      [WInt (0)%Z]) [WInt (0)%Z]) [WSlice (WNone) (WNone); WInt (0)%Z])] []) (WCall (WAttr (WGlobal
      "np") "sum") [WIndex (WIndex (WIndex (WIndex (WAttr (WAttr (WSelf "_measures")
      "row_weighted_bases") "blocks") [WInt (0)%Z]) [WInt (0)%Z]) [WSlice (WNone) (WNone); WInt
      (0)%Z]) [WUn "~" (WCall (WAttr (WGlobal "np") "isnan") [WCall (WAttr (WGlobal "np") "array")
      [WAttr (WSelf "_rows_dimension") "numeric_values"] [("dtype", WAttr (WGlobal "np")
      "float64")]] [])]] []))).
Proof. reflexivity. Qed.

(* _Slice.columns_scale_mean_stddev *)
Lemma gen_wiring_Slice_columns_scale_mean_stddev :
  wsrc_Slice_columns_scale_mean_stddev = Some (w_marginal_of "columns_scale_mean_stddev").
Proof. reflexivity. Qed.

(* _Slice.columns_scale_mean_stderr *)
Lemma gen_wiring_Slice_columns_scale_mean_stderr :
  wsrc_Slice_columns_scale_mean_stderr = Some (w_marginal_of "columns_scale_mean_stderr").
Proof. reflexivity. Qed.

(* _Slice.columns_scale_median *)
Lemma gen_wiring_Slice_columns_scale_median :
  wsrc_Slice_columns_scale_median = Some (w_marginal_of "columns_scale_median").
Proof. reflexivity. Qed.

(* _Slice.columns_scale_median_margin *)
Lemma gen_wiring_Slice_columns_scale_median_margin :
  wsrc_Slice_columns_scale_median_margin = Some (WIf (WCall (WAttr (WGlobal "np") "all") [WCall (WAttr
      (WGlobal "np") "isnan") [WCall (WAttr (WGlobal "np") "array") [WAttr (WSelf "_rows_dimension")
      "numeric_values"] [("dtype", WAttr (WGlobal "np") "float64")]] []] []) (WNone) (WIf (WCmp "!="
      (WAttr (WCall (WAttr (WGlobal "np") "repeat") [WIndex (WCall (WAttr (WGlobal "np") "array")
      [WAttr (WSelf "_rows_dimension") "numeric_values"] [("dtype", WAttr (WGlobal "np")
      "float64")]) [WUn "~" (WCall (WAttr (WGlobal "np") "isnan") [WCall (WAttr (WGlobal "np")
      "array") [WAttr (WSelf "_rows_dimension") "numeric_values"] [("dtype", WAttr (WGlobal "np")
      "float64")]] [])]; WCall (WAttr (WCall (WAttr (WGlobal "np") "nan_to_num") [WIndex (WIndex
      (WIndex (WIndex (WAttr (WAttr (WSelf "_measures") "row_weighted_bases") "blocks") [WInt
      (0)%Z]) [WInt (0)%Z]) [WSlice (WNone) (WNone); WInt (0)%Z]) [WUn "~" (WCall (WAttr (WGlobal
      "np") "isnan") [WCall (WAttr (WGlobal "np") "array") [WAttr (WSelf "_rows_dimension")
      "numeric_values"] [("dtype", WAttr (WGlobal "np") "float64")]] [])]] []) "astype") [WStr
      "int64"] []] []) "size") (WInt (0)%Z)) (WCall (WAttr (WGlobal "np") "median") [WCall (WAttr
      (WGlobal "np") "repeat") [WIndex (WCall (WAttr (WGlobal "np") "array") [WAttr (WSelf
      "_rows_dimension") "numeric_values"] [("dtype", WAttr (WGlobal "np") "float64")]) [WUn "~"
      (WCall (WAttr (WGlobal "np") "isnan") [WCall (WAttr (WGlobal "np") "array") [WAttr (WSelf
      "_rows_dimension") "numeric_values"] [("dtype", WAttr (WGlobal "np") "float64")]] [])]; WCall
      (WAttr (WCall (WAttr (WGlobal "np") "nan_to_num") [WIndex (WIndex (WIndex (WIndex (WAttr
      (WAttr (WSelf "_measures") "row_weighted_bases") "blocks") [WInt (0)%Z]) [WInt (0)%Z]) [WSlice
      (WNone) (WNone); WInt (0)%Z]) [WUn "~" (WCall (WAttr (WGlobal "np") "isnan") [WCall (WAttr
      (WGlobal "np") "array") [WAttr (WSelf "_rows_dimension") "numeric_values"] [("dtype", WAttr
      (WGlobal "np") "float64")]] [])]] []) "astype") [WStr "int64"] []] []] []) (WNone))).
Proof. reflexivity. Qed.

(* _Slice.has_scale_means *)
Lemma gen_wiring_Slice_has_scale_means :
  wsrc_Slice_has_scale_means = Some (WIf (WCmp "is not" (WSelf "columns_scale_mean") (WNone)) (WTrue)
      (WFalse)).
Proof. reflexivity. Qed.

(* _Slice.rows_scale_mean *)
Lemma gen_wiring_Slice_rows_scale_mean :
  wsrc_Slice_rows_scale_mean = Some (w_marginal_of "rows_scale_mean").
Proof. reflexivity. Qed.

(* _Slice.rows_scale_mean_margin *)
Lemma gen_wiring_Slice_rows_scale_mean_margin :
  wsrc_Slice_rows_scale_mean_margin = Some (WIf (WCall (WAttr (WGlobal "np") "all") [WCall (WAttr
      (WGlobal "np") "isnan") [WCall (WAttr (WGlobal "np") "array") [WAttr (WIndex (WSelf
      "_dimensions") [WInt (1)%Z]) "numeric_values"] [("dtype", WAttr (WGlobal "np") "float64")]]
      []] []) (WNone) (WBin "/" (WCall (WAttr (WGlobal "np") "nansum") [WBin "*" (WCall (WAttr
      (WGlobal "np") "array") [WAttr (WIndex (WSelf "_dimensions") [WInt (1)%Z]) "numeric_values"]
      [("dtype", WAttr (WGlobal "np") "float64")]) (WIndex (WIndex (WIndex (WAttr (WAttr (WSelf
      "_measures") "column_weighted_bases") "blocks") [WInt (0)%Z]) [WInt (0)%Z]) [WInt (0)%Z;
      WSlice (WNone) (WNone)])] []) (WCall (WAttr (WGlobal "np") "sum") [WIndex (WIndex (WIndex
      (WIndex (WAttr (WAttr (WSelf "_measures") "column_weighted_bases") "blocks") [WInt (0)%Z])
      [WInt (0)%Z]) [WInt (0)%Z; WSlice (WNone) (WNone)]) [WUn "~" (WCall (WAttr (WGlobal "np")
      "isnan") [WCall (WAttr (WGlobal "np") "array") [WAttr (WIndex (WSelf "_dimensions") [WInt
      (1)%Z]) "numeric_values"] [("dtype", WAttr (WGlobal "np") "float64")]] [])]] []))).
Proof. reflexivity. Qed.

(* _Slice.rows_scale_mean_stddev *)
Lemma gen_wiring_Slice_rows_scale_mean_stddev :
  wsrc_Slice_rows_scale_mean_stddev = Some (w_marginal_of "rows_scale_mean_stddev").
Proof. reflexivity. Qed.

(* _Slice.rows_scale_mean_stderr *)
Lemma gen_wiring_Slice_rows_scale_mean_stderr :
  wsrc_Slice_rows_scale_mean_stderr = Some (w_marginal_of "rows_scale_mean_stderr").
Proof. reflexivity. Qed.

(* _Slice.rows_scale_median *)
Lemma gen_wiring_Slice_rows_scale_median :
  wsrc_Slice_rows_scale_median = Some (w_marginal_of "rows_scale_median").
Proof. reflexivity. Qed.

(* _Slice.rows_scale_median_margin *)
Lemma gen_wiring_Slice_rows_scale_median_margin :
  wsrc_Slice_rows_scale_median_margin = Some (WIf (WCall (WAttr (WGlobal "np") "all") [WCall (WAttr
      (WGlobal "np") "isnan") [WCall (WAttr (WGlobal "np") "array") [WAttr (WIndex (WSelf
      "_dimensions") [WInt (1)%Z]) "numeric_values"] [("dtype", WAttr (WGlobal "np") "float64")]]
      []] []) (WNone) (WIf (WCmp "!=" (WAttr (WCall (WAttr (WGlobal "np") "repeat") [WIndex (WCall
      (WAttr (WGlobal "np") "array") [WAttr (WIndex (WSelf "_dimensions") [WInt (1)%Z])
      "numeric_values"] [("dtype", WAttr (WGlobal "np") "float64")]) [WUn "~" (WCall (WAttr (WGlobal
      "np") "isnan") [WCall (WAttr (WGlobal "np") "array") [WAttr (WIndex (WSelf "_dimensions")
      [WInt (1)%Z]) "numeric_values"] [("dtype", WAttr (WGlobal "np") "float64")]] [])]; WCall
      (WAttr (WCall (WAttr (WGlobal "np") "nan_to_num") [WIndex (WIndex (WIndex (WIndex (WAttr
      (WAttr (WSelf "_measures") "column_weighted_bases") "blocks") [WInt (0)%Z]) [WInt (0)%Z])
      [WInt (0)%Z; WSlice (WNone) (WNone)]) [WUn "~" (WCall (WAttr (WGlobal "np") "isnan") [WCall
      (WAttr (WGlobal "np") "array") [WAttr (WIndex (WSelf "_dimensions") [WInt (1)%Z])
      "numeric_values"] [("dtype", WAttr (WGlobal "np") "float64")]] [])]] []) "astype") [WStr
      "int64"] []] []) "size") (WInt (0)%Z)) (WCall (WAttr (WGlobal "np") "median") [WCall (WAttr
      (WGlobal "np") "repeat") [WIndex (WCall (WAttr (WGlobal "np") "array") [WAttr (WIndex (WSelf
      "_dimensions") [WInt (1)%Z]) "numeric_values"] [("dtype", WAttr (WGlobal "np") "float64")])
      [WUn "~" (WCall (WAttr (WGlobal "np") "isnan") [WCall (WAttr (WGlobal "np") "array") [WAttr
      (WIndex (WSelf "_dimensions") [WInt (1)%Z]) "numeric_values"] [("dtype", WAttr (WGlobal "np")
      "float64")]] [])]; WCall (WAttr (WCall (WAttr (WGlobal "np") "nan_to_num") [WIndex (WIndex
      (WIndex (WIndex (WAttr (WAttr (WSelf "_measures") "column_weighted_bases") "blocks") [WInt
      (0)%Z]) [WInt (0)%Z]) [WInt (0)%Z; WSlice (WNone) (WNone)]) [WUn "~" (WCall (WAttr (WGlobal
      "np") "isnan") [WCall (WAttr (WGlobal "np") "array") [WAttr (WIndex (WSelf "_dimensions")
      [WInt (1)%Z]) "numeric_values"] [("dtype", WAttr (WGlobal "np") "float64")]] [])]] [])
      "astype") [WStr "int64"] []] []] []) (WNone))).
Proof. reflexivity. Qed.

(* _Slice._columns_dimension_numeric_values *)
Lemma gen_wiring_Slice__columns_dimension_numeric_values :
  wsrc_Slice__columns_dimension_numeric_values = Some (WCall (WAttr (WGlobal "np") "array") [WComp
      "list" (WIf (WCmp ">=" (WVar "idx") (WInt (0)%Z)) (WAttr (WIndex (WAttr (WIndex (WSelf
      "_dimensions") [WInt (1)%Z]) "valid_elements") [WVar "idx"]) "numeric_value") (WNaN))
      [(["idx"], WSelf "_column_order_signed_indexes", [])]] []).
Proof. reflexivity. Qed.

(* _Slice._columns_have_numeric_value *)
Lemma gen_wiring_Slice__columns_have_numeric_value :
  wsrc_Slice__columns_have_numeric_value = Some (WUn "not" (WCall (WAttr (WGlobal "np") "all") [WCall
      (WAttr (WGlobal "np") "isnan") [WSelf "_columns_dimension_numeric_values"] []] [])).
Proof. reflexivity. Qed.

(* _Slice._columns_scale_mean_variance *)
Lemma gen_wiring_Slice__columns_scale_mean_variance :
  wsrc_Slice__columns_scale_mean_variance = Some (WIf (WUn "not" (WSelf "_rows_have_numeric_value"))
      (WNone) (WBin "/" (WCall (WAttr (WGlobal "np") "nansum") [WBin "*" (WIndex (WSelf "counts")
      [WUn "~" (WCall (WAttr (WGlobal "np") "isnan") [WSelf "_rows_dimension_numeric_values"] []);
      WSlice (WNone) (WNone)]) (WAttr (WCall (WGlobal "pow") [WBin "-" (WCall (WAttr (WGlobal "np")
      "broadcast_to") [WIndex (WSelf "_rows_dimension_numeric_values") [WUn "~" (WCall (WAttr
      (WGlobal "np") "isnan") [WSelf "_rows_dimension_numeric_values"] [])]; WAttr (WAttr (WIndex
      (WSelf "counts") [WUn "~" (WCall (WAttr (WGlobal "np") "isnan") [WSelf
      "_rows_dimension_numeric_values"] []); WSlice (WNone) (WNone)]) "T") "shape"] []) (WCall
      (WAttr (WSelf "columns_scale_mean") "reshape") [WInt (-1)%Z; WInt (1)%Z] []); WInt (2)%Z] [])
      "T")] [("axis", WInt (0)%Z)]) (WCall (WAttr (WGlobal "np") "sum") [WIndex (WSelf "counts")
      [WUn "~" (WCall (WAttr (WGlobal "np") "isnan") [WSelf "_rows_dimension_numeric_values"] []);
      WSlice (WNone) (WNone)]] [("axis", WInt (0)%Z)]))).
Proof. reflexivity. Qed.

(* _Slice._rows_dimension_numeric_values *)
Lemma gen_wiring_Slice__rows_dimension_numeric_values :
  wsrc_Slice__rows_dimension_numeric_values = Some (WCall (WAttr (WGlobal "np") "array") [WComp "list"
      (WIf (WCmp ">=" (WVar "idx") (WInt (0)%Z)) (WAttr (WIndex (WAttr (WSelf "_rows_dimension")
      "valid_elements") [WVar "idx"]) "numeric_value") (WNaN)) [(["idx"], WSelf
      "_row_order_signed_indexes", [])]] []).
Proof. reflexivity. Qed.

(* _Slice._rows_have_numeric_value *)
Lemma gen_wiring_Slice__rows_have_numeric_value :
  wsrc_Slice__rows_have_numeric_value = Some (WUn "not" (WCall (WAttr (WGlobal "np") "all") [WCall
      (WAttr (WGlobal "np") "isnan") [WSelf "_rows_dimension_numeric_values"] []] [])).
Proof. reflexivity. Qed.

(* _Strand.has_scale_means *)
Lemma gen_wiring_Strand_has_scale_means :
  wsrc_Strand_has_scale_means = Some (WIf (WCmp "is not" (WSelf "scale_mean") (WNone)) (WTrue)
      (WFalse)).
Proof. reflexivity. Qed.

(* _Strand.scale_mean *)
Lemma gen_wiring_Strand_scale_mean :
  wsrc_Strand_scale_mean = Some (WAttr (WAttr (WSelf "_measures") "scaled_counts") "scale_mean").
Proof. reflexivity. Qed.

(* _Strand.scale_median *)
Lemma gen_wiring_Strand_scale_median :
  wsrc_Strand_scale_median = Some (WAttr (WAttr (WSelf "_measures") "scaled_counts") "scale_median").
Proof. reflexivity. Qed.

(* _Strand.scale_std_dev *)
Lemma gen_wiring_Strand_scale_std_dev :
  wsrc_Strand_scale_std_dev = Some (WAttr (WAttr (WSelf "_measures") "scaled_counts") "scale_stddev").
Proof. reflexivity. Qed.

(* _Strand.scale_std_err *)
Lemma gen_wiring_Strand_scale_std_err :
  wsrc_Strand_scale_std_err = Some (WAttr (WAttr (WSelf "_measures") "scaled_counts") "scale_stderr").
Proof. reflexivity. Qed.

(* SecondOrderMeasures.columns_scale_mean *)
Lemma gen_wiring_SecondOrderMeasures_columns_scale_mean :
  wsrc_SecondOrderMeasures_columns_scale_mean = Some (WCall (WGlobal "_ScaleMean") [WSelf
      "_dimensions"; WVar "self"; WSelf "_cube_measures"; WAttr (WGlobal "MO") "COLUMNS"] []).
Proof. reflexivity. Qed.

(* SecondOrderMeasures.columns_scale_mean_stddev *)
Lemma gen_wiring_SecondOrderMeasures_columns_scale_mean_stddev :
  wsrc_SecondOrderMeasures_columns_scale_mean_stddev = Some (WCall (WGlobal "_ScaleMeanStddev") [WSelf
      "_dimensions"; WVar "self"; WSelf "_cube_measures"; WAttr (WGlobal "MO") "COLUMNS"] []).
Proof. reflexivity. Qed.

(* SecondOrderMeasures.columns_scale_mean_stderr *)
Lemma gen_wiring_SecondOrderMeasures_columns_scale_mean_stderr :
  wsrc_SecondOrderMeasures_columns_scale_mean_stderr = Some (WCall (WGlobal "_ScaleMeanStderr") [WSelf
      "_dimensions"; WVar "self"; WSelf "_cube_measures"; WAttr (WGlobal "MO") "COLUMNS"] []).
Proof. reflexivity. Qed.

(* SecondOrderMeasures.columns_scale_median *)
Lemma gen_wiring_SecondOrderMeasures_columns_scale_median :
  wsrc_SecondOrderMeasures_columns_scale_median = Some (WCall (WGlobal "_ScaleMedian") [WSelf
      "_dimensions"; WVar "self"; WSelf "_cube_measures"; WAttr (WGlobal "MO") "COLUMNS"] []).
Proof. reflexivity. Qed.

(* SecondOrderMeasures.rows_scale_mean *)
Lemma gen_wiring_SecondOrderMeasures_rows_scale_mean :
  wsrc_SecondOrderMeasures_rows_scale_mean = Some (WCall (WGlobal "_ScaleMean") [WSelf "_dimensions";
      WVar "self"; WSelf "_cube_measures"; WAttr (WGlobal "MO") "ROWS"] []).
Proof. reflexivity. Qed.

(* SecondOrderMeasures.rows_scale_mean_stddev *)
Lemma gen_wiring_SecondOrderMeasures_rows_scale_mean_stddev :
  wsrc_SecondOrderMeasures_rows_scale_mean_stddev = Some (WCall (WGlobal "_ScaleMeanStddev") [WSelf
      "_dimensions"; WVar "self"; WSelf "_cube_measures"; WAttr (WGlobal "MO") "ROWS"] []).
Proof. reflexivity. Qed.

(* SecondOrderMeasures.rows_scale_mean_stderr *)
Lemma gen_wiring_SecondOrderMeasures_rows_scale_mean_stderr :
  wsrc_SecondOrderMeasures_rows_scale_mean_stderr = Some (WCall (WGlobal "_ScaleMeanStderr") [WSelf
      "_dimensions"; WVar "self"; WSelf "_cube_measures"; WAttr (WGlobal "MO") "ROWS"] []).
Proof. reflexivity. Qed.

(* SecondOrderMeasures.rows_scale_median *)
Lemma gen_wiring_SecondOrderMeasures_rows_scale_median :
  wsrc_SecondOrderMeasures_rows_scale_median = Some (WCall (WGlobal "_ScaleMedian") [WSelf
      "_dimensions"; WVar "self"; WSelf "_cube_measures"; WAttr (WGlobal "MO") "ROWS"] []).
Proof. reflexivity. Qed.

(* StripeMeasures.scaled_counts *)
Lemma gen_wiring_StripeMeasures_scaled_counts :
  wsrc_StripeMeasures_scaled_counts = Some (WCall (WGlobal "_ScaledCounts") [WSelf "_rows_dimension";
      WVar "self"; WSelf "_cube_measures"] []).
Proof. reflexivity. Qed.
