(* C05: the assembly step only selects and reorders.  Proofs about Model/Assemble.v. *)
From Coq Require Import List ZArith Bool Lia Arith QArith Permutation Sorting.
From CC Require Import Base.XQ Base.ListX Model.Assemble.
Import ListNotations.
Local Close Scope Q_scope.
Local Close Scope Z_scope.
Local Open Scope nat_scope.

(* ---------------------------------------------------------------------------------------
   the readable meaning of a signed index
   --------------------------------------------------------------------------------------- *)
(* value named by signed index z in (base, subtotals) *)
Definition vec_cell {A} (d : A) (base subs : list A) (z : Z) : A :=
  if Z.leb 0 z then nth (Z.to_nat z) base d
  else nth (Z.to_nat (z + Z.of_nat (length subs))) subs d.

(* cell named by the signed pair (r, c) in the four blocks; m, q = number of row / column subtotals *)
Definition block_cell {A} (d : A) (m q : nat) (B : blocks A) (r c : Z) : A :=
  if Z.leb 0 r then
    (if Z.leb 0 c then gnth d (b_base B) (Z.to_nat r) (Z.to_nat c)
     else gnth d (b_scols B) (Z.to_nat r) (Z.to_nat (c + Z.of_nat q)))
  else
    (if Z.leb 0 c then gnth d (b_srows B) (Z.to_nat (r + Z.of_nat m)) (Z.to_nat c)
     else gnth d (b_inter B) (Z.to_nat (r + Z.of_nat m)) (Z.to_nat (c + Z.of_nat q))).

Definition in_range (nsub nel : nat) (z : Z) : Prop := (- Z.of_nat nsub <= z < Z.of_nat nel)%Z.

Definition rect {A} (nr nc : nat) (M : list (list A)) : Prop :=
  length M = nr /\ Forall (fun r => length r = nc) M.

Definition wf_blocks {A} (n m p q : nat) (B : blocks A) : Prop :=
  rect n p (b_base B) /\ rect n q (b_scols B) /\ rect m p (b_srows B) /\ rect m q (b_inter B).

(* ---------------------------------------------------------------------------------------
   generic list facts
   --------------------------------------------------------------------------------------- *)
Lemma nth_map_lt {A B} (f : A -> B) (l : list A) i dA dB :
  i < length l -> nth i (map f l) dB = f (nth i l dA).
Proof.
  intros H. rewrite (nth_indep _ dB (f dA)) by (rewrite map_length; exact H). apply map_nth.
Qed.

Lemma pyidx_nonneg n z : (0 <= z)%Z -> pyidx n z = Z.to_nat z.
Proof. intros H. unfold pyidx. destruct (Z.ltb z 0) eqn:E; auto. apply Z.ltb_lt in E. lia. Qed.

Lemma pyidx_neg n z : (z < 0)%Z -> pyidx n z = Z.to_nat (Z.of_nat n + z).
Proof. intros H. unfold pyidx. destruct (Z.ltb z 0) eqn:E; auto. apply Z.ltb_ge in E. lia. Qed.

Lemma rect_row {A} nr nc (M : list (list A)) i : rect nr nc M -> i < nr -> length (nth i M []) = nc.
Proof.
  intros [L F] H. rewrite Forall_forall in F. apply F. apply nth_In. lia.
Qed.

(* ---------------------------------------------------------------------------------------
   vectors
   --------------------------------------------------------------------------------------- *)
Lemma concat_signed {A} (d : A) (base subs : list A) z :
  in_range (length subs) (length base) z ->
  nth (pyidx (length (base ++ subs)) z) (base ++ subs) d = vec_cell d base subs z.
Proof.
  unfold in_range, vec_cell. intros R. rewrite app_length.
  destruct (Z.leb 0 z) eqn:E.
  - apply Z.leb_le in E. rewrite pyidx_nonneg by exact E. apply app_nth1. lia.
  - apply Z.leb_gt in E. rewrite pyidx_neg by exact E. rewrite app_nth2 by lia.
    f_equal. lia.
Qed.

Theorem assemble_vec_length {A} (d : A) base subs order :
  length (assemble_vec d base subs order) = length order.
Proof. unfold assemble_vec. apply map_length. Qed.

Theorem assemble_vec_nth {A} (d : A) base subs order i :
  i < length order ->
  in_range (length subs) (length base) (nth i order 0%Z) ->
  nth i (assemble_vec d base subs order) d = vec_cell d base subs (nth i order 0%Z).
Proof.
  intros Hi R. unfold assemble_vec. rewrite (nth_map_lt _ order i 0%Z d Hi).
  apply concat_signed. exact R.
Qed.

(* the fills formula of the code and the numpy indexing of labels / codes / aliases are the
   same function of the order vector *)
Theorem fills_eq_assemble {A} (d : A) base subs order :
  Forall (in_range (length subs) (length base)) order ->
  fills_of d base subs order = assemble_vec d base subs order.
Proof.
  intros F. unfold fills_of, assemble_vec. apply map_ext_in. intros z Hz.
  rewrite Forall_forall in F. rewrite (concat_signed d base subs z (F z Hz)). reflexivity.
Qed.

(* ---------------------------------------------------------------------------------------
   matrices
   --------------------------------------------------------------------------------------- *)
Lemma hstack_length {A} (l r : list (list A)) : length l = length r -> length (hstack l r) = length l.
Proof.
  revert r. induction l as [|x l IH]; intros [|y r] H; simpl in *; try lia; auto.
Qed.

Lemma hstack_nth {A} (l r : list (list A)) i :
  length l = length r -> nth i (hstack l r) [] = nth i l [] ++ nth i r [].
Proof.
  revert r i. induction l as [|x l IH]; intros [|y r] i H; simpl in *; try lia.
  - destruct i; reflexivity.
  - destruct i; auto.
Qed.

Lemma np_block_cell {A} (d : A) n m p q (B : blocks A) r c :
  wf_blocks n m p q B -> in_range m n r -> in_range q p c ->
  gnth d (np_block B) (pyidx (n + m) r) (pyidx (p + q) c) = block_cell d m q B r c.
Proof.
  intros (Wb & Wc & Wr & Wi) Rr Rc. unfold in_range in *.
  unfold gnth, np_block, block_cell.
  assert (Lb : length (b_base B) = length (b_scols B)) by (destruct Wb, Wc; lia).
  assert (Lr : length (b_srows B) = length (b_inter B)) by (destruct Wr, Wi; lia).
  assert (Ltop : length (hstack (b_base B) (b_scols B)) = n)
    by (rewrite hstack_length by exact Lb; destruct Wb; lia).
  destruct (Z.leb 0 r) eqn:Er.
  - apply Z.leb_le in Er. rewrite (pyidx_nonneg (n + m) r Er).
    assert (Hr : Z.to_nat r < n) by lia.
    rewrite app_nth1 by lia. rewrite hstack_nth by exact Lb.
    assert (Lrow : length (nth (Z.to_nat r) (b_base B) []) = p) by (apply (rect_row n p); auto).
    destruct (Z.leb 0 c) eqn:Ec.
    + apply Z.leb_le in Ec. rewrite (pyidx_nonneg (p + q) c Ec). apply app_nth1. lia.
    + apply Z.leb_gt in Ec. rewrite (pyidx_neg (p + q) c Ec). rewrite app_nth2 by lia.
      rewrite Lrow.
      replace (Z.to_nat (Z.of_nat (p + q) + c) - p) with (Z.to_nat (c + Z.of_nat q)) by lia.
      reflexivity.
  - apply Z.leb_gt in Er. rewrite (pyidx_neg (n + m) r Er).
    rewrite app_nth2 by lia. rewrite Ltop. rewrite hstack_nth by exact Lr.
    replace (Z.to_nat (Z.of_nat (n + m) + r) - n) with (Z.to_nat (r + Z.of_nat m)) by lia.
    assert (Hr : Z.to_nat (r + Z.of_nat m) < m) by lia.
    assert (Lrow : length (nth (Z.to_nat (r + Z.of_nat m)) (b_srows B) []) = p)
      by (apply (rect_row m p); auto).
    destruct (Z.leb 0 c) eqn:Ec.
    + apply Z.leb_le in Ec. rewrite (pyidx_nonneg (p + q) c Ec). apply app_nth1. lia.
    + apply Z.leb_gt in Ec. rewrite (pyidx_neg (p + q) c Ec). rewrite app_nth2 by lia.
      rewrite Lrow.
      replace (Z.to_nat (Z.of_nat (p + q) + c) - p) with (Z.to_nat (c + Z.of_nat q)) by lia.
      reflexivity.
Qed.

Theorem assemble_nrows {A} (d : A) n m p q B ro co : length (assemble d n m p q B ro co) = length ro.
Proof. unfold assemble, ix. apply map_length. Qed.

Theorem assemble_ncols {A} (d : A) n m p q B ro co i :
  i < length ro -> length (nth i (assemble d n m p q B ro co) []) = length co.
Proof.
  intros H. unfold assemble, ix. rewrite (nth_map_lt _ ro i 0%Z [] H). apply map_length.
Qed.

Theorem assemble_cell {A} (d : A) n m p q (B : blocks A) ro co i j :
  wf_blocks n m p q B ->
  i < length ro -> j < length co ->
  in_range m n (nth i ro 0%Z) -> in_range q p (nth j co 0%Z) ->
  gnth d (assemble d n m p q B ro co) i j = block_cell d m q B (nth i ro 0%Z) (nth j co 0%Z).
Proof.
  intros W Hi Hj Rr Rc. unfold assemble, ix, gnth at 1.
  rewrite (nth_map_lt _ ro i 0%Z [] Hi). rewrite (nth_map_lt _ co j 0%Z d Hj).
  apply np_block_cell; assumption.
Qed.

(* ---------------------------------------------------------------------------------------
   the assembly under any transforms is the untransformed assembly, re-indexed
   --------------------------------------------------------------------------------------- *)
Lemma pos_of_spec z l : In z l -> pos_of z l < length l /\ nth (pos_of z l) l 0%Z = z.
Proof.
  induction l as [|x t IH]; simpl; intros H; [destruct H|].
  destruct (Z.eqb x z) eqn:E.
  - apply Z.eqb_eq in E. split; [lia|exact E].
  - destruct H as [H|H]; [apply Z.eqb_neq in E; contradiction|].
    destruct (IH H) as [L N]. split; [lia|exact N].
Qed.

Theorem assemble_of_untransformed {A} (d : A) n m p q (B : blocks A) ro co ro0 co0 i j :
  wf_blocks n m p q B ->
  i < length ro -> j < length co ->
  in_range m n (nth i ro 0%Z) -> in_range q p (nth j co 0%Z) ->
  In (nth i ro 0%Z) ro0 -> In (nth j co 0%Z) co0 ->
  gnth d (assemble d n m p q B ro co) i j =
  gnth d (assemble d n m p q B ro0 co0) (pos_of (nth i ro 0%Z) ro0) (pos_of (nth j co 0%Z) co0).
Proof.
  intros W Hi Hj Rr Rc Ir Ic.
  destruct (pos_of_spec _ _ Ir) as [Lr Nr]. destruct (pos_of_spec _ _ Ic) as [Lc Nc].
  rewrite (assemble_cell d n m p q B ro co i j W Hi Hj Rr Rc).
  rewrite (assemble_cell d n m p q B ro0 co0 _ _ W Lr Lc).
  - rewrite Nr, Nc. reflexivity.
  - rewrite Nr. exact Rr.
  - rewrite Nc. exact Rc.
Qed.

Theorem assemble_vec_of_untransformed {A} (d : A) base subs order order0 i :
  i < length order ->
  in_range (length subs) (length base) (nth i order 0%Z) ->
  In (nth i order 0%Z) order0 ->
  nth i (assemble_vec d base subs order) d =
  nth (pos_of (nth i order 0%Z) order0) (assemble_vec d base subs order0) d.
Proof.
  intros Hi R I. destruct (pos_of_spec _ _ I) as [L N].
  rewrite (assemble_vec_nth d base subs order i Hi R).
  rewrite (assemble_vec_nth d base subs order0 _ L).
  - rewrite N. reflexivity.
  - rewrite N. exact R.
Qed.

(* ---------------------------------------------------------------------------------------
   position-valued outputs
   --------------------------------------------------------------------------------------- *)
Lemma positions_from_in {A} (f : A -> bool) (d : A) l : forall s k,
  In k (positions_from f s l) <-> s <= k < s + length l /\ f (nth (k - s) l d) = true.
Proof.
  induction l as [|x t IH]; intros s k; simpl.
  - split; [intros []|intros [H _]; lia].
  - destruct (f x) eqn:Fx; simpl; rewrite IH.
    + split.
      * intros [<-|[H F]].
        -- rewrite Nat.sub_diag. split; [lia|exact Fx].
        -- split; [lia|]. destruct (k - s) as [|u] eqn:U; [lia|].
           replace u with (k - S s) by lia. exact F.
      * intros [H F]. destruct (Nat.eq_dec s k) as [E|E]; [left; exact E|right].
        split; [lia|]. destruct (k - s) as [|u] eqn:U; [lia|].
        replace (k - S s) with u by lia. exact F.
    + split.
      * intros [H F]. split; [lia|]. destruct (k - s) as [|u] eqn:U; [lia|].
        replace u with (k - S s) by lia. exact F.
      * intros [H F]. destruct (k - s) as [|u] eqn:U.
        -- congruence.
        -- split; [lia|]. replace (k - S s) with u by lia. exact F.
Qed.

Lemma positions_in {A} (f : A -> bool) (d : A) l k :
  In k (positions f l) <-> k < length l /\ f (nth k l d) = true.
Proof.
  unfold positions. rewrite (positions_from_in f d l 0 k). rewrite Nat.sub_0_r.
  split; intros [H F]; (split; [lia|exact F]).
Qed.

Lemma positions_from_sorted {A} (f : A -> bool) l : forall s,
  StronglySorted lt (positions_from f s l).
Proof.
  induction l as [|x t IH]; intros s; simpl; [constructor|].
  destruct (f x) eqn:Fx; [|apply IH]. constructor; [apply IH|].
  apply Forall_forall. intros k Hk.
  apply (positions_from_in f x t (S s) k) in Hk. lia.
Qed.

Theorem positions_increasing {A} (f : A -> bool) l : StronglySorted lt (positions f l).
Proof. apply positions_from_sorted. Qed.

Theorem inserted_idxs_spec order k :
  In k (inserted_idxs order) <-> k < length order /\ (nth k order 0%Z < 0)%Z.
Proof.
  unfold inserted_idxs. rewrite (positions_in _ 0%Z). rewrite Z.ltb_lt. reflexivity.
Qed.

Lemma where_flags_spec flags order k :
  In k (where_flags flags order) <->
  k < length order /\ nth (pyidx (length flags) (nth k order 0%Z)) flags false = true.
Proof.
  unfold where_flags. rewrite (positions_in _ false). rewrite assemble_vec_length.
  split; intros [H F]; split; auto.
  - unfold assemble_vec in F. rewrite (nth_map_lt _ order k 0%Z false H) in F.
    rewrite app_nil_r in F. exact F.
  - unfold assemble_vec. rewrite (nth_map_lt _ order k 0%Z false H). rewrite app_nil_r. exact F.
Qed.

Lemma nth_repeat_false n i : nth i (repeat false n) false = false.
Proof. revert i. induction n as [|n IH]; intros [|i]; simpl; auto. Qed.

(* a strand reports position k as derived iff the k-th displayed row is a derived ELEMENT *)
Theorem derived_idxs_strand_spec derived nsub order k :
  Forall (in_range nsub (length derived)) order ->
  (In k (derived_idxs_strand derived nsub order) <->
   k < length order /\ (0 <= nth k order 0%Z)%Z /\ nth (Z.to_nat (nth k order 0%Z)) derived false = true).
Proof.
  intros F. unfold derived_idxs_strand. rewrite where_flags_spec.
  rewrite app_length, repeat_length.
  split.
  - intros [H E]. split; auto.
    assert (R : in_range nsub (length derived) (nth k order 0%Z))
      by (rewrite Forall_forall in F; apply F; apply nth_In; exact H).
    unfold in_range in R.
    destruct (Z.ltb (nth k order 0%Z) 0) eqn:N.
    + apply Z.ltb_lt in N. rewrite pyidx_neg in E by exact N.
      rewrite app_nth2 in E by lia. rewrite nth_repeat_false in E. discriminate.
    + apply Z.ltb_ge in N. rewrite pyidx_nonneg in E by exact N.
      rewrite app_nth1 in E by lia. auto.
  - intros (H & N & E). split; auto.
    assert (R : in_range nsub (length derived) (nth k order 0%Z))
      by (rewrite Forall_forall in F; apply F; apply nth_In; exact H).
    unfold in_range in R.
    rewrite pyidx_nonneg by exact N. rewrite app_nth1 by lia. exact E.
Qed.

(* a slice pads with one False per subtotal, like a strand (since the repair of finding
   C05-derived-idxs-indexerror) *)
Theorem derived_idxs_slice_spec derived nsub order k :
  Forall (in_range nsub (length derived)) order ->
  (In k (derived_idxs_slice derived nsub order) <->
   k < length order /\ (0 <= nth k order 0%Z)%Z /\ nth (Z.to_nat (nth k order 0%Z)) derived false = true).
Proof. apply derived_idxs_strand_spec. Qed.

Theorem derived_idxs_slice_eq_strand derived nsub order :
  derived_idxs_slice derived nsub order = derived_idxs_strand derived nsub order.
Proof. reflexivity. Qed.

(* the former witnesses of that finding.  One (derived) element and two subtotals: the subtotal at
   signed index -2 was read as the element (position 0 reported as derived); one element and three
   subtotals: index -3 was out of bounds of the 2-long flag vector (IndexError).  Now no subtotal is
   ever reported, in any in-range order. *)
Theorem derived_idxs_slice_former_witness :
  derived_idxs_slice [true] 2 [(-2)%Z] = [] /\
  derived_idxs_slice [true] 3 [(-3)%Z; 0%Z; (-1)%Z] = [1] /\
  Forall (in_range 3 (length [true])) [(-3)%Z; 0%Z; (-1)%Z].
Proof.
  split; [reflexivity|split; [reflexivity|]].
  repeat constructor; unfold in_range; simpl; lia.
Qed.

Theorem diff_idxs_spec nvalid is_diff order k :
  Forall (in_range (length is_diff) nvalid) order ->
  (In k (diff_idxs nvalid is_diff order) <->
   k < length order /\ (nth k order 0%Z < 0)%Z /\
   nth (Z.to_nat (nth k order 0%Z + Z.of_nat (length is_diff))) is_diff false = true).
Proof.
  intros F. unfold diff_idxs. rewrite where_flags_spec. rewrite app_length, repeat_length.
  split.
  - intros [H E]. split; auto.
    assert (R : in_range (length is_diff) nvalid (nth k order 0%Z))
      by (rewrite Forall_forall in F; apply F; apply nth_In; exact H).
    unfold in_range in R.
    destruct (Z.ltb (nth k order 0%Z) 0) eqn:N.
    + apply Z.ltb_lt in N. split; auto. rewrite pyidx_neg in E by exact N.
      rewrite app_nth2 in E by (rewrite repeat_length; lia). rewrite repeat_length in E.
      replace (Z.to_nat (nth k order 0%Z + Z.of_nat (length is_diff)))
        with (Z.to_nat (Z.of_nat (nvalid + length is_diff) + nth k order 0%Z) - nvalid) by lia.
      exact E.
    + apply Z.ltb_ge in N. rewrite pyidx_nonneg in E by exact N.
      rewrite app_nth1 in E by (rewrite repeat_length; lia).
      rewrite nth_repeat_false in E. discriminate.
  - intros (H & N & E). split; auto.
    assert (R : in_range (length is_diff) nvalid (nth k order 0%Z))
      by (rewrite Forall_forall in F; apply F; apply nth_In; exact H).
    unfold in_range in R.
    rewrite pyidx_neg by exact N. rewrite app_nth2 by (rewrite repeat_length; lia).
    rewrite repeat_length.
    replace (Z.to_nat (Z.of_nat (nvalid + length is_diff) + nth k order 0%Z) - nvalid)
      with (Z.to_nat (nth k order 0%Z + Z.of_nat (length is_diff))) by lia.
    exact E.
Qed.

Lemma zmemb_In z l : zmemb z l = true <-> In z l.
Proof.
  unfold zmemb. rewrite existsb_exists. split.
  - intros (x & Hx & E). apply Z.eqb_eq in E. subst. exact Hx.
  - intros H. exists z. split; auto. apply Z.eqb_refl.
Qed.

(* pairwise indices, renumbered: display position k is listed iff the column shown at k is
   one of the significant columns *)
Theorem renumber_spec co sig k :
  In k (renumber co sig) <-> k < length co /\ In (nth k co 0%Z) sig.
Proof. unfold renumber. rewrite (positions_in _ 0%Z). rewrite zmemb_In. reflexivity. Qed.

Theorem renumber_increasing co sig : StronglySorted lt (renumber co sig).
Proof. apply positions_increasing. Qed.

(* under a duplicate-free order every significant displayed column is listed exactly once and
   at its own display position *)
Theorem renumber_pos co sig z :
  In z co -> In z sig -> In (pos_of z co) (renumber co sig).
Proof.
  intros Ic Is. destruct (pos_of_spec z co Ic) as [L N].
  apply renumber_spec. rewrite N. auto.
Qed.

Theorem renumber_unique co sig k :
  NoDup co -> In k (renumber co sig) -> k = pos_of (nth k co 0%Z) co.
Proof.
  intros ND H. apply renumber_spec in H. destruct H as [L _].
  assert (I : In (nth k co 0%Z) co) by (apply nth_In; exact L).
  destruct (pos_of_spec _ _ I) as [L' N'].
  apply (proj1 (NoDup_nth co 0%Z) ND); auto.
Qed.

(* ---------------------------------------------------------------------------------------
   whole partition
   --------------------------------------------------------------------------------------- *)
Theorem slice_view_shape R ro co :
  v_shape (slice_view R ro co) = (length ro, length co) /\
  Forall (fun M => length M = length ro /\ Forall (fun r => length r = length co) M)
         (v_measures (slice_view R ro co)) /\
  Forall (fun v => length v = length ro) (v_row_marginals (slice_view R ro co)) /\
  Forall (fun v => length v = length co) (v_col_marginals (slice_view R ro co)) /\
  length (v_row_labels (slice_view R ro co)) = length ro /\
  length (v_col_labels (slice_view R ro co)) = length co.
Proof.
  simpl. repeat split.
  - apply Forall_forall. intros M HM. apply in_map_iff in HM. destruct HM as (B & <- & _).
    split; [apply assemble_nrows|]. unfold assemble, ix.
    apply Forall_forall. intros r Hr. apply in_map_iff in Hr. destruct Hr as (z & <- & _).
    apply map_length.
  - apply Forall_forall. intros v Hv. apply in_map_iff in Hv. destruct Hv as (b & <- & _).
    apply assemble_vec_length.
  - apply Forall_forall. intros v Hv. apply in_map_iff in Hv. destruct Hv as (b & <- & _).
    apply assemble_vec_length.
  - apply assemble_vec_length.
  - apply assemble_vec_length.
Qed.

(* scalars are not functions of the display orders (by construction of the model: the value
   of this statement is the relational check behind it) *)
Theorem slice_view_scalars R ro co ro' co' :
  v_scalars (slice_view R ro co) = v_scalars (slice_view R ro' co').
Proof. reflexivity. Qed.

(* ---------------------------------------------------------------------------------------
   hidden and pruned elements still count: the displayed base values together with the
   values of the elements that are not displayed are exactly the base block
   --------------------------------------------------------------------------------------- *)
Definition shown_idxs (order : list Z) : list nat :=
  map Z.to_nat (filter (fun z => Z.leb 0 z) order).
Definition nmemb (k : nat) (l : list nat) : bool := existsb (Nat.eqb k) l.
Definition hidden_of (n : nat) (order : list Z) : list nat :=
  filter (fun i => negb (nmemb i (shown_idxs order))) (seq 0 n).

Lemma nmemb_In k l : nmemb k l = true <-> In k l.
Proof.
  unfold nmemb. rewrite existsb_exists. split.
  - intros (x & Hx & E). apply Nat.eqb_eq in E. subst. exact Hx.
  - intros H. exists k. split; auto. apply Nat.eqb_refl.
Qed.

Lemma NoDup_filter' {A} (f : A -> bool) l : NoDup l -> NoDup (filter f l).
Proof.
  induction 1 as [|x t Hx Ht IH]; simpl; [constructor|].
  destruct (f x); auto. constructor; auto. intros I. apply filter_In in I. apply Hx, I.
Qed.

Lemma NoDup_app_intro {A} (a b : list A) :
  NoDup a -> NoDup b -> (forall x, In x a -> ~ In x b) -> NoDup (a ++ b).
Proof.
  induction 1 as [|x t Hx Ht IH]; simpl; intros Nb D; auto.
  constructor.
  - intros I. apply in_app_or in I. destruct I as [I|I]; [contradiction|].
    apply (D x); auto.
  - apply IH; auto.
Qed.

Lemma shown_idxs_nodup order : NoDup order -> NoDup (shown_idxs order).
Proof.
  intros N. unfold shown_idxs.
  assert (F : NoDup (filter (fun z => Z.leb 0 z) order)) by (apply NoDup_filter'; exact N).
  assert (P : forall z, In z (filter (fun z => Z.leb 0 z) order) -> (0 <= z)%Z).
  { intros z Hz. apply filter_In in Hz. apply Z.leb_le. apply Hz. }
  revert F P. generalize (filter (fun z => Z.leb 0 z) order). intros l F.
  induction F as [|x t Hx Ht IH]; simpl; intros P; [constructor|].
  constructor.
  - intros I. apply in_map_iff in I. destruct I as (y & E & Hy).
    assert (y = x) by (assert (0 <= x)%Z by (apply P; auto); assert (0 <= y)%Z by (apply P; auto); lia).
    subst. contradiction.
  - apply IH. intros z Hz. apply P. auto.
Qed.

Theorem shown_plus_hidden n order :
  NoDup order -> Forall (fun z => (z < Z.of_nat n)%Z) order ->
  Permutation (shown_idxs order ++ hidden_of n order) (seq 0 n).
Proof.
  intros N R. apply NoDup_Permutation.
  - apply NoDup_app_intro.
    + apply shown_idxs_nodup. exact N.
    + apply NoDup_filter'. apply seq_NoDup.
    + intros x Hx Hh. apply filter_In in Hh. destruct Hh as [_ Hh].
      apply negb_true_iff in Hh. apply nmemb_In in Hx. congruence.
  - apply seq_NoDup.
  - intros x. rewrite in_app_iff, in_seq. split.
    + intros [H|H].
      * unfold shown_idxs in H. apply in_map_iff in H. destruct H as (z & <- & Hz).
        apply filter_In in Hz. destruct Hz as [Hz Pz]. apply Z.leb_le in Pz.
        rewrite Forall_forall in R. specialize (R z Hz). lia.
      * apply filter_In in H. destruct H as [H _]. apply in_seq in H. lia.
    + intros H. destruct (nmemb x (shown_idxs order)) eqn:E.
      * left. apply nmemb_In. exact E.
      * right. apply filter_In. split; [apply in_seq; lia|]. rewrite E. reflexivity.
Qed.

Lemma map_nth_seq {A} (d : A) (l : list A) : map (fun i => nth i l d) (seq 0 (length l)) = l.
Proof.
  induction l as [|x t IH]; simpl; auto. f_equal.
  rewrite <- seq_shift, map_map. exact IH.
Qed.

(* the displayed base values (in display order) ++ the values of the undisplayed elements
   are a permutation of the whole base block *)
Theorem displayed_plus_hidden {A} (d : A) (base : list A) order :
  NoDup order -> Forall (fun z => (z < Z.of_nat (length base))%Z) order ->
  Permutation (map (fun i => nth i base d) (shown_idxs order)
               ++ map (fun i => nth i base d) (hidden_of (length base) order))
              base.
Proof.
  intros N R. rewrite <- map_app.
  assert (P : Permutation (map (fun i => nth i base d) (shown_idxs order ++ hidden_of (length base) order))
                          (map (fun i => nth i base d) (seq 0 (length base))))
    by (apply Permutation_map; apply shown_plus_hidden; assumption).
  rewrite (map_nth_seq d base) in P. exact P.
Qed.

Fixpoint qsum (l : list Q) : Q := match l with [] => 0%Q | x :: t => (x + qsum t)%Q end.

Lemma qsum_app a b : (qsum (a ++ b) == qsum a + qsum b)%Q.
Proof. induction a as [|x t IH]; simpl; [ring|]. rewrite IH. ring. Qed.

Lemma qsum_perm a b : Permutation a b -> (qsum a == qsum b)%Q.
Proof.
  induction 1; simpl; try reflexivity.
  - rewrite IHPermutation. reflexivity.
  - ring.
  - rewrite IHPermutation1. exact IHPermutation2.
Qed.

(* ... so a total over the base block (a table margin, a base) is the total over the
   displayed elements PLUS the total over the hidden / pruned ones *)
Theorem total_counts_hidden (base : list Q) order :
  NoDup order -> Forall (fun z => (z < Z.of_nat (length base))%Z) order ->
  (qsum (map (fun i => nth i base 0%Q) (shown_idxs order))
   + qsum (map (fun i => nth i base 0%Q) (hidden_of (length base) order)) == qsum base)%Q.
Proof.
  intros N R. rewrite <- qsum_app. apply qsum_perm. apply displayed_plus_hidden; assumption.
Qed.
