(* GenAgreeDimTypeFromDicts: Dimensions.from_dicts as generated from src/cr/cube/dimension.py (Gen/DimTypeSrc.v) IS
   [resolve] of Model/DimType.v - the rule the C01 theorems mr_subvar_iff / resolve_keeps_other_types /
   multiple_response_pair / categorical_array_is_never_collapsed are about:

       f X (JList dicts) = Ok [ Dimension(d_p, resolve rds !! p, {}) | p ]

   for every list of dimension dicts that read as model [rdim]s ([dict_abs]: [rdim_abs] of
   Proofs/GenAgreeDimTypeKind.v; a CA_SUBVAR candidate's type.elements is a list of dicts and [has_values] says
   whether every one has a "value" key; every dict has a "references" dict, whose "alias" entries compare (==) the
   way the model's alias numbers do ([alias_ok]); the shimmed dimension dict X gives keeps "references").

   The code promotes IN PLACE while it iterates: the loop is read by position over the list of objects it has
   just constructed (harness/translate/x_dimtype.py).  The proof shows that the intermediate states are the
   model's: position i is decided when the outer loop is at i, by the UNPROMOTED types of the others (a promotion
   never makes or unmakes an MR_CAT). *)
From Coq Require Import List ZArith String Bool Lia Arith.
From CC Require Import Base.XQ Base.ListX Base.PyList Base.PyDict Model.CubeCounts Model.DimType Model.PyDimension
  Model.PyDimType Model.DimValues Gen.DimensionSrc Gen.DimTypeSrc Proofs.GenAgreeDimensionLib
  Proofs.GenAgreeDimTypeLib Proofs.GenAgreeDimTypeKind
  Proofs.GenAgreeDimTypeDims.
Import ListNotations.
Local Close Scope Q_scope.
Local Open Scope Z_scope.
Local Open Scope string_scope.

Definition elem_has_value (e : jv) : bool :=
  match e with JDict d => match jget d "value" with Some _ => true | None => false end | _ => false end.

(* a subvariables dimension: type.elements is a list of dicts, [b] = every one has a "value" *)
Definition values_abs (dd : jdict) (rd : rdim) : Prop :=
  match rd_type rd with
  | REnum SVariable b =>
      exists ty els, jget dd "type" = Some (JDict ty) /\ jget ty "elements" = Some (JList els) /\
                     Forall (fun e => exists d, e = JDict d) els /\ b = forallb elem_has_value els
  | _ => True
  end.

(* one dimension dict: the model's rdim and the value of references.alias *)
Definition dict_abs (X : pyshimenv) (d : jv) (ra : rdim * jv) : Prop :=
  exists dd refs, d = JDict dd /\ rdim_abs dd (fst ra) /\ values_abs dd (fst ra) /\
    jget dd "references" = Some (JDict refs) /\ dimension_alias refs = snd ra /\
    forall t tr, exists dd', x_dimension_dict X t d tr = JDict dd' /\ jget dd' "references" = Some (JDict refs).

Definition alias_ok (ras : list (rdim * jv)) : Prop :=
  forall p q, (p < List.length ras)%nat -> (q < List.length ras)%nat ->
    jv_eqb (snd (nth p ras (dflt_rdim, JNone))) (snd (nth q ras (dflt_rdim, JNone)))
    = Nat.eqb (rd_alias (fst (nth p ras (dflt_rdim, JNone)))) (rd_alias (fst (nth q ras (dflt_rdim, JNone)))).

Definition mkobj (dt : jv * dtype) : pydimobj := mkPyDimObj (fst dt) (snd dt) (JDict []).
Definition mkobjs (dicts : list jv) (ts : list dtype) : list pydimobj := map mkobj (combine dicts ts).

(* --- lists -------------------------------------------------------------------------------------------------- *)
Lemma list_set_length {A} (l : list A) i x : List.length (list_set_nat l i x) = List.length l.
Proof. revert i. induction l as [|y t IH]; intros [|i]; simpl; auto. Qed.

Lemma list_set_nth {A} (l : list A) i x d p :
  (i < List.length l)%nat -> nth p (list_set_nat l i x) d = if (p =? i)%nat then x else nth p l d.
Proof.
  revert i p. induction l as [|y t IH]; intros i p Hi; [simpl in Hi; lia|].
  destruct i as [|i], p as [|p]; cbn [list_set_nat nth Nat.eqb]; try reflexivity.
  apply IH. simpl in Hi. lia.
Qed.

Lemma list_set_idem {A} (l : list A) i x : list_set_nat (list_set_nat l i x) i x = list_set_nat l i x.
Proof. revert i. induction l as [|y t IH]; intros [|i]; simpl; auto. rewrite IH. reflexivity. Qed.

Lemma mkobjs_length dicts ts : List.length dicts = List.length ts -> List.length (mkobjs dicts ts) = List.length dicts.
Proof. intros H. unfold mkobjs. rewrite map_length, combine_length. lia. Qed.

Lemma mkobjs_nth dicts ts i :
  List.length dicts = List.length ts -> (i < List.length dicts)%nat ->
  pl_getitem (mkobjs dicts ts) (Z.of_nat i) = Ok (mkPyDimObj (nth i dicts JNone) (nth i ts TCat) (JDict [])).
Proof.
  intros Hl Hi. rewrite (pl_getitem_nth _ i (mkobj (JNone, TCat))) by (rewrite mkobjs_length; assumption).
  unfold mkobjs. rewrite map_nth, combine_nth by exact Hl. reflexivity.
Qed.

Lemma mkobjs_set dicts ts i t' :
  List.length dicts = List.length ts -> (i < List.length dicts)%nat ->
  py_list_set (mkobjs dicts ts) (Z.of_nat i)
              (set_do_dimension_type (mkPyDimObj (nth i dicts JNone) (nth i ts TCat) (JDict [])) t')
  = mkobjs dicts (list_set_nat ts i t').
Proof.
  intros Hl Hi. unfold py_list_set. replace (Z.of_nat i <? 0)%Z with false by (symmetry; apply Z.ltb_ge; lia).
  rewrite Nat2Z.id. unfold set_do_dimension_type. cbn [do_unshimmed_dimension_dict do_unshimmed_dimension_transforms_dict].
  unfold mkobjs. revert ts i Hl Hi. induction dicts as [|d ds IH]; intros [|t ts] i Hl Hi; try (simpl in *; lia).
  destruct i as [|i]; cbn [combine map list_set_nat nth]; [reflexivity|].
  f_equal. apply IH; simpl in *; lia.
Qed.

Lemma nth_map_seq {A} (f : nat -> A) n p d : (p < n)%nat -> nth p (map f (seq 0 n)) d = f p.
Proof.
  intros H. rewrite (nth_indep _ d (f 0%nat)) by (rewrite map_length, seq_length; exact H).
  rewrite (map_nth f (seq 0 n) 0%nat p), seq_nth by exact H. reflexivity.
Qed.

(* --- the model's rule on the list of types ---------------------------------------------------------------------- *)
Section Rule.
  Variable rds : list rdim.
  Let n := List.length rds.
  Let rd (p : nat) : rdim := nth p rds dflt_rdim.

  (* the test of the inner loop at outer position i, inner position j, on the current types *)
  Definition cond (ts : list dtype) (i j : nat) : bool :=
    negb (j =? i)%nat && (rd_alias (rd j) =? rd_alias (rd i))%nat && dtype_eqb (nth j ts TCat) TMrCat.
  Definition promote (i : nat) (ts : list dtype) : list dtype := list_set_nat ts i TMrSubvar.
  (* one round of the outer loop *)
  Definition step (ts : list dtype) (i : nat) : list dtype :=
    if dtype_eqb (nth i ts TCat) TCaSubvar
    then if has_values (rd i) then (if existsb (cond ts i) (seq 0 n) then promote i ts else ts) else ts
    else ts.

  (* the types after the outer loop has passed the positions below i *)
  Definition mix (i : nat) : list dtype :=
    map (fun p => if (p <? i)%nat then resolve_at rds p (rd p) else DimType.dimension_type (rd p)) (seq 0 n).

  Lemma mix_length i : List.length (mix i) = n.
  Proof. unfold mix. rewrite map_length, seq_length. reflexivity. Qed.

  Lemma mix_nth i p : (p < n)%nat ->
    nth p (mix i) TCat = if (p <? i)%nat then resolve_at rds p (rd p) else DimType.dimension_type (rd p).
  Proof. intros Hp. unfold mix. rewrite nth_map_seq by exact Hp. reflexivity. Qed.

  Lemma resolve_at_mrcat p d : dtype_eqb (resolve_at rds p d) TMrCat = dtype_eqb (DimType.dimension_type d) TMrCat.
  Proof.
    unfold resolve_at. destruct (DimType.dimension_type d); try reflexivity.
    destruct (promoted rds p d); reflexivity.
  Qed.

  Lemma mix_mrcat i j : (j < n)%nat -> dtype_eqb (nth j (mix i) TCat) TMrCat = dtype_eqb (DimType.dimension_type (rd j)) TMrCat.
  Proof. intros Hj. rewrite mix_nth by exact Hj. destruct (j <? i)%nat; [apply resolve_at_mrcat | reflexivity]. Qed.

  Lemma existsb_ext_in {A} (f g : A -> bool) l : (forall x, In x l -> f x = g x) -> existsb f l = existsb g l.
  Proof. induction l as [|x t IH]; intros H; simpl; [reflexivity|]. rewrite H, IH; auto. intros; apply H; simpl; auto. left; reflexivity. Qed.

  Lemma promoted_cond i : (i < n)%nat ->
    promoted rds i (rd i) = (has_values (rd i) && existsb (cond (mix i) i) (seq 0 n))%bool.
  Proof.
    intros Hi. unfold promoted. f_equal. apply existsb_ext_in. intros q Hq. apply in_seq in Hq.
    unfold cond. rewrite mix_mrcat by (fold n in Hq; lia).
    fold n in Hq. replace (nth q rds (rd i)) with (rd q) by (unfold rd; apply nth_indep; lia). reflexivity.
  Qed.

  Lemma step_mix i : (i < n)%nat -> step (mix i) i = mix (S i).
  Proof.
    intros Hi. unfold step. rewrite (mix_nth i i Hi), Nat.ltb_irrefl.
    assert (E : forall b : bool, (if b then promote i (mix i) else mix i) = mix (S i) <->
                          forall p, (p < n)%nat -> nth p (if b then promote i (mix i) else mix i) TCat = nth p (mix (S i)) TCat).
    { intros b. split; [intros -> ; reflexivity|]. intros H. apply (nth_ext _ _ TCat TCat).
      - destruct b; unfold promote; rewrite ?list_set_length, !mix_length; reflexivity.
      - intros p Hp. apply H. destruct b; unfold promote in Hp; rewrite ?list_set_length, mix_length in Hp; exact Hp. }
    assert (Hsame : forall p, (p < n)%nat -> p <> i -> nth p (mix i) TCat = nth p (mix (S i)) TCat).
    { intros p Hp Hne. rewrite !mix_nth by exact Hp.
      destruct (p <? i)%nat eqn:E1; destruct (p <? S i)%nat eqn:E2; try reflexivity;
        [apply Nat.ltb_lt in E1; apply Nat.ltb_ge in E2; lia | apply Nat.ltb_ge in E1; apply Nat.ltb_lt in E2; lia]. }
    assert (Hat : nth i (mix (S i)) TCat = resolve_at rds i (rd i)).
    { rewrite mix_nth by exact Hi. replace (i <? S i)%nat with true by (symmetry; apply Nat.ltb_lt; lia). reflexivity. }
    pose proof (promoted_cond i Hi) as Hp.
    unfold resolve_at in Hat.
    destruct (dtype_eqb (DimType.dimension_type (rd i)) TCaSubvar) eqn:Et.
    - assert (Ety : DimType.dimension_type (rd i) = TCaSubvar) by (destruct (DimType.dimension_type (rd i)); try discriminate; reflexivity).
      rewrite Ety in Hat.
      destruct (has_values (rd i)); cbn [andb] in Hp.
      + apply (proj2 (E (existsb (cond (mix i) i) (seq 0 n)))). intros p Hpn.
        destruct (Nat.eq_dec p i) as [->|Hne].
        * rewrite Hat, Hp. destruct (existsb (cond (mix i) i) (seq 0 n)).
          -- unfold promote. rewrite list_set_nth by (rewrite mix_length; exact Hi). rewrite Nat.eqb_refl. reflexivity.
          -- rewrite mix_nth, Nat.ltb_irrefl by exact Hi. exact Ety.
        * rewrite <- (Hsame p Hpn Hne). destruct (existsb (cond (mix i) i) (seq 0 n)); [|reflexivity].
          unfold promote. rewrite list_set_nth by (rewrite mix_length; exact Hi).
          destruct (p =? i)%nat eqn:E1; [apply Nat.eqb_eq in E1; contradiction | reflexivity].
      + apply (proj2 (E false)). intros p Hpn. destruct (Nat.eq_dec p i) as [->|Hne]; [|apply Hsame; assumption].
        rewrite Hat, Hp. rewrite mix_nth, Nat.ltb_irrefl by exact Hi. exact Ety.
    - apply (proj2 (E false)). intros p Hpn. destruct (Nat.eq_dec p i) as [->|Hne]; [|apply Hsame; assumption].
      rewrite Hat. rewrite mix_nth, Nat.ltb_irrefl by exact Hi.
      destruct (DimType.dimension_type (rd i)); try reflexivity. discriminate.
  Qed.

  Lemma mix_0 : mix 0 = map DimType.dimension_type rds.
  Proof.
    apply (nth_ext _ _ TCat TCat); [rewrite mix_length, map_length; reflexivity|].
    intros p Hp. rewrite mix_length in Hp. rewrite mix_nth by exact Hp. cbn [Nat.ltb Nat.leb].
    rewrite (nth_indep _ TCat (DimType.dimension_type dflt_rdim)) by (rewrite map_length; exact Hp).
    rewrite map_nth. reflexivity.
  Qed.

  Lemma mix_n : mix n = resolve rds.
  Proof.
    unfold mix, resolve. apply map_ext_in. intros p Hp. apply in_seq in Hp.
    replace (p <? n)%nat with true by (symmetry; apply Nat.ltb_lt; fold n in Hp; lia). reflexivity.
  Qed.
End Rule.

(* --- the loops ---------------------------------------------------------------------------------------------------- *)
(* the inner loop, with the generated closure as a variable *)
Lemma inner_fold (F : list pydimobj -> Z -> res (list pydimobj)) (c : list dtype -> nat -> bool)
      (upd : list dtype -> list dtype) (P : list dtype -> Prop) dicts js :
  (forall ts j, In j js -> P ts -> F (mkobjs dicts ts) (Z.of_nat j) = Ok (mkobjs dicts (if c ts j then upd ts else ts))) ->
  (forall ts, P ts -> P (upd ts)) -> (forall ts j, P ts -> c (upd ts) j = c ts j) -> (forall ts, upd (upd ts) = upd ts) ->
  forall ts, P ts ->
  py_foldM F (map Z.of_nat js) (mkobjs dicts ts) = Ok (mkobjs dicts (if existsb (c ts) js then upd ts else ts)).
Proof.
  intros HF HP Hc Hi. induction js as [|j t IH]; intros ts Hts; cbn [map PyCollator.py_foldM existsb]; [reflexivity|].
  rewrite HF by (simpl; auto). cbn [Collator.bind].
  assert (IH' : forall ts, P ts -> py_foldM F (map Z.of_nat t) (mkobjs dicts ts)
                                   = Ok (mkobjs dicts (if existsb (c ts) t then upd ts else ts)))
    by (apply IH; intros; apply HF; simpl; auto).
  destruct (c ts j) eqn:E; cbn [orb].
  - rewrite IH' by (apply HP; exact Hts). rewrite Hi.
    destruct (existsb (c (upd ts)) t); reflexivity.
  - apply IH'. exact Hts.
Qed.

Lemma outer_fold (F : list pydimobj -> Z -> res (list pydimobj)) (S_ : nat -> list dtype) dicts n :
  (forall i, (i < n)%nat -> F (mkobjs dicts (S_ i)) (Z.of_nat i) = Ok (mkobjs dicts (S_ (S i)))) ->
  forall k s, (s + k <= n)%nat ->
  py_foldM F (map Z.of_nat (seq s k)) (mkobjs dicts (S_ s)) = Ok (mkobjs dicts (S_ (s + k)%nat)).
Proof.
  intros HF. induction k as [|k IH]; intros s Hk; cbn [seq map PyCollator.py_foldM].
  - rewrite Nat.add_0_r. reflexivity.
  - rewrite HF by lia. cbn [Collator.bind]. rewrite IH by lia.
    replace (s + S k)%nat with (S s + k)%nat by lia. reflexivity.
Qed.

Lemma ca_subvar_type d : dtype_eqb (DimType.dimension_type d) TCaSubvar = true -> exists b, rd_type d = REnum SVariable b.
Proof.
  unfold DimType.dimension_type. destruct (rd_type d) as [cats|[] b]; try (intros; discriminate); [|exists b; reflexivity].
  destruct (rd_subrefs d), (is_logical cats); try discriminate. destruct (existsb rc_date cats); discriminate.
Qed.

Lemma Zeqb_nat j i : Z.eqb (Z.of_nat j) (Z.of_nat i) = Nat.eqb j i.
Proof.
  destruct (Nat.eqb j i) eqn:E; [apply Nat.eqb_eq in E; subst; apply Z.eqb_refl|].
  apply Nat.eqb_neq in E. apply Z.eqb_neq. lia.
Qed.

Lemma promote_length i ts : List.length (promote i ts) = List.length ts.
Proof. apply list_set_length. Qed.

Lemma cond_promote rds i ts j : (i < List.length ts)%nat -> cond rds (promote i ts) i j = cond rds ts i j.
Proof.
  intros Hi. unfold cond, promote. destruct (j =? i)%nat eqn:Eji; cbn [negb andb]; [reflexivity|].
  rewrite list_set_nth by exact Hi. rewrite Eji. reflexivity.
Qed.

Lemma promote_idem i ts : promote i (promote i ts) = promote i ts.
Proof. apply list_set_idem. Qed.

(* the comprehension that builds the objects *)
Lemma build_objs (F : jv -> res (option pydimobj)) X dicts ras :
  Forall2 (dict_abs X) dicts ras ->
  (forall d ra, dict_abs X d ra -> F d = Ok (Some (mkPyDimObj d (DimType.dimension_type (fst ra)) (JDict [])))) ->
  py_compM F dicts = Ok (mkobjs dicts (map DimType.dimension_type (map fst ras))).
Proof.
  intros H HF. induction H as [|d ra ds rs Hd _ IH]; [reflexivity|].
  cbn [py_compM map]. rewrite (HF d ra Hd), IH. reflexivity.
Qed.

Lemma any_no_value els :
  Forall (fun e => exists d, e = JDict d) els ->
  py_anyM (fun l_e => bind (pj_contains (JStr "value") l_e) (fun t9 => Ok (negb t9))) els
  = Ok (negb (forallb elem_has_value els)).
Proof.
  intros H. rewrite (py_anyM_ok _ (fun e => negb (elem_has_value e))).
  - f_equal. induction els as [|e t IH]; [reflexivity|]. cbn [existsb forallb]. inversion H; subst.
    rewrite IH by assumption. destruct (elem_has_value e); reflexivity.
  - intros e Hin. rewrite Forall_forall in H. destruct (H e Hin) as [d ->].
    rewrite pj_contains_dict. cbn [Collator.bind elem_has_value]. destruct (jget d "value"); reflexivity.
Qed.

(*@ C01 *)
Lemma gen_dimtype_Dimensions_from_dicts :
  match src_Dimensions_from_dicts with
  | Some f => forall X dicts ras,
      Forall2 (dict_abs X) dicts ras -> alias_ok ras ->
      f X (JList dicts) = Ok (mkobjs dicts (resolve (map fst ras)))
  | None => True end.
Proof.
  unfold src_Dimensions_from_dicts.
  first [exact I | idtac].
  all: generalize gen_dimtype_Dimension___init__; destruct src_Dimension___init__ as [init|]; [intros Hinit | intros _; exact I].
  all: generalize gen_dimtype_Dimensions_dimension_type; destruct src_Dimensions_dimension_type as [dty|]; [intros Hdty | intros _; exact I].
  all: generalize gen_dimtype_Dimension_alias; destruct src_Dimension_alias as [ali|]; [intros Hali | intros _; exact I].
  all: intros X dicts ras HF Hal; cbv beta iota.
  all: set (rds := map fst ras); set (n := List.length rds).
  all: assert (Hn : List.length dicts = n) by (unfold n, rds; rewrite map_length; apply (Forall2_len _ _ _ HF)).
  all: unfold pj_iter at 1; dsimpl.
  all: rewrite (build_objs _ X dicts ras HF)
    by (intros d ra (dd & refs & -> & Hr & _); rewrite (Hdty X dd (fst ra) Hr); dsimpl; rewrite Hinit; reflexivity).
  all: dsimpl; cbv zeta; fold rds; rewrite <- (mix_0 rds).
  (* what is known about position p *)
  all: assert (Hpos : forall p, (p < n)%nat -> dict_abs X (nth p dicts JNone) (nth p ras (dflt_rdim, JNone)))
         by (intros p Hp; apply nth_forall2; [exact HF | rewrite Hn; exact Hp]).
  all: assert (Hrd : forall p, (p < n)%nat -> fst (nth p ras (dflt_rdim, JNone)) = nth p rds dflt_rdim)
         by (intros p Hp; unfold rds; change dflt_rdim with (fst (dflt_rdim, JNone)) at 2; rewrite map_nth; reflexivity).
  (* the alias of the object at position p, whatever its current type *)
  all: assert (Hal' : forall p t, (p < n)%nat ->
            ali (dim_view X (mkPyDimObj (nth p dicts JNone) t (JDict []))) = Ok (snd (nth p ras (dflt_rdim, JNone))))
         by (intros p t Hp; destruct (Hpos p Hp) as (dd & refs & Ed & _ & _ & _ & Ea & Hx);
             unfold dim_view; cbn [do_dimension_type do_unshimmed_dimension_dict do_unshimmed_dimension_transforms_dict];
             destruct (Hx t (JDict [])) as (dd' & E1 & E2); rewrite E1; rewrite (Hali t dd' _ refs E2); rewrite Ea;
             reflexivity).
  all: rewrite bind_ret; unfold py_len.
  all: rewrite mkobjs_length by (rewrite mix_length; exact Hn); rewrite Hn.
  all: unfold py_range; rewrite Nat2Z.id.
  all: rewrite (outer_fold _ (mix rds) dicts n); [cbn [Nat.add]; fold n; rewrite mix_n; reflexivity | | lia].
  (* one round of the outer loop, on the state the model predicts *)
  all: intros i Hi; cbv beta; rewrite <- (step_mix rds i Hi).
  all: assert (Hts : List.length dicts = List.length (mix rds i)) by (rewrite mix_length; exact Hn).
  all: rewrite !mkobjs_nth by (try exact Hts; rewrite Hn; exact Hi); dsimpl.
  all: cbn [do_dimension_type do_unshimmed_dimension_dict]; unfold step at 1, DT_CA_SUBVAR.
  all: rewrite (mix_nth rds i i Hi), Nat.ltb_irrefl.
  all: destruct (dtype_eqb (DimType.dimension_type (nth i rds dflt_rdim)) TCaSubvar) eqn:Et; [|reflexivity].
  all: destruct (Hpos i Hi) as (dd & refs & Ed & Hr & Hv & _).
  all: rewrite (Hrd i Hi) in Hr, Hv; rewrite Ed.
  all: destruct (ca_subvar_type _ Et) as [b Eb].
  all: unfold values_abs in Hv; unfold has_values; rewrite Eb in Hv |- *.
  all: destruct Hv as (ty & els & Hty & Hels & Hdicts & Hb).
  all: rewrite pj_getitem_jget, Hty; dsimpl; rewrite pj_getitem_jget, Hels; dsimpl; unfold pj_iter; dsimpl.
  all: rewrite (any_no_value els Hdicts), <- Hb; dsimpl.
  all: destruct b; cbn [negb]; [|reflexivity].
  (* the inner loop *)
  all: rewrite mkobjs_length by exact Hts; rewrite Hn; unfold py_range; rewrite Nat2Z.id.
  all: rewrite (inner_fold _ (fun ts j => cond rds ts i j) (promote i) (fun ts => List.length ts = n) dicts (seq 0 n));
    [ rewrite bind_ret; reflexivity
    | intros ts j Hj Hlen; apply in_seq in Hj; cbv beta zeta;
      assert (Hl2 : List.length dicts = List.length ts) by (rewrite Hlen; exact Hn);
      rewrite Zeqb_nat; unfold cond;
      destruct (j =? i)%nat eqn:Eji; cbn [negb andb]; dsimpl; [reflexivity|];
      rewrite !mkobjs_nth by (try exact Hl2; rewrite Hn; lia); dsimpl;
      rewrite !Hal' by lia; dsimpl;
      rewrite (Hal j i) by (unfold rds in n; unfold n in *; rewrite map_length in *; lia); rewrite !Hrd by lia;
      destruct (rd_alias (nth j rds dflt_rdim) =? rd_alias (nth i rds dflt_rdim))%nat; cbn [andb]; dsimpl; [|reflexivity];
      cbn [do_dimension_type]; unfold DT_MR_CAT, DT_MR_SUBVAR;
      destruct (dtype_eqb (nth j ts TCat) TMrCat); dsimpl; [|reflexivity];
      rewrite mkobjs_set by (try exact Hl2; rewrite Hn; lia); reflexivity
    | intros ts Hlen; rewrite promote_length; exact Hlen
    | intros ts j Hlen; apply cond_promote; rewrite Hlen; exact Hi
    | intros ts; apply promote_idem
    | apply mix_length ].
Qed.
