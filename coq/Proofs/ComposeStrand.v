(* Proofs/ComposeStrand.v -- C03 END TO END for 1-D cubes (strands).

   The strand's table proportions (Model/Proportions.v::strand_props_base) computed from the
   count and base vectors that stripe/cubemeasure.py (Model/CubeCounts.v) extracts from the
   tabulation of a survey:
       categorical strand   p_i = w(category i) / w(any valid category)     (sums to 1)
       MR strand            p_i = w(selected item i) / w(item i not missing)
   NaN exactly when the base is 0, otherwise in [0, 1]; count <= base derived from the survey. *)
From Coq Require Import QArith ZArith List Bool Lia Arith Setoid Morphisms.
From CC Require Import Base.XQ Base.ListX Spec.Survey Model.CubeCounts Model.Subtotals
     Model.Proportions Proofs.CubeCountsProofs Proofs.ProportionsProofs Proofs.ComposeBase
     Proofs.ComposeProportions.
Import ListNotations.
Local Close Scope Q_scope.
Local Open Scope nat_scope.

Section Strand.
  Variable S : survey.
  Variable v : nat.
  Variable ms : list bool.
  Hypothesis Hwf : wf_survey S.

  (* categorical strand *)
  Let Vc := take_valid (dims_of KCat ms) (raw_of [(v, KCat)] S).
  Definition st_cat_counts : list xq := tab (nval ms) (stripe_counts Vc CCat).
  Definition st_cat_bases : list xq := tab (nval ms) (stripe_bases Vc (nval ms) 0 CCat).
  Definition st_cat_props : list xq := strand_props_base st_cat_counts st_cat_bases.

  Definition ws_cat (i : nat) : Q := wsum S (fun r => in_cat ms (ans r v) i).
  Definition ws_cat_base : Q := wsum S (fun r => ok_cat ms (ans r v)).

  Lemma st_cat_counts_len : length st_cat_counts = nval ms.
  Proof. apply tab_length. Qed.

  Lemma st_cat_prop_eq i : i < nval ms ->
    vnth st_cat_props i =x= xdiv (Fin (ws_cat i)) (Fin ws_cat_base).
  Proof.
    intros Hi. unfold st_cat_props.
    rewrite (strand_props_base_nth _ _ i) by (rewrite st_cat_counts_len; exact Hi).
    unfold st_cat_counts, st_cat_bases. rewrite !tab_vnth by exact Hi.
    apply xdiv_Proper; [apply (strand_cat_counts_spec S v ms i Hi)| apply (strand_cat_table_base_spec S v ms)].
  Qed.

  Theorem strand_cat_proportion_cases i : i < nval ms ->
    ratio_spec (vnth st_cat_props i) (ws_cat i) ws_cat_base.
  Proof.
    intros Hi. apply ratio_cases.
    - apply st_cat_prop_eq. exact Hi.
    - apply wsum_nonneg. exact Hwf.
    - apply wsum_mono; [exact Hwf|]. intros r _. apply in_cat_ok_cat.
  Qed.

  Lemma strand_cells_sum_to_base : (qsumn (nval ms) ws_cat == ws_cat_base)%Q.
  Proof.
    unfold ws_cat, ws_cat_base, wsum. rewrite gsum_qsumn. apply gsum_ext. intros r _. unfold nval.
    rewrite (qsumn_ext _ _ (fun i => ind (true && oeqb (acat (ans r v)) (nth i (valid_idxs ms) 0)))).
    - rewrite (qsumn_ind_onehot ms (acat (ans r v)) true); [reflexivity| intros; reflexivity].
    - intros i Hi. unfold in_cat. rewrite (ltb_true _ _ Hi). reflexivity.
  Qed.

  Theorem strand_cat_proportions_sum_one : ~ (ws_cat_base == 0)%Q -> xsum st_cat_props =x= Fin 1.
  Proof.
    intros Hb. unfold st_cat_props, strand_props_base. rewrite st_cat_counts_len.
    rewrite (xsum_tab_fin (nval ms) _ (fun i => ws_cat i / ws_cat_base)%Q).
    - simpl. rewrite qsumn_div, strand_cells_sum_to_base. field. exact Hb.
    - intros i Hi. rewrite <- (xdiv_fin _ _ Hb).
      pose proof (st_cat_prop_eq i Hi) as E. unfold st_cat_props in E.
      rewrite (strand_props_base_nth _ _ i) in E by (rewrite st_cat_counts_len; exact Hi). exact E.
  Qed.

  (* multiple-response strand *)
  Let Vm := take_valid (dims_of KMr ms) (raw_of [(v, KMr)] S).
  Definition st_mr_counts : list xq := tab (nval ms) (stripe_counts Vm CMr).
  Definition st_mr_bases : list xq := tab (nval ms) (stripe_bases Vm (nval ms) (length mrv) CMr).
  Definition st_mr_props : list xq := strand_props_base st_mr_counts st_mr_bases.

  Definition ws_mr (i : nat) : Q := wsum S (fun r => in_mr ms (ans r v) i).
  Definition ws_mr_base (i : nat) : Q := wsum S (fun r => ok_mr ms (ans r v) i).

  Theorem strand_mr_proportion_cases i : i < nval ms ->
    ratio_spec (vnth st_mr_props i) (ws_mr i) (ws_mr_base i).
  Proof.
    intros Hi. apply ratio_cases.
    - unfold st_mr_props.
      rewrite (strand_props_base_nth _ _ i) by (unfold st_mr_counts; rewrite tab_length; exact Hi).
      unfold st_mr_counts, st_mr_bases. rewrite !tab_vnth by exact Hi.
      apply xdiv_Proper; [apply (strand_mr_counts_spec S v ms i)| apply (strand_mr_bases_spec S v ms i)].
    - apply wsum_nonneg. exact Hwf.
    - apply wsum_mono; [exact Hwf|]. intros r _. apply in_mr_ok_mr.
  Qed.
End Strand.
