(* C07: ids of insertions, agreement of the signed and 'ins_N' renderings, anchor table. *)
From Coq Require Import List Sorting Permutation ZArith String Bool Lia Arith.
From CC Require Import Base.SortX Spec.OrderSpec Model.Collator
  Proofs.OrderCollate Proofs.OrderExplicit.
Import ListNotations.
Local Open Scope nat_scope.

(* --- nth of enumerate --------------------------------------------------------------------- *)
Lemma nth_enumerate {A} (l : list A) k d0 :
  k < List.length l -> nth k (enumerate l) (0, d0) = (k, nth k l d0).
Proof.
  intros H. unfold enumerate. rewrite combine_nth by (rewrite seq_length; reflexivity).
  rewrite seq_nth by exact H. reflexivity.
Qed.

Lemma nth_map_enumerate {A B} (F : nat * A -> B) (l : list A) k d0 dB :
  k < List.length l -> nth k (map F (enumerate l)) dB = F (k, nth k l d0).
Proof.
  intros H. rewrite (nth_indep _ dB (F (0, d0))) by (rewrite map_length, enumerate_length; exact H).
  rewrite map_nth. rewrite nth_enumerate by exact H. reflexivity.
Qed.

(* --- ids ----------------------------------------------------------------------------------- *)
Lemma with_ids_transforms ids ds k d0 :
  k < List.length ds -> i_id (nth k ds d0) = None ->
  nth k (map fst (with_ids false ids ds)) 0%Z = Z.of_nat (S k).
Proof.
  intros Hk Hid. unfold with_ids. rewrite map_map.
  rewrite (nth_map_enumerate _ ds k d0) by exact Hk. cbv beta iota. rewrite Hid. reflexivity.
Qed.

Lemma with_ids_given fv ids ds k d0 z :
  k < List.length ds -> i_id (nth k ds d0) = Some z ->
  nth k (map fst (with_ids fv ids ds)) 0%Z = z.
Proof.
  intros Hk Hid. unfold with_ids. rewrite map_map.
  rewrite (nth_map_enumerate _ ds k d0) by exact Hk. cbv beta iota. rewrite Hid. reflexivity.
Qed.

(* ids of id-less VIEW insertions (rank in the specification's payload display order):
   Proofs/OrderCrosswalk.v *)

(* --- anchor table --------------------------------------------------------------------------- *)
Lemma anchor_table ids :
  spec_place ids INone = Some PBottom /\
  (forall z, In (IInt z) ids -> spec_place ids (IInt z) = Some (PAfter (IInt z))) /\
  (forall z, ~ In (IInt z) ids -> spec_place ids (IInt z) = Some PBottom) /\
  (forall s z, py_int s = Some z -> spec_place ids (IStr s) = spec_place ids (IInt z)) /\
  spec_place ids (IStr "Top") = Some PTop /\ spec_place ids (IStr "top") = Some PTop /\
  spec_place ids (IStr "BOTTOM") = Some PBottom /\ spec_place ids (IStr "bottom") = Some PBottom /\
  py_int "3" = Some 3%Z /\ py_int "-12" = Some (-12)%Z /\ py_int "top" = None.
Proof.
  repeat split; try reflexivity.
  - intros z H. simpl. apply imem_In in H. rewrite H. reflexivity.
  - intros z H. simpl. apply imem_false in H. rewrite H. reflexivity.
  - intros s z H. simpl. rewrite H. reflexivity.
Qed.

(* --- 'ins_N' rendering ------------------------------------------------------------------------ *)
Lemma zlookup_combine (ks vs : list Z) k :
  NoDup ks -> List.length ks = List.length vs -> k < List.length ks ->
  zlookup (nth k ks 0%Z) (combine ks vs) = Some (nth k vs 0%Z).
Proof.
  revert vs k. induction ks as [|x t IH]; intros vs k N L Hk; simpl in Hk; [lia|].
  destruct vs as [|v vs]; simpl in L; [lia|]. inversion N; subst. simpl.
  destruct k as [|k].
  - rewrite Z.eqb_refl. reflexivity.
  - destruct (Z.eqb x (nth k t 0%Z)) eqn:E.
    + apply Z.eqb_eq in E. exfalso. apply H1. rewrite E. apply nth_In. lia.
    + apply IH; auto; lia.
Qed.

Lemma neg_idxs_nth n k : k < n -> nth k (neg_idxs n) 0%Z = (Z.of_nat k - Z.of_nat n)%Z.
Proof.
  intros H. unfold neg_idxs.
  set (f := fun i => (Z.of_nat i - Z.of_nat n)%Z).
  rewrite (nth_indep _ 0%Z (f 0)) by (rewrite map_length, seq_length; exact H).
  rewrite (map_nth f), seq_nth by exact H. reflexivity.
Qed.

Lemma neg_idxs_nodup n : NoDup (neg_idxs n).
Proof.
  unfold neg_idxs. apply FinFun.Injective_map_NoDup; [|apply seq_NoDup].
  intros a b H. lia.
Qed.

Lemma order_mapping_lookup (sids : list Z) z :
  (- Z.of_nat (List.length sids) <= z < 0)%Z ->
  zlookup z (order_mapping sids)
  = Some (nth (Z.to_nat (Z.of_nat (List.length sids) + z)) sids 0%Z).
Proof.
  intros H. unfold order_mapping. set (n := List.length sids) in *.
  set (k := Z.to_nat (Z.of_nat n + z)).
  assert (Hk : k < n) by lia.
  replace z with (nth k (neg_idxs n) 0%Z) by (rewrite neg_idxs_nth by exact Hk; lia).
  apply zlookup_combine.
  - apply neg_idxs_nodup.
  - apply neg_idxs_length.
  - rewrite neg_idxs_length. exact Hk.
Qed.

Lemma render_bogus_agrees (sids : list Z) (order : list Z) :
  Forall (fun z => (- Z.of_nat (List.length sids) <= z)%Z) order ->
  render_bogus (order_mapping sids) order
  = Ok (map (fun z => if Z.ltb z 0
                      then EIns (nth (Z.to_nat (Z.of_nat (List.length sids) + z)) sids 0%Z)
                      else EBase z) order).
Proof.
  induction 1 as [|z t Hz Ht IH]; simpl; auto.
  rewrite IH. destruct (Z.ltb z 0) eqn:E; auto.
  apply Z.ltb_lt in E. rewrite order_mapping_lookup by lia. reflexivity.
Qed.

Lemma zmem_In z l : zmem z l = true <-> In z l.
Proof.
  unfold zmem. rewrite existsb_exists. split.
  - intros (x & Hx & E). apply Z.eqb_eq in E. subst. exact Hx.
  - intros H. exists z. split; auto. apply Z.eqb_refl.
Qed.

Lemma payload_bogus_ids_view_only d :
  d_tins d = None -> payload_bogus_ids d = plain_bogus_ids d.
Proof.
  intros H. unfold payload_bogus_ids, plain_bogus_ids.
  assert (E : subtotals_in_payload_order d = subtotals d).
  { unfold subtotals_in_payload_order, subtotals. rewrite H.
    destruct (d_array d); auto. destruct (d_view d); reflexivity. }
  rewrite E. apply filter_true_id. intros z Hz. apply zmem_In. exact Hz.
Qed.
