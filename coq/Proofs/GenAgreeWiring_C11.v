(* GOLDEN obligations of the wiring translator for C11 (generated ONCE by tools/gen_wiring_props.py,
   then committed): what each public member of cubepart.py that C11 relies on IS, as a term of
   Base/WiringExp.v.  Gen/WiringSrc.v is regenerated from /repo on every check; an edit of the
   public layer that changes one of these members breaks the lemma below (reflexivity). *)
From Coq Require Import List ZArith String.
From CC Require Import Base.WiringExp Gen.WiringSrc.
Import ListNotations.
Local Open Scope string_scope.

(* _Slice.column_proportions_moe *)
Lemma gen_wiring_Slice_column_proportions_moe :
  wsrc_Slice_column_proportions_moe = Some (WBin "*" (WGlobal "Z_975") (WSelf "column_std_err")).
Proof. reflexivity. Qed.

(* _Slice.column_proportion_variances *)
Lemma gen_wiring_Slice_column_proportion_variances :
  wsrc_Slice_column_proportion_variances = Some (w_matrix_of "column_proportion_variances").
Proof. reflexivity. Qed.

(* _Slice.column_std_dev *)
Lemma gen_wiring_Slice_column_std_dev :
  wsrc_Slice_column_std_dev = Some (WCall (WAttr (WGlobal "np") "sqrt") [WSelf
      "column_proportion_variances"] []).
Proof. reflexivity. Qed.

(* _Slice.column_std_err *)
Lemma gen_wiring_Slice_column_std_err :
  wsrc_Slice_column_std_err = Some (w_matrix_of "column_std_err").
Proof. reflexivity. Qed.

(* _Slice.row_proportions_moe *)
Lemma gen_wiring_Slice_row_proportions_moe :
  wsrc_Slice_row_proportions_moe = Some (WBin "*" (WGlobal "Z_975") (WSelf "row_std_err")).
Proof. reflexivity. Qed.

(* _Slice.row_proportion_variances *)
Lemma gen_wiring_Slice_row_proportion_variances :
  wsrc_Slice_row_proportion_variances = Some (w_matrix_of "row_proportion_variances").
Proof. reflexivity. Qed.

(* _Slice.row_std_dev *)
Lemma gen_wiring_Slice_row_std_dev :
  wsrc_Slice_row_std_dev = Some (WCall (WAttr (WGlobal "np") "sqrt") [WSelf
      "row_proportion_variances"] []).
Proof. reflexivity. Qed.

(* _Slice.row_std_err *)
Lemma gen_wiring_Slice_row_std_err :
  wsrc_Slice_row_std_err = Some (w_matrix_of "row_std_err").
Proof. reflexivity. Qed.

(* _Slice.table_proportions_moe *)
Lemma gen_wiring_Slice_table_proportions_moe :
  wsrc_Slice_table_proportions_moe = Some (WBin "*" (WGlobal "Z_975") (WSelf "table_std_err")).
Proof. reflexivity. Qed.

(* _Slice.table_proportion_variances *)
Lemma gen_wiring_Slice_table_proportion_variances :
  wsrc_Slice_table_proportion_variances = Some (w_matrix_of "table_proportion_variances").
Proof. reflexivity. Qed.

(* _Slice.table_std_dev *)
Lemma gen_wiring_Slice_table_std_dev :
  wsrc_Slice_table_std_dev = Some (WCall (WAttr (WGlobal "np") "sqrt") [WSelf
      "table_proportion_variances"] []).
Proof. reflexivity. Qed.

(* _Slice.table_std_err *)
Lemma gen_wiring_Slice_table_std_err :
  wsrc_Slice_table_std_err = Some (w_matrix_of "table_std_err").
Proof. reflexivity. Qed.

(* _Strand.table_proportion_moes *)
Lemma gen_wiring_Strand_table_proportion_moes :
  wsrc_Strand_table_proportion_moes = Some (WBin "*" (WGlobal "Z_975") (WSelf
      "table_proportion_stderrs")).
Proof. reflexivity. Qed.

(* _Strand.table_proportion_stddevs *)
Lemma gen_wiring_Strand_table_proportion_stddevs :
  wsrc_Strand_table_proportion_stddevs = Some (w_vector_of "table_proportion_stddevs").
Proof. reflexivity. Qed.

(* _Strand.table_proportion_stderrs *)
Lemma gen_wiring_Strand_table_proportion_stderrs :
  wsrc_Strand_table_proportion_stderrs = Some (w_vector_of "table_proportion_stderrs").
Proof. reflexivity. Qed.

(* SecondOrderMeasures.column_proportion_variances *)
Lemma gen_wiring_SecondOrderMeasures_column_proportion_variances :
  wsrc_SecondOrderMeasures_column_proportion_variances = Some (WCall (WGlobal "_ProportionVariances")
      [WSelf "_dimensions"; WVar "self"; WSelf "_cube_measures"; WAttr (WSelf "column_proportions")
      "blocks"; WAttr (WSelf "column_weighted_bases") "blocks"] []).
Proof. reflexivity. Qed.

(* SecondOrderMeasures.column_std_err *)
Lemma gen_wiring_SecondOrderMeasures_column_std_err :
  wsrc_SecondOrderMeasures_column_std_err = Some (WCall (WGlobal "_ColumnStandardError") [WSelf
      "_dimensions"; WVar "self"; WSelf "_cube_measures"] []).
Proof. reflexivity. Qed.

(* SecondOrderMeasures.row_proportion_variances *)
Lemma gen_wiring_SecondOrderMeasures_row_proportion_variances :
  wsrc_SecondOrderMeasures_row_proportion_variances = Some (WCall (WGlobal "_ProportionVariances")
      [WSelf "_dimensions"; WVar "self"; WSelf "_cube_measures"; WAttr (WSelf "row_proportions")
      "blocks"; WAttr (WSelf "row_weighted_bases") "blocks"] []).
Proof. reflexivity. Qed.

(* SecondOrderMeasures.row_std_err *)
Lemma gen_wiring_SecondOrderMeasures_row_std_err :
  wsrc_SecondOrderMeasures_row_std_err = Some (WCall (WGlobal "_RowStandardError") [WSelf
      "_dimensions"; WVar "self"; WSelf "_cube_measures"] []).
Proof. reflexivity. Qed.

(* SecondOrderMeasures.table_proportion_variances *)
Lemma gen_wiring_SecondOrderMeasures_table_proportion_variances :
  wsrc_SecondOrderMeasures_table_proportion_variances = Some (WCall (WGlobal "_ProportionVariances")
      [WSelf "_dimensions"; WVar "self"; WSelf "_cube_measures"; WAttr (WSelf "table_proportions")
      "blocks"; WAttr (WSelf "table_weighted_bases") "blocks"] []).
Proof. reflexivity. Qed.

(* SecondOrderMeasures.table_std_err *)
Lemma gen_wiring_SecondOrderMeasures_table_std_err :
  wsrc_SecondOrderMeasures_table_std_err = Some (WCall (WGlobal "_TableStandardError") [WSelf
      "_dimensions"; WVar "self"; WSelf "_cube_measures"] []).
Proof. reflexivity. Qed.

(* StripeMeasures.table_proportion_stddevs *)
Lemma gen_wiring_StripeMeasures_table_proportion_stddevs :
  wsrc_StripeMeasures_table_proportion_stddevs = Some (WCall (WGlobal "_TableProportionStddevs")
      [WSelf "_rows_dimension"; WVar "self"; WSelf "_cube_measures"] []).
Proof. reflexivity. Qed.

(* StripeMeasures.table_proportion_stderrs *)
Lemma gen_wiring_StripeMeasures_table_proportion_stderrs :
  wsrc_StripeMeasures_table_proportion_stderrs = Some (WCall (WGlobal "_TableProportionStderrs")
      [WSelf "_rows_dimension"; WVar "self"; WSelf "_cube_measures"] []).
Proof. reflexivity. Qed.

(* StripeMeasures.table_proportion_variances *)
Lemma gen_wiring_StripeMeasures_table_proportion_variances :
  wsrc_StripeMeasures_table_proportion_variances = Some (WCall (WGlobal "_TableProportionVariances")
      [WSelf "_rows_dimension"; WVar "self"; WSelf "_cube_measures"] []).
Proof. reflexivity. Qed.
