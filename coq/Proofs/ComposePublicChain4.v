(* Proofs/ComposePublicChain4.v -- the COMPOSITION of the source translators, part 3d: the measure chain,
   the residual z-scores (level 1: on the EVALUATED weighted counts and the three EVALUATED weighted bases;
   a radical measure, carried as its signed square z*|z|).  `self._is_defective` is the evaluation of its own
   generated term on the evaluated base block of the weighted counts ([defective]).
   Bridges: Proofs/GenAgreeZscore.v.  A block WITHOUT ROWS (no row subtotals) is outside the link lemma's
   hypothesis [z_shaped] (the list representation of a (0, n) array has forgotten n): there only the SHAPE of
   the evaluated term matters, which [zshape_*] below read off the generated term.  See ComposePublicChain.v. *)
From Coq Require Import QArith ZArith List Bool Lia Arith String.
From CC Require Import Base.XQ Base.ListX Base.WiringExp Model.Subtotals Model.Proportions Model.Zscore
     Proofs.ComposeBase
     Proofs.ComposePublicSem Proofs.ComposePublicLinks Proofs.ComposePublicChainDefs
     Proofs.ComposePublicChainCounts Proofs.ComposePublicChainBases.
From CC Require Base.MeasureExp Gen.MeasureSrc Proofs.GenAgreeMeasTac Proofs.GenAgreeZscore.
Import ListNotations.
Local Close Scope Q_scope.
Local Open Scope string_scope.
Local Open Scope nat_scope.

Import CC.Gen.MeasureSrc.

Section Model.
  Variable C : pctx.
  Definition zdef : bool := defective (m_counts C).
  Definition zblk (bi bj : nat) : mat :=
    zblock zdef (GenAgreeMeasTac.pick (B_counts C) bi bj) (GenAgreeMeasTac.pick (B_tabb C) bi bj)
           (GenAgreeMeasTac.pick (B_rowb C) bi bj) (GenAgreeMeasTac.pick (B_colb C) bi bj).
  Definition B_z : blocks := mkBlocks (zblk 0 0) (zblk 0 1) (zblk 1 0) (zblk 1 1).
End Model.

(* rows and columns of a tabulated matrix *)
Lemma is_tab_nrows nr nc M : is_tab nr nc M -> nrows M = nr.
Proof. intros H. rewrite <- H. apply tab2_nrows. Qed.
Lemma is_tab_ncols nr nc M : is_tab nr nc M -> 0 < nr -> ncols M = nc.
Proof. intros H H0. rewrite <- H. apply tab2_ncols. exact H0. Qed.
Lemma is_tab_empty nc M : is_tab 0 nc M -> M = [].
Proof. intros H. rewrite <- H. reflexivity. Qed.

Lemma zblock_tab d c t r k n m : nrows c = n -> (0 < n -> ncols c = m) -> is_tab n m (zblock d c t r k).
Proof.
  intros Hn Hm. destruct n as [|n].
  - unfold zblock, nan_like. rewrite Hn. destruct d; [reflexivity|]. destruct (mall_eq t r || mall_eq t k); reflexivity.
  - unfold zblock, nan_like. rewrite Hn, (Hm ltac:(lia)).
    destruct d; [apply is_tab_tab2|]. destruct (mall_eq t r || mall_eq t k); apply is_tab_tab2.
Qed.

Lemma tabular_z C : cube_tab C "counts" -> tabular C (B_z C).
Proof.
  intros Hc. pose proof (tabular_counts C Hc) as T.
  intros bi bj Hi Hj.
  assert (E : GenAgreeMeasTac.pick (B_z C) bi bj = zblk C bi bj).
  { destruct bi as [|[|bi]]; [| |exfalso; lia]; (destruct bj as [|[|bj]]; [| |exfalso; lia]); reflexivity. }
  rewrite E. unfold zblk. apply zblock_tab.
  - exact (is_tab_nrows _ _ _ (T bi bj Hi Hj)).
  - intros H0. exact (is_tab_ncols _ _ _ (T bi bj Hi Hj) H0).
Qed.

(* ------------------------------------------------------------------------------------ *)
(** * the shape of the z-score terms (used for blocks without rows only) *)

Definition zshape (o : option MeasureExp.mexp) (dr dc : MeasureExp.dim) : Prop :=
  match o with
  | Some e => forall nr nc rsubs csubs rd cd blk cubem cubeflag flag,
      exists f, MeasureExp.meval_sq (GenAgreeMeasTac.menv_mat nr nc rsubs csubs rd cd blk cubem cubeflag flag) e
                = MeasureExp.VMat dr dc f
  | None => True
  end.

Ltac zshape_tac :=
  unfold zshape; GenAgreeMeasTac.unfold_srcs;
  lazymatch goal with
  | |- True => exact I
  | _ => intros; GenAgreeMeasTac.meas_eval; eexists; reflexivity
  end.

Lemma zshape_10 : zshape src_Zscores_blocks_10 MeasureExp.DRS MeasureExp.DC.
Proof. zshape_tac. Qed.
Lemma zshape_11 : zshape src_Zscores_blocks_11 MeasureExp.DRS MeasureExp.DCS.
Proof. zshape_tac. Qed.

(* the link lemma and the shape, under one match *)
Lemma link_and_shape_10 :
  match src_Zscores_blocks_10 with
  | Some e =>
      (forall nr nc rsubs csubs rd cd blk cubem cubeflag flag,
         GenAgreeZscore.z_shaped blk 1 0 (List.length rsubs) nc ->
         GenAgreeMeasTac.holds_mat_sq (GenAgreeMeasTac.menv_mat nr nc rsubs csubs rd cd blk cubem cubeflag flag) e
           MeasureExp.DRS MeasureExp.DC (mnth (GenAgreeZscore.z_model blk flag 1 0))) /\
      zshape (Some e) MeasureExp.DRS MeasureExp.DC
  | None => True
  end.
Proof.
  generalize GenAgreeZscore.gen_Zscores_blocks_10 zshape_10.
  destruct src_Zscores_blocks_10; [intros A B; exact (conj A B)|intros; exact I].
Qed.
Lemma link_and_shape_11 :
  match src_Zscores_blocks_11 with
  | Some e =>
      (forall nr nc rsubs csubs rd cd blk cubem cubeflag flag,
         GenAgreeZscore.z_shaped blk 1 1 (List.length rsubs) (List.length csubs) ->
         GenAgreeMeasTac.holds_mat_sq (GenAgreeMeasTac.menv_mat nr nc rsubs csubs rd cd blk cubem cubeflag flag) e
           MeasureExp.DRS MeasureExp.DCS (mnth (GenAgreeZscore.z_model blk flag 1 1))) /\
      zshape (Some e) MeasureExp.DRS MeasureExp.DCS
  | None => True
  end.
Proof.
  generalize GenAgreeZscore.gen_Zscores_blocks_11 zshape_11.
  destruct src_Zscores_blocks_11; [intros A B; exact (conj A B)|intros; exact I].
Qed.

(* ------------------------------------------------------------------------------------ *)
(** * the chain *)

Definition terms_zscores : bool :=
  terms_weighted_counts && terms_row_weighted_bases && terms_column_weighted_bases && terms_table_weighted_bases &&
  is_some src_Zscores__is_defective &&
  is_some src_Zscores_blocks_00 && is_some src_Zscores_blocks_01 &&
  is_some src_Zscores_blocks_10 && is_some src_Zscores_blocks_11.

(* the model block the z-score lemma names, on the evaluated counts and bases *)
Lemma z_model_chain f C flag bi bj :
  realizes f C "weighted_counts" (B_counts C) -> realizes f C "table_weighted_bases" (B_tabb C) ->
  realizes f C "row_weighted_bases" (B_rowb C) -> realizes f C "column_weighted_bases" (B_colb C) ->
  bi < 2 -> bj < 2 -> flag "_is_defective" = zdef C ->
  GenAgreeZscore.z_model (blk_at f C) flag bi bj = zblk C bi bj.
Proof.
  intros Rc Rt Rr Rk Hi Hj Hf. unfold GenAgreeZscore.z_model, zblk. rewrite Hf.
  rewrite (realizes_blk _ _ _ _ bi bj Rc Hi Hj), (realizes_blk _ _ _ _ bi bj Rt Hi Hj),
          (realizes_blk _ _ _ _ bi bj Rr Hi Hj), (realizes_blk _ _ _ _ bi bj Rk Hi Hj). reflexivity.
Qed.

Lemma z_shaped_chain f C bi bj :
  realizes f C "weighted_counts" (B_counts C) -> realizes f C "table_weighted_bases" (B_tabb C) ->
  cube_tab C "counts" -> cube_tab C "table_bases" -> bi < 2 -> bj < 2 -> 0 < brows C bi ->
  GenAgreeZscore.z_shaped (blk_at f C) bi bj (brows C bi) (bcols C bj).
Proof.
  intros Rc Rt Hc Ht Hi Hj H0. unfold GenAgreeZscore.z_shaped.
  rewrite (realizes_blk _ _ _ _ bi bj Rc Hi Hj), (realizes_blk _ _ _ _ bi bj Rt Hi Hj).
  pose proof (tabular_counts C Hc bi bj Hi Hj) as T1. pose proof (tabular_tabb C Ht bi bj Hi Hj) as T2.
  repeat split.
  - exact (is_tab_nrows _ _ _ T1).
  - exact (is_tab_ncols _ _ _ T1 H0).
  - exact (is_tab_nrows _ _ _ T2).
  - exact (is_tab_ncols _ _ _ T2 H0).
Qed.

Theorem realizes_zscores :
  need terms_zscores
  (forall f C, first_order_ok C -> realizes (S (S f)) C "zscores" (B_z C)).
Proof.
  unfold terms_zscores.
  use_need realizes_weighted_counts terms_weighted_counts. intros Rc.
  use_need realizes_row_weighted_bases terms_row_weighted_bases. intros Rr.
  use_need realizes_column_weighted_bases terms_column_weighted_bases. intros Rk.
  use_need realizes_table_weighted_bases terms_table_weighted_bases. intros Rt.
  bridge GenAgreeZscore.gen_Zscores__is_defective src_Zscores__is_defective.
  bridge GenAgreeZscore.gen_Zscores_blocks_00 src_Zscores_blocks_00.
  bridge GenAgreeZscore.gen_Zscores_blocks_01 src_Zscores_blocks_01.
  bridge link_and_shape_10 src_Zscores_blocks_10.
  bridge link_and_shape_11 src_Zscores_blocks_11.
  needed. unfold zshape in *. destruct G2 as [G2 Z10]. destruct G3 as [G3 Z11]. intros f C H1. pose proof H1 as (Hc & Hrb & Hcb & Htb & Hne).
  pose proof (Rc f C Hc) as RC. pose proof (Rr f C Hrb Hne) as RR.
  pose proof (Rk f C Hcb Hne) as RK. pose proof (Rt f C Htb Hne) as RT.
  (* the flag *)
  assert (HD : defective_of C (blk_at (S f) C) = Some (zdef C)).
  { unfold defective_of. rewrite E.
    pose proof (realizes_blk _ _ _ _ 0 0 RC ltac:(lia) ltac:(lia)) as B0. cbn [GenAgreeMeasTac.pick] in B0.
    unfold menv_of. rewrite (G (c_nr C) (c_nc C) (c_rsubs C) (c_csubs C) (c_rd C) (c_cd C) (blk_at (S f) C)
                               (c_cubem C) (c_cubeflag C) (c_flag C)).
    - rewrite B0. reflexivity.
    - rewrite B0. exact (is_tab_nrows _ _ _ Hc).
    - rewrite B0. exact (is_tab_ncols _ _ _ Hc (proj1 Hne)). }
  set (flag := fun s : string => if String.eqb s "_is_defective" then zdef C else c_flag C s).
  assert (HF : flag "_is_defective" = zdef C) by reflexivity.
  pose proof (tabular_z C Hc) as T.
  assert (ZM : forall bi bj, bi < 2 -> bj < 2 ->
             GenAgreeZscore.z_model (blk_at (S f) C) flag bi bj = GenAgreeMeasTac.pick (B_z C) bi bj).
  { intros bi bj Hi Hj. rewrite (z_model_chain (S f) C flag bi bj RC RT RR RK Hi Hj HF).
    destruct bi as [|[|bi]]; [| |exfalso; lia]; (destruct bj as [|[|bj]]; [| |exfalso; lia]); reflexivity. }
  assert (ZS : forall bi bj, bi < 2 -> bj < 2 -> 0 < brows C bi ->
             GenAgreeZscore.z_shaped (blk_at (S f) C) bi bj (brows C bi) (bcols C bj))
    by (intros bi bj Hi Hj H0; exact (z_shaped_chain (S f) C bi bj RC RT Hc Htb Hi Hj H0)).
  (* a block with rows: the link lemma; its cells are the model block's *)
  assert (STEP : forall e bi bj, bi < 2 -> bj < 2 -> 0 < brows C bi ->
            GenAgreeMeasTac.holds_mat_sq (menv_z_of C (blk_at (S f) C) (zdef C)) e (rtag bi) (ctag bj)
              (mnth (GenAgreeZscore.z_model (blk_at (S f) C) flag bi bj)) ->
            eval_block C (blk_at (S f) C) KZ (TM e)
            = Some (brows C bi, bcols C bj, GenAgreeMeasTac.pick (B_z C) bi bj)).
  { intros e' bi bj Hi Hj H0 H.
    rewrite (eval_block_z_fn C _ e' bi bj (zdef C) _ HD H). rewrite (ZM bi bj Hi Hj).
    rewrite (T bi bj Hi Hj). reflexivity. }
  four_blocks.
  - eapply gen_blk_step; [reflexivity|cbn [pick4 otm]; rewrite E0; reflexivity|].
    apply (STEP e0 0 0); [lia|lia|exact (proj1 Hne)|].
    exact (G0 (c_nr C) (c_nc C) (c_rsubs C) (c_csubs C) (c_rd C) (c_cd C) (blk_at (S f) C) (c_cubem C) (c_cubeflag C) flag (ZS 0 0 ltac:(lia) ltac:(lia) (proj1 Hne))).
  - eapply gen_blk_step; [reflexivity|cbn [pick4 otm]; rewrite E1; reflexivity|].
    apply (STEP e1 0 1); [lia|lia|exact (proj1 Hne)|].
    exact (G1 (c_nr C) (c_nc C) (c_rsubs C) (c_csubs C) (c_rd C) (c_cd C) (blk_at (S f) C) (c_cubem C) (c_cubeflag C) flag (ZS 0 1 ltac:(lia) ltac:(lia) (proj1 Hne))).
  - eapply gen_blk_step; [reflexivity|cbn [pick4 otm]; rewrite E2; reflexivity|].
    destruct (Nat.eq_dec (brows C 1) 0) as [H0|H0].
    + destruct (Z10 (c_nr C) (c_nc C) (c_rsubs C) (c_csubs C) (c_rd C) (c_cd C) (blk_at (S f) C)
                    (c_cubem C) (c_cubeflag C) flag) as [fz Hz].
      rewrite (eval_block_z_empty C _ e2 1 0 (zdef C) fz HD Hz H0).
      pose proof (T 1 0 ltac:(lia) ltac:(lia)) as T10. rewrite H0 in T10.
      rewrite (is_tab_empty _ _ T10). reflexivity.
    + apply (STEP e2 1 0); [lia|lia|lia|].
      exact (G2 (c_nr C) (c_nc C) (c_rsubs C) (c_csubs C) (c_rd C) (c_cd C) (blk_at (S f) C) (c_cubem C) (c_cubeflag C) flag (ZS 1 0 ltac:(lia) ltac:(lia) ltac:(lia))).
  - eapply gen_blk_step; [reflexivity|cbn [pick4 otm]; rewrite E3; reflexivity|].
    destruct (Nat.eq_dec (brows C 1) 0) as [H0|H0].
    + destruct (Z11 (c_nr C) (c_nc C) (c_rsubs C) (c_csubs C) (c_rd C) (c_cd C) (blk_at (S f) C)
                    (c_cubem C) (c_cubeflag C) flag) as [fz Hz].
      rewrite (eval_block_z_empty C _ e3 1 1 (zdef C) fz HD Hz H0).
      pose proof (T 1 1 ltac:(lia) ltac:(lia)) as T11. rewrite H0 in T11.
      rewrite (is_tab_empty _ _ T11). reflexivity.
    + apply (STEP e3 1 1); [lia|lia|lia|].
      exact (G3 (c_nr C) (c_nc C) (c_rsubs C) (c_csubs C) (c_rd C) (c_cd C) (blk_at (S f) C) (c_cubem C) (c_cubeflag C) flag (ZS 1 1 ltac:(lia) ltac:(lia) ltac:(lia))).
Qed.
