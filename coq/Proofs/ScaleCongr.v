(* Proofs/ScaleCongr.v -- the scale statistics of Model/Scale.v only depend on the count / base
   vectors UP TO =x= (cell by cell).  Used by C10 (a transposed block is a transpose up to Qeq) and by
   C04 (the inserted vector equals the merged category's vector up to Qeq).

   [vxeq a b]: same length and pointwise =x=.  The mean, the variance (std-dev^2) and the std-err^2
   are congruent up to =x=; the MEDIAN is congruent up to Leibniz equality: every use the code makes
   of a count in `_weighted_median` is a comparison, so two count vectors that agree up to Qeq select
   the same value(s). *)
From Coq Require Import QArith ZArith List Bool Lia Arith Setoid Morphisms.
From CC Require Import Base.XQ Base.ListX Model.Scale.
Import ListNotations.
Local Close Scope Q_scope.
Local Open Scope nat_scope.

Definition vxeq (a b : list xq) : Prop := Forall2 xeq a b.

Lemma vxeq_refl a : vxeq a a.
Proof. induction a; constructor; [reflexivity| assumption]. Qed.

Lemma vxeq_sym a b : vxeq a b -> vxeq b a.
Proof. induction 1; constructor; [symmetry; assumption| assumption]. Qed.

Lemma vxeq_trans a b c : vxeq a b -> vxeq b c -> vxeq a c.
Proof.
  intros H. revert c. induction H as [|x y s t Hxy Hst IH]; intros c Hc; inversion Hc; subst; constructor.
  - etransitivity; eassumption.
  - apply IH. assumption.
Qed.

Lemma vxeq_length a b : vxeq a b -> length a = length b.
Proof. induction 1; simpl; congruence. Qed.

Lemma vxeq_vnth a b i : vxeq a b -> vnth a i =x= vnth b i.
Proof.
  intros H. revert i. induction H as [|x y s t Hxy Hst IH]; intros i.
  - reflexivity.
  - destruct i; [exact Hxy| apply IH].
Qed.

Lemma vxeq_map {A} (f g : A -> xq) l : (forall x, In x l -> f x =x= g x) -> vxeq (map f l) (map g l).
Proof.
  induction l as [|a t IH]; intros H; simpl; constructor.
  - apply H. left. reflexivity.
  - apply IH. intros x Hx. apply H. right. exact Hx.
Qed.

Lemma vxeq_tab n f g : (forall i, i < n -> f i =x= g i) -> vxeq (tab n f) (tab n g).
Proof. intros H. unfold tab. apply vxeq_map. intros i Hi. apply in_seq in Hi. apply H. lia. Qed.

Lemma vxeq_map_nan a b : vxeq a b -> vxeq (map (fun _ => NaN) a) (map (fun _ => NaN) b).
Proof. induction 1; simpl; constructor; [reflexivity| assumption]. Qed.

(* ---- sums -------------------------------------------------------------------------------------- *)
Lemma xsum_vxeq a b : vxeq a b -> xsum a =x= xsum b.
Proof. induction 1 as [|x y s t Hxy Hst IH]; simpl; [reflexivity|]. rewrite Hxy, IH. reflexivity. Qed.

Lemma nansum_vxeq a b : vxeq a b -> nansum a =x= nansum b.
Proof.
  induction 1 as [|x y s t Hxy Hst IH]; simpl; [reflexivity|].
  rewrite (is_nan_Proper _ _ Hxy). destruct (is_nan y); [exact IH|]. rewrite Hxy, IH. reflexivity.
Qed.

Lemma xsq_xeq a b : a =x= b -> xsq a =x= xsq b.
Proof. intros H. unfold xsq. rewrite H. reflexivity. Qed.

Lemma sqrt_arg_xeq_compat a b : a =x= b -> sqrt_arg a =x= sqrt_arg b.
Proof.
  destruct a as [p|s|], b as [q|t|]; simpl; try tauto.
  - intros H. rewrite (qneg_compat _ _ H). destruct (qneg q); [reflexivity| exact H].
  - intros ->. destruct t; reflexivity.
Qed.

Lemma xeqb_compat a a' b b' : a =x= a' -> b =x= b' -> xeqb a b = xeqb a' b'.
Proof.
  destruct a as [p|s|], a' as [p'|s'|]; simpl; try tauto;
    destruct b as [q|t|], b' as [q'|t'|]; simpl; try tauto; intros H1 H2; subst; try reflexivity.
  apply eq_true_iff_eq. rewrite !Qeq_bool_iff. rewrite H1, H2. tauto.
Qed.

(* ---- mean -------------------------------------------------------------------------------------- *)
Lemma pdiv_vxeq c c' b b' : vxeq c c' -> vxeq b b' -> vxeq (pdiv c b) (pdiv c' b').
Proof.
  intros Hc. revert b b'. induction Hc as [|x x' t t' Hx Ht IH]; intros b b' Hb.
  - constructor.
  - destruct Hb as [|y y' u u' Hy Hu]; [constructor|].
    unfold pdiv. simpl. constructor.
    + rewrite Hx, Hy. reflexivity.
    + apply (IH u u' Hu).
Qed.

Lemma wmean_vxeq p p' vals : vxeq p p' -> wmean p vals =x= wmean p' vals.
Proof.
  intros Hp. unfold wmean. apply xdiv_Proper.
  - apply nansum_vxeq. revert vals. induction Hp as [|x x' t t' Hx Ht IH]; intros vals.
    + destruct vals; constructor.
    + destruct vals as [|v vs]; [constructor|]. simpl. constructor; [rewrite Hx; reflexivity| apply IH].
  - apply xsum_vxeq. unfold keep_valued. revert vals. induction Hp as [|x x' t t' Hx Ht IH]; intros vals.
    + destruct vals; constructor.
    + destruct vals as [|v vs]; [constructor|]. simpl.
      destruct (negb (is_nan v)); simpl; [constructor; [exact Hx| apply IH]| apply IH].
Qed.

Lemma scale_mean_vec_vxeq c c' b b' vals : vxeq c c' -> vxeq b b' ->
  scale_mean_vec c b vals =x= scale_mean_vec c' b' vals.
Proof. intros Hc Hb. unfold scale_mean_vec. apply wmean_vxeq. apply pdiv_vxeq; assumption. Qed.

Lemma scale_mean_margin_vxeq m m' vals : vxeq m m' -> scale_mean_margin m vals =x= scale_mean_margin m' vals.
Proof. apply wmean_vxeq. Qed.

(* ---- variance, standard error -------------------------------------------------------------------- *)
Lemma comparable_vxeq d c c' : vxeq c c' -> vxeq (comparable d c) (comparable d c').
Proof. intros H. unfold comparable. destruct d; [apply vxeq_map_nan|]; exact H. Qed.

Lemma scale_var_vxeq c c' vals m m' : vxeq c c' -> m =x= m' ->
  scale_var c vals m =x= scale_var c' vals m'.
Proof.
  intros Hc Hm. unfold scale_var, valued_pairs. cbv zeta. apply xdiv_Proper.
  - apply nansum_vxeq. revert vals. induction Hc as [|x x' t t' Hx Ht IH]; intros vals.
    + destruct vals; constructor.
    + destruct vals as [|v vs]; [constructor|]. simpl.
      destruct (negb (is_nan v)); simpl; [constructor; [|apply IH]| apply IH].
      rewrite Hx. apply xmul_Proper; [reflexivity|]. apply xsq_xeq. rewrite Hm. reflexivity.
  - apply xsum_vxeq. revert vals. induction Hc as [|x x' t t' Hx Ht IH]; intros vals.
    + destruct vals; constructor.
    + destruct vals as [|v vs]; [constructor|]. simpl.
      destruct (negb (is_nan v)); simpl; [constructor; [exact Hx| apply IH]| apply IH].
Qed.

Lemma scale_var_vec_vxeq d c c' b b' vals : vxeq c c' -> vxeq b b' ->
  scale_var_vec d c b vals =x= scale_var_vec d c' b' vals.
Proof.
  intros Hc Hb. unfold scale_var_vec. apply sqrt_arg_xeq_compat. apply scale_var_vxeq.
  - apply comparable_vxeq. exact Hc.
  - apply scale_mean_vec_vxeq; assumption.
Qed.

Lemma scale_stderr_sq_vec_vxeq d c c' b b' vals mg mg' : vxeq c c' -> vxeq b b' -> mg =x= mg' ->
  scale_stderr_sq_vec d c b vals mg =x= scale_stderr_sq_vec d c' b' vals mg'.
Proof.
  intros Hc Hb Hm. unfold scale_stderr_sq_vec. apply xdiv_Proper.
  - apply scale_var_vec_vxeq; assumption.
  - apply sqrt_arg_xeq_compat. exact Hm.
Qed.

(* ---- median -------------------------------------------------------------------------------------- *)
Definition qveq (a b : list Q) : Prop := Forall2 Qeq a b.

Lemma Qeq_bool_compat x x' y y' : (x == x')%Q -> (y == y')%Q -> Qeq_bool x y = Qeq_bool x' y'.
Proof. intros H1 H2. apply eq_true_iff_eq. rewrite !Qeq_bool_iff. rewrite H1, H2. tauto. Qed.

Lemma Qle_bool_compat x x' y y' : (x == x')%Q -> (y == y')%Q -> Qle_bool x y = Qle_bool x' y'.
Proof. intros H1 H2. apply eq_true_iff_eq. rewrite !Qle_bool_iff. rewrite H1, H2. tauto. Qed.

Lemma nan_to_num_xeq a b : a =x= b -> (nan_to_num a == nan_to_num b)%Q.
Proof. destruct a, b; simpl; try tauto; intros; reflexivity. Qed.

Lemma qveq_nan_to_num a b : vxeq a b -> qveq (map nan_to_num a) (map nan_to_num b).
Proof. induction 1; simpl; constructor; [apply nan_to_num_xeq; assumption| assumption]. Qed.

Lemma cumsum_from_qveq acc acc' l l' : (acc == acc')%Q -> qveq l l' ->
  qveq (cumsum_from acc l) (cumsum_from acc' l').
Proof.
  intros Ha H. revert acc acc' Ha. induction H as [|x y s t Hxy Hst IH]; intros acc acc' Ha; simpl.
  - constructor.
  - assert (E : (acc + x == acc' + y)%Q) by (rewrite Ha, Hxy; reflexivity).
    constructor; [exact E| apply IH; exact E].
Qed.

Lemma last_qveq l l' d d' : qveq l l' -> (d == d')%Q -> (last l d == last l' d')%Q.
Proof.
  intros H Hd. induction H as [|x y s t Hxy Hst IH]; simpl; [exact Hd|].
  destruct Hst as [|x2 y2 s2 t2 H2 Hst2]; [exact Hxy| exact IH].
Qed.

Lemma nth_qveq l l' i : qveq l l' -> (nth i l 0 == nth i l' 0)%Q.
Proof.
  intros H. revert i. induction H as [|x y s t Hxy Hst IH]; intros i.
  - destruct i; reflexivity.
  - destruct i; [exact Hxy| apply IH].
Qed.

Lemma skipn_qveq k l l' : qveq l l' -> qveq (skipn k l) (skipn k l').
Proof.
  intros H. revert k. induction H as [|x y s t Hxy Hst IH]; intros k.
  - destruct k; constructor.
  - destruct k; simpl; [constructor; assumption| apply IH].
Qed.

Lemma map_bool_qveq (f g : Q -> bool) l l' :
  (forall x y, (x == y)%Q -> f x = g y) -> qveq l l' -> map f l = map g l'.
Proof. intros Hf H. induction H as [|x y s t Hxy Hst IH]; simpl; [reflexivity|]. rewrite (Hf x y Hxy), IH. reflexivity. Qed.

Lemma map_q_qveq (f g : Q -> Q) l l' :
  (forall x y, (x == y)%Q -> (f x == g y)%Q) -> qveq l l' -> qveq (map f l) (map g l').
Proof. intros Hf H. induction H as [|x y s t Hxy Hst IH]; simpl; constructor; [apply Hf; assumption| assumption]. Qed.

(* `_weighted_median` reads the counts through comparisons only *)
Theorem weighted_median_vxeq cs cs' v : vxeq cs cs' -> weighted_median cs v = weighted_median cs' v.
Proof.
  intros H. unfold weighted_median.
  pose proof (qveq_nan_to_num _ _ H) as Hq.
  set (a := map nan_to_num cs) in *. set (a' := map nan_to_num cs') in *.
  assert (Hc : qveq (cumsum a) (cumsum a')) by (apply cumsum_from_qveq; [reflexivity| exact Hq]).
  assert (Ht : (last (cumsum a) 0 == last (cumsum a') 0)%Q) by (apply last_qveq; [exact Hc| reflexivity]).
  cbv zeta.
  rewrite (Qeq_bool_compat _ _ 0%Q 0%Q Ht (Qeq_refl 0%Q)).
  destruct (Qeq_bool (last (cumsum a') 0%Q) 0%Q); [reflexivity|].
  assert (Hp : qveq (map (fun c => c / last (cumsum a) 0)%Q (cumsum a))
                    (map (fun c => c / last (cumsum a') 0)%Q (cumsum a'))).
  { apply map_q_qveq; [|exact Hc]. intros x y Hxy. rewrite Hxy, Ht. reflexivity. }
  set (pr := map (fun c => c / last (cumsum a) 0)%Q (cumsum a)) in *.
  set (pr' := map (fun c => c / last (cumsum a') 0)%Q (cumsum a')) in *.
  assert (Hb : map (fun p => Qle_bool (1 # 2) p) pr = map (fun p => Qle_bool (1 # 2) p) pr').
  { apply map_bool_qveq; [|exact Hp]. intros x y Hxy. apply Qle_bool_compat; [reflexivity| exact Hxy]. }
  rewrite Hb.
  set (idx := argmax_bool (map (fun p => Qle_bool (1 # 2) p) pr')).
  rewrite (Qeq_bool_compat _ _ (1 # 2)%Q (1 # 2)%Q (nth_qveq pr pr' idx Hp) (Qeq_refl _)).
  assert (Hn : map (fun c => negb (Qle_bool c 0)) (skipn (S idx) a)
               = map (fun c => negb (Qle_bool c 0)) (skipn (S idx) a')).
  { apply map_bool_qveq; [|apply skipn_qveq; exact Hq].
    intros x y Hxy. f_equal. apply Qle_bool_compat; [exact Hxy| reflexivity]. }
  rewrite Hn. reflexivity.
Qed.

Theorem scale_median_vec_vxeq ord d c c' vals : vxeq c c' ->
  scale_median_vec ord d c vals = scale_median_vec ord d c' vals.
Proof.
  intros H. unfold scale_median_vec. cbv zeta. apply weighted_median_vxeq.
  apply vxeq_map. intros i _. apply vxeq_vnth. apply comparable_vxeq. exact H.
Qed.

(* ---- strand statistics (stripe/measure.py::_ScaledCounts) -------------------------------------- *)
Definition oxeq (a b : option xq) : Prop :=
  match a, b with
  | Some x, Some y => x =x= y
  | None, None => True
  | _, _ => False
  end.

Lemma valued_pairs_shape vals c c' : vxeq c c' ->
  (valued_pairs vals c = [] <-> valued_pairs vals c' = []).
Proof.
  intros H. unfold valued_pairs. revert vals. induction H as [|x y s t Hxy Hst IH]; intros vals.
  - destruct vals; simpl; tauto.
  - destruct vals as [|v vs]; simpl; [tauto|]. destruct (negb (is_nan v)); simpl; [split; discriminate| apply IH].
Qed.

Lemma strand_total_vxeq vals c c' : vxeq c c' -> strand_total c vals =x= strand_total c' vals.
Proof.
  intros H. unfold strand_total, valued_pairs. apply xsum_vxeq. revert vals.
  induction H as [|x y s t Hxy Hst IH]; intros vals.
  - destruct vals; constructor.
  - destruct vals as [|v vs]; [constructor|]. simpl.
    destruct (negb (is_nan v)); simpl; [constructor; [exact Hxy| apply IH]| apply IH].
Qed.

Lemma strand_wsum_vxeq (g : xq -> xq) vals c c' : vxeq c c' ->
  xsum (map (fun vc => xmul (snd vc) (g (fst vc))) (valued_pairs vals c))
  =x= xsum (map (fun vc => xmul (snd vc) (g (fst vc))) (valued_pairs vals c')).
Proof.
  intros H. unfold valued_pairs. apply xsum_vxeq. revert vals.
  induction H as [|x y s t Hxy Hst IH]; intros vals.
  - destruct vals; constructor.
  - destruct vals as [|v vs]; [constructor|]. simpl.
    destruct (negb (is_nan v)); simpl; [constructor; [rewrite Hxy; reflexivity| apply IH]| apply IH].
Qed.

Theorem strand_scale_mean_vxeq vals c c' : vxeq c c' ->
  oxeq (strand_scale_mean c vals) (strand_scale_mean c' vals).
Proof.
  intros H. unfold strand_scale_mean. cbv zeta.
  pose proof (valued_pairs_shape vals c c' H) as Hs.
  pose proof (strand_total_vxeq vals c c' H) as Ht.
  destruct (valued_pairs vals c) as [|p1 l1] eqn:E1; destruct (valued_pairs vals c') as [|p2 l2] eqn:E2.
  - exact I.
  - exfalso. destruct Hs as [Hs _]. discriminate (Hs eq_refl).
  - exfalso. destruct Hs as [_ Hs]. discriminate (Hs eq_refl).
  - rewrite (xeqb_compat _ _ (Fin 0) (Fin 0) Ht (xeq_refl _)).
    destruct (xeqb (strand_total c' vals) (Fin 0)); [exact I|]. simpl.
    apply xdiv_Proper; [|exact Ht].
    pose proof (strand_wsum_vxeq (fun x => x) vals c c' H) as Hw. rewrite E1, E2 in Hw. exact Hw.
Qed.

Theorem strand_scale_var_vxeq vals c c' : vxeq c c' ->
  oxeq (strand_scale_var c vals) (strand_scale_var c' vals).
Proof.
  intros H. unfold strand_scale_var.
  pose proof (strand_scale_mean_vxeq vals c c' H) as Hm.
  destruct (strand_scale_mean c vals) as [m|], (strand_scale_mean c' vals) as [m'|]; simpl in Hm; try tauto.
  simpl. apply xdiv_Proper; [|apply strand_total_vxeq; exact H].
  etransitivity; [apply (strand_wsum_vxeq (fun x => xsq (xsub x m)) vals c c' H)|].
  apply xsum_vxeq. apply vxeq_map. intros vc _. apply xmul_Proper; [reflexivity|].
  apply xsq_xeq. rewrite Hm. reflexivity.
Qed.

Theorem strand_scale_stddev_sq_vxeq vals c c' : vxeq c c' ->
  oxeq (strand_scale_stddev_sq c vals) (strand_scale_stddev_sq c' vals).
Proof.
  intros H. unfold strand_scale_stddev_sq. pose proof (strand_scale_var_vxeq vals c c' H) as Hv.
  destruct (strand_scale_var c vals), (strand_scale_var c' vals); simpl in *; try tauto.
  apply sqrt_arg_xeq_compat. exact Hv.
Qed.

Theorem strand_scale_stderr_sq_vxeq vals c c' : vxeq c c' ->
  oxeq (strand_scale_stderr_sq c vals) (strand_scale_stderr_sq c' vals).
Proof.
  intros H. unfold strand_scale_stderr_sq. pose proof (strand_scale_var_vxeq vals c c' H) as Hv.
  destruct (strand_scale_var c vals), (strand_scale_var c' vals); simpl in *; try tauto.
  apply sqrt_arg_xeq_compat. apply xdiv_Proper; [exact Hv| apply strand_total_vxeq; exact H].
Qed.
