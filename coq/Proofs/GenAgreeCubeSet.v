(* GenAgreeCubeSet: CubeSet._is_multi_cube / _is_numeric_measure / _cubes / partition_sets /
   population_fraction as generated from src/cr/cube/cube.py (Gen/CubeSrc.v): the loop that builds the cubes
   IS [cubeset_loop] (Model/PyCube.v) - every Cube(..) gets the set's population and min_base, its own
   response and transforms, and its position as cube_idx exactly in a multi-cube set. *)
From Coq Require Import List ZArith QArith String Bool Lia Arith.
From CC Require Import Base.XQ Base.ListX Base.PyList Base.PyJson Spec.Survey Model.CubeCounts Model.DimType
  Model.Partition Model.PyCube Gen.CubeSrc Proofs.GenAgreeCubeLib Proofs.GenAgreeCubeBase.
Import ListNotations.
Local Close Scope Q_scope.
Local Open Scope Z_scope.

(*@ C06 *)
Lemma gen_cube_CubeSet___init__ :
  match src_CubeSet___init__ with
  | Some f => forall resps trs pop mb, f resps trs pop mb = mkPyCubeSet resps trs pop mb
  | None => True end.
Proof. unfold src_CubeSet___init__. first [exact I | gen_open; reflexivity]. Qed.

(*@ C06 *)
Lemma gen_cube_CubeSet__is_multi_cube :
  match src_CubeSet__is_multi_cube with
  | Some f => forall X s, f X s = POk (is_multi_cube (List.length (cs_cube_responses s)))
  | None => True end.
Proof.
  unfold src_CubeSet__is_multi_cube.
  first [exact I |
  gen_open; unfold is_multi_cube, py_len; f_equal;
  destruct (Nat.ltb_spec 1 (List.length (cs_cube_responses s)));
  [apply Z.gtb_lt; lia | destruct (Z.gtb_spec (Z.of_nat (List.length (cs_cube_responses s))) 1); [lia|reflexivity]]].
Qed.

(* the case destructions of a loop body against its closed form *)
Ltac pres_cases :=
  repeat (cbn [pbind pres_of_option fst snd andb];
          match goal with
          | |- context [pbind ?x _] =>
              match x with
              | POk _ => fail 1 | PErr _ => fail 1 | pbind _ _ => fail 1
              | (if _ then _ else _) => fail 1 | (match _ with Some _ => _ | None => _ end) => fail 1
              | _ => destruct x
              end
          | |- context [if ?b then _ else _] =>
              match b with true => fail 1 | false => fail 1 | _ => destruct b end
          | |- context [match ?o with Some _ => _ | None => _ end] =>
              match o with Some _ => fail 1 | None => fail 1 | _ => destruct o end
          end);
  cbn [pbind pres_of_option fst snd andb].

(* a loop over enumerate(responses) that threads (cubes so far, summary response) and whose body is one
   [cubeset_step] is [cubeset_loop] *)
Lemma cubes_loop_generic gR gS gA gI multi numeric s
      (body : list pycube * option json -> Z * json -> pres (list pycube * option json)) :
  (forall acc summary idx resp,
      body (acc, summary) (idx, resp)
      = pbind (cubeset_step gR gS gA gI multi numeric s summary idx resp)
              (fun cs => POk (acc ++ [fst cs], snd cs))) ->
  forall l,
    pbind (pfoldM body (py_enumerate l) ([], None)) (fun '(y, _) => POk y)
    = cubeset_loop gR gS gA gI multi numeric s None 0 l.
Proof.
  intros Hbody.
  assert (Hloop : forall l k acc summary,
             pbind (pfoldM body (combine (map Z.of_nat (seq k (List.length l))) l) (acc, summary))
                   (fun '(y, _) => POk y)
             = pbind (cubeset_loop gR gS gA gI multi numeric s summary (Z.of_nat k) l)
                     (fun tl => POk (acc ++ tl))).
  { induction l as [|r t IH]; intros k acc summary.
    - cbn. rewrite app_nil_r. reflexivity.
    - cbn [List.length seq map combine pfoldM cubeset_loop]. rewrite Hbody.
      destruct (cubeset_step gR gS gA gI multi numeric s summary (Z.of_nat k) r)
        as [[c2 sm]|e]; cbn [pbind fst snd]; [|reflexivity].
      rewrite IH. replace (Z.of_nat (S k)) with (Z.of_nat k + 1) by lia.
      destruct (cubeset_loop gR gS gA gI multi numeric s sm (Z.of_nat k + 1) t);
        cbn [pbind]; [|reflexivity].
      rewrite <- app_assoc. reflexivity. }
  intros l. unfold py_enumerate, py_range, py_len. rewrite Nat2Z.id.
  rewrite (Hloop l 0%nat [] None). cbn [app]. apply pbind_ret.
Qed.

(*@ C06 C18 *)
Lemma gen_cube_CubeSet__cubes :
  match src_CubeSet__cubes, src_CubeSet__is_multi_cube, src_CubeSet__is_numeric_measure,
        src_Cube__cube_response, src_Cube_is_single_filter_col_cube, src_Cube_augment_response,
        src_Cube_inflate with
  | Some f, Some gm, Some gn, Some gR, Some gS, Some gA, Some gI => forall X s multi numeric,
      gm X s = POk multi -> gn X s = POk numeric ->
      f X s = cubeset_loop (gR X) (gS X) (gA X) (gI X) multi numeric s None 0 (cs_cube_responses s)
  | _, _, _, _, _, _, _ => True end.
Proof.
  generalize gen_cube_Cube___init__. unfold src_CubeSet__cubes.
  src_cases; (intros Hi; intros X s multi numeric Hm Hn;
  rewrite pbind_ret;
  apply cubes_loop_generic;
  intros acc summary idx resp; cbv beta iota; unfold cubeset_step, cubeset_cube0;
  rewrite !Hm, !Hn; cbn [pbind];
  destruct (py_getitem_int (cs_transforms_dicts s) idx) as [tr|e]; cbn [pbind]; [|reflexivity];
  cbv zeta; rewrite !Hi;
  destruct (Z.eqb idx 0); pres_cases; reflexivity).
Qed.

(* CubeSet._is_numeric_measure: a multi-cube set whose FIRST response, taken alone (no cube_idx, no
   transforms, no population, mask size 0), has no dimension *)
(*@ C06 *)
Lemma gen_cube_CubeSet__is_numeric_measure :
  match src_CubeSet__is_numeric_measure, src_Cube_ndim with
  | Some f, Some g => forall X s r0 rest, cs_cube_responses s = r0 :: rest ->
      f X s = if is_multi_cube (List.length (cs_cube_responses s))
              then pbind (g X (mkPyCube r0 (JDict []) None (JInt 0) 0)) (fun n => POk (Z.eqb n 0))
              else POk false
  | _, _ => True end.
Proof.
  generalize gen_cube_Cube___init__ gen_cube_CubeSet__is_multi_cube. unfold src_CubeSet__is_numeric_measure.
  src_cases; (intros Hi Hm; intros X s r0 rest E; rewrite Hm;
  destruct (is_multi_cube (List.length (cs_cube_responses s))); cbn [pbind negb]; [|reflexivity];
  rewrite E, py_list_getitem_0; cbn [pbind]; rewrite Hi; reflexivity).
Qed.

(* the members a CubeSet answers from its first cube *)
Ltac first_cube_tac U :=
  U; src_cases;
  (let H := fresh "H" in
  intros X s c0 rest H; rewrite H;
  cbn [pbind]; rewrite py_list_getitem_0; cbn [pbind];
  apply pbind_ret).

(*@ C17 *)
Lemma gen_cube_CubeSet_population_fraction :
  match src_CubeSet_population_fraction, src_CubeSet__cubes, src_Cube_population_fraction with
  | Some f, Some g1, Some g2 => forall X s c0 rest, g1 X s = POk (c0 :: rest) -> f X s = g2 X c0
  | _, _, _ => True end.
Proof. first_cube_tac ltac:(unfold src_CubeSet_population_fraction). Qed.

(*@ C01 *)
Lemma gen_cube_CubeSet_has_weighted_counts :
  match src_CubeSet_has_weighted_counts, src_CubeSet__cubes, src_Cube_has_weighted_counts with
  | Some f, Some g1, Some g2 => forall X s c0 rest, g1 X s = POk (c0 :: rest) -> f X s = g2 X c0
  | _, _, _ => True end.
Proof. first_cube_tac ltac:(unfold src_CubeSet_has_weighted_counts). Qed.

(*@ C06 *)
Lemma gen_cube_CubeSet_n_responses :
  match src_CubeSet_n_responses, src_CubeSet__cubes, src_Cube_n_responses with
  | Some f, Some g1, Some g2 => forall X s c0 rest, g1 X s = POk (c0 :: rest) -> f X s = g2 X c0
  | _, _, _ => True end.
Proof. first_cube_tac ltac:(unfold src_CubeSet_n_responses). Qed.

(*@ C06 *)
Lemma gen_cube_CubeSet_name :
  match src_CubeSet_name, src_CubeSet__cubes, src_Cube_name with
  | Some f, Some g1, Some g2 => forall X s c0 rest, g1 X s = POk (c0 :: rest) -> f X s = g2 X c0
  | _, _, _ => True end.
Proof. first_cube_tac ltac:(unfold src_CubeSet_name). Qed.

(*@ C06 *)
Lemma gen_cube_CubeSet_description :
  match src_CubeSet_description, src_CubeSet__cubes, src_Cube_description with
  | Some f, Some g1, Some g2 => forall X s c0 rest, g1 X s = POk (c0 :: rest) -> f X s = g2 X c0
  | _, _, _ => True end.
Proof. first_cube_tac ltac:(unfold src_CubeSet_description). Qed.

(*@ C06 *)
Lemma gen_cube_CubeSet_missing_count :
  match src_CubeSet_missing_count, src_CubeSet__cubes, src_Cube_missing with
  | Some f, Some g1, Some g2 => forall X s c0 rest, g1 X s = POk (c0 :: rest) -> f X s = g2 X c0
  | _, _, _ => True end.
Proof. first_cube_tac ltac:(unfold src_CubeSet_missing_count). Qed.

(* zip( *lists) is the model's zipn *)
Lemma py_zip_star_zipn {A} (ls : list (list A)) : py_zip_star ls = zipn ls.
Proof.
  unfold py_zip_star, zipn, min_len, tab. destruct ls as [|l t]; reflexivity.
Qed.

(* CubeSet.partition_sets: the k-th partitions of all cubes, for as many k as every cube has partitions *)
(*@ C06 *)
Lemma gen_cube_CubeSet_partition_sets :
  match src_CubeSet_partition_sets, src_CubeSet__cubes, src_Cube_partitions with
  | Some f, Some g1, Some g2 => forall X s cubes (P : pycube -> list pyfactory),
      g1 X s = POk cubes -> (forall c, In c cubes -> g2 X c = POk (P c)) ->
      f X s = POk (zipn (map P cubes))
  | _, _, _ => True end.
Proof.
  unfold src_CubeSet_partition_sets. src_cases; (intros X s cubes P H1 H2;
  rewrite H1; cbn [pbind];
  rewrite (pmapM_ok _ P) by (intros c Hc; rewrite pbind_ret; apply H2; exact Hc);
  cbn [pbind]; rewrite py_zip_star_zipn; reflexivity).
Qed.

(* CubeSet.is_ca_as_0th: a multi-cube set whose first cube leads with a CA sub-variables dimension *)
(*@ C06 *)
Lemma gen_cube_CubeSet_is_ca_as_0th :
  match src_CubeSet_is_ca_as_0th, src_CubeSet__cubes, src_Cube_dimension_types with
  | Some f, Some g1, Some g2 => forall X s c0 rest t0 ts,
      g1 X s = POk (c0 :: rest) -> g2 X c0 = POk (t0 :: ts) ->
      f X s = POk (is_multi_cube (List.length (cs_cube_responses s)) && dtype_eqb t0 TCaSubvar)
  | _, _, _ => True end.
Proof.
  generalize gen_cube_CubeSet__is_multi_cube. unfold src_CubeSet_is_ca_as_0th.
  src_cases; (intros Hm; intros X s c0 rest t0 ts H1 H2; rewrite Hm;
  destruct (is_multi_cube (List.length (cs_cube_responses s))); cbn [pbind negb andb]; [|reflexivity];
  rewrite H1; cbn [pbind]; rewrite py_list_getitem_0; cbn [pbind];
  rewrite H2; cbn [pbind]; rewrite py_list_getitem_0; reflexivity).
Qed.

(* CubeSet.can_show_pairwise: at least two cubes, and every cube after the first has at least two dimensions
   whose last two types all allow pairwise comparison *)
Definition pairwise_types : list dtype := [TBinned; TCaSubvar; TCat; TCaCat; TDatetime; TMrSubvar; TText].

(*@ C06 *)
Lemma gen_cube_CubeSet_can_show_pairwise :
  match src_CubeSet_can_show_pairwise, src_CubeSet__cubes, src_Cube_dimension_types, src_Cube_ndim with
  | Some f, Some g1, Some g2, Some g3 => forall X s cubes (T : pycube -> list dtype) (N : pycube -> Z),
      g1 X s = POk cubes ->
      (forall c, In c (tl cubes) -> g2 X c = POk (T c) /\ g3 X c = POk (N c)) ->
      f X s = POk (if Z.ltb (py_len cubes) 2 then false
                   else forallb (fun c => forallb (fun t => py_in dtype_eqb t pairwise_types)
                                                  (py_list_slice_from (T c) (-2))
                                          && Z.geb (N c) 2) (tl cubes))
  | _, _, _, _ => True end.
Proof.
  unfold src_CubeSet_can_show_pairwise.
  src_cases; (intros X s cubes T N H1 H2; rewrite !H1; cbn [pbind];
  destruct (Z.ltb (py_len cubes) 2); [reflexivity|];
  rewrite pbind_ret;
  assert (E : py_list_slice_from cubes 1 = tl cubes)
    by (destruct cubes as [|a l]; [reflexivity | apply py_list_slice_from_1]);
  rewrite E; clear E;
  induction (tl cubes) as [|c t IH]; [reflexivity|];
  cbn [pallM forallb];
  destruct (H2 c (or_introl eq_refl)) as (E2 & E3); rewrite E2; cbn [pbind];
  unfold pairwise_types;
  destruct (forallb _ (py_list_slice_from (T c) (-2))); cbn [pbind andb];
  [ rewrite E3; cbn [pbind]; destruct (Z.geb (N c) 2); [apply IH; intros; apply H2; right; assumption | reflexivity]
  | reflexivity ]).
Qed.
