(* GenAgreeCollatorSbv: the members of SortByValueCollator, as generated from
   src/cr/cube/collator.py (Gen/CollatorSrc.v), ARE the definitions of Model/Collator.v the theorems
   of C08 are about - for all dimensions, value vectors (numbers incl. NaN, or labels), fixed lists,
   directions, empty sets and both order formats. *)
From Coq Require Import List ZArith String Bool Lia Arith.
From CC Require Import Base.XQ Base.SortX Base.PyList Spec.OrderSpec Model.Collator Model.PyCollator
  Gen.CollatorSrc Proofs.OrderCollate Proofs.OrderExplicit Proofs.GenAgreeCollatorLib
  Proofs.GenAgreeCollatorAnchored.
Import ListNotations.
Local Open Scope Z_scope.

(* the order transform as the model's sort spec *)
Definition sort_of (spec : pyspec) : sortspec :=
  mkSort (po_descending spec) (po_top_fixed_ids spec) (po_bottom_fixed_ids spec).

Lemma gen_Sbv__elements :
  match src_SortByValueCollator__elements with
  | Some f => forall d spec empties fmt vals svals,
      f (pyself_of d spec empties fmt vals svals) = d_elems d
  | None => True end.
Proof.
  unfold src_SortByValueCollator__elements.
  first [exact I |
  gen_open;
  reflexivity].
Qed.

Lemma gen_Sbv__element_ids :
  match src_SortByValueCollator__element_ids with
  | Some f => forall d spec empties fmt vals svals,
      f (pyself_of d spec empties fmt vals svals) = d_ids d
  | None => True end.
Proof.
  unfold src_SortByValueCollator__element_ids.
  first [exact I |
  gen_open;
  reflexivity].
Qed.

Lemma gen_Sbv__hidden_idxs :
  match src_SortByValueCollator__hidden_idxs with
  | Some f => forall d spec empties fmt vals svals,
      f (pyself_of d spec empties fmt vals svals) = map Z.of_nat (collator_hidden d empties)
  | None => True end.
Proof.
  unfold src_SortByValueCollator__hidden_idxs.
  first [exact I |
  gen_open;
  py_proj;
  cbv zeta;
  unfold py_frozenset;
  apply hidden_idxs_agree].
Qed.

Lemma gen_Sbv__subtotals_bogus_ids :
  match src_SortByValueCollator__subtotals_bogus_ids with
  | Some f => forall d spec empties fmt vals svals,
      f (pyself_of d spec empties fmt vals svals) = plain_bogus_ids d
  | None => True end.
Proof.
  unfold src_SortByValueCollator__subtotals_bogus_ids.
  first [exact I |
  gen_open;
  py_proj;
  rewrite pysubs_of_ids;
  reflexivity].
Qed.

Lemma gen_Sbv__order_mapping :
  match src_SortByValueCollator__order_mapping with
  | Some f => forall d spec empties fmt vals svals,
      f (pyself_of d spec empties fmt vals svals) = order_mapping (plain_bogus_ids d)
  | None => True end.
Proof.
  unfold src_SortByValueCollator__order_mapping.
  first [exact I |
  dep gen_Sbv__subtotals_bogus_ids src_SortByValueCollator__subtotals_bogus_ids;
  gen_open;
  rewrite !H;
  cbv zeta;
  apply order_mapping_agree;
  reflexivity].
Qed.

Lemma gen_Sbv__order_spec :
  match src_SortByValueCollator__order_spec with
  | Some f => forall d spec empties fmt vals svals,
      f (pyself_of d spec empties fmt vals svals) = spec
  | None => True end.
Proof.
  unfold src_SortByValueCollator__order_spec.
  first [exact I |
  gen_open;
  reflexivity].
Qed.

Lemma gen_Sbv__subtotals :
  match src_SortByValueCollator__subtotals with
  | Some f => forall d spec empties fmt vals svals,
      f (pyself_of d spec empties fmt vals svals) = pysubs_of d (subtotals d)
  | None => True end.
Proof.
  unfold src_SortByValueCollator__subtotals.
  first [exact I |
  gen_open;
  reflexivity].
Qed.

Lemma gen_Sbv__descending :
  match src_SortByValueCollator__descending with
  | Some f => forall d spec empties fmt vals svals,
      f (pyself_of d spec empties fmt vals svals) = s_desc (sort_of spec)
  | None => True end.
Proof.
  unfold src_SortByValueCollator__descending.
  first [exact I |
  dep gen_Sbv__order_spec src_SortByValueCollator__order_spec;
  gen_open;
  rewrite !H;
  reflexivity].
Qed.

(* try: return np.isnan(value) / except TypeError: return False *)
Lemma gen_Sbv__is_nan :
  match src_SortByValueCollator__is_nan with
  | Some f => forall d spec empties fmt vals svals v,
      f (pyself_of d spec empties fmt vals svals) v = Ok (sval_nan v)
  | None => True end.
Proof.
  unfold src_SortByValueCollator__is_nan.
  first [exact I |
  gen_open;
  destruct v as [[q|b|]|s]; reflexivity].
Qed.

Lemma gen_Sbv__subtotal_idxs :
  match src_SortByValueCollator__subtotal_idxs with
  | Some f => forall d spec empties fmt vals svals,
      f (pyself_of d spec empties fmt vals svals) = Ok (subtotal_idxs (s_desc (sort_of spec)) svals)
  | None => True end.
Proof.
  unfold src_SortByValueCollator__subtotal_idxs.
  first [exact I |
  dep gen_Sbv__is_nan src_SortByValueCollator__is_nan;
  dep gen_Sbv__descending src_SortByValueCollator__descending;
  gen_open;
  cbv zeta;
  py_proj;
  rewrite (foldM_partition _ (fun _ => false) (fun i v => (v, i - py_len svals)))
    by (intros k n i v; cbv beta iota zeta; rewrite H; cbn [bind]; unfold part_step; cbn [fst snd];
        destruct (sval_nan v); reflexivity);
  cbn [bind];
  cbv beta iota;
  rewrite H0;
  apply f_equal;
  rewrite subtotal_keys_agree, subtotal_nans_agree;
  unfold subtotal_idxs, subtotal_nans, py_sorted_vals;
  rewrite map_app;
  f_equal; apply map_ext; intros [? ?]; reflexivity].
Qed.

Lemma gen_Sbv__top_subtotal_idxs :
  match src_SortByValueCollator__top_subtotal_idxs with
  | Some f => forall d spec empties fmt vals svals,
      f (pyself_of d spec empties fmt vals svals)
      = Ok (if s_desc (sort_of spec) then subtotal_idxs (s_desc (sort_of spec)) svals else [])
  | None => True end.
Proof.
  unfold src_SortByValueCollator__top_subtotal_idxs.
  first [exact I |
  dep gen_Sbv__descending src_SortByValueCollator__descending;
  dep gen_Sbv__subtotal_idxs src_SortByValueCollator__subtotal_idxs;
  gen_open;
  rewrite !H, !H0;
  destruct (s_desc (sort_of spec)); reflexivity].
Qed.

Lemma gen_Sbv__bottom_subtotal_idxs :
  match src_SortByValueCollator__bottom_subtotal_idxs with
  | Some f => forall d spec empties fmt vals svals,
      f (pyself_of d spec empties fmt vals svals)
      = Ok (if s_desc (sort_of spec) then [] else subtotal_idxs (s_desc (sort_of spec)) svals)
  | None => True end.
Proof.
  unfold src_SortByValueCollator__bottom_subtotal_idxs.
  first [exact I |
  dep gen_Sbv__descending src_SortByValueCollator__descending;
  dep gen_Sbv__subtotal_idxs src_SortByValueCollator__subtotal_idxs;
  gen_open;
  rewrite !H, !H0;
  destruct (s_desc (sort_of spec)); reflexivity].
Qed.

Lemma gen_Sbv__iter_fixed_idxs :
  match src_SortByValueCollator__iter_fixed_idxs with
  | Some f => forall d spec empties fmt vals svals listed,
      f (pyself_of d spec empties fmt vals svals) listed = Ok (map Z.of_nat (fixed_idxs (d_ids d) listed))
  | None => True end.
Proof.
  unfold src_SortByValueCollator__iter_fixed_idxs.
  first [exact I |
  dep gen_Sbv__element_ids src_SortByValueCollator__element_ids;
  gen_open;
  rewrite !H;
  cbv zeta;
  rewrite (idx_dict_agree _ (d_ids d)) by reflexivity;
  rewrite bind_ret;
  apply foldM_fixed;
  intros y i;
  apply fixed_step_agree].
Qed.

Lemma gen_Sbv__top_fixed_idxs :
  match src_SortByValueCollator__top_fixed_idxs with
  | Some f => forall d spec empties fmt vals svals,
      f (pyself_of d spec empties fmt vals svals)
      = Ok (map Z.of_nat (fixed_idxs (d_ids d) (s_top (sort_of spec))))
  | None => True end.
Proof.
  unfold src_SortByValueCollator__top_fixed_idxs.
  first [exact I |
  dep gen_Sbv__iter_fixed_idxs src_SortByValueCollator__iter_fixed_idxs;
  dep gen_Sbv__order_spec src_SortByValueCollator__order_spec;
  gen_open;
  rewrite !H0, !H;
  reflexivity].
Qed.

Lemma gen_Sbv__bottom_fixed_idxs :
  match src_SortByValueCollator__bottom_fixed_idxs with
  | Some f => forall d spec empties fmt vals svals,
      f (pyself_of d spec empties fmt vals svals)
      = Ok (map Z.of_nat (fixed_idxs (d_ids d) (s_bottom (sort_of spec))))
  | None => True end.
Proof.
  unfold src_SortByValueCollator__bottom_fixed_idxs.
  first [exact I |
  dep gen_Sbv__iter_fixed_idxs src_SortByValueCollator__iter_fixed_idxs;
  dep gen_Sbv__order_spec src_SortByValueCollator__order_spec;
  gen_open;
  rewrite !H0, !H;
  reflexivity].
Qed.

Lemma gen_Sbv__body_idxs :
  match src_SortByValueCollator__body_idxs with
  | Some f => forall d spec empties fmt vals svals,
      f (pyself_of d spec empties fmt vals svals)
      = Ok (body_idxs (s_desc (sort_of spec)) vals
                      (fixed_idxs (d_ids d) (s_top (sort_of spec))
                       ++ fixed_idxs (d_ids d) (s_bottom (sort_of spec))))
  | None => True end.
Proof.
  unfold src_SortByValueCollator__body_idxs.
  first [exact I |
  dep gen_Sbv__top_fixed_idxs src_SortByValueCollator__top_fixed_idxs;
  dep gen_Sbv__bottom_fixed_idxs src_SortByValueCollator__bottom_fixed_idxs;
  dep gen_Sbv__is_nan src_SortByValueCollator__is_nan;
  dep gen_Sbv__descending src_SortByValueCollator__descending;
  gen_open;
  rewrite !H, !H0;
  cbn [bind];
  cbv zeta;
  py_proj;
  unfold py_frozenset;
  rewrite <- map_app;
  set (fixed := fixed_idxs (d_ids d) (s_top (sort_of spec)) ++ fixed_idxs (d_ids d) (s_bottom (sort_of spec)));
  rewrite (foldM_partition _ (fun i => py_in Z.eqb i (map Z.of_nat fixed)) (fun i v => (v, i)))
    by (intros k n i v; cbv beta iota zeta; unfold part_step; cbn [fst snd];
        destruct (py_in Z.eqb i (map Z.of_nat fixed)); cbn [negb bind]; [reflexivity|];
        rewrite H1; cbn [bind]; destruct (sval_nan v); reflexivity);
  cbn [bind];
  cbv beta iota;
  rewrite H2;
  apply f_equal;
  rewrite body_keys_agree;
  unfold body_idxs, py_sorted_vals;
  rewrite map_app, <- body_nans_agree;
  f_equal; apply map_ext; intros [? ?]; reflexivity].
Qed.

Lemma gen_Sbv__display_order :
  match src_SortByValueCollator__display_order with
  | Some f => forall d spec empties fmt vals svals,
      f (pyself_of d spec empties fmt vals svals)
      = display_result fmt
          (Ok (sbv_display d (sort_of spec) vals svals empties))
          (render_bogus (order_mapping (plain_bogus_ids d))
                        (sbv_display d (sort_of spec) vals svals empties))
  | None => True end.
Proof.
  unfold src_SortByValueCollator__display_order.
  first [exact I |
  dep gen_Sbv__hidden_idxs src_SortByValueCollator__hidden_idxs;
  dep gen_Sbv__top_subtotal_idxs src_SortByValueCollator__top_subtotal_idxs;
  dep gen_Sbv__top_fixed_idxs src_SortByValueCollator__top_fixed_idxs;
  dep gen_Sbv__body_idxs src_SortByValueCollator__body_idxs;
  dep gen_Sbv__bottom_fixed_idxs src_SortByValueCollator__bottom_fixed_idxs;
  dep gen_Sbv__bottom_subtotal_idxs src_SortByValueCollator__bottom_subtotal_idxs;
  dep gen_Sbv__order_mapping src_SortByValueCollator__order_mapping;
  gen_open;
  rewrite !H, !H0, !H1, !H2, !H3, !H4;
  cbn [bind];
  cbv zeta;
  rewrite fromkeys_first_mentions;
  rewrite (filter_hidden _ (collator_hidden d empties)) by reflexivity;
  assert (E : forall a b c e g : list Z, (((a ++ b) ++ c) ++ e) ++ g = List.concat [a; b; c; e; g])
    by (intros; simpl; rewrite app_nil_r, <- !app_assoc; reflexivity);
  rewrite E;
  fold (sbv_segments (d_ids d) (sort_of spec) vals svals);
  fold (sbv_display d (sort_of spec) vals svals empties);
  py_proj;
  destruct fmt; cbn [order_format_eqb display_result bind]; [reflexivity|];
  apply render_agree; [intros idx; rewrite !H5; reflexivity|reflexivity]].
Qed.

(** * the constructor and the public classmethod
      `display_order(dimension, element_values, subtotal_values, empty_idxs, format)` *)
Lemma gen_Sbv___init__ :
  match src_SortByValueCollator___init__ with
  | Some f => forall (dim : pydim) (vals svals : list sval) (empty : list Z) (fmt : order_format),
      f dim vals svals empty fmt = mkPyCollator dim empty fmt vals svals
  | None => True end.
Proof.
  unfold src_SortByValueCollator___init__.
  first [exact I |
  gen_open; cbv zeta; rewrite py_truthy_self; reflexivity].
Qed.

Lemma gen_Sbv_display_order :
  match src_SortByValueCollator_display_order with
  | Some f => forall d spec vals svals empties fmt,
      f (pydim_of d spec) vals svals (map Z.of_nat empties) fmt
      = display_result fmt
          (Ok (sbv_display d (sort_of spec) vals svals empties))
          (render_bogus (order_mapping (plain_bogus_ids d))
                        (sbv_display d (sort_of spec) vals svals empties))
  | None => True end.
Proof.
  unfold src_SortByValueCollator_display_order.
  first [exact I |
  dep gen_Sbv___init__ src_SortByValueCollator___init__;
  dep gen_Sbv__display_order src_SortByValueCollator__display_order;
  gen_open; rewrite H, bind_ret; apply (H0 d spec empties fmt vals svals)].
Qed.
