(* Proofs/ComposePublicC11.v -- the COMPOSED theorems of C11: _Slice.row / column / table
   _proportion_variances and _Slice.row / column / table _std_err, from the source text to the respondents.

   Shape as in ComposePublicC03.v.  At a display cell that shows base row r and base column c:
     variance          [var_spec]: NaN iff the base of the direction is empty, otherwise the number
                       spec_var l = (c/b)(1 - c/b) >= 0 -- the spec variance of the membership indicator over
                       the base's respondent list l = marks S (base r c) (cell r c) (Proofs/ComposeVariance.v);
     standard error    the public value is carried as its SIGNED SQUARE (np.sqrt is never evaluated,
                       DESIGN 2.2): [se_spec]: NaN iff the base is empty, otherwise spec_var l / b >= 0. *)
From Coq Require Import QArith ZArith List Bool Lia Arith String Setoid Morphisms.
From CC Require Import Base.XQ Base.ListX Base.WiringExp Spec.Survey
     Model.Subtotals Model.Proportions Model.Variance Model.CubeCounts
     Proofs.CubeCountsProofs Proofs.ComposeBase Proofs.ComposeProportions Proofs.ComposeVariance
     Proofs.ComposePayload
     Proofs.ComposePublicSem Proofs.ComposePublicLinks Proofs.ComposePublicChain Proofs.ComposePublicChain2
     Proofs.ComposePublicSlice Proofs.ComposePublicCells.
From CC Require Base.MeasureExp Gen.WiringSrc Proofs.VarianceProofs.
Import ListNotations.
Local Close Scope Q_scope.
Local Open Scope string_scope.
Local Open Scope nat_scope.

Import CC.Gen.WiringSrc.

(* ------------------------------------------------------------------------------------ *)
(** * links 1 + 3 *)

Definition terms_public_row_variances : bool :=
  is_some wsrc_Slice_row_proportion_variances && (terms_asm_matrix && terms_row_variances).
Definition terms_public_column_variances : bool :=
  is_some wsrc_Slice_column_proportion_variances && (terms_asm_matrix && terms_column_variances).
Definition terms_public_table_variances : bool :=
  is_some wsrc_Slice_table_proportion_variances && (terms_asm_matrix && terms_table_variances).
Definition terms_public_row_std_err : bool :=
  is_some wsrc_Slice_row_std_err && (terms_asm_matrix && terms_row_std_err).
Definition terms_public_column_std_err : bool :=
  is_some wsrc_Slice_column_std_err && (terms_asm_matrix && terms_column_std_err).
Definition terms_public_table_std_err : bool :=
  is_some wsrc_Slice_table_std_err && (terms_asm_matrix && terms_table_std_err).

Ltac model_theorem R terms m B T :=
  wiring_some;
  use_need public_matrix_of_realizes terms_asm_matrix; intros PM;
  use_need R terms; intros RR;
  needed; intros C H1 Ho;
  eapply matrix_member_of_weval; [reflexivity|];
  exact (PM 3 C m (B C) (RR _ C H1) (T C) Ho).

Theorem public_row_variances_model :
  need terms_public_row_variances
  (forall C, first_order_ok C -> orders_ok C ->
     matrix_member_spec C "row_proportion_variances" (B_rowv C)).
Proof.
  unfold terms_public_row_variances, wsrc_Slice_row_proportion_variances.
  model_theorem realizes_row_variances terms_row_variances "row_proportion_variances" B_rowv
                (fun C => tabular_var C (B_rowp C) (B_rowb C)).
Qed.
Theorem public_column_variances_model :
  need terms_public_column_variances
  (forall C, first_order_ok C -> orders_ok C ->
     matrix_member_spec C "column_proportion_variances" (B_colv C)).
Proof.
  unfold terms_public_column_variances, wsrc_Slice_column_proportion_variances.
  model_theorem realizes_column_variances terms_column_variances "column_proportion_variances" B_colv
                (fun C => tabular_var C (B_colp C) (B_colb C)).
Qed.
Theorem public_table_variances_model :
  need terms_public_table_variances
  (forall C, first_order_ok C -> orders_ok C ->
     matrix_member_spec C "table_proportion_variances" (B_tabv C)).
Proof.
  unfold terms_public_table_variances, wsrc_Slice_table_proportion_variances.
  model_theorem realizes_table_variances terms_table_variances "table_proportion_variances" B_tabv
                (fun C => tabular_var C (B_tabp C) (B_tabb C)).
Qed.

Theorem public_row_std_err_model :
  need terms_public_row_std_err
  (forall C, first_order_ok C -> orders_ok C -> matrix_member_spec C "row_std_err" (B_rowse C)).
Proof.
  unfold terms_public_row_std_err, wsrc_Slice_row_std_err.
  model_theorem realizes_row_std_err terms_row_std_err "row_std_err" B_rowse
                (fun C => tabular_map2 C se_cell (B_rowv C) (B_rowb C)).
Qed.
Theorem public_column_std_err_model :
  need terms_public_column_std_err
  (forall C, first_order_ok C -> orders_ok C -> matrix_member_spec C "column_std_err" (B_colse C)).
Proof.
  unfold terms_public_column_std_err, wsrc_Slice_column_std_err.
  model_theorem realizes_column_std_err terms_column_std_err "column_std_err" B_colse
                (fun C => tabular_map2 C se_cell (B_colv C) (B_colb C)).
Qed.
Theorem public_table_std_err_model :
  need terms_public_table_std_err
  (forall C, first_order_ok C -> orders_ok C -> matrix_member_spec C "table_std_err" (B_tabse C)).
Proof.
  unfold terms_public_table_std_err, wsrc_Slice_table_std_err.
  model_theorem realizes_table_std_err terms_table_std_err "table_std_err" B_tabse
                (fun C => tabular_map2 C se_cell (B_tabv C) (B_tabb C)).
Qed.

(* ------------------------------------------------------------------------------------ *)
(** * link 4: the respondents *)

(* np.sqrt's guard does not change a value that is NaN or a non-negative number *)
Lemma se_spec_guard x l b : se_spec x l b -> se_spec (MeasureExp.sqrt_guard x) l b.
Proof.
  unfold se_spec, MeasureExp.sqrt_guard. destruct x as [s|n|]; simpl; intros H; try exact H; try contradiction.
  destruct (Qlt_le_dec s 0) as [Hlt|Hle]; [|exact H].
  destruct H as (_ & _ & H0). exfalso. apply (Qlt_not_le _ _ Hlt H0).
Qed.

Section Cells.
  Variable S : survey.
  Variable tv : tvar.
  Variable vr : nat.
  Variable kr : kind.
  Variable mr : list bool.
  Variable vc : nat.
  Variable kc : kind.
  Variable mc : list bool.
  Variable k : nat.
  Variables rsubs csubs : list subtotal.
  Variables dn rd cd : bool.
  Variable flag : string -> bool.
  Variables ro co : list Z.
  Variable so : slice_out.
  Hypothesis D : survey_display S tv vr kr mr vc kc mc k rsubs csubs ro co so.

  Let Ht : t_ok tv := proj1 D.
  Let Hr : cat_or_mr kr := proj1 (proj2 D).
  Let Hc : cat_or_mr kc := proj1 (proj2 (proj2 D)).
  Let Hk : k < t_n tv := proj1 (proj2 (proj2 (proj2 D))).
  Let Hwf : wf_survey S := proj1 (proj2 (proj2 (proj2 (proj2 D)))).
  Let Hso := proj1 (proj2 (proj2 (proj2 (proj2 (proj2 (proj2 (proj2 D))))))).

  Notation C := (Cs mr mc rsubs csubs dn rd cd flag ro co so).

  Lemma Cs_B_rowb : B_rowb C = s_row_bases S tv vr kr mr vc kc mc k rsubs csubs.
  Proof. unfold B_rowb, s_row_bases. rewrite (Cs_rb S tv vr kr mr vc kc mc k rsubs csubs dn rd cd flag ro co so Ht Hr Hc Hk Hso). reflexivity. Qed.
  Lemma Cs_B_colb : B_colb C = s_col_bases S tv vr kr mr vc kc mc k rsubs csubs.
  Proof. unfold B_colb, s_col_bases. rewrite (Cs_cb S tv vr kr mr vc kc mc k rsubs csubs dn rd cd flag ro co so Ht Hr Hc Hk Hso). reflexivity. Qed.
  Lemma Cs_B_tabb : B_tabb C = s_tab_bases S tv vr kr mr vc kc mc k rsubs csubs.
  Proof. unfold B_tabb, s_tab_bases. rewrite (Cs_tb S tv vr kr mr vc kc mc k rsubs csubs dn rd cd flag ro co so Ht Hr Hc Hk Hso). reflexivity. Qed.

  Lemma Cs_B_rowv : B_rowv C = s_row_var S tv vr kr mr vc kc mc k rsubs csubs dn rd cd.
  Proof.
    unfold B_rowv, s_row_var.
    rewrite (Cs_B_rowp S tv vr kr mr vc kc mc k rsubs csubs dn rd cd flag ro co so Ht Hr Hc Hk Hso), Cs_B_rowb,
            (Cs_counts S tv vr kr mr vc kc mc k rsubs csubs dn rd cd flag ro co so Ht Hr Hc Hk Hso).
    reflexivity.
  Qed.
  Lemma Cs_B_colv : B_colv C = s_col_var S tv vr kr mr vc kc mc k rsubs csubs dn rd cd.
  Proof.
    unfold B_colv, s_col_var.
    rewrite (Cs_B_colp S tv vr kr mr vc kc mc k rsubs csubs dn rd cd flag ro co so Ht Hr Hc Hk Hso), Cs_B_colb,
            (Cs_counts S tv vr kr mr vc kc mc k rsubs csubs dn rd cd flag ro co so Ht Hr Hc Hk Hso).
    reflexivity.
  Qed.
  Lemma Cs_B_tabv : B_tabv C = s_tab_var S tv vr kr mr vc kc mc k rsubs csubs dn.
  Proof.
    unfold B_tabv, s_tab_var.
    rewrite (Cs_B_tabp S tv vr kr mr vc kc mc k rsubs csubs dn rd cd flag ro co so Ht Hr Hc Hk Hso), Cs_B_tabb,
            (Cs_counts S tv vr kr mr vc kc mc k rsubs csubs dn rd cd flag ro co so Ht Hr Hc Hk Hso).
    reflexivity.
  Qed.

  Section Base.
    Variables r c : nat.
    Hypothesis Hr' : r < nval mr.
    Hypothesis Hc' : c < nval mc.
    Notation cellp := (cell_in tv k vr kr mr vc kc mc r c).

    Lemma rowv_cell :
      var_spec (mnth (b_base (B_rowv C)) r c) (marks S (rowbase_in tv k vr kr mr vc kc mc r c) cellp)
               (w_cell tv k vr kr mr vc kc mc S r c) (w_rowbase tv k vr kr mr vc kc mc S r c).
    Proof. rewrite Cs_B_rowv. exact (row_variance_survey S tv vr kr mr vc kc mc k rsubs csubs dn rd cd Ht Hr Hc Hk Hwf r c Hr' Hc'). Qed.
    Lemma colv_cell :
      var_spec (mnth (b_base (B_colv C)) r c) (marks S (colbase_in tv k vr kr mr vc kc mc r c) cellp)
               (w_cell tv k vr kr mr vc kc mc S r c) (w_colbase tv k vr kr mr vc kc mc S r c).
    Proof. rewrite Cs_B_colv. exact (column_variance_survey S tv vr kr mr vc kc mc k rsubs csubs dn rd cd Ht Hr Hc Hk Hwf r c Hr' Hc'). Qed.
    Lemma tabv_cell :
      var_spec (mnth (b_base (B_tabv C)) r c) (marks S (tabbase_in tv k vr kr mr vc kc mc r c) cellp)
               (w_cell tv k vr kr mr vc kc mc S r c) (w_tabbase tv k vr kr mr vc kc mc S r c).
    Proof. rewrite Cs_B_tabv. exact (table_variance_survey S tv vr kr mr vc kc mc k rsubs csubs dn Ht Hr Hc Hk Hwf r c Hr' Hc'). Qed.

    Lemma rowse_cell :
      se_spec (mnth (b_base (B_rowse C)) r c) (marks S (rowbase_in tv k vr kr mr vc kc mc r c) cellp)
              (w_rowbase tv k vr kr mr vc kc mc S r c).
    Proof.
      unfold B_rowse, map2_blocks. cbn [b_base]. rewrite (tab2_mnth _ _ _ r c Hr' Hc'). unfold se_cell.
      apply se_spec_guard. rewrite Cs_B_rowv, Cs_B_rowb.
      exact (row_stderr_sq_survey S tv vr kr mr vc kc mc k rsubs csubs dn rd cd Ht Hr Hc Hk Hwf r c Hr' Hc').
    Qed.
    Lemma colse_cell :
      se_spec (mnth (b_base (B_colse C)) r c) (marks S (colbase_in tv k vr kr mr vc kc mc r c) cellp)
              (w_colbase tv k vr kr mr vc kc mc S r c).
    Proof.
      unfold B_colse, map2_blocks. cbn [b_base]. rewrite (tab2_mnth _ _ _ r c Hr' Hc'). unfold se_cell.
      apply se_spec_guard. rewrite Cs_B_colv, Cs_B_colb.
      exact (column_stderr_sq_survey S tv vr kr mr vc kc mc k rsubs csubs dn rd cd Ht Hr Hc Hk Hwf r c Hr' Hc').
    Qed.
    Lemma tabse_cell :
      se_spec (mnth (b_base (B_tabse C)) r c) (marks S (tabbase_in tv k vr kr mr vc kc mc r c) cellp)
              (w_tabbase tv k vr kr mr vc kc mc S r c).
    Proof.
      unfold B_tabse, map2_blocks. cbn [b_base]. rewrite (tab2_mnth _ _ _ r c Hr' Hc'). unfold se_cell.
      apply se_spec_guard. rewrite Cs_B_tabv, Cs_B_tabb.
      exact (table_stderr_sq_survey S tv vr kr mr vc kc mc k rsubs csubs dn Ht Hr Hc Hk Hwf r c Hr' Hc').
    Qed.
  End Base.
End Cells.

(* ------------------------------------------------------------------------------------ *)
(** * THE COMPOSED THEOREMS *)

(* the base's respondent predicate of a direction *)
Definition bpred : Type :=
  tvar -> nat -> nat -> kind -> list bool -> nat -> kind -> list bool -> nat -> nat -> Survey.resp -> bool.

Definition var_cell_spec (bp : bpred) S tv vr kr mr vc kc mc k (r c : nat) (x : xq) : Prop :=
  var_spec x (marks S (bp tv k vr kr mr vc kc mc r c) (cell_in tv k vr kr mr vc kc mc r c))
           (w_cell tv k vr kr mr vc kc mc S r c) (wsum S (bp tv k vr kr mr vc kc mc r c)).
Definition se_cell_spec (bp : bpred) S tv vr kr mr vc kc mc k (r c : nat) (x : xq) : Prop :=
  se_spec x (marks S (bp tv k vr kr mr vc kc mc r c) (cell_in tv k vr kr mr vc kc mc r c))
          (wsum S (bp tv k vr kr mr vc kc mc r c)).

Ltac base_theorem PMlem terms p cellL :=
  use_need PMlem terms; intros PM; needed;
  intros S tv vr kr mr vc kc mc k rsubs csubs dn rd cd flag ro co so D;
  eapply (base_cells_of_member S tv vr kr mr vc kc mc k rsubs csubs dn rd cd flag ro co so D p (fun x => x));
  [ apply PM;
    [ exact (C_first_order S tv vr kr mr vc kc mc k rsubs csubs dn rd cd flag ro co so D)
    | exact (proj2 (proj2 (proj2 (proj2 (proj2 (proj2 (proj2 (proj2 D)))))))) ]
  | intros r c Hr Hc; exact (cellL S tv vr kr mr vc kc mc k rsubs csubs dn rd cd flag ro co so D r c Hr Hc) ].

Theorem compose_public_Slice_row_proportion_variances :
  need terms_public_row_variances
  (forall S tv vr kr mr vc kc mc k rsubs csubs dn rd cd flag ro co so,
     survey_display S tv vr kr mr vc kc mc k rsubs csubs ro co so ->
     base_cells_spec (public_slice (Cs mr mc rsubs csubs dn rd cd flag ro co so) "row_proportion_variances") ro co
       (var_cell_spec rowbase_in S tv vr kr mr vc kc mc k)).
Proof. base_theorem public_row_variances_model terms_public_row_variances "row_proportion_variances" rowv_cell. Qed.

Theorem compose_public_Slice_column_proportion_variances :
  need terms_public_column_variances
  (forall S tv vr kr mr vc kc mc k rsubs csubs dn rd cd flag ro co so,
     survey_display S tv vr kr mr vc kc mc k rsubs csubs ro co so ->
     base_cells_spec (public_slice (Cs mr mc rsubs csubs dn rd cd flag ro co so) "column_proportion_variances") ro co
       (var_cell_spec colbase_in S tv vr kr mr vc kc mc k)).
Proof. base_theorem public_column_variances_model terms_public_column_variances "column_proportion_variances" colv_cell. Qed.

Theorem compose_public_Slice_table_proportion_variances :
  need terms_public_table_variances
  (forall S tv vr kr mr vc kc mc k rsubs csubs dn rd cd flag ro co so,
     survey_display S tv vr kr mr vc kc mc k rsubs csubs ro co so ->
     base_cells_spec (public_slice (Cs mr mc rsubs csubs dn rd cd flag ro co so) "table_proportion_variances") ro co
       (var_cell_spec tabbase_in S tv vr kr mr vc kc mc k)).
Proof. base_theorem public_table_variances_model terms_public_table_variances "table_proportion_variances" tabv_cell. Qed.

Theorem compose_public_Slice_row_std_err :
  need terms_public_row_std_err
  (forall S tv vr kr mr vc kc mc k rsubs csubs dn rd cd flag ro co so,
     survey_display S tv vr kr mr vc kc mc k rsubs csubs ro co so ->
     base_cells_spec (public_slice (Cs mr mc rsubs csubs dn rd cd flag ro co so) "row_std_err") ro co
       (se_cell_spec rowbase_in S tv vr kr mr vc kc mc k)).
Proof. base_theorem public_row_std_err_model terms_public_row_std_err "row_std_err" rowse_cell. Qed.

Theorem compose_public_Slice_column_std_err :
  need terms_public_column_std_err
  (forall S tv vr kr mr vc kc mc k rsubs csubs dn rd cd flag ro co so,
     survey_display S tv vr kr mr vc kc mc k rsubs csubs ro co so ->
     base_cells_spec (public_slice (Cs mr mc rsubs csubs dn rd cd flag ro co so) "column_std_err") ro co
       (se_cell_spec colbase_in S tv vr kr mr vc kc mc k)).
Proof. base_theorem public_column_std_err_model terms_public_column_std_err "column_std_err" colse_cell. Qed.

Theorem compose_public_Slice_table_std_err :
  need terms_public_table_std_err
  (forall S tv vr kr mr vc kc mc k rsubs csubs dn rd cd flag ro co so,
     survey_display S tv vr kr mr vc kc mc k rsubs csubs ro co so ->
     base_cells_spec (public_slice (Cs mr mc rsubs csubs dn rd cd flag ro co so) "table_std_err") ro co
       (se_cell_spec tabbase_in S tv vr kr mr vc kc mc k)).
Proof. base_theorem public_table_std_err_model terms_public_table_std_err "table_std_err" tabse_cell. Qed.

Lemma compose_public_terms_available_C11 :
  terms_public_row_variances = true /\ terms_public_column_variances = true /\
  terms_public_table_variances = true /\ terms_public_row_std_err = true /\
  terms_public_column_std_err = true /\ terms_public_table_std_err = true.
Proof. repeat split; reflexivity. Qed.
