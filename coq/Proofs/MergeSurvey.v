(* Proofs/MergeSurvey.v -- MERGE EQUIVALENCE, first-order quantities.

   A slice with a categorical ROWS variable [vr] (flags [ms]), any categorical / multiple-
   response COLUMNS variable [vc], optionally a table variable [tv] (3-D cube, partition k),
   tabulated from a survey S; a row subtotal [s] WITHOUT subtrahends whose addend offsets are
   valid rows, listed once each (what Model/SubtotalIds.v::resolve produces).

   S' = Spec/Merge.v::recode of S: the addends are merged into one fresh category, which is
   the LAST row (offset nr) of the merged table.  Then, cell by cell along the row,

        counts        subtotal block value  ==  merged table, row nr
        row bases                "                     "
        column bases             "                     "
        table bases              "                     "

   for the weighted tensor; the unweighted twins are the same theorems for [unit_weights S]
   (recode commutes with unit_weights).  The mirrored statements for a COLUMN subtotal are
   in the second half (rows: categorical or MR).  Everything a measure computes from these four
   numbers then agrees as well (Proofs/MergeMeasures.v). *)
From Coq Require Import QArith ZArith List Bool Lia Arith Setoid Morphisms Btauto.
From CC Require Import Base.XQ Base.ListX Spec.Survey Spec.Merge Model.CubeCounts Model.Subtotals
     Model.Proportions Proofs.CubeCountsProofs Proofs.MergeSum.
Import ListNotations.
Local Close Scope Q_scope.
Local Open Scope nat_scope.

Lemma nval_n_valid ms : nval ms = n_valid ms.
Proof. reflexivity. Qed.

(* the table variable (if any) is not the merged one *)
Definition tv_other (tv : tvar) (v : nat) : Prop :=
  match tv with None => True | Some (u, _, _) => u <> v end.

Lemma pop_recode tv k v A m r : tv_other tv v -> pop_of tv k (recode_resp v A m r) = pop_of tv k r.
Proof.
  destruct tv as [[[u kd] mt]|]; simpl; [|reflexivity]. intros H.
  rewrite (recode_ans_other v A m r u H). reflexivity.
Qed.

(* sums of finite cells *)
Lemma xsum_map_fin {A} (f : A -> xq) (g : A -> Q) l :
  (forall x, In x l -> f x =x= Fin (g x)) -> xsum (map f l) =x= Fin (qsum (map g l)).
Proof.
  intros H. rewrite (xsum_map_xeq f (fun x => Fin (g x)) l H).
  rewrite <- (map_map g Fin). rewrite xsum_fin. reflexivity.
Qed.

Lemma sum_rows_tab2 nr nc f idxs j :
  Forall (fun i => i < nr) idxs -> j < nc ->
  sum_rows (tab2 nr nc f) idxs j = xsum (map (fun i => f i j) idxs).
Proof.
  intros H Hj. unfold sum_rows. f_equal. apply map_ext_in. intros i Hi.
  rewrite Forall_forall in H. apply tab2_mnth; auto.
Qed.

Lemma sum_cols_tab2 nr nc f i idxs :
  Forall (fun j => j < nc) idxs -> i < nr ->
  sum_cols (tab2 nr nc f) i idxs = xsum (map (fun j => f i j) idxs).
Proof.
  intros H Hi. unfold sum_cols. f_equal. apply map_ext_in. intros j Hj.
  rewrite Forall_forall in H. apply tab2_mnth; auto.
Qed.

Lemma qsum_map_ext {A} (f g : A -> Q) l :
  (forall x, In x l -> (f x == g x)%Q) -> (qsum (map f l) == qsum (map g l))%Q.
Proof.
  induction l as [|a t IH]; intros H; simpl; [reflexivity|].
  rewrite (H a (or_introl eq_refl)), IH; [reflexivity|]. intros x Hx. apply H. right. exact Hx.
Qed.

Lemma xsub_zero_r a : xsub a (Fin 0) =x= a.
Proof. unfold xsub. rewrite xneg_zero. apply xadd_0_r. Qed.

(* a subtotal without subtrahends: the NaN override never applies, the value is the plain sum *)
Lemma subrow_cell_nosub base b s j : s_sub s = [] ->
  subrow_cell base b s j =x= sum_rows base (s_add s) j.
Proof.
  intros H. unfold subrow_cell, has_subs. rewrite H, andb_false_r.
  unfold sum_rows at 2. simpl. apply xsub_zero_r.
Qed.
Lemma subcol_cell_nosub base b s i : s_sub s = [] ->
  subcol_cell base b s i =x= sum_cols base i (s_add s).
Proof.
  intros H. unfold subcol_cell, has_subs. rewrite H, andb_false_r.
  unfold sum_cols at 2. simpl. apply xsub_zero_r.
Qed.

(* ==================================================================================== *)
(** * ROW subtotal *)

Section MergeRows.
  Variable S : survey.
  Variable tv : tvar.
  Variables vr vc : nat.
  Variable kc : kind.
  Variables ms mc : list bool.
  Variable k : nat.
  Variable s : subtotal.
  Hypothesis Ht : t_ok tv.
  Hypothesis Hc : cat_or_mr kc.
  Hypothesis Hk : k < t_n tv.
  Hypothesis Hvar : vc <> vr.
  Hypothesis Htv : tv_other tv vr.
  Hypothesis Hsub : s_sub s = [].
  Hypothesis Hoffs : Forall (fun i => i < n_valid ms) (s_add s).
  Hypothesis Hnd : NoDup (s_add s).
  Hypothesis Hfresh : fresh_for vr ms S.

  Let nr := nval ms.
  Let nc := nval mc.
  Let A := positions ms (s_add s).
  Let m := merged_pos ms.
  Let ms' := merged_flags ms.
  Definition merged_rows_survey : survey := recode vr A m S.
  Let S' := merged_rows_survey.
  Let V := slice_of tv vr KCat ms vc kc mc S k.
  Let V' := slice_of tv vr KCat ms' vc kc mc S' k.
  Let sl := length mrv.
  Let Hr : cat_or_mr KCat := or_introl eq_refl.

  Lemma nr'_eq : nval ms' = Datatypes.S nr.
  Proof. apply n_valid_merged. Qed.

  (* a condition on the table and columns variables is blind to the recoding *)
  Lemma cond_recode (CP : answer -> bool) r :
    pop_of tv k (recode_resp vr A m r) && CP (ans (recode_resp vr A m r) vc)
    = pop_of tv k r && CP (ans r vc).
  Proof. rewrite (pop_recode tv k vr A m r Htv), (recode_ans_other vr A m r vc Hvar). reflexivity. Qed.

  (* additive quantities: cell = w(pop, row element i, column condition) *)
  Lemma merged_additive (CP : answer -> bool) :
    (wsum S' (fun r => pop_of tv k r && in_cat ms' (ans r vr) nr && CP (ans r vc))
     == qsum (map (fun i => wsum S (fun r => pop_of tv k r && in_cat ms (ans r vr) i && CP (ans r vc)))
                  (s_add s)))%Q.
  Proof.
    pose proof (tab_recode_merged S vr ms (s_add s) (fun r => pop_of tv k r && CP (ans r vc))
                  Hoffs Hnd Hfresh (cond_recode CP)) as H.
    transitivity (wsum S' (fun r => pop_of tv k r && CP (ans r vc) && in_cat ms' (ans r vr) (n_valid ms))).
    { apply wsum_ext. intros r _. unfold nr; rewrite nval_n_valid; btauto. }
    unfold S', merged_rows_survey, A, m, ms'.
    rewrite H. clear H.
    apply qsum_map_ext. intros i _. apply wsum_ext. intros r _. btauto.
  Qed.

  (* totals: cell = w(pop, any valid row category, column condition) *)
  Lemma merged_total (CP : answer -> bool) :
    (wsum S' (fun r => pop_of tv k r && ok_cat ms' (ans r vr) && CP (ans r vc))
     == wsum S (fun r => pop_of tv k r && ok_cat ms (ans r vr) && CP (ans r vc)))%Q.
  Proof.
    pose proof (tab_recode_total S vr ms (s_add s) (fun r => pop_of tv k r && CP (ans r vc))
                  Hoffs Hfresh (cond_recode CP)) as H.
    transitivity (wsum S' (fun r => pop_of tv k r && CP (ans r vc) && ok_cat ms' (ans r vr))).
    { apply wsum_ext. intros r _. btauto. }
    unfold S', merged_rows_survey, A, m, ms'.
    rewrite H. apply wsum_ext. intros r _. btauto.
  Qed.

  Lemma offs_lt i : In i (s_add s) -> i < nr.
  Proof. intros Hi. rewrite Forall_forall in Hoffs. apply Hoffs. exact Hi. Qed.

  Lemma offs_forall : Forall (fun i => i < nr) (s_add s).
  Proof. exact Hoffs. Qed.

  Lemma nr_lt' : nr < nval ms'.
  Proof. rewrite nr'_eq. lia. Qed.

  (* ---- counts ---------------------------------------------------------------------- *)
  Theorem merge_counts_row b j : j < nc ->
    subrow_cell (tab2 nr nc (counts_of V CCat (kcls kc))) b s j
    =x= counts_of V' CCat (kcls kc) nr j.
  Proof.
    intros Hj. rewrite (subrow_cell_nosub _ b s j Hsub).
    rewrite (sum_rows_tab2 nr nc _ (s_add s) j offs_forall Hj).
    rewrite (xsum_map_fin _ (fun i => wsum S (fun r => pop_of tv k r && in_cat ms (ans r vr) i
                                                      && in_el kc mc (ans r vc) j)) (s_add s))
      by (intros i Hi; apply (counts_of_spec S tv vr vc KCat kc ms mc k Ht Hr Hc Hk i j (offs_lt i Hi) Hj)).
    etransitivity; [| symmetry; apply (counts_of_spec S' tv vr vc KCat kc ms' mc k Ht Hr Hc Hk nr j nr_lt' Hj)].
    simpl in_el. simpl xeq. symmetry. apply (merged_additive (fun a => in_el kc mc a j)).
  Qed.

  (* ---- row bases (additive along the rows: _Row*Bases._subtotal_rows) ------------------ *)
  Theorem merge_row_bases_row b j : j < nc ->
    subrow_cell (tab2 nr nc (row_bases_of V nc sl CCat (kcls kc))) b s j
    =x= row_bases_of V' nc sl CCat (kcls kc) nr j.
  Proof.
    intros Hj. rewrite (subrow_cell_nosub _ b s j Hsub).
    rewrite (sum_rows_tab2 nr nc _ (s_add s) j offs_forall Hj).
    rewrite (xsum_map_fin _ (fun i => wsum S (fun r => pop_of tv k r && in_cat ms (ans r vr) i
                                                      && ok_el kc mc (ans r vc) j)) (s_add s))
      by (intros i Hi; apply (row_bases_of_spec S tv vr vc KCat kc ms mc k Ht Hr Hc Hk i j (offs_lt i Hi) Hj)).
    etransitivity; [| symmetry; apply (row_bases_of_spec S' tv vr vc KCat kc ms' mc k Ht Hr Hc Hk nr j nr_lt' Hj)].
    simpl in_el. simpl xeq. symmetry. apply (merged_additive (fun a => ok_el kc mc a j)).
  Qed.

  (* ---- column bases (not additive: the block repeats base row 0) ------------------------- *)
  Theorem merge_column_bases_row j : 0 < nr -> j < nc ->
    mnth (tab2 nr nc (column_bases_of V nr sl CCat (kcls kc))) 0 j
    =x= column_bases_of V' (nval ms') sl CCat (kcls kc) nr j.
  Proof.
    intros H0 Hj. rewrite tab2_mnth by assumption.
    etransitivity; [apply (column_bases_of_spec S tv vr vc KCat kc ms mc k Ht Hr Hc Hk 0 j H0 Hj)|].
    etransitivity; [| symmetry; apply (column_bases_of_spec S' tv vr vc KCat kc ms' mc k Ht Hr Hc Hk nr j nr_lt' Hj)].
    simpl ok_el. simpl xeq. symmetry. apply (merged_total (fun a => in_el kc mc a j)).
  Qed.

  (* ---- table bases ------------------------------------------------------------------- *)
  Theorem merge_table_bases_row j : 0 < nr -> j < nc ->
    mnth (tab2 nr nc (table_bases_of V nr nc sl sl CCat (kcls kc))) 0 j
    =x= table_bases_of V' (nval ms') nc sl sl CCat (kcls kc) nr j.
  Proof.
    intros H0 Hj. rewrite tab2_mnth by assumption.
    etransitivity; [apply (table_bases_of_spec S tv vr vc KCat kc ms mc k Ht Hr Hc Hk 0 j H0 Hj)|].
    etransitivity; [| symmetry; apply (table_bases_of_spec S' tv vr vc KCat kc ms' mc k Ht Hr Hc Hk nr j nr_lt' Hj)].
    simpl ok_el. simpl xeq. symmetry. apply (merged_total (fun a => ok_el kc mc a j)).
  Qed.

  (* ---- the rest of the merged table ---------------------------------------------------- *)
  (* a row that is not an addend keeps its counts; an addend row is emptied *)
  Theorem merge_other_row_counts i j : i < nr -> j < nc -> ~ In i (s_add s) ->
    counts_of V' CCat (kcls kc) i j =x= counts_of V CCat (kcls kc) i j.
  Proof.
    intros Hi Hj Hnin.
    assert (Hi' : i < nval ms') by (rewrite nr'_eq; lia).
    etransitivity; [apply (counts_of_spec S' tv vr vc KCat kc ms' mc k Ht Hr Hc Hk i j Hi' Hj)|].
    etransitivity; [| symmetry; apply (counts_of_spec S tv vr vc KCat kc ms mc k Ht Hr Hc Hk i j Hi Hj)].
    simpl in_el. simpl xeq.
    pose proof (tab_recode_unchanged S vr ms (s_add s) (fun r => pop_of tv k r && in_el kc mc (ans r vc) j)
                  Hoffs (cond_recode (fun a => in_el kc mc a j)) i Hi Hnin) as H.
    transitivity (wsum S' (fun r => pop_of tv k r && in_el kc mc (ans r vc) j && in_cat ms' (ans r vr) i)).
    { apply wsum_ext. intros r _. btauto. }
    unfold S', merged_rows_survey, A, m, ms'.
    rewrite H. apply wsum_ext. intros r _. btauto.
  Qed.

  Theorem merge_addend_row_emptied i j : j < nc -> In i (s_add s) ->
    counts_of V' CCat (kcls kc) i j =x= Fin 0.
  Proof.
    intros Hj Hin. pose proof (offs_lt i Hin) as Hi.
    assert (Hi' : i < nval ms') by (rewrite nr'_eq; lia).
    etransitivity; [apply (counts_of_spec S' tv vr vc KCat kc ms' mc k Ht Hr Hc Hk i j Hi' Hj)|].
    simpl in_el. simpl xeq.
    pose proof (tab_recode_addend_emptied S vr ms (s_add s) (fun r => pop_of tv k r && in_el kc mc (ans r vc) j)
                  Hoffs (cond_recode (fun a => in_el kc mc a j)) i Hi Hin) as H.
    transitivity (wsum S' (fun r => pop_of tv k r && in_el kc mc (ans r vc) j && in_cat ms' (ans r vr) i)).
    { apply wsum_ext. intros r _. btauto. }
    unfold S', merged_rows_survey, A, m, ms'.
    exact H.
  Qed.
End MergeRows.

(* ==================================================================================== *)
(** * COLUMN subtotal (mirror image: columns categorical, rows categorical or MR) *)

Section MergeCols.
  Variable S : survey.
  Variable tv : tvar.
  Variables vr vc : nat.
  Variable kr : kind.
  Variables mr ms : list bool.      (* rows flags; flags of the (merged) COLUMNS variable *)
  Variable k : nat.
  Variable s : subtotal.
  Hypothesis Ht : t_ok tv.
  Hypothesis Hr : cat_or_mr kr.
  Hypothesis Hk : k < t_n tv.
  Hypothesis Hvar : vr <> vc.
  Hypothesis Htv : tv_other tv vc.
  Hypothesis Hsub : s_sub s = [].
  Hypothesis Hoffs : Forall (fun j => j < n_valid ms) (s_add s).
  Hypothesis Hnd : NoDup (s_add s).
  Hypothesis Hfresh : fresh_for vc ms S.

  Let nr := nval mr.
  Let nc := nval ms.
  Let A := positions ms (s_add s).
  Let m := merged_pos ms.
  Let ms' := merged_flags ms.
  Definition merged_cols_survey : survey := recode vc A m S.
  Let S' := merged_cols_survey.
  Let V := slice_of tv vr kr mr vc KCat ms S k.
  Let V' := slice_of tv vr kr mr vc KCat ms' S' k.
  Let sl := length mrv.
  Let Hc : cat_or_mr KCat := or_introl eq_refl.

  Lemma nc'_eq : nval ms' = Datatypes.S nc.
  Proof. apply n_valid_merged. Qed.

  Lemma cond_recode_c (RP : answer -> bool) r :
    pop_of tv k (recode_resp vc A m r) && RP (ans (recode_resp vc A m r) vr)
    = pop_of tv k r && RP (ans r vr).
  Proof. rewrite (pop_recode tv k vc A m r Htv), (recode_ans_other vc A m r vr Hvar). reflexivity. Qed.

  Lemma merged_additive_c (RP : answer -> bool) :
    (wsum S' (fun r => pop_of tv k r && RP (ans r vr) && in_cat ms' (ans r vc) nc)
     == qsum (map (fun j => wsum S (fun r => pop_of tv k r && RP (ans r vr) && in_cat ms (ans r vc) j))
                  (s_add s)))%Q.
  Proof.
    pose proof (tab_recode_merged S vc ms (s_add s) (fun r => pop_of tv k r && RP (ans r vr))
                  Hoffs Hnd Hfresh (cond_recode_c RP)) as H.
    unfold S', merged_cols_survey, A, m, ms'. exact H.
  Qed.

  Lemma merged_total_c (RP : answer -> bool) :
    (wsum S' (fun r => pop_of tv k r && RP (ans r vr) && ok_cat ms' (ans r vc))
     == wsum S (fun r => pop_of tv k r && RP (ans r vr) && ok_cat ms (ans r vc)))%Q.
  Proof.
    pose proof (tab_recode_total S vc ms (s_add s) (fun r => pop_of tv k r && RP (ans r vr))
                  Hoffs Hfresh (cond_recode_c RP)) as H.
    unfold S', merged_cols_survey, A, m, ms'. exact H.
  Qed.

  Lemma offs_lt_c j : In j (s_add s) -> j < nc.
  Proof. intros Hj. rewrite Forall_forall in Hoffs. apply Hoffs. exact Hj. Qed.
  Lemma nc_lt' : nc < nval ms'.
  Proof. rewrite nc'_eq. lia. Qed.

  Theorem merge_counts_col b i : i < nr ->
    subcol_cell (tab2 nr nc (counts_of V (kcls kr) CCat)) b s i
    =x= counts_of V' (kcls kr) CCat i nc.
  Proof.
    intros Hi. rewrite (subcol_cell_nosub _ b s i Hsub).
    rewrite (sum_cols_tab2 nr nc _ i (s_add s) Hoffs Hi).
    rewrite (xsum_map_fin _ (fun j => wsum S (fun r => pop_of tv k r && in_el kr mr (ans r vr) i
                                                      && in_cat ms (ans r vc) j)) (s_add s))
      by (intros j Hj; apply (counts_of_spec S tv vr vc kr KCat mr ms k Ht Hr Hc Hk i j Hi (offs_lt_c j Hj))).
    etransitivity; [| symmetry; apply (counts_of_spec S' tv vr vc kr KCat mr ms' k Ht Hr Hc Hk i nc Hi nc_lt')].
    simpl in_el. simpl xeq. symmetry. apply (merged_additive_c (fun a => in_el kr mr a i)).
  Qed.

  Theorem merge_column_bases_col b i : i < nr ->
    subcol_cell (tab2 nr nc (column_bases_of V nr sl (kcls kr) CCat)) b s i
    =x= column_bases_of V' nr sl (kcls kr) CCat i nc.
  Proof.
    intros Hi. rewrite (subcol_cell_nosub _ b s i Hsub).
    rewrite (sum_cols_tab2 nr nc _ i (s_add s) Hoffs Hi).
    rewrite (xsum_map_fin _ (fun j => wsum S (fun r => pop_of tv k r && ok_el kr mr (ans r vr) i
                                                      && in_cat ms (ans r vc) j)) (s_add s))
      by (intros j Hj; apply (column_bases_of_spec S tv vr vc kr KCat mr ms k Ht Hr Hc Hk i j Hi (offs_lt_c j Hj))).
    etransitivity; [| symmetry; apply (column_bases_of_spec S' tv vr vc kr KCat mr ms' k Ht Hr Hc Hk i nc Hi nc_lt')].
    simpl in_el. simpl xeq. symmetry. apply (merged_additive_c (fun a => ok_el kr mr a i)).
  Qed.

  Theorem merge_row_bases_col i : i < nr -> 0 < nc ->
    mnth (tab2 nr nc (row_bases_of V nc sl (kcls kr) CCat)) i 0
    =x= row_bases_of V' (nval ms') sl (kcls kr) CCat i nc.
  Proof.
    intros Hi H0. rewrite tab2_mnth by assumption.
    etransitivity; [apply (row_bases_of_spec S tv vr vc kr KCat mr ms k Ht Hr Hc Hk i 0 Hi H0)|].
    etransitivity; [| symmetry; apply (row_bases_of_spec S' tv vr vc kr KCat mr ms' k Ht Hr Hc Hk i nc Hi nc_lt')].
    simpl ok_el. simpl xeq. symmetry. apply (merged_total_c (fun a => in_el kr mr a i)).
  Qed.

  Theorem merge_table_bases_col i : i < nr -> 0 < nc ->
    mnth (tab2 nr nc (table_bases_of V nr nc sl sl (kcls kr) CCat)) i 0
    =x= table_bases_of V' nr (nval ms') sl sl (kcls kr) CCat i nc.
  Proof.
    intros Hi H0. rewrite tab2_mnth by assumption.
    etransitivity; [apply (table_bases_of_spec S tv vr vc kr KCat mr ms k Ht Hr Hc Hk i 0 Hi H0)|].
    etransitivity; [| symmetry; apply (table_bases_of_spec S' tv vr vc kr KCat mr ms' k Ht Hr Hc Hk i nc Hi nc_lt')].
    simpl ok_el. simpl xeq. symmetry. apply (merged_total_c (fun a => ok_el kr mr a i)).
  Qed.
End MergeCols.

(* ==================================================================================== *)
(** * unweighted twins: recoding and forgetting the weights commute *)

Lemma recode_unit_weights v A m S :
  recode v A m (unit_weights S) = unit_weights (recode v A m S).
Proof.
  unfold recode, unit_weights. rewrite !map_map. apply map_ext. intros r. reflexivity.
Qed.

Lemma fresh_unit_weights v ms S : fresh_for v ms S -> fresh_for v ms (unit_weights S).
Proof.
  intros H r Hr. unfold unit_weights in Hr. apply in_map_iff in Hr.
  destruct Hr as [r' [<- Hr']]. exact (H r' Hr').
Qed.
