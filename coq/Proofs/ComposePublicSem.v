(* Proofs/ComposePublicSem.v -- the COMPOSITION of the source translators (DESIGN 8.1), part 1: meaning.

   DESIGN 8.1 ends with: "the chain  public member -> measure blocks -> model blocks -> assembly -> model
   assembly  is now tied to the source at every link ...; the composition of those links is argued here,
   not proved as one Coq theorem".  The files Proofs/ComposePublic*.v prove it.  THIS file only DEFINES
   what "the public value computed by that chain" is; nothing here is a hand-written model of cr.cube:

     [weval]    an interpretation of the WIRING terms of Gen/WiringSrc.v (x_wiring: what a public member
                of cubepart.py IS) for the shapes
                      self._assemble_matrix(self._measures.<m>.blocks)      (w_matrix_of m)
                      self._assemble_marginal(self._measures.<m>)           (w_marginal_of m)   [slices]
                      self._assemble_vector(self._measures.<m>.blocks)      (w_vector_of m)     [strands]
                      <e> * <int literal>,  self.<other public member>
                and an explicit error [PErr] for every other shape;
     [gen_blk]  `self._measures.<m>.blocks[i][j]` AS THE EVALUATION OF THE GENERATED TERM of that block
                (Gen/MeasureSrc.v through [meval] / [meval_sq] of Base/MeasureExp.v, Gen/BasesSrc.v through
                [beval] of Base/BasesExp.v) in the STANDARD environment of its GenAgree lemma, in which the
                blocks of every OTHER measure the term mentions are again [gen_blk] (a fuel bounds the
                depth of that recursion: std_err -> variances -> proportions -> counts / bases);
     [asm_matrix]  `self._assemble_matrix(blocks)` AS THE EVALUATION OF THE GENERATED TERM
                [asm_Slice__assemble_matrix] (Gen/AssembleSrc.v through [aeval] of Base/AsmExp.v) on the
                value np.block is handed: the 2 x 2 nested list of the four arrays WITH their shapes,
                under the two signed display orders of the context.

   The only conventions of this file (TRUSTED, they mirror the tables of the translators):
     * measure name -> generated definitions: `self._measures.<m>` is `src_<Stem>_blocks_ij`, the stem
       the translator's own table pairs with m (measures.MATRIX_TARGETS, x_bases' wiring table);
     * member name -> generated definition: `self.<p>` of a slice is `wsrc_Slice_<p>`;
     * a radical measure (np.sqrt at the top: the standard errors, z-scores) is carried as its SIGNED
       SQUARE v*|v| ([meval_sq]), the framework's convention (DESIGN 2.2); the boolean member
       `_Zscores._is_defective` is the evaluation of ITS generated term [src_Zscores__is_defective];
     * the cube-measure leaves: base-shaped arrays by name ([c_cubem]), the scalar flags by name.

   A context ([pctx]) holds what a partition is built from: sizes, the subtotals of the two dimensions
   (addend / subtrahend offsets), the categorical-date flags, the cube-measure arrays, the two signed
   display orders.  Proofs/ComposePublicSlice.v instantiates the arrays with the ones Model/CubeCounts.v
   extracts from the flat payload of `tabulate S`; Proofs/ComposePublicChain*.v compose the measure links,
   Proofs/ComposePublicLinks.v the assembly and wiring links, Proofs/ComposePublicC03 / C11 / C12 / C16 / C02.v
   the end-to-end theorems.  The strand twin of this file is the first part of Proofs/ComposePublicStrand.v.

   DEPENDENCIES: this file imports no file that states an obligation about a generated MEASURE term (only the
   standard environments GenAgreeMeasTac / GenAgreeBasesTac and GenAgreeAssemble for [env_slice] / [blocks_val]),
   so that a composed theorem depends on the link lemmas of its own chain only. *)
From Coq Require Import QArith ZArith List Bool Lia Arith String.
From CC Require Import Base.XQ Base.ListX Base.WiringExp Model.Subtotals Model.Proportions.
From CC Require Base.MeasureExp Base.BasesExp Base.AsmExp Model.Assemble
     Gen.WiringSrc Gen.MeasureSrc Gen.BasesSrc Gen.AssembleSrc
     Proofs.GenAgreeMeasTac Proofs.GenAgreeBasesTac Proofs.GenAgreeAssemble.
Import ListNotations.
Local Close Scope Q_scope.
Local Open Scope string_scope.
Local Open Scope nat_scope.
Local Infix "=s" := String.eqb (at level 70).

(* ------------------------------------------------------------------------------------ *)
(** * values *)

(* a 2-D array: shape and rows *)
Definition smat : Type := (nat * nat * mat)%type.
Definition sm_rows (s : smat) : mat := snd s.

(* the value of a public member *)
Inductive pval :=
| PErr                                   (* outside the interpreted sub-language / numpy raises *)
| PNone
| PMat (nr nc : nat) (M : mat)
| PVec (l : list xq).

Definition pmap (h : xq -> xq) (v : pval) : pval :=
  match v with
  | PMat r c M => PMat r c (map (map h) M)
  | PVec l => PVec (map h l)
  | _ => PErr
  end.

Definition is_some {A} (o : option A) : bool := match o with Some _ => true | None => false end.
(* [need b P]: P as far as the generated terms it is about are available -- the
   `match src_.. with Some e => .. | None => True end` of the GenAgree lemmas, for several terms *)
Definition need (b : bool) (P : Prop) : Prop := if b then P else True.

(* ------------------------------------------------------------------------------------ *)
(** * the context of a slice *)

Record pctx := mkPctx {
  c_nr : nat; c_nc : nat;                          (* valid row / column elements *)
  c_rsubs : list subtotal; c_csubs : list subtotal;
  c_rd : bool; c_cd : bool;                        (* rows / columns dimension is CAT_DATE *)
  c_cubem : string -> string -> mat;               (* self._cube_measures.<c>.<a>, base-shaped *)
  c_cubeflag : string -> string -> bool;           (* ... .diff_nans *)
  c_flag : string -> bool;                         (* boolean members a term keeps opaque *)
  c_cmr : bool;                                    (* the baseline is (rows, columns): MR columns *)
  c_baseline : nat -> nat -> xq;                   (* unconditional_cube_counts.baseline *)
  c_ucolbase : list xq;                            (* unweighted_cube_counts.columns_base *)
  c_urowbase : list xq;                            (* unweighted_cube_counts.rows_base *)
  c_ro : list Z; c_co : list Z }.                  (* _row_order_signed_indexes, _column_... *)

(* ------------------------------------------------------------------------------------ *)
(** * measure name -> generated block terms *)

(* how the blocks of a measure are given: which translator read them and in which standard
   environment their GenAgree lemmas are stated *)
Inductive mkind :=
| KMat        (* mexp, [meval],    menv_mat *)
| KMatSq      (* mexp, [meval_sq], menv_mat: the signed square of a radical measure *)
| KIndex      (* mexp, [meval],    menv_std with the baseline ([index_cube]) *)
| KZ          (* mexp, [meval_sq], menv_mat in which the boolean member `_is_defective` is the EVALUATION of
                 its own generated term [src_Zscores__is_defective] *)
| KBase       (* bexp, [beval],    benv_std, no 1-D cube-measure attribute *)
| KBaseUC     (* bexp, [beval],    benv_std with unweighted_cube_counts.columns_base *)
| KBaseUR.    (* bexp, [beval],    benv_std with unweighted_cube_counts.rows_base *)

Inductive mterm := TM (e : MeasureExp.mexp) | TB (e : BasesExp.bexp).

Definition otm (o : option MeasureExp.mexp) : option mterm :=
  match o with Some e => Some (TM e) | None => None end.
Definition otb (o : option BasesExp.bexp) : option mterm :=
  match o with Some e => Some (TB e) | None => None end.

Definition pick4 {A} (a b c d : A) (dflt : A) (bi bj : nat) : A :=
  match bi, bj with
  | 0, 0 => a | 0, 1 => b | 1, 0 => c | 1, 1 => d | _, _ => dflt
  end.

Import CC.Gen.MeasureSrc CC.Gen.BasesSrc.

(* `self._measures.<m>` : the translators' own pairing of measure names with definition stems *)
Definition measure_src (m : string) : option (mkind * (nat -> nat -> option mterm)) :=
  if m =s "weighted_counts" then
    Some (KMat, pick4 (otm src_WeightedCounts_blocks_00) (otm src_WeightedCounts_blocks_01)
                      (otm src_WeightedCounts_blocks_10) (otm src_WeightedCounts_blocks_11) None)
  else if m =s "row_proportions" then
    Some (KMat, pick4 (otm src_RowProportions_blocks_00) (otm src_RowProportions_blocks_01)
                      (otm src_RowProportions_blocks_10) (otm src_RowProportions_blocks_11) None)
  else if m =s "column_proportions" then
    Some (KMat, pick4 (otm src_ColumnProportions_blocks_00) (otm src_ColumnProportions_blocks_01)
                      (otm src_ColumnProportions_blocks_10) (otm src_ColumnProportions_blocks_11) None)
  else if m =s "table_proportions" then
    Some (KMat, pick4 (otm src_TableProportions_blocks_00) (otm src_TableProportions_blocks_01)
                      (otm src_TableProportions_blocks_10) (otm src_TableProportions_blocks_11) None)
  else if m =s "row_proportion_variances" then
    Some (KMat, pick4 (otm src_RowProportionVariances_blocks_00) (otm src_RowProportionVariances_blocks_01)
                      (otm src_RowProportionVariances_blocks_10) (otm src_RowProportionVariances_blocks_11) None)
  else if m =s "column_proportion_variances" then
    Some (KMat, pick4 (otm src_ColumnProportionVariances_blocks_00) (otm src_ColumnProportionVariances_blocks_01)
                      (otm src_ColumnProportionVariances_blocks_10) (otm src_ColumnProportionVariances_blocks_11) None)
  else if m =s "table_proportion_variances" then
    Some (KMat, pick4 (otm src_TableProportionVariances_blocks_00) (otm src_TableProportionVariances_blocks_01)
                      (otm src_TableProportionVariances_blocks_10) (otm src_TableProportionVariances_blocks_11) None)
  else if m =s "row_std_err" then
    Some (KMatSq, pick4 (otm src_RowStandardError_blocks_00) (otm src_RowStandardError_blocks_01)
                        (otm src_RowStandardError_blocks_10) (otm src_RowStandardError_blocks_11) None)
  else if m =s "column_std_err" then
    Some (KMatSq, pick4 (otm src_ColumnStandardError_blocks_00) (otm src_ColumnStandardError_blocks_01)
                        (otm src_ColumnStandardError_blocks_10) (otm src_ColumnStandardError_blocks_11) None)
  else if m =s "table_std_err" then
    Some (KMatSq, pick4 (otm src_TableStandardError_blocks_00) (otm src_TableStandardError_blocks_01)
                        (otm src_TableStandardError_blocks_10) (otm src_TableStandardError_blocks_11) None)
  else if m =s "zscores" then
    Some (KZ, pick4 (otm src_Zscores_blocks_00) (otm src_Zscores_blocks_01)
                        (otm src_Zscores_blocks_10) (otm src_Zscores_blocks_11) None)
  else if m =s "column_index" then
    Some (KIndex, pick4 (otm src_ColumnIndex_blocks_00) (otm src_ColumnIndex_blocks_01)
                        (otm src_ColumnIndex_blocks_10) (otm src_ColumnIndex_blocks_11) None)
  else if m =s "row_weighted_bases" then
    Some (KBase, pick4 (otb src_RowWeightedBases_blocks_00) (otb src_RowWeightedBases_blocks_01)
                       (otb src_RowWeightedBases_blocks_10) (otb src_RowWeightedBases_blocks_11) None)
  else if m =s "column_weighted_bases" then
    Some (KBase, pick4 (otb src_ColumnWeightedBases_blocks_00) (otb src_ColumnWeightedBases_blocks_01)
                       (otb src_ColumnWeightedBases_blocks_10) (otb src_ColumnWeightedBases_blocks_11) None)
  else if m =s "table_weighted_bases" then
    Some (KBase, pick4 (otb src_TableWeightedBases_blocks_00) (otb src_TableWeightedBases_blocks_01)
                       (otb src_TableWeightedBases_blocks_10) (otb src_TableWeightedBases_blocks_11) None)
  else if m =s "row_unweighted_bases" then
    Some (KBaseUR, pick4 (otb src_RowUnweightedBases_blocks_00) (otb src_RowUnweightedBases_blocks_01)
                       (otb src_RowUnweightedBases_blocks_10) (otb src_RowUnweightedBases_blocks_11) None)
  else if m =s "column_unweighted_bases" then
    Some (KBaseUC, pick4 (otb src_ColumnUnweightedBases_blocks_00) (otb src_ColumnUnweightedBases_blocks_01)
                       (otb src_ColumnUnweightedBases_blocks_10) (otb src_ColumnUnweightedBases_blocks_11) None)
  else if m =s "table_unweighted_bases" then
    Some (KBase, pick4 (otb src_TableUnweightedBases_blocks_00) (otb src_TableUnweightedBases_blocks_01)
                       (otb src_TableUnweightedBases_blocks_10) (otb src_TableUnweightedBases_blocks_11) None)
  else None.

(* ------------------------------------------------------------------------------------ *)
(** * `self._measures.<m>.blocks[bi][bj]`: the evaluation of the generated term *)

Definition smat_of_mval (E : MeasureExp.menv) (v : MeasureExp.mval) : option smat :=
  match v with
  | MeasureExp.VMat r c f =>
      Some (MeasureExp.e_size E r, MeasureExp.e_size E c,
            tab2 (MeasureExp.e_size E r) (MeasureExp.e_size E c) f)
  | _ => None
  end.
Definition smat_of_bval (v : BasesExp.bval) : option smat :=
  match v with
  | BasesExp.WMat r c f => Some (r, c, tab2 r c f)
  | _ => None
  end.

(* the standard environments of the GenAgree lemmas, on the context [C] and the blocks [blk] of
   the other measures *)
Definition menv_of (C : pctx) (blk : string -> nat -> nat -> mat) : MeasureExp.menv :=
  GenAgreeMeasTac.menv_mat (c_nr C) (c_nc C) (c_rsubs C) (c_csubs C) (c_rd C) (c_cd C) blk
                           (c_cubem C) (c_cubeflag C) (c_flag C).
(* the cube-measure leaves of the column index: only the baseline, (rows, columns) for MR columns and
   (rows, 1) otherwise -- the same function as GenAgreeIndex.index_cube (kept here so that this file does
   not depend on the obligations of C16) *)
Definition index_cube_of (cmr : bool) (bl : nat -> nat -> xq) (c a : string) : MeasureExp.mval :=
  if String.eqb c "unconditional_cube_counts" && String.eqb a "baseline"
  then (if cmr then MeasureExp.VMat MeasureExp.DR MeasureExp.DC bl
        else MeasureExp.VMat MeasureExp.DR MeasureExp.D1 bl)
  else MeasureExp.VErr.
Definition menv_index_of (C : pctx) (blk : string -> nat -> nat -> mat) : MeasureExp.menv :=
  GenAgreeMeasTac.menv_std (c_nr C) (c_nc C) (c_rsubs C) (c_csubs C) (c_rd C) (c_cd C) blk
                           (c_cubem C) (index_cube_of (c_cmr C) (c_baseline C))
                           (c_cubeflag C) (c_flag C).
Definition benv_of (C : pctx) (cubev : string -> string -> option BasesExp.bval)
           (blk : string -> nat -> nat -> mat) : BasesExp.benv :=
  GenAgreeBasesTac.benv_std (c_nr C) (c_nc C) (c_rsubs C) (c_csubs C) (c_cubem C) cubev
                            (c_cubeflag C) blk GenAgreeBasesTac.no_mblk GenAgreeBasesTac.no_mflag.
Definition cubev_uc (C : pctx) : string -> string -> option BasesExp.bval :=
  GenAgreeBasesTac.cv1 "unweighted_cube_counts" "columns_base" (BasesExp.WVec (c_nc C) (vnth (c_ucolbase C))).
Definition cubev_ur (C : pctx) : string -> string -> option BasesExp.bval :=
  GenAgreeBasesTac.cv1 "unweighted_cube_counts" "rows_base" (BasesExp.WVec (c_nr C) (vnth (c_urowbase C))).

(* `self._is_defective` of _Zscores: the evaluation of its generated term *)
Definition defective_of (C : pctx) (blk : string -> nat -> nat -> mat) : option bool :=
  match src_Zscores__is_defective with
  | Some c => MeasureExp.ceval (menv_of C blk) c
  | None => None
  end.
Definition menv_z_of (C : pctx) (blk : string -> nat -> nat -> mat) (d : bool) : MeasureExp.menv :=
  GenAgreeMeasTac.menv_mat (c_nr C) (c_nc C) (c_rsubs C) (c_csubs C) (c_rd C) (c_cd C) blk
                           (c_cubem C) (c_cubeflag C)
                           (fun s => if s =s "_is_defective" then d else c_flag C s).

Definition eval_block (C : pctx) (blk : string -> nat -> nat -> mat) (k : mkind) (t : mterm)
  : option smat :=
  match k, t with
  | KMat, TM e => smat_of_mval (menv_of C blk) (MeasureExp.meval (menv_of C blk) e)
  | KMatSq, TM e => smat_of_mval (menv_of C blk) (MeasureExp.meval_sq (menv_of C blk) e)
  | KIndex, TM e => smat_of_mval (menv_index_of C blk) (MeasureExp.meval (menv_index_of C blk) e)
  | KZ, TM e =>
      match defective_of C blk with
      | Some d => smat_of_mval (menv_z_of C blk d) (MeasureExp.meval_sq (menv_z_of C blk d) e)
      | None => None
      end
  | KBase, TB e => smat_of_bval (BasesExp.beval (benv_of C GenAgreeBasesTac.cv0 blk) e)
  | KBaseUC, TB e => smat_of_bval (BasesExp.beval (benv_of C (cubev_uc C) blk) e)
  | KBaseUR, TB e => smat_of_bval (BasesExp.beval (benv_of C (cubev_ur C) blk) e)
  | _, _ => None
  end.

Definition rows_or_nil (o : option smat) : mat := match o with Some s => sm_rows s | None => [] end.

Fixpoint gen_blk (fuel : nat) (C : pctx) (m : string) (bi bj : nat) : option smat :=
  match fuel with
  | 0 => None
  | S f =>
      match measure_src m with
      | Some (k, t) =>
          match t bi bj with
          | Some e => eval_block C (fun m' i j => rows_or_nil (gen_blk f C m' i j)) k e
          | None => None
          end
      | None => None
      end
  end.

(* deep enough for every measure of [measure_src] *)
Definition chain_fuel : nat := 6.

(* ------------------------------------------------------------------------------------ *)
(** * the assembly: evaluation of the generated terms of x_assemble *)

Definition aval := AsmExp.aval xq.
Definition no_lit (_ : bool) : option xq := None.
Definition no_truthy (_ : xq) : bool := false.

Definition aval_of_smat (s : smat) : aval :=
  match s with (r, c, M) => AsmExp.VMat r c M end.

(* `self._measures.<m>.blocks`: [[base, subtotal columns], [subtotal rows, intersections]] *)
Definition blocks_aval (C : pctx) (m : string) : option aval :=
  match gen_blk chain_fuel C m 0 0, gen_blk chain_fuel C m 0 1,
        gen_blk chain_fuel C m 1 0, gen_blk chain_fuel C m 1 1 with
  | Some a, Some b, Some c, Some d =>
      Some (AsmExp.VSeq [AsmExp.VSeq [aval_of_smat a; aval_of_smat b];
                         AsmExp.VSeq [aval_of_smat c; aval_of_smat d]])
  | _, _, _, _ => None
  end.

(* self._assemble_matrix(blocks) *)
Definition asm_matrix (C : pctx) (blocks : aval) : aval :=
  match AssembleSrc.asm_Slice__assemble_matrix with
  | Some e =>
      AsmExp.aeval xq NaN no_lit no_truthy
                   (GenAgreeAssemble.env_slice [("blocks", blocks)] (c_ro C) (c_co C)) e
  | None => AsmExp.VErr
  end.

Definition pval_of_aval (v : aval) : pval :=
  match v with
  | AsmExp.VMat r c M => PMat r c M
  | AsmExp.VVec l => PVec l
  | AsmExp.VNone => PNone
  | _ => PErr
  end.

(* ------------------------------------------------------------------------------------ *)
(** * the wiring terms *)

Import CC.Gen.WiringSrc.

(* `self.<p>` of a slice *)
Definition slice_member (p : string) : option wexp :=
  if p =s "counts" then wsrc_Slice_counts
  else if p =s "row_proportions" then wsrc_Slice_row_proportions
  else if p =s "column_proportions" then wsrc_Slice_column_proportions
  else if p =s "table_proportions" then wsrc_Slice_table_proportions
  else if p =s "row_percentages" then wsrc_Slice_row_percentages
  else if p =s "column_percentages" then wsrc_Slice_column_percentages
  else if p =s "table_percentages" then wsrc_Slice_table_percentages
  else if p =s "row_std_err" then wsrc_Slice_row_std_err
  else if p =s "column_std_err" then wsrc_Slice_column_std_err
  else if p =s "table_std_err" then wsrc_Slice_table_std_err
  else if p =s "row_proportion_variances" then wsrc_Slice_row_proportion_variances
  else if p =s "column_proportion_variances" then wsrc_Slice_column_proportion_variances
  else if p =s "table_proportion_variances" then wsrc_Slice_table_proportion_variances
  else if p =s "zscores" then wsrc_Slice_zscores
  else if p =s "column_index" then wsrc_Slice_column_index
  else if p =s "row_weighted_bases" then wsrc_Slice_row_weighted_bases
  else if p =s "column_weighted_bases" then wsrc_Slice_column_weighted_bases
  else if p =s "table_weighted_bases" then wsrc_Slice_table_weighted_bases
  else if p =s "row_unweighted_bases" then wsrc_Slice_row_unweighted_bases
  else if p =s "column_unweighted_bases" then wsrc_Slice_column_unweighted_bases
  else if p =s "table_unweighted_bases" then wsrc_Slice_table_unweighted_bases
  else None.

Fixpoint weval (fuel : nat) (C : pctx) (w : wexp) : pval :=
  match fuel with
  | 0 => PErr
  | S f =>
      match w with
      | WCall (WSelf fn) [WAttr (WAttr (WSelf ms) m) b] [] =>
          if (fn =s "_assemble_matrix") && (ms =s "_measures") && (b =s "blocks")
          then match blocks_aval C m with
               | Some v => pval_of_aval (asm_matrix C v)
               | None => PErr
               end
          else PErr
      | WBin op a (WInt z) =>
          if op =s "*" then pmap (fun x => xmul x (Fin (inject_Z z))) (weval f C a) else PErr
      | WSelf p =>
          match slice_member p with
          | Some w' => weval f C w'
          | None => PErr
          end
      | _ => PErr
      end
  end.

Definition wiring_fuel : nat := 4.

(* the value of the public member [p] of the slice [C] *)
Definition public_slice (C : pctx) (p : string) : pval :=
  match slice_member p with
  | Some w => weval wiring_fuel C w
  | None => PErr
  end.

(* ------------------------------------------------------------------------------------ *)
(** * reading a cell *)

Definition pcell (v : pval) (i j : nat) : xq :=
  match v with PMat _ _ M => mnth M i j | _ => NaN end.
Definition pshape (v : pval) : option (nat * nat) :=
  match v with PMat r c _ => Some (r, c) | _ => None end.

Lemma need_elim (b : bool) (P : Prop) : b = true -> need b P -> P.
Proof. intros ->. exact (fun H => H). Qed.

(* cells up to reduction of the fractions (for the concrete examples) *)
Definition pred (v : pval) : pval := pmap xred v.
