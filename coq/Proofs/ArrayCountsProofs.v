(* Proofs/ArrayCountsProofs.v -- C01 for cubes with a CATEGORICAL ARRAY: the count classes of
   matrix/cubemeasure.py with an array dimension (_ArrXCat, _CatXArr, _ArrXMr, _MrXArr,
   _ArrXArr) applied to the tensor of a survey are respondent-level weighted counts.

   An array contributes two dimensions to a cube: S = its items (CA_SUBVAR, class "ARR") and
   C = its categories (CA_CAT, class "CAT").  With at most one other variable X (categorical
   or MR) a cube of at most three apparent dimensions has one of the eight axis orders of
   Spec/SurveyArray.v [ca_layout]; the last two apparent dimensions decide the class:

       S C      Arr x Cat            C S      Cat x Arr                (2-D, the array alone)
       X S C    Arr x Cat            X C S    Cat x Arr                (partition k = element k of X)
       C S X    Arr x Cat | Arr x Mr C X S    Cat x Arr | Mr x Arr     (partition k = CATEGORY k)
       S C X    Cat x Cat | Cat x Mr S X C    Cat x Cat | Mr x Cat     (partition k = ITEM k)

   [ca_slice l ...] is what _BaseCubeCounts.factory hands to the class: tensor of the survey in
   the payload's axis order -> Cube._valid_idxs -> _slice_idx_expr (same pipeline as
   [slice_of] of Proofs/CubeCountsProofs.v).

   Results (l, kw = kind of X, k = partition, i = row, j = column):
     group A (S C | X S C, and transposed): cell (item i, category c) = respondents of table
             element k who gave category c on item i;
     group B (C S X, C X S): cell (item i, X element j) of the table of CATEGORY k =
             respondents who gave category k on item i and belong to j;
     group C (S C X, S X C): the partition of item k IS the 2-D cube of that item as a
             categorical variable ([ca_slice_item_is_cat_cube]) -- every Cat/MR theorem applies;
     Arr x Arr: no cube of at most three dimensions reaches the class ([arr_arr_needs_four_dims]);
             class-level statement for any tensor with the two-array meaning. *)
From Coq Require Import QArith ZArith List Bool Lia Arith Btauto Setoid Morphisms.
From CC Require Import Base.XQ Base.ListX Spec.Survey Spec.SurveyArray Model.CubeCounts
     Proofs.CubeCountsProofs.
Import ListNotations.
Local Close Scope Q_scope.
Local Open Scope nat_scope.

(* ------------------------------------------------------------------------------------ *)
(** * The dimensions of the response and the slice tensor *)

Definition dS (mi : list bool) : dimd := mkDim DCaSubvar mi.     (* CA_SUBVAR *)
Definition dC (mc : list bool) : dimd := mkDim DCat mc.          (* CA_CAT    *)

Definition lay_dims (l : ca_layout) (mi mc : list bool) (kw : kind) (mw : list bool) : list dimd :=
  match l with
  | L_SC => [dS mi; dC mc]
  | L_CS => [dC mc; dS mi]
  | L_XSC => dims_of kw mw ++ [dS mi; dC mc]
  | L_XCS => dims_of kw mw ++ [dC mc; dS mi]
  | L_CSX => dC mc :: dS mi :: dims_of kw mw
  | L_CXS => dC mc :: dims_of kw mw ++ [dS mi]
  | L_SCX => dS mi :: dC mc :: dims_of kw mw
  | L_SXC => dS mi :: dims_of kw mw ++ [dC mc]
  end.

(* cube.dimension_types[0] == DT.MR *)
Definition lay_table_mr (l : ca_layout) (kw : kind) : bool :=
  match l, kw with L_XSC, KMr | L_XCS, KMr => true | _, _ => false end.

Definition ca_raw (l : ca_layout) (v w : nat) (kw : kind) (S : survey) : tensor :=
  fun idx => Fin (ca_tabulate l v w kw S idx).

Definition ca_slice (l : ca_layout) v mi mc w kw mw (S : survey) (k : nat) : tensor :=
  let ds := lay_dims l mi mc kw mw in
  slice_at (length (apparent ds)) (lay_table_mr l kw) k (take_valid ds (ca_raw l v w kw S)).

(* the class pair _BaseCubeCounts.factory picks, the numbers of rows / columns / partitions *)
Definition lay_rcls (l : ca_layout) (kw : kind) : cls :=
  match l with
  | L_SC | L_XSC | L_CSX => CArr
  | L_CS | L_XCS | L_SCX => CCat
  | L_CXS | L_SXC => kcls kw
  end.
Definition lay_ccls (l : ca_layout) (kw : kind) : cls :=
  match l with
  | L_SC | L_XSC | L_SXC => CCat
  | L_CS | L_XCS | L_CXS => CArr
  | L_CSX | L_SCX => kcls kw
  end.
Definition lay_nr (l : ca_layout) (mi mc mw : list bool) : nat :=
  match l with
  | L_SC | L_XSC | L_CSX => nval mi
  | L_CS | L_XCS | L_SCX => nval mc
  | L_CXS | L_SXC => nval mw
  end.
Definition lay_nc (l : ca_layout) (mi mc mw : list bool) : nat :=
  match l with
  | L_SC | L_XSC | L_SXC => nval mc
  | L_CS | L_XCS | L_CXS => nval mi
  | L_CSX | L_SCX => nval mw
  end.
Definition lay_nt (l : ca_layout) (mi mc mw : list bool) : nat :=
  match l with
  | L_SC | L_CS => 1
  | L_XSC | L_XCS => nval mw
  | L_CSX | L_CXS => nval mc
  | L_SCX | L_SXC => nval mi
  end.

Lemma cat_or_mr_not_arr kw : cat_or_mr kw -> kw <> KArr.
Proof. intros [-> | ->]; discriminate. Qed.

(* the model's own reading of the dimension list agrees: class pair, sizes, slicing rule *)
Lemma lay_slice_info l mi mc kw mw :
  cat_or_mr kw ->
  exists si, slice_info_of (lay_dims l mi mc kw mw) = Some si /\
    si_ndim si = length (apparent (lay_dims l mi mc kw mw)) /\
    si_table_mr si = lay_table_mr l kw /\
    cls_of (si_row si) = lay_rcls l kw /\ cls_of (si_col si) = lay_ccls l kw /\
    nvalid (si_row si) = lay_nr l mi mc mw /\ nvalid (si_col si) = lay_nc l mi mc mw /\
    n_partitions (lay_dims l mi mc kw mw) false = lay_nt l mi mc mw.
Proof.
  intros [-> | ->]; destruct l; eexists; (split; [reflexivity|]); repeat split.
Qed.

(* ------------------------------------------------------------------------------------ *)
(** * Sums of cells *)

Lemma xsumn_cells S n (f : nat -> xq) (g : nat -> Q) (P : nat -> resp -> bool) (R : resp -> bool) :
  (forall k, k < n -> f k = Fin (g k)) ->
  (forall k, k < n -> (g k == wsum S (P k))%Q) ->
  (forall r, In r S -> (qsumn n (fun k => ind (P k r)) == ind (R r))%Q) ->
  xsumn n f =x= Fin (wsum S R).
Proof.
  intros Hf Hg HP. rewrite (xsumn_Fin n f g Hf). simpl.
  rewrite (qsumn_ext n g (fun k => wsum S (P k)) Hg).
  unfold wsum. rewrite gsum_qsumn. apply gsum_ext. exact HP.
Qed.

Lemma cell_eq S (x : xq) (g : Q) (P : resp -> bool) :
  x = Fin g -> (g == wsum S P)%Q -> x =x= Fin (wsum S P).
Proof. intros -> H. exact H. Qed.

(* the X part of a payload index: element x of X (an MR element: its SELECTED plane) *)
Definition xsel (kw : kind) (mw : list bool) (x : nat) : list nat :=
  match kw with KCat => [nth x (valid_idxs mw) 0] | _ => [nth x (valid_idxs mw) 0; 0] end.

Lemma xsel_length kw mw x : cat_or_mr kw -> length (xsel kw mw x) = arity kw.
Proof. intros [-> | ->]; reflexivity. Qed.

Lemma contributes_xsel kw mw a x :
  cat_or_mr kw -> x < nval mw -> contributes kw a (xsel kw mw x) = in_el kw mw a x.
Proof.
  intros [-> | ->] Hx; simpl.
  - unfold in_cat. unfold nval in Hx. rewrite (ltb_true _ _ Hx). reflexivity.
  - unfold in_mr. destruct (mstate a (nth x (valid_idxs mw) 0)); reflexivity.
Qed.

(* summing a categorical X over its valid categories / an MR item over its two valid states *)
Lemma x_cat_sum mw a (g : bool) :
  (qsumn (nval mw) (fun j => ind (g && contributes KCat a [nth j (valid_idxs mw) O]))
   == ind (g && ok_cat mw a))%Q.
Proof. apply (qsumn_ind_onehot mw (acat a) g). intros j. reflexivity. Qed.

Lemma x_mr_sum mw a x (g : bool) :
  (qsumn (length mrv) (fun s => ind (g && contributes KMr a [nth x (valid_idxs mw) O; nth s mrv O]))
   == ind (g && ok_mr mw a x))%Q.
Proof.
  change (length mrv) with 2. rewrite qsumn_2. unfold ok_mr. simpl.
  destruct (mstate a (nth x (valid_idxs mw) 0)), g; ind_done.
Qed.

(* summing the cells of an item over the valid categories *)
Lemma in_arr_sum' mi mc a i (g : bool) :
  i < nval mi ->
  (qsumn (nval mc) (fun c => ind (g && in_arr mi mc a i c)) == ind (g && ok_arr mi mc a i))%Q.
Proof.
  intros Hi. rewrite <- (in_arr_sum mi mc a i g Hi). apply qsumn_ext. intros c Hc.
  rewrite (in_arr_gave mi mc a i c Hi Hc). reflexivity.
Qed.

(* ------------------------------------------------------------------------------------ *)
(** * Group A: the array alone (2-D) or under a table variable X (3-D) *)

(* the sub-population of partition k *)
Definition lay_pop (l : ca_layout) (kw : kind) (mw : list bool) (a : answer) (k : nat) : bool :=
  if lay_has_x l then in_el kw mw a k else true.
Definition lay_txs (l : ca_layout) (kw : kind) (mw : list bool) (k : nat) : list nat :=
  if lay_has_x l then xsel kw mw k else [].

Definition rows_items (l : ca_layout) : Prop := l = L_SC \/ l = L_XSC.     (* Arr x Cat *)
Definition cols_items (l : ca_layout) : Prop := l = L_CS \/ l = L_XCS.     (* Cat x Arr *)

Lemma x_part_pop l kw mw a k :
  cat_or_mr kw -> (lay_has_x l = true -> k < nval mw) ->
  x_part l kw a (lay_txs l kw mw k) = lay_pop l kw mw a k.
Proof.
  intros Hw Hk. unfold x_part, lay_txs, lay_pop. destruct (lay_has_x l); [|reflexivity].
  apply contributes_xsel; [exact Hw| apply Hk; reflexivity].
Qed.

Lemma lay_txs_length l kw mw k :
  cat_or_mr kw -> length (lay_txs l kw mw k) = (if lay_has_x l then arity kw else 0).
Proof. intros Hw. unfold lay_txs. destruct (lay_has_x l); [apply xsel_length; exact Hw| reflexivity]. Qed.

Section GroupA.
  Variable S : survey.
  Variable l : ca_layout.
  Variables v w : nat.
  Variable kw : kind.
  Variables mi mc mw : list bool.
  Variable k : nat.
  Hypothesis Hw : cat_or_mr kw.
  Hypothesis Hk : k < lay_nt l mi mc mw.
  Let V := ca_slice l v mi mc w kw mw S k.
  Let vi := valid_idxs mi.
  Let vc := valid_idxs mc.

  (* the cell (payload item pi, payload category pc) of partition k *)
  Let cellq (pi pc : nat) : Q := ca_tabulate l v w kw S (lay_index l pi pc (lay_txs l kw mw k)).

  Lemma groupA_has_x : rows_items l \/ cols_items l -> lay_has_x l = true -> k < nval mw.
  Proof. intros [[-> | ->] | [-> | ->]] H; simpl in *; try discriminate; exact Hk. Qed.

  Lemma groupA_cellq i c : rows_items l \/ cols_items l -> i < nval mi -> c < nval mc ->
    (cellq (nth i vi O) (nth c vc O)
     == wsum S (fun r => lay_pop l kw mw (ans r w) k && in_arr mi mc (ans r v) i c))%Q.
  Proof.
    intros Hl Hi Hc. unfold cellq.
    rewrite (ca_tabulate_cell l v w kw S _ _ _ (cat_or_mr_not_arr kw Hw) (lay_txs_length l kw mw k Hw)).
    apply wsum_ext. intros r _.
    rewrite (x_part_pop l kw mw (ans r w) k Hw (groupA_has_x Hl)).
    rewrite (in_arr_gave mi mc (ans r v) i c Hi Hc). apply andb_comm.
  Qed.

  (* rows = items *)
  Lemma rowsA_cell i j : rows_items l -> V [i; j] = Fin (cellq (nth i vi 0) (nth j vc 0)).
  Proof. intros [E | E]; destruct Hw as [E' | E']; subst l kw; reflexivity. Qed.

  Lemma rowsA_counts i c : rows_items l -> i < nval mi -> c < nval mc ->
    ac_counts V i c =x=
    Fin (wsum S (fun r => lay_pop l kw mw (ans r w) k && in_arr mi mc (ans r v) i c)).
  Proof.
    intros Hl Hi Hc. unfold ac_counts.
    exact (cell_eq S _ _ _ (rowsA_cell i c Hl) (groupA_cellq i c (or_introl Hl) Hi Hc)).
  Qed.

  Lemma rowsA_rows_base i : rows_items l -> i < nval mi ->
    ac_rows_base V (nval mc) i =x=
    Fin (wsum S (fun r => lay_pop l kw mw (ans r w) k && ok_arr mi mc (ans r v) i)).
  Proof.
    intros Hl Hi. unfold ac_rows_base.
    apply (xsumn_cells S (nval mc) _ (fun c => cellq (nth i vi 0) (nth c vc 0))
             (fun c r => lay_pop l kw mw (ans r w) k && in_arr mi mc (ans r v) i c)).
    - intros c _. apply rowsA_cell. exact Hl.
    - intros c Hc. apply groupA_cellq; [left; exact Hl| exact Hi| exact Hc].
    - intros r _. apply in_arr_sum'. exact Hi.
  Qed.

  (* columns = items *)
  Lemma colsA_cell i j : cols_items l -> V [i; j] = Fin (cellq (nth j vi 0) (nth i vc 0)).
  Proof. intros [E | E]; destruct Hw as [E' | E']; subst l kw; reflexivity. Qed.

  Lemma colsA_counts c i : cols_items l -> i < nval mi -> c < nval mc ->
    ca_counts V c i =x=
    Fin (wsum S (fun r => lay_pop l kw mw (ans r w) k && in_arr mi mc (ans r v) i c)).
  Proof.
    intros Hl Hi Hc. unfold ca_counts.
    exact (cell_eq S _ _ _ (colsA_cell c i Hl) (groupA_cellq i c (or_intror Hl) Hi Hc)).
  Qed.

  Lemma colsA_columns_base i : cols_items l -> i < nval mi ->
    ca_columns_base V (nval mc) i =x=
    Fin (wsum S (fun r => lay_pop l kw mw (ans r w) k && ok_arr mi mc (ans r v) i)).
  Proof.
    intros Hl Hi. unfold ca_columns_base.
    apply (xsumn_cells S (nval mc) _ (fun c => cellq (nth i vi 0) (nth c vc 0))
             (fun c r => lay_pop l kw mw (ans r w) k && in_arr mi mc (ans r v) i c)).
    - intros c _. apply colsA_cell. exact Hl.
    - intros c Hc. apply groupA_cellq; [right; exact Hl| exact Hi| exact Hc].
    - intros r _. apply in_arr_sum'. exact Hi.
  Qed.
End GroupA.

(* the statements in terms of the factory dispatch *)
Section GroupADispatch.
  Variable S : survey.
  Variable l : ca_layout.
  Variables v w : nat.
  Variable kw : kind.
  Variables mi mc mw : list bool.
  Variable k : nat.
  Hypothesis Hw : cat_or_mr kw.
  Hypothesis Hk : k < lay_nt l mi mc mw.
  Let V := ca_slice l v mi mc w kw mw S k.

  (* ARR x CAT, rows = items i, columns = categories c of the same array *)
  Theorem arr_rows_counts i c : rows_items l -> i < nval mi -> c < nval mc ->
    counts_of V CArr CCat i c =x=
    Fin (wsum S (fun r => lay_pop l kw mw (ans r w) k && in_arr mi mc (ans r v) i c)).
  Proof. intros Hl Hi Hc. exact (rowsA_counts S l v w kw mi mc mw k Hw Hk i c Hl Hi Hc). Qed.

  (* CAT x ARR, rows = categories c, columns = items i *)
  Theorem arr_cols_counts c i : cols_items l -> c < nval mc -> i < nval mi ->
    counts_of V CCat CArr c i =x=
    Fin (wsum S (fun r => lay_pop l kw mw (ans r w) k && in_arr mi mc (ans r v) i c)).
  Proof. intros Hl Hc Hi. exact (colsA_counts S l v w kw mi mc mw k Hw Hk c i Hl Hi Hc). Qed.
End GroupADispatch.

(* ------------------------------------------------------------------------------------ *)
(** * Group B: the array's categories are the table dimension (C S X, C X S) *)

Section GroupB.
  Variable S : survey.
  Variables v w : nat.
  Variable kw : kind.
  Variables mi mc mw : list bool.
  Variable k : nat.                      (* partition = k-th valid CATEGORY of the array *)
  Hypothesis Hw : cat_or_mr kw.
  Hypothesis Hk : k < nval mc.
  Let vi := valid_idxs mi.
  Let vc := valid_idxs mc.
  Let vw := valid_idxs mw.

  Lemma groupB_cellq l i xs (P : answer -> bool) :
    lay_has_x l = true -> length xs = arity kw -> i < nval mi ->
    (forall a, contributes kw a xs = P a) ->
    (ca_tabulate l v w kw S (lay_index l (nth i vi O) (nth k vc O) xs)
     == wsum S (fun r => in_arr mi mc (ans r v) i k && P (ans r w)))%Q.
  Proof.
    intros Hx Hl Hi HP.
    rewrite (ca_tabulate_cell l v w kw S _ _ xs (cat_or_mr_not_arr kw Hw)) by (rewrite Hx; exact Hl).
    apply wsum_ext. intros r _. unfold x_part. rewrite Hx, HP.
    rewrite (in_arr_gave mi mc (ans r v) i k Hi Hk). reflexivity.
  Qed.

  (* ---- C S X: rows = items, columns = X ---- *)
  Let V := ca_slice L_CSX v mi mc w kw mw S k.

  Lemma csx_cat_cell i j : kw = KCat ->
    V [i; j] = Fin (ca_tabulate L_CSX v w kw S (lay_index L_CSX (nth i vi 0) (nth k vc 0) [nth j vw 0])).
  Proof. intros E. subst V. rewrite E. reflexivity. Qed.
  Lemma csx_mr_cell i j s : kw = KMr ->
    V [i; j; s] = Fin (ca_tabulate L_CSX v w kw S
                         (lay_index L_CSX (nth i vi 0) (nth k vc 0) [nth j vw 0; nth s mrv 0])).
  Proof. intros E. subst V. rewrite E. reflexivity. Qed.

  Theorem csx_counts i j : i < nval mi -> j < nval mw ->
    counts_of V CArr (kcls kw) i j =x=
    Fin (wsum S (fun r => in_arr mi mc (ans r v) i k && in_el kw mw (ans r w) j)).
  Proof.
    intros Hi Hj. destruct Hw as [E | E].
    - rewrite E at 1. simpl counts_of. unfold ac_counts.
      refine (cell_eq S _ _ _ (csx_cat_cell i j E) _).
      apply (groupB_cellq L_CSX i _ (fun a => in_el kw mw a j)); [reflexivity| rewrite E; reflexivity| exact Hi|].
      intros a. rewrite <- (contributes_xsel kw mw a j Hw Hj). rewrite E. reflexivity.
    - rewrite E at 1. simpl counts_of. unfold am_counts.
      refine (cell_eq S _ _ _ (csx_mr_cell i j 0 E) _).
      apply (groupB_cellq L_CSX i _ (fun a => in_el kw mw a j)); [reflexivity| rewrite E; reflexivity| exact Hi|].
      intros a. rewrite <- (contributes_xsel kw mw a j Hw Hj). rewrite E. reflexivity.
  Qed.

  Theorem csx_row_bases i j : i < nval mi -> j < nval mw ->
    row_bases_of V (nval mw) (length mrv) CArr (kcls kw) i j =x=
    Fin (wsum S (fun r => in_arr mi mc (ans r v) i k && ok_el kw mw (ans r w) j)).
  Proof.
    intros Hi Hj. destruct Hw as [E | E].
    - rewrite E at 1. simpl row_bases_of. unfold ac_rows_base.
      apply (xsumn_cells S (nval mw) _
               (fun j' => ca_tabulate L_CSX v w kw S (lay_index L_CSX (nth i vi 0) (nth k vc 0) [nth j' vw 0]))
               (fun j' r => in_arr mi mc (ans r v) i k && contributes KCat (ans r w) [nth j' vw 0])).
      + intros j' _. apply csx_cat_cell. exact E.
      + intros j' _. apply (groupB_cellq L_CSX i _ (fun a => contributes KCat a [nth j' vw 0]));
          [reflexivity| rewrite E; reflexivity| exact Hi| intros a; rewrite E; reflexivity].
      + intros r _. rewrite E. simpl ok_el. apply x_cat_sum.
    - rewrite E at 1. simpl row_bases_of. unfold am_row_bases.
      apply (xsumn_cells S (length mrv) _
               (fun s => ca_tabulate L_CSX v w kw S
                           (lay_index L_CSX (nth i vi 0) (nth k vc 0) [nth j vw 0; nth s mrv 0]))
               (fun s r => in_arr mi mc (ans r v) i k && contributes KMr (ans r w) [nth j vw 0; nth s mrv 0])).
      + intros s _. apply csx_mr_cell. exact E.
      + intros s _. apply (groupB_cellq L_CSX i _ (fun a => contributes KMr a [nth j vw 0; nth s mrv 0]));
          [reflexivity| rewrite E; reflexivity| exact Hi| intros a; rewrite E; reflexivity].
      + intros r _. rewrite E. simpl ok_el. apply x_mr_sum.
  Qed.

  (* X categorical: the row sum needs no column *)
  Lemma csx_cat_rows_base i : kw = KCat -> i < nval mi ->
    ac_rows_base V (nval mw) i =x=
    Fin (wsum S (fun r => in_arr mi mc (ans r v) i k && ok_cat mw (ans r w))).
  Proof.
    intros E Hi. unfold ac_rows_base.
    apply (xsumn_cells S (nval mw) _
             (fun j' => ca_tabulate L_CSX v w kw S (lay_index L_CSX (nth i vi 0) (nth k vc 0) [nth j' vw 0]))
             (fun j' r => in_arr mi mc (ans r v) i k && contributes KCat (ans r w) [nth j' vw 0])).
    - intros j' _. apply csx_cat_cell. exact E.
    - intros j' _. apply (groupB_cellq L_CSX i _ (fun a => contributes KCat a [nth j' vw 0]));
        [reflexivity| rewrite E; reflexivity| exact Hi| intros a; rewrite E; reflexivity].
    - intros r _. apply x_cat_sum.
  Qed.

  (* ---- C X S: rows = X, columns = items ---- *)
  Let V' := ca_slice L_CXS v mi mc w kw mw S k.

  Lemma cxs_cat_cell i j : kw = KCat ->
    V' [i; j] = Fin (ca_tabulate L_CXS v w kw S (lay_index L_CXS (nth j vi 0) (nth k vc 0) [nth i vw 0])).
  Proof. intros E. subst V'. rewrite E. reflexivity. Qed.
  Lemma cxs_mr_cell i s j : kw = KMr ->
    V' [i; s; j] = Fin (ca_tabulate L_CXS v w kw S
                          (lay_index L_CXS (nth j vi 0) (nth k vc 0) [nth i vw 0; nth s mrv 0])).
  Proof. intros E. subst V'. rewrite E. reflexivity. Qed.

  Theorem cxs_counts i j : i < nval mw -> j < nval mi ->
    counts_of V' (kcls kw) CArr i j =x=
    Fin (wsum S (fun r => in_arr mi mc (ans r v) j k && in_el kw mw (ans r w) i)).
  Proof.
    intros Hi Hj. destruct Hw as [E | E].
    - rewrite E at 1. simpl counts_of. unfold ca_counts.
      refine (cell_eq S _ _ _ (cxs_cat_cell i j E) _).
      apply (groupB_cellq L_CXS j _ (fun a => in_el kw mw a i)); [reflexivity| rewrite E; reflexivity| exact Hj|].
      intros a. rewrite <- (contributes_xsel kw mw a i Hw Hi). rewrite E. reflexivity.
    - rewrite E at 1. simpl counts_of. unfold ma_counts.
      refine (cell_eq S _ _ _ (cxs_mr_cell i 0 j E) _).
      apply (groupB_cellq L_CXS j _ (fun a => in_el kw mw a i)); [reflexivity| rewrite E; reflexivity| exact Hj|].
      intros a. rewrite <- (contributes_xsel kw mw a i Hw Hi). rewrite E. reflexivity.
  Qed.

  Theorem cxs_column_bases i j : i < nval mw -> j < nval mi ->
    column_bases_of V' (nval mw) (length mrv) (kcls kw) CArr i j =x=
    Fin (wsum S (fun r => in_arr mi mc (ans r v) j k && ok_el kw mw (ans r w) i)).
  Proof.
    intros Hi Hj. destruct Hw as [E | E].
    - rewrite E at 1. simpl column_bases_of. unfold ca_columns_base.
      apply (xsumn_cells S (nval mw) _
               (fun i' => ca_tabulate L_CXS v w kw S (lay_index L_CXS (nth j vi 0) (nth k vc 0) [nth i' vw 0]))
               (fun i' r => in_arr mi mc (ans r v) j k && contributes KCat (ans r w) [nth i' vw 0])).
      + intros i' _. apply cxs_cat_cell. exact E.
      + intros i' _. apply (groupB_cellq L_CXS j _ (fun a => contributes KCat a [nth i' vw 0]));
          [reflexivity| rewrite E; reflexivity| exact Hj| intros a; rewrite E; reflexivity].
      + intros r _. rewrite E. simpl ok_el. apply x_cat_sum.
    - rewrite E at 1. simpl column_bases_of. unfold ma_column_bases.
      apply (xsumn_cells S (length mrv) _
               (fun s => ca_tabulate L_CXS v w kw S
                           (lay_index L_CXS (nth j vi 0) (nth k vc 0) [nth i vw 0; nth s mrv 0]))
               (fun s r => in_arr mi mc (ans r v) j k && contributes KMr (ans r w) [nth i vw 0; nth s mrv 0])).
      + intros s _. apply cxs_mr_cell. exact E.
      + intros s _. apply (groupB_cellq L_CXS j _ (fun a => contributes KMr a [nth i vw 0; nth s mrv 0]));
          [reflexivity| rewrite E; reflexivity| exact Hj| intros a; rewrite E; reflexivity].
      + intros r _. rewrite E. simpl ok_el. apply x_mr_sum.
  Qed.
  Lemma cxs_cat_columns_base j : kw = KCat -> j < nval mi ->
    ca_columns_base V' (nval mw) j =x=
    Fin (wsum S (fun r => in_arr mi mc (ans r v) j k && ok_cat mw (ans r w))).
  Proof.
    intros E Hj. unfold ca_columns_base.
    apply (xsumn_cells S (nval mw) _
             (fun i' => ca_tabulate L_CXS v w kw S (lay_index L_CXS (nth j vi 0) (nth k vc 0) [nth i' vw 0]))
             (fun i' r => in_arr mi mc (ans r v) j k && contributes KCat (ans r w) [nth i' vw 0])).
    - intros i' _. apply cxs_cat_cell. exact E.
    - intros i' _. apply (groupB_cellq L_CXS j _ (fun a => contributes KCat a [nth i' vw 0]));
        [reflexivity| rewrite E; reflexivity| exact Hj| intros a; rewrite E; reflexivity].
    - intros r _. apply x_cat_sum.
  Qed.
End GroupB.

(* ------------------------------------------------------------------------------------ *)
(** * Group C: the array's items are the table dimension (S C X, S X C).
      Partition k is the 2-D cube of item k AS A CATEGORICAL VARIABLE. *)

(* the survey in which item [item] of array variable v has become categorical variable 0
   (every other variable moves up by one) *)
Definition explode (v item : nat) (r : resp) : resp :=
  mkResp (item_ans (ans r v) item :: answers r) (weight r).
Definition explode_survey (v item : nat) (S : survey) : survey := map (explode v item) S.

Lemma ans_explode_0 v item r : ans (explode v item r) 0 = item_ans (ans r v) item.
Proof. reflexivity. Qed.
Lemma ans_explode_S v item r w : ans (explode v item r) (Datatypes.S w) = ans r w.
Proof. reflexivity. Qed.

Lemma wsum_eq S (P Q : resp -> bool) : (forall r, P r = Q r) -> wsum S P = wsum S Q.
Proof.
  intros H. unfold wsum. induction S as [|r S IH]; [reflexivity|].
  simpl. rewrite IH, H. reflexivity.
Qed.

Lemma wsum_explode v item S (P : resp -> bool) :
  wsum (explode_survey v item S) P = wsum S (fun r => P (explode v item r)).
Proof.
  unfold wsum, explode_survey. induction S as [|r S IH]; [reflexivity|].
  simpl. rewrite IH. reflexivity.
Qed.

Lemma wf_explode v item S : wf_survey S -> wf_survey (explode_survey v item S).
Proof.
  unfold wf_survey, explode_survey. intros H. apply Forall_forall. intros r Hr.
  apply in_map_iff in Hr. destruct Hr as [r' [<- Hr']]. simpl.
  exact (proj1 (Forall_forall _ _) H r' Hr').
Qed.

Lemma explode_unit_weights v item S :
  explode_survey v item (unit_weights S) = unit_weights (explode_survey v item S).
Proof. unfold explode_survey, unit_weights. rewrite !map_map. reflexivity. Qed.

(* the array cube at a fixed item = the categorical cube of the exploded survey *)
Lemma tabulate_explode_scx v w kw S item rest :
  tabulate [(v, KArr); (w, kw)] S (item :: rest)
  = tabulate [(0, KCat); (Datatypes.S w, kw)] (explode_survey v item S) rest.
Proof.
  unfold tabulate. rewrite wsum_explode. apply wsum_eq. intros r.
  destruct rest as [|c rest]; [reflexivity|].
  simpl. unfold explode, ans. simpl. rewrite acat_item_ans. reflexivity.
Qed.

Lemma tabulate_explode_sxc v w kw S item rest :
  cat_or_mr kw ->
  tabulate [(v, KArr); (w, kw)] S (lay_natural L_SXC kw (item :: rest))
  = tabulate [(Datatypes.S w, kw); (0, KCat)] (explode_survey v item S) rest.
Proof.
  intros Hw. unfold tabulate. rewrite wsum_explode. apply wsum_eq. intros r.
  destruct Hw as [-> | ->].
  - destruct rest as [|x [|c [|y rest]]]; simpl; unfold explode, ans; simpl; rewrite ?acat_item_ans; btauto.
  - destruct rest as [|x [|s [|c [|y rest]]]]; simpl; unfold explode, ans; simpl; rewrite ?acat_item_ans; btauto.
Qed.

(* S C X: rows = categories of item k, columns = X *)
Theorem ca_slice_item_is_cat_cube_scx S v mi mc w kw mw k idx :
  cat_or_mr kw ->
  ca_slice L_SCX v mi mc w kw mw S k idx
  = slice_of None 0 KCat mc (Datatypes.S w) kw mw (explode_survey v (nth k (valid_idxs mi) 0) S) 0 idx.
Proof.
  intros [-> | ->]; unfold ca_slice, slice_of, ca_raw, raw_of, ca_tabulate, slice_at, take_valid,
    cube_dims, cube_vars; simpl; apply f_equal; apply tabulate_explode_scx.
Qed.

(* S X C: rows = X, columns = categories of item k *)
Theorem ca_slice_item_is_cat_cube_sxc S v mi mc w kw mw k idx :
  cat_or_mr kw ->
  ca_slice L_SXC v mi mc w kw mw S k idx
  = slice_of None (Datatypes.S w) kw mw 0 KCat mc (explode_survey v (nth k (valid_idxs mi) 0) S) 0 idx.
Proof.
  intros Hw. pose proof (tabulate_explode_sxc v w kw S) as T.
  destruct Hw as [-> | ->]; unfold ca_slice, slice_of, ca_raw, raw_of, ca_tabulate, slice_at, take_valid,
    cube_dims, cube_vars; with_strategy opaque [lay_natural] simpl;
    apply f_equal; apply T; [left| right]; reflexivity.
Qed.

(* the extractors only read the tensor *)
Lemma xsumn_eq n f g : (forall k, f k = g k) -> xsumn n f = xsumn n g.
Proof. intros H. unfold xsumn, tab. f_equal. apply map_ext. exact H. Qed.

Lemma counts_of_ext V1 V2 rc cc i j :
  (forall idx, V1 idx = V2 idx) -> counts_of V1 rc cc i j = counts_of V2 rc cc i j.
Proof. intros H. destruct rc, cc; apply H. Qed.

Lemma row_bases_of_ext V1 V2 nc sc rc cc i j :
  (forall idx, V1 idx = V2 idx) -> row_bases_of V1 nc sc rc cc i j = row_bases_of V2 nc sc rc cc i j.
Proof. intros H. destruct rc, cc; try apply H; apply xsumn_eq; intros; apply H. Qed.

Lemma column_bases_of_ext V1 V2 nr sr rc cc i j :
  (forall idx, V1 idx = V2 idx) ->
  column_bases_of V1 nr sr rc cc i j = column_bases_of V2 nr sr rc cc i j.
Proof. intros H. destruct rc, cc; try apply H; apply xsumn_eq; intros; apply H. Qed.

Lemma table_bases_of_ext V1 V2 nr nc sr sc rc cc i j :
  (forall idx, V1 idx = V2 idx) ->
  table_bases_of V1 nr nc sr sc rc cc i j = table_bases_of V2 nr nc sr sc rc cc i j.
Proof.
  intros H. destruct rc, cc; try apply H; apply xsumn_eq; intros; try apply H;
    apply xsumn_eq; intros; apply H.
Qed.

(* membership / eligibility of item k of the array, as the categorical variable it is *)
Lemma in_arr_item mi mc a k c : k < nval mi ->
  in_cat mc (item_ans a (nth k (valid_idxs mi) 0)) c = in_arr mi mc a k c.
Proof. intros Hk. unfold in_arr. unfold nval in Hk. rewrite (ltb_true _ _ Hk). reflexivity. Qed.
Lemma ok_arr_item mi mc a k : k < nval mi ->
  ok_cat mc (item_ans a (nth k (valid_idxs mi) 0)) = ok_arr mi mc a k.
Proof. intros Hk. unfold ok_arr. unfold nval in Hk. rewrite (ltb_true _ _ Hk). reflexivity. Qed.

Section GroupC.
  Variable S : survey.
  Variables v w : nat.
  Variable kw : kind.
  Variables mi mc mw : list bool.
  Variable k : nat.                      (* partition = k-th valid ITEM of the array *)
  Hypothesis Hw : cat_or_mr kw.
  Hypothesis Hk : k < nval mi.
  Let S' := explode_survey v (nth k (valid_idxs mi) 0) S.

  Lemma in_el_explode kd (ms : list bool) r j :
    in_el kd ms (ans (explode v (nth k (valid_idxs mi) 0) r) (Datatypes.S w)) j = in_el kd ms (ans r w) j.
  Proof. reflexivity. Qed.

  (* S C X *)
  Theorem scx_counts c j : c < nval mc -> j < nval mw ->
    counts_of (ca_slice L_SCX v mi mc w kw mw S k) CCat (kcls kw) c j =x=
    Fin (wsum S (fun r => in_arr mi mc (ans r v) k c && in_el kw mw (ans r w) j)).
  Proof.
    intros Hc Hj.
    rewrite (counts_of_ext _ _ CCat (kcls kw) c j
               (fun idx => ca_slice_item_is_cat_cube_scx S v mi mc w kw mw k idx Hw)).
    eapply xeq_trans; [exact (counts_of_spec S' None 0 (Datatypes.S w) KCat kw mc mw 0 I (or_introl eq_refl) Hw
               (Nat.lt_0_1) c j Hc Hj)|].
    unfold S'. rewrite wsum_explode. simpl. apply wsum_ext. intros r _.
    rewrite ans_explode_0, ans_explode_S, (in_arr_item mi mc (ans r v) k c Hk). reflexivity.
  Qed.

  Theorem scx_row_bases c j : c < nval mc -> j < nval mw ->
    row_bases_of (ca_slice L_SCX v mi mc w kw mw S k) (nval mw) (length mrv) CCat (kcls kw) c j =x=
    Fin (wsum S (fun r => in_arr mi mc (ans r v) k c && ok_el kw mw (ans r w) j)).
  Proof.
    intros Hc Hj.
    rewrite (row_bases_of_ext _ _ (nval mw) (length mrv) CCat (kcls kw) c j
               (fun idx => ca_slice_item_is_cat_cube_scx S v mi mc w kw mw k idx Hw)).
    eapply xeq_trans; [exact (row_bases_of_spec S' None 0 (Datatypes.S w) KCat kw mc mw 0 I (or_introl eq_refl) Hw
               (Nat.lt_0_1) c j Hc Hj)|].
    unfold S'. rewrite wsum_explode. simpl. apply wsum_ext. intros r _.
    rewrite ans_explode_0, ans_explode_S, (in_arr_item mi mc (ans r v) k c Hk). reflexivity.
  Qed.

  Theorem scx_column_bases c j : c < nval mc -> j < nval mw ->
    column_bases_of (ca_slice L_SCX v mi mc w kw mw S k) (nval mc) (length mrv) CCat (kcls kw) c j =x=
    Fin (wsum S (fun r => ok_arr mi mc (ans r v) k && in_el kw mw (ans r w) j)).
  Proof.
    intros Hc Hj.
    rewrite (column_bases_of_ext _ _ (nval mc) (length mrv) CCat (kcls kw) c j
               (fun idx => ca_slice_item_is_cat_cube_scx S v mi mc w kw mw k idx Hw)).
    eapply xeq_trans; [exact (column_bases_of_spec S' None 0 (Datatypes.S w) KCat kw mc mw 0 I (or_introl eq_refl) Hw
               (Nat.lt_0_1) c j Hc Hj)|].
    unfold S'. rewrite wsum_explode. simpl. apply wsum_ext. intros r _.
    rewrite ans_explode_0, ans_explode_S, (ok_arr_item mi mc (ans r v) k Hk). reflexivity.
  Qed.

  Theorem scx_table_bases c j : c < nval mc -> j < nval mw ->
    table_bases_of (ca_slice L_SCX v mi mc w kw mw S k) (nval mc) (nval mw) (length mrv) (length mrv)
                   CCat (kcls kw) c j =x=
    Fin (wsum S (fun r => ok_arr mi mc (ans r v) k && ok_el kw mw (ans r w) j)).
  Proof.
    intros Hc Hj.
    rewrite (table_bases_of_ext _ _ (nval mc) (nval mw) (length mrv) (length mrv) CCat (kcls kw) c j
               (fun idx => ca_slice_item_is_cat_cube_scx S v mi mc w kw mw k idx Hw)).
    eapply xeq_trans; [exact (table_bases_of_spec S' None 0 (Datatypes.S w) KCat kw mc mw 0 I (or_introl eq_refl) Hw
               (Nat.lt_0_1) c j Hc Hj)|].
    unfold S'. rewrite wsum_explode. simpl. apply wsum_ext. intros r _.
    rewrite ans_explode_0, ans_explode_S, (ok_arr_item mi mc (ans r v) k Hk). reflexivity.
  Qed.

  (* S X C *)
  Theorem sxc_counts j c : j < nval mw -> c < nval mc ->
    counts_of (ca_slice L_SXC v mi mc w kw mw S k) (kcls kw) CCat j c =x=
    Fin (wsum S (fun r => in_el kw mw (ans r w) j && in_arr mi mc (ans r v) k c)).
  Proof.
    intros Hj Hc.
    rewrite (counts_of_ext _ _ (kcls kw) CCat j c
               (fun idx => ca_slice_item_is_cat_cube_sxc S v mi mc w kw mw k idx Hw)).
    eapply xeq_trans; [exact (counts_of_spec S' None (Datatypes.S w) 0 kw KCat mw mc 0 I Hw (or_introl eq_refl)
               (Nat.lt_0_1) j c Hj Hc)|].
    unfold S'. rewrite wsum_explode. simpl. apply wsum_ext. intros r _.
    rewrite ans_explode_0, ans_explode_S, (in_arr_item mi mc (ans r v) k c Hk). reflexivity.
  Qed.

  Theorem sxc_row_bases j c : j < nval mw -> c < nval mc ->
    row_bases_of (ca_slice L_SXC v mi mc w kw mw S k) (nval mc) (length mrv) (kcls kw) CCat j c =x=
    Fin (wsum S (fun r => in_el kw mw (ans r w) j && ok_arr mi mc (ans r v) k)).
  Proof.
    intros Hj Hc.
    rewrite (row_bases_of_ext _ _ (nval mc) (length mrv) (kcls kw) CCat j c
               (fun idx => ca_slice_item_is_cat_cube_sxc S v mi mc w kw mw k idx Hw)).
    eapply xeq_trans; [exact (row_bases_of_spec S' None (Datatypes.S w) 0 kw KCat mw mc 0 I Hw (or_introl eq_refl)
               (Nat.lt_0_1) j c Hj Hc)|].
    unfold S'. rewrite wsum_explode. simpl. apply wsum_ext. intros r _.
    rewrite ans_explode_0, ans_explode_S, (ok_arr_item mi mc (ans r v) k Hk). reflexivity.
  Qed.

  Theorem sxc_column_bases j c : j < nval mw -> c < nval mc ->
    column_bases_of (ca_slice L_SXC v mi mc w kw mw S k) (nval mw) (length mrv) (kcls kw) CCat j c =x=
    Fin (wsum S (fun r => ok_el kw mw (ans r w) j && in_arr mi mc (ans r v) k c)).
  Proof.
    intros Hj Hc.
    rewrite (column_bases_of_ext _ _ (nval mw) (length mrv) (kcls kw) CCat j c
               (fun idx => ca_slice_item_is_cat_cube_sxc S v mi mc w kw mw k idx Hw)).
    eapply xeq_trans; [exact (column_bases_of_spec S' None (Datatypes.S w) 0 kw KCat mw mc 0 I Hw (or_introl eq_refl)
               (Nat.lt_0_1) j c Hj Hc)|].
    unfold S'. rewrite wsum_explode. simpl. apply wsum_ext. intros r _.
    rewrite ans_explode_0, ans_explode_S, (in_arr_item mi mc (ans r v) k c Hk). reflexivity.
  Qed.

  Theorem sxc_table_bases j c : j < nval mw -> c < nval mc ->
    table_bases_of (ca_slice L_SXC v mi mc w kw mw S k) (nval mw) (nval mc) (length mrv) (length mrv)
                   (kcls kw) CCat j c =x=
    Fin (wsum S (fun r => ok_el kw mw (ans r w) j && ok_arr mi mc (ans r v) k)).
  Proof.
    intros Hj Hc.
    rewrite (table_bases_of_ext _ _ (nval mw) (nval mc) (length mrv) (length mrv) (kcls kw) CCat j c
               (fun idx => ca_slice_item_is_cat_cube_sxc S v mi mc w kw mw k idx Hw)).
    eapply xeq_trans; [exact (table_bases_of_spec S' None (Datatypes.S w) 0 kw KCat mw mc 0 I Hw (or_introl eq_refl)
               (Nat.lt_0_1) j c Hj Hc)|].
    unfold S'. rewrite wsum_explode. simpl. apply wsum_ext. intros r _.
    rewrite ans_explode_0, ans_explode_S, (ok_arr_item mi mc (ans r v) k Hk). reflexivity.
  Qed.
End GroupC.

(* ------------------------------------------------------------------------------------ *)
(** * Unweighted counts are head counts *)

Lemma headcount_of S (x : xq) (P : resp -> bool) :
  x =x= Fin (wsum (unit_weights S) P) ->
  (forall r w, P (mkResp (answers r) w) = P r) ->
  x =x= Fin (inject_Z (Z.of_nat (length (filter P S)))).
Proof.
  intros Hx HP. eapply xeq_trans; [exact Hx|]. simpl. apply wsum_unit_headcount. exact HP.
Qed.

Theorem arr_rows_counts_headcount S l v w kw mi mc mw k i c :
  cat_or_mr kw -> k < lay_nt l mi mc mw -> rows_items l -> i < nval mi -> c < nval mc ->
  counts_of (ca_slice l v mi mc w kw mw (unit_weights S) k) CArr CCat i c =x=
  Fin (inject_Z (Z.of_nat (length (filter
        (fun r => lay_pop l kw mw (ans r w) k && in_arr mi mc (ans r v) i c) S)))).
Proof.
  intros Hw Hk Hl Hi Hc. apply headcount_of.
  - exact (arr_rows_counts (unit_weights S) l v w kw mi mc mw k Hw Hk i c Hl Hi Hc).
  - intros r x. reflexivity.
Qed.

Theorem arr_cols_counts_headcount S l v w kw mi mc mw k c i :
  cat_or_mr kw -> k < lay_nt l mi mc mw -> cols_items l -> c < nval mc -> i < nval mi ->
  counts_of (ca_slice l v mi mc w kw mw (unit_weights S) k) CCat CArr c i =x=
  Fin (inject_Z (Z.of_nat (length (filter
        (fun r => lay_pop l kw mw (ans r w) k && in_arr mi mc (ans r v) i c) S)))).
Proof.
  intros Hw Hk Hl Hc Hi. apply headcount_of.
  - exact (arr_cols_counts (unit_weights S) l v w kw mi mc mw k Hw Hk c i Hl Hc Hi).
  - intros r x. reflexivity.
Qed.

Theorem csx_counts_headcount S v w kw mi mc mw k i j :
  cat_or_mr kw -> k < nval mc -> i < nval mi -> j < nval mw ->
  counts_of (ca_slice L_CSX v mi mc w kw mw (unit_weights S) k) CArr (kcls kw) i j =x=
  Fin (inject_Z (Z.of_nat (length (filter
        (fun r => in_arr mi mc (ans r v) i k && in_el kw mw (ans r w) j) S)))).
Proof.
  intros Hw Hk Hi Hj. apply headcount_of.
  - exact (csx_counts (unit_weights S) v w kw mi mc mw k Hw Hk i j Hi Hj).
  - intros r x. reflexivity.
Qed.

Theorem cxs_counts_headcount S v w kw mi mc mw k i j :
  cat_or_mr kw -> k < nval mc -> i < nval mw -> j < nval mi ->
  counts_of (ca_slice L_CXS v mi mc w kw mw (unit_weights S) k) (kcls kw) CArr i j =x=
  Fin (inject_Z (Z.of_nat (length (filter
        (fun r => in_arr mi mc (ans r v) j k && in_el kw mw (ans r w) i) S)))).
Proof.
  intros Hw Hk Hi Hj. apply headcount_of.
  - exact (cxs_counts (unit_weights S) v w kw mi mc mw k Hw Hk i j Hi Hj).
  - intros r x. reflexivity.
Qed.

Theorem scx_counts_headcount S v w kw mi mc mw k c j :
  cat_or_mr kw -> k < nval mi -> c < nval mc -> j < nval mw ->
  counts_of (ca_slice L_SCX v mi mc w kw mw (unit_weights S) k) CCat (kcls kw) c j =x=
  Fin (inject_Z (Z.of_nat (length (filter
        (fun r => in_arr mi mc (ans r v) k c && in_el kw mw (ans r w) j) S)))).
Proof.
  intros Hw Hk Hc Hj. apply headcount_of.
  - exact (scx_counts (unit_weights S) v w kw mi mc mw k Hw Hk c j Hc Hj).
  - intros r x. reflexivity.
Qed.

Theorem sxc_counts_headcount S v w kw mi mc mw k j c :
  cat_or_mr kw -> k < nval mi -> j < nval mw -> c < nval mc ->
  counts_of (ca_slice L_SXC v mi mc w kw mw (unit_weights S) k) (kcls kw) CCat j c =x=
  Fin (inject_Z (Z.of_nat (length (filter
        (fun r => in_el kw mw (ans r w) j && in_arr mi mc (ans r v) k c) S)))).
Proof.
  intros Hw Hk Hj Hc. apply headcount_of.
  - exact (sxc_counts (unit_weights S) v w kw mi mc mw k Hw Hk j c Hj Hc).
  - intros r x. reflexivity.
Qed.

(* ------------------------------------------------------------------------------------ *)
(** * ARR x ARR *)

(* Class level: whenever the slice tensor handed to _ArrXArrCubeCounts has the meaning
   "V[i;j] = respondents with P i j" (e.g. answered a fixed category on item i of one array AND a
   fixed category on item j of another), counts and all three bases are that number. *)
Section ArrArr.
  Variable S : survey.
  Variable V : tensor.
  Variable P : nat -> nat -> resp -> bool.
  Variables nr nc : nat.
  Hypothesis HV : forall i j, i < nr -> j < nc -> V [i; j] =x= Fin (wsum S (P i j)).

  Theorem arr_arr_class sr sc i j : i < nr -> j < nc ->
    counts_of V CArr CArr i j =x= Fin (wsum S (P i j)) /\
    row_bases_of V nc sc CArr CArr i j =x= Fin (wsum S (P i j)) /\
    column_bases_of V nr sr CArr CArr i j =x= Fin (wsum S (P i j)) /\
    table_bases_of V nr nc sr sc CArr CArr i j =x= Fin (wsum S (P i j)).
  Proof. intros Hi Hj. repeat split; exact (HV i j Hi Hj). Qed.
End ArrArr.

(* the plane (category ka of array a, category kb of array b) of the tensor of two arrays:
   items of a x items of b *)
Definition two_arrays_plane va mia mca ka vb mib mcb kb (S : survey) : tensor :=
  fun idx => match idx with
             | [i; j] => Fin (tabulate [(va, KArr); (vb, KArr)] S
                                [nth i (valid_idxs mia) 0; nth ka (valid_idxs mca) 0;
                                 nth j (valid_idxs mib) 0; nth kb (valid_idxs mcb) 0])
             | _ => NaN
             end.

Lemma two_arrays_plane_cell va mia mca ka vb mib mcb kb S i j :
  i < nval mia -> ka < nval mca -> j < nval mib -> kb < nval mcb ->
  two_arrays_plane va mia mca ka vb mib mcb kb S [i; j] =x=
  Fin (wsum S (fun r => in_arr mia mca (ans r va) i ka && in_arr mib mcb (ans r vb) j kb)).
Proof.
  intros Hi Hka Hj Hkb. unfold two_arrays_plane, tabulate. simpl. apply wsum_ext. intros r _.
  rewrite (in_arr_gave mia mca (ans r va) i ka Hi Hka), (in_arr_gave mib mcb (ans r vb) j kb Hj Hkb).
  unfold gave. btauto.
Qed.

(* ... but no cube of at most three (apparent) dimensions reaches the class: every array brings
   its categories dimension along, so two CA_SUBVAR dimensions need four. *)
Definition is_casub (d : dimd) : bool := match dk d with DCaSubvar => true | _ => false end.
Definition is_dcat (d : dimd) : bool := match dk d with DCat => true | _ => false end.
Definition count_if (f : dimd -> bool) (ds : list dimd) : nat := length (filter f ds).

Lemma count_if_app f l1 l2 : count_if f (l1 ++ l2) = count_if f l1 + count_if f l2.
Proof. unfold count_if. rewrite filter_app, app_length. reflexivity. Qed.

Lemma count_if_rev f l : count_if f (rev l) = count_if f l.
Proof.
  induction l as [|a t IH]; [reflexivity|]. simpl rev. rewrite count_if_app, IH.
  unfold count_if. simpl. destruct (f a); simpl; lia.
Qed.

Lemma apparent_counts ds : count_if is_casub ds + count_if is_dcat ds <= length (apparent ds).
Proof.
  unfold count_if, apparent, is_casub, is_dcat, is_mrcat.
  induction ds as [|d t IH]; [simpl; lia|]. simpl. destruct (dk d); simpl; lia.
Qed.

Lemma cls_arr_is_casub d : dk d <> DNumArr -> cls_of d = CArr -> is_casub d = true.
Proof. unfold cls_of, is_casub. destruct (dk d); congruence. Qed.

Theorem arr_arr_needs_four_dims ds si :
  (forall d, In d ds -> dk d <> DNumArr) ->
  count_if is_casub ds <= count_if is_dcat ds ->
  slice_info_of ds = Some si ->
  cls_of (si_row si) = CArr -> cls_of (si_col si) = CArr ->
  4 <= si_ndim si.
Proof.
  intros Hna Hcnt Hsi Hr Hc.
  assert (Hna' : forall d, In d (rev ds) -> dk d <> DNumArr)
    by (intros d Hd; apply Hna; apply in_rev; exact Hd).
  assert (H2 : 2 <= count_if is_casub (rev ds) /\ si_ndim si = length (apparent ds)).
  { unfold slice_info_of in Hsi.
    destruct (rev ds) as [|c0 [|d0 rest0]] eqn:E; simpl in Hsi; try discriminate.
    destruct (is_mrcat c0).
    - (* columns = d0 *)
      destruct rest0 as [|c1 [|d1 rest1]]; simpl in Hsi; try discriminate.
      + inversion Hsi; subst si; simpl in *. split; [|reflexivity].
        pose proof (cls_arr_is_casub d0 (Hna' d0 (or_intror (or_introl eq_refl))) Hc) as A.
        pose proof (cls_arr_is_casub c1 (Hna' c1 (or_intror (or_intror (or_introl eq_refl)))) Hr) as B.
        unfold count_if. simpl. rewrite A, B. destruct (is_casub c0); simpl; lia.
      + destruct (is_mrcat c1); inversion Hsi; subst si; simpl in *; (split; [|reflexivity]).
        * pose proof (cls_arr_is_casub d0 (Hna' d0 (or_intror (or_introl eq_refl))) Hc) as A.
          pose proof (cls_arr_is_casub d1 (Hna' d1 (or_intror (or_intror (or_intror (or_introl eq_refl))))) Hr) as B.
          unfold count_if. simpl. rewrite A, B.
          destruct (is_casub c0), (is_casub c1); simpl; lia.
        * pose proof (cls_arr_is_casub d0 (Hna' d0 (or_intror (or_introl eq_refl))) Hc) as A.
          pose proof (cls_arr_is_casub c1 (Hna' c1 (or_intror (or_intror (or_introl eq_refl)))) Hr) as B.
          unfold count_if. simpl. rewrite A, B.
          destruct (is_casub c0); simpl; lia.
    - (* columns = c0 *)
      destruct rest0 as [|d1 rest1]; simpl in Hsi.
      + inversion Hsi; subst si; simpl in *. split; [|reflexivity].
        pose proof (cls_arr_is_casub c0 (Hna' c0 (or_introl eq_refl)) Hc) as A.
        pose proof (cls_arr_is_casub d0 (Hna' d0 (or_intror (or_introl eq_refl))) Hr) as B.
        unfold count_if. simpl. rewrite A, B. simpl. lia.
      + destruct (is_mrcat d0); inversion Hsi; subst si; simpl in *; (split; [|reflexivity]).
        * pose proof (cls_arr_is_casub c0 (Hna' c0 (or_introl eq_refl)) Hc) as A.
          pose proof (cls_arr_is_casub d1 (Hna' d1 (or_intror (or_intror (or_introl eq_refl)))) Hr) as B.
          unfold count_if. simpl. rewrite A, B. destruct (is_casub d0); simpl; lia.
        * pose proof (cls_arr_is_casub c0 (Hna' c0 (or_introl eq_refl)) Hc) as A.
          pose proof (cls_arr_is_casub d0 (Hna' d0 (or_intror (or_introl eq_refl))) Hr) as B.
          unfold count_if. simpl. rewrite A, B. simpl. lia. }
  destruct H2 as [H2 ->]. rewrite count_if_rev in H2.
  pose proof (apparent_counts ds). lia.
Qed.

(* in particular none of the eight layouts of one array and one other variable *)
Lemma layouts_never_arr_arr l kw : cat_or_mr kw -> (lay_rcls l kw, lay_ccls l kw) <> (CArr, CArr).
Proof. intros [-> | ->]; destruct l; discriminate. Qed.
