(* Proofs about Model/Share.v – the lemma family behind property C15. *)
From Coq Require Import QArith ZArith List Bool Lia Arith Setoid Morphisms.
From CC Require Import Base.XQ Base.ListX Model.Subtotals Model.Share.
Import ListNotations.
Local Close Scope Q_scope.
Local Open Scope nat_scope.

(* a value the sum measure can carry: a finite number or NaN (unavailable) *)
Definition fin_or_nan (a : xq) : Prop := match a with Fin _ | NaN => True | Inf _ => False end.

(* ---- nansum over finite-or-NaN lists --------------------------------------------- *)
Fixpoint qnansum (l : list xq) : Q :=
  match l with
  | [] => 0%Q
  | Fin q :: t => (q + qnansum t)%Q
  | _ :: t => qnansum t
  end.

Lemma nansum_fin l : Forall fin_or_nan l -> nansum l = Fin (qnansum l).
Proof.
  induction l as [|a t IH]; intros H; simpl; auto.
  inversion H as [|a' t' Ha Ht]; subst. rewrite (IH Ht).
  destruct a; simpl in *; auto; tauto.
Qed.

Lemma nansum_map_div l t :
  Forall fin_or_nan l -> ~ (t == 0)%Q ->
  nansum (map (fun x => xdiv x (Fin t)) l) =x= xdiv (nansum l) (Fin t).
Proof.
  intros Hl Ht. rewrite (nansum_fin l Hl).
  rewrite xdiv_fin by exact Ht.
  induction l as [|a r IH]; simpl.
  - unfold Qdiv. rewrite Qmult_0_l. reflexivity.
  - inversion Hl as [|a' r' Ha Hr]; subst. specialize (IH Hr).
    destruct a as [q|b|]; simpl in *; [ | tauto | exact IH ].
    apply qzero_false in Ht. rewrite Ht. simpl.
    destruct (nansum (map (fun x => xdiv x (Fin t)) r)) as [s| |] eqn:E; simpl in *; try tauto.
    rewrite IH. unfold Qdiv. ring.
Qed.

Lemma div_self_one t : ~ (t == 0)%Q -> xdiv (Fin t) (Fin t) =x= Fin 1.
Proof. intros H. rewrite xdiv_fin by exact H. simpl. field. exact H. Qed.

(* shares of a list of base cells add up to 1 when their total is a non-zero number *)
Lemma shares_sum_one l t :
  Forall fin_or_nan l -> nansum l = Fin t -> ~ (t == 0)%Q ->
  nansum (map (fun x => xdiv x (nansum l)) l) =x= Fin 1.
Proof.
  intros Hl Ht Hnz. rewrite Ht. rewrite (nansum_map_div l t Hl Hnz). rewrite Ht.
  apply div_self_one. exact Hnz.
Qed.

(* ---- additivity: (sum of finite addends) / t = sum of (addend / t) ------------------ *)
Definition is_finite (a : xq) : Prop := match a with Fin _ => True | _ => False end.

Lemma xsum_finite (r : list xq) : Forall is_finite r -> exists s, xsum r = Fin s.
Proof.
  induction r as [|b u IHu]; intros Hr; simpl; [eexists; reflexivity|].
  inversion Hr as [|b' u' Hb Hu]; subst. destruct (IHu Hu) as [s Hs]. rewrite Hs.
  destruct b; simpl in Hb; try tauto. eexists; reflexivity.
Qed.

Lemma xsum_map_div (l : list xq) t :
  Forall is_finite l -> ~ (t == 0)%Q ->
  xdiv (xsum l) (Fin t) =x= xsum (map (fun x => xdiv x (Fin t)) l).
Proof.
  intros Hl Ht. induction l as [|a r IH]; simpl.
  - apply qzero_false in Ht. rewrite Ht. simpl. unfold Qdiv. ring.
  - inversion Hl as [|a' r' Ha Hr]; subst. specialize (IH Hr).
    destruct a as [q| |]; simpl in Ha; try tauto.
    destruct (xsum_finite r Hr) as [s Hs]. rewrite Hs in *. simpl.
    pose proof Ht as Ht'. apply qzero_false in Ht'. rewrite Ht'. simpl.
    simpl in IH. rewrite Ht' in IH.
    destruct (xsum (map (fun x => xdiv x (Fin t)) r)) as [s'| |]; simpl in *; try tauto.
    rewrite <- IH. unfold Qdiv. ring.
Qed.

(* ---- pointwise definitions of the share blocks (inside the bounds) ------------------- *)
Section Pointwise.
  Variable sums : mat.
  Variable nr nc : nat.
  Variable rsubs csubs : list subtotal.
  Let SB := sb sums nr nc rsubs csubs.
  Let CS := col_share sums nr nc rsubs csubs.
  Let RS := row_share sums nr nc rsubs csubs.
  Let TS := total_share sums nr nc rsubs csubs.

  Lemma col_share_base i j : i < nr -> j < nc ->
    mnth (b_base CS) i j = xdiv (mnth sums i j) (col_total sums nr j).
  Proof. intros. unfold CS, col_share; simpl. rewrite tab2_mnth; auto. Qed.
  Lemma col_share_rows k j : k < length rsubs -> j < nc ->
    mnth (b_rows CS) k j = xdiv (mnth (b_rows SB) k j) (col_total sums nr j).
  Proof. intros. unfold CS, col_share; simpl. rewrite tab2_mnth; auto. Qed.
  Lemma col_share_cols i l : i < nr -> l < length csubs ->
    mnth (b_cols CS) i l = xdiv (mnth (b_cols SB) i l) (subcol_total sums nr nc rsubs csubs l).
  Proof. intros. unfold CS, col_share; simpl. rewrite tab2_mnth; auto. Qed.
  Lemma col_share_inter k l : k < length rsubs -> l < length csubs ->
    mnth (b_inter CS) k l = xdiv (mnth (b_inter SB) k l) (subcol_total sums nr nc rsubs csubs l).
  Proof. intros. unfold CS, col_share; simpl. rewrite tab2_mnth; auto. Qed.

  Lemma row_share_base i j : i < nr -> j < nc ->
    mnth (b_base RS) i j = xdiv (mnth sums i j) (row_total sums nc i).
  Proof. intros. unfold RS, row_share; simpl. rewrite tab2_mnth; auto. Qed.
  Lemma row_share_cols i l : i < nr -> l < length csubs ->
    mnth (b_cols RS) i l = xdiv (mnth (b_cols SB) i l) (row_total sums nc i).
  Proof. intros. unfold RS, row_share; simpl. rewrite tab2_mnth; auto. Qed.
  Lemma row_share_rows k j : k < length rsubs -> j < nc ->
    mnth (b_rows RS) k j = xdiv (mnth (b_rows SB) k j) (subrow_total sums nr nc rsubs csubs k).
  Proof. intros. unfold RS, row_share; simpl. rewrite tab2_mnth; auto. Qed.
  Lemma row_share_inter k l : k < length rsubs -> l < length csubs ->
    mnth (b_inter RS) k l = xdiv (mnth (b_inter SB) k l) (subrow_total sums nr nc rsubs csubs k).
  Proof. intros. unfold RS, row_share; simpl. rewrite tab2_mnth; auto. Qed.

  Lemma total_share_all :
    (forall i j, i < nr -> j < nc ->
       mnth (b_base TS) i j = xdiv (mnth sums i j) (table_total sums nr nc)) /\
    (forall i l, i < nr -> l < length csubs ->
       mnth (b_cols TS) i l = xdiv (mnth (b_cols SB) i l) (table_total sums nr nc)) /\
    (forall k j, k < length rsubs -> j < nc ->
       mnth (b_rows TS) k j = xdiv (mnth (b_rows SB) k j) (table_total sums nr nc)) /\
    (forall k l, k < length rsubs -> l < length csubs ->
       mnth (b_inter TS) k l = xdiv (mnth (b_inter SB) k l) (table_total sums nr nc)).
  Proof.
    unfold TS, total_share; simpl.
    repeat split; intros; rewrite tab2_mnth; auto.
  Qed.

  (* the inserted blocks the shares are computed from are the signed sums of the addends'
     and subtrahends' SUMS (NaN for a difference) *)
  Lemma sb_rows k j : k < length rsubs -> j < nc ->
    mnth (b_rows SB) k j =
      let s := nth k rsubs (mkSub [] []) in
      if has_subs s then NaN
      else xsub (xsum (map (fun i => mnth sums i j) (s_add s)))
                (xsum (map (fun i => mnth sums i j) (s_sub s))).
  Proof.
    intros. unfold SB, sb, sum_blocks; simpl. rewrite tab2_mnth; auto.
  Qed.
  Lemma sb_cols i l : i < nr -> l < length csubs ->
    mnth (b_cols SB) i l =
      let s := nth l csubs (mkSub [] []) in
      if has_subs s then NaN
      else xsub (xsum (map (fun j => mnth sums i j) (s_add s)))
                (xsum (map (fun j => mnth sums i j) (s_sub s))).
  Proof.
    intros. unfold SB, sb, sum_blocks; simpl. rewrite tab2_mnth; auto.
  Qed.

  (* base-cell shares of a column add up to 1 (NaN cells are skipped, as in nansum) *)
  Lemma col_share_sum_one j t : j < nc ->
    (forall i, i < nr -> fin_or_nan (mnth sums i j)) ->
    col_total sums nr j = Fin t -> ~ (t == 0)%Q ->
    nansum (tab nr (fun i => mnth (b_base CS) i j)) =x= Fin 1.
  Proof.
    intros Hj Hf Ht Hnz.
    assert (E : tab nr (fun i => mnth (b_base CS) i j) =
                map (fun x => xdiv x (nansum (tab nr (fun i => mnth sums i j))))
                    (tab nr (fun i => mnth sums i j))).
    { unfold tab. rewrite map_map. apply map_ext_in. intros i Hi.
      apply in_seq in Hi. rewrite col_share_base by lia. reflexivity. }
    rewrite E. apply (shares_sum_one _ t); auto.
    apply Forall_forall. intros x Hx. unfold tab in Hx. apply in_map_iff in Hx.
    destruct Hx as [i [Hi1 Hi2]]. subst. apply in_seq in Hi2. apply Hf. lia.
  Qed.

  Lemma row_share_sum_one i t : i < nr ->
    (forall j, j < nc -> fin_or_nan (mnth sums i j)) ->
    row_total sums nc i = Fin t -> ~ (t == 0)%Q ->
    nansum (tab nc (fun j => mnth (b_base RS) i j)) =x= Fin 1.
  Proof.
    intros Hi Hf Ht Hnz.
    assert (E : tab nc (fun j => mnth (b_base RS) i j) =
                map (fun x => xdiv x (nansum (tab nc (fun j => mnth sums i j))))
                    (tab nc (fun j => mnth sums i j))).
    { unfold tab. rewrite map_map. apply map_ext_in. intros j Hj.
      apply in_seq in Hj. rewrite row_share_base by lia. reflexivity. }
    rewrite E. apply (shares_sum_one _ t); auto.
    apply Forall_forall. intros x Hx. unfold tab in Hx. apply in_map_iff in Hx.
    destruct Hx as [j [Hj1 Hj2]]. subst. apply in_seq in Hj2. apply Hf. lia.
  Qed.

  (* the column share of a row subtotal (no subtrahends) is the sum of its addends'
     column shares *)
  Lemma col_share_subtotal_additive k j t : k < length rsubs -> j < nc ->
    let s := nth k rsubs (mkSub [] []) in
    has_subs s = false ->
    (forall i, In i (s_add s) -> i < nr /\ is_finite (mnth sums i j)) ->
    col_total sums nr j = Fin t -> ~ (t == 0)%Q ->
    mnth (b_rows CS) k j =x= xsum (map (fun i => mnth (b_base CS) i j) (s_add s)).
  Proof.
    intros Hk Hj s Hs Hadd Ht Hnz.
    rewrite col_share_rows by assumption. rewrite sb_rows by assumption. cbv zeta. fold s.
    rewrite Hs. unfold has_subs in Hs. destruct (s_sub s) eqn:Esub; [|discriminate].
    simpl. rewrite Ht.
    assert (E1 : xsub (xsum (map (fun i => mnth sums i j) (s_add s))) (Fin 0)
                 =x= xsum (map (fun i => mnth sums i j) (s_add s))).
    { unfold xsub. simpl.
      destruct (xsum (map (fun i => mnth sums i j) (s_add s))); simpl; auto. ring. }
    rewrite E1.
    rewrite xsum_map_div; auto.
    - rewrite map_map.
      assert (E2 : map (fun i => xdiv (mnth sums i j) (Fin t)) (s_add s) =
                   map (fun i => mnth (b_base CS) i j) (s_add s)).
      { apply map_ext_in. intros i Hi. destruct (Hadd i Hi) as [Hlt _].
        rewrite col_share_base by assumption. rewrite Ht. reflexivity. }
      rewrite E2. reflexivity.
    - apply Forall_forall. intros x Hx. apply in_map_iff in Hx.
      destruct Hx as [i [Hi1 Hi2]]. subst. apply Hadd. exact Hi2.
  Qed.

  Lemma row_share_subtotal_additive i l t : i < nr -> l < length csubs ->
    let s := nth l csubs (mkSub [] []) in
    has_subs s = false ->
    (forall j, In j (s_add s) -> j < nc /\ is_finite (mnth sums i j)) ->
    row_total sums nc i = Fin t -> ~ (t == 0)%Q ->
    mnth (b_cols RS) i l =x= xsum (map (fun j => mnth (b_base RS) i j) (s_add s)).
  Proof.
    intros Hi Hl s Hs Hadd Ht Hnz.
    rewrite row_share_cols by assumption. rewrite sb_cols by assumption. cbv zeta. fold s.
    rewrite Hs. unfold has_subs in Hs. destruct (s_sub s) eqn:Esub; [|discriminate].
    simpl. rewrite Ht.
    assert (E1 : xsub (xsum (map (fun j => mnth sums i j) (s_add s))) (Fin 0)
                 =x= xsum (map (fun j => mnth sums i j) (s_add s))).
    { unfold xsub. simpl.
      destruct (xsum (map (fun j => mnth sums i j) (s_add s))); simpl; auto. ring. }
    rewrite E1.
    rewrite xsum_map_div; auto.
    - rewrite map_map.
      assert (E2 : map (fun j => xdiv (mnth sums i j) (Fin t)) (s_add s) =
                   map (fun j => mnth (b_base RS) i j) (s_add s)).
      { apply map_ext_in. intros j Hj. destruct (Hadd j Hj) as [Hlt _].
        rewrite row_share_base by assumption. rewrite Ht. reflexivity. }
      rewrite E2. reflexivity.
    - apply Forall_forall. intros x Hx. apply in_map_iff in Hx.
      destruct Hx as [j [Hj1 Hj2]]. subst. apply Hadd. exact Hj2.
  Qed.

  (* total share of a row subtotal = sum of its addends' total shares (per column) *)
  Lemma total_share_subtotal_additive k j t : k < length rsubs -> j < nc ->
    let s := nth k rsubs (mkSub [] []) in
    has_subs s = false ->
    (forall i, In i (s_add s) -> i < nr /\ is_finite (mnth sums i j)) ->
    table_total sums nr nc = Fin t -> ~ (t == 0)%Q ->
    mnth (b_rows TS) k j =x= xsum (map (fun i => mnth (b_base TS) i j) (s_add s)).
  Proof.
    intros Hk Hj s Hs Hadd Ht Hnz.
    destruct total_share_all as [Hb [_ [Hr _]]].
    set (RHS := xsum (map (fun i => mnth (b_base TS) i j) (s_add s))).
    rewrite Hr by assumption. rewrite sb_rows by assumption. cbv zeta. fold s.
    rewrite Hs. unfold has_subs in Hs. destruct (s_sub s) eqn:Esub; [|discriminate].
    simpl. rewrite Ht. subst RHS.
    assert (E1 : xsub (xsum (map (fun i => mnth sums i j) (s_add s))) (Fin 0)
                 =x= xsum (map (fun i => mnth sums i j) (s_add s))).
    { unfold xsub. simpl.
      destruct (xsum (map (fun i => mnth sums i j) (s_add s))); simpl; auto. ring. }
    rewrite E1.
    rewrite xsum_map_div; auto.
    - rewrite map_map.
      assert (E2 : map (fun i => xdiv (mnth sums i j) (Fin t)) (s_add s) =
                   map (fun i => mnth (b_base TS) i j) (s_add s)).
      { apply map_ext_in. intros i Hi. destruct (Hadd i Hi) as [Hlt _].
        rewrite Hb by assumption. rewrite Ht. reflexivity. }
      rewrite E2. reflexivity.
    - apply Forall_forall. intros x Hx. apply in_map_iff in Hx.
      destruct Hx as [i [Hi1 Hi2]]. subst. apply Hadd. exact Hi2.
  Qed.
End Pointwise.

(* strand *)
Lemma stripe_share_sum_one sums t :
  Forall fin_or_nan sums -> nansum sums = Fin t -> ~ (t == 0)%Q ->
  nansum (stripe_share_base sums) =x= Fin 1.
Proof. intros. unfold stripe_share_base. apply (shares_sum_one sums t); auto. Qed.

Lemma stripe_share_nth sums i : i < length sums ->
  vnth (stripe_share_base sums) i = xdiv (vnth sums i) (nansum sums).
Proof.
  intros H. unfold stripe_share_base, vnth.
  rewrite (nth_indep _ NaN (xdiv NaN (nansum sums))) by (rewrite map_length; exact H).
  rewrite (map_nth (fun x => xdiv x (nansum sums)) sums NaN i). reflexivity.
Qed.
