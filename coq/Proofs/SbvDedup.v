(* [first_mentions] (Model/Collator.v: tuple(dict.fromkeys(...)) of the sort-by-value display
   order): members, no duplicates, identity on duplicate-free lists, commutation with filters,
   concatenations, the dict-insertion reading.  Used by C05 (order_nodup), C08 (shape of the
   display order) and Proofs/OrderVisible.v (C09: who is shown). *)
From Coq Require Import List ZArith Bool Lia Arith.
From CC Require Import Spec.OrderSpec Model.Collator.
Import ListNotations.
Local Open Scope nat_scope.

Definition zneqb (z : Z) : Z -> bool := fun y => negb (Z.eqb y z).

Lemma first_mentions_cons z t :
  first_mentions (z :: t) = z :: filter (zneqb z) (first_mentions t).
Proof. reflexivity. Qed.

Lemma zneqb_true z y : zneqb z y = true <-> y <> z.
Proof.
  unfold zneqb. rewrite negb_true_iff. split.
  - intros H E. subst. rewrite Z.eqb_refl in H. discriminate.
  - intros H. apply Z.eqb_neq. exact H.
Qed.

Theorem first_mentions_in l z : In z (first_mentions l) <-> In z l.
Proof.
  induction l as [|x t IH]; [tauto|].
  rewrite first_mentions_cons. simpl. rewrite filter_In, IH, zneqb_true.
  destruct (Z.eq_dec x z) as [E|E]; [tauto|]. split.
  - intros [H|[H _]]; auto.
  - intros [H|H]; [contradiction|]. right. split; auto.
Qed.

Lemma NoDup_filter_any {A} (p : A -> bool) l : NoDup l -> NoDup (filter p l).
Proof.
  induction 1 as [|x t Hx Ht IH]; simpl; [constructor|].
  destruct (p x); auto. constructor; auto. intros I. apply filter_In in I. tauto.
Qed.

Lemma NoDup_app_disj {A} (a b : list A) :
  NoDup a -> NoDup b -> (forall x, In x a -> ~ In x b) -> NoDup (a ++ b).
Proof.
  induction 1 as [|x t Hx Ht IH]; simpl; intros Nb D; auto.
  constructor.
  - intros I. apply in_app_or in I. destruct I as [I|I]; [contradiction|].
    apply (D x); auto.
  - apply IH; auto.
Qed.

Theorem first_mentions_nodup l : NoDup (first_mentions l).
Proof.
  induction l as [|x t IH]; [constructor|].
  rewrite first_mentions_cons. constructor.
  - intros I. apply filter_In in I. destruct I as [_ I]. apply zneqb_true in I. congruence.
  - apply NoDup_filter_any. exact IH.
Qed.

Lemma filter_all_true {A} (p : A -> bool) l : (forall x, In x l -> p x = true) -> filter p l = l.
Proof.
  induction l as [|x t IH]; simpl; intros H; auto.
  rewrite (H x) by auto. f_equal. apply IH. intros y Hy. apply H. auto.
Qed.

(* nothing to do on a duplicate-free list *)
Theorem first_mentions_id l : NoDup l -> first_mentions l = l.
Proof.
  induction 1 as [|x t Hx Ht IH]; [reflexivity|].
  rewrite first_mentions_cons, IH. f_equal. apply filter_all_true.
  intros y Hy. apply zneqb_true. intros E. subst. contradiction.
Qed.

Lemma filter_swap {A} (p q : A -> bool) l : filter p (filter q l) = filter q (filter p l).
Proof.
  induction l as [|x t IH]; simpl; auto.
  destruct (p x) eqn:P, (q x) eqn:Q; simpl; rewrite ?P, ?Q, IH; reflexivity.
Qed.

Lemma filter_implied {A} (p q : A -> bool) l :
  (forall y, p y = true -> q y = true) -> filter p (filter q l) = filter p l.
Proof.
  intros H. induction l as [|x t IH]; simpl; auto.
  destruct (q x) eqn:Q; simpl.
  - rewrite IH. reflexivity.
  - destruct (p x) eqn:P; auto. rewrite (H x P) in Q. discriminate.
Qed.

Lemma filter_and {A} (p q : A -> bool) l :
  filter p (filter q l) = filter (fun y => p y && q y) l.
Proof.
  induction l as [|x t IH]; simpl; auto.
  destruct (q x) eqn:Q; simpl; destruct (p x) eqn:P; simpl; rewrite IH; reflexivity.
Qed.

(* filtering before or after the de-duplication is the same *)
Theorem first_mentions_filter (p : Z -> bool) l :
  first_mentions (filter p l) = filter p (first_mentions l).
Proof.
  induction l as [|x t IH]; [reflexivity|].
  rewrite first_mentions_cons. simpl. destruct (p x) eqn:P.
  - rewrite first_mentions_cons, IH. f_equal. apply filter_swap.
  - rewrite IH. symmetry. apply filter_implied.
    intros y Py. apply zneqb_true. intros E. subst. congruence.
Qed.

Definition znotin (a : list Z) : Z -> bool := fun y => negb (zmem y a).

Lemma zmem_In z l : zmem z l = true <-> In z l.
Proof.
  unfold zmem. rewrite existsb_exists. split.
  - intros (x & Hx & E). apply Z.eqb_eq in E. subst. exact Hx.
  - intros H. exists z. split; auto. apply Z.eqb_refl.
Qed.

Lemma znotin_true a y : znotin a y = true <-> ~ In y a.
Proof.
  unfold znotin. rewrite negb_true_iff. split.
  - intros H I. apply zmem_In in I. congruence.
  - intros H. destruct (zmem y a) eqn:E; auto. apply zmem_In in E. contradiction.
Qed.

(* a later list contributes what the earlier one has not mentioned *)
Theorem first_mentions_app a b :
  first_mentions (a ++ b) = first_mentions a ++ filter (znotin a) (first_mentions b).
Proof.
  induction a as [|x a IH].
  - simpl. symmetry. apply filter_all_true. reflexivity.
  - rewrite <- app_comm_cons, !first_mentions_cons, IH, filter_app, <- app_comm_cons.
    f_equal. f_equal. rewrite filter_and. apply filter_ext. intros y.
    unfold znotin, zneqb. simpl. rewrite negb_orb. reflexivity.
Qed.

Theorem first_mentions_app_disjoint a b :
  (forall z, In z b -> ~ In z a) ->
  first_mentions (a ++ b) = first_mentions a ++ first_mentions b.
Proof.
  intros H. rewrite first_mentions_app. f_equal. apply filter_all_true.
  intros y Hy. apply znotin_true. apply H. apply first_mentions_in. exact Hy.
Qed.

(* the dict-insertion reading of dict.fromkeys: a key is appended when it is not there yet *)
Theorem first_mentions_snoc l z :
  first_mentions (l ++ [z]) = if zmem z l then first_mentions l else first_mentions l ++ [z].
Proof.
  rewrite first_mentions_app. simpl. unfold znotin.
  destruct (zmem z l); simpl; [apply app_nil_r|reflexivity].
Qed.

(* position of the first mention: what stands before it in the result are the first mentions of
   what stands before it in the input *)
Theorem first_mentions_prefix a z b :
  ~ In z a ->
  first_mentions (a ++ z :: b)
  = first_mentions a ++ z :: filter (znotin (a ++ [z])) (first_mentions b).
Proof.
  intros N. rewrite first_mentions_app, first_mentions_cons. simpl.
  assert (Z : znotin a z = true) by (apply znotin_true; exact N). rewrite Z.
  f_equal. f_equal. rewrite filter_and. apply filter_ext. intros y.
  unfold znotin, zneqb, zmem. rewrite existsb_app. simpl. rewrite negb_orb, orb_false_r.
  reflexivity.
Qed.
