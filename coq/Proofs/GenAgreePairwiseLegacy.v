(* Proofs/GenAgreePairwiseLegacy.v -- GenAgree for C13:
   (1) the LEGACY path: what measures/pairwise_significance.py SAYS NOW for
         _ColumnPairwiseSignificance(slice_, col_idx, ..).t_stats
       denotes [legacy_t] of Model/Pairwise.v on the slice's displayed arrays: the statistic (signed
       square; NO abs under the root: a negative variance sum is NaN) of every column against column
       col_idx of the same row, with base  columns_margin ** 2 / columns_squared_base  when the
       squared base is given and  columns_base  otherwise; columns_margin / columns_base are vectors
       (one value per column) or, for MR rows, matrices; columns_squared_base is ALWAYS a vector --
       the open finding C13-legacy-squared-base-first-row-mr is about what the SLICE puts into that
       vector, which this lemma does not touch (the model is faithful to the code).
   (2) the index sets: what cubepart.py SAYS NOW for the static method
         _Slice._pairwise_indices(p_vals, t_stats, alpha, only_larger, col_idx)
       denotes [indices_col] of Model/Pairwise.v:  p < alpha, and t < 0 under only_larger, the
       selected column's own position excluded, positions ascending.
   See GenAgreePairTac.v. *)
From Coq Require Import QArith Qabs ZArith List Bool Lia Arith String.
From CC Require Import Base.XQ Base.ListX Base.MeasureExp Base.PairExp Model.Pairwise Model.PairwiseP
     Gen.PairwiseSrc Proofs.GenAgreePairTac.
Import ListNotations.
Local Close Scope Q_scope.
Local Open Scope string_scope.
Local Open Scope nat_scope.

(* ---- (1) legacy t_stats ----------------------------------------------------------------- *)
Definition lslice (mr : bool) (props W UB : list (list xq)) (wv ubv sqv : list xq) (s : string) : mval :=
  if String.eqb s "column_proportions" then VMat DR DC (mnth props)
  else if String.eqb s "columns_margin" then (if mr then VMat DR DC (mnth W) else VVec DC (vnth wv))
  else if String.eqb s "columns_base" then (if mr then VMat DR DC (mnth UB) else VVec DC (vnth ubv))
  else if String.eqb s "columns_squared_base" then VVec DC (vnth sqv)
  else VErr.
Definition l_noblk (_ : string) (_ _ : nat) : list (list xq) := [].
Definition l_nocube (_ _ : string) : mval := VErr.

Definition penv_legacy (nr nc c : nat) (mr : bool) (props W UB : list (list xq)) (wv ubv sqv : list xq)
           (flag : string -> bool) (cdf : xq -> xq -> xq) : penv :=
  mkPenv (psize nr nc 0 0) (sel_ix (Z.of_nat c)) no_loop l_noblk no_pblock l_nocube
         (lslice mr props W UB wv ubv sqv) no_cube3 flag cdf no_ncdf no_pscal no_ovrows.

(* the matrix the harness hands to the model: the array itself (MR rows) or the vector broadcast *)
Definition lmat (mr : bool) (M : list (list xq)) (v : list xq) (nr nc : nat) : list (list xq) :=
  if mr then M else tab2 nr nc (fun _ j => vnth v j).

Lemma gen_Legacy_t_stats :
  match src_Legacy_t_stats with
  | Some e => forall nr nc c mr props W UB wv ubv sqv flag cdf,
      shaped props nr nc -> c < nc ->
      pagrees_mat (penv_legacy nr nc c mr props W UB wv ubv sqv flag cdf)
                  (pev true (penv_legacy nr nc c mr props W UB wv ubv sqv flag cdf) e) DR DC
                  (mnth (legacy_t props (lmat mr W wv nr nc) (lmat mr UB ubv nr nc)
                                  (if flag "columns_squared_base is not None" then Some sqv else None) c))
  | None => True
  end.
Proof.
  punfold_srcs;
  lazymatch goal with
  | |- True => exact I
  | _ =>
      intros nr nc c mr props W UB wv ubv sqv flag cdf [HPr HPc] Hc;
      cbv [penv_legacy lslice l_noblk l_nocube]; pair_eval;
      destruct (flag "columns_squared_base is not None") eqn:Hf; destruct mr;
      rewrite ?nidx_nat by assumption; pair_eval; pcells i j Hi Hj; shape_use;
      unfold legacy_t, lmat; rewrite HPr, HPc; rewrite tab2_mnth by assumption;
      rewrite ?tab2_mnth by assumption;
      unfold legacy_tabs, legacy_base, prop_var, option_map, ssq; rewrite xdiv_sqrt_guard; reflexivity
  end.
Qed.

(* ---- (2) index sets ------------------------------------------------------------------------ *)
Definition idx_arr (P T : list (list xq)) (s : string) : list (list xq) :=
  if String.eqb s "p_vals" then P else if String.eqb s "t_stats" then T else [].
Definition idx_scal (alpha : Q) (s : string) : xq := if String.eqb s "alpha" then Fin alpha else NaN.
Definition idx_flag (ol : bool) (s : string) : bool := if String.eqb s "only_larger" then ol else false.
Definition idx_opt (own : nat) (s : string) : option Z :=
  if String.eqb s "col_idx" then Some (Z.of_nat own) else None.

Definition benv_std (rows cols : nat) (P T : list (list xq)) (alpha : Q) (ol : bool) (own : nat) : benv :=
  mkBenv rows cols (idx_arr P T) (idx_scal alpha) (idx_flag ol) (idx_opt own).

Lemma filter_ext_seq (f g : nat -> bool) n : (forall j, f j = g j) -> filter f (seq 0 n) = filter g (seq 0 n).
Proof. intros H. apply filter_ext. exact H. Qed.

Lemma gen_Slice__pairwise_indices :
  match psrc_Slice__pairwise_indices with
  | Some b => forall rows cols P T alpha ol own,
      nrows P = rows -> (forall i, i < rows -> List.length (mrow P i) = cols) -> own < cols ->
      ipev (benv_std rows cols P T alpha ol own) b = Some (indices_col alpha ol own P T)
  | None => True
  end.
Proof.
  punfold_srcs;
  lazymatch goal with
  | |- True => exact I
  | _ =>
      intros rows cols P T alpha ol own HPr HPl Hown;
      cbv [ipev bmev benv_std be_rows be_cols be_arr be_scal be_flag be_opt idx_arr idx_scal idx_flag
           idx_opt option_map String.eqb Ascii.eqb Bool.eqb];
      destruct ol; rewrite ?nidx_nat by assumption; cbv beta iota;
      (apply f_equal; unfold rows_where, indices_col, tab; cbv [be_rows be_cols]; rewrite HPr;
       apply map_ext_in; intros i Hin; apply in_seq in Hin;
       unfold indices_row; rewrite (HPl i) by lia;
       apply filter_ext_seq; intros j; unfold sig_cell, mnth, mrow;
       destruct (Nat.eqb j own); cbv [negb andb orb];
       repeat lazymatch goal with
              | |- context [xltb ?a ?b] => destruct (xltb a b)
              end; reflexivity)
  end.
Qed.
